/-
C01 helper lemmas, part 1: the index-based `_add_point` / `_remove_point` of Model/Timeline.lean
expressed structurally (split of the sorted point list at the search index), and the link predicate.
-/
import PartituraModel.Model.Timeline

namespace TL

-- ------------------------------------------------------------------ list index helpers

theorem getElem?_app_len {α} (l r : List α) : (l ++ r)[l.length]? = r.head? := by
  induction l with
  | nil => cases r <;> simp
  | cons a l ih => simpa using ih

theorem getElem?_app_len_succ {α} (l : List α) (a : α) (r : List α) :
    (l ++ a :: r)[l.length + 1]? = r.head? := by
  have := getElem?_app_len (l ++ [a]) r
  simpa using this

theorem getElem?_concat_len_pred {α} (l : List α) (a : α) (r : List α) :
    ((l ++ [a]) ++ r)[(l ++ [a]).length - 1]? = some a := by
  induction l with
  | nil => simp
  | cons b l ih => simpa using ih

theorem insertIdx_app_len {α} (l r : List α) (a : α) : (l ++ r).insertIdx l.length a = l ++ a :: r := by
  induction l with
  | nil => cases r <;> simp
  | cons b l ih => simpa using ih

theorem eraseIdx_app_len {α} (l r : List α) (a : α) : (l ++ a :: r).eraseIdx l.length = l ++ r := by
  induction l with
  | nil => simp
  | cons b l ih => simpa using ih

theorem set_app_len {α} (l r : List α) (a b : α) : (l ++ a :: r).set l.length b = l ++ b :: r := by
  induction l with
  | nil => simp
  | cons c l ih => simpa using ih

theorem set_app_len_succ {α} (l r : List α) (a b c : α) :
    (l ++ a :: b :: r).set (l.length + 1) c = l ++ a :: c :: r := by
  have := set_app_len (l ++ [a]) r b c
  simpa using this

-- ------------------------------------------------------------------ searchsorted splits the list

theorem searchsorted_split (pts : List Point) (x : Int) :
    ∃ pre post, pts = pre ++ post ∧ (∀ p ∈ pre, p.t < x) ∧ (∀ b ∈ post.head?, x ≤ b.t)
      ∧ searchsorted (pts.map (·.t)) x = pre.length := by
  induction pts with
  | nil => exact ⟨[], [], by simp [searchsorted]⟩
  | cons p ps ih =>
    obtain ⟨pre, post, h1, h2, h3, h4⟩ := ih
    by_cases hp : p.t < x
    · refine ⟨p :: pre, post, by simp [h1], ?_, h3, ?_⟩
      · intro q hq
        rcases List.mem_cons.mp hq with rfl | hq
        · exact hp
        · exact h2 q hq
      · simp [searchsorted, hp, h4]
    · refine ⟨[], p :: ps, by simp, by simp, ?_, ?_⟩
      · intro b hb
        simp at hb
        subst hb
        omega
      · simp [searchsorted, hp]

theorem searchsorted_tab_split (tab : List (Int × Nat)) (x : Int) :
    ∃ pre post, tab = pre ++ post ∧ (∀ p ∈ pre, p.1 < x) ∧ (∀ b ∈ post.head?, x ≤ b.1)
      ∧ searchsorted (tab.map (·.1)) x = pre.length := by
  induction tab with
  | nil => exact ⟨[], [], by simp [searchsorted]⟩
  | cons p ps ih =>
    obtain ⟨pre, post, h1, h2, h3, h4⟩ := ih
    by_cases hp : p.1 < x
    · refine ⟨p :: pre, post, by simp [h1], ?_, h3, ?_⟩
      · intro q hq
        rcases List.mem_cons.mp hq with rfl | hq
        · exact hp
        · exact h2 q hq
      · simp [searchsorted, hp, h4]
    · refine ⟨[], p :: ps, by simp, by simp, ?_, ?_⟩
      · intro b hb
        simp at hb
        subst hb
        omega
      · simp [searchsorted, hp]

/-- the prefix length determines `searchsorted` -/
theorem searchsorted_app (pre post : List Int) (x : Int) (h1 : ∀ p ∈ pre, p < x)
    (h2 : ∀ b ∈ post.head?, x ≤ b) : searchsorted (pre ++ post) x = pre.length := by
  induction pre with
  | nil =>
    cases post with
    | nil => simp [searchsorted]
    | cons b r =>
      have : x ≤ b := h2 b (by simp)
      simp [searchsorted]
      omega
  | cons p pre ih =>
    have hp : p < x := h1 p (by simp)
    have := ih (fun q hq => h1 q (by simp [hq]))
    simp [searchsorted, hp, this]

-- ------------------------------------------------------------------ links

/-- links inside a segment: the first `prev` is `pv`, the last `next` is `nx` -/
def LinksSeg : Option Int → List Point → Option Int → Prop
  | _, [], _ => True
  | pv, p :: rest, nx =>
    p.prev = pv ∧ p.next = (match rest with | [] => nx | q :: _ => some q.t) ∧ LinksSeg (some p.t) rest nx

def lastT : List Point → Option Int → Option Int
  | [], pv => pv
  | p :: rest, _ => lastT rest (some p.t)

def headT : List Point → Option Int → Option Int
  | [], nx => nx
  | q :: _, _ => some q.t

theorem linksFrom_iff_seg (pv : Option Int) (l : List Point) : LinksFrom pv l ↔ LinksSeg pv l none := by
  induction l generalizing pv with
  | nil => simp [LinksFrom, LinksSeg]
  | cons p rest ih =>
    simp only [LinksFrom, LinksSeg, ih]
    cases rest <;> simp

theorem linksSeg_append (pv nx : Option Int) (l r : List Point) :
    LinksSeg pv (l ++ r) nx ↔ LinksSeg pv l (headT r nx) ∧ LinksSeg (lastT l pv) r nx := by
  induction l generalizing pv with
  | nil => simp [LinksSeg, lastT]
  | cons p rest ih =>
    simp only [List.cons_append, LinksSeg, ih, lastT]
    cases rest with
    | nil =>
      cases r <;> simp [headT, LinksSeg, lastT, and_assoc]
    | cons q rest' => simp [and_assoc]

/-- set the `next` of the last point -/
def setLastNext : List Point → Option Int → List Point
  | [], _ => []
  | [a], nx => [{ a with next := nx }]
  | a :: b :: r, nx => a :: setLastNext (b :: r) nx

/-- set the `prev` of the first point -/
def setHeadPrev : List Point → Option Int → List Point
  | [], _ => []
  | b :: r, pv => { b with prev := pv } :: r

theorem setLastNext_concat (l : List Point) (a : Point) (nx : Option Int) :
    setLastNext (l ++ [a]) nx = l ++ [{ a with next := nx }] := by
  induction l with
  | nil => simp [setLastNext]
  | cons b l ih =>
    cases l with
    | nil => simp [setLastNext]
    | cons c l => simp [setLastNext] at ih ⊢; exact ih

theorem linksSeg_setLastNext (pv nx nx' : Option Int) (l : List Point) (h : LinksSeg pv l nx) :
    LinksSeg pv (setLastNext l nx') nx' := by
  induction l generalizing pv with
  | nil => simp [setLastNext, LinksSeg]
  | cons a l ih =>
    cases l with
    | nil => simp [setLastNext, LinksSeg] at h ⊢; exact h.1
    | cons b r =>
      simp only [LinksSeg] at h
      have := ih (some a.t) h.2.2
      simp only [setLastNext, LinksSeg]
      refine ⟨h.1, ?_, this⟩
      cases r <;> simp [setLastNext, h.2.1]

theorem linksSeg_setHeadPrev (pv pv' nx : Option Int) (l : List Point) (h : LinksSeg pv l nx) :
    LinksSeg pv' (setHeadPrev l pv') nx := by
  cases l with
  | nil => simp [setHeadPrev, LinksSeg]
  | cons b r =>
    simp only [LinksSeg] at h
    exact ⟨rfl, h.2.1, h.2.2⟩

theorem lastT_setLastNext (l : List Point) (nx pv : Option Int) : lastT (setLastNext l nx) pv = lastT l pv := by
  induction l generalizing pv with
  | nil => simp [setLastNext]
  | cons a l ih =>
    cases l with
    | nil => simp [setLastNext, lastT]
    | cons b r => simp only [setLastNext, lastT]; exact ih _

theorem headT_setHeadPrev (l : List Point) (pv nx : Option Int) : headT (setHeadPrev l pv) nx = headT l nx := by
  cases l <;> simp [setHeadPrev, headT]

theorem lastT_concat (l : List Point) (a : Point) (pv : Option Int) : lastT (l ++ [a]) pv = some a.t := by
  induction l generalizing pv with
  | nil => simp [lastT]
  | cons b l ih => simp only [List.cons_append, lastT]; exact ih _

-- ------------------------------------------------------------------ _add_point, structurally

/-- a point as `get_or_add_point` creates it -/
def freshPoint (t : Int) (q : Nat) : Point :=
  { t := t, quarter := q, prev := none, next := none, starting := [], ending := [] }

/-- the result of inserting the fresh point between `pre` and `post` and relinking -/
def insertLinked (pre post : List Point) (t : Int) (q : Nat) : List Point :=
  setLastNext pre (some t)
    ++ { freshPoint t q with prev := lastT pre none, next := headT post none } :: setHeadPrev post (some t)

theorem linkPair_at (l : List Point) (a b : Point) (r : List Point) :
    linkPair (l ++ a :: b :: r) l.length
      = .ok (l ++ { a with next := some b.t } :: { b with prev := some a.t } :: r) := by
  unfold linkPair
  rw [getElem?_app_len, getElem?_app_len_succ]
  simp only [List.head?_cons]
  rw [set_app_len, set_app_len_succ]

/-- `addPoint` with the search index as a parameter -/
def addPointAt (pts : List Point) (tp : Point) (i : Nat) : Except Err (List Point) :=
  let doInsert : Bool := match pts[i]? with
    | none => true
    | some p => p.t != tp.t
  if doInsert then do
    let pts1 := pts.insertIdx i tp
    let pts2 ← if i > 0 then linkPair pts1 (i - 1) else pure pts1
    let pts3 ← if i + 1 < pts2.length then linkPair pts2 i else pure pts2
    pure pts3
  else pure pts

theorem addPoint_eq_at (pts : List Point) (tp : Point) :
    addPoint pts tp = addPointAt pts tp (searchsorted (pts.map (·.t)) tp.t) := rfl

theorem searchsorted_points_app (pre post : List Point) (t : Int)
    (h1 : ∀ p ∈ pre, p.t < t) (h2 : ∀ b ∈ post.head?, t ≤ b.t) :
    searchsorted ((pre ++ post).map (·.t)) t = pre.length := by
  have := searchsorted_app (pre.map (·.t)) (post.map (·.t)) t
    (by simpa using h1) (by
      cases post with
      | nil => simp
      | cons b r => have := h2 b (by simp); simpa using this)
  simpa using this

theorem addPoint_present (pre post : List Point) (b : Point) (t : Int) (q : Nat)
    (h1 : ∀ p ∈ pre, p.t < t) (hb : b.t = t) :
    addPoint (pre ++ b :: post) (freshPoint t q) = .ok (pre ++ b :: post) := by
  have hs := searchsorted_points_app pre (b :: post) t h1 (by simp [hb])
  rw [addPoint_eq_at, show (freshPoint t q).t = t from rfl, hs]
  simp [addPointAt, freshPoint, getElem?_app_len, hb]
  rfl

theorem addPoint_absent (pre post : List Point) (t : Int) (q : Nat)
    (h1 : ∀ p ∈ pre, p.t < t) (h2 : ∀ b ∈ post.head?, t < b.t) :
    addPoint (pre ++ post) (freshPoint t q) = .ok (insertLinked pre post t q) := by
  have hs := searchsorted_points_app pre post t h1 (fun b hb => by have := h2 b hb; omega)
  rw [addPoint_eq_at, show (freshPoint t q).t = t from rfl, hs]
  have hdo : (match (pre ++ post)[pre.length]? with
      | none => true
      | some p => p.t != (freshPoint t q).t) = true := by
    rw [getElem?_app_len]
    cases post with
    | nil => simp
    | cons b r => have := h2 b (by simp); simp [freshPoint]; omega
  unfold addPointAt
  simp only [hdo, if_true, insertIdx_app_len]
  rcases List.eq_nil_or_concat pre with rfl | ⟨pre', a, rfl⟩
  · -- no predecessor
    cases post with
    | nil => simp [insertLinked, setLastNext, setHeadPrev, lastT, headT, freshPoint, bind, Except.bind, pure, Except.pure]
    | cons b r =>
      have := linkPair_at [] (freshPoint t q) b r
      simp only [List.nil_append, List.length_nil] at this
      simp [insertLinked, setLastNext, setHeadPrev, lastT, headT, bind, Except.bind, pure,
        Except.pure, this]
      simp [freshPoint]
  · -- predecessor `a`
    simp only [List.concat_eq_append] at *
    have hlen : (pre' ++ [a]).length = pre'.length + 1 := by simp
    have e1 : ∀ post, linkPair (pre' ++ [a] ++ freshPoint t q :: post) ((pre' ++ [a]).length - 1)
        = .ok (pre' ++ [{ a with next := some t }] ++ { freshPoint t q with prev := some a.t } :: post) := by
      intro post
      have := linkPair_at pre' a (freshPoint t q) post
      simpa [freshPoint] using this
    have hpos : (pre' ++ [a]).length > 0 := by omega
    simp only [hpos, if_true, e1, bind, Except.bind]
    cases post with
    | nil =>
      have hn : ¬ ((pre' ++ [a]).length + 1 < (pre' ++ [{ a with next := some t }]
          ++ [{ freshPoint t q with prev := some a.t }]).length) := by simp
      simp only [hn, if_false]
      simp [insertLinked, setLastNext_concat, setHeadPrev, lastT_concat, headT, freshPoint, pure, Except.pure]
    | cons b r =>
      have hy : (pre' ++ [a]).length + 1 < (pre' ++ [{ a with next := some t }]
          ++ { freshPoint t q with prev := some a.t } :: b :: r).length := by simp; omega
      simp only [hy, if_true]
      have := linkPair_at (pre' ++ [{ a with next := some t }]) { freshPoint t q with prev := some a.t } b r
      have hl2 : (pre' ++ [{ a with next := some t }]).length = (pre' ++ [a]).length := by simp
      rw [hl2] at this
      rw [this]
      simp [insertLinked, setLastNext_concat, setHeadPrev, lastT_concat, headT, freshPoint, pure, Except.pure]

-- ------------------------------------------------------------------ _remove_point, structurally

def removePointAt (pts : List Point) (t : Int) (i : Nat) : Except Err (List Point) :=
  match pts[i]? with
  | none => .error .index
  | some p =>
    if p.t ≠ t then pure pts
    else
      let pts1 := pts.eraseIdx i
      let prv : Option Point := if i > 0 then pts1[i - 1]? else none
      let nxt : Option Point := pts1[i]?
      let pts2 := match prv with
        | some a => pts1.set (i - 1) { a with next := nxt.map (·.t) }
        | none => pts1
      let pts3 := match nxt with
        | some b => pts2.set i { b with prev := prv.map (·.t) }
        | none => pts2
      pure pts3

theorem removePoint_eq_at (pts : List Point) (t : Int) :
    removePoint pts t = removePointAt pts t (searchsorted (pts.map (·.t)) t) := rfl

/-- the result of deleting the point between `pre` and `post` and linking the neighbours -/
def eraseLinked (pre post : List Point) : List Point :=
  setLastNext pre (headT post none) ++ setHeadPrev post (lastT pre none)

theorem removePoint_present (pre post : List Point) (p : Point) (t : Int)
    (h1 : ∀ a ∈ pre, a.t < t) (hp : p.t = t) :
    removePoint (pre ++ p :: post) t = .ok (eraseLinked pre post) := by
  have hs := searchsorted_points_app pre (p :: post) t h1 (by simp [hp])
  rw [removePoint_eq_at, hs]
  unfold removePointAt
  rw [getElem?_app_len]
  simp only [List.head?_cons, hp, ne_eq, not_true_eq_false, if_false, eraseIdx_app_len]
  rcases List.eq_nil_or_concat pre with rfl | ⟨pre', a, rfl⟩
  · cases post with
    | nil => simp [eraseLinked, setLastNext, setHeadPrev, pure, Except.pure]
    | cons b r => simp [eraseLinked, setLastNext, setHeadPrev, lastT, pure, Except.pure]
  · simp only [List.concat_eq_append] at *
    have hpos : (pre' ++ [a]).length > 0 := by simp
    have e1 : ∀ post : List Point, (pre' ++ [a] ++ post)[(pre' ++ [a]).length - 1]? = some a :=
      fun post => getElem?_concat_len_pred pre' a post
    have e2 : (pre' ++ [a]).length - 1 = pre'.length := by simp
    simp only [hpos, if_true, e1, getElem?_app_len]
    cases post with
    | nil =>
      simp only [List.head?_nil, Option.map_none, List.append_nil, e2]
      have := set_app_len pre' [] a { a with next := none }
      simp only [this]
      simp [eraseLinked, setLastNext_concat, setHeadPrev, headT, pure, Except.pure]
    | cons b r =>
      simp only [List.head?_cons, Option.map_some, e2]
      have h1' := set_app_len pre' (b :: r) a { a with next := some b.t }
      have h2' := set_app_len (pre' ++ [{ a with next := some b.t }]) r b { b with prev := some a.t }
      simp only [List.append_assoc, List.cons_append, List.nil_append, List.length_append, List.length_cons,
        List.length_nil] at h1' h2' ⊢
      rw [h1', h2']
      simp [eraseLinked, setLastNext_concat, setHeadPrev, headT, lastT_concat, pure, Except.pure]

theorem removePoint_other (pre post : List Point) (p : Point) (t : Int)
    (h1 : ∀ a ∈ pre, a.t < t) (hp : t < p.t) :
    removePoint (pre ++ p :: post) t = .ok (pre ++ p :: post) := by
  have hs := searchsorted_points_app pre (p :: post) t h1 (by simp; omega)
  rw [removePoint_eq_at, hs]
  unfold removePointAt
  rw [getElem?_app_len]
  have : p.t ≠ t := by omega
  simp [this, pure, Except.pure]

-- ------------------------------------------------------------------ what relinking leaves alone

/-- a point without its links -/
def Point.unlink (p : Point) : Point := { p with prev := none, next := none }

@[simp] theorem unlink_t (p : Point) : p.unlink.t = p.t := rfl
@[simp] theorem unlink_quarter (p : Point) : p.unlink.quarter = p.quarter := rfl
@[simp] theorem unlink_starting (p : Point) : p.unlink.starting = p.starting := rfl
@[simp] theorem unlink_ending (p : Point) : p.unlink.ending = p.ending := rfl
@[simp] theorem unlink_reg (p : Point) (sd : Side) : p.unlink.reg sd = p.reg sd := by cases sd <;> rfl

theorem unlink_eq {p p' : Point} (h : p.unlink = p'.unlink) :
    p.t = p'.t ∧ p.quarter = p'.quarter ∧ p.starting = p'.starting ∧ p.ending = p'.ending
      ∧ ∀ sd, p.reg sd = p'.reg sd := by
  have h1 := congrArg Point.t h
  have h2 := congrArg Point.quarter h
  have h3 := congrArg Point.starting h
  have h4 := congrArg Point.ending h
  simp only [unlink_t, unlink_quarter, unlink_starting, unlink_ending] at h1 h2 h3 h4
  refine ⟨h1, h2, h3, h4, fun sd => ?_⟩
  cases sd <;> simp [Point.reg, h3, h4]

theorem unlink_setLastNext (l : List Point) (nx : Option Int) :
    (setLastNext l nx).map Point.unlink = l.map Point.unlink := by
  induction l with
  | nil => simp [setLastNext]
  | cons a l ih =>
    cases l with
    | nil => simp [setLastNext, Point.unlink]
    | cons b r => simp only [setLastNext, List.map_cons] at ih ⊢; rw [ih]

theorem unlink_setHeadPrev (l : List Point) (pv : Option Int) :
    (setHeadPrev l pv).map Point.unlink = l.map Point.unlink := by
  cases l <;> simp [setHeadPrev, Point.unlink]

theorem unlink_insertLinked (pre post : List Point) (t : Int) (q : Nat) :
    (insertLinked pre post t q).map Point.unlink = (pre ++ freshPoint t q :: post).map Point.unlink := by
  simp [insertLinked, unlink_setLastNext, unlink_setHeadPrev, Point.unlink, freshPoint]

theorem unlink_eraseLinked (pre post : List Point) :
    (eraseLinked pre post).map Point.unlink = (pre ++ post).map Point.unlink := by
  simp [eraseLinked, unlink_setLastNext, unlink_setHeadPrev]

theorem mem_of_unlink_eq {l l' : List Point} (h : l'.map Point.unlink = l.map Point.unlink) {p' : Point}
    (hp : p' ∈ l') : ∃ p ∈ l, p.unlink = p'.unlink := by
  have : p'.unlink ∈ l'.map Point.unlink := List.mem_map_of_mem hp
  rw [h] at this
  obtain ⟨p, hp, he⟩ := List.mem_map.mp this
  exact ⟨p, hp, he⟩

theorem times_of_unlink_eq {l l' : List Point} (h : l'.map Point.unlink = l.map Point.unlink) :
    l'.map (·.t) = l.map (·.t) := by
  have := congrArg (List.map (·.t)) h
  simpa [List.map_map, Function.comp_def] using this

theorem links_insertLinked (pre post : List Point) (t : Int) (q : Nat)
    (h : LinksFrom none (pre ++ post)) : LinksFrom none (insertLinked pre post t q) := by
  rw [linksFrom_iff_seg] at h ⊢
  rw [linksSeg_append] at h
  unfold insertLinked
  rw [linksSeg_append]
  refine ⟨?_, ?_⟩
  · simpa [headT, freshPoint] using linksSeg_setLastNext none _ (some t) pre h.1
  · rw [lastT_setLastNext]
    simp only [LinksSeg, freshPoint, true_and]
    refine ⟨?_, ?_⟩
    · cases post <;> simp [setHeadPrev, headT]
    · exact linksSeg_setHeadPrev _ (some t) none post h.2

theorem links_eraseLinked (pre post : List Point) (p : Point)
    (h : LinksFrom none (pre ++ p :: post)) : LinksFrom none (eraseLinked pre post) := by
  rw [linksFrom_iff_seg] at h ⊢
  rw [linksSeg_append] at h
  unfold eraseLinked
  rw [linksSeg_append, lastT_setLastNext, headT_setHeadPrev]
  refine ⟨linksSeg_setLastNext none _ _ pre h.1, ?_⟩
  have h2 := h.2
  simp only [LinksSeg] at h2
  exact linksSeg_setHeadPrev _ _ none post h2.2.2

/-- links only depend on `t`, `prev`, `next` -/
theorem linksFrom_congr (pv : Option Int) (l l' : List Point)
    (h : l'.map (fun p => (p.t, p.prev, p.next)) = l.map (fun p => (p.t, p.prev, p.next))) :
    LinksFrom pv l' ↔ LinksFrom pv l := by
  induction l generalizing pv l' with
  | nil =>
    cases l' with
    | nil => simp
    | cons a r => simp at h
  | cons p rest ih =>
    cases l' with
    | nil => simp at h
    | cons p' rest' =>
      simp only [List.map_cons, List.cons.injEq, Prod.mk.injEq] at h
      obtain ⟨⟨ht, hpv, hnx⟩, hr⟩ := h
      have hh : rest'.head?.map (·.t) = rest.head?.map (·.t) := by
        cases rest' <;> cases rest <;> simp_all
      simp only [LinksFrom, ht, hpv, hnx, hh, ih (some p.t) rest' hr]

end TL
