/-
C09 helper lemmas, part 2: what `variant` copies (per visit), that nothing of the repeat structure is
copied, that references stay inside one visit, and the offsets / length of the result.
-/
import PartituraModel.Model.Unfold

namespace C09
open Model.Unfold

/-! ### visits and offsets -/

def segLen (g : List Seg) (i : Nat) : Int :=
  match g[i]? with
  | some s => s.stp - s.start
  | none => 0

def sumInt : List Int → Int
  | [] => 0
  | x :: xs => x + sumInt xs

/-- the offsets are the running sum of the lengths of the segments visited before -/
def OffsetsOK : Int → List Visit → Prop
  | _, [] => True
  | off, v :: vs => v.off = off ∧ OffsetsOK (off + (v.e - v.s)) vs

def visitLens (vs : List Visit) : List Int := vs.map fun v => v.e - v.s

theorem visitsFrom_ok (g : List Seg) :
    ∀ (p : List Nat) (off : Int) (vs : List Visit), visitsFrom g off p = some vs →
      OffsetsOK off vs ∧ visitLens vs = p.map (segLen g) ∧
      (∀ (k i : Nat), p[k]? = some i →
        ∃ (s : Seg) (v : Visit), g[i]? = some s ∧ vs[k]? = some v ∧ v.s = s.start ∧ v.e = s.stp) := by
  intro p
  induction p with
  | nil =>
    intro off vs h
    simp only [visitsFrom, Option.some.injEq] at h
    subst h
    simp [OffsetsOK, visitLens]
  | cons i rest ih =>
    intro off vs h
    simp only [visitsFrom] at h
    cases hg : g[i]? with
    | none => simp [hg] at h
    | some s =>
      simp only [hg] at h
      cases hr : visitsFrom g (off + (s.stp - s.start)) rest with
      | none => simp [hr] at h
      | some vs' =>
        simp only [hr, Option.map_some, Option.some.injEq] at h
        subst h
        obtain ⟨h1, h2, h3⟩ := ih _ _ hr
        refine ⟨⟨rfl, h1⟩, ?_, ?_⟩
        · simp only [visitLens, List.map_cons] at h2 ⊢
          rw [h2]
          simp [segLen, hg]
        · intro k j hk
          cases k with
          | zero =>
            simp only [List.getElem?_cons_zero, Option.some.injEq] at hk
            subst hk
            exact ⟨s, _, hg, rfl, rfl, rfl⟩
          | succ k =>
            simp only [List.getElem?_cons_succ] at hk ⊢
            exact h3 k j hk

/-! ### enumeration -/

theorem enum_mem {α : Type} (l : List α) (k i : Nat) (a : α) :
    (i, a) ∈ enum k l ↔ k ≤ i ∧ l[i - k]? = some a := by
  induction l generalizing k with
  | nil => simp [enum]
  | cons x xs ih =>
    simp only [enum, List.mem_cons, Prod.mk.injEq]
    rw [ih]
    constructor
    · rintro (⟨rfl, rfl⟩ | ⟨hk, hx⟩)
      · simp
      · refine ⟨by omega, ?_⟩
        have : i - k = (i - (k + 1)) + 1 := by omega
        rw [this]
        simpa using hx
    · rintro ⟨hk, hx⟩
      by_cases hik : i = k
      · left
        subst hik
        simp at hx
        exact ⟨rfl, hx.symm⟩
      · right
        refine ⟨by omega, ?_⟩
        have : i - k = (i - (k + 1)) + 1 := by omega
        rw [this] at hx
        simpa using hx

/-! ### one visit -/

def inWin (v : Visit) (o : Obj) : Bool := decide (v.s ≤ o.start) && decide (o.start < v.e)

/-- the objects of a visit that are copied whatever was copied before: everything in the window that is
neither one of the dropped classes nor a signature/clef -/
def copyable (v : Visit) (q : Nat × Obj) : Bool :=
  inWin v q.2 && !q.2.kind.dropped && !q.2.kind.isSig

theorem mkCopy_kind (i k : Nat) (o : Obj) (d : Int) : (mkCopy i k o d).kind = o.kind := rfl

theorem copyPass_nonSig (v : Visit) (k : Nat) :
    ∀ (l : List (Nat × Obj)) (seen : List OObj),
      (copyPass v k l seen).filter (fun c => !c.kind.isSig) =
        (l.filter (copyable v)).map fun q => mkCopy q.1 k q.2 (v.off - v.s) := by
  intro l
  induction l with
  | nil => intro seen; simp [copyPass]
  | cons q rest ih =>
    intro seen
    obtain ⟨i, o⟩ := q
    simp only [copyPass]
    by_cases hw : v.s ≤ o.start ∧ o.start < v.e
    · have hw' : inWin v o = true := by simp [inWin, hw.1, hw.2]
      simp only [hw, and_self, if_true]
      cases hd : o.kind.dropped with
      | true =>
        simp only [if_true]
        rw [ih]
        simp [copyable, hd]
      | false =>
        simp only [Bool.false_eq_true, if_false]
        cases hsk : sigSkip seen o (o.start + (v.off - v.s)) with
        | true =>
          have hs : o.kind.isSig = true := by
            unfold sigSkip at hsk
            simp only [Bool.and_eq_true] at hsk
            exact hsk.1
          simp only [if_true]
          rw [ih]
          simp [copyable, hs]
        | false =>
          simp only [Bool.false_eq_true, if_false, List.filter_cons, mkCopy_kind]
          rw [ih]
          by_cases hs : o.kind.isSig = true
          · simp [copyable, hs]
          · have hs' : o.kind.isSig = false := by simpa using hs
            simp [copyable, hw', hd, hs']
    · have hw' : inWin v o = false := by
        simp only [inWin, Bool.and_eq_false_iff, decide_eq_false_iff_not]
        by_cases h1 : v.s ≤ o.start
        · right; intro h2; exact hw ⟨h1, h2⟩
        · left; exact h1
      simp only [hw, if_false]
      rw [ih]
      simp [copyable, hw']

/-- every copy made in a visit is the shifted copy of an object of the window that is not of a dropped class -/
theorem copyPass_mem (v : Visit) (k : Nat) :
    ∀ (l : List (Nat × Obj)) (seen : List OObj) (c : OObj), c ∈ copyPass v k l seen →
      ∃ q ∈ l, inWin v q.2 = true ∧ q.2.kind.dropped = false ∧ c = mkCopy q.1 k q.2 (v.off - v.s) := by
  intro l
  induction l with
  | nil => intro seen c h; simp [copyPass] at h
  | cons q rest ih =>
    intro seen c h
    obtain ⟨i, o⟩ := q
    simp only [copyPass] at h
    have lift : ∀ seen', c ∈ copyPass v k rest seen' →
        ∃ q ∈ (i, o) :: rest, inWin v q.2 = true ∧ q.2.kind.dropped = false ∧ c = mkCopy q.1 k q.2 (v.off - v.s) := by
      intro seen' h'
      obtain ⟨q, hq, r⟩ := ih seen' c h'
      exact ⟨q, List.mem_cons_of_mem _ hq, r⟩
    by_cases hw : v.s ≤ o.start ∧ o.start < v.e
    · simp only [hw, and_self, if_true] at h
      cases hd : o.kind.dropped with
      | true => simp only [hd, if_true] at h; exact lift _ h
      | false =>
        simp only [hd, Bool.false_eq_true, if_false] at h
        split at h
        · exact lift _ h
        · simp only [List.mem_cons] at h
          rcases h with h | h
          · exact ⟨(i, o), List.mem_cons_self, by simp [inWin, hw.1, hw.2], hd, h⟩
          · exact lift _ h
    · simp only [hw, if_false] at h
      exact lift _ h

/-- the observable content of a copy apart from its references -/
def core (c : OObj) : Nat × Nat × Kind × Int × Option Int × List Int × Option String × Bool :=
  (c.orig, c.visit, c.kind, c.start, c.stp, c.payload, c.nid, c.extra)

theorem resolve_core (news : List OObj) : (resolve news).map core = news.map core := by
  simp [resolve, core, Function.comp_def]

end C09
