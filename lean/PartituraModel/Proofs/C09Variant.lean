/-
C09 helper lemmas, part 2: what `variant` copies (per visit), that nothing of the repeat structure is
copied, that references stay inside one visit, and the offsets / length of the result.
-/
import PartituraModel.Model.Unfold
import PartituraModel.Model.UnfoldFam

namespace C09
open Model.Unfold

/-! ### visits and offsets -/

def segLen (g : List Seg) (i : Nat) : Int :=
  match g[i]? with
  | some s => s.stp - s.start
  | none => 0

def sumInt : List Int → Int
  | [] => 0
  | x :: xs => x + sumInt xs

/-- the offsets are the running sum of the lengths of the segments visited before -/
def OffsetsOK : Int → List Visit → Prop
  | _, [] => True
  | off, v :: vs => v.off = off ∧ OffsetsOK (off + (v.e - v.s)) vs

def visitLens (vs : List Visit) : List Int := vs.map fun v => v.e - v.s

theorem visitsFrom_ok (g : List Seg) :
    ∀ (p : List Nat) (off : Int) (vs : List Visit), visitsFrom g off p = some vs →
      OffsetsOK off vs ∧ visitLens vs = p.map (segLen g) ∧
      (∀ (k i : Nat), p[k]? = some i →
        ∃ (s : Seg) (v : Visit), g[i]? = some s ∧ vs[k]? = some v ∧ v.s = s.start ∧ v.e = s.stp) := by
  intro p
  induction p with
  | nil =>
    intro off vs h
    simp only [visitsFrom, Option.some.injEq] at h
    subst h
    simp [OffsetsOK, visitLens]
  | cons i rest ih =>
    intro off vs h
    simp only [visitsFrom] at h
    cases hg : g[i]? with
    | none => simp [hg] at h
    | some s =>
      simp only [hg] at h
      cases hr : visitsFrom g (off + (s.stp - s.start)) rest with
      | none => simp [hr] at h
      | some vs' =>
        simp only [hr, Option.map_some, Option.some.injEq] at h
        subst h
        obtain ⟨h1, h2, h3⟩ := ih _ _ hr
        refine ⟨⟨rfl, h1⟩, ?_, ?_⟩
        · simp only [visitLens, List.map_cons] at h2 ⊢
          rw [h2]
          simp [segLen, hg]
        · intro k j hk
          cases k with
          | zero =>
            simp only [List.getElem?_cons_zero, Option.some.injEq] at hk
            subst hk
            exact ⟨s, _, hg, rfl, rfl, rfl⟩
          | succ k =>
            simp only [List.getElem?_cons_succ] at hk ⊢
            exact h3 k j hk

/-! ### enumeration -/

theorem enum_mem {α : Type} (l : List α) (k i : Nat) (a : α) :
    (i, a) ∈ enum k l ↔ k ≤ i ∧ l[i - k]? = some a := by
  induction l generalizing k with
  | nil => simp [enum]
  | cons x xs ih =>
    simp only [enum, List.mem_cons, Prod.mk.injEq]
    rw [ih]
    constructor
    · rintro (⟨rfl, rfl⟩ | ⟨hk, hx⟩)
      · simp
      · refine ⟨by omega, ?_⟩
        have : i - k = (i - (k + 1)) + 1 := by omega
        rw [this]
        simpa using hx
    · rintro ⟨hk, hx⟩
      by_cases hik : i = k
      · left
        subst hik
        simp at hx
        exact ⟨rfl, hx.symm⟩
      · right
        refine ⟨by omega, ?_⟩
        have : i - k = (i - (k + 1)) + 1 := by omega
        rw [this] at hx
        simpa using hx

/-! ### one visit -/

def inWin (v : Visit) (o : Obj) : Bool := decide (v.s ≤ o.start) && decide (o.start < v.e)

/-- the objects of a visit that are copied whatever was copied before: everything in the window that is
neither one of the dropped classes nor a signature/clef -/
def copyable (v : Visit) (q : Nat × Obj) : Bool :=
  inWin v q.2 && !q.2.kind.dropped && !q.2.kind.isSig

theorem mkCopy_kind (i k : Nat) (o : Obj) (d : Int) : (mkCopy i k o d).kind = o.kind := rfl

theorem copyPass_nonSig (v : Visit) (k : Nat) :
    ∀ (l : List (Nat × Obj)) (seen : List OObj),
      (copyPass v k l seen).filter (fun c => !c.kind.isSig) =
        (l.filter (copyable v)).map fun q => mkCopy q.1 k q.2 (v.off - v.s) := by
  intro l
  induction l with
  | nil => intro seen; simp [copyPass]
  | cons q rest ih =>
    intro seen
    obtain ⟨i, o⟩ := q
    simp only [copyPass]
    by_cases hw : v.s ≤ o.start ∧ o.start < v.e
    · have hw' : inWin v o = true := by simp [inWin, hw.1, hw.2]
      simp only [hw, and_self, if_true]
      cases hd : o.kind.dropped with
      | true =>
        simp only [if_true]
        rw [ih]
        simp [copyable, hd]
      | false =>
        simp only [Bool.false_eq_true, if_false]
        cases hsk : sigSkip seen o (o.start + (v.off - v.s)) with
        | true =>
          have hs : o.kind.isSig = true := by
            unfold sigSkip at hsk
            simp only [Bool.and_eq_true] at hsk
            exact hsk.1
          simp only [if_true]
          rw [ih]
          simp [copyable, hs]
        | false =>
          simp only [Bool.false_eq_true, if_false, List.filter_cons, mkCopy_kind]
          rw [ih]
          by_cases hs : o.kind.isSig = true
          · simp [copyable, hs]
          · have hs' : o.kind.isSig = false := by simpa using hs
            simp [copyable, hw', hd, hs']
    · have hw' : inWin v o = false := by
        simp only [inWin, Bool.and_eq_false_iff, decide_eq_false_iff_not]
        by_cases h1 : v.s ≤ o.start
        · right; intro h2; exact hw ⟨h1, h2⟩
        · left; exact h1
      simp only [hw, if_false]
      rw [ih]
      simp [copyable, hw']

/-- every copy made in a visit is the shifted copy of an object of the window that is not of a dropped class -/
theorem copyPass_mem (v : Visit) (k : Nat) :
    ∀ (l : List (Nat × Obj)) (seen : List OObj) (c : OObj), c ∈ copyPass v k l seen →
      ∃ q ∈ l, inWin v q.2 = true ∧ q.2.kind.dropped = false ∧ c = mkCopy q.1 k q.2 (v.off - v.s) := by
  intro l
  induction l with
  | nil => intro seen c h; simp [copyPass] at h
  | cons q rest ih =>
    intro seen c h
    obtain ⟨i, o⟩ := q
    simp only [copyPass] at h
    have lift : ∀ seen', c ∈ copyPass v k rest seen' →
        ∃ q ∈ (i, o) :: rest, inWin v q.2 = true ∧ q.2.kind.dropped = false ∧ c = mkCopy q.1 k q.2 (v.off - v.s) := by
      intro seen' h'
      obtain ⟨q, hq, r⟩ := ih seen' c h'
      exact ⟨q, List.mem_cons_of_mem _ hq, r⟩
    by_cases hw : v.s ≤ o.start ∧ o.start < v.e
    · simp only [hw, and_self, if_true] at h
      cases hd : o.kind.dropped with
      | true => simp only [hd, if_true] at h; exact lift _ h
      | false =>
        simp only [hd, Bool.false_eq_true, if_false] at h
        split at h
        · exact lift _ h
        · simp only [List.mem_cons] at h
          rcases h with h | h
          · exact ⟨(i, o), List.mem_cons_self, by simp [inWin, hw.1, hw.2], hd, h⟩
          · exact lift _ h
    · simp only [hw, if_false] at h
      exact lift _ h

/-- the observable content of a copy apart from its references -/
def core (c : OObj) : Nat × Nat × Kind × Int × Option Int × List Int × Option String × Bool :=
  (c.orig, c.visit, c.kind, c.start, c.stp, c.payload, c.nid, c.extra)

theorem resolve_core (news : List OObj) : (resolve news).map core = news.map core := by
  simp [resolve, core, Function.comp_def]

theorem map_filter_core (f : OObj → OObj) (hf : ∀ c, core (f c) = core c)
    (p : (Nat × Nat × Kind × Int × Option Int × List Int × Option String × Bool) → Bool) (l : List OObj) :
    ((l.map f).filter (fun c => p (core c))).map core = (l.filter (fun c => p (core c))).map core := by
  induction l with
  | nil => simp
  | cons a as ih =>
    simp only [List.map_cons, List.filter_cons, hf a]
    split
    · simp [ih, hf a]
    · exact ih

/-- kept for the per-visit statement: not a signature/clef (those are subject to suppression) and not the
extra fermata taken from a segment's end -/
def keepP (c : OObj) : Bool := !c.kind.isSig && !c.extra

theorem fermataPass_extra (v : Visit) (k : Nat) :
    ∀ (l : List (Nat × Obj)) (c : OObj), c ∈ fermataPass v k l →
      c.extra = true ∧ c.kind = .fermata ∧ c.visit = k ∧ c.refs = [] ∧ c.start = v.e + (v.off - v.s) := by
  intro l
  induction l with
  | nil => intro c h; simp [fermataPass] at h
  | cons q rest ih =>
    intro c h
    obtain ⟨i, o⟩ := q
    simp only [fermataPass] at h
    split at h
    · rename_i hq
      simp only [List.mem_cons] at h
      rcases h with h | h
      · subst h; exact ⟨rfl, hq.1, rfl, rfl, rfl⟩
      · exact ih c h
    · exact ih c h

theorem copyPass_notExtra (v : Visit) (k : Nat) (l : List (Nat × Obj)) (seen : List OObj) (c : OObj)
    (h : c ∈ copyPass v k l seen) : c.extra = false ∧ c.visit = k := by
  obtain ⟨q, _, _, _, rfl⟩ := copyPass_mem v k l seen c h
  exact ⟨rfl, rfl⟩

/-- per visit: among the objects that are not signatures/clefs, exactly the objects of the window that are not
of a dropped class are copied, each once, in order, shifted by `off - s`, everything else unchanged -/
theorem visitCopies_keep (objs : List Obj) (v : Visit) (k : Nat) (out : List OObj) :
    ((visitCopies objs v k out).filter keepP).map core =
      ((enum 0 objs).filter (copyable v)).map fun q => core (mkCopy q.1 k q.2 (v.off - v.s)) := by
  unfold visitCopies
  rw [List.filter_append, List.map_append]
  have h2 : (fermataPass v k (enum 0 objs)).filter keepP = [] := by
    rw [List.filter_eq_nil_iff]
    intro c hc
    have := (fermataPass_extra v k _ c hc).1
    simp [keepP, this]
  rw [h2, List.map_nil, List.append_nil]
  have h1 := map_filter_core
    (fun o => { o with refs := o.refs.map (·.map (resolveRef ((copyPass v k (enum 0 objs) out).map (·.orig)))) })
    (fun c => rfl) (fun t => !t.2.2.1.isSig && !t.2.2.2.2.2.2.2) (copyPass v k (enum 0 objs) out)
  have e1 : (fun c : OObj => !(core c).2.2.1.isSig && !(core c).2.2.2.2.2.2.2) = keepP := rfl
  rw [e1] at h1
  have hr : resolve (copyPass v k (enum 0 objs) out) =
      (copyPass v k (enum 0 objs) out).map (fun o => { o with refs := o.refs.map (·.map (resolveRef ((copyPass v k (enum 0 objs) out).map (·.orig)))) }) := rfl
  rw [hr, h1]
  have h3 : (copyPass v k (enum 0 objs) out).filter keepP =
      (copyPass v k (enum 0 objs) out).filter (fun c => !c.kind.isSig) := by
    apply List.filter_congr
    intro c hc
    have := (copyPass_notExtra v k _ _ c hc).1
    simp [keepP, this]
  rw [h3, copyPass_nonSig, List.map_map]
  rfl

/-- the whole unfolded part, objects other than signatures/clefs: visit after visit, the shifted copies of
the window's objects -/
theorem variantObjs_keep (objs : List Obj) :
    ∀ (vs : List Visit) (k : Nat) (out : List OObj),
      ((variantObjs objs k vs out).filter keepP).map core =
        (out.filter keepP).map core ++
          (enum k vs).flatMap fun nv =>
            ((enum 0 objs).filter (copyable nv.2)).map fun q => core (mkCopy q.1 nv.1 q.2 (nv.2.off - nv.2.s)) := by
  intro vs
  induction vs with
  | nil => intro k out; simp [variantObjs, enum]
  | cons v vs ih =>
    intro k out
    simp only [variantObjs, enum, List.flatMap_cons]
    rw [ih, List.filter_append, List.map_append, visitCopies_keep, List.append_assoc]

/-! ### nothing of the repeat structure is copied -/

theorem visitCopies_mem (objs : List Obj) (v : Visit) (k : Nat) (out : List OObj) (c : OObj)
    (h : c ∈ visitCopies objs v k out) :
    c.visit = k ∧
    ((c.extra = true ∧ c.kind = .fermata ∧ c.refs = [] ∧ c.start = v.e + (v.off - v.s)) ∨
     (c.extra = false ∧ ∃ i o, objs[i]? = some o ∧ inWin v o = true ∧ o.kind.dropped = false ∧
        core c = core (mkCopy i k o (v.off - v.s)) ∧
        c.refs = o.refs.map (·.map fun j =>
          if ((copyPass v k (enum 0 objs) out).map (·.orig)).contains j then some j else none))) := by
  unfold visitCopies at h
  rw [List.mem_append] at h
  rcases h with h | h
  · simp only [resolve, List.mem_map] at h
    obtain ⟨c0, hc0, rfl⟩ := h
    obtain ⟨q, hq, hw, hd, rfl⟩ := copyPass_mem v k _ _ c0 hc0
    obtain ⟨i, o⟩ := q
    have := (enum_mem objs 0 i o).mp hq
    refine ⟨rfl, Or.inr ⟨rfl, i, o, by simpa using this.2, hw, hd, rfl, ?_⟩⟩
    simp [mkCopy, resolveRef, List.map_map, Function.comp_def]
  · obtain ⟨h1, h2, h3, h4, h5⟩ := fermataPass_extra v k _ c h
    exact ⟨h3, Or.inl ⟨h1, h2, h4, h5⟩⟩

theorem variantObjs_mem (objs : List Obj) :
    ∀ (vs : List Visit) (k : Nat) (out : List OObj) (c : OObj), c ∈ variantObjs objs k vs out →
      c ∈ out ∨ ∃ n v out', vs[n]? = some v ∧ c ∈ visitCopies objs v (k + n) out' := by
  intro vs
  induction vs with
  | nil => intro k out c h; exact Or.inl (by simpa [variantObjs] using h)
  | cons v vs ih =>
    intro k out c h
    simp only [variantObjs] at h
    rcases ih (k + 1) _ c h with h | ⟨n, v', out', hv, hc⟩
    · rw [List.mem_append] at h
      rcases h with h | h
      · exact Or.inl h
      · exact Or.inr ⟨0, v, out, by simp, by simpa using h⟩
    · refine Or.inr ⟨n + 1, v', out', by simpa using hv, ?_⟩
      have : k + (n + 1) = k + 1 + n := by omega
      rw [this]; exact hc

theorem variantObjs_sub (objs : List Obj) :
    ∀ (vs : List Visit) (k : Nat) (out : List OObj) (c : OObj), c ∈ out → c ∈ variantObjs objs k vs out := by
  intro vs
  induction vs with
  | nil => intro k out c h; simpa [variantObjs] using h
  | cons v vs ih =>
    intro k out c h
    simp only [variantObjs]
    exact ih _ _ c (List.mem_append_left _ h)

/-- membership with the block of the visit it belongs to (the block is part of the result) -/
theorem variantObjs_mem' (objs : List Obj) :
    ∀ (vs : List Visit) (k : Nat) (out : List OObj) (c : OObj), c ∈ variantObjs objs k vs out →
      c ∈ out ∨ ∃ n v out', vs[n]? = some v ∧ c ∈ visitCopies objs v (k + n) out' ∧
        ∀ c' ∈ visitCopies objs v (k + n) out', c' ∈ variantObjs objs k vs out := by
  intro vs
  induction vs with
  | nil => intro k out c h; exact Or.inl (by simpa [variantObjs] using h)
  | cons v vs ih =>
    intro k out c h
    simp only [variantObjs] at h ⊢
    rcases ih (k + 1) _ c h with h | ⟨n, v', out', hv, hc, hsub⟩
    · rw [List.mem_append] at h
      rcases h with h | h
      · exact Or.inl h
      · refine Or.inr ⟨0, v, out, by simp, by simpa using h, ?_⟩
        intro c' hc'
        exact variantObjs_sub objs vs _ _ c' (List.mem_append_right _ (by simpa using hc'))
    · have e : k + (n + 1) = k + 1 + n := by omega
      refine Or.inr ⟨n + 1, v', out', by simpa using hv, ?_, ?_⟩
      · rw [e]; exact hc
      · rw [e]; exact hsub

/-- every visit's block is in the result -/
theorem variantObjs_block (objs : List Obj) :
    ∀ (vs : List Visit) (k : Nat) (out : List OObj) (n : Nat) (v : Visit), vs[n]? = some v →
      ∃ out', ∀ c' ∈ visitCopies objs v (k + n) out', c' ∈ variantObjs objs k vs out := by
  intro vs
  induction vs with
  | nil => intro k out n v h; simp at h
  | cons w vs ih =>
    intro k out n v h
    cases n with
    | zero =>
      simp only [List.getElem?_cons_zero, Option.some.injEq] at h
      subst h
      refine ⟨out, ?_⟩
      intro c' hc'
      simp only [variantObjs]
      exact variantObjs_sub objs vs _ _ c' (List.mem_append_right _ (by simpa using hc'))
    | succ n =>
      simp only [List.getElem?_cons_succ] at h
      obtain ⟨out', hsub⟩ := ih (k + 1) (out ++ visitCopies objs w k out) n v h
      have e : k + (n + 1) = k + 1 + n := by omega
      refine ⟨out', ?_⟩
      rw [e]
      simpa [variantObjs] using hsub

/-! ### time points and length -/

theorem insInt_mem (a x : Int) (l : List Int) : x ∈ insInt a l ↔ x = a ∨ x ∈ l := by
  induction l with
  | nil => simp [insInt]
  | cons y ys ih =>
    simp only [insInt]
    split
    · simp
    · split
      · rename_i h1 h2
        subst h2
        simp
      · simp only [List.mem_cons, ih]
        constructor
        · rintro (h | h | h)
          · exact Or.inr (Or.inl h)
          · exact Or.inl h
          · exact Or.inr (Or.inr h)
        · rintro (h | h | h)
          · exact Or.inr (Or.inl h)
          · exact Or.inl h
          · exact Or.inr (Or.inr h)

theorem foldl_ins_mem {α : Type} (f : α → Int) (l : List α) (acc : List Int) (t : Int) :
    t ∈ l.foldl (fun acc x => insInt (f x) acc) acc ↔ t ∈ acc ∨ ∃ x ∈ l, t = f x := by
  induction l generalizing acc with
  | nil => simp
  | cons a as ih =>
    simp only [List.foldl_cons, ih, insInt_mem, List.mem_cons]
    constructor
    · rintro ((h | h) | ⟨x, hx, h⟩)
      · exact Or.inr ⟨a, Or.inl rfl, h⟩
      · exact Or.inl h
      · exact Or.inr ⟨x, Or.inr hx, h⟩
    · rintro (h | ⟨x, hx | hx, h⟩)
      · exact Or.inl (Or.inr h)
      · subst hx; exact Or.inl (Or.inl h)
      · exact Or.inr ⟨x, hx, h⟩

/-- where the time points of the new part come from -/
def PointSrc (points : List Int) (vs : List Visit) (out : List OObj) (t : Int) : Prop :=
  (∃ v ∈ vs, ∃ p ∈ points, v.s ≤ p ∧ p < v.e ∧ t = p + (v.off - v.s)) ∨
  (∃ c ∈ out, (c.extra = true ∧ t = c.start) ∨ (c.extra = false ∧ c.stp = some t))

theorem shifted_mem (points : List Int) (vs : List Visit) (acc : List Int) (t : Int) :
    t ∈ shiftedPoints points vs acc ↔
    t ∈ acc ∨ ∃ v ∈ vs, ∃ p ∈ points, v.s ≤ p ∧ p < v.e ∧ t = p + (v.off - v.s) := by
  unfold shiftedPoints
  induction vs generalizing acc with
  | nil => simp
  | cons v vs ih =>
    simp only [List.foldl_cons]
    rw [ih, foldl_ins_mem]
    simp only [List.mem_filter, Bool.and_eq_true, decide_eq_true_eq, List.mem_cons]
    constructor
    · rintro ((h | ⟨x, ⟨hx, h1, h2⟩, h⟩) | ⟨w, hw, r⟩)
      · exact Or.inl h
      · exact Or.inr ⟨v, Or.inl rfl, x, hx, h1, h2, h⟩
      · exact Or.inr ⟨w, Or.inr hw, r⟩
    · rintro (h | ⟨w, hw | hw, x, hx, h1, h2, h⟩)
      · exact Or.inl (Or.inl h)
      · subst hw; exact Or.inl (Or.inr ⟨x, ⟨hx, h1, h2⟩, h⟩)
      · exact Or.inr ⟨w, hw, x, hx, h1, h2, h⟩

theorem objPoint_iff (o : OObj) (t : Int) :
    objPoint o = some t ↔ (o.extra = true ∧ t = o.start) ∨ (o.extra = false ∧ o.stp = some t) := by
  unfold objPoint
  cases o.extra <;> simp [eq_comm]

theorem outPoints_mem (out : List OObj) (acc : List Int) (t : Int) :
    t ∈ outPoints out acc ↔
    t ∈ acc ∨ ∃ c ∈ out, (c.extra = true ∧ t = c.start) ∨ (c.extra = false ∧ c.stp = some t) := by
  unfold outPoints
  induction out generalizing acc with
  | nil => simp
  | cons o os ih =>
    simp only [List.foldl_cons]
    rw [ih]
    simp only [List.mem_cons]
    have key : (t ∈ (match objPoint o with
        | some t => insInt t acc
        | none => acc)) ↔ (t ∈ acc ∨ objPoint o = some t) := by
      cases h : objPoint o with
      | none => simp
      | some u => simp [insInt_mem, eq_comm, or_comm]
    rw [objPoint_iff] at key
    constructor
    · rintro (h | ⟨c, hc, r⟩)
      · rcases key.mp h with h | h
        · exact Or.inl h
        · exact Or.inr ⟨o, Or.inl rfl, h⟩
      · exact Or.inr ⟨c, Or.inr hc, r⟩
    · rintro (h | ⟨c, hc | hc, r⟩)
      · exact Or.inl (key.mpr (Or.inl h))
      · subst hc; exact Or.inl (key.mpr (Or.inr r))
      · exact Or.inr ⟨c, hc, r⟩

theorem variantPoints_mem (points : List Int) (vs : List Visit) (out : List OObj) (t : Int) :
    t ∈ variantPoints points vs out ↔ PointSrc points vs out t := by
  unfold variantPoints PointSrc
  rw [outPoints_mem, shifted_mem]
  simp

theorem listMax_eq (l : List Int) (m : Int) (hm : m ∈ l) (hle : ∀ x ∈ l, x ≤ m) : listMax l = some m := by
  induction l with
  | nil => simp at hm
  | cons x xs ih =>
    simp only [listMax]
    cases hxs : listMax xs with
    | none =>
      cases xs with
      | nil =>
        simp only [List.mem_singleton] at hm
        simp [hm]
      | cons y ys =>
        simp only [listMax] at hxs
        split at hxs <;> simp at hxs
    | some m' =>
      simp only [List.mem_cons] at hm
      by_cases hmx : m ∈ xs
      · have := ih hmx (fun y hy => hle y (List.mem_cons_of_mem _ hy))
        rw [hxs] at this
        simp only [Option.some.injEq] at this
        subst this
        have hx := hle x List.mem_cons_self
        have : ¬ m' < x := by omega
        simp [this]
      · rcases hm with hm | hm
        · subst hm
          -- m' is an element of xs, hence ≤ m
          have hm' : m' ∈ xs := by
            clear ih hle hmx
            induction xs generalizing m' with
            | nil => simp [listMax] at hxs
            | cons y ys ih2 =>
              simp only [listMax] at hxs
              cases hys : listMax ys with
              | none => simp only [hys, Option.some.injEq] at hxs; subst hxs; exact List.mem_cons_self
              | some m2 =>
                simp only [hys, Option.some.injEq] at hxs
                split at hxs
                · subst hxs; exact List.mem_cons_self
                · subst hxs; exact List.mem_cons_of_mem _ (ih2 _ hys)
          have := hle m' (List.mem_cons_of_mem _ hm')
          by_cases hlt : m' < m
          · simp [hlt]
          · have : m' = m := by omega
            simp [this]
        · exact absurd hm hmx

theorem listMin_eq (l : List Int) (m : Int) (hm : m ∈ l) (hle : ∀ x ∈ l, m ≤ x) : listMin l = some m := by
  induction l with
  | nil => simp at hm
  | cons x xs ih =>
    simp only [listMin]
    cases hxs : listMin xs with
    | none =>
      cases xs with
      | nil =>
        simp only [List.mem_singleton] at hm
        simp [hm]
      | cons y ys =>
        simp only [listMin] at hxs
        split at hxs <;> simp at hxs
    | some m' =>
      simp only [List.mem_cons] at hm
      by_cases hmx : m ∈ xs
      · have := ih hmx (fun y hy => hle y (List.mem_cons_of_mem _ hy))
        rw [hxs] at this
        simp only [Option.some.injEq] at this
        subst this
        have hx := hle x List.mem_cons_self
        have : ¬ x < m' := by omega
        simp [this]
      · rcases hm with hm | hm
        · subst hm
          have hm' : m' ∈ xs := by
            clear ih hle hmx
            induction xs generalizing m' with
            | nil => simp [listMin] at hxs
            | cons y ys ih2 =>
              simp only [listMin] at hxs
              cases hys : listMin ys with
              | none => simp only [hys, Option.some.injEq] at hxs; subst hxs; exact List.mem_cons_self
              | some m2 =>
                simp only [hys, Option.some.injEq] at hxs
                split at hxs
                · subst hxs; exact List.mem_cons_self
                · subst hxs; exact List.mem_cons_of_mem _ (ih2 _ hys)
          have := hle m' (List.mem_cons_of_mem _ hm')
          by_cases hlt : m < m'
          · simp [hlt]
          · have : m' = m := by omega
            simp [this]
        · exact absurd hm hmx

/-- offsets stay inside `[off, off + total]`; the last visit ends at the total -/
theorem offsets_bounds :
    ∀ (vs : List Visit) (off : Int), OffsetsOK off vs → (∀ v ∈ vs, v.s < v.e) →
      (∀ v ∈ vs, off ≤ v.off ∧ v.off + (v.e - v.s) ≤ off + sumInt (visitLens vs)) ∧
      (∀ v, vs.getLast? = some v → v.off + (v.e - v.s) = off + sumInt (visitLens vs)) ∧
      (∀ v, vs.head? = some v → v.off = off) ∧ 0 ≤ sumInt (visitLens vs) := by
  intro vs
  induction vs with
  | nil => intro off _ _; simp [visitLens, sumInt]
  | cons w ws ih =>
    intro off hok hpos
    obtain ⟨h0, hrest⟩ := hok
    have hw := hpos w List.mem_cons_self
    obtain ⟨i1, i2, i3, i4⟩ := ih _ hrest (fun v hv => hpos v (List.mem_cons_of_mem _ hv))
    simp only [visitLens, List.map_cons, sumInt] at *
    refine ⟨?_, ?_, ?_, by omega⟩
    · intro v hv
      simp only [List.mem_cons] at hv
      rcases hv with hv | hv
      · subst hv; omega
      · have := i1 v hv; omega
    · intro v hv
      cases ws with
      | nil =>
        simp only [List.getLast?_singleton, Option.some.injEq] at hv
        subst hv
        simp [sumInt]; omega
      | cons x xs =>
        have : (x :: xs).getLast? = some v := by simpa [List.getLast?_cons_cons] using hv
        have := i2 v this
        omega
    · intro v hv
      simp only [List.head?_cons, Option.some.injEq] at hv
      subst hv; exact h0

theorem fermata_not_dropped : Kind.dropped .fermata = false := rfl

end C09
