/-
C02 helper lemmas (round 2): arguments of any shape, the exact domain of the maps.
-/
import PartituraModel.Model.TimeMapHist
import PartituraModel.Proofs.C02Part

namespace C02Proofs
open Model.TimeMap

-- ------------------------------------------------------------------ Nested

mutual
  theorem nested_map_flat {α β : Type} (f : α → β) : ∀ a : Nested α, (a.map f).flat = a.flat.map f
    | .leaf a => by simp [Nested.map, Nested.flat]
    | .node xs => by
      simp only [Nested.map, Nested.flat]
      exact nested_mapList_flat f xs
  theorem nested_mapList_flat {α β : Type} (f : α → β) :
      ∀ xs : List (Nested α), Nested.flatList (Nested.mapList f xs) = (Nested.flatList xs).map f
    | [] => by simp [Nested.mapList, Nested.flatList]
    | x :: xs => by
      simp only [Nested.mapList, Nested.flatList, List.map_append]
      rw [nested_map_flat f x, nested_mapList_flat f xs]
end

mutual
  theorem nested_map_map {α β γ : Type} (f : α → β) (g : β → γ) :
      ∀ a : Nested α, (a.map f).map g = a.map (fun x => g (f x))
    | .leaf a => by simp [Nested.map]
    | .node xs => by
      simp only [Nested.map]
      rw [nested_mapList_mapList f g xs]
  theorem nested_mapList_mapList {α β γ : Type} (f : α → β) (g : β → γ) :
      ∀ xs : List (Nested α), Nested.mapList g (Nested.mapList f xs) = Nested.mapList (fun x => g (f x)) xs
    | [] => by simp [Nested.mapList]
    | x :: xs => by
      simp only [Nested.mapList]
      rw [nested_map_map f g x, nested_mapList_mapList f g xs]
end

theorem nested_mapList_eq {α β : Type} (f : α → β) :
    ∀ xs : List (Nested α), Nested.mapList f xs = xs.map (Nested.map f)
  | [] => by simp [Nested.mapList]
  | x :: xs => by simp only [Nested.mapList, List.map_cons]; rw [nested_mapList_eq f xs]

-- ------------------------------------------------------------------ the last knot

def lastQ : List Rat → Rat
  | [] => 0
  | [a] => a
  | _ :: b :: rest => lastQ (b :: rest)

theorem lastX_eq : ∀ (rest : List (Rat × Rat)) (x0 : Rat), lastX x0 rest = lastQ (x0 :: rest.map (·.1))
  | [], _ => rfl
  | (x1, y1) :: rest, x0 => by
    simp only [lastX, List.map_cons, lastQ]
    exact lastX_eq rest x1

theorem endX_eq (ks : List (Rat × Rat)) : endX ks = lastQ (ks.map (·.1)) := by
  cases ks with
  | nil => rfl
  | cons k rest =>
    obtain ⟨x0, y0⟩ := k
    exact lastX_eq rest x0

theorem lastQ_cast : ∀ l : List Int, lastQ (l.map (fun (t : Int) => (t : Rat))) = ((lastOf l : Int) : Rat)
  | [] => by simp [lastQ, lastOf]
  | [a] => by simp [lastQ, lastOf]
  | a :: b :: rest => by
    simp only [List.map_cons, lastQ, lastOf]
    exact lastQ_cast (b :: rest)

theorem endX_finalKnots (p : Part) (m : Mode) :
    endX (finalKnots p m) = ((lastOf (keyTimes p m) : Int) : Rat) := by
  rw [endX_eq, finalKnots_xs, lastQ_cast]

/-- the last key time is a key time and no key time is later -/
theorem lastOf_mem : ∀ (l : List Int), l ≠ [] → lastOf l ∈ l
  | [], h => absurd rfl h
  | [a], _ => by simp [lastOf]
  | a :: b :: rest, _ => by
    simp only [lastOf]
    exact List.mem_cons_of_mem _ (lastOf_mem (b :: rest) (by simp))

theorem le_lastOf : ∀ (l : List Int), l.Pairwise (· < ·) → ∀ x ∈ l, x ≤ lastOf l
  | [], _, _, h => by simp at h
  | [a], _, x, h => by simp only [List.mem_singleton] at h; simp [lastOf, h]
  | a :: b :: rest, hp, x, h => by
    simp only [lastOf]
    have hp' := List.pairwise_cons.mp hp
    rcases List.mem_cons.mp h with h | h
    · subst h
      have h1 : x < b := hp'.1 b List.mem_cons_self
      have h2 := le_lastOf (b :: rest) hp'.2 b List.mem_cons_self
      omega
    · exact le_lastOf (b :: rest) hp'.2 x h

-- ------------------------------------------------------------------ value at the last knot, range of the inverse

/-- the interpolation at the last abscissa is the last abscissa of the swapped knots -/
theorem interp_last (ks : List (Rat × Rat)) (hk : KnotsOK ks) :
    interp ks (endX ks) = some (endX (swap ks)) := by
  have hfx : firstX ks ≤ endX ks := by
    match ks, hk with
    | (x0, y0) :: rest, hk => exact le_lastX rest x0 y0 hk.2
  obtain ⟨y1, h1⟩ := interp_defined ks hk (endX ks) hfx (le_refl _)
  have hs := knotsOK_swap ks hk
  have h2 := interp_inv ks hk _ _ h1
  have r2 := interp_range (swap ks) hs _ _ h2
  obtain ⟨x', h3⟩ := interp_defined (swap ks) hs (endX (swap ks)) (le_trans r2.1 r2.2) (le_refl _)
  have h4 := interp_inv (swap ks) hs _ _ h3
  rw [swap_swap] at h4
  have r4 := interp_range ks hk _ _ h4
  rcases lt_or_eq_of_le r4.2 with hlt | heq
  · have := interp_strictMono ks hk x' (endX ks) _ _ hlt h4 h1
    linarith [r2.2]
  · rw [heq] at h4
    rw [h1] at h4 ⊢
    exact h4

theorem firstX_swap (ks : List (Rat × Rat)) : firstX (swap ks) = firstY ks := by
  cases ks with
  | nil => rfl
  | cons k rest => obtain ⟨x0, y0⟩ := k; rfl

end C02Proofs
