/-
C06 (round 5) helper lemmas about `b64` (round to nearest binary64, `Model.MatchCodec.toBinary64`): it is monotone on
all rationals and within relative error 2^-53 of a non-negative argument.  (The closeness of the positive case and the
lower bracket of the significand are Proofs/C07Float.lean's; the upper bracket and monotonicity are proved here.)
-/
import PartituraModel.Model.PerfFloat
import PartituraModel.Proofs.C07Float
import PartituraModel.Proofs.Round
import Mathlib.Tactic.Linarith
import Mathlib.Tactic.FieldSimp
import Mathlib.Tactic.Positivity
import Mathlib.Tactic.Ring
import Mathlib.Tactic.NormNum
import Mathlib.Algebra.Order.Field.Rat
import Mathlib.Algebra.Order.Field.Power
import Mathlib.Algebra.Order.Ring.Abs

namespace C06Float
open Model Model.PerfMidi Model.MatchCodec Round C07Float

/-- the first estimate of the exponent -/
def e0 (a : ℚ) : ℤ := (Nat.log2 a.num.toNat : ℤ) - (Nat.log2 a.den : ℤ) - 52

/-- the exponent `toBinary64` settles on -/
def expOf (a : ℚ) : ℤ := normExp a (e0 a)

theorem tbPos_eq (a : ℚ) : tbPos a = ((roundHalfEven (a / pow2 (expOf a)) : ℤ) : ℚ) * pow2 (expOf a) := rfl

/-- first estimate of the exponent: the quotient lies below 2^53 -/
theorem bracket_upper (a : ℚ) (ha : 0 < a) : a / pow2 (e0 a) < (2 : ℚ) ^ 53 := by
  have hnum : 0 < a.num := Rat.num_pos.mpr ha
  have hN : ((a.num.toNat : ℕ) : ℤ) = a.num := Int.toNat_of_nonneg (le_of_lt hnum)
  have hD0 : a.den ≠ 0 := a.den_nz
  have h1 : a.num.toNat < 2 ^ (Nat.log2 a.num.toNat + 1) := Nat.lt_log2_self
  have h2 : 2 ^ Nat.log2 a.den ≤ a.den := Nat.log2_self_le hD0
  have h1q : (a.num.toNat : ℚ) < (2 : ℚ) ^ (Nat.log2 a.num.toNat + 1) := by exact_mod_cast h1
  have h2q : (2 : ℚ) ^ (Nat.log2 a.den) ≤ (a.den : ℚ) := by exact_mod_cast h2
  have haq : a = (a.num.toNat : ℚ) / (a.den : ℚ) := by
    have hcast : ((a.num.toNat : ℕ) : ℚ) = ((a.num : ℤ) : ℚ) := by
      have : ((a.num.toNat : ℕ) : ℚ) = (((a.num.toNat : ℕ) : ℤ) : ℚ) := by push_cast; rfl
      rw [this, hN]
    rw [hcast]
    exact (Rat.num_div_den a).symm
  unfold e0
  set N := a.num.toNat with hNdef
  set D := a.den with hDdef
  have hDpos : (0 : ℚ) < (D : ℚ) := by
    have : 0 < D := Nat.pos_of_ne_zero hD0
    exact_mod_cast this
  rw [pow2_eq]
  have hz : (2 : ℚ) ^ ((Nat.log2 N : ℤ) - (Nat.log2 D : ℤ) - 52)
      = (2 : ℚ) ^ (Nat.log2 N) / ((2 : ℚ) ^ (Nat.log2 D) * (2 : ℚ) ^ 52) := by
    rw [zpow_sub₀ (two_ne_zero), zpow_sub₀ (two_ne_zero), zpow_natCast, zpow_natCast]
    rw [div_div]
    norm_num
  rw [hz]
  have hpN : (0 : ℚ) < (2 : ℚ) ^ (Nat.log2 N) := by positivity
  have hpD : (0 : ℚ) < (2 : ℚ) ^ (Nat.log2 D) := by positivity
  rw [div_div_eq_mul_div, div_lt_iff₀ hpN, haq]
  have h3 : (N : ℚ) / (D : ℚ) * ((2 : ℚ) ^ (Nat.log2 D) * (2 : ℚ) ^ 52)
      = (N : ℚ) * ((2 : ℚ) ^ (Nat.log2 D) * (2 : ℚ) ^ 52) / D := by ring
  rw [h3, div_lt_iff₀ hDpos]
  have h4 : (N : ℚ) < (2 : ℚ) ^ (Nat.log2 N) * 2 := by
    have := h1q
    rw [pow_succ] at this
    exact this
  calc (N : ℚ) * ((2 : ℚ) ^ (Nat.log2 D) * (2 : ℚ) ^ 52)
      < ((2 : ℚ) ^ (Nat.log2 N) * 2) * ((2 : ℚ) ^ (Nat.log2 D) * (2 : ℚ) ^ 52) := by
        apply mul_lt_mul_of_pos_right h4
        positivity
    _ = (2 : ℚ) ^ 53 * (2 : ℚ) ^ (Nat.log2 N) * (2 : ℚ) ^ (Nat.log2 D) := by ring
    _ ≤ (2 : ℚ) ^ 53 * (2 : ℚ) ^ (Nat.log2 N) * D := by
        apply mul_le_mul_of_nonneg_left h2q
        positivity

/-- the significand lies below 2^53 -/
theorem normExp_lt (a : ℚ) (ha : 0 < a) : a / pow2 (expOf a) < (2 : ℚ) ^ 53 := by
  have hb := bracket_upper a ha
  have h53 : ((2 ^ 53 : ℕ) : ℚ) = (2 : ℚ) ^ 53 := by norm_num
  have h52 : ((2 ^ 52 : ℕ) : ℚ) = (2 : ℚ) ^ 52 := by norm_num
  -- after the downward step the quotient is still below 2^53
  have h1 : a / pow2 (if a / pow2 (e0 a) < ((2 ^ 52 : ℕ) : ℚ) then e0 a - 1 else e0 a) < (2 : ℚ) ^ 53 := by
    split
    · rename_i hlt
      rw [pow2_pred]
      have hp := pow2_pos (e0 a)
      rw [h52] at hlt
      have : a / (pow2 (e0 a) / 2) = a / pow2 (e0 a) * 2 := by field_simp
      rw [this]
      have : (2 : ℚ) ^ 53 = (2 : ℚ) ^ 52 * 2 := by norm_num
      rw [this]
      linarith
    · exact hb
  unfold expOf normExp
  simp only
  set e1 := (if a / pow2 (e0 a) < ((2 ^ 52 : ℕ) : ℚ) then e0 a - 1 else e0 a) with he1
  have hn1 : ¬ ((2 ^ 53 : ℕ) : ℚ) ≤ a / pow2 e1 := by rw [h53]; exact not_le.mpr h1
  rw [if_neg hn1, if_neg hn1]
  exact h1

theorem normExp_ge' (a : ℚ) (ha : 0 < a) : (2 : ℚ) ^ 52 ≤ a / pow2 (expOf a) := by
  have := normExp_ge a (e0 a) (bracket a ha)
  have h52 : ((2 ^ 52 : ℕ) : ℚ) = (2 : ℚ) ^ 52 := by norm_num
  rw [h52] at this
  exact this

theorem pow2_le_of_le {x y : ℤ} (h : x ≤ y) : pow2 x ≤ pow2 y := by
  rw [pow2_eq, pow2_eq]
  exact zpow_le_zpow_right₀ (by norm_num) h

/-- the exponents of two positive numbers in order are in order -/
theorem expOf_mono (a b : ℚ) (ha : 0 < a) (hab : a ≤ b) : expOf a ≤ expOf b := by
  by_contra hc
  have hc' : expOf b + 1 ≤ expOf a := by omega
  have hb : 0 < b := lt_of_lt_of_le ha hab
  have h1 := normExp_ge' a ha
  have h2 := normExp_lt b hb
  have hpa := pow2_pos (expOf a)
  have hpb := pow2_pos (expOf b)
  rw [le_div_iff₀ hpa] at h1
  rw [div_lt_iff₀ hpb] at h2
  have h3 : pow2 (expOf b) * 2 ≤ pow2 (expOf a) := by
    rw [← pow2_succ]
    exact pow2_le_of_le hc'
  have : (2 : ℚ) ^ 53 = (2 : ℚ) ^ 52 * 2 := by norm_num
  rw [this] at h2
  nlinarith [h1, h2, h3]

theorem rhe_ge (x : ℚ) (h : (2 : ℚ) ^ 52 ≤ x) : ((2 : ℚ) ^ 52) ≤ ((roundHalfEven x : ℤ) : ℚ) := by
  have h' : (((2 ^ 52 : ℤ)) : ℚ) ≤ x := by push_cast; exact h
  have := roundHalfEven_mono h'
  rw [roundHalfEven_int] at this
  have : (((2 ^ 52 : ℤ)) : ℚ) ≤ ((roundHalfEven x : ℤ) : ℚ) := by exact_mod_cast this
  push_cast at this
  exact this

theorem rhe_le (x : ℚ) (h : x < (2 : ℚ) ^ 53) : ((roundHalfEven x : ℤ) : ℚ) ≤ (2 : ℚ) ^ 53 := by
  have h' : x ≤ (((2 ^ 53 : ℤ)) : ℚ) := by push_cast; exact le_of_lt h
  have := roundHalfEven_mono h'
  rw [roundHalfEven_int] at this
  have : ((roundHalfEven x : ℤ) : ℚ) ≤ (((2 ^ 53 : ℤ)) : ℚ) := by exact_mod_cast this
  push_cast at this
  exact this

/-- rounding to binary64 is monotone on positive numbers -/
theorem tbPos_mono (a b : ℚ) (ha : 0 < a) (hab : a ≤ b) : tbPos a ≤ tbPos b := by
  have hb : 0 < b := lt_of_lt_of_le ha hab
  rw [tbPos_eq, tbPos_eq]
  have hE := expOf_mono a b ha hab
  have hpa := pow2_pos (expOf a)
  have hpb := pow2_pos (expOf b)
  rcases lt_or_eq_of_le hE with hlt | heq
  · -- different binades
    have h1 := rhe_le _ (normExp_lt a ha)
    have h2 := rhe_ge _ (normExp_ge' b hb)
    have h3 : pow2 (expOf a) * 2 ≤ pow2 (expOf b) := by
      rw [← pow2_succ]
      exact pow2_le_of_le (by omega)
    have e : (2 : ℚ) ^ 53 = (2 : ℚ) ^ 52 * 2 := by norm_num
    calc ((roundHalfEven (a / pow2 (expOf a)) : ℤ) : ℚ) * pow2 (expOf a)
        ≤ (2 : ℚ) ^ 53 * pow2 (expOf a) := mul_le_mul_of_nonneg_right h1 (le_of_lt hpa)
      _ = (2 : ℚ) ^ 52 * (pow2 (expOf a) * 2) := by rw [e]; ring
      _ ≤ (2 : ℚ) ^ 52 * pow2 (expOf b) := mul_le_mul_of_nonneg_left h3 (by positivity)
      _ ≤ ((roundHalfEven (b / pow2 (expOf b)) : ℤ) : ℚ) * pow2 (expOf b) :=
          mul_le_mul_of_nonneg_right h2 (le_of_lt hpb)
  · rw [heq]
    apply mul_le_mul_of_nonneg_right _ (le_of_lt hpb)
    have : a / pow2 (expOf b) ≤ b / pow2 (expOf b) := div_le_div_of_nonneg_right hab (le_of_lt hpb)
    exact_mod_cast roundHalfEven_mono this

theorem b64_zero : b64 0 = 0 := by simp [b64, toBinary64]

theorem b64_pos (a : ℚ) (ha : 0 < a) : b64 a = tbPos a := toBinary64_pos a ha

theorem b64_neg (a : ℚ) (ha : a < 0) : b64 a = -tbPos (-a) := toBinary64_neg a ha

theorem b64_pos_pos (a : ℚ) (ha : 0 < a) : 0 < b64 a := by rw [b64_pos a ha]; exact tbPos_pos a ha

theorem b64_nonneg (a : ℚ) (ha : 0 ≤ a) : 0 ≤ b64 a := by
  rcases lt_or_eq_of_le ha with h | h
  · exact le_of_lt (b64_pos_pos a h)
  · rw [← h, b64_zero]

/-- **rounding to binary64 is monotone** -/
theorem b64_mono (a b : ℚ) (hab : a ≤ b) : b64 a ≤ b64 b := by
  rcases lt_trichotomy a 0 with ha | ha | ha
  · rcases lt_trichotomy b 0 with hb | hb | hb
    · rw [b64_neg a ha, b64_neg b hb]
      have := tbPos_mono (-b) (-a) (by linarith) (by linarith)
      linarith
    · rw [hb, b64_zero, b64_neg a ha]
      have := tbPos_pos (-a) (by linarith)
      linarith
    · rw [b64_neg a ha]
      have h1 := tbPos_pos (-a) (by linarith)
      have h2 := b64_pos_pos b hb
      linarith
  · rw [ha, b64_zero]
    exact b64_nonneg b (by linarith)
  · rw [b64_pos a ha, b64_pos b (lt_of_lt_of_le ha hab)]
    exact tbPos_mono a b ha hab

/-- relative error 2^-53 on non-negative numbers, as two bounds -/
theorem b64_rel (x : ℚ) (hx : 0 ≤ x) :
    x * (1 - 1 / (2 : ℚ) ^ 53) ≤ b64 x ∧ b64 x ≤ x * (1 + 1 / (2 : ℚ) ^ 53) := by
  rcases lt_or_eq_of_le hx with h | h
  · have hc := tbPos_close x h
    rw [← b64_pos x h, abs_le] at hc
    constructor
    · have : x * (1 - 1 / (2 : ℚ) ^ 53) = x - x / (2 : ℚ) ^ 53 := by ring
      rw [this]; linarith [hc.1]
    · have : x * (1 + 1 / (2 : ℚ) ^ 53) = x + x / (2 : ℚ) ^ 53 := by ring
      rw [this]; linarith [hc.2]
  · rw [← h, b64_zero]; simp

end C06Float
