/-
Helper lemmas for Props/C13Args.lean.
-/
import PartituraModel.Proofs.C13
import PartituraModel.Model.PianoRollArgs
import Mathlib.Data.List.Forall2

namespace C13
open Model Model.PianoRoll
open List

theorem lookup_mem {α β : Type} [DecidableEq α] (k : α) (l : List (α × β)) (v : β)
    (h : Model.lookup k l = some v) : (k, v) ∈ l := by
  induction l with
  | nil => simp [Model.lookup] at h
  | cons x l ih =>
    obtain ⟨a, b⟩ := x
    simp only [Model.lookup] at h
    split at h
    · rename_i hab
      simp only [Option.some.injEq] at h
      subst hab h
      simp
    · exact mem_cons_of_mem _ (ih h)

theorem forall₂_right {α β : Type} {R : α → β → Prop} {P : β → Prop} {l1 : List α} {l2 : List β}
    (h : Forall₂ R l1 l2) (hp : ∀ a b, R a b → P b) : ∀ b ∈ l2, P b := by
  induction h with
  | nil => intro b hb; simp at hb
  | cons hab _ ih =>
    intro b hb
    rcases mem_cons.mp hb with rfl | hb
    · exact hp _ _ hab
    · exact ih b hb

end C13
