/-
C12, round 5 — the functions of Model/Conversions.lean (written over the literals regenerated from the function
bodies) coincide with those of Model/Pitch.lean.  Every lemma here re-elaborates when a literal of the source changes.
-/
import PartituraModel.Model.Conversions
import Mathlib.Tactic.IntervalCases

namespace C12Bridge
open Model Gen Gen.C12

theorem isStepCharG_eq : isStepCharG = isStepChar := by
  funext c; rfl

theorem isAccCharG_eq : isAccCharG = isAccChar := by
  funext c
  simp [isAccCharG, isAccChar, noteAccChars, Bool.or_assoc]

theorem matchNoteNameAtG_eq (cs : List Char) : matchNoteNameAtG cs = matchNoteNameAt cs := by
  unfold matchNoteNameAtG matchNoteNameAt
  rw [isStepCharG_eq, isAccCharG_eq]
  rfl

theorem searchNoteNameG_eq : ∀ cs : List Char, searchNoteNameG cs = searchNoteName cs
  | [] => rfl
  | c :: rest => by
    unfold searchNoteNameG searchNoteName
    rw [matchNoteNameAtG_eq, searchNoteNameG_eq rest]
    rfl

theorem alterOr_zero (a : Option Int) : alterOr a 0 = a.getD 0 := by
  cases a with
  | none => rfl
  | some v =>
    by_cases h : v = 0
    · simp [alterOr, h]
    · simp [alterOr, h]

theorem spellingToMidiG_eq (s : String) (a : Option Int) (o : Int) : spellingToMidiG s a o = spellingToMidi s a o := by
  unfold spellingToMidiG spellingToMidi
  have h1 : s2mShift = 1 := rfl
  have h2 : s2mOctave = 12 := rfl
  have h3 : s2mNoAlter = 0 := rfl
  rw [h1, h2, h3, alterOr_zero]

/-- every step letter of the dummy spelling table is a letter `ensure_pitch_spelling_format` accepts -/
theorem dummy_steps_ok :
    ∀ e ∈ DUMMY_PS_BASE_CLASS, ((lookup (lower e.2.1) MIDI_BASE_CLASS).isNone && decide (lower e.2.1 ≠ "r")) = false := by
  decide

theorem ensureFormat_int (s : String) (a o : Int)
    (h : ((lookup (lower s) MIDI_BASE_CLASS).isNone && decide (lower s ≠ "r")) = false) :
    ensureFormat s (.int a) (.int o) = some (upper s, some a, some o) := by
  unfold ensureFormat
  simp only [h]
  rfl

theorem find_mem {α : Type} (p : α → Bool) : ∀ (l : List α) (x : α), l.find? p = some x → x ∈ l
  | [], _, h => by simp at h
  | a :: t, x, h => by
    simp only [List.find?] at h
    split at h
    · cases h; simp
    · exact List.mem_cons_of_mem _ (find_mem p t x h)

theorem midiToSpellingG_eq (p : Int) :
    midiToSpellingG p = (midiToSpelling p).map fun r => (r.1, some r.2.1, some r.2.2) := by
  unfold midiToSpellingG midiToSpelling
  have h1 : m2sOctave = 12 := rfl
  have h2 : m2sShift = 1 := rfl
  have h3 : m2sModulus = 12 := rfl
  rw [h1, h2, h3]
  cases hf : DUMMY_PS_BASE_CLASS.find? (fun e => decide ((e.1 : Int) = p % 12)) with
  | none => rfl
  | some e =>
    obtain ⟨k, step, alter⟩ := e
    have hm := find_mem _ _ _ hf
    have hok := dummy_steps_ok _ hm
    simp only [Option.map_some]
    exact ensureFormat_int step alter (p / 12 - 1) hok

/-- the seven step characters of the pattern are letters `ensure_pitch_spelling_format` accepts, and it upper-cases
    them as `note_name_to_pitch_spelling` of the first model does -/
theorem step_chars_ok :
    ∀ c ∈ ['A', 'B', 'C', 'D', 'E', 'F', 'G'],
      ((lookup (lower (String.ofList [c])) MIDI_BASE_CLASS).isNone && decide (lower (String.ofList [c]) ≠ "r")) = false := by
  decide

theorem isStepChar_mem (c : Char) (h : isStepChar c = true) : c ∈ ['A', 'B', 'C', 'D', 'E', 'F', 'G'] := by
  unfold isStepChar at h
  simp only [Bool.and_eq_true, decide_eq_true_eq] at h
  obtain ⟨h1, h2⟩ := h
  have h1' : 65 ≤ c.toNat := by
    have : ('A' : Char).toNat ≤ c.toNat := by exact_mod_cast (Char.le_def.mp h1)
    simpa using this
  have h2' : c.toNat ≤ 71 := by
    have : c.toNat ≤ ('G' : Char).toNat := by exact_mod_cast (Char.le_def.mp h2)
    simpa using this
  have hc : c = Char.ofNat c.toNat := (Char.ofNat_toNat c).symm
  generalize hn : c.toNat = n at *
  interval_cases n <;> (rw [hc]; decide)

theorem ensureFormat_sign (s : String) (sg : String) (o : Int)
    (h : ((lookup (lower s) MIDI_BASE_CLASS).isNone && decide (lower s ≠ "r")) = false) :
    ensureFormat s (.sign sg) (.int o) = (lookup sg SIGN_TO_ALTER).map fun a => (upper s, a, some o) := by
  unfold ensureFormat
  simp only [h]
  cases lookup sg SIGN_TO_ALTER <;> rfl

theorem noteNameToSpellingG_eq (name : String) :
    noteNameToSpellingG name = (noteNameToSpelling name).map fun r => (r.1, r.2.1, some r.2.2) := by
  unfold noteNameToSpellingG noteNameToSpelling
  rw [searchNoteNameG_eq]
  cases hs : searchNoteName name.toList with
  | none => rfl
  | some r =>
    obtain ⟨c, acc, digs⟩ := r
    have hc : isStepChar c = true := by
      -- a match starts with a step character
      have : ∀ (cs : List Char) c acc digs, searchNoteName cs = some (c, acc, digs) → isStepChar c = true := by
        intro cs
        induction cs with
        | nil => intro c acc digs h; simp [searchNoteName] at h
        | cons x xs ih =>
          intro c acc digs h
          unfold searchNoteName at h
          cases hm : matchNoteNameAt (x :: xs) with
          | some r =>
            rw [hm] at h
            simp only [Option.some.injEq] at h
            subst h
            unfold matchNoteNameAt at hm
            split at hm
            · simp at hm
            · rename_i c' rest heq
              split at hm
              · rename_i hstep
                dsimp only at hm
                split at hm
                · simp at hm
                · simp only [Option.some.injEq, Prod.mk.injEq] at hm
                  have : c' = c := hm.1
                  subst this
                  exact hstep
              · simp at hm
          | none =>
            rw [hm] at h
            exact ih c acc digs h
      exact this _ _ _ _ hs
    have hok := step_chars_ok c (isStepChar_mem c hc)
    simp only
    rw [ensureFormat_sign _ _ _ hok]
    cases lookup (if acc.isEmpty = true then "n" else String.ofList acc) SIGN_TO_ALTER <;> rfl

theorem noteNameToMidiG_eq (name : String) : noteNameToMidiG name = noteNameToMidi name := by
  unfold noteNameToMidiG noteNameToMidi
  rw [noteNameToSpellingG_eq]
  cases noteNameToSpelling name with
  | none => rfl
  | some r =>
    obtain ⟨s, a, o⟩ := r
    simp only [Option.map_some]
    exact spellingToMidiG_eq s a o

theorem keyNameToFifthsModeG_eq (name : String) : keyNameToFifthsModeG name = keyNameToFifthsMode name := rfl

theorem qualityLadderG_eq (n : Nat) : qualityLadderG n = qualityLadder n := by
  simp [qualityLadderG, qualityLadder, cqPerfectNumbers, cqPerfectLadder, cqOtherLadder, or_assoc]

theorem changeQualityG_eq (n : Nat) (q : String) (k : Int) : changeQualityG n q k = changeQuality n q k := by
  unfold changeQualityG changeQuality
  rw [qualityLadderG_eq]

theorem secToTickG_eq (t : Rat) (m p : Nat) (hm : m ≠ 0) : secToTickG t (some m) (some p) = some (secToTick t m p) := by
  unfold secToTickG secToTick
  simp only [Option.getD_some, hm, if_false]
  rfl

theorem tickToSecG_eq (k : Int) (m p : Nat) (hp : p ≠ 0) : tickToSecG (k : Rat) (some m) (some p) = some (tickToSec k m p) := by
  unfold tickToSecG tickToSec
  simp only [Option.getD_some, hp, if_false]
  rfl

end C12Bridge
