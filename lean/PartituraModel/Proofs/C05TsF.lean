/-
Helper lemmas for C05 (round 6): the inverse direction over a given part table (`fromArrayXW`, Model/NoteArrayTsF.lean);
at the stored table `rowsF` the onset / duration / pitch triples and the time- and key-signature columns come back
exactly as at the exact table (the proofs of Proofs/C05Ts.lean / C05Ks.lean with `maps64` in the place of `maps`: the
signature maps of the two are the same functions, only the beat / quarter maps and the sort key differ).
-/
import PartituraModel.Proofs.C05Ks
import PartituraModel.Props.C05Stored
import PartituraModel.Model.NoteArrayTsF

namespace NoteArray
open List Model

theorem fromArrayXW_ok (pt : PartTable) (hb hd ht hk : Bool) (a : List ARow) (dv : Option Nat) (tsl : List (Int × Int × Int))
    (est san : Bool) (x : XOut) (h : fromArrayXW pt hb hd ht hk a dv tsl est san = .ok x) :
    ∃ d l kss ms,
      fromArray hb hd ht a dv = .ok (d, l) ∧
      invKeySigs hk (sortArr hd a) l = some kss ∧
      createdMeasures d (invTimeSigs hd ht (sortArr hd a) l d tsl est) san
        (xLast (invTimeSigs hd ht (sortArr hd a) l d tsl est) kss (xAna hb ht (sortArr hd a) l d) l)
        (xAna hb ht (sortArr hd a) l d) = .ok ms ∧
      x.divs = d ∧ x.kss = kss ∧ x.measures = ms ∧
      x.tss = (invTimeSigs hd ht (sortArr hd a) l d tsl est).getD [] ∧
      pt (createdDesc d (invTimeSigs hd ht (sortArr hd a) l d tsl est) kss ms
          (xLast (invTimeSigs hd ht (sortArr hd a) l d tsl est) kss (xAna hb ht (sortArr hd a) l d) l))
        (mkNotes dummySpell 0 l) xOpts = some x.rows := by
  unfold fromArrayXW at h
  cases hfa : fromArray hb hd ht a dv with
  | error e => rw [hfa] at h; cases h
  | ok dl =>
    obtain ⟨d, l⟩ := dl
    rw [hfa] at h
    simp only at h
    cases hks : invKeySigs hk (sortArr hd a) l with
    | none => rw [hks] at h; cases h
    | some kss =>
      rw [hks] at h
      simp only at h
      cases hms : createdMeasures d (invTimeSigs hd ht (sortArr hd a) l d tsl est) san
          (xLast (invTimeSigs hd ht (sortArr hd a) l d tsl est) kss (xAna hb ht (sortArr hd a) l d) l)
          (xAna hb ht (sortArr hd a) l d) with
      | error e => rw [hms] at h; cases h
      | ok ms =>
        rw [hms] at h
        simp only at h
        cases hrows : pt (createdDesc d (invTimeSigs hd ht (sortArr hd a) l d tsl est) kss ms
            (xLast (invTimeSigs hd ht (sortArr hd a) l d tsl est) kss (xAna hb ht (sortArr hd a) l d) l))
            (mkNotes dummySpell 0 l) xOpts with
        | none => rw [hrows] at h; cases h
        | some rows =>
          rw [hrows] at h
          cases h
          exact ⟨d, l, kss, ms, rfl, hks, hms, rfl, rfl, rfl, rfl, hrows⟩

theorem createdDesc_part64 (d : Nat) (ts : Option (List (Int × (Int × Int)))) (kss : List (Int × Int × Mode))
    (ms : List (Int × Int)) (last : Int) (l : List (Int × Int × Int)) (o : Opts) :
    C05.part64 (createdDesc d ts kss ms last) (mkNotes dummySpell 0 l) o
      = createPart d l ((createdDesc d ts kss ms last).maps64 o) dummySpell := rfl

theorem maps64_ts_on (desc : Desc) (t : Int) : (desc.maps64 xOpts).ts t = (desc.ts t).getD (0, 0, 0) := rfl
theorem maps64_ks_on (desc : Desc) (t : Int) : (desc.maps64 xOpts).ks t = (desc.ks t).getD (0, 0) := rfl

theorem storeRow64_rowCols (t : List Row) : (t.map storeRow64).map rowCols = t.map rowCols := by
  rw [map_map]; rfl

theorem storeRow64_rowTriple (t : List Row) : (t.map storeRow64).map rowTriple = t.map rowTriple := by
  rw [map_map]; rfl

theorem fromArrayXF_triples (hb ht hk : Bool) (a : List ARow) (dv : Option Nat) (tsl : List (Int × Int × Int))
    (est san : Bool) (x : XOut) (h : fromArrayXF hb true ht hk a dv tsl est san = .ok x) :
    x.rows.map rowTriple ~ a.map divTriple := by
  obtain ⟨d, l, kss, ms, hfa, _, _, _, _, _, _, hrows⟩ := fromArrayXW_ok rowsF _ _ _ _ _ _ _ _ _ _ h
  obtain ⟨t, ht', hx⟩ := C05.rowsF_some _ _ _ _ hrows
  rw [createdDesc_part64] at ht'
  rw [hx, storeRow64_rowTriple]
  exact (rows_createPart d l _ dummySpell xOpts t (fun y _ => dummySpell_keeps y.2.2) ht').trans
    (fromArray_div hb ht a dv d l hfa).1

theorem fromArrayXF_ts_back (hb hk : Bool) (a : List ARow) (dv : Option Nat) (tsl : List (Int × Int × Int))
    (est san : Bool) (x : XOut) (h : fromArrayXF hb true true hk a dv tsl est san = .ok x) (hok : TsColumnsOK a) :
    x.rows.map (fun r => (r.onsetDiv, r.durDiv, r.pitch, r.tsBeats, r.tsBeatType))
      ~ a.map (fun r => (r.onsetDiv, r.durDiv, r.pitch, r.tsBeats, r.tsBeatType)) := by
  obtain ⟨d, l, kss, ms, hfa, _, _, _, _, _, _, hrows⟩ := fromArrayXW_ok rowsF _ _ _ _ _ _ _ _ _ _ h
  have hl := fromArray_div_eq hb true a dv d l hfa
  have hnn : ∀ r ∈ a, 0 ≤ r.onsetDiv := by
    intro r hr
    obtain ⟨hperm, hpos⟩ := fromArray_div hb true a dv d l hfa
    exact (hpos (divTriple r) (hperm.mem_iff.mpr (mem_map_of_mem hr))).1
  rw [invTimeSigs_columns, hl, onsetsWith_map] at hrows
  generalize xLast _ kss _ _ = last at hrows
  obtain ⟨t, ht', hx⟩ := C05.rowsF_some _ _ _ _ hrows
  rw [createdDesc_part64] at ht'
  have hP := rows_createPart_cols d ((sortArr true a).map divTriple) _ dummySpell xOpts t
    (fun y _ => dummySpell_keeps y.2.2) ht'
  rw [← storeRow64_rowCols, ← hx] at hP
  have hP2 := hP.map (fun c : (Int × Int × Int) × (Int × Int × Int) × (Int × Int) =>
    (c.1.1, c.1.2.1, c.1.2.2, c.2.1.1, c.2.1.2.1))
  rw [map_map, map_map, map_map] at hP2
  refine (hP2.trans (Perm.of_eq ?_)).trans ((sortArr_perm true a).map _)
  apply map_congr_left
  intro r hr
  have hts := created_ts_at_row a hok hnn d kss ms last r hr
  simp only [Function.comp, divTriple, maps64_ts_on]
  rw [show tsColumn (sortArr true a) = (sortArr true a).map fun r => (r.onsetDiv, tsSig r) from rfl] at hts
  rw [hts]
  rfl

theorem fromArrayXF_ks_back (hb ht : Bool) (a : List ARow) (dv : Option Nat) (tsl : List (Int × Int × Int))
    (est san : Bool) (x : XOut) (h : fromArrayXF hb true ht true a dv tsl est san = .ok x) (hok : KsColumnsOK a) :
    x.rows.map (fun r => (r.onsetDiv, r.durDiv, r.pitch, r.ksFifths, r.ksMode))
      ~ a.map (fun r => (r.onsetDiv, r.durDiv, r.pitch, r.ksFifths, r.ksMode)) := by
  obtain ⟨d, l, kss, ms, hfa, hks, _, _, _, _, _, hrows⟩ := fromArrayXW_ok rowsF _ _ _ _ _ _ _ _ _ _ h
  have hl := fromArray_div_eq hb ht a dv d l hfa
  have hnn : ∀ r ∈ a, 0 ≤ r.onsetDiv := by
    intro r hr
    obtain ⟨hperm, hpos⟩ := fromArray_div hb ht a dv d l hfa
    exact (hpos (divTriple r) (hperm.mem_iff.mpr (mem_map_of_mem hr))).1
  rw [hl] at hks
  generalize invTimeSigs true ht (sortArr true a) l d tsl est = ts at hrows
  generalize xLast ts kss _ _ = last at hrows
  rw [hl] at hrows
  obtain ⟨t, ht', hx⟩ := C05.rowsF_some _ _ _ _ hrows
  rw [createdDesc_part64] at ht'
  have hP := rows_createPart_cols d ((sortArr true a).map divTriple) _ dummySpell xOpts t
    (fun y _ => dummySpell_keeps y.2.2) ht'
  rw [← storeRow64_rowCols, ← hx] at hP
  have hP2 := hP.map (fun c : (Int × Int × Int) × (Int × Int × Int) × (Int × Int) =>
    (c.1.1, c.1.2.1, c.1.2.2, c.2.2.1, c.2.2.2))
  rw [map_map, map_map, map_map] at hP2
  refine (hP2.trans (Perm.of_eq ?_)).trans ((sortArr_perm true a).map _)
  apply map_congr_left
  intro r hr
  have hk := created_ks_at_row a hok hnn kss hks d ts ms last r hr
  simp only [Function.comp, divTriple, maps64_ks_on]
  rw [hk]
  rfl

end NoteArray
