/-
Helper lemmas for C08, time signatures of MIXED beat types: the importer's beats→quarters map
(`beatsToQuarters`, knots at the four-decimal beat times of the time-signature lines) against the true position
in quarters of the score that was written (`Score.quarters`).
-/
import PartituraModel.Model.MatchTime
import PartituraModel.Proofs.C08
import PartituraModel.Proofs.C08Sort
import PartituraModel.Proofs.Round
import Mathlib.Tactic.Linarith
import Mathlib.Tactic.FieldSimp
import Mathlib.Tactic.Ring

namespace C08M
open Model Model.MatchTime C08S

/-! ### the importer's map as a recursion over the sorted time-signature lines -/

/-- `beatsToQuarters` on sorted lines: walk to the stretch that holds `b`, adding up the quarters -/
def btqRec : List TSLine → Rat → Rat → Rat
  | [], q, _ => q
  | [s], q, b => q + (b - s.timeB) * 4 / (s.den : Rat)
  | s :: s' :: rest, q, b =>
    if b < s'.timeB then q + (b - s.timeB) * 4 / (s.den : Rat)
    else btqRec (s' :: rest) (q + 4 * (s'.timeB - s.timeB) / (s.den : Rat)) b

def pick (o : Option (TSLine × Rat)) (dflt b : Rat) : Rat :=
  match o with
  | some (x, q) => q + (b - x.timeB) * 4 / (x.den : Rat)
  | none => dflt

theorem beatsToQuarters_eq_pick (s : TSLine) (rest : List TSLine) (b : Rat) :
    beatsToQuarters (s :: rest) b
      = pick (((tsQuarters (s :: rest) (s.timeB * 4 / (s.den : Rat))).filter
          fun p => decide (p.1.timeB ≤ b)).getLast?)
          ((s.timeB * 4 / (s.den : Rat)) + (b - s.timeB) * 4 / (s.den : Rat)) b := by
  unfold beatsToQuarters pick
  simp only
  cases ((tsQuarters (s :: rest) (s.timeB * 4 / (s.den : Rat))).filter
          fun p => decide (p.1.timeB ≤ b)).getLast? with
  | none => rfl
  | some p => rfl

theorem tsQuarters_map_fst : ∀ (ts : List TSLine) (q : Rat), (tsQuarters ts q).map Prod.fst = ts := by
  intro ts
  induction ts with
  | nil => intro q; rfl
  | cons s rest ih =>
    intro q
    cases rest with
    | nil => rfl
    | cons s' r =>
      unfold tsQuarters
      rw [List.map_cons, ih]

theorem tsQuarters_pairwise (ts : List TSLine) (q : Rat) (h : ts.Pairwise (fun a b => a.timeB ≤ b.timeB)) :
    (tsQuarters ts q).Pairwise (fun a b => a.1.timeB ≤ b.1.timeB) := by
  have := tsQuarters_map_fst ts q
  rw [← this, List.pairwise_map] at h
  exact h

theorem tsQuarters_cons_cons (s s' : TSLine) (r : List TSLine) (q : Rat) :
    ∃ tq, tsQuarters (s :: s' :: r) q = (s, q) :: (s', q + 4 * (s'.timeB - s.timeB) / (s.den : Rat)) :: tq
      ∧ tsQuarters (s' :: r) (q + 4 * (s'.timeB - s.timeB) / (s.den : Rat))
          = (s', q + 4 * (s'.timeB - s.timeB) / (s.den : Rat)) :: tq := by
  cases r with
  | nil => exact ⟨[], by simp [tsQuarters], by simp [tsQuarters]⟩
  | cons s'' r' =>
    refine ⟨tsQuarters (s'' :: r') (q + 4 * (s'.timeB - s.timeB) / (s.den : Rat) + 4 * (s''.timeB - s'.timeB) / (s'.den : Rat)), ?_, ?_⟩
    · rw [tsQuarters, tsQuarters]
    · rw [tsQuarters]

theorem pick_rec : ∀ (rest : List TSLine) (s : TSLine) (q dflt b : Rat),
    (s :: rest).Pairwise (fun a b => a.timeB ≤ b.timeB) →
    (b < s.timeB → dflt = q + (b - s.timeB) * 4 / (s.den : Rat)) →
    pick (((tsQuarters (s :: rest) q).filter fun p => decide (p.1.timeB ≤ b)).getLast?) dflt b
      = btqRec (s :: rest) q b := by
  intro rest
  induction rest with
  | nil =>
    intro s q dflt b _ hd
    unfold tsQuarters btqRec
    by_cases hb : s.timeB ≤ b
    · simp [List.filter, hb, pick]
    · have := hd (lt_of_not_ge hb)
      simp [List.filter, hb, pick, this]
  | cons s' r ih =>
    intro s q dflt b hs hd
    obtain ⟨tq, h1, h2⟩ := tsQuarters_cons_cons s s' r q
    have hsorted := tsQuarters_pairwise (s :: s' :: r) q hs
    rw [h1] at hsorted ⊢
    unfold btqRec
    by_cases hb : b < s'.timeB
    · rw [if_pos hb, lastLE_lt (key := fun p : TSLine × Rat => p.1.timeB) _ _ _ hsorted b hb]
      by_cases hb0 : s.timeB ≤ b
      · simp [hb0, pick]
      · have := hd (lt_of_not_ge hb0)
        simp [hb0, pick, this]
    · rw [if_neg hb]
      have hge : s'.timeB ≤ b := le_of_not_gt hb
      rw [lastLE_ge (key := fun p : TSLine × Rat => p.1.timeB) _ _ _ b hge, ← h2]
      have hs' : (s' :: r).Pairwise (fun a b => a.timeB ≤ b.timeB) := (List.pairwise_cons.mp hs).2
      exact ih s' _ dflt b hs' (fun hlt => absurd hlt (not_lt.mpr hge))

/-- on lines sorted by time the importer's map is the recursion -/
theorem beatsToQuarters_rec (s : TSLine) (rest : List TSLine)
    (h : (s :: rest).Pairwise (fun a b => a.timeB ≤ b.timeB)) (b : Rat) :
    beatsToQuarters (s :: rest) b = btqRec (s :: rest) (s.timeB * 4 / (s.den : Rat)) b := by
  rw [beatsToQuarters_eq_pick]
  exact pick_rec rest s _ _ b h (fun _ => rfl)

/-! ### the beat function of the score that was written -/

def tsLineOf (beats : Int → Rat) (mnum : Int → Int) (s : TSig) : TSLine :=
  { timeB := dec4 (beats s.t), measure := mnum s.t, num := s.num, den := s.den }

theorem tsLines_eq (sc : Score) (mnum : Int → Int) : sc.tsLines mnum = sc.ts.map (tsLineOf sc.beats mnum) := rfl

/-- `beats` grows by `den/(4·divs)` per division inside the stretch of each time signature -/
def PW (divs : Nat) (beats : Int → Rat) : List TSig → Prop
  | [] => True
  | [s] => ∀ t : Int, s.t ≤ t → beats t - beats s.t = ((t - s.t : Int) : Rat) * (s.den : Rat) / (4 * (divs : Rat))
  | s :: s' :: rest =>
    (∀ t : Int, s.t ≤ t → t ≤ s'.t →
        beats t - beats s.t = ((t - s.t : Int) : Rat) * (s.den : Rat) / (4 * (divs : Rat)))
      ∧ PW divs beats (s' :: rest)

theorem PW_congr (divs : Nat) (f g : Int → Rat) : ∀ (rest : List TSig) (s : TSig),
    (∀ t : Int, s.t ≤ t → f t = g t) → (s :: rest).Pairwise (fun a b => a.t < b.t) →
    PW divs g (s :: rest) → PW divs f (s :: rest) := by
  intro rest
  induction rest with
  | nil =>
    intro s hfg _ hg t ht
    have := hg t ht
    rw [hfg t ht, hfg s.t (le_refl _)]
    exact this
  | cons s' r ih =>
    intro s hfg hs hg
    obtain ⟨hg1, hg2⟩ := hg
    have hlt : s.t < s'.t := (List.pairwise_cons.mp hs).1 s' (by simp)
    refine ⟨?_, ?_⟩
    · intro t ht ht'
      rw [hfg t ht, hfg s.t (le_refl _)]
      exact hg1 t ht ht'
    · exact ih s' (fun t ht => hfg t (by omega)) (List.pairwise_cons.mp hs).2 hg2

theorem rawBeats_head (divs : Nat) : ∀ (rest : List TSig) (s : TSig),
    (s :: rest).Pairwise (fun a b => a.t < b.t) → rawBeats divs (s :: rest) s.t = 0 := by
  intro rest s hs
  cases rest with
  | nil => simp [rawBeats]
  | cons s' r =>
    have hlt : s.t < s'.t := (List.pairwise_cons.mp hs).1 s' (by simp)
    unfold rawBeats
    rw [if_pos hlt]
    simp

theorem PW_rawBeats (divs : Nat) : ∀ (rest : List TSig) (s : TSig) (c : Rat),
    (s :: rest).Pairwise (fun a b => a.t < b.t) →
    PW divs (fun t => rawBeats divs (s :: rest) t - c) (s :: rest) := by
  intro rest
  induction rest with
  | nil =>
    intro s c _ t _
    simp [rawBeats]
  | cons s' r ih =>
    intro s c hs
    have hlt : s.t < s'.t := (List.pairwise_cons.mp hs).1 s' (by simp)
    have hs' := (List.pairwise_cons.mp hs).2
    have h0 : rawBeats divs (s :: s' :: r) s.t = 0 := rawBeats_head divs _ s hs
    refine ⟨?_, ?_⟩
    · intro t ht ht'
      show rawBeats divs (s :: s' :: r) t - c - (rawBeats divs (s :: s' :: r) s.t - c) = _
      rw [h0]
      by_cases hc : t < s'.t
      · rw [rawBeats, if_pos hc]; ring
      · have : t = s'.t := by omega
        rw [rawBeats, if_neg hc, this, rawBeats_head divs _ s' hs']
        ring
    · apply PW_congr divs _ (fun t => rawBeats divs (s' :: r) t
          - (c - ((s'.t - s.t : Int) : Rat) * (s.den : Rat) / (4 * (divs : Rat)))) r s' _ hs' (ih s' _ hs')
      intro t ht
      have hc : ¬ t < s'.t := by omega
      rw [rawBeats, if_neg hc]
      ring

/-- the beat function of a score with time signatures at strictly increasing times -/
theorem PW_score (sc : Score) (h : sc.ts.Pairwise (fun a b => a.t < b.t)) : PW sc.divs sc.beats sc.ts := by
  cases hts : sc.ts with
  | nil => trivial
  | cons s rest =>
    have : sc.beats = fun t => rawBeats sc.divs (s :: rest) t - pickupShift sc.divs sc.ts sc.ms := by
      funext t; unfold Score.beats; rw [hts]
    rw [this]
    rw [hts] at h
    exact PW_rawBeats sc.divs rest s _ h

/-! ### the exact value of the importer's map -/

theorem segOK_head (beats : Int → Rat) (s : TSig) (rest : List TSig) (o : Int) (b : Rat)
    (h : segOK beats (s :: rest) o b = true) : dec4 (beats s.t) ≤ b := by
  cases rest with
  | nil => simpa [segOK] using h
  | cons s' r =>
    unfold segOK at h
    simp only [Bool.and_eq_true, decide_eq_true_eq] at h
    exact h.1

/-- **the importer's map, exactly**: at the four-decimal beat time `b` of a note at `o` it returns the quarters
    accumulated so far (`q`, for the first line) plus the true distance `(o − s.t)/divs`, minus the rounding of
    the first line's own time, plus the rounding of the note's time at the slope of its stretch, plus `knotErr` -/
theorem btq_exact (divs : Nat) (hd : 0 < divs) (beats : Int → Rat) (mnum : Int → Int) :
    ∀ (rest : List TSig) (s : TSig), (s :: rest).Pairwise (fun a b => a.t < b.t) →
    PW divs beats (s :: rest) → (∀ x ∈ s :: rest, 0 < x.den) →
    ∀ (o : Int) (b q : Rat) (sk : TSig), s.t ≤ o → segOK beats (s :: rest) o b = true →
      tsAt (s :: rest) o = some sk →
      btqRec ((s :: rest).map (tsLineOf beats mnum)) q b
        = q + ((o - s.t : Int) : Rat) / (divs : Rat) - 4 * (dec4 (beats s.t) - beats s.t) / (s.den : Rat)
            + 4 * (b - beats o) / (sk.den : Rat) + knotErr beats (s :: rest) o := by
  have hdq : ((divs : Nat) : Rat) ≠ 0 := by exact_mod_cast (Nat.pos_iff_ne_zero.mp hd)
  intro rest
  induction rest with
  | nil =>
    intro s _ hpw hden o b q sk ho _ hat
    have hsk : sk = s := by simp [tsAt] at hat; exact hat.symm
    have hdn : ((s.den : Nat) : Rat) ≠ 0 := by exact_mod_cast (Nat.pos_iff_ne_zero.mp (hden s (by simp)))
    have hrel := hpw o ho
    have hrel' : ((o - s.t : Int) : Rat) / (divs : Rat) = 4 * (beats o - beats s.t) / (s.den : Rat) := by
      rw [hrel]; field_simp
    rw [hsk, hrel']
    simp only [List.map_cons, List.map_nil, btqRec, knotErr, tsLineOf]
    ring
  | cons s' r ih =>
    intro s hsort hpw hden o b q sk ho hseg hat
    obtain ⟨hpw1, hpw2⟩ := hpw
    have hlt : s.t < s'.t := (List.pairwise_cons.mp hsort).1 s' (by simp)
    have hdn : ((s.den : Nat) : Rat) ≠ 0 := by exact_mod_cast (Nat.pos_iff_ne_zero.mp (hden s (by simp)))
    simp only [List.map_cons]
    unfold segOK at hseg
    simp only [Bool.and_eq_true, decide_eq_true_eq] at hseg
    by_cases hc : o < s'.t
    · rw [if_pos hc] at hseg
      have hb' : b < dec4 (beats s'.t) := by simpa using hseg.2
      have hsk : sk = s := by
        unfold tsAt at hat; rw [if_pos hc] at hat; exact (Option.some.inj hat).symm
      have hrel := hpw1 o ho (le_of_lt hc)
      have hrel' : ((o - s.t : Int) : Rat) / (divs : Rat) = 4 * (beats o - beats s.t) / (s.den : Rat) := by
        rw [hrel]; field_simp
      rw [btqRec, hsk, hrel']
      have : (tsLineOf beats mnum s').timeB = dec4 (beats s'.t) := rfl
      rw [this, if_pos hb']
      unfold knotErr
      rw [if_pos hc]
      simp only [tsLineOf]
      ring
    · rw [if_neg hc] at hseg
      have hge : s'.t ≤ o := by omega
      have hb' : ¬ b < dec4 (beats s'.t) := not_lt.mpr (segOK_head beats s' r o b hseg.2)
      have hat' : tsAt (s' :: r) o = some sk := by
        unfold tsAt at hat; rw [if_neg hc] at hat; exact hat
      have hrel := hpw1 s'.t (by omega) (le_refl _)
      have hrel' : ((s'.t - s.t : Int) : Rat) / (divs : Rat) = 4 * (beats s'.t - beats s.t) / (s.den : Rat) := by
        rw [hrel]; field_simp
      have hsplit : ((o - s.t : Int) : Rat) = ((o - s'.t : Int) : Rat) + ((s'.t - s.t : Int) : Rat) := by
        push_cast; ring
      rw [btqRec]
      have : (tsLineOf beats mnum s').timeB = dec4 (beats s'.t) := rfl
      rw [this, if_neg hb']
      have ih' := ih s' (List.pairwise_cons.mp hsort).2 hpw2 (fun x hx => hden x (by simp at hx ⊢; right; exact hx)) o b
        (q + 4 * (dec4 (beats s'.t) - (tsLineOf beats mnum s).timeB) / ((tsLineOf beats mnum s).den : Rat)) sk hge hseg.2 hat'
      simp only [List.map_cons] at ih'
      rw [ih']
      conv_rhs => rw [knotErr, if_neg hc, hsplit, add_div, hrel']
      simp only [tsLineOf]
      ring

/-! ### the beat type the importer looks up -/

theorem seg_facts (beats : Int → Rat) : ∀ (rest : List TSig) (s : TSig),
    ((s :: rest).map fun x => dec4 (beats x.t)).Pairwise (· < ·) →
    ∀ (o : Int) (b : Rat) (sk : TSig), segOK beats (s :: rest) o b = true → tsAt (s :: rest) o = some sk →
      sk ∈ s :: rest ∧ dec4 (beats sk.t) ≤ b ∧
      ∀ x ∈ s :: rest, dec4 (beats x.t) ≤ b →
        dec4 (beats x.t) ≤ dec4 (beats sk.t) ∧ (dec4 (beats x.t) = dec4 (beats sk.t) → x.den = sk.den) := by
  intro rest
  induction rest with
  | nil =>
    intro s _ o b sk hseg hat
    have hsk : sk = s := by simp [tsAt] at hat; exact hat.symm
    subst hsk
    refine ⟨by simp, segOK_head beats sk [] o b hseg, ?_⟩
    intro x hx _
    simp at hx
    subst hx
    exact ⟨le_refl _, fun _ => rfl⟩
  | cons s' r ih =>
    intro s hs o b sk hseg hat
    have hhead := segOK_head beats s (s' :: r) o b hseg
    simp only [List.map_cons, List.pairwise_cons] at hs
    unfold segOK at hseg
    simp only [Bool.and_eq_true, decide_eq_true_eq] at hseg
    by_cases hc : o < s'.t
    · rw [if_pos hc] at hseg
      have hb' : b < dec4 (beats s'.t) := by simpa using hseg.2
      have hsk : sk = s := by
        unfold tsAt at hat; rw [if_pos hc] at hat; exact (Option.some.inj hat).symm
      subst hsk
      refine ⟨by simp, hhead, ?_⟩
      intro x hx hxb
      rcases List.mem_cons.mp hx with rfl | hx'
      · exact ⟨le_refl _, fun _ => rfl⟩
      · exfalso
        rcases List.mem_cons.mp hx' with rfl | hx''
        · linarith
        · have := hs.2.1 (dec4 (beats x.t)) (List.mem_map.mpr ⟨x, hx'', rfl⟩)
          linarith
    · rw [if_neg hc] at hseg
      have hat' : tsAt (s' :: r) o = some sk := by
        unfold tsAt at hat; rw [if_neg hc] at hat; exact hat
      have hs' : ((s' :: r).map fun x => dec4 (beats x.t)).Pairwise (· < ·) := by
        simp only [List.map_cons, List.pairwise_cons]; exact hs.2
      obtain ⟨h1, h2, h3⟩ := ih s' hs' o b sk hseg.2 hat'
      refine ⟨List.mem_cons_of_mem _ h1, h2, ?_⟩
      intro x hx hxb
      rcases List.mem_cons.mp hx with rfl | hx'
      · have hlt : dec4 (beats x.t) < dec4 (beats sk.t) := by
          apply hs.1
          rcases List.mem_cons.mp h1 with rfl | h1'
          · simp
          · exact List.mem_cons_of_mem _ (List.mem_map.mpr ⟨sk, h1', rfl⟩)
        exact ⟨le_of_lt hlt, fun he => absurd he (ne_of_lt hlt)⟩
      · exact h3 x hx' hxb

/-- the beat type looked up at `b` is the one of the line `k` that is the last at or before `b` -/
theorem denAtBeats_seg (s0 : TSLine) (rest : List TSLine) (maxTime b : Rat) (k : TSLine)
    (hk : k ∈ s0 :: rest) (hkb : k.timeB ≤ b)
    (hmaxk : ∀ x ∈ s0 :: rest, x.timeB ≤ b → x.timeB ≤ k.timeB ∧ (x.timeB = k.timeB → x.den = k.den))
    (hend : b < maxTime ∨ ((s0 :: rest).getLast?.getD s0).den = k.den) :
    denAtBeats (s0 :: rest) maxTime b = k.den := by
  unfold denAtBeats
  simp only
  have hsorted := sortBy_pairwise (fun a c : Rat × Nat => decide (a.1 ≤ c.1))
    (fun a c => by
      rcases le_total a.1 c.1 with h | h
      · left; simpa using h
      · right; simpa using h)
    (fun a c e h1 h2 => by
      have h1' : a.1 ≤ c.1 := by simpa using h1
      have h2' : c.1 ≤ e.1 := by simpa using h2
      simpa using le_trans h1' h2')
    ((s0 :: rest).map (fun x => (x.timeB, x.den)) ++ [(maxTime, ((s0 :: rest).getLast?.getD s0).den)])
  have hsorted' : (sortBy (fun a c : Rat × Nat => decide (a.1 ≤ c.1))
      ((s0 :: rest).map (fun x => (x.timeB, x.den)) ++ [(maxTime, ((s0 :: rest).getLast?.getD s0).den)])).Pairwise
      (fun a c => a.1 ≤ c.1) := hsorted.imp (fun h => by simpa using h)
  have hspec := lastLE_spec (key := fun p : Rat × Nat => p.1) _ hsorted' b
  have hkmem : (k.timeB, k.den) ∈ sortBy (fun a c : Rat × Nat => decide (a.1 ≤ c.1))
      ((s0 :: rest).map (fun x => (x.timeB, x.den)) ++ [(maxTime, ((s0 :: rest).getLast?.getD s0).den)]) := by
    rw [mem_sortBy, List.mem_append]
    left
    exact List.mem_map.mpr ⟨k, hk, rfl⟩
  split
  · rename_i p hlast
    rw [hlast] at hspec
    obtain ⟨hp1, hp2, hp3⟩ := hspec
    rw [mem_sortBy, List.mem_append] at hp1
    have hkp := hp3 _ hkmem hkb
    rcases hp1 with hp1 | hp1
    · obtain ⟨x, hx, rfl⟩ := List.mem_map.mp hp1
      obtain ⟨h1, h2⟩ := hmaxk x hx hp2
      exact h2 (le_antisymm h1 hkp)
    · simp only [List.mem_singleton] at hp1
      subst hp1
      rcases hend with h | h
      · simp only at hp2
        linarith
      · exact h
  · rename_i hlast
    rw [hlast] at hspec
    exact absurd hkb (hspec _ hkmem)

theorem getLast?_getD_map (beats : Int → Rat) (mnum : Int → Int) (s : TSig) (rest : List TSig) :
    (((s :: rest).map (tsLineOf beats mnum)).getLast?.getD (tsLineOf beats mnum s)).den
      = ((s :: rest).getLast?.getD s).den := by
  rw [List.getLast?_map]
  cases (s :: rest).getLast? <;> rfl

/-! ### four decimals -/

theorem dec4_mono {x y : Rat} (h : x ≤ y) : dec4 x ≤ dec4 y := by
  unfold dec4
  have := Round.roundHalfEven_mono (a := x * 10000) (b := y * 10000) (by linarith)
  have h' : ((roundHalfEven (x * 10000) : Int) : Rat) ≤ ((roundHalfEven (y * 10000) : Int) : Rat) := by exact_mod_cast this
  linarith

theorem dec4_int (z : Int) : dec4 (z : Rat) = (z : Rat) := by
  unfold dec4
  have : ((z : Rat) * 10000) = ((z * 10000 : Int) : Rat) := by push_cast; ring
  rw [this, Round.roundHalfEven_int]
  push_cast
  field_simp

/-- beat times more than 1/10000 apart keep their order in the file -/
theorem dec4_lt {x y : Rat} (h : x + 1 / 10000 < y) : dec4 x < dec4 y := by
  have hx := C08P.dec4_close x
  have hy := C08P.dec4_close y
  rw [abs_le] at hx hy
  linarith

/-! ### beat times of a score with fewer than 2500 divisions per quarter keep their order in the file -/

/-- the beat count grows by at least `1/(4·divs)` per division -/
theorem PW_gap (divs : Nat) (hd : 0 < divs) (beats : Int → Rat) : ∀ (rest : List TSig) (s : TSig),
    (s :: rest).Pairwise (fun a b => a.t < b.t) → PW divs beats (s :: rest) → (∀ x ∈ s :: rest, 0 < x.den) →
    ∀ t : Int, s.t ≤ t → ((t - s.t : Int) : Rat) / (4 * (divs : Rat)) ≤ beats t - beats s.t := by
  have hdq : (0 : Rat) < 4 * (divs : Rat) := by
    have : (0 : Rat) < (divs : Rat) := by exact_mod_cast hd
    linarith
  have slope : ∀ (x : TSig) (u : Int), 0 < x.den → 0 ≤ u →
      ((u : Int) : Rat) / (4 * (divs : Rat)) ≤ ((u : Int) : Rat) * (x.den : Rat) / (4 * (divs : Rat)) := by
    intro x u hx hu
    apply div_le_div_of_nonneg_right _ (le_of_lt hdq)
    have h1 : (1 : Rat) ≤ (x.den : Rat) := by exact_mod_cast hx
    have h2 : (0 : Rat) ≤ ((u : Int) : Rat) := by exact_mod_cast hu
    nlinarith
  intro rest
  induction rest with
  | nil =>
    intro s _ hpw hden t ht
    rw [hpw t ht]
    exact slope s _ (hden s (by simp)) (by omega)
  | cons s' r ih =>
    intro s hsort hpw hden t ht
    obtain ⟨hpw1, hpw2⟩ := hpw
    have hlt : s.t < s'.t := (List.pairwise_cons.mp hsort).1 s' (by simp)
    by_cases hc : t ≤ s'.t
    · rw [hpw1 t ht hc]
      exact slope s _ (hden s (by simp)) (by omega)
    · have h1 := hpw1 s'.t (by omega) (le_refl _)
      have h2 := ih s' (List.pairwise_cons.mp hsort).2 hpw2 (fun x hx => hden x (by simp at hx ⊢; right; exact hx)) t (by omega)
      have h3 := slope s (s'.t - s.t) (hden s (by simp)) (by omega)
      have hsplit : ((t - s.t : Int) : Rat) = ((t - s'.t : Int) : Rat) + ((s'.t - s.t : Int) : Rat) := by
        push_cast; ring
      rw [hsplit, add_div]
      linarith

theorem small_divs_gap (divs : Nat) (hd : 0 < divs) (h : divs < 2500) (u : Int) (hu : 1 ≤ u) :
    (1 : Rat) / 10000 < ((u : Int) : Rat) / (4 * (divs : Rat)) := by
  have hdq : (0 : Rat) < 4 * (divs : Rat) := by
    have : (0 : Rat) < (divs : Rat) := by exact_mod_cast hd
    linarith
  rw [lt_div_iff₀ hdq]
  have h1 : (divs : Rat) < 2500 := by exact_mod_cast h
  have h2 : (1 : Rat) ≤ ((u : Int) : Rat) := by exact_mod_cast hu
  linarith

/-- with fewer than 2500 divisions per quarter the written times of the time signatures are distinct and
    in order -/
theorem hats_of_small_divs (divs : Nat) (hd : 0 < divs) (h : divs < 2500) (beats : Int → Rat) :
    ∀ (rest : List TSig) (s : TSig),
    (s :: rest).Pairwise (fun a b => a.t < b.t) → PW divs beats (s :: rest) → (∀ x ∈ s :: rest, 0 < x.den) →
    ((s :: rest).map fun x => dec4 (beats x.t)).Pairwise (· < ·) := by
  intro rest
  induction rest with
  | nil => intro s _ _ _; simp
  | cons s' r ih =>
    intro s hsort hpw hden
    have hs := List.pairwise_cons.mp hsort
    have ih' := ih s' hs.2 hpw.2 (fun x hx => hden x (by simp at hx ⊢; right; exact hx))
    rw [List.map_cons, List.pairwise_cons]
    refine ⟨?_, ih'⟩
    intro y hy
    obtain ⟨x, hx, rfl⟩ := List.mem_map.mp hy
    have hlt : s.t < x.t := hs.1 x hx
    apply dec4_lt
    have hgap := PW_gap divs hd beats (s' :: r) s hsort hpw hden x.t (le_of_lt hlt)
    have := small_divs_gap divs hd h (x.t - s.t) (by omega)
    linarith

/-- with fewer than 2500 divisions per quarter the four-decimal beat time of every note lies in the
    four-decimal stretch of its time signature -/
theorem segOK_of_small_divs (divs : Nat) (hd : 0 < divs) (h : divs < 2500) (beats : Int → Rat) :
    ∀ (rest : List TSig) (s : TSig),
    (s :: rest).Pairwise (fun a b => a.t < b.t) → PW divs beats (s :: rest) → (∀ x ∈ s :: rest, 0 < x.den) →
    ∀ o : Int, s.t ≤ o → segOK beats (s :: rest) o (dec4 (beats o)) = true := by
  intro rest
  induction rest with
  | nil =>
    intro s hsort hpw hden o ho
    have hgap := PW_gap divs hd beats [] s hsort hpw hden o ho
    have h0 : (0 : Rat) ≤ ((o - s.t : Int) : Rat) / (4 * (divs : Rat)) := by
      apply div_nonneg
      · exact_mod_cast (by omega : (0 : Int) ≤ o - s.t)
      · positivity
    simp only [segOK, decide_eq_true_eq]
    exact dec4_mono (by linarith)
  | cons s' r ih =>
    intro s hsort hpw hden o ho
    have hs := List.pairwise_cons.mp hsort
    have hgap := PW_gap divs hd beats (s' :: r) s hsort hpw hden o ho
    have h0 : (0 : Rat) ≤ ((o - s.t : Int) : Rat) / (4 * (divs : Rat)) := by
      apply div_nonneg
      · exact_mod_cast (by omega : (0 : Int) ≤ o - s.t)
      · positivity
    have hhead : dec4 (beats s.t) ≤ dec4 (beats o) := dec4_mono (by linarith)
    unfold segOK
    simp only [Bool.and_eq_true, decide_eq_true_eq]
    refine ⟨hhead, ?_⟩
    by_cases hc : o < s'.t
    · rw [if_pos hc]
      simp only [decide_eq_true_eq]
      apply dec4_lt
      have h1 := hpw.1 o ho (le_of_lt hc)
      have h2 := hpw.1 s'.t (le_of_lt (hs.1 s' (by simp))) (le_refl _)
      have hdiff : beats s'.t - beats o = ((s'.t - o : Int) : Rat) * (s.den : Rat) / (4 * (divs : Rat)) := by
        have : beats s'.t - beats o = (beats s'.t - beats s.t) - (beats o - beats s.t) := by ring
        rw [this, h1, h2]
        push_cast
        ring
      have hden1 : (1 : Rat) ≤ (s.den : Rat) := by exact_mod_cast (hden s (by simp))
      have hu : (1 : Rat) ≤ ((s'.t - o : Int) : Rat) := by exact_mod_cast (by omega : (1 : Int) ≤ s'.t - o)
      have hdq : (0 : Rat) < 4 * (divs : Rat) := by
        have : (0 : Rat) < (divs : Rat) := by exact_mod_cast hd
        linarith
      have hge : ((s'.t - o : Int) : Rat) / (4 * (divs : Rat)) ≤ beats s'.t - beats o := by
        rw [hdiff]
        apply div_le_div_of_nonneg_right _ (le_of_lt hdq)
        nlinarith
      have := small_divs_gap divs hd h (s'.t - o) (by omega)
      linarith
    · rw [if_neg hc]
      exact ih s' hs.2 hpw.2 (fun x hx => hden x (by simp at hx ⊢; right; exact hx)) o (by omega)

/-! ### the error of the kinks -/

/-- time-signature changes written at exact beat times (e.g. on whole beats) cost nothing -/
theorem knotErr_exact (beats : Int → Rat) : ∀ (rest : List TSig) (s : TSig) (o : Int),
    (∀ x ∈ rest, dec4 (beats x.t) = beats x.t) → knotErr beats (s :: rest) o = 0 := by
  intro rest
  induction rest with
  | nil => intro s o _; rfl
  | cons s' r ih =>
    intro s o h
    unfold knotErr
    split
    · rfl
    · rw [h s' (by simp), ih s' o (fun x hx => h x (by simp [hx]))]
      ring

/-- each change of the time signature costs at most 1/5000 quarter -/
theorem knotErr_bound (beats : Int → Rat) : ∀ (rest : List TSig) (s : TSig) (o : Int),
    (∀ x ∈ s :: rest, 0 < x.den) → |knotErr beats (s :: rest) o| ≤ (rest.length : Rat) / 5000 := by
  intro rest
  induction rest with
  | nil => intro s o _; simp [knotErr]
  | cons s' r ih =>
    intro s o hden
    unfold knotErr
    split
    · simp only [abs_zero]
      exact div_nonneg (Nat.cast_nonneg _) (by norm_num)
    · have ih' := ih s' o (fun x hx => hden x (by simp at hx ⊢; right; exact hx))
      have hclose := C08P.dec4_close (beats s'.t)
      have hd1 : (1 : Rat) ≤ (s.den : Rat) := by exact_mod_cast (hden s (by simp))
      have hd2 : (1 : Rat) ≤ (s'.den : Rat) := by exact_mod_cast (hden s' (by simp))
      have hinv : |1 / (s.den : Rat) - 1 / (s'.den : Rat)| ≤ 1 := by
        have a1 : (0 : Rat) < 1 / (s.den : Rat) := div_pos one_pos (by linarith)
        have a2 : 1 / (s.den : Rat) ≤ 1 := by rw [div_le_iff₀ (by linarith)]; linarith
        have b1 : (0 : Rat) < 1 / (s'.den : Rat) := div_pos one_pos (by linarith)
        have b2 : 1 / (s'.den : Rat) ≤ 1 := by rw [div_le_iff₀ (by linarith)]; linarith
        rw [abs_le]; constructor <;> linarith
      have hterm : |4 * (dec4 (beats s'.t) - beats s'.t) * (1 / (s.den : Rat) - 1 / (s'.den : Rat))| ≤ 1 / 5000 := by
        rw [abs_mul, abs_mul]
        have h4 : |(4 : Rat)| = 4 := by norm_num
        rw [h4]
        have hnn : (0 : Rat) ≤ |dec4 (beats s'.t) - beats s'.t| := abs_nonneg _
        have hnn2 : (0 : Rat) ≤ |1 / (s.den : Rat) - 1 / (s'.den : Rat)| := abs_nonneg _
        nlinarith
      have hlen : (((s' :: r).length : Nat) : Rat) = (r.length : Rat) + 1 := by simp
      rw [hlen]
      calc |4 * (dec4 (beats s'.t) - beats s'.t) * (1 / (s.den : Rat) - 1 / (s'.den : Rat)) + knotErr beats (s' :: r) o|
          ≤ |4 * (dec4 (beats s'.t) - beats s'.t) * (1 / (s.den : Rat) - 1 / (s'.den : Rat))| + |knotErr beats (s' :: r) o| :=
            abs_add_le _ _
        _ ≤ 1 / 5000 + (r.length : Rat) / 5000 := add_le_add hterm ih'
        _ = ((r.length : Rat) + 1) / 5000 := by ring

/-! ### small facts used by the property theorems -/

theorem lines_sorted (beats : Int → Rat) (mnum : Int → Int) (ts : List TSig)
    (h : (ts.map fun x => dec4 (beats x.t)).Pairwise (· < ·)) :
    (ts.map (tsLineOf beats mnum)).Pairwise (fun a b => a.timeB ≤ b.timeB) := by
  rw [List.pairwise_map] at h ⊢
  exact h.imp (fun hab => le_of_lt hab)

theorem min_zero_lipschitz (a b : Rat) : |min a 0 - min b 0| ≤ |a - b| := by
  have h1 := le_abs_self (a - b)
  have h2 := neg_abs_le (a - b)
  rcases le_total a 0 with ha | ha <;> rcases le_total b 0 with hb | hb
  · rw [min_eq_left ha, min_eq_left hb]
  · rw [min_eq_left ha, min_eq_right hb, abs_le]; constructor <;> linarith
  · rw [min_eq_right ha, min_eq_left hb, abs_le]; constructor <;> linarith
  · rw [min_eq_right ha, min_eq_right hb, sub_zero, abs_zero]; exact abs_nonneg _

end C08M
