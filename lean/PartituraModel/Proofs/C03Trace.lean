/-
C03 helper lemmas: where the reader is when it meets the non-note children of a measure the exporter wrote
(Model/XmlTrace.lean `otherTrace`), level by level as in Proofs/C03Reader.lean / C03Main.lean.
-/
import PartituraModel.Model.XmlTrace
import PartituraModel.Proofs.C03Main

namespace C03.Trace
open Model.Xml C03.Sort C03.Reader C03.Main

/-! ### general facts about the trace -/

theorem otherTrace_append (spec : Bool) (st : Nat) (s : RState) (a b : List Ev) :
    otherTrace spec st s (a ++ b) =
      otherTrace spec st s a ++ (match runEvs spec st s a with | some s' => otherTrace spec st s' b | none => []) := by
  induction a generalizing s with
  | nil => simp [otherTrace, runEvs]
  | cons e es ih =>
    simp only [List.cons_append, otherTrace, runEvs]
    cases h : stepEv spec st s e with
    | none => simp
    | some s' => simp [ih, List.append_assoc]

theorem stepEv_maxt_mono (spec : Bool) (st : Nat) (s s' : RState) (e : Ev) (h : stepEv spec st s e = some s') :
    s.maxt ≤ s'.maxt := by
  cases e with
  | backup d => simp only [stepEv, Option.some.injEq] at h; subst h; simp only; omega
  | forward d => simp only [stepEv, Option.some.injEq] at h; subst h; simp only; omega
  | other o sig => simp only [stepEv, Option.some.injEq] at h; subst h; exact Nat.le_refl _
  | note idx dur chord grace voice staff =>
    simp only [stepEv] at h
    split at h
    · cases hp : s.prev with
      | none => simp [hp] at h
      | some pd => obtain ⟨po, pd⟩ := pd; simp only [hp, Option.some.injEq] at h; subst h; simp only; omega
    · simp only [Option.some.injEq] at h; subst h; simp only; omega

theorem runEvs_maxt_mono (spec : Bool) (st : Nat) (evs : List Ev) : ∀ (s s' : RState),
    runEvs spec st s evs = some s' → s.maxt ≤ s'.maxt := by
  induction evs with
  | nil => intro s s' h; simp only [runEvs, Option.some.injEq] at h; subst h; exact Nat.le_refl _
  | cons e es ih =>
    intro s s' h
    simp only [runEvs] at h
    cases h1 : stepEv spec st s e with
    | none => simp [h1] at h
    | some s1 =>
      simp only [h1, Option.bind_some] at h
      exact Nat.le_trans (stepEv_maxt_mono spec st s s1 e h1) (ih s1 s' h)

theorem otherTrace_fb (spec : Bool) (st t tPrev : Nat) (s : RState) :
    otherTrace spec st s ((fb t tPrev).map (·.ev)) = [] := by
  unfold fb
  by_cases h1 : tPrev < t
  · simp [h1, otherTrace, stepEv]
  · by_cases h2 : t < tPrev
    · simp [h1, h2, otherTrace, stepEv]
    · simp [h1, h2, otherTrace]

/-- what is compared: position, rank, signature -/
def key (e : OtherAt) : Nat × Nat × String := (e.pos, e.order, e.sig)
def okey (o : OtherIn) : Nat × Nat × String := (o.onset, o.order, o.sig)

def othersOf : List Item → List OtherIn
  | [] => []
  | .note _ :: r => othersOf r
  | .other o :: r => o :: othersOf r

/-- every entry lies inside the measure so far -/
def Bounded (B : Nat) (l : List OtherAt) : Prop := ∀ e ∈ l, e.pos ≤ e.maxt ∧ e.maxt ≤ B

theorem bounded_nil (B : Nat) : Bounded B [] := fun e he => by cases he

theorem bounded_append {B : Nat} {a b : List OtherAt} (ha : Bounded B a) (hb : Bounded B b) : Bounded B (a ++ b) := by
  intro e he
  rcases List.mem_append.mp he with h | h
  · exact ha e h
  · exact hb e h

/-! ### one merged stream -/

theorem trace_placeItems (spec : Bool) (st B : Nat) :
    ∀ (items : List Item) (lastT lno : Nat) (last : Option Item) (prevN : Option (Nat × Nat)) (s : RState),
      SortedBy itemLt items →
      (∀ l, last = some l → ∀ it ∈ items, itemLt it l = false) →
      ChordOK prevN items → (∀ it ∈ items, ItemOK st B it) →
      s.pos = lastT → s.pos ≤ s.maxt → s.maxt ≤ B → st ≤ lastT →
      (∀ t d, prevN = some (t, d) → s.prev = some (t, d) ∧ lno = t ∧
          ∃ l, last = some l ∧ keyGe l t ∧ (lastT = t + d ∨ keyGt l t)) →
      (otherTrace spec st s ((placeItems lastT lno items).map (·.ev))).map key = (othersOf items).map okey ∧
        Bounded B (otherTrace spec st s ((placeItems lastT lno items).map (·.ev))) := by
  intro items
  induction items with
  | nil =>
    intro lastT lno last prevN s _ _ _ _ _ _ _ _ _
    exact ⟨by simp [placeItems, otherTrace, othersOf], by simpa [placeItems, otherTrace] using bounded_nil B⟩
  | cons x rest ih =>
    intro lastT lno last prevN s hsorted hlast hchord hok hpos hle hB hst hinv
    have hrestSorted : SortedBy itemLt rest := (List.pairwise_cons.mp hsorted).2
    have hrestGe : ∀ y ∈ rest, itemLt y x = false := (List.pairwise_cons.mp hsorted).1
    have hokRest : ∀ it ∈ rest, ItemOK st B it := fun it h => hok it (List.mem_cons_of_mem _ h)
    cases x with
    | note p =>
      obtain ⟨hst_p, hB_p, hgrace⟩ : st ≤ p.onset ∧ p.onset + p.dur ≤ B ∧ (p.grace = true → p.dur = 0) :=
        hok (.note p) (List.mem_cons_self ..)
      obtain ⟨hc, hchordRest⟩ := hchord
      have hd : (if p.grace = true then 0 else p.dur) = p.dur := by
        by_cases hg : p.grace = true
        · simp [hg, hgrace hg]
        · simp [hg]
      by_cases hch : p.chord = true
      · obtain ⟨hprev, hlno, l, hl, _, hadj⟩ := hinv p.onset p.dur (hc hch)
        have hadj' : lastT = p.onset + p.dur := by
          rcases hadj with h | h
          · exact h
          · have := hlast l hl (.note p) (List.mem_cons_self ..)
            rw [itemLt_false] at this
            unfold keyGt at h
            simp only [onset_note, order_note] at this
            omega
        let s1 : RState :=
          { pos := p.onset + p.dur, prev := some (p.onset, p.dur), maxt := max s.maxt (p.onset + p.dur),
            out := toOut p :: s.out }
        have hstep : otherTrace spec st s ((placeItems lastT lno (.note p :: rest)).map (·.ev)) =
            otherTrace spec st s1 ((placeItems (p.onset + p.dur) p.onset rest).map (·.ev)) := by
          simp only [placeItems, hch, if_true, hlno, fb, Nat.lt_irrefl, if_false, List.nil_append, List.map_cons,
            otherTrace, Placed.ev, stepEv, hprev]
          cases spec
          · simp only [Bool.false_eq_true, if_false, List.nil_append]
            rfl
          · simp only [if_true, hd, List.nil_append]
            have : s.pos = p.onset + p.dur := by omega
            simp only [this]
            rfl
        rw [hstep]
        simp only [othersOf]
        exact ih (p.onset + p.dur) p.onset (some (.note p)) (some (p.onset, p.dur)) s1 hrestSorted
            (by intro l hl it hit; cases hl; exact hrestGe it hit) hchordRest hokRest rfl
            (by simp [s1]) (by simp only [s1]; omega) (by omega)
            (by
              intro t d htd
              cases htd
              exact ⟨rfl, rfl, .note p, rfl, by simp [keyGe], Or.inl rfl⟩)
      · have hch' : p.chord = false := by simpa using hch
        let s0 : RState := { s with pos := p.onset, maxt := if p.onset = lastT then s.maxt else max s.maxt p.onset }
        let s1 : RState :=
          { pos := p.onset + p.dur, prev := some (p.onset, p.dur), maxt := max s0.maxt (p.onset + p.dur),
            out := toOut p :: s.out }
        have hs0 : s0.maxt ≤ B ∧ s.maxt ≤ s0.maxt := by
          simp only [s0]; split <;> constructor <;> omega
        have hstep : otherTrace spec st s ((placeItems lastT lno (.note p :: rest)).map (·.ev)) =
            otherTrace spec st s1 ((placeItems (p.onset + p.dur) p.onset rest).map (·.ev)) := by
          simp only [placeItems, hch', Bool.false_eq_true, if_false, List.map_append, List.map_cons]
          rw [otherTrace_append, otherTrace_fb, run_fb spec st p.onset lastT s hpos hst_p]
          simp only [List.nil_append, otherTrace, Placed.ev, stepEv, hch', Bool.false_eq_true, if_false]
          have hd' : (if (spec && p.grace) = true then 0 else p.dur) = p.dur := by
            by_cases hg : p.grace = true
            · simp [hg, hgrace hg]
            · simp [hg]
          simp only [hd', List.nil_append]
          rfl
        rw [hstep]
        simp only [othersOf]
        exact ih (p.onset + p.dur) p.onset (some (.note p)) (some (p.onset, p.dur)) s1 hrestSorted
            (by intro l hl it hit; cases hl; exact hrestGe it hit) hchordRest hokRest rfl
            (by simp [s1]) (by simp only [s1]; omega) (by omega)
            (by
              intro t d htd
              cases htd
              exact ⟨rfl, rfl, .note p, rfl, by simp [keyGe], Or.inl rfl⟩)
    | other o =>
      obtain ⟨hst_o, hB_o, hord⟩ : st ≤ o.onset ∧ o.onset ≤ B ∧ o.order ≠ 6 := hok (.other o) (List.mem_cons_self ..)
      let s0 : RState := { s with pos := o.onset, maxt := if o.onset = lastT then s.maxt else max s.maxt o.onset }
      have hs0 : s0.maxt ≤ B ∧ s.maxt ≤ s0.maxt ∧ s0.pos ≤ s0.maxt := by
        simp only [s0]; split <;> refine ⟨?_, ?_, ?_⟩ <;> omega
      have hstep : otherTrace spec st s ((placeItems lastT lno (.other o :: rest)).map (·.ev)) =
          { pos := s0.pos, maxt := s0.maxt, order := o.order, sig := o.sig } ::
            otherTrace spec st s0 ((placeItems o.onset lno rest).map (·.ev)) := by
        simp only [placeItems, List.map_append, List.map_cons]
        rw [otherTrace_append, otherTrace_fb, run_fb spec st o.onset lastT s hpos hst_o]
        simp only [List.nil_append, otherTrace, stepEv]
        rfl
      obtain ⟨htr, hbd⟩ :=
        ih o.onset lno (some (.other o)) prevN s0 hrestSorted
          (by intro l hl it hit; cases hl; exact hrestGe it hit) hchord hokRest rfl hs0.2.2 hs0.1 hst_o
          (by
            intro t d htd
            obtain ⟨hprev, hlno, l, hl, hge, _⟩ := hinv t d htd
            have hol := hlast l hl (.other o) (List.mem_cons_self ..)
            rw [itemLt_false] at hol
            have hgt : keyGt (.other o) t := by
              unfold keyGe at hge
              unfold keyGt
              simp only [onset_other, order_other] at hol ⊢
              omega
            refine ⟨hprev, hlno, .other o, rfl, ?_, Or.inr hgt⟩
            unfold keyGt at hgt; unfold keyGe; omega)
      rw [hstep]
      refine ⟨?_, ?_⟩
      · simp only [List.map_cons, othersOf, htr]
        rfl
      · intro e he
        rcases List.mem_cons.mp he with rfl | he
        · exact ⟨hs0.2.2, hs0.1⟩
        · exact hbd e he

/-! ### `merge_with_voice` -/

theorem othersOf_filter (l : List Item) : othersOf (l.filter fun i => !i.isNote) = othersOf l := by
  induction l with
  | nil => rfl
  | cons x rest ih =>
    cases x with
    | note p =>
      rw [List.filter_cons_of_neg (by simp [Item.isNote])]
      simpa only [othersOf] using ih
    | other o =>
      rw [List.filter_cons_of_pos (by simp [Item.isNote])]
      simp only [othersOf, ih]

theorem othersOf_map_other (O : List OtherIn) : othersOf (O.map Item.other) = O := by
  induction O with
  | nil => rfl
  | cons o r ih => simp [othersOf, ih]

theorem filter_notNote (A : List Placed) (O : List OtherIn) :
    (A.map Item.note ++ O.map Item.other).filter (fun i => !i.isNote) = O.map Item.other := by
  rw [List.filter_append]
  have h1 : (A.map Item.note).filter (fun i => !i.isNote) = [] := by
    apply List.filter_eq_nil_iff.mpr; intro x hx; obtain ⟨p, _, rfl⟩ := List.mem_map.mp hx; simp [Item.isNote]
  have h2 : (O.map Item.other).filter (fun i => !i.isNote) = O.map Item.other := by
    apply List.filter_eq_self.mpr; intro x hx; obtain ⟨o, _, rfl⟩ := List.mem_map.mp hx; rfl
  rw [h1, h2, List.nil_append]

theorem insertBy_map {α β : Type} (f : α → β) (lt : α → α → Bool) (lt' : β → β → Bool)
    (h : ∀ a b, lt' (f a) (f b) = lt a b) (x : α) (l : List α) :
    insertBy lt' (f x) (l.map f) = (insertBy lt x l).map f := by
  induction l with
  | nil => rfl
  | cons y ys ih =>
    simp only [List.map_cons, insertBy, h]
    split
    · simp [ih]
    · simp

theorem isortBy_map {α β : Type} (f : α → β) (lt : α → α → Bool) (lt' : β → β → Bool)
    (h : ∀ a b, lt' (f a) (f b) = lt a b) (l : List α) : isortBy lt' (l.map f) = (isortBy lt l).map f := by
  induction l with
  | nil => rfl
  | cons x xs ih => simp only [List.map_cons, isortBy, ih, insertBy_map f lt lt' h]

theorem othersOf_merged (A : List Placed) (O : List OtherIn) :
    othersOf (isortBy itemLt (A.map Item.note ++ O.map Item.other)) = isortBy otherLt O := by
  rw [← othersOf_filter, filter_isortBy itemLt_strictWeak, filter_notNote,
    isortBy_map Item.other otherLt itemLt (fun a b => rfl), othersOf_map_other]

theorem trace_mergeWithVoice (spec : Bool) (st B : Nat) (A : List Placed) (O : List OtherIn) (t0 : Nat) (s : RState)
    (hA : ∀ p ∈ A, PlacedOK st B p) (hO : ∀ o ∈ O, OtherOK st B o) (hs : OnsetSorted A) (hc : ChordOKP none A)
    (hpos : s.pos = t0) (hle : s.pos ≤ s.maxt) (hB : s.maxt ≤ B) (hst : st ≤ t0) :
    (otherTrace spec st s ((mergeWithVoice A O t0).map (·.ev))).map key = (isortBy otherLt O).map okey ∧
      Bounded B (otherTrace spec st s ((mergeWithVoice A O t0).map (·.ev))) := by
  unfold mergeWithVoice
  have hsorted := isortBy_sorted itemLt_strictWeak (A.map Item.note ++ O.map Item.other)
  have hnotes := notesOf_merged O hs
  have hok : ∀ it ∈ isortBy itemLt (A.map Item.note ++ O.map Item.other), ItemOK st B it := by
    intro it hit
    rw [mem_isortBy, List.mem_append] at hit
    rcases hit with hit | hit
    · obtain ⟨p, hp, rfl⟩ := List.mem_map.mp hit; exact hA p hp
    · obtain ⟨o, ho, rfl⟩ := List.mem_map.mp hit; exact hO o ho
  have := trace_placeItems spec st B _ t0 t0 none none s hsorted (by intro l hl; cases hl)
    (by rw [chordOK_iff, hnotes]; exact hc) hok hpos hle hB hst (by intro t d h; cases h)
  rw [othersOf_merged] at this
  exact this

theorem trace_voice (spec : Bool) (st B : Nat) (A : List Placed) (O' : List OtherIn) (t0 pos : Nat) (s : RState)
    (hA : ∀ p ∈ A, PlacedOK st B p) (hO : ∀ o ∈ O', OtherOK st B o) (hs : OnsetSorted A) (hc : ChordOKP none A)
    (hpos : s.pos = pos) (hle : s.pos ≤ s.maxt) (hB : s.maxt ≤ B) (hst0 : st ≤ t0) (ht0B : t0 ≤ B) :
    (otherTrace spec st s (voiceEvs A O' t0 pos)).map key = (isortBy otherLt O').map okey ∧
      Bounded B (otherTrace spec st s (voiceEvs A O' t0 pos)) := by
  unfold voiceEvs
  cases helem : mergeWithVoice A O' t0 with
  | nil =>
    have hO0 : O' = [] := by
      unfold mergeWithVoice at helem
      by_contra hne
      have : isortBy itemLt (A.map Item.note ++ O'.map Item.other) ≠ [] := by
        intro h
        have := isortBy_eq_nil _ _ h
        simp at this
        exact hne this.2
      exact placeItems_ne_nil _ t0 t0 this helem
    subst hO0
    exact ⟨by simp [otherTrace, isortBy], by simpa [otherTrace] using bounded_nil B⟩
  | cons e r =>
    have he : e.onset = t0 := by
      unfold mergeWithVoice at helem
      exact head_placeItems _ t0 e r helem
    let s0 : RState := { s with pos := t0, maxt := if t0 = pos then s.maxt else max s.maxt t0 }
    have hs0 : s0.maxt ≤ B ∧ s.maxt ≤ s0.maxt ∧ s0.pos ≤ s0.maxt := by
      simp only [s0]; split <;> refine ⟨?_, ?_, ?_⟩ <;> omega
    have := trace_mergeWithVoice spec st B A O' t0 s0 hA hO hs hc rfl hs0.2.2 hs0.1 hst0
    rw [helem] at this
    simp only [he]
    rw [otherTrace_append, otherTrace_fb, run_fb spec st t0 pos s hpos hst0]
    simpa using this

/-! ### the voices of a segment: the other elements travel with the first voice -/

/-- where the stream of a later voice starts -/
def firstOnset (start : Nat) (ns : List Placed) : Nat :=
  match ns with
  | [] => start
  | p :: _ => p.onset

theorem mergeVoices_cons_later' (O : List OtherIn) (start pos v : Nat) (ns : List Placed)
    (rest : List (Nat × List Placed)) :
    mergeVoices O start false pos ((v, ns) :: rest) =
      (voiceEvs ns [] (firstOnset start ns) pos ++
        (mergeVoices O start false (lastAfter pos (mergeWithVoice ns [] (firstOnset start ns))) rest).1,
       (mergeVoices O start false (lastAfter pos (mergeWithVoice ns [] (firstOnset start ns))) rest).2) := by
  cases ns <;> (simp only [mergeVoices, voiceEvs, List.append_assoc, firstOnset]; rfl)

theorem trace_mergeVoices (spec : Bool) (st B start : Nat) (O : List OtherIn) (hO : ∀ o ∈ O, OtherOK st B o)
    (hstart : st ≤ start) (hstartB : start ≤ B) :
    ∀ (voices : List (Nat × List Placed)) (first : Bool) (pos : Nat) (s : RState),
      (∀ v ∈ voices, (∀ p ∈ v.2, PlacedOK st B p) ∧ OnsetSorted v.2 ∧ ChordOKP none v.2) →
      s.pos = pos → s.pos ≤ s.maxt → s.maxt ≤ B → st ≤ pos →
      (otherTrace spec st s (mergeVoices O start first pos voices).1).map key =
          (if first = true ∧ voices ≠ [] then (isortBy otherLt O).map okey else []) ∧
        Bounded B (otherTrace spec st s (mergeVoices O start first pos voices).1) := by
  intro voices
  induction voices with
  | nil =>
    intro first pos s _ _ _ _ _
    exact ⟨by simp [mergeVoices, otherTrace], by simpa [mergeVoices, otherTrace] using bounded_nil B⟩
  | cons vn rest ih =>
    intro first pos s hv hpos hle hB hst
    obtain ⟨v, ns⟩ := vn
    obtain ⟨hA, hs, hc⟩ := hv (v, ns) (List.mem_cons_self ..)
    have hvRest : ∀ v ∈ rest, (∀ p ∈ v.2, PlacedOK st B p) ∧ OnsetSorted v.2 ∧ ChordOKP none v.2 :=
      fun v h => hv v (List.mem_cons_of_mem _ h)
    have key' : ∀ (O' : List OtherIn) (t0 : Nat), (∀ o ∈ O', OtherOK st B o) → st ≤ t0 → t0 ≤ B →
        (otherTrace spec st s (voiceEvs ns O' t0 pos ++
              (mergeVoices O start false (lastAfter pos (mergeWithVoice ns O' t0)) rest).1)).map key =
            (isortBy otherLt O').map okey ∧
          Bounded B (otherTrace spec st s (voiceEvs ns O' t0 pos ++
              (mergeVoices O start false (lastAfter pos (mergeWithVoice ns O' t0)) rest).1)) := by
      intro O' t0 hO' hst0 ht0B
      obtain ⟨s1, hrun1, _, hp1, hle1, hB1, _, hst1⟩ :=
        run_voice spec st B ns O' t0 pos s hA hO' hs hc hpos hle hB hst hst0 ht0B
      obtain ⟨htr1, hbd1⟩ := trace_voice spec st B ns O' t0 pos s hA hO' hs hc hpos hle hB hst0 ht0B
      obtain ⟨htr2, hbd2⟩ := ih false (lastAfter pos (mergeWithVoice ns O' t0)) s1 hvRest hp1 hle1 hB1 (by omega)
      rw [otherTrace_append, hrun1]
      simp only [Bool.false_eq_true, false_and, if_false] at htr2
      refine ⟨?_, bounded_append hbd1 hbd2⟩
      rw [List.map_append, htr1, htr2, List.append_nil]
    cases first
    · rw [mergeVoices_cons_later']
      have ht0 : st ≤ firstOnset start ns ∧ firstOnset start ns ≤ B := by
        cases ns with
        | nil => exact ⟨hstart, hstartB⟩
        | cons p r =>
          have h1 := (hA p (List.mem_cons_self ..)).1
          have h2 := (hA p (List.mem_cons_self ..)).2.1
          exact ⟨h1, by simp only [firstOnset]; omega⟩
      have := key' [] (firstOnset start ns) (by intro o ho; cases ho) ht0.1 ht0.2
      simpa [isortBy] using this
    · rw [mergeVoices_cons_first]
      have := key' O start hO hstart hstartB
      simpa using this

/-! ### segments and measures -/

theorem trace_segment (spec : Bool) (mstart nStaves : Nat) (seg : Segment) (hwf : SegWF mstart seg) (s : RState)
    (hpos : s.pos = seg.start) (hle : s.pos ≤ s.maxt) (hB : s.maxt ≤ seg.stop) :
    (otherTrace spec mstart s (linearizeSegment nStaves seg)).map key = (isortBy otherLt seg.others).map okey ∧
      Bounded seg.stop (otherTrace spec mstart s (linearizeSegment nStaves seg)) := by
  have hok := segPlaced_ok mstart nStaves seg hwf
  obtain ⟨hms, hss, _, hothers, _⟩ := hwf
  have hO : ∀ o ∈ seg.others, OtherOK mstart seg.stop o := by
    intro o ho
    obtain ⟨h1, h2, h3⟩ := hothers o ho
    exact ⟨by omega, h2, h3⟩
  obtain ⟨htr, hbd⟩ :=
    trace_mergeVoices spec mstart seg.stop seg.start seg.others hO hms hss (segPlaced nStaves seg) true seg.start s
      hok hpos hle hB hms
  have hne : segPlaced nStaves seg ≠ [] := by
    unfold segPlaced segVoices
    simp only
    split
    · simp
    · rename_i h
      intro hc
      rw [List.map_eq_nil_iff] at hc
      simp [hc] at h
  simp only [hne, ne_eq, not_false_eq_true, and_self, if_true] at htr
  unfold linearizeSegment
  rw [mergeMeasure_eq, otherTrace_append]
  have htail : ∀ s1 : RState, otherTrace spec mstart s1
      (if (mergeVoices seg.others seg.start true seg.start (segPlaced nStaves seg)).2 < seg.stop
        then [Ev.forward (seg.stop - (mergeVoices seg.others seg.start true seg.start (segPlaced nStaves seg)).2)]
        else []) = [] := by
    intro s1
    split <;> simp [otherTrace, stepEv]
  cases hrun : runEvs spec mstart s (mergeVoices seg.others seg.start true seg.start (segPlaced nStaves seg)).1 with
  | none => simpa using ⟨htr, hbd⟩
  | some s1 => simp only [htail, List.append_nil]; exact ⟨htr, hbd⟩

theorem trace_segments (spec : Bool) (mstart nStaves : Nat) :
    ∀ (segs : List Segment) (s : RState), Chained segs → (∀ seg ∈ segs, SegWF mstart seg) →
      (∀ seg ∈ segs.head?, s.pos = seg.start ∧ s.maxt = seg.start) →
      ∃ s', runEvs spec mstart s (segs.flatMap (linearizeSegment nStaves)) = some s' ∧
        (otherTrace spec mstart s (segs.flatMap (linearizeSegment nStaves))).map key =
          segs.flatMap (fun seg => (isortBy otherLt seg.others).map okey) ∧
        Bounded s'.maxt (otherTrace spec mstart s (segs.flatMap (linearizeSegment nStaves))) := by
  intro segs
  induction segs with
  | nil => intro s _ _ _; exact ⟨s, by simp [runEvs], by simp [otherTrace], by simpa [otherTrace] using bounded_nil _⟩
  | cons seg rest ih =>
    intro s hch hwf hstart
    obtain ⟨hpos, hmax⟩ := hstart seg (by simp)
    have hsegwf := hwf seg (List.mem_cons_self ..)
    have hss : seg.start ≤ seg.stop := hsegwf.2.1
    obtain ⟨s1, hrun1, _, hp1, hm1⟩ := run_segment spec mstart nStaves seg hsegwf s hpos (by omega) (by omega)
    obtain ⟨htr1, hbd1⟩ := trace_segment spec mstart nStaves seg hsegwf s hpos (by omega) (by omega)
    have hrest : ∃ s', runEvs spec mstart s1 (rest.flatMap (linearizeSegment nStaves)) = some s' ∧
        (otherTrace spec mstart s1 (rest.flatMap (linearizeSegment nStaves))).map key =
          rest.flatMap (fun seg => (isortBy otherLt seg.others).map okey) ∧
        Bounded s'.maxt (otherTrace spec mstart s1 (rest.flatMap (linearizeSegment nStaves))) := by
      cases rest with
      | nil => exact ⟨s1, by simp [runEvs], by simp [otherTrace], by simpa [otherTrace] using bounded_nil _⟩
      | cons seg2 rest' =>
        obtain ⟨hmeet, hch'⟩ : seg.stop = seg2.start ∧ Chained (seg2 :: rest') := hch
        exact ih s1 hch' (fun sg h => hwf sg (List.mem_cons_of_mem _ h))
          (by intro sg hsg; simp at hsg; subst hsg; exact ⟨by omega, by omega⟩)
    obtain ⟨s', hrun, htr, hbd⟩ := hrest
    have hmono := runEvs_maxt_mono spec mstart _ s1 s' hrun
    refine ⟨s', ?_, ?_, ?_⟩
    · rw [List.flatMap_cons, runEvs_append, hrun1]; exact hrun
    · rw [List.flatMap_cons, otherTrace_append, hrun1, List.map_append, htr1, htr, List.flatMap_cons]
    · rw [List.flatMap_cons, otherTrace_append, hrun1]
      refine bounded_append ?_ hbd
      intro e he
      obtain ⟨h1, h2⟩ := hbd1 e he
      exact ⟨h1, by omega⟩

/-- every non-note child of a well-formed measure is met at the onset it was written for, in document order, between
    the start of the measure and its end -/
theorem others_linearize (spec : Bool) (m : MeasureContent) (hwf : MeasureWF m) :
    (readOthers spec m.start (linearize m)).map key = expectedOthers m ∧
      Bounded m.stop (readOthers spec m.start (linearize m)) := by
  have hlin := interpret_linearize spec m hwf
  obtain ⟨hne, hch, hsegs⟩ := hwf
  obtain ⟨seg0, rest, hsegs0⟩ := List.exists_cons_of_ne_nil hne
  have hstart : m.start = seg0.start := by simp [MeasureContent.start, hsegs0]
  obtain ⟨s', hrun, htr, hbd⟩ :=
    trace_segments spec m.start m.nStaves m.segs { pos := m.start, prev := none, maxt := m.start, out := [] } hch hsegs
      (by intro sg hsg; rw [hsegs0] at hsg; simp at hsg; subst hsg; exact ⟨hstart, hstart⟩)
  have hmax : s'.maxt = m.stop := by
    unfold interpretWith linearize at hlin
    rw [hrun] at hlin
    simp only [Option.map_some, Option.some.injEq, Prod.mk.injEq] at hlin
    exact hlin.2
  unfold readOthers linearize expectedOthers
  refine ⟨?_, hmax ▸ hbd⟩
  rw [htr]
  rfl

end C03.Trace
