/-
C09 helper lemmas, part 13: the standard navigation forms over SYMBOLIC times — the table `add_segments` builds
(repaired behaviour, fixes/C09-6 and C09-7) and the paths enumerated on it.
-/
import PartituraModel.Proofs.C09Table
import PartituraModel.Proofs.C09Walk

namespace C09
open Model.Unfold

/-! ### the enumeration does not look at the times -/

def eraseTimes (g : List Seg) : List Seg := g.map fun s => { s with start := 0, stp := 0 }

theorem eraseTimes_get (g : List Seg) (i : Nat) :
    (eraseTimes g)[i]? = (g[i]?).map fun s => { s with start := 0, stp := 0 } := by
  simp [eraseTimes]

theorem rewriteSegs_erase : ∀ (g : List Seg) (k : Nat), rewriteSegs k (eraseTimes g) = eraseTimes (rewriteSegs k g) := by
  intro g
  induction g with
  | nil => intro k; rfl
  | cons s rest ih =>
    intro k
    simp only [eraseTimes, List.map_cons, rewriteSegs] at ih ⊢
    rw [ih]
    congr 1
    unfold rewriteSeg
    split <;> rfl

def eraseSt (st : PState) : PState := { st with segs := eraseTimes st.segs }

theorem dests_erase (st : PState) : (eraseSt st).dests = st.dests := by
  unfold PState.dests eraseSt
  simp only [eraseTimes_get]
  cases st.segs[st.cur]? <;> rfl

theorem jump_erase (il : Bool) (st : PState) (j : Nat) :
    (eraseSt st).jump il j = (st.jump il j).map eraseSt := by
  unfold PState.jump eraseSt
  simp only [eraseTimes_get]
  cases hj : st.segs[j]? with
  | none => rfl
  | some sj =>
    cases hp : st.segs[st.cur]? with
    | none => rfl
    | some sp =>
      simp only [Option.map_some]
      by_cases hl : sj.ty = .leapEnd ∧ sp.ty = .leapStart
      · simp only [hl, and_self, if_true, Option.map_some, Option.some.injEq]
        cases st.jumped <;> cases il <;> simp [rewriteSegs_erase]
      · simp only [hl, if_false, Option.map_some]

theorem path_erase (st : PState) : (eraseSt st).path = st.path := rfl

theorem unfoldFrom_erase (il : Bool) : ∀ (f : Nat) (st : PState),
    unfoldFrom il f (eraseSt st) = unfoldFrom il f st := by
  intro f
  induction f with
  | zero => intro st; rfl
  | succ f ih =>
    intro st
    simp only [unfoldFrom, dests_erase]
    cases st.dests with
    | none => rfl
    | some ds =>
      simp only
      induction ds with
      | nil => rfl
      | cons d ds ihd =>
        cases d with
        | fin => simp only [stepList, ihd, path_erase]
        | seg j =>
          simp only [stepList, jump_erase]
          cases st.jump il j with
          | none => rfl
          | some st' => simp only [Option.map_some, ih, ihd]

/-- the paths depend only on the destinations, awaiting destinations and types of the segments -/
theorem getPaths_erase (g : List Seg) (nr ar il : Bool) (fuel : Nat) :
    getPaths (eraseTimes g) nr ar il fuel = getPaths g nr ar il fuel :=
  unfoldFrom_erase il fuel (initState g nr ar)

/-! ### D.C. al Coda -/

theorem sorted4 (a b c d : Int) (h1 : a < b) (h2 : b < c) (h3 : c < d) : StrictSorted [a, b, c, d] :=
  ⟨h1, h2, h3, trivial⟩


def dcCodaGraph (a b e : Int) : List Seg :=
  [{ start := 0, stp := a, to := [.seg 1], await := [.seg 2], ty := .leapEnd },
   { start := a, stp := b, to := [.seg 0, .seg 2], await := [.seg 2], ty := .leapStart },
   { start := b, stp := e, to := [.fin], await := [], ty := .leapEnd }]

theorem dcCoda_mkSegments (a b e : Int) (h0 : 0 < a) (hab : a < b) (hbe : b < e) :
    mkSegments (dcCodaLayout a b e) = some (dcCodaGraph a b e) := by
  have hs := sorted4 0 a b e h0 hab hbe
  have hkey : ∀ t, t ∈ [0, a, b, e] ↔ isKey (dcCodaLayout a b e) t = true := by
    intro t
    simp [isKey, dcCodaLayout, repA, repE, volS, volE, lastSome]
    constructor
    · rintro (h | h | h | h) <;> subst h <;> simp
    · rintro ((((h | h) | h) | h) | h)
      all_goals first
        | (subst h; simp)
        | (have h' := of_decide_eq_true h; subst h'; simp)
  have hkeys := mkTable_keys (dcCodaLayout a b e) [0, a, b, e] hs hkey
  have hget : ∀ t, t ∈ [0, a, b, e] → tblGet t (mkTable (dcCodaLayout a b e)) = some (infoAt (dcCodaLayout a b e) t) := by
    intro t ht
    rw [mkTable_get, (hkey t).mp ht]; rfl
  have na : ¬ a = 0 := by omega
  have nb : ¬ b = 0 := by omega
  have ne : ¬ e = 0 := by omega
  have nba : ¬ b = a := by omega
  have nea : ¬ e = a := by omega
  have neb : ¬ e = b := by omega
  have nab : ¬ a = b := by omega
  have nae : ¬ a = e := by omega
  have nbe : ¬ b = e := by omega
  unfold mkSegments
  have hsup : (dcCodaLayout a b e).supported = true := by simp [Layout.supported, dcCodaLayout]
  simp only [hsup, Bool.not_true, Bool.false_eq_true, if_false, hkeys]
  simp only [procAll, procSeg, hget a (by simp), hget b (by simp), hget e (by simp), List.length_cons, List.length_nil]
  simp [idOf, idxOf, infoAt, dcCodaLayout, repA, repE, volS, volE, lastSome, na, nb, ne, nba, nea, neb, nab, nae, nbe,
    stRepeatStart, stRepeatEnd, stVoltaStart, stVoltaEnd, stLeapEnd, stToCoda, stJumpBack, stFine, stEnd, stFirst,
    addTo, setTy, keepLeapEnd, modAt, buildSegs, cleanTo, nav1Of, insSorted, insVolta, Dest.ahead, dcCodaGraph]

def dcCodaShape : List Seg :=
  [{ start := 0, stp := 0, to := [.seg 1], await := [.seg 2], ty := .leapEnd },
   { start := 0, stp := 0, to := [.seg 0, .seg 2], await := [.seg 2], ty := .leapStart },
   { start := 0, stp := 0, to := [.fin], await := [], ty := .leapEnd }]

theorem dcCoda_paths (a b e : Int) (il : Bool) :
    getPaths (dcCodaGraph a b e) false true il 8 = some [[0, 1, 0, 2]] ∧
    getPaths (dcCodaGraph a b e) true false il 8 = some [[0, 1, 2]] ∧
    getPaths (dcCodaGraph a b e) false false il 8 = some [[0, 1, 0, 2], [0, 1, 2]] := by
  have e1 : eraseTimes (dcCodaGraph a b e) = dcCodaShape := rfl
  rw [← getPaths_erase, ← getPaths_erase (dcCodaGraph a b e), ← getPaths_erase (dcCodaGraph a b e), e1]
  cases il <;> decide

/-! ### D.S. al Coda -/

theorem sorted5 (a b c d e : Int) (h1 : a < b) (h2 : b < c) (h3 : c < d) (h4 : d < e) : StrictSorted [a, b, c, d, e] :=
  ⟨h1, h2, h3, h4, trivial⟩


def dsCodaGraph (s a b e : Int) : List Seg :=
  [{ start := 0, stp := s, to := [.seg 1], await := [], ty := .leapEnd },
   { start := s, stp := a, to := [.seg 2], await := [.seg 3], ty := .leapEnd },
   { start := a, stp := b, to := [.seg 1, .seg 3], await := [.seg 3], ty := .leapStart },
   { start := b, stp := e, to := [.fin], await := [], ty := .leapEnd }]

theorem dsCoda_mkSegments (s a b e : Int) (h0 : 0 < s) (hsa : s < a) (hab : a < b) (hbe : b < e) :
    mkSegments (dsCodaLayout s a b e) = some (dsCodaGraph s a b e) := by
  have hs := sorted5 0 s a b e h0 hsa hab hbe
  have hkey : ∀ t, t ∈ [0, s, a, b, e] ↔ isKey (dsCodaLayout s a b e) t = true := by
    intro t
    simp [isKey, dsCodaLayout, repA, repE, volS, volE, lastSome]
    constructor
    · rintro (h | h | h | h | h) <;> subst h <;> simp
    · rintro (((((h | h) | h) | h) | h) | h)
      all_goals first
        | (subst h; simp)
        | (have h' := of_decide_eq_true h; subst h'; simp)
  have hkeys := mkTable_keys (dsCodaLayout s a b e) [0, s, a, b, e] hs hkey
  have hget : ∀ t, t ∈ [0, s, a, b, e] →
      tblGet t (mkTable (dsCodaLayout s a b e)) = some (infoAt (dsCodaLayout s a b e) t) := by
    intro t ht
    rw [mkTable_get, (hkey t).mp ht]; rfl
  have n1 : ¬ s = 0 := by omega
  have n2 : ¬ a = 0 := by omega
  have n3 : ¬ b = 0 := by omega
  have n4 : ¬ e = 0 := by omega
  have n5 : ¬ a = s := by omega
  have n6 : ¬ b = s := by omega
  have n7 : ¬ e = s := by omega
  have n8 : ¬ b = a := by omega
  have n9 : ¬ e = a := by omega
  have n10 : ¬ e = b := by omega
  have m5 : ¬ s = a := by omega
  have m6 : ¬ s = b := by omega
  have m7 : ¬ s = e := by omega
  have m8 : ¬ a = b := by omega
  have m9 : ¬ a = e := by omega
  have m10 : ¬ b = e := by omega
  unfold mkSegments
  have hsup : (dsCodaLayout s a b e).supported = true := by simp [Layout.supported, dsCodaLayout]
  simp only [hsup, Bool.not_true, Bool.false_eq_true, if_false, hkeys]
  simp only [procAll, procSeg, hget s (by simp), hget a (by simp), hget b (by simp), hget e (by simp),
    List.length_cons, List.length_nil]
  simp [idOf, idxOf, infoAt, dsCodaLayout, repA, repE, volS, volE, lastSome, n1, n2, n3, n4, n5, n6, n7, n8, n9, n10,
    m5, m6, m7, m8, m9, m10,
    stRepeatStart, stRepeatEnd, stVoltaStart, stVoltaEnd, stLeapEnd, stToCoda, stJumpBack, stFine, stEnd, stFirst,
    addTo, setTy, keepLeapEnd, modAt, buildSegs, cleanTo, nav1Of, insSorted, Dest.ahead, dsCodaGraph]

def dsCodaShape : List Seg :=
  [{ start := 0, stp := 0, to := [.seg 1], await := [], ty := .leapEnd },
   { start := 0, stp := 0, to := [.seg 2], await := [.seg 3], ty := .leapEnd },
   { start := 0, stp := 0, to := [.seg 1, .seg 3], await := [.seg 3], ty := .leapStart },
   { start := 0, stp := 0, to := [.fin], await := [], ty := .leapEnd }]

theorem dsCoda_paths (s a b e : Int) (il : Bool) :
    getPaths (dsCodaGraph s a b e) false true il 10 = some [[0, 1, 2, 1, 3]] ∧
    getPaths (dsCodaGraph s a b e) true false il 10 = some [[0, 1, 2, 3]] := by
  have e1 : eraseTimes (dsCodaGraph s a b e) = dsCodaShape := rfl
  rw [← getPaths_erase, ← getPaths_erase (dsCodaGraph s a b e), e1]
  cases il <;> decide

/-! ### D.C. / D.S. al Fine -/


def dcFineGraph (f e : Int) : List Seg :=
  [{ start := 0, stp := f, to := [.seg 1], await := [.fin], ty := .leapEnd },
   { start := f, stp := e, to := [.seg 0, .fin], await := [.fin], ty := .leapStart }]

theorem dcFine_mkSegments (f e : Int) (h0 : 0 < f) (hfe : f < e) :
    mkSegments (dcFineLayout f e) = some (dcFineGraph f e) := by
  have hs : StrictSorted [0, f, e] := ⟨h0, hfe, trivial⟩
  have hkey : ∀ t, t ∈ [0, f, e] ↔ isKey (dcFineLayout f e) t = true := by
    intro t
    simp [isKey, dcFineLayout, repA, repE, volS, volE, lastSome]
    constructor
    · rintro (h | h | h) <;> subst h <;> simp
    · rintro (((h | h) | h) | h)
      all_goals first
        | (subst h; simp)
        | (have h' := of_decide_eq_true h; subst h'; simp)
  have hkeys := mkTable_keys (dcFineLayout f e) [0, f, e] hs hkey
  have hget : ∀ t, t ∈ [0, f, e] → tblGet t (mkTable (dcFineLayout f e)) = some (infoAt (dcFineLayout f e) t) := by
    intro t ht
    rw [mkTable_get, (hkey t).mp ht]; rfl
  have n1 : ¬ f = 0 := by omega
  have n2 : ¬ e = 0 := by omega
  have n3 : ¬ e = f := by omega
  have n4 : ¬ f = e := by omega
  unfold mkSegments
  have hsup : (dcFineLayout f e).supported = true := by simp [Layout.supported, dcFineLayout]
  simp only [hsup, Bool.not_true, Bool.false_eq_true, if_false, hkeys]
  simp only [procAll, procSeg, hget f (by simp), hget e (by simp), List.length_cons, List.length_nil]
  simp [idOf, idxOf, infoAt, dcFineLayout, repA, repE, volS, volE, lastSome, n1, n2, n3, n4,
    stRepeatStart, stRepeatEnd, stVoltaStart, stVoltaEnd, stLeapEnd, stToCoda, stJumpBack, stFine, stEnd, stFirst,
    addTo, setTy, keepLeapEnd, modAt, buildSegs, cleanTo, nav1Of, insSorted, Dest.ahead, dcFineGraph]

def dcFineShape : List Seg :=
  [{ start := 0, stp := 0, to := [.seg 1], await := [.fin], ty := .leapEnd },
   { start := 0, stp := 0, to := [.seg 0, .fin], await := [.fin], ty := .leapStart }]

theorem dcFine_paths (f e : Int) (il : Bool) :
    getPaths (dcFineGraph f e) false true il 8 = some [[0, 1, 0]] ∧
    getPaths (dcFineGraph f e) true false il 8 = some [[0, 1]] := by
  have e1 : eraseTimes (dcFineGraph f e) = dcFineShape := rfl
  rw [← getPaths_erase, ← getPaths_erase (dcFineGraph f e), e1]
  cases il <;> decide

end C09
