/-
C17 (round 2): the modelled contig-mapping search never answers `none` (the code does not raise
inside `VoSA`) on a non-empty array — staged: grace-note links, the contig lists of
`make_contigs`, `Contig`, the crystallisation loop.
-/
import PartituraModel.Model.Vosa
import PartituraModel.Proofs.C17Vosa
import Mathlib.Data.List.Basic
import Mathlib.Data.List.Perm.Subperm
import Mathlib.Tactic.Linarith

namespace C17T
open Model Model.Vosa

-- ------------------------------------------------------------------ generic

theorem mapM_isSome {α β : Type} (f : α → Option β) : ∀ l : List α,
    (∀ x ∈ l, (f x).isSome) → (l.mapM f).isSome := by
  intro l
  induction l with
  | nil => intro _; simp
  | cons a rest ih =>
    intro h
    have h1 := h a (List.mem_cons_self ..)
    have h2 := ih (fun x hx => h x (List.mem_cons_of_mem _ hx))
    obtain ⟨b, hb⟩ := Option.isSome_iff_exists.mp h1
    obtain ⟨bs, hbs⟩ := Option.isSome_iff_exists.mp h2
    simp [List.mapM_cons, hb, hbs]

theorem foldl_pick_mem {α : Type} (p : α → α → Bool) : ∀ (l : List α) (b : α),
    l.foldl (fun m y => if p y m then y else m) b = b ∨ l.foldl (fun m y => if p y m then y else m) b ∈ l := by
  intro l
  induction l with
  | nil => intro b; left; rfl
  | cons y ys ih =>
    intro b
    simp only [List.foldl_cons]
    rcases ih (if p y b then y else b) with h | h
    · rw [h]
      split
      · right; exact List.mem_cons_self ..
      · left; rfl
    · right; exact List.mem_cons_of_mem _ h

theorem minRat_mem (l : List Rat) (m : Rat) (h : minRat l = some m) : m ∈ l := by
  cases l with
  | nil => simp [minRat] at h
  | cons x xs =>
    simp only [minRat, Option.some.injEq] at h
    subst h
    have := foldl_pick_mem (fun (y m : Rat) => decide (y < m)) xs x
    simp only [decide_eq_true_eq] at this
    rcases this with h | h
    · rw [h]; exact List.mem_cons_self ..
    · exact List.mem_cons_of_mem _ h

theorem maxRat_mem (l : List Rat) (m : Rat) (h : maxRat l = some m) : m ∈ l := by
  cases l with
  | nil => simp [maxRat] at h
  | cons x xs =>
    simp only [maxRat, Option.some.injEq] at h
    subst h
    have := foldl_pick_mem (fun (y m : Rat) => decide (m < y)) xs x
    simp only [decide_eq_true_eq] at this
    rcases this with h | h
    · rw [h]; exact List.mem_cons_self ..
    · exact List.mem_cons_of_mem _ h

theorem maxRat_isSome (l : List Rat) (h : l ≠ []) : (maxRat l).isSome := by
  cases l with
  | nil => exact absurd rfl h
  | cons x xs => simp [maxRat]

theorem closestPitch_isSome (p : Int) (l : List N) (h : l ≠ []) : (closestPitch p l).isSome := by
  cases l with
  | nil => exact absurd rfl h
  | cons x xs => simp [closestPitch]

-- ------------------------------------------------------------------ stage A: grace notes

/-- the main-note search of `VoSA.__init__` always finds a candidate when some note has a duration -/
theorem mainOf_isSome (nongrace : List N) (g : N) (hne : nongrace ≠ []) : (mainOf nongrace g).isSome := by
  simp only [mainOf]
  have key : ∀ m : Rat, m ∈ nongrace.map (fun n => n.on) →
      (closestPitch g.p (nongrace.filter fun n => decide (n.on = m))).isSome := by
    intro m hm
    apply closestPitch_isSome
    obtain ⟨n, hn, rfl⟩ := List.mem_map.mp hm
    intro e
    have : n ∈ nongrace.filter fun n' => decide (n'.on = n.on) := by simp [hn]
    rw [e] at this
    exact absurd this (by simp)
  cases hmin : minRat ((nongrace.filter fun n => decide (g.on ≤ n.on)).map fun n => n.on) with
  | some m =>
    simp only [Option.bind_some]
    apply key
    have := minRat_mem _ _ hmin
    obtain ⟨n, hn, rfl⟩ := List.mem_map.mp this
    exact List.mem_map.mpr ⟨n, (List.mem_filter.mp hn).1, rfl⟩
  | none =>
    have hs := maxRat_isSome (nongrace.map fun n => n.on) (by simpa using hne)
    obtain ⟨m, hm⟩ := Option.isSome_iff_exists.mp hs
    simp only [hm, Option.bind_some]
    exact key m (maxRat_mem _ _ hm)

/-- grace notes are always attached (or, with no note of non-zero duration, left alone): no raise -/
theorem graceLinks_isSome (notes : List N) : (graceLinks notes).isSome := by
  simp only [graceLinks]
  split
  · rfl
  · rename_i hne
    apply mapM_isSome
    intro g _
    have : (mainOf (notes.filter fun n => decide (n.du ≠ 0)) g).isSome :=
      mainOf_isSome _ g (by intro e; rw [e] at hne; simp at hne)
    obtain ⟨m, hm⟩ := Option.isSome_iff_exists.mp this
    rw [hm]; rfl

-- ------------------------------------------------------------------ stage B: the contig lists

theorem dedupAdj_ne_nil : ∀ l : List Rat, l ≠ [] → dedupAdj l ≠ [] := by
  intro l
  induction l with
  | nil => intro h; exact absurd rfl h
  | cons x xs ih =>
    intro _
    cases xs with
    | nil => simp [dedupAdj]
    | cons y r =>
      simp only [dedupAdj]
      split
      · exact ih (by simp)
      · simp

theorem isort_length {α : Type} (le : α → α → Bool) (l : List α) : (isort le l).length = l.length :=
  (C17S.isort_perm le l).length_eq

theorem timepoints_ne_nil (notes : List N) (h : notes ≠ []) : timepoints notes ≠ [] := by
  unfold timepoints
  apply dedupAdj_ne_nil
  intro e
  have := congrArg List.length e
  simp only [sortRat, isort_length, List.length_append, List.length_map, List.length_nil] at this
  have : notes.length = 0 := by omega
  exact h (List.eq_nil_of_length_eq_zero this)

/-- a timepoint list where every change of the number of sounding notes is flagged as a boundary -/
def okB : Nat → List (List N × Bool) → Prop
  | _, [] => True
  | prevLen, (sn, sb) :: rest => (sn.length ≠ prevLen → sb = true) ∧ okB sn.length rest

/-- `last_tp` is always bound when it is read: the contig loop of `make_contigs` does not raise -/
theorem contigLists_isSome : ∀ (L : List (List N × Bool)) (prevLen : Nat) (acc : List (List N × Nat)),
    okB prevLen L → (acc = [] → prevLen = 0) → (contigLists L acc).isSome := by
  intro L
  induction L with
  | nil => intro _ _ _ _; simp [contigLists]
  | cons x rest ih =>
    intro prevLen acc hok hacc
    obtain ⟨sn, sb⟩ := x
    obtain ⟨h1, h2⟩ := hok
    simp only [contigLists]
    by_cases hc : (sb && !sn.isEmpty) = true
    · rw [if_pos hc]
      exact ih sn.length _ h2 (by simp)
    · rw [if_neg hc]
      cases acc with
      | nil =>
        have hp := hacc rfl
        by_cases hs : sn.isEmpty = true
        · simp only [hs, if_true]
          apply ih sn.length [] h2
          intro _
          simpa [List.isEmpty_iff] using hs
        · exfalso
          apply hc
          have hl : sn.length ≠ prevLen := by
            rw [hp]; intro e; apply hs; simpa [List.isEmpty_iff] using List.eq_nil_of_length_eq_zero e
          simp [h1 hl, hs]
      | cons c more =>
        obtain ⟨cur, nv⟩ := c
        exact ih sn.length _ h2 (by simp)

theorem okB_build (h : Rat → List N) (g : Rat → Bool) : ∀ (utp : List Rat) (prev : Nat),
    okB prev ((utp.map h).zip ((utp.zip (diffs (prev : Int) ((utp.map h).map fun s => (s.length : Int)))).map
      fun (x : Rat × Int) => decide (x.2 ≠ 0) || g x.1)) := by
  intro utp
  induction utp with
  | nil => intro prev; simp [okB]
  | cons t ts ih =>
    intro prev
    simp only [List.map_cons, diffs, List.zip_cons_cons, okB]
    refine ⟨?_, ih (h t).length⟩
    intro hne
    have : ((h t).length : Int) - (prev : Int) ≠ 0 := by omega
    simp [this]

/-- `make_contigs` up to the note lists does not raise on a non-empty score -/
theorem contigNoteLists_isSome (notes : List N) (hne : notes ≠ []) : (contigNoteLists notes).isSome := by
  simp only [contigNoteLists]
  have hu := timepoints_ne_nil notes hne
  cases hl : ((timepoints notes).map (sounding notes)).getLast? with
  | none =>
    rw [List.getLast?_eq_none_iff] at hl
    simp at hl
    exact absurd hl hu
  | some lastS =>
    simp only [Option.isSome_map]
    apply contigLists_isSome _ 0 [] _ (fun _ => rfl)
    have := okB_build (sounding notes)
      (fun tp => (extraMarks ((timepoints notes).map (sounding notes))
        (lastS :: ((timepoints notes).map (sounding notes)).dropLast)
        (diffs 0 (((timepoints notes).map (sounding notes)).map fun s => (s.length : Int)))).any fun m => decide (m = tp))
      (timepoints notes) 0
    simpa using this

-- ------------------------------------------------------------------ stage C: Contig

theorem mem_insertBy {α : Type} (le : α → α → Bool) (x y : α) (l : List α) :
    y ∈ insertBy le x l ↔ y = x ∨ y ∈ l := (C17S.insertBy_perm le x l).mem_iff.trans List.mem_cons

theorem mem_isort {α : Type} (le : α → α → Bool) (y : α) (l : List α) : y ∈ isort le l ↔ y ∈ l :=
  (C17S.isort_perm le l).mem_iff

theorem insertRat_sorted (x : Rat) : ∀ l : List Rat, l.Pairwise (· ≤ ·) →
    (insertBy (fun a b => decide (a ≤ b)) x l).Pairwise (· ≤ ·) := by
  intro l
  induction l with
  | nil => intro _; simp [insertBy]
  | cons y ys ih =>
    intro h
    simp only [insertBy]
    obtain ⟨h1, h2⟩ := List.pairwise_cons.mp h
    by_cases hxy : x ≤ y
    · simp only [hxy, decide_true, if_true]
      refine List.pairwise_cons.mpr ⟨?_, h⟩
      intro z hz
      rcases List.mem_cons.mp hz with rfl | hz
      · exact hxy
      · exact le_trans hxy (h1 z hz)
    · simp only [hxy, decide_false, Bool.false_eq_true, if_false]
      refine List.pairwise_cons.mpr ⟨?_, ih h2⟩
      intro z hz
      rcases (mem_insertBy _ x z ys).mp hz with rfl | hz
      · exact le_of_lt (not_le.mp hxy)
      · exact h1 z hz

theorem sortRat_sorted (l : List Rat) : (sortRat l).Pairwise (· ≤ ·) := by
  unfold sortRat isort
  induction l with
  | nil => simp
  | cons x xs ih => simp only [List.foldr_cons]; exact insertRat_sorted x _ ih

theorem mem_dedupAdj (x : Rat) : ∀ l : List Rat, x ∈ dedupAdj l ↔ x ∈ l := by
  intro l
  induction l with
  | nil => simp [dedupAdj]
  | cons a r ih =>
    cases r with
    | nil => simp [dedupAdj]
    | cons b r' =>
      simp only [dedupAdj]
      split
      · rename_i e
        rw [ih]; subst e; simp
      · simp only [List.mem_cons] at ih ⊢
        rw [ih]

theorem dedupAdj_strict : ∀ l : List Rat, l.Pairwise (· ≤ ·) → (dedupAdj l).Pairwise (· < ·) := by
  intro l
  induction l with
  | nil => intro _; simp [dedupAdj]
  | cons a r ih =>
    intro h
    obtain ⟨h1, h2⟩ := List.pairwise_cons.mp h
    cases r with
    | nil => simp [dedupAdj]
    | cons b r' =>
      simp only [dedupAdj]
      split
      · exact ih h2
      · rename_i hne
        refine List.pairwise_cons.mpr ⟨?_, ih h2⟩
        intro z hz
        have hz' := (mem_dedupAdj z _).mp hz
        have hab : a < b := lt_of_le_of_ne (h1 b (List.mem_cons_self ..)) hne
        rcases List.mem_cons.mp hz' with rfl | hz''
        · exact hab
        · exact lt_of_lt_of_le hab ((List.pairwise_cons.mp h2).1 z hz'')

theorem timepoints_strict (notes : List N) : (timepoints notes).Pairwise (· < ·) :=
  dedupAdj_strict _ (sortRat_sorted _)

theorem mem_timepoints (notes : List N) (t : Rat) :
    t ∈ timepoints notes ↔ (∃ n ∈ notes, n.on = t) ∨ (∃ n ∈ notes, n.off = t) := by
  simp only [timepoints, mem_dedupAdj, sortRat, mem_isort, List.mem_append, List.mem_map]

theorem mem_uniqueOnsets (notes : List N) (t : Rat) : t ∈ uniqueOnsets notes ↔ ∃ n ∈ notes, n.on = t := by
  simp only [uniqueOnsets, mem_dedupAdj, sortRat, mem_isort, List.mem_map]

/-- the number of notes sounding at `tp` -/
def cnt (notes : List N) (tp : Rat) : Nat :=
  (notes.filter fun n => decide (n.on ≤ tp) && decide (tp < n.off)).length

theorem sounding_length (notes : List N) (tp : Rat) : (sounding notes tp).length = cnt notes tp := by
  simp only [sounding, byPitch, isort_length, cnt]

theorem foldl_max_ge : ∀ (l : List Nat) (b : Nat), b ≤ l.foldl max b ∧ ∀ x ∈ l, x ≤ l.foldl max b := by
  intro l
  induction l with
  | nil => intro b; simp
  | cons y ys ih =>
    intro b
    simp only [List.foldl_cons]
    obtain ⟨h1, h2⟩ := ih (max b y)
    refine ⟨le_trans (le_max_left b y) h1, ?_⟩
    intro x hx
    rcases List.mem_cons.mp hx with rfl | hx
    · exact le_trans (le_max_right b x) h1
    · exact h2 x hx

theorem foldl_max_mem : ∀ (l : List Nat) (b : Nat), l.foldl max b = b ∨ l.foldl max b ∈ l := by
  intro l
  induction l with
  | nil => intro b; left; rfl
  | cons y ys ih =>
    intro b
    simp only [List.foldl_cons]
    rcases ih (max b y) with h | h
    · rw [h]
      rcases le_total b y with hby | hby
      · right; rw [max_eq_right hby]; exact List.mem_cons_self ..
      · left; exact max_eq_left hby
    · right; exact List.mem_cons_of_mem _ h

theorem maxRat_ge (l : List Rat) (m : Rat) (h : maxRat l = some m) : ∀ x ∈ l, x ≤ m := by
  cases l with
  | nil => simp [maxRat] at h
  | cons a r =>
    simp only [maxRat, Option.some.injEq] at h
    subst h
    have key : ∀ (r : List Rat) (b : Rat),
        b ≤ r.foldl (fun m y => if m < y then y else m) b ∧
        ∀ x ∈ r, x ≤ r.foldl (fun m y => if m < y then y else m) b := by
      intro r
      induction r with
      | nil => intro b; simp
      | cons y ys ih =>
        intro b
        simp only [List.foldl_cons]
        obtain ⟨h1, h2⟩ := ih (if b < y then y else b)
        by_cases hb : b < y
        · simp only [hb, if_true] at h1 h2 ⊢
          refine ⟨le_trans (le_of_lt hb) h1, ?_⟩
          intro x hx
          rcases List.mem_cons.mp hx with rfl | hx
          · exact h1
          · exact h2 x hx
        · simp only [hb, if_false] at h1 h2 ⊢
          refine ⟨h1, ?_⟩
          intro x hx
          rcases List.mem_cons.mp hx with rfl | hx
          · exact le_trans (not_lt.mp hb) h1
          · exact h2 x hx
    intro x hx
    rcases List.mem_cons.mp hx with rfl | hx
    · exact (key r x).1
    · exact (key r a).2 x hx

theorem find?_zip_map {α β : Type} (f : α → β) (p : β → Bool) : ∀ l : List α,
    (l.zip (l.map f)).find? (fun x => p x.2) = (l.find? fun t => p (f t)).map fun t => (t, f t) := by
  intro l
  induction l with
  | nil => rfl
  | cons a r ih =>
    simp only [List.map_cons, List.zip_cons_cons, List.find?_cons]
    cases p (f a) with
    | true => rfl
    | false => exact ih

theorem filter_length_mono {α : Type} (p q : α → Bool) : ∀ l : List α, (∀ a ∈ l, p a = true → q a = true) →
    (l.filter p).length ≤ (l.filter q).length := by
  intro l
  induction l with
  | nil => intro _; simp
  | cons a r ih =>
    intro h
    have ih' := ih (fun x hx => h x (List.mem_cons_of_mem _ hx))
    have ha := h a (List.mem_cons_self ..)
    simp only [List.filter_cons]
    cases hp : p a with
    | true =>
      rw [ha hp]; simp only [if_true, List.length_cons]; omega
    | false =>
      simp only [Bool.false_eq_true, if_false]
      split
      · simp only [List.length_cons]; omega
      · exact ih'

/-- the maximal number of simultaneously sounding notes -/
def maxCnt (notes : List N) : Nat := ((timepoints notes).map (cnt notes)).foldl max 0

theorem cnt_le_max (notes : List N) (t : Rat) (ht : t ∈ timepoints notes) : cnt notes t ≤ maxCnt notes :=
  (foldl_max_ge _ 0).2 _ (List.mem_map.mpr ⟨t, ht, rfl⟩)

/-- the first timepoint at which the maximal number of notes sounds is the onset of a note:
    the number of sounding notes can only grow at an onset -/
theorem first_max_is_onset (notes : List N) (c : Rat)
    (hm : cnt notes c = maxCnt notes) (hpos : 0 < maxCnt notes)
    (hfirst : ∀ t ∈ timepoints notes, t < c → cnt notes t ≠ maxCnt notes) :
    ∃ n ∈ notes, n.on = c := by
  by_contra hcon
  simp only [not_exists, not_and] at hcon
  -- the notes sounding at c
  let A := notes.filter fun n => decide (n.on ≤ c) && decide (c < n.off)
  have hA : A.length = maxCnt notes := hm
  have hAne : A.map (fun n => n.on) ≠ [] := by
    intro e
    have : A.length = 0 := by simpa using congrArg List.length e
    omega
  obtain ⟨t', ht'⟩ := Option.isSome_iff_exists.mp (maxRat_isSome _ hAne)
  obtain ⟨n0, hn0, hn0t⟩ := List.mem_map.mp (maxRat_mem _ _ ht')
  have hn0' := List.mem_filter.mp hn0
  simp only [Bool.and_eq_true, decide_eq_true_eq] at hn0'
  have hlt : t' < c := by
    rw [← hn0t]
    exact lt_of_le_of_ne hn0'.2.1 (hcon n0 hn0'.1)
  have hin : t' ∈ timepoints notes := (mem_timepoints notes t').mpr (Or.inl ⟨n0, hn0'.1, hn0t⟩)
  have hge : cnt notes c ≤ cnt notes t' := by
    apply filter_length_mono
    intro a ha hpa
    simp only [Bool.and_eq_true, decide_eq_true_eq] at hpa ⊢
    have haA : a ∈ A := List.mem_filter.mpr ⟨ha, by simpa using hpa⟩
    have := maxRat_ge _ _ ht' a.on (List.mem_map.mpr ⟨a, haA, rfl⟩)
    exact ⟨this, lt_trans hlt hpa.2⟩
  have hle := cnt_le_max notes t' hin
  exact hfirst t' hin hlt (by omega)

/-- stream `i` (if it exists) holds a note -/
def NE (ss : List (List N)) (i : Nat) : Prop := ∀ s, ss[i]? = some s → s ≠ []

theorem addToStreams_spec : ∀ (ss : List (List N)) (ns : List N), ns.length ≤ ss.length →
    ∃ ss', addToStreams ss ns = some ss' ∧ ss'.length = ss.length ∧
      (∀ i, i < ns.length → NE ss' i) ∧ (∀ i, NE ss i → NE ss' i) := by
  intro ss
  induction ss with
  | nil =>
    intro ns h
    have : ns = [] := List.eq_nil_of_length_eq_zero (by simpa using h)
    subst this
    exact ⟨[], by simp [addToStreams], rfl, by simp, fun i h => h⟩
  | cons s rest ih =>
    intro ns h
    cases ns with
    | nil => exact ⟨s :: rest, by simp [addToStreams], rfl, by simp, fun i h => h⟩
    | cons n ns' =>
      obtain ⟨r, hr, hl, h1, h2⟩ := ih ns' (by simpa using h)
      refine ⟨(if hasIx n s then s else s ++ [n]) :: r, by simp [addToStreams, hr], by simp [hl], ?_, ?_⟩
      · intro i hi
        cases i with
        | zero =>
          intro x hx
          simp only [List.getElem?_cons_zero, Option.some.injEq] at hx
          subst hx
          split
          · rename_i hh
            intro e; rw [e] at hh; simp [hasIx] at hh
          · simp
        | succ j =>
          intro x hx
          simp only [List.getElem?_cons_succ] at hx
          exact h1 j (by simpa using hi) x hx
      · intro i hne
        cases i with
        | zero =>
          intro x hx
          simp only [List.getElem?_cons_zero, Option.some.injEq] at hx
          subst hx
          have hs := hne s (by simp)
          split
          · exact hs
          · simp
        | succ j =>
          intro x hx
          simp only [List.getElem?_cons_succ] at hx
          exact h2 j (fun y hy => hne y (by simpa using hy)) x hx

theorem fold_streams (notes : List N) (m : Nat) : ∀ (ons : List Rat) (ss : List (List N)), ss.length = m →
    (∀ o ∈ ons, (sounding notes o).length ≤ m) →
    ∃ ss', ons.foldlM (fun ss o => addToStreams ss (sounding notes o)) ss = some ss' ∧ ss'.length = m ∧
      (∀ i, NE ss i → NE ss' i) ∧ (∀ o ∈ ons, ∀ i, i < (sounding notes o).length → NE ss' i) := by
  intro ons
  induction ons with
  | nil => intro ss hl _; exact ⟨ss, by simp, hl, fun i h => h, by simp⟩
  | cons o rest ih =>
    intro ss hl hle
    obtain ⟨s1, h1, hl1, hA, hB⟩ := addToStreams_spec ss (sounding notes o)
      (by rw [hl]; exact hle o (List.mem_cons_self ..))
    obtain ⟨s2, h2, hl2, hC, hD⟩ := ih s1 (by rw [hl1, hl]) (fun o' ho' => hle o' (List.mem_cons_of_mem _ ho'))
    refine ⟨s2, by simp [List.foldlM_cons, h1, h2], hl2, fun i h => hC i (hB i h), ?_⟩
    intro o' ho' i hi
    rcases List.mem_cons.mp ho' with rfl | ho'
    · exact hC i (hA i hi)
    · exact hD o' ho' i hi

theorem mkStream_isSome (l : List N) (h : l ≠ []) : (mkStream l).isSome := by
  unfold mkStream
  have hlen : (byOnset l).length = l.length := by simp [byOnset, isort_length]
  cases hb : byOnset l with
  | nil =>
    rw [hb] at hlen
    exact absurd (List.eq_nil_of_length_eq_zero hlen.symm) h
  | cons f rest =>
    simp only [Option.isSome_map]
    rw [List.find?_isSome]
    have key : ∀ (r : List N) (b : Rat),
        r.foldl (fun m n => if m < n.on then n.on else m) b = b ∨
        ∃ n ∈ r, n.on = r.foldl (fun m n => if m < n.on then n.on else m) b := by
      intro r
      induction r with
      | nil => intro b; left; rfl
      | cons y ys ih =>
        intro b
        simp only [List.foldl_cons]
        rcases ih (if b < y.on then y.on else b) with h | ⟨n, hn, e⟩
        · rw [h]
          split
          · right; exact ⟨y, List.mem_cons_self .., rfl⟩
          · left; rfl
        · right; exact ⟨n, List.mem_cons_of_mem _ hn, e⟩
    rcases key rest f.on with h | ⟨n, hn, e⟩
    · exact ⟨f, List.mem_cons_self .., by simp [h]⟩
    · exact ⟨n, List.mem_cons_of_mem _ hn, by simp [e]⟩

/-- `Contig(notes)` does not raise on a non-empty note list: the number of streams is the maximal
    number of simultaneously sounding notes, no onset has more sounding notes than streams, and every
    stream receives a note at the contig's onset -/
theorem mkContig_isSome (l : List N) (hne : l ≠ []) : (mkContig l).isSome := by
  have hnotes : byOnset l ≠ [] := by
    intro e
    have := congrArg List.length e
    simp only [byOnset, isort_length, List.length_nil] at this
    exact hne (List.eq_nil_of_length_eq_zero this)
  generalize hN : byOnset l = notes at hnotes
  have hcounts : (timepoints notes).map (fun tp => (sounding notes tp).length) = (timepoints notes).map (cnt notes) :=
    List.map_congr_left (fun t _ => sounding_length notes t)
  have hutp := timepoints_ne_nil notes hnotes
  -- the contig onset
  have hex : ∃ c ∈ timepoints notes, cnt notes c = maxCnt notes := by
    rcases foldl_max_mem ((timepoints notes).map (cnt notes)) 0 with h | h
    · obtain ⟨t, ht⟩ := List.exists_mem_of_ne_nil _ hutp
      refine ⟨t, ht, ?_⟩
      have := cnt_le_max notes t ht
      unfold maxCnt at this ⊢
      omega
    · obtain ⟨t, ht, e⟩ := List.mem_map.mp h
      exact ⟨t, ht, e⟩
  have hfind : ((timepoints notes).find? fun t => (sounding notes t).length == maxCnt notes).isSome := by
    rw [List.find?_isSome]
    obtain ⟨c, hc, e⟩ := hex
    exact ⟨c, hc, by simp [sounding_length, e]⟩
  obtain ⟨c, hc⟩ := Option.isSome_iff_exists.mp hfind
  obtain ⟨hpc, as, bs, hsplit, has⟩ := List.find?_eq_some_iff_append.mp hc
  have hcm : cnt notes c = maxCnt notes := by simpa [sounding_length] using hpc
  have hcin : c ∈ timepoints notes := by rw [hsplit]; simp
  have hfirst : ∀ t ∈ timepoints notes, t < c → cnt notes t ≠ maxCnt notes := by
    intro t ht hlt
    have hs := timepoints_strict notes
    rw [hsplit] at ht hs
    rcases List.mem_append.mp ht with h | h
    · have := has t h
      simpa [sounding_length] using this
    · exfalso
      have hp := (List.pairwise_append.mp hs).2.1
      rcases List.mem_cons.mp h with rfl | h
      · exact lt_irrefl _ hlt
      · exact lt_asymm hlt ((List.pairwise_cons.mp hp).1 t h)
  obtain ⟨maxOn, hmax⟩ := Option.isSome_iff_exists.mp
    (maxRat_isSome (notes.map fun n => n.on) (by simpa using hnotes))
  -- the streams
  have hle : ∀ o ∈ (uniqueOnsets notes).filter (fun o => decide (c ≤ o)), (sounding notes o).length ≤ maxCnt notes := by
    intro o ho
    rw [sounding_length]
    apply cnt_le_max
    obtain ⟨n, hn, e⟩ := (mem_uniqueOnsets notes o).mp (List.mem_filter.mp ho).1
    exact (mem_timepoints notes o).mpr (Or.inl ⟨n, hn, e⟩)
  obtain ⟨ss, hss, hlen, _, hD⟩ := fold_streams notes (maxCnt notes) _ (List.replicate (maxCnt notes) [])
    (by simp) hle
  have hall : ∀ s ∈ ss, (mkStream s).isSome := by
    intro s hs
    apply mkStream_isSome
    obtain ⟨i, hi, rfl⟩ := List.mem_iff_getElem.mp hs
    have hpos : 0 < maxCnt notes := by omega
    obtain ⟨n, hn, e⟩ := first_max_is_onset notes c hcm hpos hfirst
    have hco : c ∈ (uniqueOnsets notes).filter (fun o => decide (c ≤ o)) :=
      List.mem_filter.mpr ⟨(mem_uniqueOnsets notes c).mpr ⟨n, hn, e⟩, by simp⟩
    exact hD c hco i (by rw [sounding_length, hcm, ← hlen]; exact hi) _ (List.getElem?_eq_getElem hi)
  obtain ⟨st, hst⟩ := Option.isSome_iff_exists.mp (mapM_isSome mkStream ss hall)
  simp only [mkContig, hN]
  have hm : ((timepoints notes).map fun tp => (sounding notes tp).length).foldl max 0 = maxCnt notes := by
    rw [hcounts]; rfl
  rw [hm, find?_zip_map (fun tp => (sounding notes tp).length) (fun k => k == maxCnt notes), hc, hmax]
  simp only [Option.map_some, hss, Option.bind_some, hst, Option.isSome_some]

-- ------------------------------------------------------------------ what `Contig(notes)` holds

theorem mapM_forall2 {α β : Type} (f : α → Option β) : ∀ (l : List α) (ys : List β),
    l.mapM f = some ys → List.Forall₂ (fun x y => f x = some y) l ys := by
  intro l
  induction l with
  | nil => intro ys h; simp at h; subst h; exact List.Forall₂.nil
  | cons a r ih =>
    intro ys h
    simp only [List.mapM_cons, Option.bind_eq_bind, Option.pure_def] at h
    cases ha : f a with
    | none => simp [ha] at h
    | some b =>
      cases hr : r.mapM f with
      | none => simp [ha, hr] at h
      | some bs =>
        simp [ha, hr] at h
        subst h
        exact List.Forall₂.cons ha (ih bs hr)

theorem forall2_mem_right {α β : Type} (R : α → β → Prop) : ∀ (l : List α) (ys : List β),
    List.Forall₂ R l ys → ∀ y ∈ ys, ∃ x ∈ l, R x y := by
  intro l ys h
  induction h with
  | nil => intro y hy; simp at hy
  | cons hab _ ih =>
    intro y hy
    rcases List.mem_cons.mp hy with rfl | hy
    · exact ⟨_, List.mem_cons_self .., hab⟩
    · obtain ⟨x, hx, hr⟩ := ih y hy
      exact ⟨x, List.mem_cons_of_mem _ hx, hr⟩

theorem addToStreams_mem (P : N → Prop) : ∀ (ss : List (List N)) (ns : List N) (ss' : List (List N)),
    addToStreams ss ns = some ss' → (∀ s ∈ ss, ∀ x ∈ s, P x) → (∀ x ∈ ns, P x) → ∀ s ∈ ss', ∀ x ∈ s, P x := by
  intro ss
  induction ss with
  | nil =>
    intro ns ss' h hs hn
    cases ns with
    | nil => simp [addToStreams] at h; subst h; exact hs
    | cons a r => simp [addToStreams] at h
  | cons s rest ih =>
    intro ns ss' h hs hn
    cases ns with
    | nil => simp [addToStreams] at h; subst h; exact hs
    | cons a r =>
      simp only [addToStreams, Option.map_eq_some_iff] at h
      obtain ⟨r', hr', rfl⟩ := h
      intro t ht x hx
      rcases List.mem_cons.mp ht with rfl | ht
      · split at hx
        · exact hs s (List.mem_cons_self ..) x hx
        · rcases List.mem_append.mp hx with hx | hx
          · exact hs s (List.mem_cons_self ..) x hx
          · simp at hx; subst hx; exact hn _ (List.mem_cons_self ..)
      · exact ih r r' hr' (fun s' hs' => hs s' (List.mem_cons_of_mem _ hs'))
          (fun y hy => hn y (List.mem_cons_of_mem _ hy)) t ht x hx

theorem fold_streams_mem (notes : List N) (P : N → Prop) (hP : ∀ x ∈ notes, P x) :
    ∀ (ons : List Rat) (ss ss' : List (List N)),
    ons.foldlM (fun ss o => addToStreams ss (sounding notes o)) ss = some ss' →
    (∀ s ∈ ss, ∀ x ∈ s, P x) → ∀ s ∈ ss', ∀ x ∈ s, P x := by
  intro ons
  induction ons with
  | nil => intro ss ss' h hs; simp at h; subst h; exact hs
  | cons o rest ih =>
    intro ss ss' h hs
    simp only [List.foldlM_cons, Option.bind_eq_bind] at h
    cases h1 : addToStreams ss (sounding notes o) with
    | none => simp [h1] at h
    | some s1 =>
      simp only [h1, Option.bind_some] at h
      apply ih s1 ss' h
      apply addToStreams_mem P ss _ s1 h1 hs
      intro x hx
      simp only [sounding, byPitch, mem_isort, List.mem_filter] at hx
      exact hP x hx.1

theorem mkStream_ends (l : List N) (str : Stream) (h : mkStream l = some str) :
    str.first ∈ l ∧ str.last ∈ l := by
  unfold mkStream at h
  cases hb : byOnset l with
  | nil => simp [hb] at h
  | cons f rest =>
    simp only [hb, Option.map_eq_some_iff] at h
    obtain ⟨lst, hl, rfl⟩ := h
    have hsub : ∀ x ∈ f :: rest, x ∈ l := by
      intro x hx
      rw [← hb] at hx
      exact (mem_isort _ x l).mp hx
    exact ⟨hsub f (List.mem_cons_self ..), hsub lst (List.mem_of_find?_eq_some hl)⟩

/-- what `Contig(notes)` holds: as many streams as the maximal number of simultaneously sounding
    notes, as many first notes, at most as many last notes; all of them notes of the contig -/
theorem mkContig_spec (l : List N) (hne : l ≠ []) :
    ∃ raw, mkContig l = some raw ∧ raw.streams.length = maxCnt (byOnset l) ∧
      raw.first.length = maxCnt (byOnset l) ∧ raw.last.length ≤ maxCnt (byOnset l) ∧
      (∀ s ∈ raw.streams, s.first ∈ l ∧ s.last ∈ l) ∧ (∀ x ∈ raw.first, x ∈ l) ∧ (∀ x ∈ raw.last, x ∈ l) := by
  have hnotes : byOnset l ≠ [] := by
    intro e
    have := congrArg List.length e
    simp only [byOnset, isort_length, List.length_nil] at this
    exact hne (List.eq_nil_of_length_eq_zero this)
  have hmemN : ∀ x, x ∈ byOnset l ↔ x ∈ l := fun x => mem_isort _ x l
  generalize hN : byOnset l = notes at hnotes hmemN
  have hcounts : (timepoints notes).map (fun tp => (sounding notes tp).length) = (timepoints notes).map (cnt notes) :=
    List.map_congr_left (fun t _ => sounding_length notes t)
  have hutp := timepoints_ne_nil notes hnotes
  have hex : ∃ c ∈ timepoints notes, cnt notes c = maxCnt notes := by
    rcases foldl_max_mem ((timepoints notes).map (cnt notes)) 0 with h | h
    · obtain ⟨t, ht⟩ := List.exists_mem_of_ne_nil _ hutp
      refine ⟨t, ht, ?_⟩
      have := cnt_le_max notes t ht
      unfold maxCnt at this ⊢
      omega
    · obtain ⟨t, ht, e⟩ := List.mem_map.mp h
      exact ⟨t, ht, e⟩
  have hfind : ((timepoints notes).find? fun t => (sounding notes t).length == maxCnt notes).isSome := by
    rw [List.find?_isSome]
    obtain ⟨c, hc, e⟩ := hex
    exact ⟨c, hc, by simp [sounding_length, e]⟩
  obtain ⟨c, hc⟩ := Option.isSome_iff_exists.mp hfind
  obtain ⟨hpc, as, bs, hsplit, has⟩ := List.find?_eq_some_iff_append.mp hc
  have hcm : cnt notes c = maxCnt notes := by simpa [sounding_length] using hpc
  have hfirst : ∀ t ∈ timepoints notes, t < c → cnt notes t ≠ maxCnt notes := by
    intro t ht hlt
    have hs := timepoints_strict notes
    rw [hsplit] at ht hs
    rcases List.mem_append.mp ht with h | h
    · have := has t h
      simpa [sounding_length] using this
    · exfalso
      have hp := (List.pairwise_append.mp hs).2.1
      rcases List.mem_cons.mp h with rfl | h
      · exact lt_irrefl _ hlt
      · exact lt_asymm hlt ((List.pairwise_cons.mp hp).1 t h)
  obtain ⟨maxOn, hmax⟩ := Option.isSome_iff_exists.mp
    (maxRat_isSome (notes.map fun n => n.on) (by simpa using hnotes))
  have hle : ∀ o ∈ (uniqueOnsets notes).filter (fun o => decide (c ≤ o)), (sounding notes o).length ≤ maxCnt notes := by
    intro o ho
    rw [sounding_length]
    apply cnt_le_max
    obtain ⟨n, hn, e⟩ := (mem_uniqueOnsets notes o).mp (List.mem_filter.mp ho).1
    exact (mem_timepoints notes o).mpr (Or.inl ⟨n, hn, e⟩)
  obtain ⟨ss, hss, hlen, _, hD⟩ := fold_streams notes (maxCnt notes) _ (List.replicate (maxCnt notes) [])
    (by simp) hle
  have hall : ∀ s ∈ ss, (mkStream s).isSome := by
    intro s hs
    apply mkStream_isSome
    obtain ⟨i, hi, rfl⟩ := List.mem_iff_getElem.mp hs
    have hpos : 0 < maxCnt notes := by omega
    obtain ⟨n, hn, e⟩ := first_max_is_onset notes c hcm hpos hfirst
    have hco : c ∈ (uniqueOnsets notes).filter (fun o => decide (c ≤ o)) :=
      List.mem_filter.mpr ⟨(mem_uniqueOnsets notes c).mpr ⟨n, hn, e⟩, by simp⟩
    exact hD c hco i (by rw [sounding_length, hcm, ← hlen]; exact hi) _ (List.getElem?_eq_getElem hi)
  obtain ⟨st, hst⟩ := Option.isSome_iff_exists.mp (mapM_isSome mkStream ss hall)
  have hm : ((timepoints notes).map fun tp => (sounding notes tp).length).foldl max 0 = maxCnt notes := by
    rw [hcounts]; rfl
  have hssmem : ∀ s ∈ ss, ∀ x ∈ s, x ∈ l :=
    fold_streams_mem notes (fun x => x ∈ l) (fun x hx => (hmemN x).mp hx) _ _ ss hss
      (by intro s hs x hx; simp [List.mem_replicate] at hs; rw [hs.2] at hx; simp at hx)
  have hf2 := mapM_forall2 mkStream ss st hst
  have hsound : ∀ t x, x ∈ sounding notes t → x ∈ l := by
    intro t x hx
    simp only [sounding, byPitch, mem_isort, List.mem_filter] at hx
    exact (hmemN x).mp hx.1
  refine ⟨{ streams := st, first := sounding notes c, last := sounding notes maxOn }, ?_, ?_, ?_, ?_, ?_, ?_, ?_⟩
  · simp only [mkContig, hN]
    rw [hm, find?_zip_map (fun tp => (sounding notes tp).length) (fun k => k == maxCnt notes), hc, hmax]
    simp only [Option.map_some, hss, Option.bind_some, hst]
  · simp only [← hf2.length_eq, hlen]
  · simp only [sounding_length, hcm]
  · simp only [sounding_length]
    apply cnt_le_max
    obtain ⟨n, hn, e⟩ := List.mem_map.mp (maxRat_mem _ _ hmax)
    exact (mem_timepoints notes maxOn).mpr (Or.inl ⟨n, hn, e⟩)
  · intro str hstr
    obtain ⟨s, hs, hms⟩ := forall2_mem_right _ ss st hf2 str hstr
    obtain ⟨h1, h2⟩ := mkStream_ends s str hms
    exact ⟨hssmem s hs _ h1, hssmem s hs _ h2⟩
  · exact hsound c
  · exact hsound maxOn

end C17T
