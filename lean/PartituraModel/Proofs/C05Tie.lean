/-
Helper lemmas for Props/C05Tie.lean: span of a tie chain = summed duration + the silence inside it.
-/
import PartituraModel.Proofs.C05Rows
import PartituraModel.Model.NoteArrayTie

namespace NoteArray
open List

/-- every member of the chain starts no earlier than the previous member ends (a chain that runs forward in
    time: what an importer can produce) -/
def Forward : List Note → Prop
  | [] => True
  | [_] => True
  | a :: b :: l => a.onset + a.dur ≤ b.onset ∧ Forward (b :: l)

theorem chainEnd_eq_lastEnd : ∀ (c : List Note) (e : Int), chainEnd c e = lastEnd c e := by
  intro c
  induction c with
  | nil => intro e; rfl
  | cons a c ih => intro e; simp only [chainEnd, lastEnd]; exact ih _

/-- span = sum + gaps, for EVERY chain (no hypothesis: overlapping members count as negative gaps) -/
theorem span_eq_sum_add_gaps : ∀ (c : List Note) (a : Note),
    lastEnd (a :: c) a.onset - a.onset = durSum (a :: c) + gapSum (a :: c) := by
  intro c
  induction c with
  | nil => intro a; simp [durSum, lastEnd, gapSum]
  | cons b c ih =>
    intro a
    have h := ih b
    have e1 : lastEnd (a :: b :: c) a.onset = lastEnd (b :: c) b.onset := rfl
    have e2 : durSum (a :: b :: c) = a.dur + durSum (b :: c) := rfl
    have e3 : gapSum (a :: b :: c) = (b.onset - (a.onset + a.dur)) + gapSum (b :: c) := rfl
    rw [e1, e2, e3]
    omega

theorem gapSum_nonneg : ∀ (c : List Note) (a : Note), Forward (a :: c) → 0 ≤ gapSum (a :: c) := by
  intro c
  induction c with
  | nil => intro a _; simp [gapSum]
  | cons b c ih =>
    intro a h
    obtain ⟨hb, hc⟩ := h
    have := ih b hc
    have e3 : gapSum (a :: b :: c) = (b.onset - (a.onset + a.dur)) + gapSum (b :: c) := rfl
    rw [e3]; omega

theorem gapSum_zero_iff : ∀ (c : List Note) (a : Note), Forward (a :: c) →
    (gapSum (a :: c) = 0 ↔ Contiguous (a :: c)) := by
  intro c
  induction c with
  | nil => intro a _; simp [gapSum, Contiguous]
  | cons b c ih =>
    intro a h
    obtain ⟨hb, hc⟩ := h
    have hn := gapSum_nonneg c b hc
    have hi := ih b hc
    have e3 : gapSum (a :: b :: c) = (b.onset - (a.onset + a.dur)) + gapSum (b :: c) := rfl
    have e4 : Contiguous (a :: b :: c) ↔ (b.onset = a.onset + a.dur ∧ Contiguous (b :: c)) := Iff.rfl
    rw [e3, e4]
    constructor
    · intro h0
      have h1 : gapSum (b :: c) = 0 := by omega
      exact ⟨by omega, hi.mp h1⟩
    · intro ⟨h1, h2⟩
      have := hi.mpr h2
      omega

end NoteArray
