/-
C15: lemmas about `distinctParts` (de-duplication of the flattened part list by identity, fixes/C15-11).
-/
import PartituraModel.Model.Merge
import Mathlib.Data.List.Basic
import Mathlib.Data.List.Nodup

namespace C15
open Model.Merge

@[simp] theorem distinctParts_nil : distinctParts [] = [] := rfl

@[simp] theorem distinctParts_singleton (p : APart) : distinctParts [p] = [p] := rfl

theorem distinctParts_cons (p : APart) (ps : List APart) :
    distinctParts (p :: ps) = p :: (distinctParts ps).filter fun q => q.pid != p.pid := rfl

/-- nothing is invented: every part of the result is one of the listed parts, in the order of the list -/
theorem distinctParts_sublist : ∀ ps : List APart, (distinctParts ps).Sublist ps
  | [] => List.Sublist.slnil
  | p :: ps => by
    rw [distinctParts_cons]
    exact (List.filter_sublist.trans (distinctParts_sublist ps)).cons_cons p

theorem mem_of_mem_distinctParts {ps : List APart} {q : APart} (h : q ∈ distinctParts ps) : q ∈ ps :=
  (distinctParts_sublist ps).subset h

/-- every identity that is listed is in the result -/
theorem pid_mem_distinctParts : ∀ (ps : List APart) (k : Nat),
    k ∈ (distinctParts ps).map (·.pid) ↔ k ∈ ps.map (·.pid)
  | [], k => by simp
  | p :: ps, k => by
    have ih := pid_mem_distinctParts ps k
    simp only [distinctParts_cons, List.map_cons, List.mem_cons, List.mem_map, List.mem_filter, bne_iff_ne, ne_eq]
      at ih ⊢
    constructor
    · rintro (h | ⟨q, ⟨hq, _⟩, hk⟩)
      · exact Or.inl h
      · exact Or.inr (ih.mp ⟨q, hq, hk⟩)
    · rintro (h | h)
      · exact Or.inl h
      · by_cases hk : k = p.pid
        · exact Or.inl hk
        · obtain ⟨q, hq, hqk⟩ := ih.mpr h
          exact Or.inr ⟨q, ⟨hq, by rw [hqk]; exact hk⟩, hqk⟩

/-- ... once -/
theorem distinctParts_nodup : ∀ ps : List APart, ((distinctParts ps).map (·.pid)).Nodup
  | [] => List.nodup_nil
  | p :: ps => by
    rw [distinctParts_cons, List.map_cons, List.nodup_cons]
    constructor
    · simp only [List.mem_map, List.mem_filter, bne_iff_ne, ne_eq, not_exists, not_and]
      intro q hq hk
      exact hq.2 hk
    · exact ((distinctParts_nodup ps).sublist (List.filter_sublist.map _))

/-- the usual case - every part is listed once: nothing changes (whatever the `id` attributes and the contents of
the parts are) -/
theorem distinctParts_of_nodup : ∀ {ps : List APart}, (ps.map (·.pid)).Nodup → distinctParts ps = ps
  | [], _ => rfl
  | p :: ps, h => by
    rw [List.map_cons, List.nodup_cons] at h
    rw [distinctParts_cons, distinctParts_of_nodup h.2, List.filter_eq_self.mpr]
    intro q hq
    simp only [bne_iff_ne, ne_eq]
    intro hk
    exact h.1 (List.mem_map.mpr ⟨q, hq, hk⟩)

theorem distinctParts_idem (ps : List APart) : distinctParts (distinctParts ps) = distinctParts ps :=
  distinctParts_of_nodup (distinctParts_nodup ps)

/-- the first part of the result - the one the structural elements are taken from - is the first listed part -/
theorem distinctParts_head (p : APart) (ps : List APart) : (distinctParts (p :: ps))[0]? = some p := rfl

/-- identities stand for objects: two entries with the same identity are the same part -/
def SameObject (ps : List APart) : Prop := ∀ a ∈ ps, ∀ b ∈ ps, a.pid = b.pid → a = b

/-- no listed part is lost -/
theorem mem_distinctParts {ps : List APart} (hc : SameObject ps) {p : APart} (hp : p ∈ ps) : p ∈ distinctParts ps := by
  obtain ⟨q, hq, hk⟩ := List.mem_map.mp ((pid_mem_distinctParts ps p.pid).mpr (List.mem_map.mpr ⟨p, hp, rfl⟩))
  rw [← hc q (mem_of_mem_distinctParts hq) p hp hk]
  exact hq

theorem length_distinctParts_le (ps : List APart) : (distinctParts ps).length ≤ ps.length :=
  (distinctParts_sublist ps).length_le

end C15
