/-
C03 — `<barline>`, `<harmony>`, `<print>`: the elements read back, `do_barlines`, the repeat / ending bookkeeping.
-/
import PartituraModel.Model.XmlBar
import Mathlib.Data.List.Perm.Basic
import Mathlib.Data.List.Sort

namespace C03.Bar
open Model Model.XmlNote Model.XmlBar

/-! ### one `<barline>` -/

theorem tag_itemEl_repeat (i : BarItem) : ((itemEl i).tag == tRepeat) = i.repDir.isSome := by
  cases i <;> rfl

theorem tag_itemEl_ending (i : BarItem) : ((itemEl i).tag == tEnding) = i.ending.isSome := by
  cases i <;> rfl

theorem tag_itemEl_fermata (i : BarItem) : ((itemEl i).tag == Tag.fermata) = i.isFermata := by
  cases i <;> rfl

theorem tag_itemEl_style (i : BarItem) : ((itemEl i).tag == tBarStyle) = false := by
  cases i <;> rfl

theorem readRepDir_itemEl (i : BarItem) (d : RepDir) (h : i.repDir = some d) : readRepDir (itemEl i) = d := by
  cases i with
  | repeatFwd => cases h; decide
  | repeatBwd => cases h; decide
  | fermata => cases h
  | endingStart n => cases h
  | endingStop n => cases h

theorem readEnding_itemEl (i : BarItem) (e : EndType × Option Str) (h : i.ending = some e) :
    (readEndType (itemEl i), (itemEl i).get .number) = e := by
  cases i with
  | endingStart n =>
    cases h
    have h1 : readEndType (.el tEnding [(.type, sStart), (.number, n)] [] []) = .start := by
      simp [readEndType, Xml.get, Xml.attrs, Model.lookup]
    have h2 : (Xml.el tEnding [(.type, sStart), (.number, n)] [] []).get .number = some n := by
      simp [Xml.get, Xml.attrs, Model.lookup]
    simp only [itemEl, h1, h2]
  | endingStop n =>
    cases h
    have h1 : readEndType (.el tEnding [(.type, sStop), (.number, n)] [] []) = .stop := by
      simp [readEndType, Xml.get, Xml.attrs, Model.lookup, sStop, sStart]
    have h2 : (Xml.el tEnding [(.type, sStop), (.number, n)] [] []).get .number = some n := by
      simp [Xml.get, Xml.attrs, Model.lookup]
    simp only [itemEl, h1, h2]
  | fermata => cases h
  | repeatFwd => cases h
  | repeatBwd => cases h

theorem read_repeat (items : List BarItem) :
    (find tRepeat (items.map itemEl)).map readRepDir = (items.filterMap BarItem.repDir).head? := by
  induction items with
  | nil => rfl
  | cons i r ih =>
    have ht := tag_itemEl_repeat i
    unfold find findall at ih ⊢
    rw [List.map_cons, List.filter_cons, ht, List.filterMap_cons]
    cases hi : i.repDir with
    | none => simpa only [Option.isSome_none, Bool.false_eq_true, if_false] using ih
    | some d =>
      simp only [Option.isSome_some, if_true, List.head?_cons, Option.map_some, readRepDir_itemEl i d hi]

theorem read_ending (items : List BarItem) :
    (find tEnding (items.map itemEl)).map (fun e => (readEndType e, e.get .number)) =
      (items.filterMap BarItem.ending).head? := by
  induction items with
  | nil => rfl
  | cons i r ih =>
    have ht := tag_itemEl_ending i
    unfold find findall at ih ⊢
    rw [List.map_cons, List.filter_cons, ht, List.filterMap_cons]
    cases hi : i.ending with
    | none => simpa only [Option.isSome_none, Bool.false_eq_true, if_false] using ih
    | some d =>
      simp only [Option.isSome_some, if_true, List.head?_cons, Option.map_some, readEnding_itemEl i d hi]

theorem read_fermata (items : List BarItem) :
    (find .fermata (items.map itemEl)).isSome = items.any BarItem.isFermata := by
  induction items with
  | nil => rfl
  | cons i r ih =>
    have ht := tag_itemEl_fermata i
    unfold find findall at ih ⊢
    rw [List.map_cons, List.filter_cons, ht, List.any_cons]
    cases h : i.isFermata with
    | false => simpa only [Bool.false_eq_true, if_false, Bool.false_or] using ih
    | true => simp only [if_true, List.head?_cons, Option.isSome_some, Bool.true_or]

theorem read_style (items : List BarItem) : find tBarStyle (items.map itemEl) = none := by
  unfold find findall
  induction items with
  | nil => rfl
  | cons i r ih => simpa [List.filter_cons, tag_itemEl_style] using ih

theorem bar_roundtrip (loc : Loc) (items : List BarItem) : readBarline (writeBarline loc items) = canonBar loc items := by
  unfold readBarline writeBarline canonBar
  simp only [Xml.kids, read_repeat, read_ending, read_fermata, read_style, Option.map_none]
  simp [Xml.get, Xml.attrs, Model.lookup]

/-! ### the children are accounted for -/

/-- counting through an injective partial map -/
theorem count_filterMap {α β : Type} [BEq α] [LawfulBEq α] [BEq β] [LawfulBEq β] (f : α → Option β)
    (hinj : ∀ a a' b, f a = some b → f a' = some b → a = a') (a : α) (b : β) (hab : f a = some b) (l : List α) :
    l.count a = (l.filterMap f).count b := by
  induction l with
  | nil => rfl
  | cons x r ih =>
    rw [List.filterMap_cons, List.count_cons]
    cases hx : f x with
    | none =>
      have hne : x ≠ a := fun e => by rw [e, hab] at hx; cases hx
      simp [hne, ih]
    | some b' =>
      by_cases hb : b' = b
      · subst hb
        have : x = a := hinj x a b' hx hab
        subst this
        simp [ih]
      · have hne : x ≠ a := fun e => by rw [e, hab] at hx; cases hx; exact hb rfl
        simp [List.count_cons, hne, hb, ih]

theorem repDir_inj (a a' : BarItem) (b : RepDir) (h : a.repDir = some b) (h' : a'.repDir = some b) : a = a' := by
  cases a <;> cases a' <;> first | rfl | (simp [BarItem.repDir] at h h'; try (subst h; cases h'))

theorem ending_inj (a a' : BarItem) (b : EndType × Option Str) (h : a.ending = some b) (h' : a'.ending = some b) : a = a' := by
  cases a <;> cases a' <;> first | rfl | (simp [BarItem.ending] at h h'; try (subst h; simp at h'; try (subst h'; rfl)))

theorem count_fermata (items : List BarItem) : items.count .fermata = (items.filter BarItem.isFermata).length := by
  induction items with
  | nil => rfl
  | cons x r ih => cases x <;> simp [List.count_cons, List.filter_cons, BarItem.isFermata, ih]

/-- a list with at most one element: its count of `b` is 1 when `b` is its head, else 0 -/
theorem count_short {β : Type} [BEq β] [LawfulBEq β] [DecidableEq β] (l : List β) (h : l.length ≤ 1) (b : β) :
    l.count b = if l.head? = some b then 1 else 0 := by
  match l, h with
  | [], _ => simp
  | [x], _ => by_cases hx : x = b <;> simp [hx]

/-- how often a child occurs among the children a reading accounts for -/
theorem count_itemsOfRead (b : BarRead) (a : BarItem) :
    (itemsOfRead b).count a =
      match a with
      | .fermata => if b.fermata = true then 1 else 0
      | .repeatFwd => if b.rep = some .forward then 1 else 0
      | .repeatBwd => if b.rep = some .backward then 1 else 0
      | .endingStart n => if b.ending = some (.start, some n) then 1 else 0
      | .endingStop n => if b.ending = some (.stop, some n) then 1 else 0 := by
  obtain ⟨loc, rep, ending, style, ferm⟩ := b
  unfold itemsOfRead
  simp only
  cases a <;> cases ferm <;> rcases rep with _ | (_ | _ | _) <;> rcases ending with _ | ⟨(_ | _ | _), (_ | m)⟩ <;>
    simp [List.count_cons]

theorem items_recovered (loc : Loc) (items : List BarItem) (h : BarSimple items) :
    (itemsOfRead (readBarline (writeBarline loc items))).Perm items := by
  obtain ⟨hf, hr, he⟩ := h
  rw [bar_roundtrip, List.perm_iff_count]
  intro a
  rw [count_itemsOfRead]
  have hrc := count_short _ hr
  have hec := count_short _ he
  cases a with
  | fermata =>
    rw [count_fermata items]
    have hfany : (items.any BarItem.isFermata = true) ↔ 0 < (items.filter BarItem.isFermata).length := by
      simp [List.length_pos_iff, List.filter_eq_nil_iff]
    by_cases h0 : 0 < (items.filter BarItem.isFermata).length
    · have hany := hfany.mpr h0
      simp only [canonBar, hany, if_true]; omega
    · have hany : items.any BarItem.isFermata = false := by
        cases hc : items.any BarItem.isFermata with
        | false => rfl
        | true => exact absurd (hfany.mp hc) h0
      simp only [canonBar, hany, Bool.false_eq_true, if_false]; omega
  | repeatFwd =>
    rw [count_filterMap BarItem.repDir repDir_inj .repeatFwd .forward rfl items, hrc]
    rfl
  | repeatBwd =>
    rw [count_filterMap BarItem.repDir repDir_inj .repeatBwd .backward rfl items, hrc]
    rfl
  | endingStart m =>
    rw [count_filterMap BarItem.ending ending_inj (.endingStart m) (.start, some m) rfl items, hec]
    rfl
  | endingStop m =>
    rw [count_filterMap BarItem.ending ending_inj (.endingStop m) (.stop, some m) rfl items, hec]
    rfl

end C03.Bar
