/-
Glue between the refinement lemmas and the statements of Props/C14.lean.
-/
import PartituraModel.Proofs.C14Thr
import PartituraModel.Proofs.C14Tracks

namespace C14P
open Model Model.Pedal

theorem mem_pedalStream (cs : List Control) (thr : Int) (e : Ev) :
    e ∈ pedalStream cs thr ↔ ∃ c, c ∈ cs ∧ c.number = sustainCC ∧ e = (c.time, decide (thr < c.value)) := by
  unfold pedalStream
  rw [mem_sortBy]
  unfold pedalEvents
  simp only [List.mem_map, List.mem_filter, decide_eq_true_eq]
  constructor
  · rintro ⟨c, ⟨hc, h64⟩, rfl⟩; exact ⟨c, hc, h64, rfl⟩
  · rintro ⟨c, hc, h64, rfl⟩; exact ⟨c, ⟨hc, h64⟩, rfl⟩

theorem mem_restrikes (ns : List Note) (i : Nat) (n : Note) (t : Rat) :
    t ∈ restrikes ns i n ↔ n.off ≤ t ∧ ∃ j m, ns[j]? = some m ∧ j ≠ i ∧ m.pitch = n.pitch ∧ m.on = t := by
  unfold restrikes
  simp only [List.mem_map, List.mem_filter, Bool.and_eq_true, decide_eq_true_eq]
  constructor
  · rintro ⟨m, ⟨hm, ⟨h1, h2⟩, h3⟩, rfl⟩
    exact ⟨h3, m.2, m.1, List.mem_zipIdx_iff_getElem?.mp hm, h1, h2, rfl⟩
  · rintro ⟨h3, j, m, hm, h1, h2, rfl⟩
    exact ⟨(m, j), ⟨List.mem_zipIdx_iff_getElem?.mpr hm, ⟨h1, h2⟩, h3⟩, rfl⟩

theorem mem_moments (ns : List Note) (cs : List Control) (thr : Int) (i : Nat) (n : Note) (t : Rat) :
    t ∈ upTimes n.off (pedalStream cs thr) ++ restrikes ns i n ↔ Moment ns cs thr i n t := by
  rw [List.mem_append, mem_upTimes, mem_restrikes]
  unfold Moment
  constructor
  · rintro (⟨e, he, h1, h2, rfl⟩ | ⟨h1, h2⟩)
    · obtain ⟨c, hc, h64, rfl⟩ := (mem_pedalStream cs thr e).mp he
      refine ⟨h1, Or.inl ⟨c, hc, h64, ?_, rfl⟩⟩
      simp only [decide_eq_false_iff_not] at h2
      omega
    · exact ⟨h1, Or.inr h2⟩
  · rintro ⟨h1, (⟨c, hc, h64, hv, rfl⟩ | h2)⟩
    · left
      refine ⟨(c.time, decide (thr < c.value)), (mem_pedalStream cs thr _).mpr ⟨c, hc, h64, rfl⟩, h1, ?_, rfl⟩
      simp only [decide_eq_false_iff_not]
      omega
    · exact Or.inr ⟨h1, h2⟩

theorem pedalStream_nil_of_no_pedal (cs : List Control) (thr : Int) (h : ∀ c ∈ cs, c.number ≠ sustainCC) :
    pedalStream cs thr = [] := by
  have : pedalEvents cs thr = [] := by
    unfold pedalEvents
    rw [List.filter_eq_nil_iff.mpr (by intro c hc; simpa using h c hc)]
    rfl
  simp [pedalStream, this, sortBy]

theorem downBefore_false_of_all_up (r : Rat) (E : List Ev) (h : ∀ e ∈ E, e.2 = false) : downBefore r E = false := by
  unfold downBefore
  cases hl : (E.filter (fun e => decide (e.1 < r))).getLast? with
  | none => rfl
  | some e => exact h e (List.mem_filter.mp (List.mem_of_getLast? hl)).1

/-- every moment lies before the closing sentinel (notes with onset ≤ release) -/
theorem moments_lt_closing (ns : List Note) (cs : List Control) (thr : Int) (i : Nat) (n : Note) (c : Rat)
    (hwf : ∀ m ∈ ns, m.on ≤ m.off) (hc : closing ns (pedalStream cs thr) = some c) :
    ∀ t ∈ upTimes n.off (pedalStream cs thr) ++ restrikes ns i n, t < c := by
  intro t ht
  rcases List.mem_append.mp ht with h | h
  · obtain ⟨e, he, _, _, rfl⟩ := (mem_upTimes _ _ _).mp h
    unfold closing at hc
    cases ns with
    | nil => simp at hc
    | cons n0 rest =>
      cases hl : (pedalStream cs thr).getLast? with
      | none => simp [hl] at hc
      | some pl =>
        simp only [hl, Option.some.injEq] at hc
        have h1 := sorted_le_last (fun e : Ev => e.1) _ pl (sorted_sortBy _ _) hl e he
        have h2 : pl.1 + 1 ≤ c := by rw [← hc]; exact le_max_left _ _
        have h1' : e.1 ≤ pl.1 := h1
        linarith
  · obtain ⟨_, j, m, hm, _, _, rfl⟩ := (mem_restrikes _ _ _ _).mp h
    have hmem : m ∈ ns := List.mem_of_getElem? hm
    exact lt_of_le_of_lt (hwf m hmem) (closing_gt ns _ c hc m hmem)

theorem closing_some_of_down (ns : List Note) (E : List Ev) (n : Note) (hn : n ∈ ns) (r : Rat)
    (hd : downBefore r E = true) : ∃ c, closing ns E = some c := by
  unfold closing
  cases ns with
  | nil => cases hn
  | cons n0 rest =>
    cases hl : E.getLast? with
    | none =>
      have : E = [] := List.getLast?_eq_none_iff.mp hl
      subst this
      simp [downBefore] at hd
    | some pl => exact ⟨_, rfl⟩

-- ------------------------------------------------------------------ parts

theorem validNote_iff (n : Note) :
    validNote n = true ↔ 0 ≤ n.pitch ∧ n.pitch ≤ 127 ∧ 0 ≤ n.on ∧ n.on ≤ n.off ∧ 0 ≤ n.vel ∧ n.vel ≤ 127 := by
  unfold validNote
  simp only [Bool.and_eq_true, decide_eq_true_eq]
  tauto

theorem setThreshold_eq (p : Part) (thr : Int) :
    setThreshold p thr = some { p with sound := p.notes.zipIdx.map (fun m => soundOffSpec p.notes p.controls thr m.2 m.1),
                                       thr := thr } := by
  unfold setThreshold
  rw [soundOffs_eq]

theorem rethreshold_eq (p : Part) (ts : List Int) :
    rethreshold p ts = some (ts.map (fun t => p.notes.zipIdx.map (fun m => soundOffSpec p.notes p.controls t m.2 m.1))) := by
  induction ts generalizing p with
  | nil => rfl
  | cons t rest ih =>
    unfold rethreshold
    rw [setThreshold_eq]
    simp only
    rw [ih]
    rfl

-- ------------------------------------------------------------------ note array round trip

theorem zip_map_zipIdx {α β : Type} (f : α × Nat → β) (l : List α) (k : Nat) :
    l.zip ((l.zipIdx k).map f) = (l.zipIdx k).map (fun m => (m.1, f m)) := by
  induction l generalizing k with
  | nil => rfl
  | cons a rest ih => simp [List.zipIdx_cons, ih]

theorem mapM'_checkSoundOff (ns : List Note) : mapM' (fun n : Note => checkSoundOff n n.off) ns = some (ns.map (·.off)) :=
  mapM'_eq_some _ _ _ (fun n _ => checkSoundOff_ok n n.off (le_refl _))

theorem soundOffs_no_controls (ns : List Note) (thr : Int) : soundOffs ns [] thr = some (ns.map (·.off)) := by
  cases ns with
  | nil => rfl
  | cons n0 rest =>
    unfold soundOffs
    simp only [pedalEvents, List.filter_nil, List.map_nil]
    exact mapM'_checkSoundOff _

end C14P
