/-
C06 helper lemmas: the stable insertion sort `sortBy`, `uniqueSorted`, delta/absolute times.
-/
import PartituraModel.Model.PerfMidi
import Mathlib.Data.List.Perm.Basic
import Mathlib.Tactic.Linarith

namespace C06Sort
open Model Model.PerfMidi

variable {α : Type}

-- ------------------------------------------------------------------ sortBy

theorem perm_insertBy (le : α → α → Bool) (a : α) (l : List α) : (insertBy le a l).Perm (a :: l) := by
  induction l with
  | nil => exact List.Perm.refl _
  | cons b l ih =>
    unfold insertBy
    split
    · exact List.Perm.refl _
    · exact (List.Perm.cons b ih).trans (List.Perm.swap a b l)

theorem perm_sortBy (le : α → α → Bool) (l : List α) : (sortBy le l).Perm l := by
  induction l with
  | nil => exact List.Perm.refl _
  | cons a l ih =>
    unfold sortBy
    exact (perm_insertBy le a _).trans (List.Perm.cons a ih)

theorem mem_sortBy (le : α → α → Bool) (l : List α) (a : α) : a ∈ sortBy le l ↔ a ∈ l :=
  (perm_sortBy le l).mem_iff

theorem length_sortBy (le : α → α → Bool) (l : List α) : (sortBy le l).length = l.length :=
  (perm_sortBy le l).length_eq

theorem sorted_insertBy (le : α → α → Bool)
    (total : ∀ a b, le a b = true ∨ le b a = true)
    (trans : ∀ a b c, le a b = true → le b c = true → le a c = true)
    (a : α) (l : List α) (h : l.Pairwise (fun x y => le x y = true)) :
    (insertBy le a l).Pairwise (fun x y => le x y = true) := by
  induction l with
  | nil => simp [insertBy]
  | cons b l ih =>
    unfold insertBy
    rw [List.pairwise_cons] at h
    split
    · rename_i hab
      rw [List.pairwise_cons]
      refine ⟨?_, List.pairwise_cons.mpr h⟩
      intro x hx
      rcases List.mem_cons.mp hx with rfl | hx
      · exact hab
      · exact trans _ _ _ hab (h.1 x hx)
    · rename_i hab
      have hba : le b a = true := by
        rcases total a b with h1 | h1
        · exact absurd h1 hab
        · exact h1
      rw [List.pairwise_cons]
      refine ⟨?_, ih h.2⟩
      intro x hx
      rcases List.mem_cons.mp ((perm_insertBy le a l).mem_iff.mp hx) with rfl | hx
      · exact hba
      · exact h.1 x hx

theorem sorted_sortBy (le : α → α → Bool)
    (total : ∀ a b, le a b = true ∨ le b a = true)
    (trans : ∀ a b c, le a b = true → le b c = true → le a c = true)
    (l : List α) : (sortBy le l).Pairwise (fun x y => le x y = true) := by
  induction l with
  | nil => simp [sortBy]
  | cons a l ih => unfold sortBy; exact sorted_insertBy le total trans a _ ih

theorem sublist_insertBy (le : α → α → Bool) (a : α) (l : List α) : l.Sublist (insertBy le a l) := by
  induction l with
  | nil => simp
  | cons b l ih =>
    unfold insertBy
    split
    · exact List.Sublist.cons _ (List.Sublist.refl _)
    · exact List.Sublist.cons_cons _ ih

/-- stability, first half: an element that is `le` all elements of a sublist stays in front of it -/
theorem cons_sublist_insertBy (le : α → α → Bool) (a : α) (c s : List α)
    (hc : ∀ x ∈ c, le a x = true) (h : c.Sublist s) : (a :: c).Sublist (insertBy le a s) := by
  induction s generalizing c with
  | nil =>
    have : c = [] := List.sublist_nil.mp h
    subst this
    simp [insertBy]
  | cons b s ih =>
    unfold insertBy
    split
    · exact List.Sublist.cons_cons _ h
    · rename_i hab
      cases h with
      | cons _ h' => exact List.Sublist.cons _ (ih c hc h')
      | cons_cons _ h' =>
        exact absurd (hc b (List.mem_cons_self)) hab

/-- stability: a sublist that is already in order keeps its order (Python's and mido's sorts are stable) -/
theorem sublist_sortBy (le : α → α → Bool) (c l : List α)
    (hc : c.Pairwise (fun x y => le x y = true)) (h : c.Sublist l) : c.Sublist (sortBy le l) := by
  induction l generalizing c with
  | nil => simpa [sortBy] using h
  | cons a l ih =>
    unfold sortBy
    cases h with
    | cons _ h' => exact (ih c hc h').trans (sublist_insertBy le a _)
    | cons_cons _ h' =>
      rename_i c'
      rw [List.pairwise_cons] at hc
      exact cons_sublist_insertBy le a c' _ hc.1 (ih c' hc.2 h')

/-- a filter whose image in the unsorted list is already in order is untouched by the sort -/
theorem filter_sortBy_eq (le : α → α → Bool) (p : α → Bool) (l : List α)
    (h : (l.filter p).Pairwise (fun x y => le x y = true)) :
    (sortBy le l).filter p = l.filter p := by
  have h1 : (l.filter p).Sublist (sortBy le l) := sublist_sortBy le _ _ h List.filter_sublist
  have h2 : ((l.filter p).filter p).Sublist ((sortBy le l).filter p) := h1.filter p
  rw [List.filter_filter] at h2
  simp only [Bool.and_self] at h2
  have h3 : ((sortBy le l).filter p).length = (l.filter p).length :=
    ((perm_sortBy le l).filter p).length_eq
  exact (h2.eq_of_length h3.symm).symm

-- ------------------------------------------------------------------ delta / absolute

theorem toAbsFrom_toDeltaFrom (t : Int) (l : Track) : toAbsFrom t (toDeltaFrom t l) = l := by
  induction l generalizing t with
  | nil => rfl
  | cons m l ih =>
    obtain ⟨k, e⟩ := m
    simp only [toDeltaFrom, toAbsFrom]
    have : t + (k - t) = k := by omega
    rw [this, ih]

theorem toAbs_toDelta (l : Track) : toAbs (toDelta l) = l := toAbsFrom_toDeltaFrom 0 l

theorem toDeltaFrom_toAbsFrom (t : Int) (l : Track) : toDeltaFrom t (toAbsFrom t l) = l := by
  induction l generalizing t with
  | nil => rfl
  | cons m l ih =>
    obtain ⟨k, e⟩ := m
    simp only [toDeltaFrom, toAbsFrom]
    have : t + k - t = k := by omega
    rw [this, ih]

theorem toDelta_toAbs (l : Track) : toDelta (toAbs l) = l := toDeltaFrom_toAbsFrom 0 l

end C06Sort
