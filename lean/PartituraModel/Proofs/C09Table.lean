/-
C09 helper lemmas, part 5: the boundary table `mkTable` in closed form (for EVERY layout): which times
are keys and what is registered at a key; ids of boundary times; generic lemmas to run `procAll` and
`buildSegs` over a symbolic list of boundary times.
-/
import PartituraModel.Proofs.C09Shape

namespace C09
open Model.Unfold

/-! ### reading a sorted table -/

theorem tblGet_none_of_lt (t : Int) (tb : BTable) (h : ∀ x ∈ tb.map (·.1), t < x) : tblGet t tb = none := by
  induction tb with
  | nil => rfl
  | cons p rest ih =>
    obtain ⟨u, b⟩ := p
    have h1 : t < u := h u (by simp)
    have hne : ¬ t = u := by omega
    simp only [tblGet, hne, if_false]
    exact ih (fun x hx => h x (by simp only [List.map_cons, List.mem_cons]; exact Or.inr hx))

theorem tblGet_upd (t u : Int) (f : BInfo → BInfo) (tb : BTable) (h : SortedTb tb) :
    tblGet u (tblUpd t f tb) = if u = t then some (f ((tblGet u tb).getD {})) else tblGet u tb := by
  induction tb with
  | nil =>
    by_cases hu : u = t <;> simp [tblUpd, tblGet, hu]
  | cons p rest ih =>
    obtain ⟨k, b⟩ := p
    have hrest : SortedTb rest := sorted_tail k _ h
    have hlt : ∀ x ∈ rest.map (·.1), k < x := sorted_head_lt k _ h
    simp only [tblUpd]
    by_cases h1 : t < k
    · simp only [h1, if_true]
      have hnone : tblGet t ((k, b) :: rest) = none := by
        apply tblGet_none_of_lt
        intro x hx
        simp only [List.map_cons, List.mem_cons] at hx
        rcases hx with hx | hx
        · omega
        · have := hlt x hx; omega
      by_cases hu : u = t
      · subst hu
        rw [hnone]
        simp [tblGet]
      · simp only [hu, if_false]
        have : ¬ u = t := hu
        simp [tblGet, this]
    · simp only [h1, if_false]
      by_cases h2 : t = k
      · subst h2
        simp only [if_true]
        by_cases hu : u = t
        · subst hu; simp [tblGet]
        · simp [tblGet, hu]
      · simp only [h2, if_false]
        have ih' := ih hrest
        by_cases hu : u = t
        · subst hu
          simp only [tblGet, h2, if_false, if_true] at ih' ⊢
          exact ih'
        · simp only [hu, if_false] at ih' ⊢
          by_cases huk : u = k
          · simp [tblGet, huk]
          · simp only [tblGet, huk, if_false]
            exact ih'

theorem tblGet_isSome (t : Int) (tb : BTable) : (tblGet t tb).isSome = true ↔ t ∈ tb.map (·.1) := by
  induction tb with
  | nil => simp [tblGet]
  | cons p rest ih =>
    obtain ⟨u, b⟩ := p
    by_cases h : t = u
    · simp [tblGet, h]
    · simp only [tblGet, h, if_false, List.map_cons, List.mem_cons, false_or]
      exact ih

/-- `o` after the updates registered by one stage: untouched unless `c` -/
def optUpd (c : Bool) (G : BInfo → BInfo) (o : Option BInfo) : Option BInfo :=
  if c then some (G (o.getD {})) else o

/-- a stage that sets one flag: `for c in part.iter_all(Coda): boundaries[c.start.t]["coda"] = c` -/
theorem stage_flag (f : BInfo → BInfo) (hf : ∀ b, f (f b) = f b) (t : Int) :
    ∀ (l : List Int) (tb : BTable), SortedTb tb →
      SortedTb (l.foldl (fun tb c => tblUpd c f tb) tb) ∧
      tblGet t (l.foldl (fun tb c => tblUpd c f tb) tb) = optUpd (l.contains t) f (tblGet t tb) := by
  intro l
  induction l with
  | nil => intro tb h; exact ⟨h, by simp [optUpd]⟩
  | cons c cs ih =>
    intro tb h
    have h1 := sortedTb_upd c f tb h
    obtain ⟨i1, i2⟩ := ih (tblUpd c f tb) h1
    refine ⟨i1, ?_⟩
    simp only [List.foldl_cons]
    rw [i2, tblGet_upd c t f tb h, List.contains_cons]
    by_cases htc : t = c
    · subst htc
      cases hm : cs.contains t <;> simp [optUpd, hf]
    · have : (t == c) = false := by simpa using htc
      simp [optUpd, htc, this]

/-- the last element of `l` on which `f` is defined -/
def lastSome {α β : Type} (f : α → Option β) : List α → Option β
  | [] => none
  | a :: as => match lastSome f as with
    | some b => some b
    | none => f a

def orElse' {β : Type} (a b : Option β) : Option β :=
  match a with
  | some x => some x
  | none => b

theorem lastSome_isSome {α β : Type} (f : α → Option β) (l : List α) :
    (lastSome f l).isSome = l.any (fun a => (f a).isSome) := by
  induction l with
  | nil => rfl
  | cons a as ih =>
    simp only [lastSome, List.any_cons]
    cases h : lastSome f as with
    | some b =>
      rw [h] at ih
      simp only [Option.isSome_some] at ih ⊢
      rw [← ih]; simp
    | none =>
      rw [h] at ih
      simp only [Option.isSome_none] at ih
      simp [← ih]

/-- the stage of the repeats (start flag, end ↦ start of the LAST repeat registered at that end) -/
def repG (A : Bool) (E : Option Int) (b : BInfo) : BInfo :=
  { b with repeatStart := b.repeatStart || A, repeatEnd := orElse' E b.repeatEnd }

def repA (reps : List (Int × Int)) (t : Int) : Bool := reps.any (fun r => decide (r.1 = t))
def repE (reps : List (Int × Int)) (t : Int) : Option Int := lastSome (fun r => if r.2 = t then some r.1 else none) reps

theorem rep_step (a e t : Int) (A : Bool) (E : Option Int) (o : Option BInfo) :
    optUpd (A || E.isSome) (repG A E)
      (if t = e then some ({ ((if t = a then some ({ (o.getD {}) with repeatStart := true } : BInfo) else o).getD {}) with repeatEnd := some a } : BInfo)
        else (if t = a then some ({ (o.getD {}) with repeatStart := true } : BInfo) else o))
    = optUpd ((decide (a = t) || A) || (orElse' E (if e = t then some a else none)).isSome)
        (repG (decide (a = t) || A) (orElse' E (if e = t then some a else none))) o := by
  by_cases h1 : t = a
  · subst h1
    by_cases h2 : t = e
    · subst h2
      cases A <;> cases E <;> cases o <;> simp [optUpd, repG, orElse']
    · have h2' : ¬ e = t := fun h => h2 h.symm
      cases A <;> cases E <;> cases o <;> simp [optUpd, repG, orElse', h2, h2']
  · have h1' : ¬ a = t := fun h => h1 h.symm
    by_cases h2 : t = e
    · subst h2
      cases A <;> cases E <;> cases o <;> simp [optUpd, repG, orElse', h1, h1']
    · have h2' : ¬ e = t := fun h => h2 h.symm
      cases A <;> cases E <;> cases o <;> simp [optUpd, repG, orElse', h1, h1', h2, h2']

theorem stage_repeats (t : Int) :
    ∀ (l : List (Int × Int)) (tb : BTable), SortedTb tb →
      SortedTb (l.foldl (fun tb r =>
        tblUpd r.2 (fun b => { b with repeatEnd := some r.1 }) (tblUpd r.1 (fun b => { b with repeatStart := true }) tb)) tb) ∧
      tblGet t (l.foldl (fun tb r =>
        tblUpd r.2 (fun b => { b with repeatEnd := some r.1 }) (tblUpd r.1 (fun b => { b with repeatStart := true }) tb)) tb)
        = optUpd (repA l t || (repE l t).isSome) (repG (repA l t) (repE l t)) (tblGet t tb) := by
  intro l
  induction l with
  | nil =>
    intro tb h
    exact ⟨h, by simp [optUpd, repA, repE, lastSome]⟩
  | cons r rs ih =>
    intro tb h
    obtain ⟨a, e⟩ := r
    have h1 := sortedTb_upd a (fun b => { b with repeatStart := true }) tb h
    have h2 := sortedTb_upd e (fun b => { b with repeatEnd := some a }) _ h1
    obtain ⟨i1, i2⟩ := ih _ h2
    refine ⟨i1, ?_⟩
    simp only [List.foldl_cons]
    rw [i2, tblGet_upd e t _ _ h1, tblGet_upd a t _ _ h]
    have := rep_step a e t (repA rs t) (repE rs t) (tblGet t tb)
    rw [this]
    have e1 : repA ((a, e) :: rs) t = (decide (a = t) || repA rs t) := by simp [repA]
    have e2 : repE ((a, e) :: rs) t = orElse' (repE rs t) (if e = t then some a else none) := by
      simp only [repE, lastSome]
      cases lastSome (fun r : Int × Int => if r.2 = t then some r.1 else none) rs <;> rfl
    rw [e1, e2]

/-- the stage of the endings (start ↦ numbers and end of the LAST bracket registered there, end flag) -/
def volG (S : Option (List Nat × Int)) (Eb : Bool) (b : BInfo) : BInfo :=
  { b with voltaStart := orElse' S b.voltaStart, voltaEnd := b.voltaEnd || Eb }

def volS (ends : List (Int × Int × List Nat)) (t : Int) : Option (List Nat × Int) :=
  lastSome (fun v => if v.1 = t then some (v.2.2, v.2.1) else none) ends
def volE (ends : List (Int × Int × List Nat)) (t : Int) : Bool := ends.any (fun v => decide (v.2.1 = t))

theorem vol_step (a e t : Int) (ns : List Nat) (S : Option (List Nat × Int)) (Eb : Bool) (o : Option BInfo) :
    optUpd (S.isSome || Eb) (volG S Eb)
      (if t = e then some ({ ((if t = a then some ({ (o.getD {}) with voltaStart := some (ns, e) } : BInfo) else o).getD {}) with voltaEnd := true } : BInfo)
        else (if t = a then some ({ (o.getD {}) with voltaStart := some (ns, e) } : BInfo) else o))
    = optUpd ((orElse' S (if a = t then some (ns, e) else none)).isSome || (decide (e = t) || Eb))
        (volG (orElse' S (if a = t then some (ns, e) else none)) (decide (e = t) || Eb)) o := by
  by_cases h1 : t = a
  · subst h1
    by_cases h2 : t = e
    · subst h2
      cases Eb <;> cases S <;> cases o <;> simp [optUpd, volG, orElse']
    · have h2' : ¬ e = t := fun h => h2 h.symm
      cases Eb <;> cases S <;> cases o <;> simp [optUpd, volG, orElse', h2, h2']
  · have h1' : ¬ a = t := fun h => h1 h.symm
    by_cases h2 : t = e
    · subst h2
      cases Eb <;> cases S <;> cases o <;> simp [optUpd, volG, orElse', h1, h1']
    · have h2' : ¬ e = t := fun h => h2 h.symm
      cases Eb <;> cases S <;> cases o <;> simp [optUpd, volG, orElse', h1, h1', h2, h2']

theorem stage_endings (t : Int) :
    ∀ (l : List (Int × Int × List Nat)) (tb : BTable), SortedTb tb →
      SortedTb (l.foldl (fun tb v =>
        tblUpd v.2.1 (fun b => { b with voltaEnd := true }) (tblUpd v.1 (fun b => { b with voltaStart := some (v.2.2, v.2.1) }) tb)) tb) ∧
      tblGet t (l.foldl (fun tb v =>
        tblUpd v.2.1 (fun b => { b with voltaEnd := true }) (tblUpd v.1 (fun b => { b with voltaStart := some (v.2.2, v.2.1) }) tb)) tb)
        = optUpd ((volS l t).isSome || volE l t) (volG (volS l t) (volE l t)) (tblGet t tb) := by
  intro l
  induction l with
  | nil =>
    intro tb h
    exact ⟨h, by simp [optUpd, volS, volE, lastSome]⟩
  | cons v vs ih =>
    intro tb h
    obtain ⟨a, e, ns⟩ := v
    have h1 := sortedTb_upd a (fun b => { b with voltaStart := some (ns, e) }) tb h
    have h2 := sortedTb_upd e (fun b => { b with voltaEnd := true }) _ h1
    obtain ⟨i1, i2⟩ := ih _ h2
    refine ⟨i1, ?_⟩
    simp only [List.foldl_cons]
    rw [i2, tblGet_upd e t _ _ h1, tblGet_upd a t _ _ h]
    have := vol_step a e t ns (volS vs t) (volE vs t) (tblGet t tb)
    rw [this]
    have e1 : volE ((a, e, ns) :: vs) t = (decide (e = t) || volE vs t) := by simp [volE]
    have e2 : volS ((a, e, ns) :: vs) t = orElse' (volS vs t) (if a = t then some (ns, e) else none) := by
      simp only [volS, lastSome]
      cases lastSome (fun v : Int × Int × List Nat => if v.1 = t then some (v.2.2, v.2.1) else none) vs <;> rfl
    rw [e1, e2]

/-- what is registered at time `t` (when `t` is a boundary) -/
def infoAt (L : Layout) (t : Int) : BInfo :=
  { repeatStart := repA L.repeats t, repeatEnd := repE L.repeats t,
    voltaStart := volS L.endings t, voltaEnd := volE L.endings t,
    coda := L.codas.contains t, tocoda := L.tocodas.contains t, dacapo := L.dacapos.contains t,
    fine := L.fines.contains t, segno := L.segnos.contains t, dalsegno := L.dalsegnos.contains t,
    isEnd := decide (t = L.last), isStart := decide (t = L.first) }

/-- is `t` a boundary time -/
def isKey (L : Layout) (t : Int) : Bool :=
  repA L.repeats t || (repE L.repeats t).isSome || (volS L.endings t).isSome || volE L.endings t ||
  L.codas.contains t || L.tocodas.contains t || L.dacapos.contains t || L.fines.contains t ||
  L.segnos.contains t || L.dalsegnos.contains t || decide (t = L.last) || decide (t = L.first)

theorem norm_step (c p : Bool) (f G : BInfo → BInfo) (b : BInfo) (o : Option BInfo)
    (ho : o = if p then some b else none) (hb : p = false → b = {})
    (hfG : c = true → f b = G b) (hG : c = false → G b = b) :
    optUpd c f o = (if (p || c) then some (G b) else none) ∧ ((p || c) = false → G b = {}) := by
  subst ho
  cases c <;> cases p <;> simp_all [optUpd]

theorem norm_flag (set : BInfo → Bool → BInfo) (get : BInfo → Bool) (h1 : ∀ b, set b (get b) = b)
    (c p : Bool) (b : BInfo) (o : Option BInfo)
    (ho : o = if p then some b else none) (hb : p = false → b = {}) :
    optUpd c (fun b => set b true) o = (if (p || c) then some (set b (get b || c)) else none) ∧
      ((p || c) = false → set b (get b || c) = {}) := by
  apply norm_step c p (fun b => set b true) (fun b => set b (get b || c)) b o ho hb
  · intro h; subst h; simp
  · intro h; subst h; simp [h1]

theorem mkTable_get_raw (L : Layout) (t : Int) :
    tblGet t (mkTable L) =
      optUpd (decide (t = L.first)) (fun b => { b with isStart := true })
       (optUpd (decide (t = L.last)) (fun b => { b with isEnd := true })
        (optUpd (L.dalsegnos.contains t) (fun b => { b with dalsegno := true })
         (optUpd (L.segnos.contains t) (fun b => { b with segno := true })
          (optUpd (L.fines.contains t) (fun b => { b with fine := true })
           (optUpd (L.dacapos.contains t) (fun b => { b with dacapo := true })
            (optUpd (L.tocodas.contains t) (fun b => { b with tocoda := true })
             (optUpd (L.codas.contains t) (fun b => { b with coda := true })
              (optUpd ((volS L.endings t).isSome || volE L.endings t) (volG (volS L.endings t) (volE L.endings t))
               (optUpd (repA L.repeats t || (repE L.repeats t).isSome) (repG (repA L.repeats t) (repE L.repeats t))
                 none))))))))) := by
  have s0 : SortedTb ([] : BTable) := trivial
  obtain ⟨s1, g1⟩ := stage_repeats t L.repeats [] s0
  obtain ⟨s2, g2⟩ := stage_endings t L.endings _ s1
  obtain ⟨s3, g3⟩ := stage_flag (fun b => { b with coda := true }) (fun _ => rfl) t L.codas _ s2
  obtain ⟨s4, g4⟩ := stage_flag (fun b => { b with tocoda := true }) (fun _ => rfl) t L.tocodas _ s3
  obtain ⟨s5, g5⟩ := stage_flag (fun b => { b with dacapo := true }) (fun _ => rfl) t L.dacapos _ s4
  obtain ⟨s6, g6⟩ := stage_flag (fun b => { b with fine := true }) (fun _ => rfl) t L.fines _ s5
  obtain ⟨s7, g7⟩ := stage_flag (fun b => { b with segno := true }) (fun _ => rfl) t L.segnos _ s6
  obtain ⟨s8, g8⟩ := stage_flag (fun b => { b with dalsegno := true }) (fun _ => rfl) t L.dalsegnos _ s7
  have s9 := sortedTb_upd L.last (fun b => { b with isEnd := true }) _ s8
  have g9 := tblGet_upd L.last t (fun b => { b with isEnd := true }) _ s8
  have g10 := tblGet_upd L.first t (fun b => { b with isStart := true }) _ s9
  have e9 : ∀ o : Option BInfo, (if t = L.last then some ({ (o.getD {}) with isEnd := true } : BInfo) else o) =
      optUpd (decide (t = L.last)) (fun b => { b with isEnd := true }) o := by
    intro o; by_cases h : t = L.last <;> simp [optUpd, h]
  have e10 : ∀ o : Option BInfo, (if t = L.first then some ({ (o.getD {}) with isStart := true } : BInfo) else o) =
      optUpd (decide (t = L.first)) (fun b => { b with isStart := true }) o := by
    intro o; by_cases h : t = L.first <;> simp [optUpd, h]
  unfold mkTable
  simp only
  rw [g10, g9, g8, g7, g6, g5, g4, g3, g2, g1, e10, e9]
  rfl

theorem norm12 (A : Bool) (E : Option Int) (S : Option (List Nat × Int)) (Eb : Bool) :
    optUpd (S.isSome || Eb) (volG S Eb) (optUpd (A || E.isSome) (repG A E) none) =
      (if (A || E.isSome || S.isSome || Eb) then
        some ({ repeatStart := A, repeatEnd := E, voltaStart := S, voltaEnd := Eb } : BInfo) else none) ∧
    ((A || E.isSome || S.isSome || Eb) = false →
      ({ repeatStart := A, repeatEnd := E, voltaStart := S, voltaEnd := Eb } : BInfo) = {}) := by
  cases A <;> cases E <;> cases S <;> cases Eb <;> simp [optUpd, repG, volG, orElse']

theorem mkTable_get (L : Layout) (t : Int) :
    tblGet t (mkTable L) = if isKey L t then some (infoAt L t) else none := by
  rw [mkTable_get_raw]
  obtain ⟨n2, k2⟩ := norm12 (repA L.repeats t) (repE L.repeats t) (volS L.endings t) (volE L.endings t)
  rw [n2]
  obtain ⟨n3, k3⟩ := norm_flag (fun b v => { b with coda := v }) (·.coda) (fun _ => rfl) (L.codas.contains t) _ _ _ rfl k2
  dsimp only at n3 k3
  rw [n3]
  obtain ⟨n4, k4⟩ := norm_flag (fun b v => { b with tocoda := v }) (·.tocoda) (fun _ => rfl) (L.tocodas.contains t) _ _ _ rfl k3
  dsimp only at n4 k4
  rw [n4]
  obtain ⟨n5, k5⟩ := norm_flag (fun b v => { b with dacapo := v }) (·.dacapo) (fun _ => rfl) (L.dacapos.contains t) _ _ _ rfl k4
  dsimp only at n5 k5
  rw [n5]
  obtain ⟨n6, k6⟩ := norm_flag (fun b v => { b with fine := v }) (·.fine) (fun _ => rfl) (L.fines.contains t) _ _ _ rfl k5
  dsimp only at n6 k6
  rw [n6]
  obtain ⟨n7, k7⟩ := norm_flag (fun b v => { b with segno := v }) (·.segno) (fun _ => rfl) (L.segnos.contains t) _ _ _ rfl k6
  dsimp only at n7 k7
  rw [n7]
  obtain ⟨n8, k8⟩ := norm_flag (fun b v => { b with dalsegno := v }) (·.dalsegno) (fun _ => rfl) (L.dalsegnos.contains t) _ _ _ rfl k7
  dsimp only at n8 k8
  rw [n8]
  obtain ⟨n9, k9⟩ := norm_flag (fun b v => { b with isEnd := v }) (·.isEnd) (fun _ => rfl) (decide (t = L.last)) _ _ _ rfl k8
  dsimp only at n9 k9
  rw [n9]
  obtain ⟨n10, _⟩ := norm_flag (fun b v => { b with isStart := v }) (·.isStart) (fun _ => rfl) (decide (t = L.first)) _ _ _ rfl k9
  dsimp only at n10
  rw [n10]
  have hk : (repA L.repeats t || (repE L.repeats t).isSome || (volS L.endings t).isSome || volE L.endings t ||
      L.codas.contains t || L.tocodas.contains t || L.dacapos.contains t || L.fines.contains t || L.segnos.contains t ||
      L.dalsegnos.contains t || decide (t = L.last) || decide (t = L.first)) = isKey L t := rfl
  rw [hk]
  cases isKey L t with
  | false => rfl
  | true =>
    simp only [if_true, Option.some.injEq]
    simp [infoAt]

theorem mkTable_mem_keys (L : Layout) (t : Int) : t ∈ (mkTable L).map (·.1) ↔ isKey L t = true := by
  rw [← tblGet_isSome, mkTable_get]
  cases isKey L t <;> simp

/-- two strictly increasing lists with the same elements are equal -/
theorem sorted_ext : ∀ (a b : List Int), StrictSorted a → StrictSorted b → (∀ x, x ∈ a ↔ x ∈ b) → a = b := by
  intro a
  induction a with
  | nil =>
    intro b _ _ h
    cases b with
    | nil => rfl
    | cons y ys => exact absurd ((h y).mpr List.mem_cons_self) (by simp)
  | cons x xs ih =>
    intro b ha hb h
    cases b with
    | nil => exact absurd ((h x).mp List.mem_cons_self) (by simp)
    | cons y ys =>
      have hx := sorted_head_lt x xs ha
      have hy := sorted_head_lt y ys hb
      have hxy : x = y := by
        have m1 := (h x).mp List.mem_cons_self
        have m2 := (h y).mpr List.mem_cons_self
        simp only [List.mem_cons] at m1 m2
        rcases m1 with m1 | m1
        · exact m1
        · rcases m2 with m2 | m2
          · exact m2.symm
          · have := hx y m2; have := hy x m1; omega
      subst hxy
      congr 1
      apply ih ys (sorted_tail x xs ha) (sorted_tail x ys hb)
      intro z
      constructor
      · intro hz
        have := (h z).mp (List.mem_cons_of_mem _ hz)
        simp only [List.mem_cons] at this
        rcases this with e | e
        · have := hx z hz; omega
        · exact e
      · intro hz
        have := (h z).mpr (List.mem_cons_of_mem _ hz)
        simp only [List.mem_cons] at this
        rcases this with e | e
        · have := hy z hz; omega
        · exact e

/-- the boundary times are `ts` as soon as `ts` is increasing and lists exactly the keys -/
theorem mkTable_keys (L : Layout) (ts : List Int) (hs : StrictSorted ts) (h : ∀ t, t ∈ ts ↔ isKey L t = true) :
    (mkTable L).map (·.1) = ts :=
  sorted_ext _ _ (mkTable_sorted L) hs (fun x => by rw [mkTable_mem_keys, h])

/-! ### ids of the boundary times -/

theorem idxOf_sorted (ts : List Int) (hs : StrictSorted ts) :
    ∀ (i : Nat) (t : Int), ts[i]? = some t → idxOf t ts = some i := by
  induction ts with
  | nil => intro i t h; simp at h
  | cons a r ih =>
    intro i t h
    cases i with
    | zero =>
      simp only [List.getElem?_cons_zero, Option.some.injEq] at h
      subst h
      simp [idxOf]
    | succ i =>
      simp only [List.getElem?_cons_succ] at h
      have hlt := sorted_head_lt a r hs t (List.mem_of_getElem? h)
      have hne : ¬ t = a := by omega
      simp only [idxOf, hne, if_false]
      rw [ih (sorted_tail a r hs) i t h]
      rfl

theorem idOf_sorted (ts : List Int) (hs : StrictSorted ts) (i : Nat) (t : Int) (h : ts[i]? = some t) :
    idOf ts t = some (if i + 1 = ts.length then Dest.fin else Dest.seg i) := by
  unfold idOf
  rw [idxOf_sorted ts hs i t h]
  by_cases hl : i + 1 = ts.length <;> simp [hl]

/-! ### running `procAll` and `buildSegs` over symbolic times -/

/-- if the per-segment step maps `sts i` to `sts (i+1)` for every segment, `procAll` ends in `sts n` -/
theorem procAll_seq (L : Layout) (tb : BTable) (times ts : List Int) (sts : Nat → BState) (n : Nat)
    (hlen : ts.length = n + 1)
    (h : ∀ i, i < n → ∀ ss se, ts[i]? = some ss → ts[i + 1]? = some se →
      procSeg L tb times i ss se (sts i) = some (sts (i + 1))) :
    procAll L tb times 0 ts (sts 0) = some (sts n) := by
  have key : ∀ (m k : Nat), k + m = n → procAll L tb times k (ts.drop k) (sts k) = some (sts n) := by
    intro m
    induction m with
    | zero =>
      intro k hk
      have hk' : k = n := by omega
      subst hk'
      have hd : (ts.drop k).length = 1 := by simp [hlen]
      match hdl : ts.drop k, hd with
      | [x], _ => simp [procAll]
    | succ m ih =>
      intro k hk
      have hlt : k < n := by omega
      have h0 : k < ts.length := by omega
      have h1 : k + 1 < ts.length := by omega
      have e0 : ts.drop k = ts[k] :: ts[k + 1] :: ts.drop (k + 2) := by
        rw [List.drop_eq_getElem_cons h0, List.drop_eq_getElem_cons h1]
      rw [e0]
      simp only [procAll]
      rw [h k hlt ts[k] ts[k + 1] (List.getElem?_eq_getElem h0) (List.getElem?_eq_getElem h1)]
      simp only
      have e1 : ts[k + 1] :: ts.drop (k + 2) = ts.drop (k + 1) := by
        rw [List.drop_eq_getElem_cons h1]
      rw [e1]
      exact ih (k + 1) (by omega)
  have := key n 0 (by omega)
  simpa using this

/-- without a da capo / dal segno among the raw destinations the repaired ordering is the plain one -/
theorem cleanTo_noNav (own : Nat) (raw : List (Tag × Dest)) (h : nav1Of raw = []) :
    cleanTo own raw = cleanToBase raw := by
  unfold cleanTo cleanToBase
  simp only [h, List.isEmpty_nil, Bool.not_true, Bool.false_eq_true, if_false]

/-- `buildSegs` yields `segs` when every raw destination list cleans up to the one of `segs` -/
theorem buildSegs_eq (times : List Int) (info : List SegInfo) :
    ∀ (infs : List SegInfo) (k : Nat) (ts : List Int) (segs : List Seg), ts.length = infs.length + 1 →
      segs.length = infs.length →
      (∀ i inf, infs[i]? = some inf → ∃ s e to aw, ts[i]? = some s ∧ ts[i + 1]? = some e ∧
        cleanTo (k + i) inf.to = some (to, aw) ∧
        segs[i]? = some { start := s, stp := e, to := to, await := aw, ty := inf.ty }) →
      buildSegs times info k ts infs = some segs := by
  intro infs
  induction infs with
  | nil =>
    intro k ts segs hl hs _
    have : segs = [] := List.eq_nil_of_length_eq_zero (by simpa using hs)
    subst this
    match ts, hl with
    | [x], _ => rfl
  | cons inf infs ih =>
    intro k ts segs hl hs h
    match ts, hl with
    | a :: b :: rest, hl =>
      match segs, hs with
      | sg :: segs', hs =>
        obtain ⟨s, e, to, aw, h1, h2, h3, h4⟩ := h 0 inf rfl
        simp only [List.getElem?_cons_zero, List.getElem?_cons_succ, Option.some.injEq, Nat.add_zero] at h1 h2 h3 h4
        subst h1 h2
        have hrec := ih (k + 1) (b :: rest) segs' (by simpa using hl) (by simpa using hs)
          (by intro i inf' hi
              have := h (i + 1) inf' (by simpa using hi)
              have e : k + (i + 1) = k + 1 + i := by omega
              rw [e] at this
              simpa using this)
        simp only [buildSegs, h3, hrec, Option.bind_eq_bind, Option.bind_some, h4]

end C09
