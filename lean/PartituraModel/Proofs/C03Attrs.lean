/-
C03 — `do_attributes` as a whole: grouping by time, the clef lists, the `<staves>` flag; `<staff-details>` read back;
re-export of what was read from an `<attributes>` element.
-/
import PartituraModel.Model.XmlAttrs
import PartituraModel.Proofs.C03Attr
import PartituraModel.Proofs.C03BarOps
import PartituraModel.Proofs.C03Sort

namespace C03.Attrs
open Model Model.XmlNote Model.XmlDir Model.XmlAttrs C03.Text

/-! ### grouping by time -/

theorem itemsAt_pairs (es : List (Nat × AttrItem)) (t : Nat) :
    (itemsAt es t).map (fun i => (t, i)) = es.filter fun e => e.1 == t := by
  unfold itemsAt
  rw [List.map_map]
  conv_rhs => rw [← List.map_id (es.filter fun e => e.1 == t)]
  apply List.map_congr_left
  intro e he
  have : e.1 = t := by simpa using (List.mem_filter.mp he).2
  simp [← this]

theorem attrGroups_cover (s : AttrSrc) :
    ((attrGroups s).flatMap fun g => g.2.map fun i => (g.1, i)).Perm (entries s) := by
  unfold attrGroups
  rw [List.flatMap_map]
  simp only [itemsAt_pairs]
  exact C03.BarOps.groups_perm (entries s) _ (C03.BarOps.sortedKeys_nodup _)
    (fun e he => C03.BarOps.mem_sortedKeys.mpr (List.mem_map_of_mem he))

theorem attrGroups_times (s : AttrSrc) : ((attrGroups s).map (·.1)).Pairwise (· < ·) := by
  unfold attrGroups
  rw [List.map_map]
  have : ((fun g : Nat × List AttrItem => g.1) ∘ fun t => (t, itemsAt (entries s) t)) = id := rfl
  rw [this, List.map_id]
  exact C03.BarOps.sortedKeys_sorted ((entries s).map (·.1))

theorem attrGroups_items (s : AttrSrc) : ∀ g ∈ attrGroups s, g.2 = itemsAt (entries s) g.1 ∧ g.2 ≠ [] := by
  intro g hg
  unfold attrGroups at hg
  obtain ⟨t, ht, rfl⟩ := List.mem_map.mp hg
  refine ⟨rfl, ?_⟩
  obtain ⟨e, he, het⟩ := List.mem_map.mp (C03.BarOps.mem_sortedKeys.mp ht)
  unfold itemsAt
  intro hnil
  have : e ∈ (entries s).filter fun e => e.1 == t := List.mem_filter.mpr ⟨he, by simp [het]⟩
  rw [List.map_eq_nil_iff] at hnil
  rw [hnil] at this
  cases this

/-! ### the clef lists -/

theorem mem_firstSeen {t : Nat} {l : List Nat} : t ∈ firstSeen l ↔ t ∈ l := by
  induction l with
  | nil => simp [firstSeen]
  | cons x xs ih =>
    unfold firstSeen
    by_cases h : t = x
    · simp [h]
    · simp [h, ih]

theorem firstSeen_nodup (l : List Nat) : (firstSeen l).Nodup := by
  induction l with
  | nil => simp [firstSeen]
  | cons x xs ih =>
    unfold firstSeen
    refine List.nodup_cons.mpr ⟨?_, ih.filter _⟩
    intro hm
    simpa using (List.mem_filter.mp hm).2

/-- every clef is appended to `by_start` exactly once, under its own time -/
theorem clefEntries_perm (cs : List ClefSrc) : (clefEntries cs).Perm (cs.map fun c => (c.t, c.item)) := by
  unfold clefEntries
  have h1 : ∀ t ∈ firstSeen (cs.map (·.t)),
      ((clefsAt cs t).map fun c => (t, c.item)).Perm ((cs.map fun c => (c.t, c.item)).filter fun e => e.1 == t) := by
    intro t _
    have hp : ((clefsAt cs t).map fun c => (t, c.item)).Perm ((cs.filter fun c => c.t == t).map fun c => (t, c.item)) :=
      (C03.Sort.isortBy_perm numLt _).map _
    refine hp.trans (List.Perm.of_eq ?_)
    rw [List.filter_map]
    apply List.map_congr_left
    intro c hc
    have : c.t = t := by simpa using (List.mem_filter.mp hc).2
    simp [this]
  refine (List.Perm.flatMap_left _ h1).trans ?_
  refine C03.BarOps.groups_perm _ _ (firstSeen_nodup _) ?_
  intro e he
  obtain ⟨c, hc, rfl⟩ := List.mem_map.mp he
  exact mem_firstSeen.mpr (List.mem_map_of_mem hc)

/-! ### the element loop and its flag -/

theorem attrLoop_times (k : Nat) (inc : Bool) (gs : List (Nat × List AttrItem)) :
    (attrLoop k inc gs).map (·.1) = gs.map (·.1) := by
  induction gs generalizing inc with
  | nil => rfl
  | cons g rest ih => obtain ⟨t, items⟩ := g; simp [attrLoop, ih]

theorem attrLoop_mem (k : Nat) (inc : Bool) (gs : List (Nat × List AttrItem)) (e : Nat × Xml)
    (h : e ∈ attrLoop k inc gs) : ∃ g ∈ gs, ∃ st, e = (g.1, writeAttributes g.2 st) := by
  induction gs generalizing inc with
  | nil => simp [attrLoop] at h
  | cons g rest ih =>
    obtain ⟨t, items⟩ := g
    rcases List.mem_cons.mp h with rfl | h
    · exact ⟨(t, items), by simp, _, rfl⟩
    · obtain ⟨g, hg, st, rfl⟩ := ih _ h
      exact ⟨g, List.mem_cons_of_mem _ hg, st, rfl⟩

theorem dropWhile_noClef (items : List AttrItem) (h : items.any (·.isClef) = false) :
    items.dropWhile (!·.isClef) = [] := by
  induction items with
  | nil => rfl
  | cons i r ih =>
    have h1 : i.isClef = false ∧ r.any (·.isClef) = false := by simpa using h
    simp [List.dropWhile, h1.1, ih h1.2]

/-- without a clef the flag plays no role -/
theorem writeAttributes_noClef (items : List AttrItem) (st : Option Nat) (h : items.any (·.isClef) = false) :
    writeAttributes items st = writeAttributes items none := by
  unfold writeAttributes
  simp only [dropWhile_noClef items h]

theorem attrLoop_included (k : Nat) (gs : List (Nat × List AttrItem)) :
    attrLoop k true gs = gs.map fun g => (g.1, writeAttributes g.2 none) := by
  induction gs with
  | nil => rfl
  | cons g rest ih => obtain ⟨t, items⟩ := g; simp [attrLoop, ih]

theorem attrLoop_noClef (k : Nat) (gs : List (Nat × List AttrItem)) (h : ∀ g ∈ gs, g.2.any (·.isClef) = false) :
    attrLoop k false gs = gs.map fun g => (g.1, writeAttributes g.2 none) := by
  induction gs with
  | nil => rfl
  | cons g rest ih =>
    obtain ⟨t, items⟩ := g
    have h0 : items.any (·.isClef) = false := h (t, items) (by simp)
    simp only [attrLoop, h0, Bool.false_or, List.map_cons, Bool.false_eq_true, if_false]
    rw [ih fun g hg => h g (List.mem_cons_of_mem _ hg), writeAttributes_noClef items _ h0]

/-- `<staves>` goes into the first element that holds a clef and into no other -/
theorem attrLoop_split (k : Nat) (pre post : List (Nat × List AttrItem)) (g : Nat × List AttrItem)
    (hpre : ∀ h ∈ pre, h.2.any (·.isClef) = false) (hg : g.2.any (·.isClef) = true) :
    attrLoop k false (pre ++ g :: post) =
      pre.map (fun h => (h.1, writeAttributes h.2 none)) ++ (g.1, writeAttributes g.2 (some k)) ::
        post.map (fun h => (h.1, writeAttributes h.2 none)) := by
  induction pre with
  | nil =>
    obtain ⟨t, items⟩ := g
    simp only [List.nil_append, attrLoop, List.map_nil, Bool.false_eq_true, if_false]
    have : (false || items.any (·.isClef)) = true := by simpa using hg
    rw [this, attrLoop_included]
  | cons h rest ih =>
    obtain ⟨t, items⟩ := h
    have h0 : items.any (·.isClef) = false := hpre (t, items) (by simp)
    simp only [List.cons_append, attrLoop, h0, Bool.false_or, List.map_cons, Bool.false_eq_true, if_false]
    rw [ih fun x hx => hpre x (List.mem_cons_of_mem _ hx), writeAttributes_noClef items _ h0]

/-! ### `<staff-details>` read back -/

def sdKids : Option Int → List Xml
  | some l => if l = 0 then [] else [leaf .staffLines (showIntC l)]
  | none => []

theorem itemEls_sd (l : Option Int) : itemEls (.staffDetails l) = [.el .staffDetails [] [] (sdKids l)] := by
  cases l <;> rfl

theorem read_sd (l : Option Int) :
    readStaffDetails (.el .staffDetails [] [] (sdKids l)) = some { number := 1, lines := truthy l } := by
  cases l with
  | none => simp [sdKids, readStaffDetails, Xml.kids, find, findall, tagInt, attrInt, Xml.get, Xml.attrs, Model.lookup, intOr, truthy]
  | some l =>
    by_cases h0 : l = 0
    · simp [sdKids, readStaffDetails, Xml.kids, find, findall, tagInt, attrInt, Xml.get, Xml.attrs, Model.lookup, intOr, truthy, h0]
    · simp [sdKids, readStaffDetails, Xml.kids, find, findall, tagInt, attrInt, Xml.get, Xml.attrs, Model.lookup, intOr, truthy, h0,
        leaf, Xml.tag, Xml.text, showIntC_ne_nil, parseIntC_showIntC]

theorem read_staffs (items : List AttrItem) :
    (findall .staffDetails (items.flatMap itemEls)).mapM readStaffDetails = some (canonStaffs items) := by
  rw [C03.Attr.findall_flatMap]
  induction items with
  | nil => rfl
  | cons i r ih =>
    cases i with
    | staffDetails l =>
      have hall : findall .staffDetails (itemEls (.staffDetails l)) = itemEls (.staffDetails l) := by
        simp [itemEls_sd, findall, Xml.tag]
      rw [List.flatMap_cons, hall, itemEls_sd, List.singleton_append, List.mapM_cons, read_sd, ih]
      rfl
    | divisions q => simpa [itemEls, findall, leaf, Xml.tag, canonStaffs] using ih
    | key f m => simpa [itemEls, findall, Xml.tag, canonStaffs] using ih
    | time a b => simpa [itemEls, findall, Xml.tag, canonStaffs] using ih
    | clef st sg l oc => simpa [itemEls, findall, Xml.tag, canonStaffs] using ih

theorem staffs_roundtrip (items : List AttrItem) (staves : Option Nat) :
    readStaffs (writeAttributes items staves) = some (canonStaffs items) := by
  unfold readStaffs
  rw [C03.Attr.findall_kids .staffDetails (by decide) items staves]
  exact read_staffs items

/-! ### re-export of what was read -/

/-- the representative of an entry that the importer picks: an empty mode is no mode, 0 staff lines are none, a clef
    without staff (or staff 0) is on staff 1, an octave change of 0 is none — all written as the same element -/
def normItem : AttrItem → AttrItem
  | .key f m => .key f (match m with | some m => if m = [] then none else some m | none => none)
  | .staffDetails l => .staffDetails (truthy l)
  | .clef st sg l oc => .clef (some (match st with | some s => if s = 0 then 1 else s | none => 1)) sg l (truthy oc)
  | .divisions q => .divisions q
  | .time a b => .time a b

theorem itemEls_norm (i : AttrItem) : itemEls (normItem i) = itemEls i := by
  cases i with
  | divisions q => rfl
  | time a b => rfl
  | key f m =>
    cases m with
    | none => rfl
    | some m => by_cases h : m = [] <;> simp [normItem, itemEls, h]
  | staffDetails l =>
    cases l with
    | none => rfl
    | some l => by_cases h : l = 0 <;> simp [normItem, itemEls, truthy, h]
  | clef st sg l oc =>
    have h1 : clefAttrs (some (match st with | some s => if s = 0 then 1 else s | none => 1)) = clefAttrs st := by
      cases st with
      | none => simp [clefAttrs]
      | some s => by_cases h : s = 0 <;> simp [clefAttrs, h]
    have h2 : ocEls (truthy oc) = ocEls oc := by
      cases oc with
      | none => rfl
      | some c => by_cases h : c = 0 <;> simp [ocEls, truthy, h]
    simp only [normItem, itemEls, h1, h2]

theorem isClef_norm (i : AttrItem) : (normItem i).isClef = i.isClef := by cases i <;> rfl

theorem stavesPart_map (st : Option Nat) (f : AttrItem → AttrItem) (l : List AttrItem) :
    C03.Attr.stavesPart st (l.map f) = C03.Attr.stavesPart st l := by
  cases st <;> cases l <;> rfl

theorem writeAttributes_norm (items : List AttrItem) (st : Option Nat) :
    writeAttributes (items.map normItem) st = writeAttributes items st := by
  have hw : ∀ l : List AttrItem, writeAttributes l st = .el .attributes [] []
      ((l.takeWhile (!·.isClef)).flatMap itemEls ++ C03.Attr.stavesPart st (l.dropWhile (!·.isClef)) ++
        (l.dropWhile (!·.isClef)).flatMap itemEls) := fun _ => rfl
  have hc : ((fun x : AttrItem => !x.isClef) ∘ normItem) = fun x => !x.isClef := by
    funext x; simp [isClef_norm]
  have he : (itemEls ∘ normItem) = itemEls := by funext x; simp [itemEls_norm]
  rw [hw, hw, List.takeWhile_map, List.dropWhile_map, hc, stavesPart_map, List.flatMap_map, List.flatMap_map]
  simp only [itemEls_norm]

/-- staff details and clefs only -/
def isTail : AttrItem → Bool
  | .staffDetails _ => true
  | .clef _ _ _ _ => true
  | _ => false

theorem firsts_tail (l : List AttrItem) (h : ∀ i ∈ l, isTail i = true) :
    firstTime l = none ∧ firstKey l = none ∧ firstDivisions l = none ∧ firstMode l = none := by
  induction l with
  | nil => simp [firstTime, firstKey, firstDivisions, firstMode]
  | cons i r ih =>
    have hr := ih fun j hj => h j (List.mem_cons_of_mem _ hj)
    have hi := h i (by simp)
    cases i <;> simp_all [isTail, firstTime, firstKey, firstDivisions, firstMode]

theorem canonClefs_append (a b : List AttrItem) : canonClefs (a ++ b) = canonClefs a ++ canonClefs b := by
  induction a with
  | nil => rfl
  | cons i r ih => cases i <;> simp [canonClefs, ih]

theorem canonStaffs_append (a b : List AttrItem) : canonStaffs (a ++ b) = canonStaffs a ++ canonStaffs b := by
  induction a with
  | nil => rfl
  | cons i r ih => cases i <;> simp [canonStaffs, ih]

theorem canon_sds (sds : List (Option Int)) :
    canonClefs (sds.map AttrItem.staffDetails) = [] ∧
    canonStaffs (sds.map AttrItem.staffDetails) = sds.map fun l => { number := 1, lines := truthy l } := by
  induction sds with
  | nil => exact ⟨rfl, rfl⟩
  | cons l r ih => simp [canonClefs, canonStaffs, ih.1, ih.2]

def normStaffNo : Option Int → Int
  | some s => if s = 0 then 1 else s
  | none => 1

theorem canon_cls (cls : List (Option Int × Str × Option Int × Option Int)) :
    canonStaffs (cls.map clefItem) = [] ∧
    canonClefs (cls.map clefItem) = cls.map fun x =>
      { staff := normStaffNo x.1, sign := some x.2.1, line := x.2.2.1, octaveChange := truthy x.2.2.2 } := by
  induction cls with
  | nil => exact ⟨rfl, rfl⟩
  | cons l r ih =>
    obtain ⟨st, sg, l, oc⟩ := l
    cases st <;> simp [clefItem, canonClefs, canonStaffs, normStaffNo] at ih ⊢ <;> simp [ih.1, ih.2]

/-- the tail of a canonical entry list -/
def tailOf (c : CanonItems) : List AttrItem := c.staffs.map AttrItem.staffDetails ++ c.clefs.map clefItem

theorem tailOf_isTail (c : CanonItems) : ∀ i ∈ tailOf c, isTail i = true := by
  intro i hi
  rcases List.mem_append.mp hi with h | h
  · obtain ⟨_, _, rfl⟩ := List.mem_map.mp h; rfl
  · obtain ⟨_, _, rfl⟩ := List.mem_map.mp h; rfl

theorem items_eq (c : CanonItems) :
    c.items = divItems c.divisions ++ (keyItems c.key ++ (timeItems c.time ++ tailOf c)) := by
  simp [CanonItems.items, tailOf, List.append_assoc]

def normMode : Option Str → Option Str
  | some m => if m = [] then none else some m
  | none => none

theorem canon_time (c : CanonItems) (h : c.ok) : (canonAttrs c.items).time = c.time := by
  obtain ⟨h1, -, -, -⟩ := firsts_tail (tailOf c) (tailOf_isTail c)
  have hft : firstTime c.items = c.time := by
    rw [items_eq]
    cases c.divisions <;> rcases c.key with _ | ⟨f, m⟩ <;> rcases c.time with _ | ⟨a, b⟩ <;>
      simp [divItems, keyItems, timeItems, firstTime, h1]
  simp only [canonAttrs, hft]
  rcases hc : c.time with _ | ⟨a, b⟩
  · rfl
  · have := h.2 a b hc
    simp [this.1, this.2]

theorem canon_div (c : CanonItems) (h : c.ok) : (canonAttrs c.items).divisions = c.divisions := by
  obtain ⟨-, -, h3, -⟩ := firsts_tail (tailOf c) (tailOf_isTail c)
  have hfd : firstDivisions c.items = c.divisions := by
    rw [items_eq]
    cases c.divisions <;> rcases c.key with _ | ⟨f, m⟩ <;> rcases c.time with _ | ⟨a, b⟩ <;>
      simp [divItems, keyItems, timeItems, firstDivisions, h3]
  simp only [canonAttrs, hfd]
  cases hc : c.divisions with
  | none => rfl
  | some q => simp [truthy, h.1 q hc]

theorem canon_key (c : CanonItems) :
    keyRead (canonAttrs c.items).key = c.key.map fun fm => (fm.1, normMode fm.2) := by
  obtain ⟨-, h2, -, h4⟩ := firsts_tail (tailOf c) (tailOf_isTail c)
  have hfk : firstKey c.items = c.key := by
    rw [items_eq]
    cases c.divisions <;> rcases c.key with _ | ⟨f, m⟩ <;> rcases c.time with _ | ⟨a, b⟩ <;>
      simp [divItems, keyItems, timeItems, firstKey, h2]
  have hfm : firstMode c.items = (c.key.bind fun fm => normMode fm.2) := by
    rw [items_eq]
    cases c.divisions <;> rcases c.key with _ | ⟨f, _ | m⟩ <;> rcases c.time with _ | ⟨a, b⟩ <;>
      simp [divItems, keyItems, timeItems, firstMode, h4, normMode]
  simp only [canonAttrs, hfk, hfm]
  rcases c.key with _ | ⟨f, m⟩ <;> simp [keyRead]

theorem canon_front_clefs (d : Option Int) (k : Option (Int × Option Str)) (t : Option (Int × Int)) (l : List AttrItem) :
    canonClefs (divItems d ++ (keyItems k ++ (timeItems t ++ l))) = canonClefs l ∧
    canonStaffs (divItems d ++ (keyItems k ++ (timeItems t ++ l))) = canonStaffs l := by
  cases d <;> rcases k with _ | ⟨f, m⟩ <;> rcases t with _ | ⟨a, b⟩ <;>
    simp [divItems, keyItems, timeItems, canonClefs, canonStaffs]

theorem canon_clefs (c : CanonItems) : (canonAttrs c.items).clefs = c.clefs.map fun x =>
    { staff := normStaffNo x.1, sign := some x.2.1, line := x.2.2.1, octaveChange := truthy x.2.2.2 } := by
  simp only [canonAttrs]
  rw [items_eq, (canon_front_clefs _ _ _ _).1, tailOf, canonClefs_append, (canon_sds _).1, (canon_cls _).2, List.nil_append]

theorem canon_staffs (c : CanonItems) :
    canonStaffs c.items = c.staffs.map fun l => { number := 1, lines := truthy l } := by
  rw [items_eq, (canon_front_clefs _ _ _ _).2, tailOf, canonStaffs_append, (canon_sds _).2, (canon_cls _).1, List.append_nil]

/-- what is re-exported is the entry list itself, entry by entry up to the representative the importer picks -/
theorem reexport_canon (c : CanonItems) (h : c.ok) :
    reexportItems (canonAttrs c.items) (canonStaffs c.items) = c.items.map normItem := by
  unfold reexportItems
  rw [canon_time c h, canon_div c h, canon_key c, canon_clefs c, canon_staffs c]
  simp only [CanonItems.items, List.map_append, List.map_map]
  have h1 : divItems c.divisions = (divItems c.divisions).map normItem := by cases c.divisions <;> rfl
  have h2 : keyItems (c.key.map fun fm => (fm.1, normMode fm.2)) = (keyItems c.key).map normItem := by
    rcases c.key with _ | ⟨f, m⟩
    · rfl
    · cases m <;> rfl
  have h3 : timeItems c.time = (timeItems c.time).map normItem := by rcases c.time with _ | ⟨a, b⟩ <;> rfl
  have h4 : (c.clefs.map ((fun c : ClefRead => AttrItem.clef (some c.staff) (signText c.sign) c.line c.octaveChange) ∘
      fun x => { staff := normStaffNo x.1, sign := some x.2.1, line := x.2.2.1, octaveChange := truthy x.2.2.2 })) =
      c.clefs.map (normItem ∘ clefItem) := by
    apply List.map_congr_left
    intro x _
    obtain ⟨st, sg, l, oc⟩ := x
    cases st <;> rfl
  rw [← h1, ← h2, ← h3, h4]
  rfl

theorem attributes_fixpoint (c : CanonItems) (h : c.ok) (st : Option Nat) :
    writeAttributes (reexportItems (canonAttrs c.items) (canonStaffs c.items)) st = writeAttributes c.items st := by
  rw [reexport_canon c h, writeAttributes_norm]

/-! ### `do_attributes` as a whole -/

/-- the objects the five iteration calls returned, each with its time -/
def objects (s : AttrSrc) : List (Nat × AttrItem) :=
  s.quarters.map (fun q => (q.1, AttrItem.divisions q.2)) ++ s.keys.map (fun k => (k.1, AttrItem.key k.2.1 k.2.2)) ++
  s.times.map (fun x => (x.1, AttrItem.time x.2.1 x.2.2)) ++ s.staffs.map (fun x => (x.1, AttrItem.staffDetails x.2)) ++
  s.clefs.map fun c => (c.t, c.item)

theorem entries_perm (s : AttrSrc) : (entries s).Perm (objects s) :=
  List.Perm.append_left _ (clefEntries_perm s.clefs)

theorem entries_ok (s : AttrSrc) (h : ∀ c ∈ s.clefs, TextOK c.sign) (t : Nat) : WellFormedAttrs (itemsAt (entries s) t) := by
  intro i hi
  obtain ⟨e, he, rfl⟩ := List.mem_map.mp hi
  have hm : e ∈ objects s := (entries_perm s).subset (List.mem_filter.mp he).1
  unfold objects at hm
  simp only [List.mem_append, List.mem_map] at hm
  rcases hm with (((⟨_, _, rfl⟩ | ⟨_, _, rfl⟩) | ⟨_, _, rfl⟩) | ⟨_, _, rfl⟩) | ⟨c, hc, rfl⟩
  · trivial
  · trivial
  · trivial
  · trivial
  · exact h c hc

theorem doAttributes_mem (s : AttrSrc) (e : Nat × Xml) (h : e ∈ doAttributes s) :
    ∃ st, e.2 = writeAttributes (itemsAt (entries s) e.1) st := by
  obtain ⟨g, hg, st, rfl⟩ := attrLoop_mem _ _ _ e h
  exact ⟨st, by rw [(attrGroups_items s g hg).1]⟩

/-! ### the entries of one time, for a score in the property's domain -/

theorem itemsAt_append (a b : List (Nat × AttrItem)) (t : Nat) : itemsAt (a ++ b) t = itemsAt a t ++ itemsAt b t := by
  simp [itemsAt]

theorem itemsAt_map {α : Type} (l : List α) (k : α → Nat) (f : α → AttrItem) (t : Nat) :
    itemsAt (l.map fun x => (k x, f x)) t = (l.filter fun x => k x == t).map f := by
  unfold itemsAt
  rw [List.filter_map, List.map_map]
  rfl

theorem itemsAt_groups (ks : List Nat) (hnd : ks.Nodup) (h : Nat → List ClefSrc) (t : Nat) :
    itemsAt (ks.flatMap fun t' => (h t').map fun c => (t', c.item)) t = if t ∈ ks then (h t).map ClefSrc.item else [] := by
  induction ks with
  | nil => rfl
  | cons k r ih =>
    obtain ⟨hk, hr⟩ := List.nodup_cons.mp hnd
    rw [List.flatMap_cons, itemsAt_append, ih hr]
    have h1 : itemsAt ((h k).map fun c => (k, c.item)) t = if k = t then (h k).map ClefSrc.item else [] := by
      rw [itemsAt_map (h k) (fun _ => k) ClefSrc.item t]
      by_cases hkt : k = t <;> simp [hkt]
    rw [h1]
    by_cases hkt : k = t
    · subst hkt; simp [hk]
    · have : ¬ t = k := fun h => hkt h.symm
      simp [hkt, this]

theorem itemsAt_clefEntries (cs : List ClefSrc) (t : Nat) : itemsAt (clefEntries cs) t = (clefsAt cs t).map ClefSrc.item := by
  unfold clefEntries
  rw [itemsAt_groups _ (firstSeen_nodup _) (clefsAt cs) t]
  by_cases ht : t ∈ firstSeen (cs.map (·.t))
  · simp [ht]
  · have : cs.filter (fun c => c.t == t) = [] := by
      rw [List.filter_eq_nil_iff]
      intro c hc hct
      exact ht (mem_firstSeen.mpr (List.mem_map.mpr ⟨c, hc, by simpa using hct⟩))
    simp [ht, clefsAt, this, Model.Xml.isortBy]

theorem filter_le_one {α : Type} (p : α → Bool) (l : List α) (h : (l.filter p).length ≤ 1) :
    l.filter p = (l.find? p).toList := by
  induction l with
  | nil => rfl
  | cons a r ih =>
    by_cases hp : p a = true
    · have hr : r.filter p = [] := by
        have : (r.filter p).length = 0 := by
          have h' : (a :: r.filter p).length ≤ 1 := by simpa [List.filter_cons, hp] using h
          simpa using h'
        exact List.eq_nil_of_length_eq_zero this
      simp [hp, hr]
    · have hp' : p a = false := by simpa using hp
      simp only [List.filter_cons, hp', List.find?_cons]
      simpa [List.filter_cons, hp'] using ih (by simpa [List.filter_cons, hp'] using h)

/-- at most one quarter duration, key signature and time signature of the source at time `t` (the property's domain) -/
def DomainAt (s : AttrSrc) (t : Nat) : Prop :=
  (s.quarters.filter fun q => q.1 == t).length ≤ 1 ∧ (s.keys.filter fun k => k.1 == t).length ≤ 1 ∧
  (s.times.filter fun x => x.1 == t).length ≤ 1

/-- the objects of time `t` -/
def canonAt (s : AttrSrc) (t : Nat) : CanonItems where
  divisions := (s.quarters.find? fun q => q.1 == t).map (·.2)
  key := (s.keys.find? fun k => k.1 == t).map (·.2)
  time := (s.times.find? fun x => x.1 == t).map (·.2)
  staffs := (s.staffs.filter fun x => x.1 == t).map (·.2)
  clefs := (clefsAt s.clefs t).map fun c => (c.staff, c.sign, c.line, c.octaveChange)

theorem itemsAt_canon (s : AttrSrc) (t : Nat) (h : DomainAt s t) : itemsAt (entries s) t = (canonAt s t).items := by
  obtain ⟨h1, h2, h3⟩ := h
  unfold entries
  simp only [itemsAt_append, itemsAt_clefEntries]
  rw [itemsAt_map s.quarters (·.1) (fun q => AttrItem.divisions q.2), itemsAt_map s.keys (·.1) (fun k => AttrItem.key k.2.1 k.2.2),
    itemsAt_map s.times (·.1) (fun x => AttrItem.time x.2.1 x.2.2), itemsAt_map s.staffs (·.1) (fun x => AttrItem.staffDetails x.2),
    filter_le_one _ _ h1, filter_le_one _ _ h2, filter_le_one _ _ h3]
  unfold CanonItems.items canonAt
  simp only [List.map_map]
  congr 1
  congr 1
  congr 1
  congr 1
  · generalize (s.quarters.find? fun q => q.1 == t) = o
    cases o <;> rfl
  · generalize (s.keys.find? fun k => k.1 == t) = o
    rcases o with _ | ⟨_, _, _⟩ <;> rfl
  · generalize (s.times.find? fun x => x.1 == t) = o
    rcases o with _ | ⟨_, _, _⟩ <;> rfl

end C03.Attrs
