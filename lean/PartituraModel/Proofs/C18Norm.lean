/-
C18 — the tempo normalisations over exact rationals: rescale ∘ scale = id.
-/
import PartituraModel.Proofs.C18Basic
import Mathlib.Data.List.Forall2

namespace C18P
open Model Model.Codec

theorem sumR_pos (l : List Rat) (hne : l ≠ []) (h : ∀ x ∈ l, 0 < x) : 0 < sumR l := by
  cases l with
  | nil => exact absurd rfl hne
  | cons a as =>
    simp only [sumR]
    have h1 := h a (by simp)
    have h2 := sumR_nonneg as (fun x hx => le_of_lt (h x (by simp [hx])))
    linarith

theorem mean_pos (l : List Rat) (hne : l ≠ []) (h : ∀ x ∈ l, 0 < x) : 0 < mean l := by
  unfold mean
  apply div_pos (sumR_pos l hne h)
  have : l.length ≠ 0 := fun h0 => hne (List.length_eq_zero_iff.mp h0)
  have : 0 < l.length := Nat.pos_of_ne_zero this
  exact_mod_cast this

/-- every row of `scale` rescales to the beat period it was made from -/
theorem scale_rescale (n : Norm) (sd : Rat) (bps : List Rat) (hpos : ∀ b ∈ bps, 0 < b)
    (hsd : n = .std → sd * sd = variance bps) :
    List.Forall₂ (fun c b => rescale n c = some b) (scale n sd bps) bps := by
  have hm : bps ≠ [] → mean bps ≠ 0 := fun hne => ne_of_gt (mean_pos bps hne hpos)
  have key : ∀ f : Rat → List Rat, (∀ b ∈ bps, rescale n (f b) = some b) →
      List.Forall₂ (fun c b => rescale n c = some b) (bps.map f) bps := by
    intro f hf
    rw [List.forall₂_map_left_iff]
    exact List.forall₂_same.mpr hf
  cases n with
  | bp => exact key _ (fun b _ => rfl)
  | log => exact key _ (fun b _ => rfl)
  | ratio =>
    apply key
    intro b hb
    have hne : bps ≠ [] := by intro h0; simp [h0] at hb
    simp only [rescale, Option.some.injEq]
    have := hm hne
    field_simp
  | ratioLog =>
    apply key
    intro b hb
    have hne : bps ≠ [] := by intro h0; simp [h0] at hb
    simp only [rescale, Option.some.injEq]
    have := hm hne
    field_simp
  | std =>
    apply key
    intro b hb
    simp only [rescale, Option.some.injEq]
    by_cases h0 : sd = 0
    · have hv : variance bps = 0 := by rw [← hsd rfl, h0]; ring
      have := eq_mean_of_variance_zero bps hv b hb
      simp only [h0, if_true]
      rw [← this]; ring
    · simp only [h0, if_false]
      field_simp
      ring

end C18P
