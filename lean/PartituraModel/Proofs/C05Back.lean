/-
Helper lemmas for C05, round 4: when `create_divs_from_beats` shifts (only for a negative first
onset, and then by exactly the earliest onset), where `note_array_to_score` puts the pickup measure,
and what the time maps of the created part give back.
-/
import PartituraModel.Model.NoteArrayBack
import PartituraModel.Proofs.C05Beats
import PartituraModel.Proofs.Round
import Mathlib.Tactic.Linarith
import Mathlib.Tactic.Ring
import Mathlib.Tactic.FieldSimp
import Mathlib.Tactic.Positivity

namespace NoteArray

open List Model

-- ------------------------------------------------------------------ minima / maxima

theorem minList_spec (l : List Int) (m : Int) (h : minList l = some m) : m ∈ l ∧ ∀ x ∈ l, m ≤ x := by
  unfold minList at h
  cases hm : maxList (l.map (- ·)) with
  | none => rw [hm] at h; cases h
  | some k =>
    rw [hm] at h
    simp only [Option.map_some, Option.some.injEq] at h
    subst h
    obtain ⟨hmem, hub⟩ := maxList_spec _ _ hm
    obtain ⟨y, hy, rfl⟩ := mem_map.mp hmem
    refine ⟨by simpa using hy, ?_⟩
    intro x hx
    have := hub (-x) (mem_map_of_mem (f := fun z : Int => -z) hx)
    omega

theorem minList_none {l : List Int} (h : minList l = none) : l = [] := by
  unfold minList at h
  cases hm : maxList (l.map (- ·)) with
  | none => simpa using maxList_none hm
  | some k => rw [hm] at h; cases h

theorem maxRatList_none {l : List Rat} (h : maxRatList l = none) : l = [] := by
  cases l with
  | nil => rfl
  | cons a l =>
    unfold maxRatList at h
    split at h <;> simp at h

theorem maxRatList_spec : ∀ (l : List Rat) (m : Rat), maxRatList l = some m → m ∈ l ∧ ∀ x ∈ l, x ≤ m := by
  intro l
  induction l with
  | nil => intro m h; simp [maxRatList] at h
  | cons a l ih =>
    intro m h
    unfold maxRatList at h
    split at h
    · rename_i hn
      simp only [Option.some.injEq] at h
      subst h
      have := maxRatList_none hn
      subst this
      simp
    · rename_i m' hm'
      simp only [Option.some.injEq] at h
      have ⟨hmem, hub⟩ := ih m' hm'
      by_cases ham : a ≤ m'
      · rw [if_pos ham] at h
        subst h
        refine ⟨mem_cons_of_mem _ hmem, ?_⟩
        intro x hx
        rcases mem_cons.mp hx with rfl | hx
        · exact ham
        · exact hub x hx
      · rw [if_neg ham] at h
        subst h
        refine ⟨mem_cons_self, ?_⟩
        intro x hx
        rcases mem_cons.mp hx with rfl | hx
        · exact le_refl _
        · exact le_of_lt (lt_of_le_of_lt (hub x hx) (not_le.mp ham))

-- ------------------------------------------------------------------ the divisions and the shift

theorem beatDivs_pos (rows : List (Rat × Rat)) : 0 < beatDivs rows := by
  unfold beatDivs
  apply natLcm_pos
  intro d hd
  rcases mem_append.mp hd with h | h
  · obtain ⟨x, _, rfl⟩ := mem_map.mp h; exact x.2.den_pos
  · obtain ⟨x, _, rfl⟩ := mem_map.mp h; exact x.1.den_pos

/-- on the grid of the new part every limited onset is a whole number of divisions -/
theorem onset_on_grid (rows : List (Rat × Rat)) (x : Rat × Rat) (hx : x ∈ rows) :
    ((truncRat ((beatDivs rows : Rat) * limitDen x.1 256) : Int) : Rat) =
      (beatDivs rows : Rat) * limitDen x.1 256 := by
  apply truncRat_mul_den
  apply dvd_natLcm
  have hmem : (limitDen x.1 256, limitDen x.2 256) ∈ limited rows :=
    mem_map_of_mem (f := fun x => (limitDen x.1 256, limitDen x.2 256)) hx
  exact mem_append_right _ (mem_map_of_mem (f := fun f : Rat × Rat => f.1.den) hmem)

theorem limited_onsets (rows : List (Rat × Rat)) :
    (limited rows).map (fun f => truncRat ((beatDivs rows : Rat) * f.1)) =
      rows.map (fun x => truncRat ((beatDivs rows : Rat) * limitDen x.1 256)) := by
  unfold limited
  rw [map_map]
  rfl

/-- no negative onset: nothing is shifted (a late entry stays late) -/
theorem beatShift_eq_zero (rows : List (Rat × Rat)) (h : ∀ x ∈ rows, 0 ≤ limitDen x.1 256) :
    beatShift rows = 0 := by
  unfold beatShift
  rw [limited_onsets]
  split
  · rename_i m hm
    obtain ⟨hmem, _⟩ := minList_spec _ _ hm
    obtain ⟨x, hx, rfl⟩ := mem_map.mp hmem
    have hq := onset_on_grid rows x hx
    have hd : (0 : Rat) ≤ (beatDivs rows : Rat) := by exact_mod_cast Nat.zero_le _
    have h0 : (0 : Rat) ≤ (beatDivs rows : Rat) * limitDen x.1 256 := mul_nonneg hd (h x hx)
    rw [← hq] at h0
    have h0' : (0 : Int) ≤ truncRat ((beatDivs rows : Rat) * limitDen x.1 256) := by exact_mod_cast h0
    rw [if_neg (by omega)]
  · rfl

/-- a negative onset: everything is shifted by exactly the earliest (limited) onset, which
    therefore lands on time 0 -/
theorem beatShift_of_neg (rows : List (Rat × Rat)) (h : ∃ x ∈ rows, limitDen x.1 256 < 0) :
    ∃ y ∈ rows, limitDen y.1 256 < 0 ∧ (∀ x ∈ rows, limitDen y.1 256 ≤ limitDen x.1 256) ∧
      (beatShift rows : Rat) = -((beatDivs rows : Rat) * limitDen y.1 256) := by
  obtain ⟨x0, hx0, hneg0⟩ := h
  have hdpos : (0 : Rat) < (beatDivs rows : Rat) := by exact_mod_cast beatDivs_pos rows
  unfold beatShift
  rw [limited_onsets]
  split
  · rename_i m hm
    obtain ⟨hmem, hlb⟩ := minList_spec _ _ hm
    obtain ⟨y, hy, rfl⟩ := mem_map.mp hmem
    have hqy := onset_on_grid rows y hy
    have hle : ∀ x ∈ rows, limitDen y.1 256 ≤ limitDen x.1 256 := by
      intro x hx
      have h1 := hlb _ (mem_map_of_mem (f := fun x : Rat × Rat => truncRat ((beatDivs rows : Rat) * limitDen x.1 256)) hx)
      have h2 : ((truncRat ((beatDivs rows : Rat) * limitDen y.1 256) : Int) : Rat) ≤
          ((truncRat ((beatDivs rows : Rat) * limitDen x.1 256) : Int) : Rat) := by exact_mod_cast h1
      rw [hqy, onset_on_grid rows x hx] at h2
      exact le_of_mul_le_mul_left h2 hdpos
    have hyneg : limitDen y.1 256 < 0 := lt_of_le_of_lt (hle x0 hx0) hneg0
    have hmneg : truncRat ((beatDivs rows : Rat) * limitDen y.1 256) < 0 := by
      have : ((truncRat ((beatDivs rows : Rat) * limitDen y.1 256) : Int) : Rat) < 0 := by
        rw [hqy]; exact mul_neg_of_pos_of_neg hdpos hyneg
      exact_mod_cast this
    refine ⟨y, hy, hyneg, hle, ?_⟩
    rw [if_pos hmneg]
    push_cast
    rw [hqy]
  · rename_i hn
    have := minList_none hn
    rw [map_eq_nil_iff] at this
    subst this
    simp at hx0

theorem limitDen_of_den_le (r : Rat) (k : Nat) (h : r.den ≤ k) : limitDen r k = r := by
  unfold limitDen
  rw [if_pos h]

-- ------------------------------------------------------------------ beat-only arrays, the shift named

/-- the (onset_beat, duration_beat) pairs of the sorted array: the argument of `create_divs_from_beats` -/
def beatRows (a : List ARow) : List (Rat × Rat) := (sortArr false a).map fun r => (r.onsetBeat, r.durBeat)

theorem fromArray_beat_shift (ht : Bool) (a : List ARow) (d : Nat) (l : List (Int × Int × Int))
    (h : fromArray true false ht a none = .ok (d, l)) :
    d = beatDivs (beatRows a) ∧
    Forall₂ (fun (r : ARow) (x : Int × Int × Int) =>
        (x.1 : Rat) = (d : Rat) * limitDen r.onsetBeat 256 + (beatShift (beatRows a) : Rat) ∧
        (x.2.1 : Rat) = (d : Rat) * limitDen r.durBeat 256 ∧ x.2.2 = r.pitch) (sortArr false a) l := by
  unfold fromArray at h
  split at h
  · cases h
  · split at h
    · cases h
    · simp only [Bool.not_false, ↓reduceIte] at h
      obtain ⟨hd, hl, _⟩ := finish_ok _ _ _ _ h
      have hf := divsFromBeats_exact (beatRows a)
      have h1 : (divsFromBeats (beatRows a)).1 = beatDivs (beatRows a) := rfl
      refine ⟨by rw [hd]; exact h1, ?_⟩
      rw [hd, hl]
      unfold beatRows at hf ⊢
      rw [forall₂_map_left_iff] at hf
      generalize beatShift (map (fun r => (r.onsetBeat, r.durBeat)) (sortArr false a)) = sh at hf ⊢
      generalize (divsFromBeats (map (fun r => (r.onsetBeat, r.durBeat)) (sortArr false a))).2 = od at hf ⊢
      generalize (divsFromBeats (map (fun r => (r.onsetBeat, r.durBeat)) (sortArr false a))).1 = dd at hf ⊢
      generalize sortArr false a = a' at hf ⊢
      induction hf with
      | nil => exact Forall₂.nil
      | cons hab _ ih => exact Forall₂.cons ⟨hab.1, hab.2, rfl⟩ ih

theorem forall₂_zip_left {α β : Type} {R : α → β → Prop} : ∀ {l : List α} {rs : List β},
    Forall₂ R l rs → ∀ a ∈ l, ∃ b, (a, b) ∈ zip l rs ∧ R a b := by
  intro l rs hf
  induction hf with
  | nil => intro a ha; simp at ha
  | cons hab _ ih =>
    intro a ha
    rcases mem_cons.mp ha with rfl | ha
    · exact ⟨_, by simp, hab⟩
    · obtain ⟨b, hb, hr⟩ := ih a ha
      exact ⟨b, by simp [hb], hr⟩

theorem forall₂_of_zip {α β : Type} {R : α → β → Prop} : ∀ {l : List α} {rs : List β},
    Forall₂ R l rs → ∀ p ∈ zip l rs, R p.1 p.2 := by
  intro l rs hf
  induction hf with
  | nil => intro p hp; simp at hp
  | cons hab _ ih =>
    intro p hp
    rw [zip_cons_cons] at hp
    rcases mem_cons.mp hp with rfl | hp
    · exact hab
    · exact ih p hp

-- ------------------------------------------------------------------ the pickup measure

/-- beat-only array whose onsets are on the grid: the pickup measure ends exactly where
    `create_divs_from_beats` has put beat 0 -/
theorem anacrusis_beat_only (a' : List ARow) (l : List (Int × Int × Int)) (d : Nat) (sh : Int) (hd : 0 < d)
    (hf : Forall₂ (fun (r : ARow) (x : Int × Int × Int) => (x.1 : Rat) = (d : Rat) * r.onsetBeat + (sh : Rat)) a' l)
    (hneg : ∃ r ∈ a', r.onsetBeat < 0) :
    anacrusisDivs false a' l d = sh := by
  have hdq : (0 : Rat) < (d : Rat) := by exact_mod_cast hd
  obtain ⟨r0, hr0, hr0neg⟩ := hneg
  obtain ⟨x0, hx0, _⟩ := forall₂_zip_left hf r0 hr0
  have hmem0 : (r0, x0) ∈ negRows a' l := by
    unfold negRows
    exact mem_filter.mpr ⟨hx0, by simpa using hr0neg⟩
  have hrel : ∀ p ∈ negRows a' l, (p.2.1 : Rat) = (d : Rat) * p.1.onsetBeat + (sh : Rat) := by
    intro p hp
    unfold negRows at hp
    exact forall₂_of_zip hf p (mem_filter.mp hp).1
  unfold anacrusisDivs
  cases hb : maxRatList ((negRows a' l).map (·.1.onsetBeat)) with
  | none =>
    have := maxRatList_none hb
    rw [map_eq_nil_iff] at this
    rw [this] at hmem0
    simp at hmem0
  | some b =>
    cases ho : maxList ((negRows a' l).map (·.2.1)) with
    | none =>
      have := maxList_none ho
      rw [map_eq_nil_iff] at this
      rw [this] at hmem0
      simp at hmem0
    | some od =>
      obtain ⟨hbm, hbub⟩ := maxRatList_spec _ _ hb
      obtain ⟨hom, houb⟩ := maxList_spec _ _ ho
      obtain ⟨pk, hpk, hpkb⟩ := mem_map.mp hbm
      obtain ⟨pj, hpj, hpjo⟩ := mem_map.mp hom
      have h1 : pk.2.1 ≤ od := houb _ (mem_map_of_mem (f := fun p : ARow × (Int × Int × Int) => p.2.1) hpk)
      have h2 : pj.1.onsetBeat ≤ b := hbub _ (mem_map_of_mem (f := fun p : ARow × (Int × Int × Int) => p.1.onsetBeat) hpj)
      have e1 := hrel pk hpk
      have e2 := hrel pj hpj
      have h1q : (pk.2.1 : Rat) ≤ (od : Rat) := by exact_mod_cast h1
      rw [← hpjo] at h1q
      rw [e1, e2, hpkb] at h1q
      have h3 : b ≤ pj.1.onsetBeat := by
        have : (d : Rat) * b ≤ (d : Rat) * pj.1.onsetBeat := by linarith
        exact le_of_mul_le_mul_left this hdq
      have hbe : pj.1.onsetBeat = b := le_antisymm h2 h3
      have hod : (od : Rat) = (d : Rat) * b + (sh : Rat) := by rw [← hpjo, e2, hbe]
      simp only [Bool.false_eq_true, ↓reduceIte]
      have : (od : Rat) + (0 - b) * (d : Rat) * (4 / 4) = ((sh : Int) : Rat) := by rw [hod]; ring
      rw [this]
      exact Round.roundHalfEven_int sh

theorem anacrusis_zero_of_nonneg (ht : Bool) (a' : List ARow) (l : List (Int × Int × Int)) (d : Nat)
    (h : ∀ r ∈ a', 0 ≤ r.onsetBeat) : anacrusisDivs ht a' l d = 0 := by
  have hn : negRows a' l = [] := by
    unfold negRows
    rw [filter_eq_nil_iff]
    intro p hp
    have := h p.1 (of_mem_zip hp).1
    simpa using this
  unfold anacrusisDivs
  rw [hn]
  rfl

-- ------------------------------------------------------------------ what comes back

theorem fromArrayBack_ok (hb hd ht : Bool) (a : List ARow) (dv : Option Nat) (ts : Option (Nat × Nat))
    (san : Bool) (b : Back) (h : fromArrayBack hb hd ht a dv ts san = .ok b) :
    ∃ l, fromArray hb hd ht a dv = .ok (b.divs, l) ∧
      b.anacrusis = (if hb then anacrusisDivs ht (sortArr hd a) l b.divs else 0) ∧
      b.m1 = firstMeasureEnd ts san b.anacrusis (partEnd l) b.divs ∧
      b.pick = pickupDivs ts b.m1 b.divs ∧
      b.notes = l.map fun x => (x, backTime ts b.pick b.divs x.1) := by
  unfold fromArrayBack at h
  split at h
  · cases h
  · rename_i d l heq
    cases h
    exact ⟨l, heq, rfl, rfl, rfl, rfl⟩

theorem backTime_fst (ts : Option (Nat × Nat)) (pick : Int) (d : Nat) (t : Int) :
    (backTime ts pick d t).1 = ((t - pick : Int) : Rat) / (d : Rat) := by
  unfold backTime
  cases ts <;> rfl

theorem backTime_snd (ts : Option (Nat × Nat)) (pick : Int) (d : Nat) (t : Int) :
    (backTime ts pick d t).2 = (backTime ts pick d t).1 *
      (match ts with | none => 1 | some s => (s.2 : Rat) / 4) := by
  unfold backTime
  cases ts with
  | none => simp
  | some s => rfl

theorem forall₂_imp_mem {α β : Type} {R S : α → β → Prop} : ∀ {l : List α} {rs : List β},
    Forall₂ R l rs → (∀ a ∈ l, ∀ b, R a b → S a b) → Forall₂ S l rs := by
  intro l rs hf
  induction hf with
  | nil => intro _; exact Forall₂.nil
  | cons hab _ ih =>
    intro h
    exact Forall₂.cons (h _ mem_cons_self _ hab) (ih fun a ha b hr => h a (mem_cons_of_mem _ ha) b hr)

/-- beats per quarter of the created part: 1 without a time signature -/
def beatFactor : Option (Nat × Nat) → Rat
  | none => 1
  | some s => (s.2 : Rat) / 4

theorem mem_beatRows (a : List ARow) (x : Rat × Rat) (hx : x ∈ beatRows a) :
    ∃ r ∈ a, x = (r.onsetBeat, r.durBeat) := by
  unfold beatRows at hx
  obtain ⟨r, hr, rfl⟩ := mem_map.mp hx
  exact ⟨r, (sortArr_perm false a).mem_iff.mp hr, rfl⟩

theorem beatRows_mem (a : List ARow) (r : ARow) (hr : r ∈ a) : (r.onsetBeat, r.durBeat) ∈ beatRows a := by
  unfold beatRows
  exact mem_map_of_mem (f := fun r : ARow => (r.onsetBeat, r.durBeat)) ((sortArr_perm false a).mem_iff.mpr hr)

/-- beat-only array on the 1/256 grid: everything `fromArrayBack` computes, in one place -/
theorem back_beat_core (ht : Bool) (a : List ARow) (ts : Option (Nat × Nat)) (san : Bool) (b : Back)
    (h : fromArrayBack true false ht a none ts san = .ok b)
    (hgrid : ∀ r ∈ a, r.onsetBeat.den ≤ 256) :
    ∃ l, 0 < b.divs ∧ b.divs = beatDivs (beatRows a) ∧
      Forall₂ (fun (r : ARow) (x : Int × Int × Int) =>
        (x.1 : Rat) = (b.divs : Rat) * r.onsetBeat + (beatShift (beatRows a) : Rat) ∧ x.2.2 = r.pitch)
        (sortArr false a) l ∧
      b.anacrusis = anacrusisDivs ht (sortArr false a) l b.divs ∧
      b.m1 = firstMeasureEnd ts san b.anacrusis (partEnd l) b.divs ∧
      b.pick = pickupDivs ts b.m1 b.divs ∧
      b.notes = l.map fun x => (x, backTime ts b.pick b.divs x.1) := by
  obtain ⟨l, hfa, hana, hm1, hpick, hnotes⟩ := fromArrayBack_ok true false ht a none ts san b h
  obtain ⟨hd, hf⟩ := fromArray_beat_shift ht a b.divs l hfa
  refine ⟨l, by rw [hd]; exact beatDivs_pos _, hd, ?_, by simpa using hana, hm1, hpick, hnotes⟩
  refine forall₂_imp_mem hf ?_
  intro r hr x hab
  have hr' := (sortArr_perm false a).mem_iff.mp hr
  rw [limitDen_of_den_le _ _ (hgrid r hr')] at hab
  exact ⟨hab.1, hab.2.2⟩

-- ------------------------------------------------------------------ arrays with division columns

/-- with division columns the notes of the new part are the triples of the sorted array, in order -/
theorem fromArray_div_eq (hb ht : Bool) (a : List ARow) (dv : Option Nat) (d : Nat)
    (l : List (Int × Int × Int)) (h : fromArray hb true ht a dv = .ok (d, l)) :
    l = (sortArr true a).map divTriple := by
  have key : ∀ d0, finish d0 ((sortArr true a).map divTriple) = .ok (d, l) →
      l = (sortArr true a).map divTriple := by
    intro d0 hf
    exact (finish_ok _ _ _ _ hf).2.1
  unfold fromArray at h
  split at h
  · cases h
  · split at h
    · cases h
    · simp only [Bool.not_true, Bool.false_eq_true, ↓reduceIte] at h
      split at h
      · split at h
        · cases h
        · split at h
          · cases h
          · exact key _ h
      · split at h
        · exact key _ h
        · split at h
          · cases h
          · exact key _ h

theorem maxList_const (l : List Int) (c : Int) (hne : l ≠ []) (h : ∀ x ∈ l, x = c) : maxList l = some c := by
  obtain ⟨m, hm⟩ := maxList_isSome hne
  rw [hm, h m (maxList_spec l m hm).1]

/-- an array whose division and beat columns agree (`onset_div = divisions × quarters + neg`: beat 0
    is `neg` divisions after time 0) and that has a negative beat: the pickup measure ends at `neg`.
    `bt` is the beat type (4 unless the array has time signature columns, then their common value). -/
theorem anacrusis_consistent (ht : Bool) (a' : List ARow) (l : List (Int × Int × Int)) (d : Nat)
    (bt neg : Int) (hd : 0 < d) (hbt : 0 < bt)
    (hf : Forall₂ (fun (r : ARow) (x : Int × Int × Int) =>
      (x.1 : Rat) = (d : Rat) * (r.onsetBeat * (4 / (bt : Rat))) + (neg : Rat)) a' l)
    (hcol : if ht then ∀ r ∈ a', r.tsBeatType = bt else bt = 4)
    (hneg : ∃ r ∈ a', r.onsetBeat < 0) :
    anacrusisDivs ht a' l d = neg := by
  have hdq : (0 : Rat) < (d : Rat) := by exact_mod_cast hd
  have hbq : (0 : Rat) < (bt : Rat) := by exact_mod_cast hbt
  have hc : (0 : Rat) < (d : Rat) * (4 / (bt : Rat)) := by positivity
  obtain ⟨r0, hr0, hr0neg⟩ := hneg
  obtain ⟨x0, hx0, _⟩ := forall₂_zip_left hf r0 hr0
  have hmem0 : (r0, x0) ∈ negRows a' l := by
    unfold negRows
    exact mem_filter.mpr ⟨hx0, by simpa using hr0neg⟩
  have hne : negRows a' l ≠ [] := fun e => by rw [e] at hmem0; simp at hmem0
  have hrel : ∀ p ∈ negRows a' l, (p.2.1 : Rat) = (d : Rat) * (p.1.onsetBeat * (4 / (bt : Rat))) + (neg : Rat) := by
    intro p hp
    unfold negRows at hp
    exact forall₂_of_zip hf p (mem_filter.mp hp).1
  have hmx : ht = true → maxList ((negRows a' l).map (·.1.tsBeatType)) = some bt := by
    intro e
    rw [e] at hcol
    simp only [↓reduceIte] at hcol
    apply maxList_const
    · simpa using hne
    · intro x hx
      obtain ⟨p, hp, rfl⟩ := mem_map.mp hx
      unfold negRows at hp
      exact hcol p.1 (of_mem_zip (mem_filter.mp hp).1).1
  unfold anacrusisDivs
  cases hb : maxRatList ((negRows a' l).map (·.1.onsetBeat)) with
  | none =>
    have := maxRatList_none hb
    rw [map_eq_nil_iff] at this
    exact absurd this hne
  | some b =>
    cases ho : maxList ((negRows a' l).map (·.2.1)) with
    | none =>
      have := maxList_none ho
      rw [map_eq_nil_iff] at this
      exact absurd this hne
    | some od =>
      obtain ⟨hbm, hbub⟩ := maxRatList_spec _ _ hb
      obtain ⟨hom, houb⟩ := maxList_spec _ _ ho
      obtain ⟨pk, hpk, hpkb⟩ := mem_map.mp hbm
      obtain ⟨pj, hpj, hpjo⟩ := mem_map.mp hom
      have h1 : pk.2.1 ≤ od := houb _ (mem_map_of_mem (f := fun p : ARow × (Int × Int × Int) => p.2.1) hpk)
      have h2 : pj.1.onsetBeat ≤ b := hbub _ (mem_map_of_mem (f := fun p : ARow × (Int × Int × Int) => p.1.onsetBeat) hpj)
      have e1 := hrel pk hpk
      have e2 := hrel pj hpj
      have h1q : (pk.2.1 : Rat) ≤ (od : Rat) := by exact_mod_cast h1
      rw [← hpjo] at h1q
      rw [e1, e2, hpkb] at h1q
      have h3 : b ≤ pj.1.onsetBeat := by
        have : ((d : Rat) * (4 / (bt : Rat))) * b ≤ ((d : Rat) * (4 / (bt : Rat))) * pj.1.onsetBeat := by
          have e : ∀ z : Rat, (d : Rat) * (z * (4 / (bt : Rat))) = ((d : Rat) * (4 / (bt : Rat))) * z := fun z => by ring
          rw [e, e] at h1q
          linarith
        exact le_of_mul_le_mul_left this hc
      have hbe : pj.1.onsetBeat = b := le_antisymm h2 h3
      have hod : (od : Rat) = (d : Rat) * (b * (4 / (bt : Rat))) + (neg : Rat) := by rw [← hpjo, e2, hbe]
      have key : (od : Rat) + (0 - b) * (d : Rat) * (4 / (bt : Rat)) = ((neg : Int) : Rat) := by rw [hod]; ring
      cases ht with
      | false =>
        simp only [Bool.false_eq_true, ↓reduceIte] at hcol ⊢
        subst hcol
        have e4 : (((4 : Int)) : Rat) = 4 := by norm_num
        rw [e4] at key
        rw [key]
        exact Round.roundHalfEven_int neg
      | true =>
        rw [hmx rfl]
        simp only [↓reduceIte]
        rw [key]
        exact Round.roundHalfEven_int neg

end NoteArray
