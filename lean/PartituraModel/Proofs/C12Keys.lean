/-
C12, round 6 — `key_name_to_fifths_mode` on EVERY string: the string algorithm of the source (two rotations of the
list of fifths, their reversals, four correction thresholds, the two-character test and the `"F"` test) computes one
closed form — position of the first letter on the line of fifths, minus three for a minor key, minus seven per flat
(when there is one) or plus seven per sharp.  Helper lemmas; the theorems are in Props/C12Keys.lean.
-/
import PartituraModel.Model.Conversions
import PartituraModel.Proofs.C12Bridge

namespace C12Keys
open Model Gen Gen.C12

/-- the part of `key_name_to_fifths_mode` after the tests on the string: same text as `keyNameToFifthsModeL` -/
def keyCore (fl : List String) (k0 : String) (hasM hasB len2 isF : Bool) (nb ns : Int) : Option (Int × Mode) :=
  if hasM then
    let sList := fl.drop 4 ++ fl.take 4
    match indexOf k0 sList with
    | none => none
    | some i =>
      if hasB || (len2 && i > 2) then
        (indexOf k0 sList.reverse).map fun j =>
          let idx : Int := j + 1
          let corr : Int := if idx > 4 then 1 else 0
          (-idx - 7 * (nb - corr), Mode.minor)
      else
        let idx : Int := i
        let corr : Int := if idx > 2 then 1 else 0
        some (idx + 7 * (ns - corr), Mode.minor)
  else
    let sList := fl.drop 1 ++ fl.take 1
    if hasB || isF then
      (indexOf k0 sList.reverse).map fun j =>
        let idx : Int := j + 1
        let corr : Int := if idx > 1 then 1 else 0
        (-idx - 7 * (nb - corr), Mode.major)
    else
      (indexOf k0 sList).map fun i =>
        let idx : Int := i
        let corr : Int := if idx > 5 then 1 else 0
        (idx + 7 * (ns - corr), Mode.major)

theorem keyNameL_core (fl : List String) (name : String) :
    keyNameToFifthsModeL fl name = match name.toList with
      | [] => none
      | c0 :: _ => keyCore fl (String.ofList [c0]) (name.toList.contains 'm') (name.toList.contains 'b')
          (name.toList.length == 2) (name == "F") (countChar 'b' name) (countChar '#' name) := by
  unfold keyNameToFifthsModeL keyCore
  cases name.toList <;> rfl

/-- the closed form of the core: line-of-fifths position, minor shift, accidentals -/
def coreValue (fl : List String) (k0 : String) (hasM hasB : Bool) (nb ns : Int) : Option (Int × Mode) :=
  (indexOf k0 fl).map fun (i : Nat) =>
    ((i : Int) - 1 - (if hasM then 3 else 0) + (if hasB then -7 * nb else 7 * ns),
      if hasM then Mode.minor else Mode.major)

/-- the core computes the closed form over the regenerated list of fifths, whatever the first letter, under the
    three facts that tie the flags of one string together -/
theorem keyCore_value (k0 : String) (hasM hasB len2 isF : Bool) (nb ns : Int)
    (hF : isF = true → nb = 0 ∧ ns = 0 ∧ hasM = false)
    (h2 : len2 = true → hasM = true → (indexOf k0 k2fFifthsList).isSome → ns = 0)
    (hB : hasB = false → nb = 0) :
    keyCore k2fFifthsList k0 hasM hasB len2 isF nb ns = coreValue k2fFifthsList k0 hasM hasB nb ns := by
  have hfl : k2fFifthsList = ["F", "C", "G", "D", "A", "E", "B"] := rfl
  rw [hfl] at h2 ⊢
  by_cases e1 : k0 = "F"
  · subst e1
    cases hasM <;> cases hasB <;> cases len2 <;> cases isF <;>
      simp [keyCore, coreValue, indexOf] at hF h2 hB ⊢ <;> omega
  by_cases e2 : k0 = "C"
  · subst e2
    cases hasM <;> cases hasB <;> cases len2 <;> cases isF <;>
      simp [keyCore, coreValue, indexOf] at hF h2 hB ⊢ <;> omega
  by_cases e3 : k0 = "G"
  · subst e3
    cases hasM <;> cases hasB <;> cases len2 <;> cases isF <;>
      simp [keyCore, coreValue, indexOf] at hF h2 hB ⊢ <;> omega
  by_cases e4 : k0 = "D"
  · subst e4
    cases hasM <;> cases hasB <;> cases len2 <;> cases isF <;>
      simp [keyCore, coreValue, indexOf] at hF h2 hB ⊢ <;> omega
  by_cases e5 : k0 = "A"
  · subst e5
    cases hasM <;> cases hasB <;> cases len2 <;> cases isF <;>
      simp [keyCore, coreValue, indexOf] at hF h2 hB ⊢ <;> omega
  by_cases e6 : k0 = "E"
  · subst e6
    cases hasM <;> cases hasB <;> cases len2 <;> cases isF <;>
      simp [keyCore, coreValue, indexOf] at hF h2 hB ⊢ <;> omega
  by_cases e7 : k0 = "B"
  · subst e7
    cases hasM <;> cases hasB <;> cases len2 <;> cases isF <;>
      simp [keyCore, coreValue, indexOf] at hF h2 hB ⊢ <;> omega
  · have n1 : ¬ "F" = k0 := fun h => e1 h.symm
    have n2 : ¬ "C" = k0 := fun h => e2 h.symm
    have n3 : ¬ "G" = k0 := fun h => e3 h.symm
    have n4 : ¬ "D" = k0 := fun h => e4 h.symm
    have n5 : ¬ "A" = k0 := fun h => e5 h.symm
    have n6 : ¬ "E" = k0 := fun h => e6 h.symm
    have n7 : ¬ "B" = k0 := fun h => e7 h.symm
    cases hasM <;> cases hasB <;> cases isF <;> simp [keyCore, coreValue, indexOf, n1, n2, n3, n4, n5, n6, n7]

end C12Keys
