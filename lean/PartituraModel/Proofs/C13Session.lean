/-
C13, round 3 — helper lemmas for `Props/C13Session.lean`: two stores whose objects are pairwise read the same way
bind every keyword to values that resolve the same way.
-/
import PartituraModel.Proofs.C13Args
import PartituraModel.Model.PianoRollSession

namespace C13
open Model Model.PianoRoll
open List

/-- two argument objects that every call reads the same way -/
def ArgObj.Equiv (o o' : ArgObj) : Prop :=
  resolveTimeDiv (some o.asTimeDiv) = resolveTimeDiv (some o'.asTimeDiv) ∧
  o.asTimeMargin = o'.asTimeMargin ∧
  resolveEndTime (some o.asEndTime) = resolveEndTime (some o'.asEndTime)

/-- the stores hold pairwise equivalent objects -/
def StoreEquiv : Store → Store → Prop
  | [], [] => True
  | o :: st, o' :: st' => ArgObj.Equiv o o' ∧ StoreEquiv st st'
  | _, _ => False

theorem StoreEquiv.get {st st' : Store} (h : StoreEquiv st st') (i : Nat) :
    (st[i]? = none ∧ st'[i]? = none) ∨ ∃ o o', st[i]? = some o ∧ st'[i]? = some o' ∧ ArgObj.Equiv o o' := by
  induction st generalizing st' i with
  | nil =>
    cases st' with
    | nil => exact Or.inl ⟨rfl, rfl⟩
    | cons _ _ => exact absurd h (by simp [StoreEquiv])
  | cons o st ih =>
    cases st' with
    | nil => exact absurd h (by simp [StoreEquiv])
    | cons o' st' =>
      obtain ⟨ho, hs⟩ := h
      cases i with
      | zero => exact Or.inr ⟨o, o', rfl, rfl, ho⟩
      | succ i => simpa using ih hs i

/-- a keyword bound in two equivalent stores: both calls are outside the model, or both see a value, and the two
    values are equal or (when bound by address) read the same way -/
theorem bindArg_equiv {α : Type} {st st' : Store} (h : StoreEquiv st st') (f : ArgObj → Option α) (R : α → α → Prop)
    (hf : ∀ o o', ArgObj.Equiv o o' → (f o = none ∧ f o' = none) ∨ ∃ x x', f o = some x ∧ f o' = some x' ∧ R x x')
    (a : Option Nat) (dflt : Option α) :
    (bindArg st a f dflt = none ∧ bindArg st' a f dflt = none) ∨
    (∃ x, bindArg st a f dflt = some x ∧ bindArg st' a f dflt = some x) ∨
    (∃ x x', bindArg st a f dflt = some (some x) ∧ bindArg st' a f dflt = some (some x') ∧ R x x') := by
  cases a with
  | none => exact Or.inr (Or.inl ⟨dflt, rfl, rfl⟩)
  | some i =>
    rcases h.get i with ⟨h1, h2⟩ | ⟨o, o', h1, h2, ho⟩
    · left; simp only [bindArg, h1, h2, and_self]
    · rcases hf o o' ho with ⟨h3, h4⟩ | ⟨x, x', h3, h4, hr⟩
      · left; simp only [bindArg, h1, h2, h3, h4, and_self]
      · right; right; exact ⟨x, x', by simp only [bindArg, h1, h3], by simp only [bindArg, h2, h4], hr⟩

theorem cpk_congr (kind : String) (a : NoteArray) (kw kw' : KwArgs)
    (h1 : kw.timeUnit = kw'.timeUnit) (h2 : kw.onsetOnly = kw'.onsetOnly) (h3 : kw.noteSep = kw'.noteSep)
    (h4 : kw.pitchMargin = kw'.pitchMargin) (h5 : kw.timeMargin = kw'.timeMargin) (h6 : kw.returnIdxs = kw'.returnIdxs)
    (h7 : kw.pianoRange = kw'.pianoRange) (h8 : kw.removeDrums = kw'.removeDrums)
    (h9 : kw.removeSilence = kw'.removeSilence) (h10 : kw.binary = kw'.binary)
    (htd : resolveTimeDiv kw.timeDiv = resolveTimeDiv kw'.timeDiv)
    (het : resolveEndTime kw.endTime = resolveEndTime kw'.endTime) :
    computePianorollKw kind a kw = computePianorollKw kind a kw' := by
  unfold computePianorollKw resolveArgs
  simp only [h1, h2, h3, h4, h5, h6, h7, h8, h9, h10, htd, het]

/-- what two equivalent stores make of the three bound keywords -/
theorem binds_equiv {st st' : Store} (h : StoreEquiv st st') (td tm et : Option Nat)
    (dtd : Option TimeDivArg) (dtm : Option Rat) (det : Option EndTimeArg) :
    ((bindArg st td (fun o => some o.asTimeDiv) dtd = none ∨ bindArg st tm ArgObj.asTimeMargin dtm = none ∨
        bindArg st et (fun o => some o.asEndTime) det = none) ∧
      (bindArg st' td (fun o => some o.asTimeDiv) dtd = none ∨ bindArg st' tm ArgObj.asTimeMargin dtm = none ∨
        bindArg st' et (fun o => some o.asEndTime) det = none)) ∨
    ∃ x x' m e e',
      bindArg st td (fun o => some o.asTimeDiv) dtd = some x ∧ bindArg st' td (fun o => some o.asTimeDiv) dtd = some x' ∧
      bindArg st tm ArgObj.asTimeMargin dtm = some m ∧ bindArg st' tm ArgObj.asTimeMargin dtm = some m ∧
      bindArg st et (fun o => some o.asEndTime) det = some e ∧ bindArg st' et (fun o => some o.asEndTime) det = some e' ∧
      (x = x' ∨ ∃ t t', x = some t ∧ x' = some t' ∧ resolveTimeDiv (some t) = resolveTimeDiv (some t')) ∧
      (e = e' ∨ ∃ t t', e = some t ∧ e' = some t' ∧ resolveEndTime (some t) = resolveEndTime (some t')) := by
  have Htd := bindArg_equiv h (fun o => some o.asTimeDiv)
    (fun t t' => resolveTimeDiv (some t) = resolveTimeDiv (some t'))
    (fun o o' ho => Or.inr ⟨_, _, rfl, rfl, ho.1⟩) td dtd
  have Htm := bindArg_equiv h ArgObj.asTimeMargin (fun t t' => t = t')
    (fun o o' ho => by
      have := ho.2.1
      cases hx : o.asTimeMargin with
      | none => exact Or.inl ⟨rfl, by rw [← this, hx]⟩
      | some x => exact Or.inr ⟨x, x, rfl, by rw [← this, hx], rfl⟩) tm dtm
  have Het := bindArg_equiv h (fun o => some o.asEndTime)
    (fun t t' => resolveEndTime (some t) = resolveEndTime (some t'))
    (fun o o' ho => Or.inr ⟨_, _, rfl, rfl, ho.2.2⟩) et det
  rcases Htd with ⟨a1, a2⟩ | Htd
  · exact Or.inl ⟨Or.inl a1, Or.inl a2⟩
  rcases Htm with ⟨b1, b2⟩ | Htm
  · exact Or.inl ⟨Or.inr (Or.inl b1), Or.inr (Or.inl b2)⟩
  rcases Het with ⟨c1, c2⟩ | Het
  · exact Or.inl ⟨Or.inr (Or.inr c1), Or.inr (Or.inr c2)⟩
  right
  have Ptd : ∃ x x', bindArg st td (fun o => some o.asTimeDiv) dtd = some x ∧
      bindArg st' td (fun o => some o.asTimeDiv) dtd = some x' ∧
      (x = x' ∨ ∃ t t', x = some t ∧ x' = some t' ∧ resolveTimeDiv (some t) = resolveTimeDiv (some t')) := by
    rcases Htd with ⟨x, a1, a2⟩ | ⟨t, t', a1, a2, hr⟩
    · exact ⟨x, x, a1, a2, Or.inl rfl⟩
    · exact ⟨_, _, a1, a2, Or.inr ⟨t, t', rfl, rfl, hr⟩⟩
  have Ptm : ∃ m, bindArg st tm ArgObj.asTimeMargin dtm = some m ∧ bindArg st' tm ArgObj.asTimeMargin dtm = some m := by
    rcases Htm with ⟨x, a1, a2⟩ | ⟨t, t', a1, a2, hr⟩
    · exact ⟨x, a1, a2⟩
    · subst hr; exact ⟨_, a1, a2⟩
  have Pet : ∃ e e', bindArg st et (fun o => some o.asEndTime) det = some e ∧
      bindArg st' et (fun o => some o.asEndTime) det = some e' ∧
      (e = e' ∨ ∃ t t', e = some t ∧ e' = some t' ∧ resolveEndTime (some t) = resolveEndTime (some t')) := by
    rcases Het with ⟨x, a1, a2⟩ | ⟨t, t', a1, a2, hr⟩
    · exact ⟨x, x, a1, a2, Or.inl rfl⟩
    · exact ⟨_, _, a1, a2, Or.inr ⟨t, t', rfl, rfl, hr⟩⟩
  obtain ⟨x, x', a1, a2, a3⟩ := Ptd
  obtain ⟨m, b1, b2⟩ := Ptm
  obtain ⟨e, e', c1, c2, c3⟩ := Pet
  exact ⟨x, x', m, e, e', a1, a2, b1, b2, c1, c2, a3, c3⟩

theorem derefKw_none {st : Store} {r : KwRef}
    (h : bindArg st r.td (fun o => some o.asTimeDiv) r.kw.timeDiv = none ∨
      bindArg st r.tm ArgObj.asTimeMargin r.kw.timeMargin = none ∨
      bindArg st r.et (fun o => some o.asEndTime) r.kw.endTime = none) : derefKw st r = none := by
  unfold derefKw
  rcases h with h | h | h
  · rw [h]
  · rw [h]; split <;> simp_all
  · rw [h]; split <;> simp_all

theorem derefPc_none {st : Store} {r : PcRef}
    (h : bindArg st r.td (fun o => some o.asTimeDiv) r.kw.timeDiv = none ∨
      bindArg st r.tm ArgObj.asTimeMargin r.kw.timeMargin = none ∨
      bindArg st r.et (fun o => some o.asEndTime) r.kw.endTime = none) : derefPc st r = none := by
  unfold derefPc
  rcases h with h | h | h
  · rw [h]
  · rw [h]; split <;> simp_all
  · rw [h]; split <;> simp_all

theorem resolve_of_rel_td {x x' : Option TimeDivArg}
    (h : x = x' ∨ ∃ t t', x = some t ∧ x' = some t' ∧ resolveTimeDiv (some t) = resolveTimeDiv (some t')) :
    resolveTimeDiv x = resolveTimeDiv x' := by
  rcases h with rfl | ⟨t, t', rfl, rfl, h⟩
  · rfl
  · exact h

theorem resolve_of_rel_et {e e' : Option EndTimeArg}
    (h : e = e' ∨ ∃ t t', e = some t ∧ e' = some t' ∧ resolveEndTime (some t) = resolveEndTime (some t')) :
    resolveEndTime e = resolveEndTime e' := by
  rcases h with rfl | ⟨t, t', rfl, rfl, h⟩
  · rfl
  · exact h

end C13
