/-
C03 helper lemmas: reading back what `mergeWithVoice` / `mergeMeasure` / `linearize` wrote.
The reader (`runEvs`, both the MusicXML semantics and the importer's) stays in step with the
writer's `(last_t, last_note_onset)` bookkeeping.
-/
import PartituraModel.Model.XmlMeasure
import PartituraModel.Proofs.C03Sort
import Mathlib.Tactic.Linarith

namespace C03.Reader
open Model.Xml C03.Sort

/-! ### the order on items -/

theorem itemLt_true {a b : Item} :
    itemLt a b = true ↔ a.onset < b.onset ∨ (a.onset = b.onset ∧ a.order < b.order) := by
  simp [itemLt]

theorem itemLt_false {a b : Item} :
    itemLt a b = false ↔ ¬ (a.onset < b.onset ∨ (a.onset = b.onset ∧ a.order < b.order)) := by
  rw [← itemLt_true]; simp

theorem itemLt_strictWeak : StrictWeak itemLt where
  asymm a b h := by
    rw [itemLt_true] at h; rw [itemLt_false]; omega
  negtrans a b c h1 h2 := by
    rw [itemLt_false] at *; omega

/-! ### running the reader -/

theorem runEvs_append (spec : Bool) (st : Nat) (s : RState) (a b : List Ev) :
    runEvs spec st s (a ++ b) = (runEvs spec st s a).bind fun s' => runEvs spec st s' b := by
  induction a generalizing s with
  | nil => simp [runEvs]
  | cons e es ih =>
    simp only [List.cons_append, runEvs]
    cases h : stepEv spec st s e with
    | none => simp
    | some s' => simp [ih]

/-- what a placed note reads back as -/
abbrev toOut (p : Placed) : NoteOut := p.out

/-- `forward_backup_if_needed` brings the reader from `tPrev` to `t` -/
theorem run_fb (spec : Bool) (st t tPrev : Nat) (s : RState) (hp : s.pos = tPrev) (ht : st ≤ t) :
    runEvs spec st s ((fb t tPrev).map (·.ev)) =
      some { s with pos := t, maxt := if t = tPrev then s.maxt else max s.maxt t } := by
  unfold fb
  by_cases h1 : tPrev < t
  · simp only [h1, if_true, List.map_cons, List.map_nil, runEvs, stepEv, Option.bind_some]
    have : t ≠ tPrev := by omega
    simp only [this, if_false]
    congr 2 <;> omega
  · by_cases h2 : t < tPrev
    · simp only [h1, h2, if_true, if_false, List.map_cons, List.map_nil, runEvs, stepEv, Option.bind_some]
      have hne : t ≠ tPrev := by omega
      have hclamp : ¬ (s.pos < st + (tPrev - t)) := by omega
      simp only [hne, hclamp, if_false]
      congr 2 <;> omega
    · have : t = tPrev := by omega
      subst this
      simp only [h1, if_false, List.map_nil, runEvs, if_true]
      cases s; simp_all

/-! ### one merged stream -/

@[simp] theorem onset_note (p : Placed) : (Item.note p).onset = p.onset := rfl
@[simp] theorem order_note (p : Placed) : (Item.note p).order = 6 := rfl
@[simp] theorem onset_other (o : OtherIn) : (Item.other o).onset = o.onset := rfl
@[simp] theorem order_other (o : OtherIn) : (Item.other o).order = o.order := rfl

def keyGe (it : Item) (t : Nat) : Prop := t < it.onset ∨ (t = it.onset ∧ 6 ≤ it.order)
def keyGt (it : Item) (t : Nat) : Prop := t < it.onset ∨ (t = it.onset ∧ 6 < it.order)

/-- an item lies inside the measure `[st, B]`; a grace note has no duration; no non-note element carries
    the rank of notes -/
def ItemOK (st B : Nat) : Item → Prop
  | .note p => st ≤ p.onset ∧ p.onset + p.dur ≤ B ∧ (p.grace = true → p.dur = 0)
  | .other o => st ≤ o.onset ∧ o.onset ≤ B ∧ o.order ≠ 6

/-- every `<chord/>` note directly follows (among the notes) a note with its onset and duration -/
def ChordOK : Option (Nat × Nat) → List Item → Prop
  | _, [] => True
  | prevN, .note p :: r => (p.chord = true → prevN = some (p.onset, p.dur)) ∧ ChordOK (some (p.onset, p.dur)) r
  | prevN, .other _ :: r => ChordOK prevN r

def finalT : Nat → List Item → Nat
  | t, [] => t
  | _, .note p :: r => finalT (p.onset + p.dur) r
  | _, .other o :: r => finalT o.onset r

def notesOf : List Item → List Placed
  | [] => []
  | .note p :: r => p :: notesOf r
  | .other _ :: r => notesOf r

theorem run_placeItems (spec : Bool) (st B : Nat) :
    ∀ (items : List Item) (lastT lno : Nat) (last : Option Item) (prevN : Option (Nat × Nat)) (s : RState),
      SortedBy itemLt items →
      (∀ l, last = some l → ∀ it ∈ items, itemLt it l = false) →
      ChordOK prevN items → (∀ it ∈ items, ItemOK st B it) →
      s.pos = lastT → s.pos ≤ s.maxt → s.maxt ≤ B → st ≤ lastT →
      (∀ t d, prevN = some (t, d) → s.prev = some (t, d) ∧ lno = t ∧
          ∃ l, last = some l ∧ keyGe l t ∧ (lastT = t + d ∨ keyGt l t)) →
      ∃ s', runEvs spec st s ((placeItems lastT lno items).map (·.ev)) = some s' ∧
        s'.out = ((notesOf items).map toOut).reverse ++ s.out ∧
        s'.pos = finalT lastT items ∧ s'.pos ≤ s'.maxt ∧ s'.maxt ≤ B ∧ s.maxt ≤ s'.maxt ∧ st ≤ s'.pos := by
  intro items
  induction items with
  | nil =>
    intro lastT lno last prevN s _ _ _ _ hpos hle hB hst _
    exact ⟨s, by simp [placeItems, runEvs], by simp [notesOf], by simp [finalT, hpos], hle, hB, Nat.le_refl _, by omega⟩
  | cons x rest ih =>
    intro lastT lno last prevN s hsorted hlast hchord hok hpos hle hB hst hinv
    have hrestSorted : SortedBy itemLt rest := (List.pairwise_cons.mp hsorted).2
    have hrestGe : ∀ y ∈ rest, itemLt y x = false := (List.pairwise_cons.mp hsorted).1
    have hokRest : ∀ it ∈ rest, ItemOK st B it := fun it h => hok it (List.mem_cons_of_mem _ h)
    cases x with
    | note p =>
      obtain ⟨hst_p, hB_p, hgrace⟩ : st ≤ p.onset ∧ p.onset + p.dur ≤ B ∧ (p.grace = true → p.dur = 0) :=
        hok (.note p) (List.mem_cons_self ..)
      obtain ⟨hc, hchordRest⟩ := hchord
      have hd : (if p.grace = true then 0 else p.dur) = p.dur := by
        by_cases hg : p.grace = true
        · simp [hg, hgrace hg]
        · simp [hg]
      by_cases hch : p.chord = true
      · -- a chord note: the reader sits right behind the note it belongs to
        obtain ⟨hprev, hlno, l, hl, _, hadj⟩ := hinv p.onset p.dur (hc hch)
        have hadj' : lastT = p.onset + p.dur := by
          rcases hadj with h | h
          · exact h
          · have := hlast l hl (.note p) (List.mem_cons_self ..)
            rw [itemLt_false] at this
            unfold keyGt at h
            simp only [onset_note, order_note] at this
            omega
        let s1 : RState :=
          { pos := p.onset + p.dur, prev := some (p.onset, p.dur), maxt := max s.maxt (p.onset + p.dur),
            out := toOut p :: s.out }
        have hstep : runEvs spec st s ((placeItems lastT lno (.note p :: rest)).map (·.ev)) =
            runEvs spec st s1 ((placeItems (p.onset + p.dur) p.onset rest).map (·.ev)) := by
          simp only [placeItems, hch, if_true, hlno, fb, Nat.lt_irrefl, if_false, List.nil_append, List.map_cons,
            runEvs, Placed.ev, stepEv, hprev]
          cases spec
          · simp only [Bool.false_eq_true, if_false, Option.bind_some]
            rfl
          · simp only [if_true, hd, Option.bind_some]
            have : s.pos = p.onset + p.dur := by omega
            simp only [this]
            rfl
        obtain ⟨s', hrun, hout, hfin, hle', hB', hmax', hst'⟩ :=
          ih (p.onset + p.dur) p.onset (some (.note p)) (some (p.onset, p.dur)) s1 hrestSorted
            (by intro l hl it hit; cases hl; exact hrestGe it hit) hchordRest hokRest rfl
            (by simp [s1]) (by simp only [s1]; omega) (by omega)
            (by
              intro t d htd
              cases htd
              exact ⟨rfl, rfl, .note p, rfl, by simp [keyGe], Or.inl rfl⟩)
        refine ⟨s', by rw [hstep, hrun], ?_, ?_, hle', hB', ?_, hst'⟩
        · rw [hout]; simp [notesOf, s1]
        · rw [hfin]; simp [finalT]
        · have : s.maxt ≤ s1.maxt := by simp [s1]
          omega
      · -- an ordinary note: forward/backup to its onset, then the note
        have hch' : p.chord = false := by simpa using hch
        let s0 : RState := { s with pos := p.onset, maxt := if p.onset = lastT then s.maxt else max s.maxt p.onset }
        let s1 : RState :=
          { pos := p.onset + p.dur, prev := some (p.onset, p.dur), maxt := max s0.maxt (p.onset + p.dur),
            out := toOut p :: s.out }
        have hs0 : s0.maxt ≤ B ∧ s.maxt ≤ s0.maxt := by
          simp only [s0]; split <;> constructor <;> omega
        have hstep : runEvs spec st s ((placeItems lastT lno (.note p :: rest)).map (·.ev)) =
            runEvs spec st s1 ((placeItems (p.onset + p.dur) p.onset rest).map (·.ev)) := by
          simp only [placeItems, hch', Bool.false_eq_true, if_false, List.map_append, List.map_cons]
          rw [runEvs_append, run_fb spec st p.onset lastT s hpos hst_p]
          simp only [Option.bind_some, runEvs, Placed.ev, stepEv, hch', Bool.false_eq_true, if_false]
          have hd' : (if (spec && p.grace) = true then 0 else p.dur) = p.dur := by
            by_cases hg : p.grace = true
            · simp [hg, hgrace hg]
            · simp [hg]
          simp only [hd', Option.bind_some]
          rfl
        obtain ⟨s', hrun, hout, hfin, hle', hB', hmax', hst'⟩ :=
          ih (p.onset + p.dur) p.onset (some (.note p)) (some (p.onset, p.dur)) s1 hrestSorted
            (by intro l hl it hit; cases hl; exact hrestGe it hit) hchordRest hokRest rfl
            (by simp [s1]) (by simp only [s1]; omega) (by omega)
            (by
              intro t d htd
              cases htd
              exact ⟨rfl, rfl, .note p, rfl, by simp [keyGe], Or.inl rfl⟩)
        refine ⟨s', by rw [hstep, hrun], ?_, ?_, hle', hB', ?_, hst'⟩
        · rw [hout]; simp [notesOf, s1]
        · rw [hfin]; simp [finalT]
        · have : s0.maxt ≤ s1.maxt := by simp [s1]
          omega
    | other o =>
      obtain ⟨hst_o, hB_o, hord⟩ : st ≤ o.onset ∧ o.onset ≤ B ∧ o.order ≠ 6 := hok (.other o) (List.mem_cons_self ..)
      let s0 : RState := { s with pos := o.onset, maxt := if o.onset = lastT then s.maxt else max s.maxt o.onset }
      have hs0 : s0.maxt ≤ B ∧ s.maxt ≤ s0.maxt ∧ s0.pos ≤ s0.maxt := by
        simp only [s0]; split <;> refine ⟨?_, ?_, ?_⟩ <;> omega
      have hstep : runEvs spec st s ((placeItems lastT lno (.other o :: rest)).map (·.ev)) =
          runEvs spec st s0 ((placeItems o.onset lno rest).map (·.ev)) := by
        simp only [placeItems, List.map_append, List.map_cons]
        rw [runEvs_append, run_fb spec st o.onset lastT s hpos hst_o]
        simp only [Option.bind_some, runEvs, stepEv]
        rfl
      obtain ⟨s', hrun, hout, hfin, hle', hB', hmax', hst'⟩ :=
        ih o.onset lno (some (.other o)) prevN s0 hrestSorted
          (by intro l hl it hit; cases hl; exact hrestGe it hit) hchord hokRest rfl hs0.2.2 hs0.1 hst_o
          (by
            intro t d htd
            obtain ⟨hprev, hlno, l, hl, hge, _⟩ := hinv t d htd
            have hol := hlast l hl (.other o) (List.mem_cons_self ..)
            rw [itemLt_false] at hol
            have hgt : keyGt (.other o) t := by
              unfold keyGe at hge
              unfold keyGt
              simp only [onset_other, order_other] at hol ⊢
              omega
            refine ⟨hprev, hlno, .other o, rfl, ?_, Or.inr hgt⟩
            unfold keyGt at hgt; unfold keyGe; omega)
      refine ⟨s', by rw [hstep, hrun], ?_, ?_, hle', hB', by omega, hst'⟩
      · rw [hout]; simp [notesOf, s0]
      · rw [hfin]; simp [finalT]

/-! ### `merge_with_voice` -/

/-- `ChordOK` on the notes alone -/
def ChordOKP : Option (Nat × Nat) → List Placed → Prop
  | _, [] => True
  | prevN, p :: r => (p.chord = true → prevN = some (p.onset, p.dur)) ∧ ChordOKP (some (p.onset, p.dur)) r

theorem chordOK_iff (prevN : Option (Nat × Nat)) (items : List Item) :
    ChordOK prevN items ↔ ChordOKP prevN (notesOf items) := by
  induction items generalizing prevN with
  | nil => simp [ChordOK, ChordOKP, notesOf]
  | cons x rest ih =>
    cases x with
    | note p => simp [ChordOK, ChordOKP, notesOf, ih]
    | other o => simp [ChordOK, notesOf, ih]

theorem notesOf_filter (l : List Item) : notesOf (l.filter Item.isNote) = notesOf l := by
  induction l with
  | nil => rfl
  | cons x rest ih => cases x <;> simp [List.filter, Item.isNote, notesOf, ih]

theorem notesOf_map_note (A : List Placed) : notesOf (A.map Item.note) = A := by
  induction A with
  | nil => rfl
  | cons p r ih => simp [notesOf, ih]

theorem filter_isNote (A : List Placed) (O : List OtherIn) :
    (A.map Item.note ++ O.map Item.other).filter Item.isNote = A.map Item.note := by
  rw [List.filter_append]
  have h1 : (A.map Item.note).filter Item.isNote = A.map Item.note := by
    apply List.filter_eq_self.mpr; intro x hx; obtain ⟨p, _, rfl⟩ := List.mem_map.mp hx; rfl
  have h2 : (O.map Item.other).filter Item.isNote = [] := by
    apply List.filter_eq_nil_iff.mpr; intro x hx; obtain ⟨o, _, rfl⟩ := List.mem_map.mp hx; simp [Item.isNote]
  rw [h1, h2, List.append_nil]

/-- notes ordered by onset -/
def OnsetSorted (A : List Placed) : Prop := A.Pairwise (fun a b => a.onset ≤ b.onset)

theorem sortedBy_map_note {A : List Placed} (h : OnsetSorted A) : SortedBy itemLt (A.map Item.note) := by
  unfold SortedBy
  rw [List.pairwise_map]
  refine h.imp ?_
  intro a b hab
  rw [itemLt_false]; simp; omega

/-- the merged order keeps the notes of a voice in their order -/
theorem notesOf_merged {A : List Placed} (O : List OtherIn) (h : OnsetSorted A) :
    notesOf (isortBy itemLt (A.map Item.note ++ O.map Item.other)) = A := by
  rw [← notesOf_filter, filter_isortBy itemLt_strictWeak, filter_isNote,
    isortBy_of_sorted (sortedBy_map_note h), notesOf_map_note]

/-- where a voice's notes and the other elements must lie -/
def PlacedOK (st B : Nat) (p : Placed) : Prop := st ≤ p.onset ∧ p.onset + p.dur ≤ B ∧ (p.grace = true → p.dur = 0)
def OtherOK (st B : Nat) (o : OtherIn) : Prop := st ≤ o.onset ∧ o.onset ≤ B ∧ o.order ≠ 6

theorem getLast?_app_cons {α : Type} (a : List α) (b : α) (c : List α) :
    (a ++ b :: c).getLast? = if c = [] then some b else c.getLast? := by
  rw [List.getLast?_append]
  cases c with
  | nil => simp
  | cons x xs =>
    have : (b :: x :: xs).getLast? = some ((x :: xs).getLast (by simp)) := by
      rw [List.getLast?_cons_cons, List.getLast?_eq_some_getLast]
    rw [this, List.getLast?_eq_some_getLast (by simp : x :: xs ≠ [])]
    simp

theorem placeItems_ne_nil (items : List Item) (lastT lno : Nat) (h : items ≠ []) :
    placeItems lastT lno items ≠ [] := by
  cases items with
  | nil => exact absurd rfl h
  | cons x rest => cases x <;> simp [placeItems]

theorem getLast_placeItems : ∀ (items : List Item) (lastT lno : Nat), items ≠ [] →
    ∃ o, (placeItems lastT lno items).getLast? = some o ∧ o.after = finalT lastT items := by
  intro items
  induction items with
  | nil => intro _ _ h; exact absurd rfl h
  | cons x rest ih =>
    intro lastT lno _
    cases x with
    | note p =>
      simp only [placeItems, finalT, getLast?_app_cons]
      by_cases hr : rest = []
      · subst hr
        exact ⟨{ onset := p.onset, after := p.onset + p.dur, ev := p.ev }, by simp [placeItems], by simp [finalT]⟩
      · obtain ⟨o, ho, hfin⟩ := ih (p.onset + p.dur) p.onset hr
        exact ⟨o, by simp [placeItems_ne_nil _ _ _ hr, ho], hfin⟩
    | other o' =>
      simp only [placeItems, finalT, getLast?_app_cons]
      by_cases hr : rest = []
      · subst hr
        exact ⟨{ onset := o'.onset, after := o'.onset, ev := Ev.other o'.order o'.sig }, by simp [placeItems],
          by simp [finalT]⟩
      · obtain ⟨o, ho, hfin⟩ := ih o'.onset lno hr
        exact ⟨o, by simp [placeItems_ne_nil _ _ _ hr, ho], hfin⟩

/-- the first element of a merged stream is where the stream was told to start -/
theorem head_placeItems (items : List Item) (t : Nat) (e : Out) (r : List Out)
    (h : placeItems t t items = e :: r) : e.onset = t := by
  cases items with
  | nil => simp [placeItems] at h
  | cons x rest =>
    cases x with
    | note p =>
      simp only [placeItems, ite_self] at h
      unfold fb at h
      by_cases h1 : t < p.onset
      · simp only [h1, if_true, List.cons_append, List.nil_append, List.cons.injEq] at h
        rw [← h.1]
      · by_cases h2 : p.onset < t
        · simp only [h1, h2, if_true, if_false, List.cons_append, List.nil_append, List.cons.injEq] at h
          rw [← h.1]
        · simp only [h1, h2, if_false, List.nil_append, List.cons.injEq] at h
          rw [← h.1]; simp; omega
    | other o =>
      simp only [placeItems] at h
      unfold fb at h
      by_cases h1 : t < o.onset
      · simp only [h1, if_true, List.cons_append, List.nil_append, List.cons.injEq] at h
        rw [← h.1]
      · by_cases h2 : o.onset < t
        · simp only [h1, h2, if_true, if_false, List.cons_append, List.nil_append, List.cons.injEq] at h
          rw [← h.1]
        · simp only [h1, h2, if_false, List.nil_append, List.cons.injEq] at h
          rw [← h.1]; simp; omega

theorem lastAfter_ne_nil (a b : Nat) (l : List Out) (h : l ≠ []) : lastAfter a l = lastAfter b l := by
  unfold lastAfter
  rw [List.getLast?_eq_some_getLast h]

theorem isortBy_eq_nil {α : Type} (lt : α → α → Bool) (l : List α) (h : isortBy lt l = []) : l = [] := by
  have := (isortBy_perm lt l).length_eq
  rw [h] at this
  exact List.length_eq_zero_iff.mp this.symm

theorem run_mergeWithVoice (spec : Bool) (st B : Nat) (A : List Placed) (O : List OtherIn) (t0 : Nat) (s : RState)
    (hA : ∀ p ∈ A, PlacedOK st B p) (hO : ∀ o ∈ O, OtherOK st B o) (hs : OnsetSorted A) (hc : ChordOKP none A)
    (hpos : s.pos = t0) (hle : s.pos ≤ s.maxt) (hB : s.maxt ≤ B) (hst : st ≤ t0) :
    ∃ s', runEvs spec st s ((mergeWithVoice A O t0).map (·.ev)) = some s' ∧
      s'.out = (A.map toOut).reverse ++ s.out ∧
      s'.pos = lastAfter s.pos (mergeWithVoice A O t0) ∧ s'.pos ≤ s'.maxt ∧ s'.maxt ≤ B ∧
      s.maxt ≤ s'.maxt ∧ st ≤ s'.pos := by
  unfold mergeWithVoice
  have hsorted := isortBy_sorted itemLt_strictWeak (A.map Item.note ++ O.map Item.other)
  have hnotes := notesOf_merged O hs
  have hok : ∀ it ∈ isortBy itemLt (A.map Item.note ++ O.map Item.other), ItemOK st B it := by
    intro it hit
    rw [mem_isortBy, List.mem_append] at hit
    rcases hit with hit | hit
    · obtain ⟨p, hp, rfl⟩ := List.mem_map.mp hit; exact hA p hp
    · obtain ⟨o, ho, rfl⟩ := List.mem_map.mp hit; exact hO o ho
  obtain ⟨s', hrun, hout, hfin, hle', hB', hmax', hst'⟩ :=
    run_placeItems spec st B _ t0 t0 none none s hsorted (by intro l hl; cases hl)
      (by rw [chordOK_iff, hnotes]; exact hc) hok hpos hle hB hst (by intro t d h; cases h)
  refine ⟨s', hrun, by rw [hout, hnotes], ?_, hle', hB', hmax', hst'⟩
  rw [hfin]
  by_cases hnil : isortBy itemLt (A.map Item.note ++ O.map Item.other) = []
  · rw [hnil]; simp [placeItems, lastAfter, finalT, hpos]
  · obtain ⟨o, ho, hfin'⟩ := getLast_placeItems _ t0 t0 hnil
    simp only [lastAfter, ho]
    exact hfin'.symm

/-- the `<backup>`/`<forward>` of a voice switch followed by the stream of the voice -/
def voiceEvs (A : List Placed) (O' : List OtherIn) (t0 pos : Nat) : List Ev :=
  (match mergeWithVoice A O' t0 with
    | [] => []
    | e :: _ => (fb e.onset pos).map (·.ev)) ++ (mergeWithVoice A O' t0).map (·.ev)

theorem run_voice (spec : Bool) (st B : Nat) (A : List Placed) (O' : List OtherIn) (t0 pos : Nat) (s : RState)
    (hA : ∀ p ∈ A, PlacedOK st B p) (hO : ∀ o ∈ O', OtherOK st B o) (hs : OnsetSorted A) (hc : ChordOKP none A)
    (hpos : s.pos = pos) (hle : s.pos ≤ s.maxt) (hB : s.maxt ≤ B) (hst : st ≤ pos) (hst0 : st ≤ t0) (ht0B : t0 ≤ B) :
    ∃ s1, runEvs spec st s (voiceEvs A O' t0 pos) = some s1 ∧
      s1.out = (A.map toOut).reverse ++ s.out ∧
      s1.pos = lastAfter pos (mergeWithVoice A O' t0) ∧ s1.pos ≤ s1.maxt ∧ s1.maxt ≤ B ∧
      s.maxt ≤ s1.maxt ∧ st ≤ s1.pos := by
  unfold voiceEvs
  cases helem : mergeWithVoice A O' t0 with
  | nil =>
    have hA0 : A = [] := by
      unfold mergeWithVoice at helem
      by_contra hne
      have : isortBy itemLt (A.map Item.note ++ O'.map Item.other) ≠ [] := by
        intro h
        have := isortBy_eq_nil _ _ h
        simp at this
        exact hne this.1
      exact placeItems_ne_nil _ t0 t0 this helem
    subst hA0
    exact ⟨s, by simp [runEvs], by simp, by simp [lastAfter, hpos], hle, hB, Nat.le_refl _, by omega⟩
  | cons e r =>
    have he : e.onset = t0 := by
      unfold mergeWithVoice at helem
      exact head_placeItems _ t0 e r helem
    let s0 : RState := { s with pos := t0, maxt := if t0 = pos then s.maxt else max s.maxt t0 }
    have hs0 : s0.maxt ≤ B ∧ s.maxt ≤ s0.maxt ∧ s0.pos ≤ s0.maxt := by
      simp only [s0]; split <;> refine ⟨?_, ?_, ?_⟩ <;> omega
    obtain ⟨s1, hrun1, hout1, hp1, hle1, hB1, hmax1, hst1⟩ :=
      run_mergeWithVoice spec st B A O' t0 s0 hA hO hs hc rfl hs0.2.2 hs0.1 hst0
    rw [helem] at hrun1 hp1
    refine ⟨s1, ?_, ?_, ?_, hle1, hB1, by omega, hst1⟩
    · simp only [he]
      rw [runEvs_append, run_fb spec st t0 pos s hpos hst0]
      simp only [Option.bind_some]
      exact hrun1
    · rw [hout1]
    · rw [hp1]; exact lastAfter_ne_nil _ _ _ (by simp)

theorem mergeVoices_cons_first (O : List OtherIn) (start pos v : Nat) (ns : List Placed)
    (rest : List (Nat × List Placed)) :
    mergeVoices O start true pos ((v, ns) :: rest) =
      (voiceEvs ns O start pos ++ (mergeVoices O start false (lastAfter pos (mergeWithVoice ns O start)) rest).1,
       (mergeVoices O start false (lastAfter pos (mergeWithVoice ns O start)) rest).2) := by
  simp only [mergeVoices, voiceEvs, List.append_assoc]; rfl

theorem mergeVoices_cons_later (O : List OtherIn) (start pos v : Nat) (ns : List Placed)
    (rest : List (Nat × List Placed)) :
    mergeVoices O start false pos ((v, ns) :: rest) =
      (voiceEvs ns [] (match ns with | [] => start | p :: _ => p.onset) pos ++
        (mergeVoices O start false
          (lastAfter pos (mergeWithVoice ns [] (match ns with | [] => start | p :: _ => p.onset))) rest).1,
       (mergeVoices O start false
          (lastAfter pos (mergeWithVoice ns [] (match ns with | [] => start | p :: _ => p.onset))) rest).2) := by
  cases ns <;> (simp only [mergeVoices, voiceEvs, List.append_assoc]; rfl)

theorem run_mergeVoices (spec : Bool) (st B start : Nat) (O : List OtherIn) (hO : ∀ o ∈ O, OtherOK st B o)
    (hstart : st ≤ start) (hstartB : start ≤ B) :
    ∀ (voices : List (Nat × List Placed)) (first : Bool) (pos : Nat) (s : RState),
      (∀ v ∈ voices, (∀ p ∈ v.2, PlacedOK st B p) ∧ OnsetSorted v.2 ∧ ChordOKP none v.2) →
      s.pos = pos → s.pos ≤ s.maxt → s.maxt ≤ B → st ≤ pos →
      ∃ s', runEvs spec st s (mergeVoices O start first pos voices).1 = some s' ∧
        s'.out = ((voices.flatMap (·.2)).map toOut).reverse ++ s.out ∧
        s'.pos = (mergeVoices O start first pos voices).2 ∧ s'.pos ≤ s'.maxt ∧ s'.maxt ≤ B ∧
        s.maxt ≤ s'.maxt ∧ st ≤ s'.pos := by
  intro voices
  induction voices with
  | nil =>
    intro first pos s _ hpos hle hB hst
    exact ⟨s, by simp [mergeVoices, runEvs], by simp, by simp [mergeVoices, hpos], hle, hB, Nat.le_refl _, by omega⟩
  | cons vn rest ih =>
    intro first pos s hv hpos hle hB hst
    obtain ⟨v, ns⟩ := vn
    obtain ⟨hA, hs, hc⟩ := hv (v, ns) (List.mem_cons_self ..)
    have hvRest : ∀ v ∈ rest, (∀ p ∈ v.2, PlacedOK st B p) ∧ OnsetSorted v.2 ∧ ChordOKP none v.2 :=
      fun v h => hv v (List.mem_cons_of_mem _ h)
    -- one voice, then the others
    have key : ∀ (O' : List OtherIn) (t0 : Nat), (∀ o ∈ O', OtherOK st B o) → st ≤ t0 → t0 ≤ B →
        ∃ s', runEvs spec st s (voiceEvs ns O' t0 pos ++
              (mergeVoices O start false (lastAfter pos (mergeWithVoice ns O' t0)) rest).1) = some s' ∧
          s'.out = ((((v, ns) :: rest).flatMap (·.2)).map toOut).reverse ++ s.out ∧
          s'.pos = (mergeVoices O start false (lastAfter pos (mergeWithVoice ns O' t0)) rest).2 ∧
          s'.pos ≤ s'.maxt ∧ s'.maxt ≤ B ∧ s.maxt ≤ s'.maxt ∧ st ≤ s'.pos := by
      intro O' t0 hO' hst0 ht0B
      obtain ⟨s1, hrun1, hout1, hp1, hle1, hB1, hmax1, hst1⟩ :=
        run_voice spec st B ns O' t0 pos s hA hO' hs hc hpos hle hB hst hst0 ht0B
      obtain ⟨s', hrun, hout, hp, hle', hB', hmax', hst'⟩ :=
        ih false (lastAfter pos (mergeWithVoice ns O' t0)) s1 hvRest hp1 hle1 hB1 (by omega)
      refine ⟨s', ?_, ?_, hp, hle', hB', by omega, hst'⟩
      · rw [runEvs_append, hrun1]; exact hrun
      · rw [hout, hout1]; simp [List.flatMap_cons]
    cases first
    · rw [mergeVoices_cons_later]
      apply key [] _ (by intro o ho; cases ho)
      · cases ns with
        | nil => exact hstart
        | cons p r => exact (hA p (List.mem_cons_self ..)).1
      · cases ns with
        | nil => exact hstartB
        | cons p r => have := (hA p (List.mem_cons_self ..)).2.1; simp only; omega
    · rw [mergeVoices_cons_first]
      exact key O start hO hstart hstartB

end C03.Reader
