/-
Helper lemmas for C17 (voices): rename_voices and the reversal are a bijection of the distinct
voice values onto 1..k; the chord grouping is the partition by (onset, duration); scatter.
-/
import PartituraModel.Model.Voices
import Mathlib.Data.List.Dedup
import Mathlib.Data.List.Basic
import Mathlib.Tactic.Linarith

namespace C17V
open Model Model.Voices

-- ------------------------------------------------------------------ rename_voices

theorem indexOf_eq (x : Int) (l : List Int) :
    indexOf x l = if x ∈ l then some (l.idxOf x) else none := by
  induction l with
  | nil => simp [indexOf]
  | cons a rest ih =>
    simp only [indexOf, ih]
    by_cases h : a = x
    · subst h; simp
    · have h' : ¬ x = a := fun e => h e.symm
      by_cases hm : x ∈ rest
      · simp [h, h', hm, List.idxOf_cons_ne _ h]
      · simp [h, h', hm]

/-- the keys of `vmap` after the generator of `rename_voices` has consumed `vs` -/
def allSeen : List Int → List Int → List Int
  | [], seen => seen
  | v :: rest, seen => if v ∈ seen then allSeen rest seen else allSeen rest (seen ++ [v])

theorem allSeen_prefix (vs : List Int) : ∀ seen, ∃ ext, allSeen vs seen = seen ++ ext := by
  induction vs with
  | nil => intro seen; exact ⟨[], by simp [allSeen]⟩
  | cons v rest ih =>
    intro seen
    simp only [allSeen]
    split
    · exact ih seen
    · obtain ⟨ext, h⟩ := ih (seen ++ [v])
      exact ⟨[v] ++ ext, by rw [h]; simp⟩

theorem allSeen_nodup (vs : List Int) : ∀ seen, seen.Nodup → (allSeen vs seen).Nodup := by
  induction vs with
  | nil => intro seen h; simpa [allSeen] using h
  | cons v rest ih =>
    intro seen h
    simp only [allSeen]
    split
    · exact ih seen h
    · rename_i hv
      apply ih
      rw [List.nodup_append]
      refine ⟨h, by simp, ?_⟩
      intro a ha b hb
      simp at hb
      subst hb
      intro e; subst e; exact hv ha

theorem mem_allSeen (vs : List Int) : ∀ seen x, x ∈ allSeen vs seen ↔ x ∈ seen ∨ x ∈ vs := by
  induction vs with
  | nil => intro seen x; simp [allSeen]
  | cons v rest ih =>
    intro seen x
    simp only [allSeen]
    split
    · rename_i hv
      rw [ih]
      constructor
      · rintro (h | h)
        · exact Or.inl h
        · exact Or.inr (List.mem_cons_of_mem _ h)
      · rintro (h | h)
        · exact Or.inl h
        · rcases List.mem_cons.mp h with h | h
          · subst h; exact Or.inl hv
          · exact Or.inr h
    · rw [ih]
      simp only [List.mem_append, List.mem_cons]
      tauto

theorem renameAux_eq (vs : List Int) : ∀ seen, seen.Nodup →
    renameAux vs seen = vs.map (fun v => (((allSeen vs seen).idxOf v : Nat) : Int) + 1) := by
  induction vs with
  | nil => intro seen _; rfl
  | cons v rest ih =>
    intro seen hnd
    simp only [renameAux, indexOf_eq, allSeen, List.map_cons]
    by_cases hv : v ∈ seen
    · simp only [hv, if_true]
      obtain ⟨ext, hext⟩ := allSeen_prefix rest seen
      rw [ih seen hnd]
      congr 1
      rw [hext, List.idxOf_append_of_mem hv]
    · simp only [hv, if_false]
      have hnd' : (seen ++ [v]).Nodup := by
        rw [List.nodup_append]
        refine ⟨hnd, by simp, ?_⟩
        intro a ha b hb
        simp at hb
        subst hb
        intro e; subst e; exact hv ha
      obtain ⟨ext, hext⟩ := allSeen_prefix rest (seen ++ [v])
      rw [ih (seen ++ [v]) hnd']
      congr 1
      rw [hext, List.idxOf_append_of_mem (by simp), List.idxOf_append_of_notMem hv]
      simp

/-- the distinct voice values in order of first occurrence -/
def firstOcc (vs : List Int) : List Int := allSeen vs []

theorem firstOcc_nodup (vs : List Int) : (firstOcc vs).Nodup := allSeen_nodup vs [] List.nodup_nil
theorem mem_firstOcc (vs : List Int) (x : Int) : x ∈ firstOcc vs ↔ x ∈ vs := by
  simp [firstOcc, mem_allSeen]

theorem firstOcc_length (vs : List Int) : (firstOcc vs).length = vs.dedup.length := by
  apply List.Perm.length_eq
  rw [List.perm_ext_iff_of_nodup (firstOcc_nodup vs) (List.nodup_dedup vs)]
  intro a
  rw [mem_firstOcc, List.mem_dedup]

theorem rename_eq (vs : List Int) :
    rename vs = vs.map (fun v => (((firstOcc vs).idxOf v : Nat) : Int) + 1) :=
  renameAux_eq vs [] List.nodup_nil

theorem mem_rename (vs : List Int) (x : Int) :
    x ∈ rename vs ↔ 1 ≤ x ∧ x ≤ ((firstOcc vs).length : Int) := by
  rw [rename_eq]
  simp only [List.mem_map]
  constructor
  · rintro ⟨v, hv, rfl⟩
    have := List.idxOf_lt_length_of_mem ((mem_firstOcc vs v).mpr hv)
    omega
  · rintro ⟨h1, h2⟩
    have hlt : (x - 1).toNat < (firstOcc vs).length := by omega
    refine ⟨(firstOcc vs)[(x - 1).toNat], (mem_firstOcc vs _).mp (List.getElem_mem hlt), ?_⟩
    rw [(firstOcc_nodup vs).idxOf_getElem]
    omega

theorem listMax_spec : ∀ (l : List Int) (m : Int), listMax l = some m → m ∈ l ∧ ∀ x ∈ l, x ≤ m := by
  intro l m h
  cases l with
  | nil => simp [listMax] at h
  | cons a rest =>
    simp only [listMax, Option.some.injEq] at h
    subst h
    have key : ∀ (r : List Int) (b : Int), (r.foldl max b = b ∨ r.foldl max b ∈ r) ∧ b ≤ r.foldl max b ∧ ∀ x ∈ r, x ≤ r.foldl max b := by
      intro r
      induction r with
      | nil => intro b; simp
      | cons y ys ih =>
        intro b
        simp only [List.foldl_cons]
        obtain ⟨h1, h2, h3⟩ := ih (max b y)
        refine ⟨?_, ?_, ?_⟩
        · rcases h1 with h1 | h1
          · rcases le_total b y with hby | hby
            · right; rw [h1, max_eq_right hby]; exact List.mem_cons_self
            · left; rw [h1, max_eq_left hby]
          · right; exact List.mem_cons_of_mem _ h1
        · exact le_trans (le_max_left b y) h2
        · intro x hx
          rcases List.mem_cons.mp hx with hx | hx
          · subst hx; exact le_trans (le_max_right b x) h2
          · exact h3 x hx
    obtain ⟨h1, h2, h3⟩ := key rest a
    refine ⟨?_, ?_⟩
    · rcases h1 with h1 | h1
      · rw [h1]; exact List.mem_cons_self
      · exact List.mem_cons_of_mem _ h1
    · intro x hx
      rcases List.mem_cons.mp hx with hx | hx
      · subst hx; exact h2
      · exact h3 x hx

theorem listMax_rename (vs : List Int) (h : vs ≠ []) :
    listMax (rename vs) = some ((firstOcc vs).length : Int) := by
  have hne : rename vs ≠ [] := by
    rw [rename_eq]; simpa using h
  cases hr : rename vs with
  | nil => exact absurd hr hne
  | cons a rest =>
    have hm : ∃ m, listMax (a :: rest) = some m := ⟨_, rfl⟩
    obtain ⟨m, hm⟩ := hm
    rw [hm]
    obtain ⟨h1, h2⟩ := listMax_spec _ _ hm
    rw [← hr] at h1 h2
    have hle := ((mem_rename vs m).mp h1).2
    have hpos : 0 < (firstOcc vs).length := by
      cases vs with
      | nil => exact absurd rfl h
      | cons v _ =>
        exact List.length_pos_of_mem ((mem_firstOcc _ v).mpr List.mem_cons_self)
    have hK : ((firstOcc vs).length : Int) ∈ rename vs := (mem_rename vs _).mpr ⟨by omega, le_refl _⟩
    have := h2 _ hK
    congr 1
    omega

/-- closed form of rename + reversal -/
theorem finalize_eq (vs : List Int) (h : vs ≠ []) :
    finalize vs = some (vs.map fun v => ((firstOcc vs).length : Int) - (((firstOcc vs).idxOf v : Nat) : Int)) := by
  simp only [finalize, reverseVoices, listMax_rename vs h, Option.map_some]
  rw [rename_eq, List.map_map]
  congr 1
  apply List.map_congr_left
  intro v _
  simp only [Function.comp]
  omega

end C17V

namespace C17V
open Model Model.Voices

-- ------------------------------------------------------------------ scatter

theorem setAll_length (members : List Nat) (v : Int) : ∀ cells : List (Option Int),
    (setAll cells members v).length = cells.length := by
  induction members with
  | nil => intro cells; rfl
  | cons m ms ih => intro cells; simp only [setAll, List.foldl_cons] at *; rw [ih]; simp

theorem setAll_getElem? (members : List Nat) (v : Int) : ∀ (cells : List (Option Int)) (p : Nat),
    (setAll cells members v)[p]? =
      if p ∈ members ∧ p < cells.length then some (some v) else cells[p]? := by
  induction members with
  | nil => intro cells p; simp [setAll]
  | cons m ms ih =>
    intro cells p
    simp only [setAll, List.foldl_cons] at *
    rw [ih]
    simp only [List.length_set, List.mem_cons, List.getElem?_set]
    by_cases hpm : p ∈ ms
    · by_cases hl : p < cells.length
      · simp [hpm, hl]
      · have hnone : cells[p]? = none := List.getElem?_eq_none (by omega)
        by_cases hm : m = p
        · subst hm; simp [hpm, hl]
        · simp [hpm, hl, hm]
    · by_cases hm : m = p
      · subst hm; by_cases hl : m < cells.length <;> simp [hpm, hl]
      · have : ¬ p = m := fun e => hm e.symm
        simp [hpm, hm, this]

theorem lookup_mem {β : Type} (k : Nat) : ∀ (l : List (Nat × β)) (b : β), lookup k l = some b → (k, b) ∈ l := by
  intro l
  induction l with
  | nil => intro b h; simp [lookup] at h
  | cons x rest ih =>
    intro b h
    obtain ⟨a, c⟩ := x
    simp only [lookup] at h
    split at h
    · rename_i hak; simp only [Option.some.injEq] at h; subst h; subst hak; exact List.mem_cons_self
    · exact List.mem_cons_of_mem _ (ih b h)

/-- rows that belong to the same entries of `idx_equivs` always hold the same cell value -/
theorem scatter_rel (equivs : List (Nat × List Nat)) (i j : Nat)
    (hrel : ∀ e ∈ equivs, i ∈ e.2 ↔ j ∈ e.2) :
    ∀ (out : List (Nat × Int)) (cells cells' : List (Option Int)),
      i < cells.length → j < cells.length → cells[i]? = cells[j]? →
      scatter equivs out cells = some cells' → cells'[i]? = cells'[j]? := by
  intro out
  induction out with
  | nil => intro cells cells' _ _ h hs; simp only [scatter, Option.some.injEq] at hs; subst hs; exact h
  | cons x rest ih =>
    intro cells cells' hi hj h hs
    obtain ⟨id, v⟩ := x
    simp only [scatter] at hs
    split at hs
    · cases hs
    · rename_i members hl
      have hmem := hrel _ (lookup_mem id equivs members hl)
      simp only at hmem
      refine ih (setAll cells members v) cells' (by rw [setAll_length]; exact hi)
        (by rw [setAll_length]; exact hj) ?_ hs
      rw [setAll_getElem?, setAll_getElem?]
      by_cases hm : i ∈ members
      · simp [hm, hmem.mp hm, hi, hj]
      · have hm' : j ∉ members := fun e => hm (hmem.mpr e)
        simp [hm, hm', h]

theorem allSome_eq : ∀ (cells : List (Option Int)) (vs : List Int), allSome cells = some vs → cells = vs.map some := by
  intro cells
  induction cells with
  | nil => intro vs h; simp only [allSome, Option.some.injEq] at h; subst h; rfl
  | cons c rest ih =>
    intro vs h
    cases c with
    | none => simp [allSome] at h
    | some v =>
      simp only [allSome] at h
      cases hr : allSome rest with
      | none => simp [hr] at h
      | some ws =>
        simp only [hr, Option.map_some, Option.some.injEq] at h
        subst h
        simp [ih ws hr]

theorem allSome_of_all : ∀ (cells : List (Option Int)),
    (∀ p, p < cells.length → ∃ w, cells[p]? = some (some w)) → ∃ vs, allSome cells = some vs := by
  intro cells
  induction cells with
  | nil => intro _; exact ⟨[], rfl⟩
  | cons c rest ih =>
    intro h
    obtain ⟨w, hw⟩ := h 0 (by simp)
    simp only [List.getElem?_cons_zero, Option.some.injEq] at hw
    subst hw
    obtain ⟨vs, hvs⟩ := ih (fun p hp => by
      have := h (p + 1) (by simp; omega)
      simpa using this)
    exact ⟨w :: vs, by simp [allSome, hvs]⟩

/-- if every id answered by the search is a key of `idx_equivs`, the scatter loop does not raise,
    keeps what was written, and writes every member of every answered id -/
theorem scatter_total (equivs : List (Nat × List Nat)) :
    ∀ (out : List (Nat × Int)) (cells : List (Option Int)),
      (∀ x ∈ out, ∃ ms, lookup x.1 equivs = some ms) →
      ∃ cells', scatter equivs out cells = some cells' ∧ cells'.length = cells.length ∧
        (∀ p : Nat, (∃ w, cells[p]? = some (some w)) → ∃ w, cells'[p]? = some (some w)) ∧
        (∀ x ∈ out, ∀ ms, lookup x.1 equivs = some ms → ∀ p ∈ ms, p < cells.length →
          ∃ w, cells'[p]? = some (some w)) := by
  intro out
  induction out with
  | nil => intro cells _; exact ⟨cells, rfl, rfl, fun p h => h, by simp⟩
  | cons x rest ih =>
    intro cells hkeys
    obtain ⟨id, v⟩ := x
    obtain ⟨ms, hms⟩ := hkeys (id, v) List.mem_cons_self
    obtain ⟨cells', hs, hlen, hkeep, hset⟩ := ih (setAll cells ms v) (fun y hy => hkeys y (List.mem_cons_of_mem _ hy))
    refine ⟨cells', ?_, ?_, ?_, ?_⟩
    · simp only [scatter, hms]; exact hs
    · rw [hlen, setAll_length]
    · intro p hp
      apply hkeep
      rw [setAll_getElem?]
      split
      · exact ⟨v, rfl⟩
      · exact hp
    · intro y hy ms' hms' p hp hpl
      rcases List.mem_cons.mp hy with hy | hy
      · subst hy
        simp only at hms'
        rw [hms] at hms'
        simp only [Option.some.injEq] at hms'
        subst hms'
        apply hkeep
        rw [setAll_getElem?]
        simp [hp, hpl]
      · exact hset y hy ms' hms' p hp (by rw [setAll_length]; exact hpl)

end C17V

namespace C17V
open Model Model.Voices

-- ------------------------------------------------------------------ chord grouping

/-- the (onset, duration) key of row `i` -/
def keyOf (notes : List VNote) (i : Nat) : Option (Rat × Rat) := notes[i]?.map fun x => (x.2.1, x.2.2)

theorem addToGroups_keys (key : Rat × Rat) (m : Nat × Int) : ∀ gs : List Group,
    (addToGroups gs key m).map (·.key) =
      if key ∈ gs.map (·.key) then gs.map (·.key) else gs.map (·.key) ++ [key] := by
  intro gs
  induction gs with
  | nil => simp [addToGroups]
  | cons g rest ih =>
    simp only [addToGroups]
    by_cases h : g.key = key
    · simp [h]
    · have h' : ¬ key = g.key := fun e => h e.symm
      simp [h, h', ih]
      split <;> simp

theorem addToGroups_mem (key : Rat × Rat) (m : Nat × Int) : ∀ gs : List Group,
    (gs.map (·.key)).Nodup → ∀ g' ∈ addToGroups gs key m,
      (g' ∈ gs ∧ g'.key ≠ key) ∨
      (∃ g ∈ gs, g.key = key ∧ g'.key = key ∧ g'.members = g.members ++ [m.1]) ∨
      (g'.key = key ∧ g'.members = [m.1] ∧ ∀ g ∈ gs, g.key ≠ key) := by
  intro gs
  induction gs with
  | nil =>
    intro _ g' hg'
    simp only [addToGroups, List.mem_singleton] at hg'
    subst hg'
    right; right
    simp [Group.members]
  | cons g rest ih =>
    intro hnd g' hg'
    simp only [List.map_cons, List.nodup_cons] at hnd
    simp only [addToGroups] at hg'
    by_cases h : g.key = key
    · simp only [h, if_true, List.mem_cons] at hg'
      rcases hg' with hg' | hg'
      · right; left
        refine ⟨g, List.mem_cons_self, h, ?_, ?_⟩
        · subst hg'; rfl
        · subst hg'; simp [Group.members]
      · left
        refine ⟨List.mem_cons_of_mem _ hg', ?_⟩
        intro e
        apply hnd.1
        rw [h, ← e]
        exact List.mem_map_of_mem hg'
    · simp only [h, if_false, List.mem_cons] at hg'
      rcases hg' with hg' | hg'
      · left; subst hg'; exact ⟨List.mem_cons_self, h⟩
      · rcases ih hnd.2 g' hg' with ⟨h1, h2⟩ | ⟨g0, hg0, h1, h2, h3⟩ | ⟨h1, h2, h3⟩
        · left; exact ⟨List.mem_cons_of_mem _ h1, h2⟩
        · right; left; exact ⟨g0, List.mem_cons_of_mem _ hg0, h1, h2, h3⟩
        · right; right
          refine ⟨h1, h2, ?_⟩
          intro g1 hg1
          rcases List.mem_cons.mp hg1 with e | e
          · subst e; exact h
          · exact h3 g1 e

/-- invariant of the grouping loop after `t` rows -/
structure GI (notes : List VNote) (t : Nat) (gs : List Group) : Prop where
  mem : ∀ g ∈ gs, ∀ i, i ∈ g.members ↔ (i < t ∧ keyOf notes i = some g.key)
  cover : ∀ i, i < t → i < notes.length → ∃ g ∈ gs, keyOf notes i = some g.key
  nodup : (gs.map (·.key)).Nodup

theorem GI_step (notes : List VNote) (t : Nat) (gs : List Group) (ht : t < notes.length)
    (inv : GI notes t gs) :
    GI notes (t + 1) (addToGroups gs (notes[t].2.1, notes[t].2.2) (t, notes[t].1)) := by
  have hkt : keyOf notes t = some (notes[t].2.1, notes[t].2.2) := by
    simp [keyOf, List.getElem?_eq_getElem ht]
  have hkeys := addToGroups_keys (notes[t].2.1, notes[t].2.2) (t, notes[t].1) gs
  constructor
  · intro g' hg' i
    rcases addToGroups_mem _ (t, notes[t].1) gs inv.nodup g' hg' with ⟨h1, h2⟩ | ⟨g0, hg0, h1, h2, h3⟩ | ⟨h1, h2, h3⟩
    · rw [inv.mem g' h1 i]
      constructor
      · rintro ⟨a, b⟩; exact ⟨by omega, b⟩
      · rintro ⟨a, b⟩
        refine ⟨?_, b⟩
        rcases Nat.lt_succ_iff_lt_or_eq.mp a with a | a
        · exact a
        · subst a; rw [hkt] at b; simp only [Option.some.injEq] at b; exact absurd b.symm h2
    · rw [h3, List.mem_append, inv.mem g0 hg0 i, h1, h2]
      simp only [List.mem_singleton]
      constructor
      · rintro (⟨a, b⟩ | a)
        · exact ⟨by omega, b⟩
        · subst a; exact ⟨by omega, hkt⟩
      · rintro ⟨a, b⟩
        rcases Nat.lt_succ_iff_lt_or_eq.mp a with a | a
        · exact Or.inl ⟨a, b⟩
        · exact Or.inr a
    · rw [h2, h1]
      simp only [List.mem_singleton]
      constructor
      · intro a; subst a; exact ⟨by omega, hkt⟩
      · rintro ⟨a, b⟩
        rcases Nat.lt_succ_iff_lt_or_eq.mp a with a | a
        · obtain ⟨g, hg, hk⟩ := inv.cover i a (by omega)
          rw [b] at hk
          simp only [Option.some.injEq] at hk
          exact absurd hk.symm (h3 g hg)
        · exact a
  · intro i hi hin
    have hsub : ∀ k, k ∈ gs.map (·.key) → k ∈ (addToGroups gs (notes[t].2.1, notes[t].2.2) (t, notes[t].1)).map (·.key) := by
      intro k hk
      rw [hkeys]
      split
      · exact hk
      · exact List.mem_append_left _ hk
    rcases Nat.lt_succ_iff_lt_or_eq.mp hi with a | a
    · obtain ⟨g, hg, hk⟩ := inv.cover i a hin
      have := hsub g.key (List.mem_map_of_mem hg)
      obtain ⟨g', hg', e⟩ := List.mem_map.mp this
      exact ⟨g', hg', by rw [hk, e]⟩
    · subst a
      have : (notes[i].2.1, notes[i].2.2) ∈ (addToGroups gs (notes[i].2.1, notes[i].2.2) (i, notes[i].1)).map (·.key) := by
        rw [hkeys]
        split
        · assumption
        · simp
      obtain ⟨g', hg', e⟩ := List.mem_map.mp this
      exact ⟨g', hg', by rw [hkt, e]⟩
  · rw [hkeys]
    split
    · exact inv.nodup
    · rename_i hk
      rw [List.nodup_append]
      refine ⟨inv.nodup, by simp, ?_⟩
      intro a ha b hb
      simp only [List.mem_singleton] at hb
      subst hb
      intro e; subst e; exact hk ha

theorem groupsAux_GI (notes : List VNote) : ∀ (rest : List VNote) (t : Nat) (gs : List Group),
    notes.drop t = rest → GI notes t gs → GI notes notes.length (groupsAux rest t gs) := by
  intro rest
  induction rest with
  | nil =>
    intro t gs hd inv
    simp only [groupsAux]
    have htl : notes.length ≤ t := by
      have := congrArg List.length hd
      simp at this; omega
    have hlt : ∀ i k, keyOf notes i = some k → i < notes.length := by
      intro i k h
      simp only [keyOf] at h
      by_contra hc
      rw [List.getElem?_eq_none (by omega)] at h
      simp at h
    constructor
    · intro g hg i
      rw [inv.mem g hg i]
      constructor
      · rintro ⟨_, b⟩; exact ⟨hlt i _ b, b⟩
      · rintro ⟨a, b⟩; exact ⟨by omega, b⟩
    · intro i hi _; exact inv.cover i (by omega) hi
    · exact inv.nodup
  | cons x rest' ih =>
    intro t gs hd inv
    have ht : t < notes.length := by
      by_contra hc
      rw [List.drop_eq_nil_of_le (by omega)] at hd
      cases hd
    have hx : notes[t] = x := by
      have := List.drop_eq_getElem_cons ht
      rw [this] at hd
      exact (List.cons.inj hd).1
    have hd' : notes.drop (t + 1) = rest' := by
      have := List.drop_eq_getElem_cons ht
      rw [this] at hd
      exact (List.cons.inj hd).2
    obtain ⟨p, on, du⟩ := x
    simp only [groupsAux]
    apply ih (t + 1) _ hd'
    have := GI_step notes t gs ht inv
    rw [hx] at this
    exact this

theorem groups_GI (notes : List VNote) : GI notes notes.length (groups notes) := by
  apply groupsAux_GI notes notes 0 [] (by simp)
  constructor
  · intro g hg; simp at hg
  · intro i hi; omega
  · simp

theorem leaderAux_mem : ∀ (rest : List (Nat × Int)) (b : Nat × Int),
    leaderAux rest b = b.1 ∨ leaderAux rest b ∈ rest.map (·.1) := by
  intro rest
  induction rest with
  | nil => intro b; left; rfl
  | cons m ms ih =>
    intro b
    simp only [leaderAux]
    split
    · rcases ih m with h | h
      · right; rw [h]; simp
      · right; simp only [List.map_cons, List.mem_cons]; exact Or.inr h
    · rcases ih b with h | h
      · left; exact h
      · right; simp only [List.map_cons, List.mem_cons]; exact Or.inr h

theorem leader_mem (g : Group) : g.leader ∈ g.members := by
  simp only [Group.leader, Group.members, List.mem_cons]
  exact leaderAux_mem g.rest g.first

end C17V

namespace C17V
open Model Model.Voices

-- ------------------------------------------------------------------ estimate_voices

theorem finalize_none_nil : finalize [] = none := by
  simp [finalize, reverseVoices, rename, renameAux, listMax]

/-- chord mode: rows with equal (onset, duration) receive equal voices, whatever the search answers -/
theorem chord_same_voice (vosa : Vosa) (notes : List VNote) (out : List Int)
    (h : estimateVoices vosa false notes = some out) (i j : Nat)
    (hi : i < notes.length) (hj : j < notes.length) (hk : keyOf notes i = keyOf notes j) :
    out[i]? = out[j]? := by
  unfold estimateVoices at h
  split at h
  · cases h
  · split at h
    · cases h
    · rename_i cells hs
      split at h
      · cases h
      · rename_i voices hv
        have hrel : ∀ e ∈ idxEquivs false notes, i ∈ e.2 ↔ j ∈ e.2 := by
          intro e he
          simp only [idxEquivs, Bool.false_eq_true, if_false, List.mem_map] at he
          obtain ⟨g, hg, rfl⟩ := he
          simp only
          rw [(groups_GI notes).mem g hg i, (groups_GI notes).mem g hg j, hk]
          simp [hi, hj]
        have hc := scatter_rel _ i j hrel _ _ cells (by simpa using hi) (by simpa using hj)
          (by simp [hi, hj]) hs
        rw [allSome_eq cells voices hv] at hc
        simp only [List.getElem?_map] at hc
        have hvv : voices[i]? = voices[j]? := by
          cases h1 : voices[i]? <;> cases h2 : voices[j]? <;> simp [h1, h2] at hc ⊢
          exact hc
        have hne : voices ≠ [] := by
          intro e; subst e; rw [finalize_none_nil] at h; cases h
        rw [finalize_eq voices hne] at h
        simp only [Option.some.injEq] at h
        subst h
        simp only [List.getElem?_map, hvv]

/-- the search answers exactly the ids it was given, each once -/
def VosaCovers (vosa : Vosa) (rows : List VRow) : Prop :=
  ((vosa rows).map (·.1)).Perm (rows.map (·.1))

theorem lookup_map_self {β : Type} (f : Nat → β) (k : Nat) : ∀ l : List Nat,
    lookup k (l.map fun i => (i, f i)) = if k ∈ l then some (f k) else none := by
  intro l
  induction l with
  | nil => simp [lookup]
  | cons a rest ih =>
    simp only [List.map_cons, lookup, ih, List.mem_cons]
    by_cases h : a = k
    · subst h; simp
    · have : ¬ k = a := fun e => h e.symm
      simp [h, this]

theorem lookup_of_mem_keys {β : Type} (k : Nat) : ∀ l : List (Nat × β),
    k ∈ l.map (·.1) → ∃ b, lookup k l = some b := by
  intro l
  induction l with
  | nil => intro h; simp at h
  | cons x rest ih =>
    intro h
    obtain ⟨a, c⟩ := x
    simp only [lookup]
    by_cases hak : a = k
    · exact ⟨c, by simp [hak]⟩
    · simp only [hak, if_false]
      apply ih
      simp only [List.map_cons, List.mem_cons] at h
      rcases h with h | h
      · exact absurd h.symm hak
      · exact h

theorem mem_insertAsc (k x : Nat) : ∀ l : List Nat, x ∈ insertAsc k l ↔ x = k ∨ x ∈ l := by
  intro l
  induction l with
  | nil => simp [insertAsc]
  | cons a rest ih =>
    simp only [insertAsc]
    split
    · simp
    · simp only [List.mem_cons, ih]; tauto

theorem mem_sortAsc (x : Nat) : ∀ l : List Nat, x ∈ sortAsc l ↔ x ∈ l := by
  intro l
  induction l with
  | nil => simp [sortAsc]
  | cons a rest ih =>
    simp only [sortAsc, List.foldr_cons] at *
    rw [mem_insertAsc, ih]; simp

/-- facts about `idx_equivs` and the ids handed to the search, in both modes -/
theorem equivs_facts (mono : Bool) (notes : List VNote) :
    (∀ id ∈ (vosaInput mono notes).map (·.1), ∃ ms, lookup id (idxEquivs mono notes) = some ms) ∧
    (∀ p, p < notes.length → ∃ id ∈ (vosaInput mono notes).map (·.1), ∃ ms,
        lookup id (idxEquivs mono notes) = some ms ∧ p ∈ ms) := by
  cases mono with
  | true =>
    have hids : (vosaInput true notes).map (·.1) = List.range notes.length := by
      simp only [vosaInput, if_true, List.map_map]
      have : ((fun x : Nat × VNote => x.1) ∘ fun x : VNote × Nat => (x.2, x.1)) = Prod.snd := by
        funext x; rfl
      rw [show (List.map ((fun x : Nat × VNote => x.1) ∘ fun (x : VNote × Nat) => match x with | (x, i) => (i, x)) notes.zipIdx)
            = List.map Prod.snd notes.zipIdx from by
              apply List.map_congr_left; intro x _; rfl]
      simp [List.range_eq_range']
    rw [hids]
    simp only [idxEquivs, if_true]
    constructor
    · intro id hid
      rw [lookup_map_self (fun i => [i])]
      exact ⟨[id], by simp [hid]⟩
    · intro p hp
      refine ⟨p, by simpa using hp, [p], ?_, by simp⟩
      rw [lookup_map_self (fun i => [i])]
      simp [hp]
  | false =>
    have inv := groups_GI notes
    have hlt : ∀ g ∈ groups notes, g.leader < notes.length := by
      intro g hg
      exact ((inv.mem g hg g.leader).mp (leader_mem g)).1
    have hids : ∀ id, id ∈ (vosaInput false notes).map (·.1) ↔ ∃ g ∈ groups notes, g.leader = id := by
      intro id
      simp only [vosaInput, Bool.false_eq_true, if_false, idxEquivs, List.map_map, List.mem_map,
        List.mem_filterMap, mem_sortAsc, Function.comp]
      constructor
      · rintro ⟨x, ⟨a, ⟨g, hg, rfl⟩, hx⟩, rfl⟩
        refine ⟨g, hg, ?_⟩
        cases hn : notes[g.leader]? with
        | none => simp [hn] at hx
        | some y => simp [hn] at hx; subst hx; rfl
      · rintro ⟨g, hg, rfl⟩
        have := hlt g hg
        exact ⟨(g.leader, notes[g.leader]), ⟨g.leader, ⟨g, hg, rfl⟩, by simp [List.getElem?_eq_getElem this]⟩, rfl⟩
    have hkeys : ∀ g ∈ groups notes, ∃ ms, lookup g.leader (idxEquivs false notes) = some ms ∧ ms = g.members := by
      intro g hg
      have hin : g.leader ∈ (idxEquivs false notes).map (·.1) := by
        simp only [idxEquivs, Bool.false_eq_true, if_false, List.map_map, List.mem_map, Function.comp]
        exact ⟨g, hg, rfl⟩
      obtain ⟨ms, hms⟩ := lookup_of_mem_keys _ _ hin
      refine ⟨ms, hms, ?_⟩
      have hm := lookup_mem _ _ _ hms
      simp only [idxEquivs, Bool.false_eq_true, if_false, List.mem_map] at hm
      obtain ⟨g1, hg1, he⟩ := hm
      have hl : g1.leader = g.leader := congrArg Prod.fst he
      have hmm : g1.members = ms := congrArg Prod.snd he
      have k1 := ((inv.mem g1 hg1 g1.leader).mp (leader_mem g1)).2
      have k2 := ((inv.mem g hg g.leader).mp (leader_mem g)).2
      rw [hl, k2] at k1
      simp only [Option.some.injEq] at k1
      have : g1 = g := List.inj_on_of_nodup_map inv.nodup hg1 hg k1.symm
      rw [← hmm, this]
    constructor
    · intro id hid
      obtain ⟨g, hg, rfl⟩ := (hids id).mp hid
      obtain ⟨ms, hms, _⟩ := hkeys g hg
      exact ⟨ms, hms⟩
    · intro p hp
      obtain ⟨g, hg, hk⟩ := inv.cover p hp hp
      obtain ⟨ms, hms, hmm⟩ := hkeys g hg
      refine ⟨g.leader, (hids _).mpr ⟨g, hg, rfl⟩, ms, hms, ?_⟩
      rw [hmm, inv.mem g hg p]
      exact ⟨hp, hk⟩

/-- totality: if the search answers every id it was given, every row receives a voice and the
    result is a gapless numbering from 1 -/
theorem total_given_vosa (vosa : Vosa) (mono : Bool) (notes : List VNote) (hne : notes ≠ [])
    (hc : VosaCovers vosa (vosaInput mono notes)) :
    ∃ out voices, estimateVoices vosa mono notes = some out ∧ voices.length = notes.length ∧
      finalize voices = some out := by
  obtain ⟨hE1, hE2⟩ := equivs_facts mono notes
  have hkeys : ∀ x ∈ vosa (vosaInput mono notes), ∃ ms, lookup x.1 (idxEquivs mono notes) = some ms := by
    intro x hx
    apply hE1
    exact hc.subset (List.mem_map_of_mem hx)
  obtain ⟨cells, hs, hlen, _, hset⟩ := scatter_total (idxEquivs mono notes) _ (List.replicate notes.length none) hkeys
  have hall : ∀ p, p < cells.length → ∃ w, cells[p]? = some (some w) := by
    intro p hp
    have hp' : p < notes.length := by simpa [hlen] using hp
    obtain ⟨id, hid, ms, hms, hpm⟩ := hE2 p hp'
    have : id ∈ (vosa (vosaInput mono notes)).map (·.1) := hc.symm.subset hid
    obtain ⟨x, hx, rfl⟩ := List.mem_map.mp this
    exact hset x hx ms hms p hpm (by simpa using hp')
  obtain ⟨voices, hv⟩ := allSome_of_all cells hall
  have hvl : voices.length = notes.length := by
    have := congrArg List.length (allSome_eq cells voices hv)
    simp [hlen] at this
    omega
  have hvne : voices ≠ [] := by
    intro e; subst e
    simp at hvl
    exact hne (List.eq_nil_of_length_eq_zero hvl.symm)
  refine ⟨_, voices, ?_, hvl, finalize_eq voices hvne⟩
  simp only [estimateVoices, hne, if_false, hs, hv, finalize_eq voices hvne]

end C17V
