/-
C01 helper lemmas, part 7: assembly — every operation on a state satisfying `Inv`, histories, and the
query results in terms of the registered objects.
-/
import PartituraModel.Proofs.C01Query

namespace TL

-- ------------------------------------------------------------------ one step

theorem negTime_rejected (s : Part) (op : Op) (h : op.negTime = true) : step s op = .error .invalidTimePoint := by
  cases op with
  | add o st en =>
    simp only [Op.negTime] at h
    simp [step, stepAdd, h, Except.map]
  | getOrAdd t =>
    simp only [Op.negTime, decide_eq_true_eq] at h
    simp [step, stepGetOrAdd, ensurePoint, h, Except.map]
  | iterPrev t cls eq incl =>
    simp only [Op.negTime, decide_eq_true_eq] at h
    simp [step, iterLinks, h, Except.map]
  | iterNext t cls eq incl =>
    simp only [Op.negTime, decide_eq_true_eq] at h
    simp [step, iterLinks, h, Except.map]
  | getPoint t =>
    simp only [Op.negTime, decide_eq_true_eq] at h
    simp [step, h]
  | remove _ _ => simp [Op.negTime] at h
  | setQD _ _ => simp [Op.negTime] at h
  | iterAll _ _ _ _ _ => simp [Op.negTime] at h
  | first => simp [Op.negTime] at h
  | last => simp [Op.negTime] at h
  | quarterDurations _ _ => simp [Op.negTime] at h

/-- an operation with valid, non-negative arguments succeeds and keeps the invariant -/
theorem step_ok {s : Part} (hI : Inv s) {op : Op} (hv : Valid s op) (hn : op.negTime = false) :
    ∃ s' out, step s op = .ok (s', out) ∧ Inv s' := by
  have hg : Good s := (good_iff_inv s).mpr hI
  cases op with
  | add o st en =>
    obtain ⟨s', he, hg', -⟩ := add_spec hg hv hn
    exact ⟨s', _, he, (good_iff_inv s').mp hg'⟩
  | remove o w =>
    obtain ⟨s', he, hg', -⟩ := remove_spec hg o w
    exact ⟨s', _, he, (good_iff_inv s').mp hg'⟩
  | setQD t q =>
    exact ⟨_, _, rfl, (good_iff_inv _).mp (setQD_good hg hv q)⟩
  | getOrAdd t =>
    simp only [Op.negTime, decide_eq_false_iff_not] at hn
    obtain ⟨s', he, hg', -⟩ := getOrAdd_spec hg (t := t) (by omega)
    exact ⟨s', _, he, (good_iff_inv s').mp hg'⟩
  | iterAll cls a b incl mode => exact ⟨s, _, rfl, hI⟩
  | iterPrev t cls eq incl =>
    simp only [Op.negTime, decide_eq_false_iff_not] at hn
    exact ⟨s, _, by simp only [step, iterPrev_spec hg (t := t) (by omega), Except.map]; rfl, hI⟩
  | iterNext t cls eq incl =>
    simp only [Op.negTime, decide_eq_false_iff_not] at hn
    exact ⟨s, _, by simp only [step, iterNext_spec hg (t := t) (by omega), Except.map]; rfl, hI⟩
  | first => exact ⟨s, _, rfl, hI⟩
  | last => exact ⟨s, _, rfl, hI⟩
  | getPoint t =>
    simp only [Op.negTime, decide_eq_false_iff_not] at hn
    exact ⟨s, .point ((getPoint s.points t).map (·.t)), by simp [step, hn], hI⟩
  | quarterDurations a b => exact ⟨s, _, rfl, hI⟩

theorem step_preserves {s s' : Part} {out : Out} (hI : Inv s) {op : Op} (hv : Valid s op)
    (h : step s op = .ok (s', out)) : Inv s' := by
  cases hn : op.negTime with
  | true => rw [negTime_rejected s op hn] at h; cases h
  | false =>
    obtain ⟨s'', out', he, hI'⟩ := step_ok hI hv hn
    rw [he] at h
    cases h
    exact hI'

/-- read-only operations return the state they were given -/
def Op.isQuery : Op → Bool
  | .iterAll .. | .iterPrev .. | .iterNext .. | .first | .last | .getPoint _ | .quarterDurations .. => true
  | _ => false

theorem query_state {s s' : Part} {out : Out} {op : Op} (hq : op.isQuery = true)
    (h : step s op = .ok (s', out)) : s' = s := by
  cases op with
  | iterAll cls a b incl mode => simp only [step, Except.ok.injEq, Prod.mk.injEq] at h; exact h.1.symm
  | iterPrev t cls eq incl =>
    simp only [step] at h
    cases hr : iterLinks s (·.prev) t cls eq incl with
    | error e => simp [hr, Except.map] at h
    | ok r => simp only [hr, Except.map, Except.ok.injEq, Prod.mk.injEq] at h; exact h.1.symm
  | iterNext t cls eq incl =>
    simp only [step] at h
    cases hr : iterLinks s (·.next) t cls eq incl with
    | error e => simp [hr, Except.map] at h
    | ok r => simp only [hr, Except.map, Except.ok.injEq, Prod.mk.injEq] at h; exact h.1.symm
  | first => simp only [step, Except.ok.injEq, Prod.mk.injEq] at h; exact h.1.symm
  | last => simp only [step, Except.ok.injEq, Prod.mk.injEq] at h; exact h.1.symm
  | getPoint t =>
    simp only [step] at h
    split at h
    · cases h
    · simp only [Except.ok.injEq, Prod.mk.injEq] at h; exact h.1.symm
  | quarterDurations a b => simp only [step, Except.ok.injEq, Prod.mk.injEq] at h; exact h.1.symm
  | add _ _ _ => simp [Op.isQuery] at hq
  | remove _ _ => simp [Op.isQuery] at hq
  | setQD _ _ => simp [Op.isQuery] at hq
  | getOrAdd _ => simp [Op.isQuery] at hq

-- ------------------------------------------------------------------ histories

/-- the state after one operation of a history (a rejected operation leaves the state as it was) -/
def next (s : Part) (op : Op) : Part :=
  match step s op with
  | .ok (s', _) => s'
  | .error _ => s

theorem run_cons (s : Part) (op : Op) (ops : List Op) : run s (op :: ops) = run (next s op) ops := by
  unfold next
  simp only [run]
  cases step s op with
  | error e => rfl
  | ok r => rfl

/-- every operation of the history has valid arguments in the state it is applied to -/
def ValidHistory (s : Part) : List Op → Prop
  | [] => True
  | op :: ops => Valid s op ∧ ValidHistory (next s op) ops

instance : (s : Part) → (ops : List Op) → Decidable (ValidHistory s ops)
  | _, [] => isTrue trivial
  | s, op :: ops =>
    have := instDecidableValidHistory (next s op) ops
    inferInstanceAs (Decidable (Valid s op ∧ ValidHistory (next s op) ops))

theorem next_inv {s : Part} (hI : Inv s) {op : Op} (hv : Valid s op) : Inv (next s op) := by
  unfold next
  cases h : step s op with
  | error e => exact hI
  | ok r =>
    obtain ⟨s', out⟩ := r
    exact step_preserves hI hv h

theorem run_inv {s : Part} (hI : Inv s) (ops : List Op) (hv : ValidHistory s ops) : Inv (run s ops) := by
  induction ops generalizing s with
  | nil => exact hI
  | cons op ops ih =>
    rw [run_cons]
    exact ih (next_inv hI hv.1) hv.2

theorem init_inv (q : Nat) : Inv (Part.init q) := by
  refine ⟨?_, ?_, ?_, ?_, ?_, ?_, ?_, ?_, ?_, ?_, ?_, ?_, ?_⟩ <;> simp [Part.init, Part.times, LinksFrom]

-- ------------------------------------------------------------------ queries in terms of registered objects

/-- the class filter as the property states it: the exact class or, with `include_subclasses`, any
subclass according to the MRO of the live classes; `cls = none` stands for `object` (every object is an
instance, none has it as exact class) -/
def ClassSpec (cls : Option Nat) (incl : Bool) (k : Nat) : Prop :=
  match cls with
  | none => incl = true
  | some c => if incl then isSubclass k c = true else k = c

theorem clsMatch_spec {cls : Option Nat} {incl : Bool} {k : Nat} (hk : k < Gen.numClasses)
    (hc : ∀ c, cls = some c → c < Gen.numClasses) :
    clsMatch cls incl k ↔ ClassSpec cls incl k := by
  cases cls with
  | none =>
    have := objectSubclasses_tab.2 k (List.mem_range.mpr hk)
    simp [clsMatch, ClassSpec, subSeq, this]
  | some c =>
    have hc' := hc c rfl
    have hd := iterSubclasses_desc_tab c (List.mem_range.mpr hc') k (List.mem_range.mpr hk)
    have hr := isSubclass_refl_tab c (List.mem_range.mpr hc')
    cases incl with
    | false => simp [clsMatch, ClassSpec, eq_comm]
    | true =>
      simp only [clsMatch, ClassSpec, subSeq, Option.some.injEq, true_and, if_true]
      rw [hd]
      constructor
      · rintro (rfl | ⟨-, h⟩)
        · exact hr
        · exact h
      · intro h
        by_cases hkc : k = c
        · exact Or.inl hkc.symm
        · exact Or.inr ⟨hkc, h⟩

def inRange (a b : Option Int) (τ : Int) : Prop :=
  (∀ x, a = some x → x ≤ τ) ∧ (∀ y, b = some y → τ < y)

theorem mem_rangePoints_times {pts : List Point} {a b : Option Int} {τ : Int} :
    τ ∈ (rangePoints pts a b).map (·.t) ↔ τ ∈ pts.map (·.t) ∧ inRange a b τ := by
  simp only [rangePoints, List.mem_map, List.mem_filter, Bool.and_eq_true, inRange]
  constructor
  · rintro ⟨p, ⟨hp, h1, h2⟩, rfl⟩
    refine ⟨⟨p, hp, rfl⟩, ?_, ?_⟩
    · intro x hx; subst hx; simpa [geOpt] using h1
    · intro y hy; subst hy; simpa [ltOptB] using h2
  · rintro ⟨⟨p, hp, rfl⟩, h1, h2⟩
    refine ⟨p, ⟨hp, ?_, ?_⟩, rfl⟩
    · cases a with
      | none => rfl
      | some x => simpa [geOpt] using h1 x rfl
    · cases b with
      | none => rfl
      | some y => simpa [ltOptB] using h2 y rfl

theorem known_of_at {s : Part} {o : ObjRef} {sd : Side} {τ : Int} (h : (getObj s.objs o).at sd = some τ) :
    ∃ e ∈ s.objs, e.ref = o := by
  rcases getObj_mem_or_blank s.objs o with ⟨hm, _⟩ | ⟨hb, _⟩
  · exact ⟨_, hm, getObj_ref _ _⟩
  · rw [hb] at h
    cases sd <;> simp [blank, ObjSt.at] at h

theorem iterAll_spec {s : Part} (hI : Inv s) (cls : Option Nat) (a b : Option Int) (incl : Bool) (mode : Mode)
    (hk : ∀ e ∈ s.objs, e.ref.cls < Gen.numClasses) (hc : ∀ c, cls = some c → c < Gen.numClasses) :
    (iterAll s cls a b incl mode).Nodup
    ∧ (∀ o, o ∈ iterAll s cls a b incl mode ↔
        ∃ τ, (getObj s.objs o).at (mode.side) = some τ ∧ inRange a b τ ∧ ClassSpec cls (inclEff cls incl) o.cls)
    ∧ (iterAll s cls a b incl mode).Pairwise (fun o1 o2 => ∀ t1 t2,
        (getObj s.objs o1).at (mode.side) = some t1 → (getObj s.objs o2).at (mode.side) = some t2 →
        t1 ≤ t2) := by
  have hg : Good s := (good_iff_inv s).mpr hI
  have hsortedL : ((rangePoints s.points a b).map (·.t)).Pairwise (· < ·) :=
    (List.Pairwise.sublist (List.Sublist.map _ List.filter_sublist) hI.sorted)
  have hsub : ∀ p ∈ rangePoints s.points a b, p ∈ s.points := fun p hp => (List.mem_filter.mp hp).1
  have key := flatMap_points_spec hg (mode.side) cls (inclEff cls incl)
    (rangePoints s.points a b) hsub (· < ·) hsortedL (fun p _ p' _ hr => by omega)
  rw [iterAll_eq hI.sorted]
  obtain ⟨k1, k2, k3⟩ := key
  refine ⟨k1, ?_, ?_⟩
  · intro o
    rw [k2 o]
    constructor
    · rintro ⟨τ, hτ, hmem, hm⟩
      obtain ⟨e, he, hr⟩ := known_of_at hτ
      have hcls : o.cls < Gen.numClasses := by rw [← hr]; exact hk e he
      exact ⟨τ, hτ, (mem_rangePoints_times.mp hmem).2, (clsMatch_spec hcls hc).mp hm⟩
    · rintro ⟨τ, hτ, hr, hm⟩
      obtain ⟨e, he, hre⟩ := known_of_at hτ
      have hcls : o.cls < Gen.numClasses := by rw [← hre]; exact hk e he
      refine ⟨τ, hτ, mem_rangePoints_times.mpr ⟨hg.1.getObj_refOn _ o hτ, hr⟩, (clsMatch_spec hcls hc).mpr hm⟩
  · apply k3.imp
    intro o1 o2 h t1 t2 h1 h2
    rcases h t1 t2 h1 h2 with h | h <;> omega

theorem mem_prevPoints_times {pts : List Point} {t τ : Int} {eq : Bool} :
    τ ∈ (prevPoints pts t eq).map (·.t) ↔ τ ∈ pts.map (·.t) ∧ (τ < t ∨ (eq = true ∧ τ = t)) := by
  simp only [prevPoints, List.map_reverse, List.mem_reverse, List.mem_map, List.mem_filter, Bool.or_eq_true,
    decide_eq_true_eq, Bool.and_eq_true]
  constructor
  · rintro ⟨p, ⟨hp, h⟩, rfl⟩; exact ⟨⟨p, hp, rfl⟩, h⟩
  · rintro ⟨⟨p, hp, rfl⟩, h⟩; exact ⟨p, ⟨hp, h⟩, rfl⟩

theorem mem_nextPoints_times {pts : List Point} {t τ : Int} {eq : Bool} :
    τ ∈ (nextPoints pts t eq).map (·.t) ↔ τ ∈ pts.map (·.t) ∧ (t < τ ∨ (eq = true ∧ τ = t)) := by
  simp only [nextPoints, List.mem_map, List.mem_filter, Bool.or_eq_true, decide_eq_true_eq, Bool.and_eq_true]
  constructor
  · rintro ⟨p, ⟨hp, h⟩, rfl⟩; exact ⟨⟨p, hp, rfl⟩, h⟩
  · rintro ⟨⟨p, hp, rfl⟩, h⟩; exact ⟨p, ⟨hp, h⟩, rfl⟩

/-- `iter_prev`: exactly the matching objects starting before `t` (at `t` too with `eq`), latest first -/
theorem iterPrev_objs_spec {s : Part} (hI : Inv s) (t : Int) (cls : Option Nat) (eq incl : Bool)
    (hk : ∀ e ∈ s.objs, e.ref.cls < Gen.numClasses) (hc : ∀ c, cls = some c → c < Gen.numClasses) :
    let out := (prevPoints s.points t eq).flatMap fun p => iterReg p.starting cls incl
    out.Nodup
    ∧ (∀ o, o ∈ out ↔ ∃ τ, (getObj s.objs o).start = some τ ∧ (τ < t ∨ (eq = true ∧ τ = t))
        ∧ ClassSpec cls incl o.cls)
    ∧ out.Pairwise (fun o1 o2 => ∀ t1 t2, (getObj s.objs o1).start = some t1 →
        (getObj s.objs o2).start = some t2 → t2 ≤ t1) := by
  intro out
  have hg : Good s := (good_iff_inv s).mpr hI
  have hsub : ∀ p ∈ prevPoints s.points t eq, p ∈ s.points := by
    intro p hp
    simp only [prevPoints, List.mem_reverse] at hp
    exact (List.mem_filter.mp hp).1
  have hsortedL : ((prevPoints s.points t eq).map (·.t)).Pairwise (· > ·) := by
    simp only [prevPoints, List.map_reverse, List.pairwise_reverse]
    exact (List.Pairwise.sublist (List.Sublist.map _ List.filter_sublist) hI.sorted)
  obtain ⟨k1, k2, k3⟩ := flatMap_points_spec hg .start cls incl (prevPoints s.points t eq) hsub (· > ·) hsortedL
    (fun p _ p' _ hr => by omega)
  refine ⟨k1, ?_, ?_⟩
  · intro o
    have := k2 o
    simp only [Point.reg] at this
    rw [this]
    constructor
    · rintro ⟨τ, hτ, hmem, hm⟩
      obtain ⟨e, he, hr⟩ := known_of_at hτ
      have hcls : o.cls < Gen.numClasses := by rw [← hr]; exact hk e he
      exact ⟨τ, hτ, (mem_prevPoints_times.mp hmem).2, (clsMatch_spec hcls hc).mp hm⟩
    · rintro ⟨τ, hτ, hr, hm⟩
      obtain ⟨e, he, hre⟩ := known_of_at (sd := .start) hτ
      have hcls : o.cls < Gen.numClasses := by rw [← hre]; exact hk e he
      exact ⟨τ, hτ, mem_prevPoints_times.mpr ⟨hg.1.getObj_refOn .start o hτ, hr⟩, (clsMatch_spec hcls hc).mpr hm⟩
  · apply k3.imp
    intro o1 o2 h t1 t2 h1 h2
    rcases h t1 t2 h1 h2 with h | h <;> omega

/-- `iter_next`: exactly the matching objects starting after `t` (at `t` too with `eq`), earliest first -/
theorem iterNext_objs_spec {s : Part} (hI : Inv s) (t : Int) (cls : Option Nat) (eq incl : Bool)
    (hk : ∀ e ∈ s.objs, e.ref.cls < Gen.numClasses) (hc : ∀ c, cls = some c → c < Gen.numClasses) :
    let out := (nextPoints s.points t eq).flatMap fun p => iterReg p.starting cls incl
    out.Nodup
    ∧ (∀ o, o ∈ out ↔ ∃ τ, (getObj s.objs o).start = some τ ∧ (t < τ ∨ (eq = true ∧ τ = t))
        ∧ ClassSpec cls incl o.cls)
    ∧ out.Pairwise (fun o1 o2 => ∀ t1 t2, (getObj s.objs o1).start = some t1 →
        (getObj s.objs o2).start = some t2 → t1 ≤ t2) := by
  intro out
  have hg : Good s := (good_iff_inv s).mpr hI
  have hsub : ∀ p ∈ nextPoints s.points t eq, p ∈ s.points := fun p hp => (List.mem_filter.mp hp).1
  have hsortedL : ((nextPoints s.points t eq).map (·.t)).Pairwise (· < ·) :=
    (List.Pairwise.sublist (List.Sublist.map _ List.filter_sublist) hI.sorted)
  obtain ⟨k1, k2, k3⟩ := flatMap_points_spec hg .start cls incl (nextPoints s.points t eq) hsub (· < ·) hsortedL
    (fun p _ p' _ hr => by omega)
  refine ⟨k1, ?_, ?_⟩
  · intro o
    have := k2 o
    simp only [Point.reg] at this
    rw [this]
    constructor
    · rintro ⟨τ, hτ, hmem, hm⟩
      obtain ⟨e, he, hr⟩ := known_of_at hτ
      have hcls : o.cls < Gen.numClasses := by rw [← hr]; exact hk e he
      exact ⟨τ, hτ, (mem_nextPoints_times.mp hmem).2, (clsMatch_spec hcls hc).mp hm⟩
    · rintro ⟨τ, hτ, hr, hm⟩
      obtain ⟨e, he, hre⟩ := known_of_at (sd := .start) hτ
      have hcls : o.cls < Gen.numClasses := by rw [← hre]; exact hk e he
      exact ⟨τ, hτ, mem_nextPoints_times.mpr ⟨hg.1.getObj_refOn .start o hτ, hr⟩, (clsMatch_spec hcls hc).mpr hm⟩
  · apply k3.imp
    intro o1 o2 h t1 t2 h1 h2
    rcases h t1 t2 h1 h2 with h | h <;> omega

/-- the time points are exactly the times of the registered objects plus the requested ones -/
theorem times_spec {s : Part} (hI : Inv s) (x : Int) :
    x ∈ s.times ↔ (∃ e ∈ s.objs, e.start = some x ∨ e.stop = some x) ∨ x ∈ s.requested := by
  constructor
  · intro hx
    obtain ⟨p, hp, rfl⟩ := List.mem_map.mp hx
    rcases hI.nonempty p hp with h | h | h
    · left
      obtain ⟨o, ho⟩ := List.exists_mem_of_ne_nil _ h
      have hk := hI.listedKnown .start p hp o ho
      obtain ⟨e, he, rfl⟩ := List.mem_map.mp hk
      exact ⟨e, he, Or.inl ((hI.listed .start e he p hp).mp ho)⟩
    · left
      obtain ⟨o, ho⟩ := List.exists_mem_of_ne_nil _ h
      have hk := hI.listedKnown .stop p hp o ho
      obtain ⟨e, he, rfl⟩ := List.mem_map.mp hk
      exact ⟨e, he, Or.inr ((hI.listed .stop e he p hp).mp ho)⟩
    · exact Or.inr h
  · rintro (⟨e, he, h | h⟩ | h)
    · exact hI.refOn .start e he x h
    · exact hI.refOn .stop e he x h
    · exact hI.requestedOn x h

theorem head_min {l : List Int} (hs : l.Pairwise (· < ·)) : ∀ h ∈ l.head?, ∀ x ∈ l, h ≤ x := by
  intro h hh x hx
  cases l with
  | nil => cases hx
  | cons a r =>
    simp at hh; subst hh
    rcases List.mem_cons.mp hx with rfl | hx
    · exact Int.le_refl _
    · exact Int.le_of_lt (List.rel_of_pairwise_cons hs hx)

theorem getLast_max {l : List Int} (hs : l.Pairwise (· < ·)) : ∀ h ∈ l.getLast?, ∀ x ∈ l, x ≤ h := by
  intro h hh x hx
  obtain ⟨ys, rfl⟩ := List.getLast?_eq_some_iff.mp hh
  rw [List.pairwise_append] at hs
  rcases List.mem_append.mp hx with hx | hx
  · exact Int.le_of_lt (hs.2.2 x hx h (by simp))
  · simp at hx; subst hx; exact Int.le_refl _

end TL
