/-
C01 helper lemmas, round 5: the class-keyed `defaultdict(_OrderedSet)` registries (Model/TimelineBuckets.lean)
against the flat insertion-ordered list of Model/Timeline.lean.
-/
import PartituraModel.Model.TimelineBuckets
import PartituraModel.Proofs.C01Order

namespace TL

/-- the dictionary `b` represents the flat list `flat`: each bucket is the list's objects of exactly that class,
in the list's order, and every class that occurs has a key -/
structure Rep (b : Buckets) (flat : List ObjRef) : Prop where
  keys : (b.map (·.1)).Nodup
  bucket : ∀ e ∈ b, e.2 = flat.filter (fun o => o.cls == e.1)
  cover : ∀ o ∈ flat, o.cls ∈ b.map (·.1)

theorem rep_empty : Rep [] [] := ⟨List.nodup_nil, by simp, by simp⟩

theorem Rep.no_key {b : Buckets} {flat : List ObjRef} (h : Rep b flat) {c : Nat} (hc : c ∉ b.map (·.1)) :
    flat.filter (fun o => o.cls == c) = [] := by
  rw [List.filter_eq_nil_iff]
  intro o ho
  have := h.cover o ho
  simp only [beq_iff_eq]
  rintro rfl
  exact hc this

theorem Rep.get {b : Buckets} {flat : List ObjRef} (h : Rep b flat) (c : Nat) :
    b.get c = flat.filter (fun o => o.cls == c) := by
  unfold Buckets.get
  cases hf : b.find? (fun e => e.1 == c) with
  | some e =>
    have hm := List.mem_of_find?_eq_some hf
    have hk : e.1 = c := by simpa using List.find?_some hf
    simp only [Option.map_some, Option.getD_some]
    rw [h.bucket e hm, hk]
  | none =>
    simp only [Option.map_none, Option.getD_none]
    symm
    apply h.no_key
    intro hc
    obtain ⟨e, he, hk⟩ := List.mem_map.mp hc
    have := List.find?_eq_none.mp hf e he
    simp [hk] at this

theorem any_key_iff (b : Buckets) (c : Nat) : b.any (fun e => e.1 == c) = true ↔ c ∈ b.map (·.1) := by
  simp only [List.any_eq_true, beq_iff_eq, List.mem_map]

theorem rep_touch {b : Buckets} {flat : List ObjRef} (h : Rep b flat) (c : Nat) : Rep (b.touch c) flat := by
  unfold Buckets.touch
  by_cases hk : c ∈ b.map (·.1)
  · rw [if_pos ((any_key_iff b c).mpr hk)]; exact h
  · rw [if_neg (fun hc => hk ((any_key_iff b c).mp hc))]
    refine ⟨?_, ?_, ?_⟩
    · rw [List.map_append, List.nodup_append]
      refine ⟨h.keys, by simp, ?_⟩
      intro a ha b' hb'
      simp only [List.map_cons, List.map_nil, List.mem_singleton] at hb'
      subst hb'
      rintro rfl
      exact hk ha
    · intro e he
      rcases List.mem_append.mp he with he | he
      · exact h.bucket e he
      · simp only [List.mem_singleton] at he
        subst he
        exact (h.no_key hk).symm
    · intro o ho
      rw [List.map_append]
      exact List.mem_append.mpr (Or.inl (h.cover o ho))

theorem touch_has_key (b : Buckets) (c : Nat) : c ∈ (b.touch c).map (·.1) := by
  unfold Buckets.touch
  by_cases hk : c ∈ b.map (·.1)
  · rw [if_pos ((any_key_iff b c).mpr hk)]; exact hk
  · rw [if_neg (fun hc => hk ((any_key_iff b c).mp hc))]
    simp

theorem update_keys (b : Buckets) (c : Nat) (f : List ObjRef → List ObjRef) :
    (b.update c f).map (·.1) = (b.touch c).map (·.1) := by
  unfold Buckets.update
  rw [List.map_map]
  apply List.map_congr_left
  intro e _
  simp only [Function.comp]
  split <;> rfl

/-- the generic step: the bucket of `c` is transformed by `f`, the other buckets stay -/
theorem rep_update {b : Buckets} {flat flat' : List ObjRef} (h : Rep b flat) (c : Nat)
    (f : List ObjRef → List ObjRef)
    (hf : ∀ c', flat'.filter (fun o => o.cls == c')
      = if c' = c then f (flat.filter (fun o => o.cls == c)) else flat.filter (fun o => o.cls == c'))
    (hcov : ∀ o ∈ flat', o.cls = c ∨ o ∈ flat) : Rep (b.update c f) flat' := by
  have ht := rep_touch h c
  refine ⟨by rw [update_keys]; exact ht.keys, ?_, ?_⟩
  · intro e' he'
    unfold Buckets.update at he'
    obtain ⟨e, he, rfl⟩ := List.mem_map.mp he'
    have hb := ht.bucket e he
    by_cases hk : e.1 = c
    · simp only [hk, if_true]
      rw [hf c, if_pos rfl, hb, hk]
    · simp only [hk, if_false]
      rw [hf e.1, if_neg hk, hb]
  · intro o ho
    rw [update_keys]
    rcases hcov o ho with hc | hm
    · rw [hc]; exact touch_has_key b c
    · exact ht.cover o hm

theorem filter_regAdd (l : List ObjRef) (o : ObjRef) (c : Nat) :
    (regAdd l o).filter (fun x => x.cls == c)
      = if c = o.cls then regAdd (l.filter (fun x => x.cls == o.cls)) o else l.filter (fun x => x.cls == c) := by
  unfold regAdd
  by_cases hm : o ∈ l
  · simp only [hm, if_true]
    by_cases hc : c = o.cls
    · subst hc
      have : o ∈ l.filter (fun x => x.cls == o.cls) := List.mem_filter.mpr ⟨hm, by simp⟩
      simp [this]
    · simp [hc]
  · simp only [hm, if_false, List.filter_append]
    by_cases hc : c = o.cls
    · subst hc
      have : o ∉ l.filter (fun x => x.cls == o.cls) := fun h => hm (List.mem_filter.mp h).1
      simp [this]
    · have : ¬ o.cls = c := fun e => hc e.symm
      simp [hc, this]

theorem filter_regRemove (l : List ObjRef) (o : ObjRef) (c : Nat) :
    (regRemove l o).filter (fun x => x.cls == c)
      = if c = o.cls then regRemove (l.filter (fun x => x.cls == o.cls)) o else l.filter (fun x => x.cls == c) := by
  unfold regRemove
  rw [List.filter_filter]
  by_cases hc : c = o.cls
  · subst hc
    simp only [if_true, List.filter_filter]
    apply List.filter_congr
    intro x _
    simp [Bool.and_comm]
  · simp only [hc, if_false]
    apply List.filter_congr
    intro x _
    by_cases hx : x.cls = c
    · have : x ≠ o := by rintro rfl; exact hc hx.symm
      simp [hx, this]
    · simp [hx]

theorem rep_add {b : Buckets} {flat : List ObjRef} (h : Rep b flat) (o : ObjRef) :
    Rep (b.add o) (regAdd flat o) := by
  refine rep_update h o.cls _ (fun c' => filter_regAdd flat o c') ?_
  intro x hx
  rcases mem_regAdd.mp hx with hx | rfl
  · exact Or.inr hx
  · exact Or.inl rfl

theorem rep_removeTouch {b : Buckets} {flat : List ObjRef} (h : Rep b flat) (o : ObjRef) :
    Rep (b.removeTouch o) (regRemove flat o) := by
  refine rep_update h o.cls _ (fun c' => filter_regRemove flat o c') ?_
  intro x hx
  exact Or.inr (mem_regRemove.mp hx).1

theorem rep_removeIfKey {b : Buckets} {flat : List ObjRef} (h : Rep b flat) (o : ObjRef) :
    Rep (b.removeIfKey o) (regRemove flat o) := by
  unfold Buckets.removeIfKey
  by_cases hk : o.cls ∈ b.map (·.1)
  · rw [if_pos ((any_key_iff b o.cls).mpr hk)]
    exact rep_removeTouch h o
  · rw [if_neg (fun hc => hk ((any_key_iff b o.cls).mp hc))]
    have : regRemove flat o = flat := by
      unfold regRemove
      rw [List.filter_eq_self]
      intro a ha
      simp only [ne_eq, decide_not, Bool.not_eq_eq_eq_not, Bool.not_true, decide_eq_false_iff_not]
      rintro rfl
      exact hk (h.cover a ha)
    rw [this]
    exact h

/-- `sum(len(bucket))` is the length of the flat list -/
theorem rep_total : ∀ {b : Buckets} {flat : List ObjRef}, Rep b flat → b.total = flat.length
  | [], flat, h => by
    have : flat = [] := by
      cases flat with
      | nil => rfl
      | cons o r => have := h.cover o (by simp); simp at this
    subst this; rfl
  | e :: rest, flat, h => by
    have hk : e.1 ∉ rest.map (·.1) ∧ (rest.map (·.1)).Nodup := by
      have := h.keys
      rw [List.map_cons] at this
      exact List.nodup_cons.mp this
    have hrest : Rep rest (flat.filter (fun o => !(o.cls == e.1))) := by
      refine ⟨hk.2, ?_, ?_⟩
      · intro e' he'
        rw [h.bucket e' (by simp [he']), List.filter_filter]
        apply List.filter_congr
        intro x _
        by_cases hx : x.cls = e'.1
        · have : ¬ x.cls = e.1 := by
            rw [hx]; rintro heq
            exact hk.1 (heq ▸ List.mem_map_of_mem he')
          have e1 : (x.cls == e'.1) = true := by simpa using hx
          have e2 : (x.cls == e.1) = false := by simpa using this
          rw [e1, e2]; rfl
        · have e1 : (x.cls == e'.1) = false := by simpa using hx
          rw [e1]; simp
      · intro o ho
        obtain ⟨hm, hne⟩ := List.mem_filter.mp ho
        have := h.cover o hm
        simp only [List.map_cons, List.mem_cons] at this
        rcases this with heq | hin
        · simp [heq] at hne
        · exact hin
    have ih := rep_total hrest
    have hb := h.bucket e (by simp)
    simp only [Buckets.total, List.map_cons, List.sum_cons] at ih ⊢
    rw [hb, ih]
    exact (List.length_eq_length_filter_add (fun (o : ObjRef) => o.cls == e.1)).symm

theorem classWalk_eq (cls : Option Nat) (incl : Bool) : classWalk cls incl = classOrder cls incl := rfl

theorem rep_iter_aux (flat : List ObjRef) : ∀ (ws : List Nat) (acc : List ObjRef) (b : Buckets), Rep b flat →
    (ws.foldl (fun acc c => (acc.1 ++ acc.2.get c, acc.2.touch c)) (acc, b)).1
      = acc ++ ws.flatMap (fun c => flat.filter (fun o => o.cls == c))
    ∧ Rep (ws.foldl (fun acc c => (acc.1 ++ acc.2.get c, acc.2.touch c)) (acc, b)).2 flat
  | [], acc, b, h => by simp [h]
  | c :: ws, acc, b, h => by
    simp only [List.foldl_cons, List.flatMap_cons]
    obtain ⟨h1, h2⟩ := rep_iter_aux flat ws (acc ++ b.get c) (b.touch c) (rep_touch h c)
    refine ⟨?_, h2⟩
    rw [h1, h.get c, List.append_assoc]

/-- `iter_starting(cls, incl)` on the dictionary yields what the flat model yields, in the same order; the keys
it creates do not change what the dictionary represents -/
theorem rep_iter {b : Buckets} {flat : List ObjRef} (h : Rep b flat) (cls : Option Nat) (incl : Bool) :
    (b.iter cls incl).1 = iterReg flat cls incl ∧ Rep (b.iter cls incl).2 flat := by
  unfold Buckets.iter
  obtain ⟨h1, h2⟩ := rep_iter_aux flat (classWalk cls incl) [] b h
  refine ⟨?_, h2⟩
  rw [h1, iterReg_eq_classOrder, classWalk_eq]
  rfl

theorem stepB_refines {b : Buckets} {flat : List ObjRef} (h : Rep b flat) (op : BOp) :
    (stepB b op).2 = (stepF flat op).2 ∧ Rep (stepB b op).1 (stepF flat op).1 := by
  cases op with
  | add o => exact ⟨rfl, rep_add h o⟩
  | removeTouch o => exact ⟨rfl, rep_removeTouch h o⟩
  | removeIfKey o => exact ⟨rfl, rep_removeIfKey h o⟩
  | iter cls incl =>
    obtain ⟨h1, h2⟩ := rep_iter h cls incl
    exact ⟨by simp only [stepB, stepF, h1], h2⟩
  | total => exact ⟨by simp only [stepB, stepF, rep_total h], h⟩

theorem runB_refines : ∀ (ops : List BOp) {b : Buckets} {flat : List ObjRef}, Rep b flat →
    (runB b ops).2 = (runF flat ops).2 ∧ Rep (runB b ops).1 (runF flat ops).1
  | [], _, _, h => ⟨rfl, h⟩
  | op :: ops, b, flat, h => by
    obtain ⟨h1, h2⟩ := stepB_refines h op
    obtain ⟨h3, h4⟩ := runB_refines ops h2
    simp only [runB, runF]
    exact ⟨by rw [h1, h3], h4⟩

end TL
