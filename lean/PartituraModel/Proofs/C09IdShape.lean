/-
C09 helper lemmas (round 5): the suffix `update_note_ids_after_unfolding` appends can be read back whatever the original id
looks like (ids that end in `-<n>`, that contain the separator, that are numbers, prefixes of one another …), and the
ranks it hands out are pairwise different among the notes with one id — with or without duplicate ids in the original.
-/
import PartituraModel.Proofs.C09Ids

namespace C09
open Model.Unfold

/-! ### decimal numerals -/

def decodeDigits (l : List Char) : Nat := l.foldl (fun acc c => acc * 10 + (c.toNat - 48)) 0

theorem decodeDigits_append (l : List Char) (c : Char) :
    decodeDigits (l ++ [c]) = decodeDigits l * 10 + (c.toNat - 48) := by
  simp [decodeDigits, List.foldl_append]

theorem decode_toDigits (n : Nat) : decodeDigits (Nat.toDigits 10 n) = n := by
  induction n using Nat.strongRecOn with
  | _ n ih =>
    by_cases h : n < 10
    · rw [Nat.toDigits_of_lt_base h]
      simp [decodeDigits, Nat.toNat_digitChar_sub_48_of_lt_ten h]
    · rw [Nat.toDigits_of_base_le (by decide) (by omega), decodeDigits_append, ih (n / 10) (by omega),
        Nat.toNat_digitChar_sub_48_of_lt_ten (Nat.mod_lt n (by decide))]
      omega

theorem toDigits_inj (a b : Nat) (h : Nat.toDigits 10 a = Nat.toDigits 10 b) : a = b := by
  have := congrArg decodeDigits h
  simpa [decode_toDigits] using this

theorem dash_not_in_toDigits (n : Nat) : ¬ '-' ∈ Nat.toDigits 10 n := by
  intro h
  have := Nat.isDigit_of_mem_toDigits (by decide) (by decide) h
  simp [Char.isDigit] at this

/-! ### splitting at the last separator -/

theorem split_last_sep {α : Type} (sep : α) : ∀ (xs ys ds es : List α), sep ∉ ds → sep ∉ es →
    xs ++ sep :: ds = ys ++ sep :: es → xs = ys ∧ ds = es := by
  intro xs
  induction xs with
  | nil =>
    intro ys ds es hd he h
    cases ys with
    | nil => simpa using h
    | cons y ys' =>
      simp only [List.nil_append, List.cons_append, List.cons.injEq] at h
      exact absurd (by rw [h.2]; simp) hd
  | cons x xs' ih =>
    intro ys ds es hd he h
    cases ys with
    | nil =>
      simp only [List.nil_append, List.cons_append, List.cons.injEq] at h
      exact absurd (by rw [← h.2]; simp) he
    | cons y ys' =>
      simp only [List.cons_append, List.cons.injEq] at h
      obtain ⟨r1, r2⟩ := ih ys' ds es hd he h.2
      exact ⟨by rw [h.1, r1], r2⟩

/-- the suffixed id determines the original id and the number, whatever the original id looks like -/
theorem suffix_unambiguous_aux (s t : String) (a b : Nat)
    (h : s ++ "-" ++ toString a = t ++ "-" ++ toString b) : s = t ∧ a = b := by
  have h' := congrArg String.toList h
  simp only [String.toList_append, Nat.toString_eq_repr, Nat.toList_repr, List.append_assoc] at h'
  have hs : ("-" : String).toList = ['-'] := by decide
  rw [hs] at h'
  simp only [List.cons_append, List.nil_append] at h'
  obtain ⟨r1, r2⟩ := split_last_sep '-' s.toList t.toList _ _ (dash_not_in_toDigits a) (dash_not_in_toDigits b) h'
  exact ⟨String.toList_inj.mp r1, toDigits_inj a b r2⟩

/-! ### ranks are pairwise different -/

theorem noteBefore_irrefl (i : Nat) (x : OObj) : noteBefore (i, x) i x = false := by
  simp [noteBefore]

theorem noteBefore_trans (i j k : Nat) (x y z : OObj)
    (h1 : noteBefore (i, x) j y = true) (h2 : noteBefore (j, y) k z = true) : noteBefore (i, x) k z = true := by
  simp only [noteBefore, Bool.or_eq_true, Bool.and_eq_true, decide_eq_true_eq] at *
  omega

theorem noteBefore_total (i j : Nat) (x y : OObj) (hij : i ≠ j) :
    noteBefore (i, x) j y = true ∨ noteBefore (j, y) i x = true := by
  simp only [noteBefore, Bool.or_eq_true, Bool.and_eq_true, decide_eq_true_eq]
  omega

theorem filter_length_lt_of_imp {α : Type} (P Q : α → Bool) (l : List α) (himp : ∀ a ∈ l, P a = true → Q a = true)
    (w : α) (hw : w ∈ l) (hwP : P w = false) (hwQ : Q w = true) : (l.filter P).length < (l.filter Q).length := by
  induction l with
  | nil => simp at hw
  | cons a as ih =>
    have hle : ∀ (l' : List α), (∀ a ∈ l', P a = true → Q a = true) → (l'.filter P).length ≤ (l'.filter Q).length := by
      intro l' h
      induction l' with
      | nil => simp
      | cons b bs ihb =>
        have hb := h b (by simp)
        have := ihb (fun a ha => h a (List.mem_cons_of_mem _ ha))
        simp only [List.filter_cons]
        cases hP : P b <;> cases hQ : Q b <;> simp_all <;> omega
    have himp' : ∀ a ∈ as, P a = true → Q a = true := fun a ha => himp a (List.mem_cons_of_mem _ ha)
    rcases List.mem_cons.mp hw with rfl | hw'
    · have := hle as himp'
      simp only [List.filter_cons, hwP, hwQ]
      simp; omega
    · have := ih himp' hw'
      have ha := himp a (by simp)
      simp only [List.filter_cons]
      cases hP : P a <;> cases hQ : Q a <;> simp_all <;> omega

/-- two notes with the same id at different positions get different ranks: the one that comes first in
`sorted(part.notes)` gets the smaller one -/
theorem idRank_lt (out : List OObj) (i j : Nat) (x y : OObj) (hx : out[i]? = some x) (hy : out[j]? = some y)
    (hkx : x.kind = .note) (hid : x.nid = y.nid) (hb : noteBefore (i, x) j y = true) :
    idRank out i x < idRank out j y := by
  unfold idRank
  have hmem : (i, x) ∈ enum 0 out := (enum_mem out 0 i x).mpr ⟨Nat.zero_le _, by simpa using hx⟩
  have := filter_length_lt_of_imp
    (fun q : Nat × OObj => decide (q.2.kind = Kind.note) && decide (q.2.nid = x.nid) && noteBefore q i x)
    (fun q : Nat × OObj => decide (q.2.kind = Kind.note) && decide (q.2.nid = y.nid) && noteBefore q j y)
    (enum 0 out)
    (by
      intro q _ hq
      simp only [Bool.and_eq_true, decide_eq_true_eq] at hq ⊢
      exact ⟨⟨hq.1.1, by rw [hq.1.2, hid]⟩, noteBefore_trans q.1 i j q.2 x y hq.2 hb⟩)
    (i, x) hmem
    (by simp [noteBefore_irrefl])
    (by simp [hkx, hid, hb])
  omega

theorem idRank_ne (out : List OObj) (i j : Nat) (x y : OObj) (hx : out[i]? = some x) (hy : out[j]? = some y)
    (hkx : x.kind = .note) (hky : y.kind = .note) (hid : x.nid = y.nid) (hij : i ≠ j) :
    idRank out i x ≠ idRank out j y := by
  rcases noteBefore_total i j x y hij with h | h
  · have := idRank_lt out i j x y hx hy hkx hid h; omega
  · have := idRank_lt out j i y x hy hx hky hid.symm h; omega

end C09
