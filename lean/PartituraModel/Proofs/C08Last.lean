/-
C08 — helper lemmas for closing the last bar (fix C08-17): the number of beats per bar looked up by position in
beats (`numAtBeats`, the twin of `denAtBeats`), and injectivity of the written signature times.
-/
import PartituraModel.Model.MatchTime
import PartituraModel.Proofs.C08Sort
import PartituraModel.Proofs.C08Mixed
import Mathlib.Tactic.Linarith

namespace C08L
open Model Model.MatchTime C08S C08M

/-- in a list whose keys are strictly increasing two members with the same key are the same member -/
theorem pairwise_lt_inj {α : Type} (f : α → Rat) : ∀ (l : List α), (l.map f).Pairwise (· < ·) →
    ∀ x ∈ l, ∀ y ∈ l, f x = f y → x = y := by
  intro l
  induction l with
  | nil => intro _ x hx; simp at hx
  | cons a r ih =>
    intro h x hx y hy he
    simp only [List.map_cons, List.pairwise_cons] at h
    rcases List.mem_cons.mp hx with rfl | hx'
    · rcases List.mem_cons.mp hy with rfl | hy'
      · rfl
      · have := h.1 (f y) (List.mem_map.mpr ⟨y, hy', rfl⟩)
        linarith
    · rcases List.mem_cons.mp hy with rfl | hy'
      · have := h.1 (f x) (List.mem_map.mpr ⟨x, hx', rfl⟩)
        linarith
      · exact ih h.2 x hx' y hy' he

/-- the number of beats looked up at `b` is the one of the line `k` that is the last at or before `b` -/
theorem numAtBeats_seg (s0 : TSLine) (rest : List TSLine) (maxTime b : Rat) (k : TSLine)
    (hk : k ∈ s0 :: rest) (hkb : k.timeB ≤ b)
    (hmaxk : ∀ x ∈ s0 :: rest, x.timeB ≤ b → x.timeB ≤ k.timeB ∧ (x.timeB = k.timeB → x.num = k.num))
    (hend : b < maxTime ∨ ((s0 :: rest).getLast?.getD s0).num = k.num) :
    numAtBeats (s0 :: rest) maxTime b = k.num := by
  unfold numAtBeats
  simp only
  have hsorted := sortBy_pairwise (fun a c : Rat × Nat => decide (a.1 ≤ c.1))
    (fun a c => by
      rcases le_total a.1 c.1 with h | h
      · left; simpa using h
      · right; simpa using h)
    (fun a c e h1 h2 => by
      have h1' : a.1 ≤ c.1 := by simpa using h1
      have h2' : c.1 ≤ e.1 := by simpa using h2
      simpa using le_trans h1' h2')
    ((s0 :: rest).map (fun x => (x.timeB, x.num)) ++ [(maxTime, ((s0 :: rest).getLast?.getD s0).num)])
  have hsorted' : (sortBy (fun a c : Rat × Nat => decide (a.1 ≤ c.1))
      ((s0 :: rest).map (fun x => (x.timeB, x.num)) ++ [(maxTime, ((s0 :: rest).getLast?.getD s0).num)])).Pairwise
      (fun a c => a.1 ≤ c.1) := hsorted.imp (fun h => by simpa using h)
  have hspec := lastLE_spec (key := fun p : Rat × Nat => p.1) _ hsorted' b
  have hkmem : (k.timeB, k.num) ∈ sortBy (fun a c : Rat × Nat => decide (a.1 ≤ c.1))
      ((s0 :: rest).map (fun x => (x.timeB, x.num)) ++ [(maxTime, ((s0 :: rest).getLast?.getD s0).num)]) := by
    rw [mem_sortBy, List.mem_append]
    left
    exact List.mem_map.mpr ⟨k, hk, rfl⟩
  split
  · rename_i p hlast
    rw [hlast] at hspec
    obtain ⟨hp1, hp2, hp3⟩ := hspec
    rw [mem_sortBy, List.mem_append] at hp1
    have hkp := hp3 _ hkmem hkb
    rcases hp1 with hp1 | hp1
    · obtain ⟨x, hx, rfl⟩ := List.mem_map.mp hp1
      obtain ⟨h1, h2⟩ := hmaxk x hx hp2
      exact h2 (le_antisymm h1 hkp)
    · simp only [List.mem_singleton] at hp1
      subst hp1
      rcases hend with h | h
      · simp only at hp2
        linarith
      · exact h
  · rename_i hlast
    rw [hlast] at hspec
    exact absurd hkb (hspec _ hkmem)

theorem getLast?_getD_map_num (beats : Int → Rat) (mnum : Int → Int) (s : TSig) (rest : List TSig) :
    (((s :: rest).map (tsLineOf beats mnum)).getLast?.getD (tsLineOf beats mnum s)).num
      = ((s :: rest).getLast?.getD s).num := by
  rw [List.getLast?_map]
  cases (s :: rest).getLast? <;> rfl

end C08L
