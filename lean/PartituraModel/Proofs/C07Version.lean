/-
C07 — the version line `info(matchFileVersion,a.b.c).` for ALL a b c: the side condition `fieldsOK` of an
info-shaped template holds for any Value text without newline, and the search offset function agrees with
`search`.
-/
import PartituraModel.Model.MatchLine
import PartituraModel.Proofs.C07Search
import PartituraModel.Proofs.C07Codec
import PartituraModel.Proofs.C07Line
import PartituraModel.Proofs.C07Full

namespace C07Line
open Model Model.Template Model.MatchCodec Model.MatchLine

-- ---------------------------------------------------------------- search with offset

theorem searchFrom_search (q : List Seg) : ∀ (s : List Char) (k : Nat),
    (searchFrom q s k).map (·.2) = search q s := by
  intro s
  induction s with
  | nil => intro k; simp only [searchFrom, search, Option.map_map]; cases matchSegs q [] <;> rfl
  | cons c s ih =>
    intro k
    simp only [searchFrom, search]
    cases h : matchSegs q (c :: s) with
    | some r => rfl
    | none => exact ih (k + 1)

/-- behind a prefix in which no anchored match starts, the match is found exactly at the end of the prefix -/
theorem searchFrom_skip (q : List Seg) (s : List Char) (r : List (String × List Char)) : ∀ (pre : List Char) (k : Nat),
    (∀ j, j < pre.length → matchSegs q ((pre ++ s).drop j) = none) → matchSegs q s = some r →
    searchFrom q (pre ++ s) k = some (k + pre.length, r) := by
  intro pre
  induction pre with
  | nil =>
    intro k _ h
    cases s with
    | nil => simp [searchFrom, h]
    | cons c s => simp [searchFrom, h]
  | cons c pre ih =>
    intro k hno h
    have h0 := hno 0 (by simp)
    simp only [List.drop_zero, List.cons_append] at h0
    simp only [List.cons_append, searchFrom, h0]
    rw [ih (k + 1) (fun j hj => by
      have := hno (j + 1) (by simp; omega)
      simpa using this) h]
    simp only [List.length_cons]
    congr 2
    omega

-- ---------------------------------------------------------------- info-shaped templates

/-- the shape all info templates share (decidable) -/
def isInfoShape (t : Template) : Bool :=
  t.out == [.lit "info(", .fld "Attribute", .lit ",", .fld "Value", .lit ")."]
    && t.pat == [pl "info(", .fld "Attribute" .notComma 1, pl ",", .fld "Value" .any 0, pl ")."]
    && t.fields == [("Attribute", Enc.strip, Dec.str), ("Value", Enc.byAttr, Dec.byAttr)]
    && lookup "matchFileVersion" t.valueBy == some (Enc.version, Dec.version)
    && t.post == Post.none

def versionTexts (x : List Char) : List (String × Str) :=
  [("Attribute", "matchFileVersion".toList), ("Value", x)]

theorem drop_length_add (x l : List Char) (k : Nat) : (x ++ l).drop (x.length + k) = l.drop k := by
  induction x with
  | nil => simp
  | cons c x ih =>
    have : (c :: x).length + k = (x.length + k) + 1 := by simp; omega
    rw [this]
    simpa using ih

/-- the side condition of an info line holds for every Value text without a newline -/
theorem fieldsOK_info (x : List Char) (hx : ∀ c ∈ x, c ≠ '\n') :
    fieldsOK [.lit "info(", .fld "Attribute", .lit ",", .fld "Value", .lit ")."]
      [pl "info(", .fld "Attribute" .notComma 1, pl ",", .fld "Value" .any 0, pl ")."] (textOf (versionTexts x)) [] = true := by
  have hA : textOf (versionTexts x) "Attribute" = "matchFileVersion".toList := by
    simp [textOf, versionTexts, lookup]
  have hV : textOf (versionTexts x) "Value" = x := by
    simp [textOf, versionTexts, lookup]
  have hall : (x ++ [')', '.']).all CharClass.any.mem = true := by
    rw [List.all_eq_true]
    intro c hc
    simp only [List.mem_append, List.mem_cons, List.not_mem_nil, or_false] at hc
    rcases hc with h | rfl | rfl
    · simpa [CharClass.mem] using hx c h
    · decide
    · decide
  have hallx : x.all CharClass.any.mem = true := by
    rw [List.all_eq_true] at hall ⊢
    intro c hc
    exact hall c (by simp [hc])
  have htw : ((x ++ [')', '.']).takeWhile CharClass.any.mem) = x ++ [')', '.'] :=
    C07Codec.takeWhile_all _ _ (by rw [List.all_eq_true] at hall; exact hall)
  have htwA : (("matchFileVersion".toList ++ ',' :: (x ++ [')', '.'])).takeWhile CharClass.notComma.mem)
      = "matchFileVersion".toList :=
    C07Codec.takeWhile_append_stop _ _ _ _ (by decide +kernel) (by decide)
  have hpl : pl ")." = Seg.lit [PChar.ch ')', PChar.ch '.'] := by decide +kernel
  have hplc : pl "," = Seg.lit [PChar.ch ','] := by decide +kernel
  have hpli : pl "info(" = Seg.lit ("info(".toList.map PChar.ch) := rfl
  have e1 : (")." : String).toList = [')', '.'] := by decide
  have e2 : (",": String).toList = [','] := by decide
  rw [hpli, hplc, hpl]
  simp only [fieldsOK, render, hA, hV, e1, e2, List.append_nil, headLit, List.singleton_append]
  have hAall : ("matchFileVersion".toList).all CharClass.notComma.mem = true := by decide +kernel
  have hlenA : 1 ≤ "matchFileVersion".toList.length := by decide
  rw [htwA, htw]
  simp only [hAall, hallx, Bool.true_and, Bool.and_true, decide_eq_true hlenA, Nat.zero_le, decide_true]
  rw [Bool.and_eq_true]
  constructor
  · simp [allBetween]
  · unfold allBetween
    have : (x ++ [')', '.']).length - x.length = 2 := by simp
    rw [this]
    simp only [List.range_succ, List.range_zero, List.nil_append, List.cons_append, List.all_cons, List.all_nil, Bool.and_true]
    have d1 : (x ++ [')', '.']).drop (x.length + 1 + 0) = ['.'] := by
      have := drop_length_add x [')', '.'] 1
      simpa using this
    have d2 : (x ++ [')', '.']).drop (x.length + 1 + 1) = [] := by
      have := drop_length_add x [')', '.'] 2
      simpa using this
    rw [d1, d2]
    decide

theorem encVersion_no_newline (a b c : Nat) : ∀ d ∈ encVersion a b c, d ≠ '\n' := by
  intro d hd
  unfold encVersion at hd
  simp only [List.mem_append, List.mem_cons] at hd
  have key : ∀ n, d ∈ showNatS n → d ≠ '\n' := by
    intro n h e
    subst e
    exact absurd (C07Codec.showNatS_isDigit n _ h) (by decide)
  rcases hd with (h | rfl | h) | rfl | h
  · exact key a h
  · decide
  · exact key b h
  · decide
  · exact key c h

/-- the line `info(matchFileVersion,a.b.c).` is written by, and read back from, every info-shaped template -/
theorem version_line (t : Template) (ht : templateOK t = true) (hs : isInfoShape t = true) (a b c : Nat) :
    formatT t [.str "matchFileVersion".toList, .ver a b c]
        = some ("info(matchFileVersion,".toList ++ encVersion a b c ++ ").".toList) ∧
      parseT t ("info(matchFileVersion,".toList ++ encVersion a b c ++ ").".toList)
        = .ok [.str "matchFileVersion".toList, .ver a b c] := by
  unfold isInfoShape at hs
  simp only [Bool.and_eq_true, beq_iff_eq] at hs
  obtain ⟨⟨⟨⟨hout, hpat⟩, hfields⟩, hval⟩, hpost⟩ := hs
  have hdeps : depsOK t = true := by
    unfold depsOK
    rw [hfields, hpost]
    decide
  have hattr : attrOf t [.str "matchFileVersion".toList, .ver a b c] = some "matchFileVersion".toList := by
    unfold attrOf
    rw [hfields]
    rfl
  have hcodec : codecFor t (some "matchFileVersion".toList) ("Value", Enc.byAttr, Dec.byAttr)
      = some (Enc.version, Dec.version) := by
    unfold codecFor
    simp only [beq_self_eq_true, if_true]
    have : String.ofList "matchFileVersion".toList = "matchFileVersion" := by decide +kernel
    rw [this, hval]
  have hrt : RTA t (attrOf t [.str "matchFileVersion".toList, .ver a b c]) t.fields
      [.str "matchFileVersion".toList, .ver a b c] [.str "matchFileVersion".toList, .ver a b c]
      (versionTexts (encVersion a b c)) := by
    rw [hattr, hfields]
    refine ⟨rfl, ⟨(Enc.strip, Dec.str), rfl, by decide +kernel, by decide +kernel⟩,
      rfl, ⟨(Enc.version, Dec.version), hcodec, rfl, ?_⟩, trivial⟩
    simp only [decode, C07Codec.decVersion_encVersion, liftO, Except.map]
  have hpostv : applyPost t [.str "matchFileVersion".toList, .ver a b c] = .ok [.str "matchFileVersion".toList, .ver a b c] := by
    unfold applyPost
    rw [hpost]
    rfl
  have hv : fieldsOKGen t.out t.pat (textOf (versionTexts (encVersion a b c))) [] = true := by
    apply fieldsOKGen_of_fieldsOK
    rw [hout, hpat]
    exact fieldsOK_info _ (encVersion_no_newline a b c)
  obtain ⟨h1, h2⟩ := line_roundtrip_gen t _ _ _ [] [] ht hdeps hrt hpostv hv (noEarly_nil _ _)
  have hrender : render t.out (textOf (versionTexts (encVersion a b c)))
      = "info(matchFileVersion,".toList ++ encVersion a b c ++ ").".toList := by
    rw [hout]
    have hA : textOf (versionTexts (encVersion a b c)) "Attribute" = "matchFileVersion".toList := by
      simp [textOf, versionTexts, lookup]
    have hV : textOf (versionTexts (encVersion a b c)) "Value" = encVersion a b c := by
      simp [textOf, versionTexts, lookup]
    simp only [render, hA, hV]
    have e0 : ("info(" : String).toList ++ ("matchFileVersion".toList ++ ((",": String).toList ++ (encVersion a b c ++ ((")." : String).toList ++ []))))
        = "info(matchFileVersion,".toList ++ encVersion a b c ++ ").".toList := by
      have : ("info(" : String).toList ++ ("matchFileVersion".toList ++ (",": String).toList) = "info(matchFileVersion,".toList := by
        decide +kernel
      rw [← this]
      simp
    exact e0
  rw [hrender] at h1 h2
  simp only [List.nil_append, List.append_nil] at h2
  exact ⟨h1, h2⟩

end C07Line
