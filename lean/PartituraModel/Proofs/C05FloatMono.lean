/-
Helper lemmas for C05 (round 6): `f32round` (binary32 rounding, Model/NoteArrayMaps.lean) is MONOTONE on all rationals,
including the subnormal range: storing two numbers never inverts their order, it can only merge them.
-/
import PartituraModel.Proofs.C05Float

namespace NoteArray
open Model Round

/-- the positive branch of `f32round` -/
def r32 (a : Rat) : Rat :=
  (roundHalfEven (a / pow2 (max (expOf a - 23) (-149))) : Rat) * pow2 (max (expOf a - 23) (-149))

theorem f32round_pos (x : Rat) (hx : 0 < x) : f32round x = r32 x := by
  unfold f32round r32
  have h0 : x ≠ 0 := ne_of_gt hx
  have ha : ratAbs x = x := by rw [ratAbs_eq, abs_of_pos hx]
  simp only [h0, if_false, ha, not_lt.mpr hx.le]

theorem f32round_neg (x : Rat) (hx : x < 0) : f32round x = - r32 (-x) := by
  unfold f32round r32
  have h0 : x ≠ 0 := ne_of_lt hx
  have ha : ratAbs x = -x := by rw [ratAbs_eq, abs_of_neg hx]
  simp only [h0, if_false, ha, hx, if_true]

theorem pow2_add_nat (s : Int) (n : Nat) : pow2 (s + n) = ((2 ^ n : Int) : Rat) * pow2 s := by
  rw [pow2_eq_zpow, pow2_eq_zpow, zpow_add₀ (by norm_num : (2 : Rat) ≠ 0)]
  push_cast
  rw [zpow_natCast, mul_comm]

theorem pow2_lt_of_lt {a b : Int} (h : pow2 a < pow2 b) : a < b := by
  by_contra hc
  exact absurd (pow2_mono (not_lt.mp hc)) (not_le.mpr h)

theorem expOf_mono {x y : Rat} (hx : 0 < x) (hxy : x ≤ y) : expOf x ≤ expOf y := by
  have h1 := (expOf_spec x hx).1
  have h2 := (expOf_spec y (lt_of_lt_of_le hx hxy)).2
  have : pow2 (expOf x) < pow2 (expOf y + 1) := lt_of_le_of_lt (h1.trans hxy) h2
  have := pow2_lt_of_lt this
  omega

theorem r32_nonneg (a : Rat) (ha : 0 ≤ a) : 0 ≤ r32 a := by
  unfold r32
  apply mul_nonneg _ (pow2_pos _).le
  have : roundHalfEven ((0 : Int) : Rat) ≤ roundHalfEven (a / pow2 (max (expOf a - 23) (-149))) := by
    apply roundHalfEven_mono
    push_cast
    exact div_nonneg ha (pow2_pos _).le
  rw [roundHalfEven_int] at this
  exact_mod_cast this

/-- a power of two at or above the spacing that is below `a` stays below the rounded value -/
theorem r32_ge (a : Rat) (n : Nat) (h : pow2 (max (expOf a - 23) (-149) + n) ≤ a) :
    pow2 (max (expOf a - 23) (-149) + n) ≤ r32 a := by
  unfold r32
  rw [pow2_add_nat] at h ⊢
  apply mul_le_mul_of_nonneg_right _ (pow2_pos _).le
  have h' : (((2 ^ n : Int)) : Rat) ≤ a / pow2 (max (expOf a - 23) (-149)) := by
    rw [le_div_iff₀ (pow2_pos _)]; exact h
  have := roundHalfEven_mono h'
  rw [roundHalfEven_int] at this
  exact_mod_cast this

/-- a power of two at or above the spacing that is above `a` stays above the rounded value -/
theorem r32_le (a : Rat) (n : Nat) (h : a ≤ pow2 (max (expOf a - 23) (-149) + n)) :
    r32 a ≤ pow2 (max (expOf a - 23) (-149) + n) := by
  unfold r32
  rw [pow2_add_nat] at h ⊢
  apply mul_le_mul_of_nonneg_right _ (pow2_pos _).le
  have h' : a / pow2 (max (expOf a - 23) (-149)) ≤ (((2 ^ n : Int)) : Rat) := by
    rw [div_le_iff₀ (pow2_pos _)]; exact h
  have := roundHalfEven_mono h'
  rw [roundHalfEven_int] at this
  exact_mod_cast this

theorem r32_mono {x y : Rat} (hx : 0 < x) (hxy : x ≤ y) : r32 x ≤ r32 y := by
  have hy : 0 < y := lt_of_lt_of_le hx hxy
  have he := expOf_mono hx hxy
  by_cases hs : max (expOf x - 23) (-149) = max (expOf y - 23) (-149)
  · unfold r32
    rw [hs]
    apply mul_le_mul_of_nonneg_right _ (pow2_pos _).le
    have : x / pow2 (max (expOf y - 23) (-149)) ≤ y / pow2 (max (expOf y - 23) (-149)) :=
      div_le_div_of_nonneg_right hxy (pow2_pos _).le
    exact_mod_cast roundHalfEven_mono this
  · -- the spacing of y is larger: a power of two separates the two rounded values
    have hlt : max (expOf x - 23) (-149) < max (expOf y - 23) (-149) := by omega
    have hsy : max (expOf y - 23) (-149) = expOf y - 23 := by omega
    have hexy : expOf x + 1 ≤ expOf y := by omega
    -- `pow2 (expOf y)` in terms of both spacings
    obtain ⟨n, hn⟩ : ∃ n : Nat, expOf y = max (expOf x - 23) (-149) + n :=
      ⟨(expOf y - max (expOf x - 23) (-149)).toNat, by omega⟩
    have hn' : expOf y = max (expOf y - 23) (-149) + (23 : Nat) := by omega
    have hxle : x ≤ pow2 (expOf y) :=
      ((expOf_spec x hx).2.le).trans (pow2_mono hexy)
    have h1 : r32 x ≤ pow2 (expOf y) := by
      have := r32_le x n (by rw [← hn]; exact hxle)
      rwa [← hn] at this
    have h2 : pow2 (expOf y) ≤ r32 y := by
      have := r32_ge y 23 (by rw [← hn']; exact (expOf_spec y hy).1)
      rwa [← hn'] at this
    exact h1.trans h2

/-- **binary32 rounding is monotone** (all rationals, subnormal range included) -/
theorem f32round_mono {x y : Rat} (h : x ≤ y) : f32round x ≤ f32round y := by
  rcases lt_trichotomy x 0 with hx | hx | hx
  · rcases lt_trichotomy y 0 with hy | hy | hy
    · rw [f32round_neg x hx, f32round_neg y hy]
      have : r32 (-y) ≤ r32 (-x) := r32_mono (by linarith) (by linarith)
      linarith
    · subst hy
      rw [f32round_neg x hx]
      have := r32_nonneg (-x) (by linarith)
      have h0 : f32round 0 = 0 := rfl
      rw [h0]; linarith
    · rw [f32round_neg x hx, f32round_pos y hy]
      have := r32_nonneg (-x) (by linarith)
      have := r32_nonneg y hy.le
      linarith
  · subst hx
    have h0 : f32round 0 = 0 := rfl
    rcases lt_or_eq_of_le h with hy | hy
    · rw [h0, f32round_pos y hy]; exact r32_nonneg y hy.le
    · rw [← hy]
  · have hy : 0 < y := lt_of_lt_of_le hx h
    rw [f32round_pos x hx, f32round_pos y hy]
    exact r32_mono hx h

end NoteArray
