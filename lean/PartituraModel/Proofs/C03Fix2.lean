/-
C03 helper definitions and lemmas for the element-level fixpoint theorems (Props/C03Fixpoint.lean, Props/C03PartList.lean).
-/
import PartituraModel.Model.XmlDir
import PartituraModel.Model.XmlBar
import PartituraModel.Proofs.C03PartList

namespace C03.Fix2
open Model Model.XmlNote Model.XmlDir Model.XmlBar Model.PartList
open Model.PartList.Forest

/-! ### `<barline>` -/

/-- the order in which `do_barlines` appends the children of one barline -/
def barRank : BarItem → Nat
  | .fermata => 0
  | .repeatFwd => 1
  | .endingStart _ => 2
  | .repeatBwd => 3
  | .endingStop _ => 4

theorem itemsOfRead_sorted (b : BarRead) : (itemsOfRead b).Pairwise (fun x y => barRank x < barRank y) := by
  obtain ⟨loc, rep, ending, style, ferm⟩ := b
  unfold itemsOfRead
  cases ferm <;> rcases rep with _ | (_ | _ | _) <;> rcases ending with _ | ⟨(_ | _ | _), (_ | m)⟩ <;> simp [barRank]

/-! ### `<direction>` -/

theorem filterString_idem (s : Str) : filterString (filterString s) = filterString s := by
  unfold filterString
  rw [List.filter_filter]
  simp

theorem dirStaffEl_canon (staff : Option Int) (h : staff ≠ some 0) :
    dirStaffEl (if staff = some 1 then none else truthy staff) = dirStaffEl staff := by
  cases staff with
  | none => rfl
  | some s =>
    by_cases h1 : s = 1
    · subst h1; rfl
    · have h0 : s ≠ 0 := fun e => h (by rw [e])
      simp [h1, truthy, h0]

theorem intOr_toNat (k : Nat) (h : k ≠ 0) : (intOr (some (k : Int)) 1).toNat = k := by
  unfold intOr
  simp [h]

/-! ### the part list -/

/-- `"{}".format(group.number)` of a number `_parse_partlist` read -/
def numberText : Option Int → Str
  | some n => showIntC n
  | none => ['N', 'o', 'n', 'e']

/-- the representative of its meaning the importer picks: the number is printed the way Python prints what was read from
    it, symbol and name are not empty strings -/
def CanonicalGroup (g : GroupW) : Prop :=
  numberText (parseIntC g.number) = g.number ∧ g.symbol ≠ some [] ∧ g.name ≠ some []

/-- an abbreviation is either empty (not written) or has something left once NULs are dropped -/
def CanonicalPart (p : PartW) : Prop := ∀ a, p.abbr = some a → a = [] ∨ Model.XmlDir.filterString a ≠ []

/-- what the `<part-list>` children written for a structure look like, as a function of what the importer reads from them -/
def emitRead : Forest GroupR PartR → List Xml
  | .nil => []
  | .part p r =>
    plXml (.scorePart { id := match p.id with | some i => i | none => [], name := p.name, abbr := p.abbr }) :: emitRead r
  | .group g c r =>
    plXml (.groupStart { gid := 0, number := numberText g.number, symbol := g.symbol, name := g.name }) ::
      (emitRead c ++ plXml (.groupStop (numberText g.number)) :: emitRead r)

def CanonicalForest : Forest GroupW PartW → Prop
  | .nil => True
  | .part p r => CanonicalPart p ∧ CanonicalForest r
  | .group g c r => CanonicalGroup g ∧ CanonicalForest c ∧ CanonicalForest r

theorem optEl_pyStr (t : Tag) (s : Option Str) (h : s ≠ some []) : optEl t (s.map pyStr) = optEl t s := by
  cases s with
  | none => rfl
  | some v =>
    have : v ≠ [] := fun e => h (by rw [e])
    simp [optEl, pyStr, this]

theorem groupStart_fix (g : GroupW) (h : CanonicalGroup g) :
    plXml (.groupStart { gid := 0, number := numberText (canonGroup g).number, symbol := (canonGroup g).symbol,
                         name := (canonGroup g).name }) = plXml (.groupStart g) := by
  obtain ⟨h1, h2, h3⟩ := h
  simp only [plXml, canonGroup, h1, optEl_pyStr _ _ h2, optEl_pyStr _ _ h3]

theorem scorePart_fix (p : PartW) (h : CanonicalPart p) :
    plXml (.scorePart { id := match (canonPart p).id with | some i => i | none => [], name := (canonPart p).name,
                        abbr := (canonPart p).abbr }) = plXml (.scorePart p) := by
  obtain ⟨id, name, abbr⟩ := p
  have hn : nameText (canonText name) = nameText name := by
    cases name with
    | none => rfl
    | some s =>
      by_cases hs : Model.XmlDir.filterString s = []
      · simp [canonText, nameText, hs]
      · simp [canonText, nameText, hs, filterString_idem]
  have ha : C03.PL.abbrEls (canonText abbr) = C03.PL.abbrEls abbr := by
    cases abbr with
    | none => rfl
    | some a =>
      rcases h a rfl with h0 | h0
      · subst h0; simp [canonText, Model.XmlDir.filterString, C03.PL.abbrEls]
      · have ha0 : a ≠ [] := fun e => h0 (by rw [e]; rfl)
        simp [canonText, h0, ha0, filterString_idem, C03.PL.abbrEls]
  have e1 : ∀ (i : Str) (n a : Option Str), plXml (.scorePart ⟨i, n, a⟩) =
      .el tScorePart [(.id, i)] [] (leaf tPartName (nameText n) :: C03.PL.abbrEls a) := fun _ _ _ => rfl
  simp only [e1, canonPart, hn, ha]

theorem emit_canonical (f : Forest GroupW PartW) (hc : CanonicalForest f) :
    (C03.PL.emit f).map plXml = emitRead (f.map canonGroup canonPart) := by
  induction f with
  | nil => rfl
  | part p r ih =>
    simp only [C03.PL.emit, List.map_cons, Forest.map, emitRead, scorePart_fix p hc.1, ih hc.2]
  | group g c r ihc ihr =>
    obtain ⟨hg, hcc, hcr⟩ := hc
    simp only [C03.PL.emit, List.map_cons, List.map_append, Forest.map, emitRead, groupStart_fix g hg, ihc hcc, ihr hcr,
      C03.PL.stopOf]
    have : numberText (canonGroup g).number = g.number := hg.1
    rw [this]

end C03.Fix2
