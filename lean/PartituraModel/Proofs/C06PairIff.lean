/-
C06 (round 5) helper lemmas: the loader's pairing uses every note message of a (channel, pitch) exactly when the
messages strictly alternate note-on / release — the converse of `pair_alt`.
-/
import PartituraModel.Model.PerfMidi
import PartituraModel.Proofs.C06Pair
import Mathlib.Tactic.Linarith

namespace C06PairIff
open Model Model.PerfMidi C06Pair

/-- a note-on that starts a note (velocity > 0) -/
def isOn : Ev → Bool
  | .noteOn _ _ v => decide (0 < v)
  | _ => false

/-- a message that releases a note: note-off, or note-on with velocity 0 -/
def isRel : Ev → Bool
  | .noteOff _ _ _ => true
  | .noteOn _ _ v => decide (v = 0)
  | _ => false

/-- the number of note starts / of releases in a run of messages -/
def ons (l : Track) : Nat := l.countP (fun m => isOn m.2)
def rels (l : Track) : Nat := l.countP (fun m => isRel m.2)

/-- strict alternation start, release, start, release, …, ending released -/
inductive AltC : Track → Prop
  | nil : AltC []
  | pair (k₁ k₂ : Int) (e₁ e₂ : Ev) (rest : Track) :
      isOn e₁ = true → isRel e₂ = true → AltC rest → AltC ((k₁, e₁) :: (k₂, e₂) :: rest)

theorem on_or_rel (e : Ev) (κ : Nat) (h : evKey e = some κ) :
    (∃ ch p v, e = Ev.noteOn ch p v ∧ 0 < v ∧ noteHash ch p = κ ∧ isOn e = true ∧ isRel e = false) ∨
    (∃ ch p, noteHash ch p = κ ∧ isOn e = false ∧ isRel e = true ∧ ((∃ v, e = Ev.noteOff ch p v) ∨ e = Ev.noteOn ch p 0)) := by
  cases e with
  | noteOn ch p v =>
    have hk : noteHash ch p = κ := by simpa [evKey] using h
    by_cases hv : 0 < v
    · left
      refine ⟨ch, p, v, rfl, hv, hk, by simp [isOn, hv], ?_⟩
      simp [isRel]; omega
    · right
      have : v = 0 := by omega
      subst this
      exact ⟨ch, p, hk, by simp [isOn], by simp [isRel], Or.inr rfl⟩
  | noteOff ch p v =>
    have hk : noteHash ch p = κ := by simpa [evKey] using h
    right
    exact ⟨ch, p, hk, rfl, rfl, Or.inl ⟨v, rfl⟩⟩
  | control a b c => simp [evKey] at h
  | program a b => simp [evKey] at h
  | tempo a => simp [evKey] at h
  | timeSig a b => simp [evKey] at h
  | keySig a b => simp [evKey] at h
  | eot => simp [evKey] at h
  | metaMsg a => simp [evKey] at h
  | other a => simp [evKey] at h

theorem ons_cons (m : TMsg) (l : Track) : ons (m :: l) = ons l + (if isOn m.2 then 1 else 0) := by
  unfold ons
  rw [List.countP_cons]

theorem rels_cons (m : TMsg) (l : Track) : rels (m :: l) = rels l + (if isRel m.2 then 1 else 0) := by
  unfold rels
  rw [List.countP_cons]

/-- the two states of the loader for one (channel, pitch) — nothing sounding / a note sounding — together:
    bounds on the number of notes paired, and what the run looks like when the bounds are met -/
theorem pair_bounds (κ : Nat) (l : Track) (hκ : ∀ m ∈ l, evKey m.2 = some κ) :
    ∀ s : Sounding,
      (s κ = none →
        (pairFrom s l).length ≤ ons l ∧ (pairFrom s l).length ≤ rels l ∧
        ((pairFrom s l).length = ons l → (pairFrom s l).length = rels l → AltC l)) ∧
      (∀ x, s κ = some x →
        (pairFrom s l).length ≤ ons l + 1 ∧ (pairFrom s l).length ≤ rels l ∧
        ((pairFrom s l).length = ons l + 1 → (pairFrom s l).length = rels l →
          ∃ k e M, l = (k, e) :: M ∧ isRel e = true ∧ AltC M)) := by
  induction l with
  | nil =>
    intro s
    refine ⟨fun _ => ⟨by simp [pairFrom], by simp [pairFrom], fun _ _ => AltC.nil⟩, fun x _ => ⟨by simp [pairFrom], by simp [pairFrom], ?_⟩⟩
    intro h
    simp [pairFrom, ons] at h
  | cons m l ih =>
    intro s
    obtain ⟨k, e⟩ := m
    have hl : ∀ m ∈ l, evKey m.2 = some κ := fun m hm => hκ m (List.mem_cons_of_mem _ hm)
    have he : evKey e = some κ := hκ (k, e) List.mem_cons_self
    rcases on_or_rel e κ he with ⟨ch, p, v, rfl, hv, hk, hon, hrel⟩ | ⟨ch, p, hk, hon, hrel, hform⟩
    · -- a note start: the state becomes "sounding"
      have hstep : pairFrom s ((k, Ev.noteOn ch p v) :: l) = pairFrom (s.set (noteHash ch p) (some (k, v))) l :=
        pairFrom_on_pos s k ch p v l hv
      have hopen : (s.set (noteHash ch p) (some (k, v))) κ = some (k, v) := by rw [← hk]; exact set_same _ _ _
      obtain ⟨b1, b2, b3⟩ := (ih hl (s.set (noteHash ch p) (some (k, v)))).2 (k, v) hopen
      rw [hstep, ons_cons, rels_cons]
      simp only [hon, hrel, if_true, Bool.false_eq_true, if_false, Nat.add_zero]
      constructor
      · intro _
        refine ⟨b1, b2, ?_⟩
        intro h1 h2
        obtain ⟨k', e', M, rfl, hr, hM⟩ := b3 h1 h2
        exact AltC.pair k k' _ e' M hon hr hM
      · intro x _
        refine ⟨by omega, b2, ?_⟩
        intro h1 _
        omega
    · -- a release
      rw [ons_cons, rels_cons]
      simp only [hon, hrel, if_true, Bool.false_eq_true, if_false, Nat.add_zero]
      constructor
      · intro hs
        have hs' : s (noteHash ch p) = none := by rw [hk]; exact hs
        have hstep : pairFrom s ((k, e) :: l) = pairFrom s l := by
          rcases hform with ⟨v, rfl⟩ | rfl
          · exact pairFrom_off_none s k ch p v l hs'
          · exact pairFrom_on_zero_none s k ch p 0 l (Nat.lt_irrefl 0) hs'
        obtain ⟨a1, a2, _⟩ := (ih hl s).1 hs
        rw [hstep]
        refine ⟨a1, by omega, ?_⟩
        intro _ h2
        omega
      · intro x hs
        obtain ⟨on, vel⟩ := x
        have hs' : s (noteHash ch p) = some (on, vel) := by rw [hk]; exact hs
        have hstep : pairFrom s ((k, e) :: l) = ⟨p, on, k, vel, ch⟩ :: pairFrom (s.set (noteHash ch p) none) l := by
          rcases hform with ⟨v, rfl⟩ | rfl
          · exact pairFrom_off_some s k ch p v l on vel hs'
          · exact pairFrom_on_zero_some s k ch p 0 l (Nat.lt_irrefl 0) on vel hs'
        have hclosed : (s.set (noteHash ch p) none) κ = none := by rw [← hk]; exact set_same _ _ _
        obtain ⟨a1, a2, a3⟩ := (ih hl (s.set (noteHash ch p) none)).1 hclosed
        rw [hstep, List.length_cons]
        refine ⟨by omega, by omega, ?_⟩
        intro h1 h2
        exact ⟨k, e, l, rfl, hrel, a3 (by omega) (by omega)⟩

/-- an alternating run is paired completely -/
theorem pair_altC (κ : Nat) (l : Track) (h : AltC l) (hκ : ∀ m ∈ l, evKey m.2 = some κ) :
    ∀ s : Sounding, s κ = none → (pairFrom s l).length = ons l ∧ (pairFrom s l).length = rels l := by
  induction h with
  | nil => intro s _; exact ⟨rfl, rfl⟩
  | pair k₁ k₂ e₁ e₂ rest hon hrel _ ih =>
    intro s hs
    have hrest : ∀ m ∈ rest, evKey m.2 = some κ := fun m hm =>
      hκ m (List.mem_cons_of_mem _ (List.mem_cons_of_mem _ hm))
    have he1 := hκ (k₁, e₁) List.mem_cons_self
    have he2 := hκ (k₂, e₂) (List.mem_cons_of_mem _ List.mem_cons_self)
    rcases on_or_rel e₁ κ he1 with ⟨ch, p, v, rfl, hv, hk, _, hrel1⟩ | ⟨_, _, _, hon', _, _⟩
    · rcases on_or_rel e₂ κ he2 with ⟨_, _, _, _, _, _, _, hrel'⟩ | ⟨ch2, p2, hk2, hon2, _, hform⟩
      · rw [hrel'] at hrel; exact absurd hrel (by simp)
      · have hopen : (s.set (noteHash ch p) (some (k₁, v))) (noteHash ch2 p2) = some (k₁, v) := by
          rw [hk2, ← hk]; exact set_same _ _ _
        have hclosed : ((s.set (noteHash ch p) (some (k₁, v))).set (noteHash ch2 p2) none) κ = none := by
          rw [← hk2]; exact set_same _ _ _
        have hstep : pairFrom s ((k₁, Ev.noteOn ch p v) :: (k₂, e₂) :: rest)
            = ⟨p2, k₁, k₂, v, ch2⟩ :: pairFrom ((s.set (noteHash ch p) (some (k₁, v))).set (noteHash ch2 p2) none) rest := by
          rw [pairFrom_on_pos s k₁ ch p v _ hv]
          rcases hform with ⟨v2, rfl⟩ | rfl
          · exact pairFrom_off_some _ k₂ ch2 p2 v2 rest k₁ v hopen
          · exact pairFrom_on_zero_some _ k₂ ch2 p2 0 rest (Nat.lt_irrefl 0) k₁ v hopen
        obtain ⟨i1, i2⟩ := ih hrest _ hclosed
        rw [hstep, List.length_cons, ons_cons, ons_cons, rels_cons, rels_cons]
        simp only [hon, hrel, hrel1, hon2, if_true, Bool.false_eq_true, if_false, Nat.add_zero]
        omega
    · rw [hon'] at hon; exact absurd hon (by simp)

end C06PairIff
