/-
Helper lemmas for C17 (round 2): the option handling of the estimators (`Model.C17Wrap`):
unit selection, profile names, the fast key index, the ranking of `return_sorted_keys`.
-/
import PartituraModel.Model.C17Wrap
import PartituraModel.Proofs.C17Key
import PartituraModel.Proofs.C17Corr
import Mathlib.Data.List.Basic
import Mathlib.Data.List.Sort
import Mathlib.Tactic.Linarith
import Mathlib.Tactic.FieldSimp

namespace C17W
open Model Model.C17Wrap Model.KeyEst Gen

-- ------------------------------------------------------------------ time units

/-- the unit selection, written out: score units (beat, quarter, div) before performance units (sec, tick) -/
def pick (fields : List String) : Option (String × String) :=
  if "onset_beat" ∈ fields then some ("onset_beat", "duration_beat")
  else if "onset_quarter" ∈ fields then some ("onset_quarter", "duration_quarter")
  else if "onset_div" ∈ fields then some ("onset_div", "duration_div")
  else if "onset_sec" ∈ fields then some ("onset_sec", "duration_sec")
  else if "onset_tick" ∈ fields then some ("onset_tick", "duration_tick")
  else none

/-- the table-driven selection (regenerated from the source) is `pick` -/
theorem timeUnits_eq_pick (fields : List String) : timeUnits fields = pick fields := by
  simp only [timeUnits, TIME_UNIT_BRANCHES, timeUnitsAux, firstMatch, pick, List.any_cons, List.any_nil,
    List.contains_iff_mem, Bool.or_false, Bool.or_eq_true]
  by_cases h1 : "onset_beat" ∈ fields <;> by_cases h2 : "onset_quarter" ∈ fields <;>
    by_cases h3 : "onset_div" ∈ fields <;> by_cases h4 : "onset_sec" ∈ fields <;>
    by_cases h5 : "onset_tick" ∈ fields <;> simp [h1, h2, h3, h4, h5]

/-- an array that has score units is read in score units whatever performance fields it also has
    (the docstrings' "the score information will be preferred") -/
theorem timeUnits_score_preferred (fields extra : List String)
    (hs : "onset_beat" ∈ fields ∨ "onset_quarter" ∈ fields ∨ "onset_div" ∈ fields)
    (hx : ∀ f ∈ extra, f ∈ ["onset_sec", "duration_sec", "onset_tick", "duration_tick"]) :
    timeUnits (fields ++ extra) = timeUnits fields := by
  have hb : "onset_beat" ∉ extra := fun h => by have := hx _ h; revert this; decide
  have hq : "onset_quarter" ∉ extra := fun h => by have := hx _ h; revert this; decide
  have hd : "onset_div" ∉ extra := fun h => by have := hx _ h; revert this; decide
  simp only [timeUnits_eq_pick, pick, List.mem_append, hb, hq, hd, or_false]
  rcases hs with h | h | h <;> by_cases h1 : "onset_beat" ∈ fields <;>
    by_cases h2 : "onset_quarter" ∈ fields <;> simp_all

/-- no unit is selected exactly when none of the five onset fields exists (the code raises ValueError) -/
theorem timeUnits_none_iff (fields : List String) :
    timeUnits fields = none ↔
      "onset_beat" ∉ fields ∧ "onset_quarter" ∉ fields ∧ "onset_div" ∉ fields ∧
      "onset_sec" ∉ fields ∧ "onset_tick" ∉ fields := by
  rw [timeUnits_eq_pick]
  unfold pick
  by_cases h1 : "onset_beat" ∈ fields <;> by_cases h2 : "onset_quarter" ∈ fields <;>
    by_cases h3 : "onset_div" ∈ fields <;> by_cases h4 : "onset_sec" ∈ fields <;>
    by_cases h5 : "onset_tick" ∈ fields <;> simp [h1, h2, h3, h4, h5]

theorem lookup_append_left {β : Type} (k : String) : ∀ (l r : List (String × β)),
    k ∉ r.map (·.1) → lookup k (l ++ r) = lookup k l := by
  intro l r hk
  induction l with
  | nil =>
    simp only [List.nil_append, lookup]
    induction r with
    | nil => rfl
    | cons x xs ih =>
      simp only [List.map_cons, List.mem_cons, not_or] at hk
      simp only [lookup]
      rw [if_neg (fun e => hk.1 e.symm)]
      exact ih hk.2
  | cons x xs ih =>
    simp only [List.cons_append, lookup]
    split
    · rfl
    · exact ih

/-- with score units present the selected fields are score fields -/
theorem pick_score (fields : List String)
    (hs : "onset_beat" ∈ fields ∨ "onset_quarter" ∈ fields ∨ "onset_div" ∈ fields) :
    ∃ u, timeUnits fields = some u ∧
      u ∈ [("onset_beat", "duration_beat"), ("onset_quarter", "duration_quarter"), ("onset_div", "duration_div")] := by
  rw [timeUnits_eq_pick]
  unfold pick
  by_cases h1 : "onset_beat" ∈ fields
  · exact ⟨_, by rw [if_pos h1], by simp⟩
  · by_cases h2 : "onset_quarter" ∈ fields
    · exact ⟨_, by rw [if_neg h1, if_pos h2], by simp⟩
    · have h3 : "onset_div" ∈ fields := by tauto
      exact ⟨_, by rw [if_neg h1, if_neg h2, if_pos h3], by simp⟩

/-- what the three estimators read of an array does not change when performance columns are added
    to an array that has score units -/
theorem array_score_preferred (a : NoteArray) (extra : List (String × List Rat))
    (hs : "onset_beat" ∈ a.fields ∨ "onset_quarter" ∈ a.fields ∨ "onset_div" ∈ a.fields)
    (hx : ∀ c ∈ extra, c.1 ∈ ["onset_sec", "duration_sec", "onset_tick", "duration_tick"]) :
    prepare { a with cols := a.cols ++ extra } = prepare a ∧
    keyRows { a with cols := a.cols ++ extra } = keyRows a ∧
    spellingRows { a with cols := a.cols ++ extra } = spellingRows a := by
  have hf : NoteArray.fields { a with cols := a.cols ++ extra } = a.fields ++ extra.map (·.1) := by
    simp [NoteArray.fields, List.map_append, List.append_assoc]
  have hx' : ∀ f ∈ extra.map (·.1), f ∈ ["onset_sec", "duration_sec", "onset_tick", "duration_tick"] := by
    intro f hf'
    obtain ⟨c, hc, rfl⟩ := List.mem_map.mp hf'
    exact hx c hc
  have hu := timeUnits_score_preferred a.fields (extra.map (·.1)) hs hx'
  obtain ⟨u, hu1, hu2⟩ := pick_score a.fields hs
  have hcol : ∀ nm, nm ∈ ["onset_beat", "duration_beat", "onset_quarter", "duration_quarter", "onset_div", "duration_div"] →
      NoteArray.col { a with cols := a.cols ++ extra } nm = a.col nm := by
    intro nm hnm
    simp only [NoteArray.col]
    apply lookup_append_left
    intro hin
    have := hx' nm hin
    revert hnm this
    generalize nm = z
    intro h1 h2
    simp only [List.mem_cons, List.not_mem_nil, or_false] at h1 h2
    rcases h1 with rfl | rfl | rfl | rfl | rfl | rfl <;> revert h2 <;> decide
  simp only [prepare, keyRows, spellingRows, hf, hu, hu1]
  simp only [List.mem_cons, List.not_mem_nil, or_false] at hu2
  rcases hu2 with rfl | rfl | rfl <;>
    simp [hcol]

-- ------------------------------------------------------------------ the fast key index

theorem tab_get (h : Nat → Rat) (j : Nat) (hj : j < 12) : (Tab.ofFun h).get j = h j := by
  simp only [Tab.ofFun]
  rw [List.getD_eq_getElem?_getD, List.getElem?_map, List.getElem?_range hj]
  rfl

theorem keyScore_congr (ps : ProfileSet) (h h' : Nat → Rat) (e : ∀ j, j < 12 → h j = h' j) (i : Nat) :
    keyScore ps h i = keyScore ps h' i := by
  simp only [keyScore, C17K.cov12_congr_left h h' _ e]

theorem keyIndexOfHist_congr (ps : ProfileSet) (h h' : Nat → Rat) (e : ∀ j, j < 12 → h j = h' j) :
    keyIndexOfHist ps h = keyIndexOfHist ps h' := by
  unfold keyIndexOfHist
  rw [C17K.cov12_congr_both h h' e]
  have : keyScore ps h = keyScore ps h' := funext (keyScore_congr ps h h' e)
  rw [this]

/-- the driver's fast path is the model the theorems are about -/
theorem estimateKeyFast_eq (ps : ProfileSet) (notes : List KNote) :
    estimateKeyFast ps notes = estimateKey ps notes := by
  simp only [estimateKeyFast, estimateKey, keyIndex, keyIndexFast_eq]
  rw [keyIndexOfHist_congr ps _ (hist notes) (fun j hj => tab_get _ j hj)]

-- ------------------------------------------------------------------ return_sorted_keys

theorem rankLe_iff_not_better (a b : Ranked) (ha : 0 < a.2.2) (hb : 0 < b.2.2) :
    rankLe a b = true ↔ better b.2 a.2 = false := by
  have e : rankLe a b = true ↔ b.2.1 / b.2.2 ≤ a.2.1 / a.2.2 := by
    unfold rankLe rankValue; exact decide_eq_true_iff
  rw [e, div_le_div_iff₀ hb ha]
  simp only [better, decide_eq_false_iff_not, not_lt, gt_iff_lt]

theorem rankLe_trans (a b c : Ranked) : rankLe a b = true → rankLe b c = true → rankLe a c = true := by
  simp only [rankLe, decide_eq_true_eq]
  intro h1 h2; exact le_trans h2 h1

theorem rankLe_total (a b : Ranked) : (rankLe a b || rankLe b a) = true := by
  simp only [rankLe, Bool.or_eq_true, decide_eq_true_eq]
  exact le_total _ _

theorem scored_fst (ps : ProfileSet) (h : Nat → Rat) : (scored ps h).map (·.1) = List.finRange 24 := by
  simp [scored, List.map_map, Function.comp_def]

theorem mem_scored (ps : ProfileSet) (h : Nat → Rat) (x : Ranked) :
    x ∈ scored ps h ↔ x.2 = keyScore ps h x.1.val := by
  simp only [scored, List.mem_map, List.mem_finRange, true_and, keyScoreFast_eq]
  constructor
  · rintro ⟨i, rfl⟩; rfl
  · intro e; exact ⟨x.1, by rw [← e]⟩

/-- the ranking is a permutation of the 24 keys -/
theorem sortedKeyIdx_perm (ps : ProfileSet) (h : Nat → Rat) : (sortedKeyIdx ps h).Perm (List.finRange 24) := by
  unfold sortedKeyIdx
  split
  · exact List.Perm.refl _
  · rw [← scored_fst ps h]
    exact (List.mergeSort_perm _ _).map _

/-- along the ranking the correlation never increases -/
theorem sortedKeyIdx_sorted (ps : ProfileSet) (h : Nat → Rat) (hv : cov12 h h ≠ 0) :
    (sortedKeyIdx ps h).Pairwise fun a b =>
      better (keyScore ps h b.val) (keyScore ps h a.val) = false := by
  unfold sortedKeyIdx
  rw [if_neg hv]
  have hs := List.pairwise_mergeSort rankLe_trans rankLe_total (scored ps h)
  rw [List.pairwise_map]
  refine List.Pairwise.imp_of_mem ?_ hs
  intro a b ha hb hab
  have ha' := (mem_scored ps h a).mp ((List.mergeSort_perm _ _).subset ha)
  have hb' := (mem_scored ps h b).mp ((List.mergeSort_perm _ _).subset hb)
  have pa : 0 < a.2.2 := by rw [ha']; exact C17K.profile_variance_pos ps _ a.1.isLt
  have pb : 0 < b.2.2 := by rw [hb']; exact C17K.profile_variance_pos ps _ b.1.isLt
  have := (rankLe_iff_not_better a b pa pb).mp hab
  rw [ha', hb'] at this
  exact this

/-- with a unique best key the ranking starts with it -/
theorem sortedKeyIdx_head (ps : ProfileSet) (h : Nat → Rat) (m : Nat) (hu : C17K.UniqueMaxH ps h m) :
    ∃ x rest, sortedKeyIdx ps h = x :: rest ∧ x.val = m := by
  obtain ⟨h0, hm, hbest⟩ := hu
  have hp := sortedKeyIdx_perm ps h
  have hs := sortedKeyIdx_sorted ps h h0
  cases hl : sortedKeyIdx ps h with
  | nil => rw [hl] at hp; have := hp.length_eq; simp at this
  | cons x rest =>
    refine ⟨x, rest, rfl, ?_⟩
    by_contra hne
    have hmem : (⟨m, hm⟩ : Fin 24) ∈ sortedKeyIdx ps h := hp.symm.subset (List.mem_finRange _)
    rw [hl] at hmem hs
    rcases List.mem_cons.mp hmem with e | hin
    · exact hne (by rw [← e])
    · have := (List.pairwise_cons.mp hs).1 _ hin
      simp only at this
      rw [hbest x.val x.isLt hne] at this
      exact absurd this (by simp)

end C17W
