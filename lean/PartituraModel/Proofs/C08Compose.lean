/-
C08 (round 5) — helper lemmas for the composition theorems (Props/C08Compose.lean): how `reconstruct` is put
together from the piece functions (`sortSNotes`, `firstOfBar`, `barTime`, `notePos`, `durDivs`, `importDivs`).
-/
import PartituraModel.Model.MatchTime
import PartituraModel.Proofs.C08Sort
import Mathlib.Data.List.Basic

namespace C08C
open Model Model.MatchTime

/-- `mapM` in `Option`: every element of the result comes from an element of the input -/
theorem mapM_mem {α β : Type} (f : α → Option β) : ∀ (l : List α) (l' : List β), l.mapM f = some l' →
    ∀ y ∈ l', ∃ x ∈ l, f x = some y := by
  intro l
  induction l with
  | nil => intro l' hl y hy; simp at hl; subst hl; simp at hy
  | cons a rest ih =>
    intro l' hl y hy
    rw [List.mapM_cons] at hl
    cases hfa : f a with
    | none => simp [hfa] at hl
    | some b =>
      cases hr : rest.mapM f with
      | none => simp [hfa, hr] at hl
      | some bs =>
        simp [hfa, hr] at hl
        subst hl
        rcases List.mem_cons.mp hy with rfl | hy'
        · exact ⟨a, by simp, hfa⟩
        · obtain ⟨x, hx, hfx⟩ := ih bs hr y hy'
          exact ⟨x, by simp [hx], hfx⟩

/-- ... and every element of the input gives an element of the result -/
theorem mapM_mem' {α β : Type} (f : α → Option β) : ∀ (l : List α) (l' : List β), l.mapM f = some l' →
    ∀ x ∈ l, ∃ y ∈ l', f x = some y := by
  intro l
  induction l with
  | nil => intro l' _ x hx; simp at hx
  | cons a rest ih =>
    intro l' hl x hx
    rw [List.mapM_cons] at hl
    cases hfa : f a with
    | none => simp [hfa] at hl
    | some b =>
      cases hr : rest.mapM f with
      | none => simp [hfa, hr] at hl
      | some bs =>
        simp [hfa, hr] at hl
        subst hl
        rcases List.mem_cons.mp hx with rfl | hx'
        · exact ⟨b, by simp, hfa⟩
        · obtain ⟨y, hy, hfy⟩ := ih bs hr x hx'
          exact ⟨y, by simp [hy], hfy⟩

/-- `mapM` in `Option`, index by index -/
theorem mapM_getElem? {α β : Type} (f : α → Option β) : ∀ (l : List α) (l' : List β), l.mapM f = some l' →
    ∀ (i : Nat) (y : β), l'[i]? = some y → ∃ x, l[i]? = some x ∧ f x = some y := by
  intro l
  induction l with
  | nil => intro l' hl i y hy; simp at hl; subst hl; simp at hy
  | cons a rest ih =>
    intro l' hl i y hy
    rw [List.mapM_cons] at hl
    cases hfa : f a with
    | none => simp [hfa] at hl
    | some b =>
      cases hr : rest.mapM f with
      | none => simp [hfa, hr] at hl
      | some bs =>
        simp [hfa, hr] at hl
        subst hl
        cases i with
        | zero =>
          simp only [List.getElem?_cons_zero, Option.some.injEq] at hy
          subst hy
          exact ⟨a, by simp, hfa⟩
        | succ j =>
          simp only [List.getElem?_cons_succ] at hy ⊢
          exact ih bs hr j y hy

/-- a pair of the indexed list is an element of the list at that index -/
theorem mem_zip_range {α : Type} (l : List α) (i : Nat) (a : α) (h : (i, a) ∈ (List.range l.length).zip l) :
    l[i]? = some a := by
  obtain ⟨k, hk⟩ := List.mem_iff_getElem?.mp h
  rw [List.getElem?_zip_eq_some] at hk
  obtain ⟨h1, h2⟩ := hk
  have hlt : k < l.length := by
    by_contra hc
    have : l[k]? = none := List.getElem?_eq_none (by omega)
    rw [this] at h2; cases h2
  rw [List.getElem?_range hlt] at h1
  simp only [Option.some.injEq] at h1
  subst h1
  exact h2

/-- and conversely -/
theorem zip_range_mem {α : Type} (l : List α) (i : Nat) (a : α) (h : l[i]? = some a) :
    (i, a) ∈ (List.range l.length).zip l := by
  have hlt : i < l.length := by
    by_contra hc
    have : l[i]? = none := List.getElem?_eq_none (by omega)
    rw [this] at h; cases h
  rw [List.mem_iff_getElem?]
  exact ⟨i, List.getElem?_zip_eq_some.mpr ⟨List.getElem?_range hlt, h⟩⟩

/-- `lookup` in an association list finds a pair of the list -/
theorem lookup_mem {β : Type} (k : Int) : ∀ (l : List (Int × β)) (v : β), lookup k l = some v → (k, v) ∈ l := by
  intro l
  induction l with
  | nil => intro v h; simp [lookup] at h
  | cons p rest ih =>
    intro v h
    unfold lookup at h
    split at h
    · rename_i heq
      simp only [Option.some.injEq] at h
      subst h
      have : p.1 = k := by simpa using heq
      rw [← this]
      simp
    · exact List.mem_cons_of_mem _ (ih v h)

/-- the first note of a bar is one of the notes and carries the bar's number -/
theorem firstOfBar_spec (ns : List (Nat × SNote)) (b : Int) (n : SNote) (h : firstOfBar ns b = some n) :
    n.measure = b ∧ ∃ i, (i, n) ∈ ns := by
  unfold firstOfBar at h
  cases hf : ns.find? (fun x => x.2.measure = b) with
  | none => simp [hf] at h
  | some p =>
    simp only [hf, Option.map_some, Option.some.injEq] at h
    subst h
    have h1 := List.find?_some hf
    have h2 := List.mem_of_find?_eq_some hf
    exact ⟨by simpa using h1, p.1, h2⟩

/-- every bar that occurs on a note has a first note -/
theorem firstOfBar_exists (ns : List (Nat × SNote)) (p : Nat × SNote) (hp : p ∈ ns) :
    ∃ n, firstOfBar ns p.2.measure = some n := by
  unfold firstOfBar
  cases hf : ns.find? (fun x => x.2.measure = p.2.measure) with
  | none =>
    rw [List.find?_eq_none] at hf
    exact absurd (by simp) (hf p hp)
  | some q => exact ⟨q.2, rfl⟩

end C08C
