/-
Helper lemmas for the pitch-class roll of C13: finite sums written as `foldr`, the octave fold.
-/
import PartituraModel.Proofs.C13
import Mathlib.Tactic.IntervalCases
import Mathlib.Tactic.FieldSimp
import Mathlib.Tactic.Ring

namespace C13
open Model Model.PianoRoll
open List

/-- `Σ_{p ∈ l} f p`, in the `foldr` form the model uses -/
def sumOver (f : Nat → Int) (l : List Nat) : Int := l.foldr (fun p s => f p + s) 0

theorem sumOver_append (f : Nat → Int) (a b : List Nat) :
    sumOver f (a ++ b) = sumOver f a + sumOver f b := by
  induction a with
  | nil => simp [sumOver]
  | cons x a ih =>
    simp only [sumOver, cons_append, foldr_cons] at ih ⊢
    rw [ih]; omega

theorem sumOver_zero (f : Nat → Int) (l : List Nat) (h : ∀ p ∈ l, f p = 0) : sumOver f l = 0 := by
  induction l with
  | nil => rfl
  | cons x l ih =>
    simp only [sumOver, foldr_cons] at ih ⊢
    rw [h x (by simp), ih (fun p hp => h p (by simp [hp]))]
    rfl

theorem sumOver_nonneg (f : Nat → Int) (l : List Nat) (h : ∀ p ∈ l, 0 ≤ f p) : 0 ≤ sumOver f l := by
  induction l with
  | nil => simp [sumOver]
  | cons x l ih =>
    simp only [sumOver, foldr_cons] at ih ⊢
    have := h x (by simp)
    have := ih (fun p hp => h p (by simp [hp]))
    omega

theorem sumOver_eq_zero_iff (f : Nat → Int) (l : List Nat) (h : ∀ p ∈ l, 0 ≤ f p) :
    sumOver f l = 0 ↔ ∀ p ∈ l, f p = 0 := by
  constructor
  · induction l with
    | nil => intro _ p hp; simp at hp
    | cons x l ih =>
      intro hs p hp
      simp only [sumOver, foldr_cons] at hs ih
      have h1 := h x (by simp)
      have h2 := sumOver_nonneg f l (fun p hp => h p (by simp [hp]))
      simp only [sumOver] at h2
      simp only [mem_cons] at hp
      rcases hp with rfl | hp
      · omega
      · exact ih (fun p hp => h p (by simp [hp])) (by omega) p hp
  · exact sumOver_zero f l

theorem filter_mod_block (c : Nat) (hc : c < 12) :
    (range 12).filter (fun i => i % 12 = c) = [c] := by
  interval_cases c <;> decide

/-- the residues-`c` members of `0 .. 12k-1` are `c, 12 + c, …`: the fold over octaves -/
theorem sumOver_fold (g : Nat → Int) (c : Nat) (hc : c < 12) (k : Nat) :
    sumOver g ((range (12 * k)).filter (fun p => p % 12 = c)) =
      sumOver (fun i => g (12 * i + c)) (range k) := by
  induction k with
  | zero => simp [sumOver]
  | succ k ih =>
    have h1 : 12 * (k + 1) = 12 * k + 12 := by ring
    rw [h1, range_add, filter_append, sumOver_append, ih,
      show range (k + 1) = range k ++ [k] from range_succ, sumOver_append]
    congr 1
    rw [filter_map]
    have : (fun i => decide (i % 12 = c)) ∘ (fun x => 12 * k + x) = fun i => decide (i % 12 = c) := by
      funext i
      simp
    rw [this, filter_mod_block c hc]
    simp [sumOver]

/-- division distributes over the `foldr` sum -/
theorem foldr_div (v : Nat → Int) (d : Rat) (l : List Nat) :
    l.foldr (fun c s => (v c : Rat) / d + s) 0 = ((sumOver v l : Int) : Rat) / d := by
  induction l with
  | nil => simp [sumOver]
  | cons x l ih =>
    simp only [foldr_cons, sumOver] at ih ⊢
    rw [ih]
    push_cast
    ring

end C13
