/-
C01 helper lemmas, round 2: query results
* with the subclass relation as reachability through `__subclasses__()` and NO hypothesis on the query class
  (objects of generated classes: `ClsOk`, which every history of `add`s of timed objects keeps);
* in ANY reachable state (`WInv`), in terms of the listings.
-/
import PartituraModel.Proofs.C01Closure
import PartituraModel.Proofs.C01WeakOps

namespace TL

theorem iterAll_specRT {s : Part} (hI : Inv s) (hk : ClsOk s) (cls : Option Nat) (a b : Option Int) (incl : Bool)
    (mode : Mode) :
    (iterAll s cls a b incl mode).Nodup
    ∧ (∀ o, o ∈ iterAll s cls a b incl mode ↔
        ∃ τ, (getObj s.objs o).at (mode.side) = some τ ∧ inRange a b τ ∧ ClassSpecRT cls (inclEff cls incl) o.cls)
    ∧ (iterAll s cls a b incl mode).Pairwise (fun o1 o2 => ∀ t1 t2,
        (getObj s.objs o1).at (mode.side) = some t1 → (getObj s.objs o2).at (mode.side) = some t2 →
        t1 ≤ t2) := by
  have hg : Good s := (good_iff_inv s).mpr hI
  have hsortedL : ((rangePoints s.points a b).map (·.t)).Pairwise (· < ·) :=
    (List.Pairwise.sublist (List.Sublist.map _ List.filter_sublist) hI.sorted)
  have hsub : ∀ p ∈ rangePoints s.points a b, p ∈ s.points := fun p hp => (List.mem_filter.mp hp).1
  have key := flatMap_points_spec hg (mode.side) cls (inclEff cls incl)
    (rangePoints s.points a b) hsub (· < ·) hsortedL (fun p _ p' _ hr => by omega)
  rw [iterAll_eq hI.sorted]
  obtain ⟨k1, k2, k3⟩ := key
  refine ⟨k1, ?_, ?_⟩
  · intro o
    rw [k2 o]
    constructor
    · rintro ⟨τ, hτ, hmem, hm⟩
      obtain ⟨e, he, hr⟩ := known_of_at hτ
      have hcls : o.cls < Gen.numClasses := by rw [← hr]; exact hk e he
      exact ⟨τ, hτ, (mem_rangePoints_times.mp hmem).2, (clsMatch_specRT hcls).mp hm⟩
    · rintro ⟨τ, hτ, hr, hm⟩
      obtain ⟨e, he, hre⟩ := known_of_at hτ
      have hcls : o.cls < Gen.numClasses := by rw [← hre]; exact hk e he
      refine ⟨τ, hτ, mem_rangePoints_times.mpr ⟨hg.1.getObj_refOn _ o hτ, hr⟩, (clsMatch_specRT hcls).mpr hm⟩
  · apply k3.imp
    intro o1 o2 h t1 t2 h1 h2
    rcases h t1 t2 h1 h2 with h | h <;> omega

theorem iterPrev_objs_specRT {s : Part} (hI : Inv s) (hk : ClsOk s) (t : Int) (cls : Option Nat) (eq incl : Bool) :
    let out := (prevPoints s.points t eq).flatMap fun p => iterReg p.starting cls incl
    out.Nodup
    ∧ (∀ o, o ∈ out ↔ ∃ τ, (getObj s.objs o).start = some τ ∧ (τ < t ∨ (eq = true ∧ τ = t))
        ∧ ClassSpecRT cls incl o.cls)
    ∧ out.Pairwise (fun o1 o2 => ∀ t1 t2, (getObj s.objs o1).start = some t1 →
        (getObj s.objs o2).start = some t2 → t2 ≤ t1) := by
  intro out
  have hg : Good s := (good_iff_inv s).mpr hI
  have hsub : ∀ p ∈ prevPoints s.points t eq, p ∈ s.points := by
    intro p hp
    simp only [prevPoints, List.mem_reverse] at hp
    exact (List.mem_filter.mp hp).1
  have hsortedL : ((prevPoints s.points t eq).map (·.t)).Pairwise (· > ·) := by
    simp only [prevPoints, List.map_reverse, List.pairwise_reverse]
    exact (List.Pairwise.sublist (List.Sublist.map _ List.filter_sublist) hI.sorted)
  obtain ⟨k1, k2, k3⟩ := flatMap_points_spec hg .start cls incl (prevPoints s.points t eq) hsub (· > ·) hsortedL
    (fun p _ p' _ hr => by omega)
  refine ⟨k1, ?_, ?_⟩
  · intro o
    have := k2 o
    simp only [Point.reg] at this
    rw [this]
    constructor
    · rintro ⟨τ, hτ, hmem, hm⟩
      obtain ⟨e, he, hr⟩ := known_of_at hτ
      have hcls : o.cls < Gen.numClasses := by rw [← hr]; exact hk e he
      exact ⟨τ, hτ, (mem_prevPoints_times.mp hmem).2, (clsMatch_specRT hcls).mp hm⟩
    · rintro ⟨τ, hτ, hr, hm⟩
      obtain ⟨e, he, hre⟩ := known_of_at (sd := .start) hτ
      have hcls : o.cls < Gen.numClasses := by rw [← hre]; exact hk e he
      exact ⟨τ, hτ, mem_prevPoints_times.mpr ⟨hg.1.getObj_refOn .start o hτ, hr⟩, (clsMatch_specRT hcls).mpr hm⟩
  · apply k3.imp
    intro o1 o2 h t1 t2 h1 h2
    rcases h t1 t2 h1 h2 with h | h <;> omega

theorem iterNext_objs_specRT {s : Part} (hI : Inv s) (hk : ClsOk s) (t : Int) (cls : Option Nat) (eq incl : Bool) :
    let out := (nextPoints s.points t eq).flatMap fun p => iterReg p.starting cls incl
    out.Nodup
    ∧ (∀ o, o ∈ out ↔ ∃ τ, (getObj s.objs o).start = some τ ∧ (t < τ ∨ (eq = true ∧ τ = t))
        ∧ ClassSpecRT cls incl o.cls)
    ∧ out.Pairwise (fun o1 o2 => ∀ t1 t2, (getObj s.objs o1).start = some t1 →
        (getObj s.objs o2).start = some t2 → t1 ≤ t2) := by
  intro out
  have hg : Good s := (good_iff_inv s).mpr hI
  have hsub : ∀ p ∈ nextPoints s.points t eq, p ∈ s.points := fun p hp => (List.mem_filter.mp hp).1
  have hsortedL : ((nextPoints s.points t eq).map (·.t)).Pairwise (· < ·) :=
    (List.Pairwise.sublist (List.Sublist.map _ List.filter_sublist) hI.sorted)
  obtain ⟨k1, k2, k3⟩ := flatMap_points_spec hg .start cls incl (nextPoints s.points t eq) hsub (· < ·) hsortedL
    (fun p _ p' _ hr => by omega)
  refine ⟨k1, ?_, ?_⟩
  · intro o
    have := k2 o
    simp only [Point.reg] at this
    rw [this]
    constructor
    · rintro ⟨τ, hτ, hmem, hm⟩
      obtain ⟨e, he, hr⟩ := known_of_at hτ
      have hcls : o.cls < Gen.numClasses := by rw [← hr]; exact hk e he
      exact ⟨τ, hτ, (mem_nextPoints_times.mp hmem).2, (clsMatch_specRT hcls).mp hm⟩
    · rintro ⟨τ, hτ, hr, hm⟩
      obtain ⟨e, he, hre⟩ := known_of_at (sd := .start) hτ
      have hcls : o.cls < Gen.numClasses := by rw [← hre]; exact hk e he
      exact ⟨τ, hτ, mem_nextPoints_times.mpr ⟨hg.1.getObj_refOn .start o hτ, hr⟩, (clsMatch_specRT hcls).mpr hm⟩
  · apply k3.imp
    intro o1 o2 h t1 t2 h1 h2
    rcases h t1 t2 h1 h2 with h | h <;> omega

-- ------------------------------------------------------------------ any reachable state: per-point segments

/-- the matching objects one visited point contributes -/
def segOf (sd : Side) (cls : Option Nat) (incl : Bool) (p : Point) : Int × List ObjRef :=
  (p.t, iterReg (p.reg sd) cls incl)

/-- a flatMap over visited points of the timeline of ANY reachable state: one duplicate-free segment per
visited point, holding exactly the matching objects that point lists -/
theorem segments_spec {s : Part} (hW : WInv s) (hk : ClsOk s) (sd : Side) (cls : Option Nat) (incl : Bool)
    (L : List Point) (hsub : ∀ p ∈ L, p ∈ s.points) :
    (L.flatMap fun p => iterReg (p.reg sd) cls incl) = (L.map (segOf sd cls incl)).flatMap (·.2)
    ∧ (L.map (segOf sd cls incl)).map (·.1) = L.map (·.t)
    ∧ (∀ seg ∈ L.map (segOf sd cls incl), seg.2.Nodup
        ∧ ∀ o, o ∈ seg.2 ↔ Listed s sd seg.1 o ∧ ClassSpecRT cls incl o.cls) := by
  refine ⟨by simp [List.flatMap_map, segOf, Function.comp_def], by simp [List.map_map, segOf, Function.comp_def], ?_⟩
  intro seg hseg
  obtain ⟨p, hp, rfl⟩ := List.mem_map.mp hseg
  have hpm := hsub p hp
  refine ⟨nodup_iterReg (hW.regNodup sd p hpm) cls incl, ?_⟩
  intro o
  simp only [segOf]
  rw [mem_iterReg]
  constructor
  · rintro ⟨ho, hm⟩
    have hkn := hW.listedKnown sd p hpm o ho
    obtain ⟨e, he, hr⟩ := List.mem_map.mp hkn
    have hcls : o.cls < Gen.numClasses := by rw [← hr]; exact hk e he
    exact ⟨⟨p, hpm, rfl, ho⟩, (clsMatch_specRT hcls).mp hm⟩
  · rintro ⟨⟨p', hp', hpt, ho⟩, hm⟩
    have : p' = p := point_unique hW.sorted hp' hpm hpt
    subst this
    have hkn := hW.listedKnown sd p' hpm o ho
    obtain ⟨e, he, hr⟩ := List.mem_map.mp hkn
    have hcls : o.cls < Gen.numClasses := by rw [← hr]; exact hk e he
    exact ⟨ho, (clsMatch_specRT hcls).mpr hm⟩

end TL
