/-
C06 (round 5) helper lemmas: the default programs the exporter adds — how many, for which (track, channel), at which
tick — and the programs of the whole written file.
-/
import PartituraModel.Model.PerfMidi
import PartituraModel.Proofs.C06Stable
import PartituraModel.Proofs.C06Export
import PartituraModel.Proofs.C06Merged
import Mathlib.Data.List.Nodup
import Mathlib.Data.List.Dedup

namespace C06Defaults
open Model Model.PerfMidi C06Sort C06Lists C06Export C06Stable C06Merged

-- ------------------------------------------------------------------ `min(timepoints)`

theorem minTick_none (l : List Int) (h : minTick l = none) : l = [] := by
  cases l with
  | nil => rfl
  | cons a l =>
    unfold minTick at h
    split at h <;> simp at h

theorem minTick_spec (l : List Int) (m : Int) (h : minTick l = some m) : m ∈ l ∧ ∀ x ∈ l, m ≤ x := by
  induction l generalizing m with
  | nil => simp [minTick] at h
  | cons a l ih =>
    unfold minTick at h
    split at h
    · rename_i hn
      have := minTick_none l hn
      subst this
      simp only [Option.some.injEq] at h
      subst h
      simp
    · rename_i m' hm'
      obtain ⟨h1, h2⟩ := ih m' hm'
      simp only [Option.some.injEq] at h
      by_cases ham : a ≤ m'
      · rw [if_pos ham] at h
        subst h
        refine ⟨List.mem_cons_self, ?_⟩
        intro x hx
        rcases List.mem_cons.mp hx with rfl | hx
        · exact le_refl _
        · exact le_trans ham (h2 x hx)
      · rw [if_neg ham] at h
        subst h
        refine ⟨List.mem_cons_of_mem _ h1, ?_⟩
        intro x hx
        rcases List.mem_cons.mp hx with rfl | hx
        · omega
        · exact h2 x hx

theorem minTick_some_of_ne_nil (l : List Int) (h : l ≠ []) : ∃ m, minTick l = some m := by
  cases hm : minTick l with
  | none => exact absurd (minTick_none l hm) h
  | some m => exact ⟨m, rfl⟩

/-- the minimum depends on the set of ticks only -/
theorem minTick_congr (l l' : List Int) (h : ∀ t, t ∈ l ↔ t ∈ l') : minTick l = minTick l' := by
  cases hm : minTick l with
  | none =>
    have := minTick_none l hm
    subst this
    cases l' with
    | nil => rfl
    | cons a l' => exact absurd ((h a).mpr List.mem_cons_self) List.not_mem_nil
  | some m =>
    obtain ⟨h1, h2⟩ := minTick_spec l m hm
    have hne : l' ≠ [] := by
      intro e
      subst e
      exact absurd ((h m).mp h1) List.not_mem_nil
    obtain ⟨m', hm'⟩ := minTick_some_of_ne_nil l' hne
    obtain ⟨h1', h2'⟩ := minTick_spec l' m' hm'
    have a1 := h2 m' ((h m').mpr h1')
    have a2 := h2' m ((h m).mp h1)
    rw [hm']
    congr 1
    omega

-- ------------------------------------------------------------------ one part

/-- the default program of one (channel, track) pair at tick `m` -/
def dflt (m : Int) (ct : Nat × Nat) : Ins := (ct.2, m, Ev.program ct.1 0)

theorem dflt_injective (m : Int) : Function.Injective (dflt m) := by
  intro a b h
  obtain ⟨a1, a2⟩ := a
  obtain ⟨b1, b2⟩ := b
  simp only [dflt, Prod.mk.injEq, Ev.program.injEq, and_true, true_and] at h
  obtain ⟨h1, h2⟩ := h
  subst h1 h2
  rfl

theorem mem_defaultPrograms (acc : List Ins) (p : PPart) (hnil : p.programs = []) (m : Int)
    (hm : minTick (acc.map (fun i => i.2.1)) = some m) (i : Ins) :
    i ∈ defaultPrograms acc p ↔ ∃ ct ∈ chanTracks p, i = dflt m ct := by
  unfold defaultPrograms
  simp only [hnil, List.isEmpty_nil, if_true, hm, List.mem_flatMap, List.mem_map, mem_uniqueSorted]
  constructor
  · rintro ⟨tr, _, ch, ⟨ct, hct, rfl⟩, rfl⟩
    have hct' := List.mem_filter.mp hct
    have ht : ct.2 = tr := by simpa using hct'.2
    refine ⟨ct, hct'.1, ?_⟩
    rw [← ht]
    rfl
  · rintro ⟨ct, hct, rfl⟩
    refine ⟨ct.2, ⟨ct, hct, rfl⟩, ct.1, ⟨ct, ?_, rfl⟩, rfl⟩
    exact List.mem_filter.mpr ⟨hct, by simp⟩

theorem nodup_defaultPrograms (acc : List Ins) (p : PPart) : (defaultPrograms acc p).Nodup := by
  unfold defaultPrograms
  split
  · split
    · exact List.nodup_nil
    · rename_i m _
      rw [List.nodup_flatMap]
      constructor
      · intro tr _
        refine List.Nodup.map ?_ (nodup_uniqueSorted _)
        intro a b h
        simpa using h
      · refine (nodup_uniqueSorted _).imp ?_
        intro a b hab
        simp only [Function.onFun]
        intro x hx hy
        obtain ⟨_, _, rfl⟩ := List.mem_map.mp hx
        obtain ⟨_, _, h⟩ := List.mem_map.mp hy
        simp only [Prod.mk.injEq] at h
        exact hab h.1.symm
  · exact List.nodup_nil

/-- **one part**: a part without programs gets exactly one `program_change 0` per distinct (channel, track) pair
    of its notes and controls, all at the smallest tick present so far -/
theorem defaultPrograms_perm (acc : List Ins) (p : PPart) (hnil : p.programs = []) (m : Int)
    (hm : minTick (acc.map (fun i => i.2.1)) = some m) :
    (defaultPrograms acc p).Perm ((chanTracks p).dedup.map (dflt m)) := by
  rw [List.perm_ext_iff_of_nodup (nodup_defaultPrograms acc p)
    (List.Nodup.map (dflt_injective m) (List.nodup_dedup _))]
  intro i
  rw [mem_defaultPrograms acc p hnil m hm]
  simp only [List.mem_map, List.mem_dedup]
  constructor
  · rintro ⟨ct, h, rfl⟩; exact ⟨ct, h, rfl⟩
  · rintro ⟨ct, h, rfl⟩; exact ⟨ct, h, rfl⟩

theorem defaultPrograms_of_programs (acc : List Ins) (p : PPart) (h : p.programs ≠ []) : defaultPrograms acc p = [] := by
  unfold defaultPrograms
  have : p.programs.isEmpty = false := by
    cases hp : p.programs with
    | nil => exact absurd hp h
    | cons _ _ => rfl
  simp [this]

theorem defaultPrograms_none (acc : List Ins) (p : PPart) (hm : minTick (acc.map (fun i => i.2.1)) = none) :
    defaultPrograms acc p = [] := by
  unfold defaultPrograms
  split
  · rw [hm]
  · rfl

/-- the ticks of the events of a part with a note or control are not empty -/
theorem chanTracks_nil_of_no_events (q : Rat → Int) (p : PPart) (h : partEvents q p = []) : chanTracks p = [] := by
  unfold partEvents at h
  simp only [List.append_eq_nil_iff, List.map_eq_nil_iff, List.flatMap_eq_nil_iff] at h
  obtain ⟨⟨⟨⟨⟨_, _⟩, _⟩, hc⟩, hn⟩, _⟩ := h
  have hn' : p.notes = [] := by
    cases hp : p.notes with
    | nil => rfl
    | cons a l =>
      have hmem : a ∈ sortBy noteLe p.notes := (mem_sortBy _ _ _).mpr (by rw [hp]; exact List.mem_cons_self)
      have := hn a hmem
      simp [noteIns] at this
  unfold chanTracks
  rw [hc, hn']
  rfl

-- ------------------------------------------------------------------ all parts

/-- the default programs of a performance: for every part WITHOUT programs one `program_change 0` per distinct
    (channel, track) of its notes and controls, at the smallest tick of any event of this or an EARLIER part
    (`seen`: the events of the earlier parts) -/
def defaultsFrom (q : Rat → Int) (seen : List Ins) : List PPart → List Ins
  | [] => []
  | p :: rest =>
    let ev := seen ++ partEvents q p
    (if p.programs.isEmpty then
      match minTick (ev.map fun i => i.2.1) with
      | some m => (chanTracks p).dedup.map (dflt m)
      | none => []
     else []) ++ defaultsFrom q ev rest

theorem foldl_defaults (q : Rat → Int) (rest : List PPart) :
    ∀ (acc seen : List Ins), (∀ t, t ∈ acc.map (fun i => i.2.1) ↔ t ∈ seen.map (fun i => i.2.1)) →
      (rest.foldl (insertPart q) acc).Perm (acc ++ rest.flatMap (partEvents q) ++ defaultsFrom q seen rest) := by
  induction rest with
  | nil => intro acc seen _; simp [defaultsFrom]
  | cons p rest ih =>
    intro acc seen hticks
    have hticks' : ∀ t, t ∈ (acc ++ partEvents q p).map (fun i => i.2.1) ↔ t ∈ (seen ++ partEvents q p).map (fun i => i.2.1) := by
      intro t
      simp only [List.map_append, List.mem_append]
      rw [hticks t]
    have hmin := minTick_congr _ _ hticks'
    -- the defaults of this part
    have hd : (defaultPrograms (acc ++ partEvents q p) p).Perm
        (if p.programs.isEmpty then
          match minTick ((seen ++ partEvents q p).map fun i => i.2.1) with
          | some m => (chanTracks p).dedup.map (dflt m)
          | none => []
         else []) := by
      by_cases hnil : p.programs = []
      · simp only [hnil, List.isEmpty_nil, if_true]
        rw [← hmin]
        cases hm : minTick ((acc ++ partEvents q p).map fun i => i.2.1) with
        | none => rw [defaultPrograms_none _ p hm]
        | some m => exact defaultPrograms_perm _ p hnil m hm
      · have : p.programs.isEmpty = false := by
          cases hp : p.programs with
          | nil => exact absurd hp hnil
          | cons _ _ => rfl
        rw [defaultPrograms_of_programs _ p hnil]
        simp [this]
    -- the ticks after the insertion are still those of the events seen
    have hticks'' : ∀ t, t ∈ (insertPart q acc p).map (fun i => i.2.1) ↔ t ∈ (seen ++ partEvents q p).map (fun i => i.2.1) := by
      intro t
      unfold insertPart
      simp only
      rw [List.map_append, List.mem_append, hticks' t]
      constructor
      · rintro (h | h)
        · exact h
        · obtain ⟨i, hi, rfl⟩ := List.mem_map.mp h
          by_cases hnil : p.programs = []
          · cases hm : minTick ((acc ++ partEvents q p).map fun i => i.2.1) with
            | none =>
              rw [defaultPrograms_none _ p hm] at hi
              exact absurd hi List.not_mem_nil
            | some m =>
              obtain ⟨ct, _, rfl⟩ := (mem_defaultPrograms _ p hnil m hm i).mp hi
              exact (hticks' m).mp (minTick_spec _ m hm).1
          · rw [defaultPrograms_of_programs _ p hnil] at hi
            exact absurd hi List.not_mem_nil
      · exact fun h => Or.inl h
    rw [List.foldl_cons]
    refine (ih (insertPart q acc p) (seen ++ partEvents q p) hticks'').trans ?_
    unfold insertPart
    simp only [defaultsFrom, List.flatMap_cons, List.append_assoc]
    refine List.Perm.append_left _ (List.Perm.append_left _ ?_)
    -- D ++ (R ++ F) ~ R ++ (D' ++ F)
    rw [← List.append_assoc, ← List.append_assoc]
    refine List.Perm.append_right _ ?_
    exact (List.Perm.append_right _ hd).trans List.perm_append_comm

/-- **all appends of the exporter**: the events of the parts, and the default programs -/
theorem insertAll_defaults (q : Rat → Int) (parts : List PPart) :
    (insertAll q parts).Perm (parts.flatMap (partEvents q) ++ defaultsFrom q [] parts) := by
  unfold insertAll
  have := foldl_defaults q parts [] [] (fun _ => Iff.rfl)
  simpa using this

-- ------------------------------------------------------------------ the programs of the whole file

/-- the program changes among a list of appends: (tick, program, channel) -/
def progsOfIns (ins : List Ins) : List (Int × Nat × Nat) :=
  ins.filterMap fun i => (gProg i.2.2).map fun b => (i.2.1, b)

theorem evI_eq_filterMap {β : Type} (g : Ev → Option β) (tr : Nat) (ins : List Ins) :
    evI g tr ins = (ins.filter (fun i => decide (i.1 = tr))).filterMap fun i => (g i.2.2).map fun b => (i.2.1, b) := by
  unfold evI sel
  rw [List.filterMap_map]
  rfl

/-- over the used track numbers, the per-track selections make up the selection from all appends -/
theorem flatMap_evI_perm {β : Type} (g : Ev → Option β) (ins : List Ins) (l : List Nat) (hl : l.Nodup)
    (hc : ∀ i ∈ ins, i.1 ∈ l) :
    (l.flatMap fun tr => evI g tr ins).Perm (ins.filterMap fun i => (g i.2.2).map fun b => (i.2.1, b)) := by
  have h := flatMap_filter_perm (fun i : Ins => i.1) ins l hl hc
  have h2 := h.filterMap (fun i => (g i.2.2).map fun b => (i.2.1, b))
  refine List.Perm.trans (List.Perm.of_eq ?_) h2
  rw [List.filterMap_flatMap]
  apply List.flatMap_congr
  intro tr _
  exact evI_eq_filterMap g tr ins

theorem progsOfIns_append (a b : List Ins) : progsOfIns (a ++ b) = progsOfIns a ++ progsOfIns b := by
  simp [progsOfIns, List.filterMap_append]

theorem progsOfIns_partEvents (q : Rat → Int) (p : PPart) :
    progsOfIns (partEvents q p) = p.programs.map fun c => (q c.time, c.prog, c.ch) := by
  unfold progsOfIns partEvents
  simp only [List.filterMap_append, List.filterMap_map]
  have z1 : (p.metaOther.filterMap ((fun i : Ins => (gProg i.2.2).map fun b => (i.2.1, b)) ∘ fun m => (m.track, q m.time, m.ev))) = [] := by
    rw [List.filterMap_eq_nil_iff]
    intro m _
    simp only [Function.comp, PMetaO.ev]
    cases m.id <;> rfl
  have z2 : (p.keySigs.filterMap ((fun i : Ins => (gProg i.2.2).map fun b => (i.2.1, b)) ∘ fun m => (m.track, q m.time, Ev.keySig m.fifths m.minor))) = [] := by
    rw [List.filterMap_eq_nil_iff]; intro m _; rfl
  have z3 : (p.timeSigs.filterMap ((fun i : Ins => (gProg i.2.2).map fun b => (i.2.1, b)) ∘ fun m => (m.track, q m.time, Ev.timeSig m.num m.den))) = [] := by
    rw [List.filterMap_eq_nil_iff]; intro m _; rfl
  have z4 : (p.controls.filterMap ((fun i : Ins => (gProg i.2.2).map fun b => (i.2.1, b)) ∘ fun c => (c.track, q c.time, Ev.control c.ch c.num c.val))) = [] := by
    rw [List.filterMap_eq_nil_iff]; intro m _; rfl
  have z5 : ((sortBy noteLe p.notes).flatMap (noteIns q)).filterMap (fun i : Ins => (gProg i.2.2).map fun b => (i.2.1, b)) = [] := by
    rw [List.filterMap_eq_nil_iff]
    intro i hi
    obtain ⟨n, _, hin⟩ := List.mem_flatMap.mp hi
    simp only [noteIns, List.mem_cons, List.not_mem_nil, or_false] at hin
    rcases hin with rfl | rfl <;> rfl
  rw [z1, z2, z3, z4, z5]
  simp only [List.nil_append]
  rw [← List.filterMap_eq_map]
  rfl

theorem progsOfIns_flatMap (q : Rat → Int) (parts : List PPart) :
    progsOfIns (parts.flatMap (partEvents q)) = parts.flatMap fun p => p.programs.map fun c => (q c.time, c.prog, c.ch) := by
  induction parts with
  | nil => rfl
  | cons p parts ih => rw [List.flatMap_cons, progsOfIns_append, ih, progsOfIns_partEvents, List.flatMap_cons]

theorem progsOfIns_dflt (m : Int) (l : List (Nat × Nat)) :
    progsOfIns (l.map (dflt m)) = l.map fun ct => (m, 0, ct.1) := by
  unfold progsOfIns
  rw [List.filterMap_map, ← List.filterMap_eq_map]
  rfl

/-- all programs of the exporter's tracks, as a multiset: the program changes among all appends -/
theorem progs_exportAbs (q : Rat → Int) (mpq : Nat) (parts : List PPart) :
    ((exportAbs q mpq parts).flatMap (sel gProg)).Perm (progsOfIns (insertAll q parts)) := by
  have h1 : List.Forall₂ (fun tr t => (sel gProg t).Perm (evI gProg tr (insertAll q parts)))
      (usedTracks q parts) (exportAbs q mpq parts) := by
    refine forall₂_exportAbs _ q mpq parts ?_ ?_
    · intro tr
      rw [sel_cons_none gProg _ _ (by rfl)]
      exact sel_trackAbs gProg _ tr
    · intro tr
      exact sel_trackAbs gProg _ tr
  have h2 := (flatMap_perm_of_forall₂ _ _ _ _ (h1.imp (fun _ _ h => h.symm))).symm
  refine h2.trans ?_
  refine flatMap_evI_perm gProg _ _ (nodup_uniqueSorted _) ?_
  intro i hi
  unfold usedTracks
  rw [mem_uniqueSorted]
  exact List.mem_map_of_mem hi

end C06Defaults
