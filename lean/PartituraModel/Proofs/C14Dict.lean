/-
Helper lemmas for Props/C14Dict.lean and Props/C14Arrays.lean: `mapM'`, `storeSound`, `assignThr`, `setAt`.
-/
import PartituraModel.Proofs.C14Aux
import PartituraModel.Model.PedalDict

namespace C14P
open Model Model.Pedal

-- ------------------------------------------------------------------ mapM'

theorem mapM'_some_iff {α β : Type} (f : α → Option β) (l : List α) (bs : List β) :
    mapM' f l = some bs ↔ List.Forall₂ (fun a b => f a = some b) l bs := by
  induction l generalizing bs with
  | nil =>
    constructor
    · intro h
      simp only [mapM', Option.some.injEq] at h
      subst h
      exact List.Forall₂.nil
    · intro h
      cases h
      rfl
  | cons a rest ih =>
    constructor
    · intro h
      unfold mapM' at h
      cases hfa : f a with
      | none => simp [hfa] at h
      | some b =>
        cases hr : mapM' f rest with
        | none => simp [hfa, hr] at h
        | some bs' =>
          simp only [hfa, hr, Option.some.injEq] at h
          subst h
          exact List.Forall₂.cons hfa ((ih bs').mp hr)
    · intro h
      cases h with
      | cons h1 h2 =>
        unfold mapM'
        rw [h1, (ih _).mpr h2]

theorem mapM'_exists {α β : Type} (f : α → Option β) (l : List α) (h : ∀ a ∈ l, ∃ b, f a = some b) :
    ∃ bs, mapM' f l = some bs := by
  induction l with
  | nil => exact ⟨[], rfl⟩
  | cons a rest ih =>
    obtain ⟨b, hb⟩ := h a List.mem_cons_self
    obtain ⟨bs, hbs⟩ := ih (fun x hx => h x (List.mem_cons_of_mem _ hx))
    exact ⟨b :: bs, by simp [mapM', hb, hbs]⟩

theorem mapM'_none_of_mem {α β : Type} (f : α → Option β) (l : List α) (a : α) (ha : a ∈ l) (h : f a = none) :
    mapM' f l = none := by
  induction l with
  | nil => cases ha
  | cons x rest ih =>
    unfold mapM'
    rcases List.mem_cons.mp ha with rfl | hm
    · rw [h]
    · rw [ih hm]
      cases f x <;> rfl

theorem forall₂_mem_right {α β : Type} {R : α → β → Prop} {l : List α} {bs : List β} (h : List.Forall₂ R l bs)
    (b : β) (hb : b ∈ bs) : ∃ a ∈ l, R a b := by
  induction h with
  | nil => cases hb
  | cons h1 _ ih =>
    rcases List.mem_cons.mp hb with rfl | hm
    · exact ⟨_, List.mem_cons_self, h1⟩
    · obtain ⟨a, ha, hr⟩ := ih hm
      exact ⟨a, List.mem_cons_of_mem _ ha, hr⟩

-- ------------------------------------------------------------------ validators

theorem okRange_iff (v : Int) : okRange v = true ↔ 0 ≤ v ∧ v ≤ 127 := by
  simp only [okRange, Bool.not_eq_true', Bool.or_eq_false_iff, decide_eq_false_iff_not, not_lt]
  tauto

theorem okNoteOff_iff (a v : Rat) : okNoteOff a v = true ↔ a < 0 ∨ (0 ≤ v ∧ a ≤ v) := by
  simp only [okNoteOff, Bool.or_eq_true, decide_eq_true_eq, Bool.not_eq_true', Bool.or_eq_false_iff,
    decide_eq_false_iff_not, not_lt]

theorem okSoundOff_iff (a v : Rat) : okSoundOff a v = true ↔ a < 0 ∨ (0 ≤ v ∧ a ≤ v) := by
  simp only [okSoundOff, Bool.or_eq_true, decide_eq_true_eq, Bool.not_eq_true', Bool.or_eq_false_iff,
    decide_eq_false_iff_not, not_lt]

theorem okOffTick_iff (t : Option Int) (v : Int) :
    okOffTick t v = true ↔ t.getD (-1) < 0 ∨ (0 ≤ v ∧ t.getD (-1) ≤ v) := by
  simp only [okOffTick, Bool.or_eq_true, decide_eq_true_eq, Bool.not_eq_true', Bool.or_eq_false_iff,
    decide_eq_false_iff_not, not_lt]

theorem optAll_iff {α : Type} (p : α → Bool) (o : Option α) : optAll p o = true ↔ ∀ a, o = some a → p a = true := by
  cases o <;> simp [optAll]

theorem validInit_iff (n : PNote) :
    validInit n = true ↔
      (0 ≤ n.pitch ∧ n.pitch ≤ 127) ∧ 0 ≤ n.on ∧ (n.on < 0 ∨ (0 ≤ n.off ∧ n.on ≤ n.off))
      ∧ (0 ≤ n.vel ∧ n.vel ≤ 127) ∧ (n.off < 0 ∨ (0 ≤ n.soundOff ∧ n.off ≤ n.soundOff))
      ∧ (∀ t, n.onTick = some t → 0 ≤ t)
      ∧ (∀ u, n.offTick = some u → n.onTick.getD (-1) < 0 ∨ (0 ≤ u ∧ n.onTick.getD (-1) ≤ u)) := by
  unfold validInit
  simp only [Bool.and_eq_true, okRange_iff, okNoteOff_iff, okSoundOff_iff, decide_eq_true_eq, optAll_iff, okOffTick_iff]
  tauto

-- ------------------------------------------------------------------ storeSound

theorem storeSound_length (ns : List PNote) (so : List Rat) (h : so.length = ns.length) :
    (storeSound ns so).length = ns.length := by
  induction ns generalizing so with
  | nil => cases so <;> rfl
  | cons n rest ih =>
    cases so with
    | nil => simp at h
    | cons s ss =>
      simp only [storeSound, List.length_cons]
      rw [ih ss (by simpa using h)]

theorem storeSound_sound (ns : List PNote) (so : List Rat) (h : so.length = ns.length) :
    (storeSound ns so).map (·.soundOff) = so := by
  induction ns generalizing so with
  | nil => cases so with
    | nil => rfl
    | cons _ _ => simp at h
  | cons n rest ih =>
    cases so with
    | nil => simp at h
    | cons s ss =>
      simp only [storeSound, List.map_cons]
      rw [ih ss (by simpa using h)]

/-- storing the sounding ends changes nothing else -/
theorem storeSound_frame {β : Type} (g : PNote → β) (hg : ∀ (n : PNote) (s : Rat), g { n with soundOff := s } = g n)
    (ns : List PNote) (so : List Rat) (h : so.length = ns.length) : (storeSound ns so).map g = ns.map g := by
  induction ns generalizing so with
  | nil => cases so <;> rfl
  | cons n rest ih =>
    cases so with
    | nil => simp at h
    | cons s ss =>
      simp only [storeSound, List.map_cons]
      rw [ih ss (by simpa using h), hg]

theorem mem_storeSound (ns : List PNote) (so : List Rat) (x : PNote) (h : x ∈ storeSound ns so) :
    ∃ (k : Nat) (n : PNote) (s : Rat), ns[k]? = some n ∧ so[k]? = some s ∧ x = { n with soundOff := s } := by
  induction ns generalizing so with
  | nil => cases so <;> simp [storeSound] at h
  | cons a rest ih =>
    cases so with
    | nil => simp [storeSound] at h
    | cons s ss =>
      simp only [storeSound, List.mem_cons] at h
      rcases h with rfl | h
      · exact ⟨0, a, s, rfl, rfl, rfl⟩
      · obtain ⟨k, n, s', hn, hs, hx⟩ := ih ss h
        exact ⟨k + 1, n, s', by rw [List.getElem?_cons_succ]; exact hn, by rw [List.getElem?_cons_succ]; exact hs, hx⟩

theorem soundOffs_length (ns : List Note) (cs : List Control) (thr : Int) (so : List Rat)
    (h : soundOffs ns cs thr = some so) : so.length = ns.length := by
  rw [soundOffs_eq] at h
  have := Option.some.inj h
  subst this
  simp

/-- the threshold assignment on a part of `PerformedNote`s: never fails, rewrites exactly the `sound_off` column
    with `adjust_offsets_w_sustain` of the notes as they are now -/
theorem assignThr_spec (p : PPart) (t : Int) :
    ∃ q so, assignThr p t = some q ∧ soundOffs (p.notes.map PNote.toNote) p.controls t = some so
      ∧ q.notes = storeSound p.notes so ∧ so.length = p.notes.length ∧ q.controls = p.controls ∧ q.thr = t := by
  have h := soundOffs_eq (p.notes.map PNote.toNote) p.controls t
  refine ⟨{ p with notes := storeSound p.notes _, thr := t }, _, ?_, h, rfl, ?_, rfl, rfl⟩
  · unfold assignThr
    rw [h]
  · simp

-- ------------------------------------------------------------------ setAt

theorem setAt_length {α : Type} (l : List α) (i : Nat) (b : α) : (setAt l i b).length = l.length := by
  induction l generalizing i with
  | nil => rfl
  | cons a rest ih => cases i <;> simp [setAt, ih]

theorem setAt_get_self {α : Type} (l : List α) (i : Nat) (b : α) (h : i < l.length) : (setAt l i b)[i]? = some b := by
  induction l generalizing i with
  | nil => simp at h
  | cons a rest ih =>
    cases i with
    | zero => simp [setAt]
    | succ j => simp only [setAt, List.getElem?_cons_succ]; exact ih j (by simpa using h)

theorem setAt_get_other {α : Type} (l : List α) (i j : Nat) (b : α) (h : j ≠ i) : (setAt l i b)[j]? = l[j]? := by
  induction l generalizing i j with
  | nil => rfl
  | cons a rest ih =>
    cases i with
    | zero =>
      cases j with
      | zero => exact absurd rfl h
      | succ k => simp [setAt]
    | succ i' =>
      cases j with
      | zero => simp [setAt]
      | succ k => simp only [setAt, List.getElem?_cons_succ]; exact ih i' k (by omega)

theorem mem_setAt {α : Type} (l : List α) (i : Nat) (b x : α) (h : x ∈ setAt l i b) : x = b ∨ x ∈ l := by
  induction l generalizing i with
  | nil => simp [setAt] at h
  | cons a rest ih =>
    cases i with
    | zero =>
      simp only [setAt, List.mem_cons] at h
      rcases h with rfl | h
      · exact Or.inl rfl
      · exact Or.inr (List.mem_cons_of_mem _ h)
    | succ j =>
      simp only [setAt, List.mem_cons] at h
      rcases h with rfl | h
      · exact Or.inr List.mem_cons_self
      · rcases ih j h with h | h
        · exact Or.inl h
        · exact Or.inr (List.mem_cons_of_mem _ h)

end C14P
