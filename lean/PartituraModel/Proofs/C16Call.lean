/-
Helper lemmas for Props/C16Call.lean: which keys `quality + str(number)` have a size in INTERVAL_TO_SEMITONES.
-/
import PartituraModel.Model.TransposeCall
import PartituraModel.Proofs.Digits

namespace C16Call
open Model Gen

theorem lookup_mem {α β : Type} [DecidableEq α] {k : α} {v : β} :
    ∀ {l : List (α × β)}, lookup k l = some v → k ∈ l.map (·.1)
  | [], h => by simp [lookup] at h
  | (a, b) :: rest, h => by
    unfold lookup at h
    split at h
    · rename_i hab; simp [hab]
    · simp [lookup_mem h]

/-- a suffix of a key that is a non-empty string of digits is one of the numbers 1..7 -/
def sufOK (d : List Char) : Bool :=
  (d.isEmpty || !d.all Char.isDigit) || (decide (1 ≤ digitsToNat d) && decide (digitsToNat d ≤ 7))

/-- whole-table fact about the regenerated INTERVAL_TO_SEMITONES: every key is letters followed by ONE digit 1..7,
    and no key contains a minus sign -/
theorem key_suffixes : ∀ k ∈ INTERVAL_TO_SEMITONES.map (·.1),
    (∀ m ∈ List.range (k.toList.length + 1), sufOK (k.toList.drop m) = true) ∧ ('-' ∉ k.toList) := by
  decide +kernel

theorem showInt_natCast (m : Nat) : showInt (m : Int) = showNat m := by
  unfold showInt
  simp

theorem toList_key (q : String) (ds : List Char) : (q ++ String.ofList ds).toList = q.toList ++ ds := by
  simp [String.toList_append, String.toList_ofList]

theorem natDigits_allDigit (m : Nat) : (natDigits m).all Char.isDigit = true := by
  rw [List.all_eq_true]
  intro c hc
  exact (Digits.natDigits_all m c hc).1

/-- a key built from a natural number has a size only for the numbers 1..7 — for EVERY quality string -/
theorem sized_nat {q : String} {m : Nat} {z : Int}
    (h : lookup (q ++ showNat m) INTERVAL_TO_SEMITONES = some z) : 1 ≤ m ∧ m ≤ 7 := by
  have hk := key_suffixes _ (lookup_mem h)
  have hl : (q ++ showNat m).toList = q.toList ++ natDigits m := toList_key q _
  have h1 := hk.1 q.toList.length (by rw [hl]; simp; omega)
  rw [hl, List.drop_left] at h1
  unfold sufOK at h1
  have hne : (natDigits m).isEmpty = false := by
    cases hd : natDigits m with
    | nil => exact absurd hd (Digits.natDigits_ne_nil m)
    | cons _ _ => rfl
  simp only [hne, natDigits_allDigit, Bool.not_true, Bool.or_self, Bool.false_or, Bool.and_eq_true,
    decide_eq_true_eq, Digits.digitsToNat_natDigits] at h1
  exact h1

/-- … and from a Python int: zero, negative and compound numbers have no size -/
theorem sized_int {q : String} {n : Int} {z : Int}
    (h : lookup (q ++ showInt n) INTERVAL_TO_SEMITONES = some z) : 1 ≤ n ∧ n ≤ 7 := by
  by_cases hn : n < 0
  · exfalso
    have hk := key_suffixes _ (lookup_mem h)
    apply hk.2
    unfold showInt
    rw [if_pos hn, toList_key]
    simp
  · obtain ⟨m, rfl⟩ := Int.eq_ofNat_of_zero_le (by omega : 0 ≤ n)
    rw [showInt_natCast] at h
    have := sized_nat h
    omega

end C16Call
