/-
C13 — the binary floating-point columns of `pianoroll_to_notearray`: `roundBin` (round to nearest, ties to even,
`prec` significand bits, least subnormal `2^emin`) is within half a unit in the last place of its argument,
within relative error `2^-prec` in the normal range, and the identity on the numbers of the format.
-/
import PartituraModel.Model.PianoRollArgs
import PartituraModel.Proofs.Round
import Mathlib.Tactic.Linarith
import Mathlib.Tactic.FieldSimp
import Mathlib.Tactic.Positivity
import Mathlib.Tactic.Ring
import Mathlib.Tactic.Push
import Mathlib.Tactic.NormNum
import Mathlib.Algebra.Order.Field.Rat
import Mathlib.Algebra.Order.Field.Power
import Mathlib.Algebra.Order.Ring.Abs

open Model Model.PianoRoll Round

namespace C13Float

theorem pow2_eq (e : Int) : pow2 e = (2 : ℚ) ^ e := by
  unfold pow2
  split
  · rename_i h
    have : ((e.toNat : ℕ) : ℤ) = e := Int.toNat_of_nonneg h
    push_cast
    rw [← zpow_natCast, this]
  · rename_i h
    have hn : (((-e).toNat : ℕ) : ℤ) = -e := Int.toNat_of_nonneg (by omega)
    push_cast
    rw [← zpow_natCast, hn, zpow_neg, one_div, inv_inv]

theorem pow2_pos (e : Int) : 0 < pow2 e := by
  rw [pow2_eq]; positivity

theorem pow2_add (a b : Int) : pow2 (a + b) = pow2 a * pow2 b := by
  rw [pow2_eq, pow2_eq, pow2_eq, zpow_add₀ two_ne_zero]

theorem pow2_succ (e : Int) : pow2 (e + 1) = pow2 e * 2 := by
  rw [pow2_eq, pow2_eq, zpow_add_one₀ (two_ne_zero)]

theorem pow2_sub (a b : Int) : pow2 (a - b) = pow2 a / pow2 b := by
  rw [pow2_eq, pow2_eq, pow2_eq, zpow_sub₀ two_ne_zero]

theorem pow2_zero : pow2 0 = 1 := by rw [pow2_eq]; simp

theorem pow2_mono {a b : Int} (h : a ≤ b) : pow2 a ≤ pow2 b := by
  rw [pow2_eq, pow2_eq]
  exact zpow_le_zpow_right₀ (by norm_num) h

theorem pow2_lt {a b : Int} (h : a < b) : pow2 a < pow2 b := by
  rw [pow2_eq, pow2_eq]
  exact zpow_lt_zpow_right₀ (by norm_num) h

/-- `2^a < 2^b` only if `a < b` -/
theorem lt_of_pow2_lt {a b : Int} (h : pow2 a < pow2 b) : a < b := by
  by_contra hc
  exact absurd (pow2_mono (not_lt.mp hc)) (not_le.mpr h)

/-- a non-negative power of two is a whole number -/
theorem pow2_nat (n : Nat) : pow2 (n : Int) = ((2 ^ n : Nat) : ℚ) := by
  rw [pow2_eq, zpow_natCast]; push_cast; rfl

/-! ### integer logarithm -/

theorem log2Fuel_spec : ∀ (f n : Nat), n ≤ f → 1 ≤ n → 2 ^ log2Fuel f n ≤ n ∧ n < 2 ^ (log2Fuel f n + 1)
  | 0, n, h, h1 => by omega
  | f + 1, n, h, h1 => by
    unfold log2Fuel
    split
    · rename_i hn
      have : n = 1 := by omega
      subst this
      simp
    · rename_i hn
      have h2 : n / 2 ≤ f := by omega
      have h3 : 1 ≤ n / 2 := by omega
      obtain ⟨i1, i2⟩ := log2Fuel_spec f (n / 2) h2 h3
      rw [pow_succ, pow_succ]
      rw [pow_succ] at i2
      constructor <;> omega

theorem log2n_spec (n : Nat) (h : 1 ≤ n) : 2 ^ log2n n ≤ n ∧ n < 2 ^ (log2n n + 1) :=
  log2Fuel_spec n n (le_refl _) h

/-- `ilog2 q = ⌊log2 q⌋` -/
theorem ilog2_spec (q : ℚ) (hq : 0 < q) : pow2 (ilog2 q) ≤ q ∧ q < pow2 (ilog2 q + 1) := by
  have hnum : 0 < q.num := Rat.num_pos.mpr hq
  have hden : 0 < q.den := q.den_pos
  have hn1 : 1 ≤ q.num.natAbs := by omega
  obtain ⟨a1, a2⟩ := log2n_spec q.num.natAbs hn1
  obtain ⟨b1, b2⟩ := log2n_spec q.den hden
  have hqe : q = (q.num.natAbs : ℚ) / (q.den : ℚ) := by
    have h2 : ((q.num.natAbs : ℕ) : ℚ) = (q.num : ℚ) := by rw [Nat.cast_natAbs, abs_of_pos hnum]
    rw [h2]
    exact (Rat.num_div_den q).symm
  have hdpos : (0 : ℚ) < (q.den : ℚ) := by exact_mod_cast hden
  -- the casts of the four bounds
  have A1 : pow2 (log2n q.num.natAbs : ℤ) ≤ (q.num.natAbs : ℚ) := by rw [pow2_nat]; exact_mod_cast a1
  have A2 : (q.num.natAbs : ℚ) < pow2 ((log2n q.num.natAbs : ℤ) + 1) := by
    have : ((log2n q.num.natAbs : ℤ) + 1) = ((log2n q.num.natAbs + 1 : ℕ) : ℤ) := by push_cast; rfl
    rw [this, pow2_nat]; exact_mod_cast a2
  have B1 : pow2 (log2n q.den : ℤ) ≤ (q.den : ℚ) := by rw [pow2_nat]; exact_mod_cast b1
  have B2 : (q.den : ℚ) < pow2 ((log2n q.den : ℤ) + 1) := by
    have : ((log2n q.den : ℤ) + 1) = ((log2n q.den + 1 : ℕ) : ℤ) := by push_cast; rfl
    rw [this, pow2_nat]; exact_mod_cast b2
  set a : ℤ := (log2n q.num.natAbs : ℤ) with ha
  set b : ℤ := (log2n q.den : ℤ) with hb
  have hpb := pow2_pos b
  have hpb1 := pow2_pos (b + 1)
  -- q < 2^(a - b + 1) and 2^(a - b - 1) < q
  have up : q < pow2 (a - b + 1) := by
    have : pow2 (a - b + 1) = pow2 (a + 1) / pow2 b := by rw [← pow2_sub]; congr 1; ring
    rw [this, hqe, div_lt_div_iff₀ hdpos hpb]
    calc (q.num.natAbs : ℚ) * pow2 b ≤ (q.num.natAbs : ℚ) * (q.den : ℚ) :=
          mul_le_mul_of_nonneg_left B1 (by positivity)
      _ < pow2 (a + 1) * (q.den : ℚ) := mul_lt_mul_of_pos_right A2 hdpos
  have lo : pow2 (a - b - 1) < q := by
    have : pow2 (a - b - 1) = pow2 a / pow2 (b + 1) := by rw [← pow2_sub]; congr 1; ring
    rw [this, hqe, div_lt_div_iff₀ hpb1 hdpos]
    have hapos := pow2_pos a
    calc pow2 a * (q.den : ℚ) < pow2 a * pow2 (b + 1) := mul_lt_mul_of_pos_left B2 hapos
      _ ≤ (q.num.natAbs : ℚ) * pow2 (b + 1) := mul_le_mul_of_nonneg_right A1 (le_of_lt hpb1)
  unfold ilog2
  simp only
  rw [← ha, ← hb]
  split
  · rename_i h
    exact ⟨h, up⟩
  · rename_i h
    refine ⟨le_of_lt lo, ?_⟩
    have : a - b - 1 + 1 = a - b := by ring
    rw [this]
    exact not_le.mp h

/-! ### rounding -/

/-- the magnitude `roundBin` returns for a positive `a` -/
def roundPos (prec : Nat) (emin : Int) (a : ℚ) : ℚ :=
  let ue := ilog2 a - ((prec : Int) - 1)
  let u := pow2 (if ue < emin then emin else ue)
  (roundHalfEven (a / u) : ℚ) * u

theorem roundBin_pos (prec : Nat) (emin : Int) (q : ℚ) (h : 0 < q) : roundBin prec emin q = roundPos prec emin q := by
  unfold roundBin roundPos
  rw [if_neg (ne_of_gt h)]
  simp only [if_neg (not_lt.mpr (le_of_lt h))]

theorem roundBin_neg (prec : Nat) (emin : Int) (q : ℚ) (h : q < 0) : roundBin prec emin q = -roundPos prec emin (-q) := by
  unfold roundBin roundPos
  rw [if_neg (ne_of_lt h)]
  simp only [if_pos h]

theorem roundBin_zero (prec : Nat) (emin : Int) : roundBin prec emin 0 = 0 := by
  unfold roundBin; simp

/-- the unit in the last place used for `a` -/
def ulpOf (prec : Nat) (emin : Int) (a : ℚ) : ℚ :=
  pow2 (if ilog2 a - ((prec : Int) - 1) < emin then emin else ilog2 a - ((prec : Int) - 1))

theorem roundPos_close (prec : Nat) (emin : Int) (a : ℚ) :
    |roundPos prec emin a - a| ≤ ulpOf prec emin a / 2 := by
  unfold roundPos ulpOf
  simp only
  set u := pow2 (if ilog2 a - ((prec : Int) - 1) < emin then emin else ilog2 a - ((prec : Int) - 1)) with hu
  have hup : 0 < u := pow2_pos _
  have hc := roundHalfEven_close (a / u)
  have : (roundHalfEven (a / u) : ℚ) * u - a = ((roundHalfEven (a / u) : ℚ) - a / u) * u := by
    field_simp
  rw [this, abs_mul, abs_of_pos hup]
  calc |(roundHalfEven (a / u) : ℚ) - a / u| * u ≤ 1 / 2 * u := mul_le_mul_of_nonneg_right hc (le_of_lt hup)
    _ = u / 2 := by ring

/-- in the normal range the unit in the last place is at most `a * 2^(1 - prec)` -/
theorem ulpOf_normal (prec : Nat) (emin : Int) (a : ℚ) (ha : 0 < a) (hn : pow2 (emin + (prec : Int) - 1) ≤ a) :
    ulpOf prec emin a ≤ a * pow2 (1 - (prec : Int)) := by
  obtain ⟨l1, l2⟩ := ilog2_spec a ha
  have he : emin + (prec : Int) - 1 < ilog2 a + 1 := lt_of_pow2_lt (lt_of_le_of_lt hn l2)
  unfold ulpOf
  rw [if_neg (by omega)]
  have : ilog2 a - ((prec : Int) - 1) = ilog2 a + (1 - (prec : Int)) := by ring
  rw [this, pow2_add]
  exact mul_le_mul_of_nonneg_right l1 (le_of_lt (pow2_pos _))

theorem roundPos_rel (prec : Nat) (emin : Int) (a : ℚ) (ha : 0 < a) (hn : pow2 (emin + (prec : Int) - 1) ≤ a) :
    |roundPos prec emin a - a| ≤ a * pow2 (-(prec : Int)) := by
  have h1 := roundPos_close prec emin a
  have h2 := ulpOf_normal prec emin a ha hn
  have : pow2 (1 - (prec : Int)) = pow2 (-(prec : Int)) * 2 := by
    have : (1 - (prec : Int)) = -(prec : Int) + 1 := by ring
    rw [this, pow2_succ]
  rw [this] at h2
  linarith

/-- **relative error**: in the normal range `roundBin` is within `|q| * 2^-prec` of `q` -/
theorem roundBin_rel (prec : Nat) (emin : Int) (q : ℚ) (hn : pow2 (emin + (prec : Int) - 1) ≤ |q|) :
    |roundBin prec emin q - q| ≤ |q| * pow2 (-(prec : Int)) := by
  rcases lt_trichotomy q 0 with h | h | h
  · rw [roundBin_neg _ _ _ h]
    have hq : |q| = -q := abs_of_neg h
    rw [hq] at hn ⊢
    have := roundPos_rel prec emin (-q) (by linarith) hn
    have e : -roundPos prec emin (-q) - q = -(roundPos prec emin (-q) - -q) := by ring
    rw [e, abs_neg]
    exact this
  · subst h
    have := pow2_pos (emin + (prec : Int) - 1)
    simp only [abs_zero] at hn
    linarith
  · rw [roundBin_pos _ _ _ h]
    have hq : |q| = q := abs_of_pos h
    rw [hq] at hn ⊢
    exact roundPos_rel prec emin q h hn

/-- **absolute error everywhere** (also for subnormal results): half a unit in the last place, which is at most
    `max (|q| * 2^-prec) 2^(emin-1)` -/
theorem roundPos_abs (prec : Nat) (emin : Int) (a : ℚ) (ha : 0 < a) :
    |roundPos prec emin a - a| ≤ max (a * pow2 (-(prec : Int))) (pow2 (emin - 1)) := by
  have h1 := roundPos_close prec emin a
  obtain ⟨l1, _⟩ := ilog2_spec a ha
  unfold ulpOf at h1
  split at h1
  · refine le_trans h1 (le_trans ?_ (le_max_right _ _))
    have : pow2 emin = pow2 (emin - 1) * 2 := by
      have : emin = emin - 1 + 1 := by ring
      rw [this, pow2_succ]; ring_nf
    rw [this]; linarith [pow2_pos (emin - 1)]
  · refine le_trans h1 (le_trans ?_ (le_max_left _ _))
    have e : ilog2 a - ((prec : Int) - 1) = ilog2 a + (-(prec : Int) + 1) := by ring
    rw [e, pow2_add, pow2_succ]
    have := mul_le_mul_of_nonneg_right l1 (le_of_lt (pow2_pos (-(prec : Int))))
    linarith

/-! ### exactness on the numbers of the format -/

theorem roundPos_exact (prec : Nat) (emin : Int) (m : Nat) (k : Int) (hm0 : 0 < m) (hm : m < 2 ^ prec) (hk : emin ≤ k) :
    roundPos prec emin ((m : ℚ) * pow2 k) = (m : ℚ) * pow2 k := by
  have hmq : (0 : ℚ) < (m : ℚ) := by exact_mod_cast hm0
  have ha : 0 < (m : ℚ) * pow2 k := mul_pos hmq (pow2_pos k)
  obtain ⟨l1, _⟩ := ilog2_spec _ ha
  -- 2^e ≤ m 2^k < 2^(prec + k)
  have hlt : pow2 (ilog2 ((m : ℚ) * pow2 k)) < pow2 ((prec : Int) + k) := by
    refine lt_of_le_of_lt l1 ?_
    rw [pow2_add, pow2_nat]
    exact mul_lt_mul_of_pos_right (by exact_mod_cast hm) (pow2_pos k)
  have he := lt_of_pow2_lt hlt
  unfold roundPos
  simp only
  set j : Int := (if ilog2 ((m : ℚ) * pow2 k) - ((prec : Int) - 1) < emin then emin
    else ilog2 ((m : ℚ) * pow2 k) - ((prec : Int) - 1)) with hj
  have hjk : j ≤ k := by
    rw [hj]; split <;> omega
  -- a / 2^j = m * 2^(k - j), a whole number
  obtain ⟨d, hd⟩ : ∃ d : Nat, k - j = (d : Int) := ⟨(k - j).toNat, (Int.toNat_of_nonneg (by omega)).symm⟩
  have hdiv : (m : ℚ) * pow2 k / pow2 j = (((m * 2 ^ d : Nat) : Int) : ℚ) := by
    rw [mul_div_assoc, ← pow2_sub, hd, pow2_nat]
    push_cast
    ring
  rw [hdiv, roundHalfEven_int]
  have hk' : pow2 k = pow2 (k - j) * pow2 j := by rw [← pow2_add]; congr 1; ring
  rw [hk', hd, pow2_nat]
  push_cast
  ring

/-- **exactness**: a number `m * 2^k` with `|m| < 2^prec` and `k ≥ emin` is returned unchanged -/
theorem roundBin_exact (prec : Nat) (emin : Int) (m : Int) (k : Int) (hm : m.natAbs < 2 ^ prec) (hk : emin ≤ k) :
    roundBin prec emin ((m : ℚ) * pow2 k) = (m : ℚ) * pow2 k := by
  rcases lt_trichotomy m 0 with h | h | h
  · have hq : (m : ℚ) * pow2 k < 0 := mul_neg_of_neg_of_pos (by exact_mod_cast h) (pow2_pos k)
    rw [roundBin_neg _ _ _ hq]
    have e : -((m : ℚ) * pow2 k) = ((m.natAbs : ℕ) : ℚ) * pow2 k := by
      have : ((m.natAbs : ℕ) : ℚ) = -(m : ℚ) := by rw [Nat.cast_natAbs, abs_of_neg h]; push_cast; ring
      rw [this]; ring
    rw [e, roundPos_exact prec emin m.natAbs k (by omega) hm hk, ← e]
    ring
  · subst h
    simp [roundBin_zero]
  · have hq : 0 < (m : ℚ) * pow2 k := mul_pos (by exact_mod_cast h) (pow2_pos k)
    rw [roundBin_pos _ _ _ hq]
    have e : (m : ℚ) * pow2 k = ((m.natAbs : ℕ) : ℚ) * pow2 k := by
      have : ((m.natAbs : ℕ) : ℚ) = (m : ℚ) := by rw [Nat.cast_natAbs, abs_of_pos h]
      rw [this]
    rw [e, roundPos_exact prec emin m.natAbs k (by omega) hm hk]

end C13Float
