/-
C11 (round 6) — `format_symbolic_duration` names the value: for type names without `.` and `_` the formatted string
determines type, dots and the tuplet ratio (Model/SymConv.lean `formatChars`).
-/
import PartituraModel.Model.SymConv
import PartituraModel.Proofs.Digits

namespace C11Conv
open Model Model.Dur Model.Meas Model.Conv

/-- a tail that is empty or begins with a character failing `p` -/
def Stops (p : Char → Bool) (r : List Char) : Prop := r = [] ∨ ∃ c t, r = c :: t ∧ p c = false

theorem takeWhile_prefix (p : Char → Bool) : ∀ (a r : List Char), (∀ c ∈ a, p c = true) → Stops p r →
    (a ++ r).takeWhile p = a := by
  intro a
  induction a with
  | nil =>
    intro r _ hr
    rcases hr with rfl | ⟨c, t, rfl, hc⟩
    · rfl
    · simp [hc]
  | cons x xs ih =>
    intro r ha hr
    have hx := ha x List.mem_cons_self
    rw [List.cons_append, List.takeWhile_cons, hx]
    simp only [if_true]
    rw [ih r (fun c hc => ha c (List.mem_cons_of_mem _ hc)) hr]

/-- a string splits in only one way into a run satisfying `p` and a tail that stops it -/
theorem split_unique (p : Char → Bool) (a a' r r' : List Char) (ha : ∀ c ∈ a, p c = true) (ha' : ∀ c ∈ a', p c = true)
    (hr : Stops p r) (hr' : Stops p r') (h : a ++ r = a' ++ r') : a = a' ∧ r = r' := by
  have e : a = a' := by
    rw [← takeWhile_prefix p a r ha hr, h, takeWhile_prefix p a' r' ha' hr']
  subst e
  exact ⟨rfl, List.append_cancel_left h⟩

theorem natDigits_inj (a b : Nat) (h : natDigits a = natDigits b) : a = b := by
  have := congrArg digitsToNat h
  rwa [Digits.digitsToNat_natDigits, Digits.digitsToNat_natDigits] at this

theorem tupletSuffix_stops (p : Char → Bool) (hp : p '_' = false) (a n : Option Nat) : Stops p (tupletSuffix a n) := by
  unfold tupletSuffix
  split
  · exact Or.inr ⟨'_', _, rfl, hp⟩
  · exact Or.inl rfl

/-- the suffix determines whether the value is a tuplet, and its ratio -/
theorem tupletSuffix_inj (a n a' n' : Option Nat) (h : tupletSuffix a n = tupletSuffix a' n') :
    ((a.isSome ∧ n.isSome) ↔ (a'.isSome ∧ n'.isSome)) ∧ (a.isSome → n.isSome → a = a' ∧ n = n') := by
  cases a with
  | none =>
    cases a' with
    | none => simp
    | some x' =>
      cases n' with
      | none => simp
      | some y' => cases n <;> simp [tupletSuffix] at h
  | some x =>
    cases n with
    | none =>
      cases a' with
      | none => simp
      | some x' =>
        cases n' with
        | none => simp
        | some y' => simp [tupletSuffix] at h
    | some y =>
      cases a' with
      | none => cases n' <;> simp [tupletSuffix] at h
      | some x' =>
        cases n' with
        | none => simp [tupletSuffix] at h
        | some y' =>
          simp only [tupletSuffix] at h
          have h := List.tail_eq_of_cons_eq h
          have hd : ∀ k : Nat, ∀ c ∈ natDigits k, c.isDigit = true := fun k c hc => (Digits.natDigits_all k c hc).1
          have hs : ∀ k : Nat, Stops Char.isDigit ('/' :: natDigits k) := fun k => Or.inr ⟨'/', _, rfl, by decide⟩
          obtain ⟨e1, e2⟩ := split_unique Char.isDigit _ _ _ _ (hd x) (hd x') (hs y) (hs y') h
          have e3 : natDigits y = natDigits y' := by simpa using e2
          simp [natDigits_inj _ _ e1, natDigits_inj _ _ e3]

def plainChar (c : Char) : Bool := c != '.' && c != '_'

/-- **the formatted string names the value**: two single values whose type names contain neither `.` nor `_` and that
    format to the same string have the same type and the same number of dots, are both tuplets or both not, and as
    tuplets have the same ratio -/
theorem format_injective (ty ty' : String) (d d' : Nat) (a n a' n' : Option Nat)
    (hty : ∀ c ∈ ty.toList, plainChar c = true) (hty' : ∀ c ∈ ty'.toList, plainChar c = true)
    (h : formatChars (some (.single (ty, d, a, n))) = formatChars (some (.single (ty', d', a', n')))) :
    ty = ty' ∧ d = d' ∧ ((a.isSome ∧ n.isSome) ↔ (a'.isSome ∧ n'.isSome)) ∧ (a.isSome → n.isSome → a = a' ∧ n = n') := by
  simp only [formatChars, Option.some.injEq, List.append_assoc] at h
  have stop1 : ∀ (k : Nat) (x y : Option Nat), Stops plainChar (List.replicate k '.' ++ tupletSuffix x y) := by
    intro k x y
    cases k with
    | zero => simpa using tupletSuffix_stops plainChar (by decide) x y
    | succ k => exact Or.inr ⟨'.', _, by rw [List.replicate_succ]; rfl, by decide⟩
  obtain ⟨e1, e2⟩ := split_unique plainChar _ _ _ _ hty hty' (stop1 d a n) (stop1 d' a' n') h
  have hdot : ∀ k : Nat, ∀ c ∈ List.replicate k '.', (c == '.') = true := by
    intro k c hc; rw [List.eq_of_mem_replicate hc]; rfl
  obtain ⟨e3, e4⟩ := split_unique (· == '.') _ _ _ _ (hdot d) (hdot d')
    (tupletSuffix_stops _ (by decide) a n) (tupletSuffix_stops _ (by decide) a' n') e2
  have e5 : d = d' := by simpa using congrArg List.length e3
  obtain ⟨e6, e7⟩ := tupletSuffix_inj a n a' n' e4
  exact ⟨String.ext e1, e5, e6, e7⟩

end C11Conv
