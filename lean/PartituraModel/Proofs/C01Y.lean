/-
C01 helper lemmas, round 6: the machine `stepY` (Model/TimelineY.lean) — comparisons, class-query wrappers,
`duration`, the Tuplet setters.
-/
import PartituraModel.Proofs.C01XStep
import PartituraModel.Model.TimelineY

namespace TL

-- ------------------------------------------------------------------ ComparableMixin

theorem lookup_lt : lookupStr Gen.C01Views.cmpLambdas "__lt__" = some "<" := by decide
theorem lookup_le : lookupStr Gen.C01Views.cmpLambdas "__le__" = some "<=" := by decide
theorem lookup_eq : lookupStr Gen.C01Views.cmpLambdas "__eq__" = some "==" := by decide
theorem lookup_ge : lookupStr Gen.C01Views.cmpLambdas "__ge__" = some ">=" := by decide
theorem lookup_gt : lookupStr Gen.C01Views.cmpLambdas "__gt__" = some ">" := by decide
theorem lookup_ne : lookupStr Gen.C01Views.cmpLambdas "__ne__" = some "!=" := by decide

theorem cmp_not_swapped : Gen.C01Views.compareSwapped = false := by decide
theorem cmp_key_t : Gen.C01Views.cmpKeyIsT = true := by decide

theorem tpCompare_of_lookup {d sym : String} (h : lookupStr Gen.C01Views.cmpLambdas d = some sym) (a b : Int) :
    tpCompare d a b = cmpEval sym a b := by
  unfold tpCompare
  rw [cmp_key_t, h, cmp_not_swapped]
  rfl

theorem tpCompare_lt (a b : Int) : tpCompare "__lt__" a b = some (decide (a < b)) := by
  rw [tpCompare_of_lookup lookup_lt]; rfl

theorem tpCompare_le (a b : Int) : tpCompare "__le__" a b = some (decide (a ≤ b)) := by
  rw [tpCompare_of_lookup lookup_le]; rfl

theorem tpCompare_eq (a b : Int) : tpCompare "__eq__" a b = some (decide (a = b)) := by
  rw [tpCompare_of_lookup lookup_eq]; rfl

theorem tpCompare_ge (a b : Int) : tpCompare "__ge__" a b = some (decide (b ≤ a)) := by
  rw [tpCompare_of_lookup lookup_ge]; rfl

theorem tpCompare_gt (a b : Int) : tpCompare "__gt__" a b = some (decide (b < a)) := by
  rw [tpCompare_of_lookup lookup_gt]; rfl

theorem tpCompare_ne (a b : Int) : tpCompare "__ne__" a b = some (decide (a ≠ b)) := by
  rw [tpCompare_of_lookup lookup_ne]; rfl

theorem searchsortedC_eq_searchsorted (ts : List Int) (t : Int) : searchsortedC ts t = searchsorted ts t := by
  induction ts with
  | nil => rfl
  | cons x xs ih =>
    simp only [searchsortedC, searchsorted, tpCompare_lt, Option.some.injEq, decide_eq_true_eq, ih]

-- ------------------------------------------------------------------ lookupStr

theorem lookupStr_mem {α : Type} {l : List (String × α)} {k : String} {v : α} (h : lookupStr l k = some v) :
    (k, v) ∈ l := by
  induction l with
  | nil => simp [lookupStr] at h
  | cons e rest ih =>
    obtain ⟨k', v'⟩ := e
    simp only [lookupStr] at h
    split at h
    · next hk =>
      simp only [Option.some.injEq] at h
      subst hk; subst h
      exact List.mem_cons_self
    · exact List.mem_cons_of_mem _ (ih h)

-- ------------------------------------------------------------------ tuplet setters

/-- the timeline effect of a Tuplet setter is nothing, or ONE `remove_*_object` at the point where the previous
note starts / ends -/
theorem tupletDetach_cases (s : Part) (sd : Side) (tup : ObjRef) (old note : Option ObjRef) :
    tupletDetach s sd tup old note = s
    ∨ ∃ n o t, note = some n ∧ old = some o ∧ ((getObj s.objs n).at sd).isSome ∧ (getObj s.objs o).at sd = some t
        ∧ tupletDetach s sd tup old note = tpUnregister s sd t tup := by
  unfold tupletDetach
  cases note with
  | none => exact Or.inl rfl
  | some n =>
    cases hn : (getObj s.objs n).at sd with
    | none => left; simp only [hn]
    | some tn =>
      cases old with
      | none => left; simp only [hn]
      | some o =>
        cases ho : (getObj s.objs o).at sd with
        | none => left; simp only [hn, ho]
        | some t => exact Or.inr ⟨n, o, t, rfl, rfl, by simp [hn], ho, by simp only [hn, ho]⟩

theorem tupletDetach_wgood {s : Part} (h : WGood s) (sd : Side) (tup : ObjRef) (old note : Option ObjRef) :
    WGood (tupletDetach s sd tup old note) := by
  rcases tupletDetach_cases s sd tup old note with he | ⟨n, o, t, -, -, -, -, he⟩
  · rw [he]; exact h
  · rw [he]; exact tpUnregister_wgood h sd t tup

theorem tupletDetach_qtab (s : Part) (sd : Side) (tup : ObjRef) (old note : Option ObjRef) :
    (tupletDetach s sd tup old note).qtab = s.qtab := by
  rcases tupletDetach_cases s sd tup old note with he | ⟨n, o, t, -, -, -, -, he⟩
  · rw [he]
  · rw [he, tpUnregister_eq, allowEmpty_qtab]; rfl

-- ------------------------------------------------------------------ the machine

/-- the invariant of all histories of the round-6 machine -/
def YInv (y : YPart) : Prop := XInv y.c

theorem stepY_preserves {staff : ObjRef → Option Nat} {y y' : YPart} {out : OutY} (h : YInv y) {op : OpY}
    (hq : op.qdNonneg) (he : stepY staff y op = .ok (y', out)) : YInv y' := by
  cases op with
  | base op =>
    simp only [stepY] at he
    cases hs : stepX y.c op with
    | error e => rw [hs] at he; cases he
    | ok r =>
      rw [hs] at he
      simp only [Except.map, Except.ok.injEq, Prod.mk.injEq] at he
      obtain ⟨rfl, -⟩ := he
      obtain ⟨c', o'⟩ := r
      exact stepX_preserves h hq hs
  | tupletStart tup note =>
    simp only [stepY, Except.ok.injEq, Prod.mk.injEq] at he
    obtain ⟨rfl, -⟩ := he
    exact xinv_same_table h ((wgood_iff_winv _).mp (tupletDetach_wgood ((wgood_iff_winv _).mpr h.1) _ _ _ _))
      (tupletDetach_qtab _ _ _ _ _)
  | tupletEnd tup note =>
    simp only [stepY, Except.ok.injEq, Prod.mk.injEq] at he
    obtain ⟨rfl, -⟩ := he
    exact xinv_same_table h ((wgood_iff_winv _).mp (tupletDetach_wgood ((wgood_iff_winv _).mpr h.1) _ _ _ _))
      (tupletDetach_qtab _ _ _ _ _)
  | view name =>
    simp only [stepY, Except.ok.injEq, Prod.mk.injEq] at he
    obtain ⟨rfl, -⟩ := he
    exact h
  | staves =>
    simp only [stepY, Except.ok.injEq, Prod.mk.injEq] at he
    obtain ⟨rfl, -⟩ := he
    unfold readStaves
    split <;> exact h
  | duration o =>
    simp only [stepY, Except.ok.injEq, Prod.mk.injEq] at he
    obtain ⟨rfl, -⟩ := he
    exact h

def OpY.negTime : OpY → Bool
  | .base op => op.negTime
  | _ => false

theorem stepY_ok {staff : ObjRef → Option Nat} {y : YPart} (h : YInv y) {op : OpY} (hq : op.qdNonneg)
    (hn : op.negTime = false) : ∃ r, stepY staff y op = .ok r := by
  cases op with
  | base op =>
    obtain ⟨r, hr⟩ := stepX_ok h hq hn
    exact ⟨_, by simp only [stepY, hr, Except.map]; rfl⟩
  | tupletStart tup note => exact ⟨_, rfl⟩
  | tupletEnd tup note => exact ⟨_, rfl⟩
  | view name => exact ⟨_, rfl⟩
  | staves => exact ⟨_, rfl⟩
  | duration o => exact ⟨_, rfl⟩

def nextY (staff : ObjRef → Option Nat) (y : YPart) (op : OpY) : YPart :=
  match stepY staff y op with
  | .ok (y', _) => y'
  | .error _ => y

theorem runY_cons (staff : ObjRef → Option Nat) (y : YPart) (op : OpY) (ops : List OpY) :
    runY staff y (op :: ops) = runY staff (nextY staff y op) ops := by
  unfold nextY
  simp only [runY]
  cases stepY staff y op with
  | error e => rfl
  | ok r => rfl

theorem nextY_yinv {staff : ObjRef → Option Nat} {y : YPart} (h : YInv y) {op : OpY} (hq : op.qdNonneg) :
    YInv (nextY staff y op) := by
  unfold nextY
  cases he : stepY staff y op with
  | error e => exact h
  | ok r =>
    obtain ⟨y', out⟩ := r
    exact stepY_preserves h hq he

theorem runY_yinv {staff : ObjRef → Option Nat} {y : YPart} (h : YInv y) (ops : List OpY)
    (hq : ∀ op ∈ ops, op.qdNonneg) : YInv (runY staff y ops) := by
  induction ops generalizing y with
  | nil => exact h
  | cons op ops ih =>
    rw [runY_cons]
    exact ih (nextY_yinv h (hq op (by simp))) (fun op' h' => hq op' (by simp [h']))

/-- histories without the new operations: the part and its quarter memo evolve exactly as in the machine of round 5 -/
theorem runY_base (staff : ObjRef → Option Nat) (y : YPart) (ops : List OpX) :
    (runY staff y (ops.map .base)).c = runX y.c ops := by
  induction ops generalizing y with
  | nil => rfl
  | cons op ops ih =>
    simp only [List.map_cons, runY, runX, stepY]
    cases hs : stepX y.c op with
    | error e => simp only [Except.map]; exact ih y
    | ok r =>
      obtain ⟨c', o'⟩ := r
      simp only [Except.map]
      rw [ih]

end TL
