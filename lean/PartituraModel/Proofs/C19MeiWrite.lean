/-
Helper lemmas for the C19 MEI writer theorems: the elements written by `MeiWrite.writeMei` drive the `Mei`
state machine event by event.
-/
import PartituraModel.Model.MeiWrite
import PartituraModel.Proofs.C19Write

set_option linter.unusedSimpArgs false

namespace C19M
open Model Model.Mei Model.MeiWrite

/-! ## strings -/

theorem natOfString_showNat (n : Nat) : natOfString (showNat n) = some n := by
  have h := C19W.natDigits_mem n
  have hall := C19W.digits_all_isDigit _ h
  simp [natOfString, showNat, Digits.natDigits_ne_nil, hall, Digits.digitsToNat_natDigits]

theorem natOfString_intStr (i : Int) (h : 0 ≤ i) : natOfString (intStr i) = some i.toNat := by
  have : ¬ (i < 0) := by omega
  simp [intStr, showInt, this, natOfString_showNat]

/-! ## opening and closing elements that carry no meaning here -/

/-- what `openEv` does first: the beat units and the written durations are collected for the inferred ppq -/
def pre (st : Mei.St) (tag : String) (as : List (String × String)) : Option Mei.St := recordDurEl (recordUnits st tag as) as

theorem pre_noDur (st : Mei.St) (tag : String) (as : List (String × String)) (h1 : attr as "dur" = none)
    (h2 : natAttr as "meter.unit" = none) (h3 : tag ≠ "meterSig") : pre st tag as = some st := by
  simp [pre, recordDurEl, recordUnits, h1, h2, h3]

/-- closing an element whose end means nothing to the state machine -/
theorem closeEv_plain (st : Mei.St) (f : Frame) (rest : List Frame) (hs : st.stack = f :: rest)
    (h1 : f.tag ≠ "scoreDef") (h2 : f.tag ≠ "staffDef") (h3 : f.tag ≠ "layer") (h4 : f.tag ≠ "staff")
    (h5 : f.tag ≠ "measure") (h6 : f.tag ≠ "chord") : closeEv st = some { st with stack := rest } := by
  simp [closeEv, hs, h1, h2, h3, h4, h5, h6]

/-! ## attributes -/

theorem lookup_append (k : String) (a b : List (String × String)) :
    lookup k (a ++ b) = match lookup k a with | some v => some v | none => lookup k b := by
  induction a with
  | nil => rfl
  | cons e rest ih =>
    obtain ⟨e1, e2⟩ := e
    simp only [List.cons_append, lookup]
    split
    · rfl
    · exact ih

theorem lookup_dotsAttr (sd : KernWrite.SymDur) (k : String) (hk : k ≠ "dots") : lookup k (dotsAttr sd) = none := by
  unfold dotsAttr
  split
  · rfl
  · simp [lookup, Ne.symm hk]

theorem lookup_dotsAttr_self (sd : KernWrite.SymDur) :
    (lookup "dots" (dotsAttr sd)).bind natOfString = if sd.dots = 0 then none else some sd.dots := by
  unfold dotsAttr
  split
  · rfl
  · simp [lookup, natStr, natOfString_showNat]

theorem lookup_tieAttr (n : KernWrite.XNote) (k : String) (hk : k ≠ "tie") : lookup k (tieAttr n) = none := by
  unfold tieAttr
  split
  · simp [lookup, Ne.symm hk]
  · split
    · simp [lookup, Ne.symm hk]
    · split
      · simp [lookup, Ne.symm hk]
      · rfl

theorem lookup_gesAttr (ges : Option String) (k : String) (hk : k ≠ "accid.ges") : lookup k (gesAttr ges) = none := by
  cases ges with
  | none => rfl
  | some a => simp [gesAttr, lookup, Ne.symm hk]

theorem lookup_gesAttr_self (ges : Option String) : lookup "accid.ges" (gesAttr ges) = ges := by
  cases ges with
  | none => rfl
  | some a => simp [gesAttr, lookup]

theorem lookup_graceAttr (n : KernWrite.XNote) (k : String) (hk : k ≠ "grace") : lookup k (graceAttr n) = none := by
  unfold graceAttr
  split
  · simp [lookup, Ne.symm hk]
  · rfl

theorem lookup_graceAttr_self (n : KernWrite.XNote) : (lookup "grace" (graceAttr n)).isSome = decide (n.kind = 1) := by
  unfold graceAttr
  split
  · rename_i h; simp [lookup, h]
  · rename_i h; simp [lookup, h]

/-- what the state machine reads off a written `note` element -/
theorem noteAttrs_read (m : MNote) (d : String) (sd : KernWrite.SymDur) (ges : Option String) :
    attr (noteAttrs m d sd ges) "dur" = some d ∧
    natAttr (noteAttrs m d sd ges) "dots" = (if sd.dots = 0 then none else some sd.dots) ∧
    attr (noteAttrs m d sd ges) "pname" = some (lowerStep m.n.step) ∧
    attr (noteAttrs m d sd ges) "oct" = some (intStr m.n.octave) ∧
    natAttr (noteAttrs m d sd ges) "staff" = some m.n.staff ∧
    (attr (noteAttrs m d sd ges) "grace").isSome = decide (m.n.kind = 1) ∧
    attr (noteAttrs m d sd ges) "accid" = none ∧
    attr (noteAttrs m d sd ges) "accid.ges" = ges ∧
    natAttr (noteAttrs m d sd ges) "meter.unit" = none ∧
    natAttr (noteAttrs m d sd ges) "dur.ppq" = none ∧
    attr (noteAttrs m d sd ges) "xml:id" = some m.id := by
  have S : ∀ k, attr (noteAttrs m d sd ges) k =
      match lookup k [("dur", d), ("xml:id", m.id)] with
      | some v => some v
      | none => match lookup k (dotsAttr sd) with
        | some v => some v
        | none => match lookup k [("oct", intStr m.n.octave), ("pname", lowerStep m.n.step), ("staff", natStr m.n.staff)] with
          | some v => some v
          | none => match lookup k (tieAttr m.n) with
            | some v => some v
            | none => match lookup k (gesAttr ges) with
              | some v => some v
              | none => lookup k (graceAttr m.n) := by
    intro k
    simp only [attr, noteAttrs, lookup_append]
    cases lookup k [("dur", d), ("xml:id", m.id)] <;> cases lookup k (dotsAttr sd) <;>
      cases lookup k [("oct", intStr m.n.octave), ("pname", lowerStep m.n.step), ("staff", natStr m.n.staff)] <;>
      cases lookup k (tieAttr m.n) <;> cases lookup k (gesAttr ges) <;> rfl
  refine ⟨?_, ?_, ?_, ?_, ?_, ?_, ?_, ?_, ?_, ?_, ?_⟩
  · simp [S, lookup]
  · have := lookup_dotsAttr_self sd
    simp only [natAttr, S]
    simp only [lookup, show ¬ ("dur" = "dots") by decide, show ¬ ("xml:id" = "dots") by decide, if_false]
    cases h : lookup "dots" (dotsAttr sd) with
    | none => simp [h] at this; simp [lookup, lookup_tieAttr, lookup_gesAttr, lookup_graceAttr, ← this]
    | some v => simpa [h] using this
  · simp [S, lookup, lookup_dotsAttr]
  · simp [S, lookup, lookup_dotsAttr]
  · simp [natAttr, S, lookup, lookup_dotsAttr, natStr, natOfString_showNat]
  · simp only [S]
    simp [lookup, lookup_dotsAttr, lookup_tieAttr, lookup_gesAttr, lookup_graceAttr_self]
  · simp [S, lookup, lookup_dotsAttr, lookup_tieAttr, lookup_gesAttr, lookup_graceAttr]
  · simp [S, lookup, lookup_dotsAttr, lookup_tieAttr, lookup_gesAttr_self]
    cases ges with
    | none => simp [lookup_graceAttr]
    | some a => rfl
  · simp [natAttr, S, lookup, lookup_dotsAttr, lookup_tieAttr, lookup_gesAttr, lookup_graceAttr]
  · simp [natAttr, S, lookup, lookup_dotsAttr, lookup_tieAttr, lookup_gesAttr, lookup_graceAttr]
  · simp [S, lookup]

theorem restAttrs_read (m : MNote) (d : String) (sd : KernWrite.SymDur) :
    attr (restAttrs m d sd) "dur" = some d ∧
    natAttr (restAttrs m d sd) "dots" = (if sd.dots = 0 then none else some sd.dots) ∧
    natAttr (restAttrs m d sd) "staff" = none ∧
    natAttr (restAttrs m d sd) "meter.unit" = none ∧
    natAttr (restAttrs m d sd) "dur.ppq" = none ∧
    attr (restAttrs m d sd) "xml:id" = some m.id := by
  have S : ∀ k, attr (restAttrs m d sd) k =
      match lookup k [("dur", d)] with
      | some v => some v
      | none => match lookup k (dotsAttr sd) with
        | some v => some v
        | none => lookup k [("xml:id", m.id)] := by
    intro k
    simp only [attr, restAttrs, lookup_append]
    cases lookup k [("dur", d)] <;> cases lookup k (dotsAttr sd) <;> rfl
  refine ⟨?_, ?_, ?_, ?_, ?_, ?_⟩
  · simp [S, lookup]
  · have := lookup_dotsAttr_self sd
    simp only [natAttr, S]
    simp only [lookup, show ¬ ("dur" = "dots") by decide, if_false]
    cases h : lookup "dots" (dotsAttr sd) with
    | none => simp [h] at this; simp [lookup, ← this]
    | some v => simpa [h] using this
  · simp [natAttr, S, lookup, lookup_dotsAttr]
  · simp [natAttr, S, lookup, lookup_dotsAttr]
  · simp [natAttr, S, lookup, lookup_dotsAttr]
  · simp [S, lookup, lookup_dotsAttr]

theorem chordAttrs_read (d : String) (sd : KernWrite.SymDur) :
    attr ([("dur", d)] ++ dotsAttr sd) "dur" = some d ∧
    natAttr ([("dur", d)] ++ dotsAttr sd) "dots" = (if sd.dots = 0 then none else some sd.dots) ∧
    natAttr ([("dur", d)] ++ dotsAttr sd) "staff" = none ∧
    natAttr ([("dur", d)] ++ dotsAttr sd) "meter.unit" = none ∧
    natAttr ([("dur", d)] ++ dotsAttr sd) "dur.ppq" = none := by
  refine ⟨?_, ?_, ?_, ?_, ?_⟩
  · simp [attr, lookup]
  · have := lookup_dotsAttr_self sd
    simp only [natAttr, attr, lookup_append, lookup, show ¬ ("dur" = "dots") by decide, if_false]
    exact this
  · simp [natAttr, attr, lookup_append, lookup, lookup_dotsAttr]
  · simp [natAttr, attr, lookup_append, lookup, lookup_dotsAttr]
  · simp [natAttr, attr, lookup_append, lookup, lookup_dotsAttr]

/-- the tuplet frames of the stack, as the leaves see them -/
def tupList (tup : Option (Nat × Nat)) : List (Nat × Nat) :=
  match tup with
  | none => []
  | some t => [t]

/-- the written duration is read back as the quarters it stands for -/
theorem durOfAttrs_spec (st : Mei.St) (as : List (String × String)) (d : String) (sd : KernWrite.SymDur)
    (tup : Option (Nat × Nat)) (q : Rat)
    (hdur : attr as "dur" = some d) (hdots : natAttr as "dots" = if sd.dots = 0 then none else some sd.dots)
    (htup : tupletsOf st.stack = tupList tup) (hnum : ∀ a b, tup = some (a, b) → a ≠ 0)
    (hd : meiDurOf sd.type = some d) (hq : symQuarters sd tup = some q) :
    durOfAttrs st as = some q ∧ ∃ v, durNumber d = some v := by
  simp only [symQuarters, hd, Option.bind_some] at hq
  cases hv : durNumber d with
  | none => simp [hv] at hq
  | some v =>
    simp only [hv, Option.map_some, Option.some.injEq] at hq
    refine ⟨?_, v, rfl⟩
    have hdd : (natAttr as "dots").getD 0 = sd.dots := by
      rw [hdots]; split <;> simp_all
    simp only [durOfAttrs, hdur, Option.bind_some, hv, htup, hdd]
    cases tup with
    | none => simp [tupList, hq]
    | some ab =>
      obtain ⟨a, b⟩ := ab
      have := hnum a b rfl
      simp [tupList, this, hq]

theorem pre_dur (st : Mei.St) (tag : String) (as : List (String × String)) (d : String) (v : Rat) (tup : Option (Nat × Nat))
    (hdur : attr as "dur" = some d) (hv : durNumber d = some v) (htup : tupletsOf st.stack = tupList tup)
    (h2 : natAttr as "meter.unit" = none) (h3 : tag ≠ "meterSig") :
    ∃ de, pre st tag as = some { st with durEls := de } := by
  cases tup with
  | none =>
    exact ⟨⟨v, (natAttr as "dots").getD 0, none, natAttr as "dur.ppq"⟩ :: st.durEls,
      by simp [pre, recordDurEl, recordUnits, hdur, hv, h2, h3, htup, tupList]⟩
  | some t =>
    exact ⟨⟨v, (natAttr as "dots").getD 0, some t, natAttr as "dur.ppq"⟩ :: st.durEls,
      by simp [pre, recordDurEl, recordUnits, hdur, hv, h2, h3, htup, tupList]⟩

/-! ## the events of a layer -/

def parentTag (st : Mei.St) : String := (st.stack.head?.map (·.tag)).getD ""

theorem openEv_note (st : Mei.St) (as : List (String × String)) (st1 : Mei.St)
    (hpre : pre st "note" as = some st1) (hin : inLayer st1.stack = true) (hpar : parentTag st1 ≠ "chord") :
    openEv st "note" as =
      (if (attr as "grace").isSome then some 0 else durOfAttrs st1 as).bind fun d =>
      (attr as "pname").bind fun step =>
      ((attr as "oct").bind natOfString).map fun oct =>
        { st1 with notes := ⟨st1.staffIdx, (attr as "xml:id").getD "", st1.cursor, d, if (attr as "grace").isSome then 1 else 0,
                              upperStep step, (noteAlter as).getD 0, oct, st1.voice, (natAttr as "staff").getD st1.staffN⟩ :: st1.notes,
                   cursor := st1.cursor + d, stack := { tag := "note", attrs := as } :: st1.stack } := by
  simp only [pre] at hpre
  simp only [parentTag] at hpar
  cases hg : (attr as "grace").isSome <;> cases hd : durOfAttrs st1 as <;> cases hp : attr as "pname" <;>
    cases ho : (attr as "oct").bind natOfString <;>
    simp [openEv, hpre, hin, hpar, hg, hd, hp, ho]

theorem openEv_note_in_chord (st : Mei.St) (as : List (String × String)) (st1 : Mei.St) (d : Rat) (cstaff : Option Nat)
    (hpre : pre st "note" as = some st1) (hin : inLayer st1.stack = true) (hpar : parentTag st1 = "chord")
    (hch : st1.chord = some (d, cstaff)) :
    openEv st "note" as =
      (attr as "pname").bind fun step =>
      ((attr as "oct").bind natOfString).map fun oct =>
        { st1 with notes := ⟨st1.staffIdx, (attr as "xml:id").getD "", st1.cursor, d, 0,
                              upperStep step, (noteAlter as).getD 0, oct, st1.voice,
                              (natAttr as "staff").getD (cstaff.getD st1.staffN)⟩ :: st1.notes,
                   stack := { tag := "note", attrs := as } :: st1.stack } := by
  simp only [pre] at hpre
  simp only [parentTag] at hpar
  cases hp : attr as "pname" <;> cases ho : (attr as "oct").bind natOfString <;>
    simp [openEv, hpre, hin, hpar, hch, hp, ho]

theorem openEv_rest (st : Mei.St) (as : List (String × String)) (st1 : Mei.St)
    (hpre : pre st "rest" as = some st1) (hin : inLayer st1.stack = true) :
    openEv st "rest" as =
      (durOfAttrs st1 as).map fun d =>
        { st1 with notes := ⟨st1.staffIdx, (attr as "xml:id").getD "", st1.cursor, d, 2, "", 0, 0, st1.voice,
                              (natAttr as "staff").getD st1.staffN⟩ :: st1.notes,
                   cursor := st1.cursor + d, stack := { tag := "rest", attrs := as } :: st1.stack } := by
  simp only [pre] at hpre
  cases hd : durOfAttrs st1 as <;> simp [openEv, hpre, hin, hd]

theorem openEv_chord (st : Mei.St) (as : List (String × String)) (st1 : Mei.St)
    (hpre : pre st "chord" as = some st1) (hin : inLayer st1.stack = true) :
    openEv st "chord" as =
      (durOfAttrs st1 as).map fun d =>
        { st1 with chord := some (d, natAttr as "staff"), stack := { tag := "chord", attrs := as } :: st1.stack } := by
  simp only [pre] at hpre
  cases hd : durOfAttrs st1 as <;> simp [openEv, hpre, hin, hd]

theorem openEv_tuplet (st : Mei.St) (as : List (String × String))
    (hpre : pre st "tuplet" as = some st) (hin : inLayer st.stack = true) (ht : tupletsOf st.stack = []) :
    openEv st "tuplet" as = some { st with stack := { tag := "tuplet", attrs := as } :: st.stack } := by
  simp only [pre] at hpre
  simp [openEv, hpre, hin, ht]

theorem openEv_accid (st : Mei.St) (as pattrs : List (String × String)) (rest : List Frame) (n : RNote) (ns : List RNote) (a : Int)
    (hpre : pre st "accid" as = some st) (hin : inLayer st.stack = true)
    (hstack : st.stack = { tag := "note", attrs := pattrs } :: rest)
    (h1 : attr pattrs "accid" = none) (h2 : attr pattrs "accid.ges" = none)
    (hn : st.notes = n :: ns) (ha : noteAlter as = some a) :
    openEv st "accid" as =
      some { st with notes := { n with alter := a } :: ns, stack := { tag := "accid", attrs := as } :: st.stack } := by
  simp only [pre] at hpre
  have hin' : inLayer ({ tag := "note", attrs := pattrs } :: rest) = true := hstack ▸ hin
  simp [openEv, hpre, hin', hstack, h1, h2, hn, ha]

theorem closeEv_chord (st : Mei.St) (f : Frame) (rest : List Frame) (d : Rat) (cs : Option Nat)
    (hs : st.stack = f :: rest) (hf : f.tag = "chord") (hc : st.chord = some (d, cs)) :
    closeEv st = some { st with stack := rest, cursor := st.cursor + d, chord := none } := by
  simp [closeEv, hs, hf, hc]

theorem alterToMei_read : ∀ e ∈ alterToMei, accidValue e.2 = some e.1 := by decide

theorem step_read : ∀ e ∈ KernWrite.stepLetters, upperStep (lowerStep e.1) = e.1 := by decide +kernel

/-- the state machine stands inside a layer (possibly inside one tuplet), outside any chord -/
structure Ctx (st : Mei.St) (tup : Option (Nat × Nat)) : Prop where
  inl : inLayer st.stack = true
  par : parentTag st ≠ "chord"
  tups : tupletsOf st.stack = tupList tup
  ch : st.chord = none
  num : ∀ a b, tup = some (a, b) → a ≠ 0

def rfact (r : RNote) : KernWrite.Fact := ⟨r.onset, r.dur, r.kind, r.step, r.alter, r.octave, r.staff⟩

/-- quarters a written event lasts: nothing for a grace note -/
def qOf (divs : Nat) (m : MNote) : Rat := if m.n.kind = 1 then 0 else (m.n.dur : Rat) / (divs : Rat)

theorem noteOkM_unpack (divs : Nat) (tup : Option (Nat × Nat)) (m : MNote) (h : noteOkM divs tup m = true) :
    m.n.kind ≤ 2 ∧ ∃ sd q0, m.n.sym = some sd ∧ symQuarters sd tup = some q0 ∧
      (m.n.kind ≠ 1 → q0 = (m.n.dur : Rat) / (divs : Rat)) ∧
      (m.n.kind ≠ 2 → (∃ ul, lookup m.n.step KernWrite.stepLetters = some ul) ∧ 0 ≤ m.n.octave ∧
        ∀ a, m.n.alter = some a → ∃ acc, lookup a alterToMei = some acc) := by
  simp only [noteOkM, Bool.and_eq_true, Bool.or_eq_true, decide_eq_true_eq] at h
  obtain ⟨⟨hk, hs⟩, hp⟩ := h
  refine ⟨hk, ?_⟩
  cases hsym : m.n.sym with
  | none => simp [hsym] at hs
  | some sd =>
    simp only [hsym, Bool.and_eq_true, Bool.or_eq_true, decide_eq_true_eq] at hs
    obtain ⟨hq, hv⟩ := hs
    obtain ⟨q0, hq0⟩ := Option.isSome_iff_exists.mp hq
    refine ⟨sd, q0, rfl, hq0, ?_, ?_⟩
    · intro hk1
      rcases hv with hv | hv
      · exact absurd hv hk1
      · rw [hq0] at hv; simpa using hv
    · intro hk2
      rcases hp with hp | hp
      · exact absurd hp hk2
      · obtain ⟨⟨h1, h2⟩, h3⟩ := hp
        refine ⟨Option.isSome_iff_exists.mp h1, h2, ?_⟩
        intro a ha
        rw [ha] at h3
        exact Option.isSome_iff_exists.mp h3

theorem runEvs_append (st : Mei.St) (a b : List Ev) :
    runEvs st (a ++ b) = (runEvs st a).bind fun st' => runEvs st' b := by
  induction a generalizing st with
  | nil => simp [runEvs]
  | cons e rest ih =>
    simp only [List.cons_append, runEvs]
    cases stepEv st e with
    | none => simp
    | some st1 => simp [ih]

theorem inLayer_push (f : Frame) (stack : List Frame) (h : inLayer stack = true) : inLayer (f :: stack) = true := by
  simp only [inLayer, List.any_cons, Bool.or_eq_true] at h ⊢
  exact Or.inr h

/-- what the children of a written `note` do: nothing, or an `accid` child sets the alteration -/
def ChildrenOk (st : Mei.St) (A : List (String × String)) (children : List Ev) (alt : Int) : Prop :=
  ∀ (st2 : Mei.St) (n : RNote) (ns : List RNote),
    st2.stack = { tag := "note", attrs := A } :: st.stack → inLayer st2.stack = true → st2.notes = n :: ns →
    n.alter = (noteAlter A).getD 0 → runEvs st2 children = some { st2 with notes := { n with alter := alt } :: ns }

/-- the three ways a pitched note is written: no alteration, `@accid.ges` (the key signature says it), `accid` child -/
theorem noteEl_shape (ks : List String) (m : MNote) (sd : KernWrite.SymDur) (d' : String) (evs : List Ev) (d : String)
    (hsym : m.n.sym = some sd) (hd : meiDurOf sd.type = some d') (k2 : m.n.kind ≠ 2)
    (halt : ∀ a, m.n.alter = some a → ∃ acc, lookup a alterToMei = some acc)
    (hev : noteEl ks m = some (evs, d)) (st : Mei.St) :
    ∃ ges children, evs = el "note" (noteAttrs m d' sd ges) children ∧ d = d' ∧
      ChildrenOk st (noteAttrs m d' sd ges) children (m.n.alter.getD 0) := by
  simp only [noteEl, hsym, hd, k2, if_false] at hev
  cases hal : m.n.alter with
  | none =>
    simp only [hal, Option.some.injEq, Prod.mk.injEq] at hev
    obtain ⟨rfl, rfl⟩ := hev
    refine ⟨none, [], rfl, rfl, ?_⟩
    intro st2 n ns _ _ hn ha
    obtain ⟨_, _, _, _, _, _, a7, a8, _⟩ := noteAttrs_read m d' sd none
    simp only [noteAlter, a7, a8, Option.bind_none, Option.getD_none] at ha
    simp only [runEvs, Option.getD_none]
    rw [← ha]
    show some st2 = some { st2 with notes := n :: ns }
    rw [← hn]
  | some a =>
    obtain ⟨acc, hacc⟩ := halt a hal
    have hread : accidValue acc = some a := alterToMei_read (a, acc) (C19W.lookup_mem _ _ _ hacc)
    simp only [hal, hacc] at hev
    split at hev
    · simp only [Option.some.injEq, Prod.mk.injEq] at hev
      obtain ⟨rfl, rfl⟩ := hev
      refine ⟨some acc, [], rfl, rfl, ?_⟩
      intro st2 n ns _ _ hn ha
      obtain ⟨_, _, _, _, _, _, a7, a8, _⟩ := noteAttrs_read m d' sd (some acc)
      simp only [noteAlter, a7, a8, Option.bind_some, hread, Option.getD_some] at ha
      simp only [runEvs, Option.getD_some]
      rw [← ha]
      show some st2 = some { st2 with notes := n :: ns }
      rw [← hn]
    · simp only [Option.some.injEq, Prod.mk.injEq] at hev
      obtain ⟨rfl, rfl⟩ := hev
      refine ⟨none, el "accid" [("accid", acc)] [], rfl, rfl, ?_⟩
      intro st2 n ns hst2 hin2 hn _
      obtain ⟨_, _, _, _, _, _, a7, a8, _⟩ := noteAttrs_read m d' sd none
      have hp : pre st2 "accid" [("accid", acc)] = some st2 :=
        pre_noDur st2 "accid" _ (by simp [attr, lookup]) (by simp [natAttr, attr, lookup]) (by decide)
      have hna : noteAlter [("accid", acc)] = some a := by simp [noteAlter, attr, lookup, hread]
      simp only [el, List.nil_append, List.cons_append, runEvs, stepEv, Option.getD_some,
        openEv_accid st2 _ _ _ n ns a hp hin2 hst2 a7 a8 hn hna]
      rw [closeEv_plain _ { tag := "accid", attrs := [("accid", acc)] } st2.stack rfl (by simp) (by simp) (by simp) (by simp) (by simp) (by simp)]

/-- a rest, a note or a grace note written on its own (not in a chord): one event of the layer, read where the
    layer stands, lasting what it lasts (a grace note nothing), moving the layer on by that -/
theorem single_spec (divs : Nat) (tup : Option (Nat × Nat)) (ks : List String) (m : MNote)
    (hok : noteOkM divs tup m = true) (evs : List Ev) (d : String) (hev : noteEl ks m = some (evs, d))
    (st : Mei.St) (hc : Ctx st tup) :
    ∃ de r, runEvs st evs = some { st with notes := r :: st.notes, cursor := st.cursor + qOf divs m, durEls := de } ∧
      r.part = st.staffIdx ∧
      (m.n.kind ≠ 2 → rfact r = ⟨st.cursor, qOf divs m, m.n.kind, m.n.step, m.n.alter.getD 0, m.n.octave, m.n.staff⟩) := by
  obtain ⟨hk, sd, q0, hsym, hq0, hqv, hpitch⟩ := noteOkM_unpack divs tup m hok
  cases hd : meiDurOf sd.type with
  | none => simp [noteEl, hsym, hd] at hev
  | some d' =>
    by_cases k2 : m.n.kind = 2
    · -- a rest
      simp only [noteEl, hsym, hd, k2, if_true, Option.some.injEq, Prod.mk.injEq] at hev
      obtain ⟨rfl, rfl⟩ := hev
      obtain ⟨r1, r2, r3, r4, r5, r6⟩ := restAttrs_read m d' sd
      obtain ⟨hdo, v, hv⟩ := durOfAttrs_spec st (restAttrs m d' sd) d' sd tup q0 r1 r2 hc.tups hc.num hd hq0
      obtain ⟨de, hpre⟩ := pre_dur st "rest" (restAttrs m d' sd) d' v tup r1 hv hc.tups r4 (by decide)
      have k1 : m.n.kind ≠ 1 := by omega
      have hq : q0 = qOf divs m := by rw [hqv k1]; simp [qOf, k1]
      have hdo' : durOfAttrs { st with durEls := de } (restAttrs m d' sd) = some q0 := hdo
      refine ⟨de, ⟨st.staffIdx, m.id, st.cursor, q0, 2, "", 0, 0, st.voice, st.staffN⟩, ?_, rfl, fun h => absurd k2 h⟩
      simp only [el, List.nil_append, List.cons_append, runEvs, stepEv, openEv_rest st _ _ hpre hc.inl, hdo', Option.map_some]
      rw [closeEv_plain _ { tag := "rest", attrs := restAttrs m d' sd } st.stack rfl (by simp) (by simp) (by simp) (by simp) (by simp) (by simp)]
      simp [hq, r3, r6]
    · obtain ⟨⟨ul, hstep⟩, hoct, halt⟩ := hpitch k2
      obtain ⟨ges, children, rfl, _, hch⟩ := noteEl_shape ks m sd d' evs d hsym hd k2 halt hev st
      have hstepr : upperStep (lowerStep m.n.step) = m.n.step :=
        step_read (m.n.step, ul) (C19W.lookup_mem _ _ _ hstep)
      have hkind : (if decide (m.n.kind = 1) = true then (1 : Nat) else 0) = m.n.kind := by
        by_cases k1 : m.n.kind = 1
        · simp [k1]
        · have : m.n.kind = 0 := by omega
          simp [this]
      obtain ⟨a1, a2, a3, a4, a5, a6, a7, a8, a9, a10, a11⟩ := noteAttrs_read m d' sd ges
      obtain ⟨hdo, v, hv⟩ := durOfAttrs_spec st (noteAttrs m d' sd ges) d' sd tup q0 a1 a2 hc.tups hc.num hd hq0
      obtain ⟨de, hpre⟩ := pre_dur st "note" (noteAttrs m d' sd ges) d' v tup a1 hv hc.tups a9 (by decide)
      have hdo' : durOfAttrs { st with durEls := de } (noteAttrs m d' sd ges) = some q0 := hdo
      have hoctr : (attr (noteAttrs m d' sd ges) "oct").bind natOfString = some m.n.octave.toNat := by
        rw [a4]; exact natOfString_intStr _ hoct
      have hq : (if (attr (noteAttrs m d' sd ges) "grace").isSome then some (0 : Rat)
          else durOfAttrs { st with durEls := de } (noteAttrs m d' sd ges)) = some (qOf divs m) := by
        rw [a6, hdo']
        by_cases k1 : m.n.kind = 1
        · simp [k1, qOf]
        · simp [k1, qOf, hqv k1]
      let n0 : RNote := ⟨st.staffIdx, m.id, st.cursor, qOf divs m, m.n.kind, m.n.step,
        (noteAlter (noteAttrs m d' sd ges)).getD 0, m.n.octave.toNat, st.voice, m.n.staff⟩
      let stO : Mei.St := { st with durEls := de, notes := n0 :: st.notes, cursor := st.cursor + qOf divs m,
                                     stack := { tag := "note", attrs := noteAttrs m d' sd ges } :: st.stack }
      have hopen : openEv st "note" (noteAttrs m d' sd ges) = some stO := by
        rw [openEv_note st (noteAttrs m d' sd ges) _ hpre hc.inl hc.par, hq, a3, hoctr]
        simp only [Option.bind_some, Option.map_some, a5, a6, a11, hstepr, hkind, Option.getD_some]
        rfl
      have hrun := hch stO n0 st.notes rfl (inLayer_push _ _ hc.inl) rfl rfl
      refine ⟨de, { n0 with alter := m.n.alter.getD 0 }, ?_, rfl, fun _ => ?_⟩
      · simp only [el, List.cons_append, runEvs, stepEv, hopen]
        rw [runEvs_append, hrun]
        simp only [Option.bind_some, runEvs, stepEv]
        rw [closeEv_plain _ { tag := "note", attrs := noteAttrs m d' sd ges } st.stack rfl (by simp) (by simp) (by simp) (by simp) (by simp) (by simp)]
      · simp [rfact, n0, Int.toNat_of_nonneg hoct]

/-- a note inside a written chord: read at the chord's position with the chord's duration; the layer does not move -/
theorem chordNote_spec (divs : Nat) (tup : Option (Nat × Nat)) (ks : List String) (m : MNote)
    (hok : noteOkM divs tup m = true) (k0 : m.n.kind = 0) (evs : List Ev) (d : String) (hev : noteEl ks m = some (evs, d))
    (st : Mei.St) (q : Rat) (hin : inLayer st.stack = true) (hpar : parentTag st = "chord")
    (htups : tupletsOf st.stack = tupList tup) (hchord : st.chord = some (q, none)) :
    ∃ de r, runEvs st evs = some { st with notes := r :: st.notes, durEls := de } ∧
      r.part = st.staffIdx ∧
      rfact r = ⟨st.cursor, q, 0, m.n.step, m.n.alter.getD 0, m.n.octave, m.n.staff⟩ := by
  obtain ⟨hk, sd, q0, hsym, hq0, hqv, hpitch⟩ := noteOkM_unpack divs tup m hok
  have k2 : m.n.kind ≠ 2 := by omega
  cases hd : meiDurOf sd.type with
  | none => simp [noteEl, hsym, hd] at hev
  | some d' =>
    obtain ⟨⟨ul, hstep⟩, hoct, halt⟩ := hpitch k2
    obtain ⟨ges, children, rfl, _, hch⟩ := noteEl_shape ks m sd d' evs d hsym hd k2 halt hev st
    have hstepr : upperStep (lowerStep m.n.step) = m.n.step :=
      step_read (m.n.step, ul) (C19W.lookup_mem _ _ _ hstep)
    obtain ⟨a1, a2, a3, a4, a5, a6, a7, a8, a9, a10, a11⟩ := noteAttrs_read m d' sd ges
    obtain ⟨v, hv⟩ : ∃ v, durNumber d' = some v := by
      simp only [symQuarters, hd, Option.bind_some] at hq0
      cases hv : durNumber d' with
      | none => simp [hv] at hq0
      | some v => exact ⟨v, rfl⟩
    obtain ⟨de, hpre⟩ := pre_dur st "note" (noteAttrs m d' sd ges) d' v tup a1 hv htups a9 (by decide)
    have hoctr : (attr (noteAttrs m d' sd ges) "oct").bind natOfString = some m.n.octave.toNat := by
      rw [a4]; exact natOfString_intStr _ hoct
    let n0 : RNote := ⟨st.staffIdx, m.id, st.cursor, q, 0, m.n.step,
      (noteAlter (noteAttrs m d' sd ges)).getD 0, m.n.octave.toNat, st.voice, m.n.staff⟩
    let stO : Mei.St := { st with durEls := de, notes := n0 :: st.notes,
                                   stack := { tag := "note", attrs := noteAttrs m d' sd ges } :: st.stack }
    have hopen : openEv st "note" (noteAttrs m d' sd ges) = some stO := by
      rw [openEv_note_in_chord st (noteAttrs m d' sd ges) _ q none hpre hin hpar hchord, a3, hoctr]
      simp only [Option.bind_some, Option.map_some, a5, a11, hstepr, Option.getD_some]
      rfl
    have hrun := hch stO n0 st.notes rfl (inLayer_push _ _ hin) rfl rfl
    refine ⟨de, { n0 with alter := m.n.alter.getD 0 }, ?_, rfl, ?_⟩
    · simp only [el, List.cons_append, runEvs, stepEv, hopen]
      rw [runEvs_append, hrun]
      simp only [Option.bind_some, runEvs, stepEv]
      rw [closeEv_plain _ { tag := "note", attrs := noteAttrs m d' sd ges } st.stack rfl (by simp) (by simp) (by simp) (by simp) (by simp) (by simp)]
    · simp [rfact, n0, Int.toNat_of_nonneg hoct]

def leafNotes : Leaf → List MNote
  | .single m => [m]
  | .chord ms => ms

theorem mapMOpt_some {α β : Type} (f : α → Option β) (l : List α) (r : List β) (h : mapMOpt f l = some r) :
    r.length = l.length ∧ ∀ i (hi : i < l.length) (hi' : i < r.length), f l[i] = some r[i] := by
  induction l generalizing r with
  | nil => simp [mapMOpt] at h; subst h; simp
  | cons a rest ih =>
    simp only [mapMOpt] at h
    split at h
    · rename_i b bs hb hbs
      simp at h
      subst h
      obtain ⟨hl, hi⟩ := ih bs hbs
      refine ⟨by simp [hl], ?_⟩
      intro i h1 h2
      cases i with
      | zero => simpa using hb
      | succ i => simpa using hi i (by simpa using h1) (by simpa using h2)
    · simp at h

theorem mapMOpt_cons {α β : Type} (f : α → Option β) (a : α) (rest : List α) (r : List β)
    (h : mapMOpt f (a :: rest) = some r) : ∃ b bs, r = b :: bs ∧ f a = some b ∧ mapMOpt f rest = some bs := by
  simp only [mapMOpt] at h
  split at h
  · rename_i b bs hb hbs
    simp at h
    exact ⟨b, bs, h.symm, hb, hbs⟩
  · simp at h

theorem mapMOpt_getLast {α β : Type} (f : α → Option β) (l : List α) (r : List β) (h : mapMOpt f l = some r)
    (last : α) (hl : l.getLast? = some last) : ∃ x, r.getLast? = some x ∧ f last = some x := by
  induction l generalizing r with
  | nil => simp at hl
  | cons a rest ih =>
    obtain ⟨b, bs, rfl, hb, hbs⟩ := mapMOpt_cons f a rest r h
    cases rest with
    | nil =>
      simp [mapMOpt] at hbs
      subst hbs
      simp at hl
      subst hl
      exact ⟨b, by simp, hb⟩
    | cons a' rest' =>
      have hl' : (a' :: rest').getLast? = some last := by simpa [List.getLast?_cons_cons] using hl
      obtain ⟨x, hx, hfx⟩ := ih bs hbs hl'
      obtain ⟨b', bs', rfl, _, _⟩ := mapMOpt_cons f a' rest' bs hbs
      exact ⟨x, by simpa [List.getLast?_cons_cons] using hx, hfx⟩

/-- the notes inside a written chord, one after the other -/
theorem chordNotes_spec (divs : Nat) (tup : Option (Nat × Nat)) (ks : List String) (q : Rat) (ms : List MNote)
    (hok : ∀ m ∈ ms, noteOkM divs tup m = true ∧ m.n.kind = 0) (els : List (List Ev × String))
    (hel : mapMOpt (noteEl ks) ms = some els)
    (st : Mei.St) (hin : inLayer st.stack = true) (hpar : parentTag st = "chord")
    (htups : tupletsOf st.stack = tupList tup) (hchord : st.chord = some (q, none)) :
    ∃ de new, runEvs st (els.map (·.1)).flatten = some { st with notes := new ++ st.notes, durEls := de } ∧
      (∀ r ∈ new, r.part = st.staffIdx) ∧
      ∀ m ∈ ms, ∃ r ∈ new, rfact r = ⟨st.cursor, q, 0, m.n.step, m.n.alter.getD 0, m.n.octave, m.n.staff⟩ := by
  induction ms generalizing els st with
  | nil =>
    simp [mapMOpt] at hel
    subst hel
    exact ⟨st.durEls, [], by simp [runEvs], by simp, by simp⟩
  | cons m rest ih =>
    obtain ⟨b, bs, rfl, hb, hbs⟩ := mapMOpt_cons _ m rest els hel
    obtain ⟨evs, d⟩ := b
    obtain ⟨de1, r1, h1, p1, f1⟩ := chordNote_spec divs tup ks m (hok m (by simp)).1 (hok m (by simp)).2 evs d hb st q hin hpar htups hchord
    obtain ⟨de2, new2, h2, p2, f2⟩ := ih (fun x hx => hok x (by simp [hx])) bs hbs
      { st with notes := r1 :: st.notes, durEls := de1 } hin hpar htups hchord
    refine ⟨de2, new2 ++ [r1], ?_, ?_, ?_⟩
    · simp only [List.map_cons, List.flatten_cons]
      rw [runEvs_append, h1]
      simp only [Option.bind_some]
      rw [h2]
      simp
    · intro r hr
      rcases List.mem_append.mp hr with h | h
      · exact p2 r h
      · simp at h; subst h; exact p1
    · intro x hx
      rcases List.mem_cons.mp hx with rfl | hx
      · exact ⟨r1, by simp, f1⟩
      · obtain ⟨r, hr, hf⟩ := f2 x hx
        exact ⟨r, by simp [hr], hf⟩

theorem tupletsOf_push_other (f : Frame) (stack : List Frame) (h : f.tag ≠ "tuplet") :
    tupletsOf (f :: stack) = tupletsOf stack := by
  simp [tupletsOf, List.filterMap_cons, h]

/-- what a leaf leaves behind: the layer at the leaf's end, the leaf's notes read at its start -/
def LeafPost (divs : Nat) (st : Mei.St) (notes : List MNote) (cur' : Nat) (st' : Mei.St) : Prop :=
  ∃ de new, st' = { st with notes := new ++ st.notes, cursor := (cur' : Rat) / (divs : Rat), durEls := de } ∧
    (∀ r ∈ new, r.part = st.staffIdx) ∧
    ∀ m ∈ notes, m.n.kind ≠ 2 → ∃ r ∈ new, rfact r = factOf divs m

theorem leaf_spec (divs : Nat) (tup : Option (Nat × Nat)) (ks : List String) (l : Leaf) (cur cur' : Nat)
    (hok : leafOk divs tup cur l = some cur') (evs : List Ev) (hev : leafEvs ks l = some evs)
    (st : Mei.St) (hc : Ctx st tup) (hcur : st.cursor = (cur : Rat) / (divs : Rat)) :
    ∃ st', runEvs st evs = some st' ∧ LeafPost divs st (leafNotes l) cur' st' := by
  cases l with
  | single m =>
    simp only [leafOk] at hok
    split at hok
    · rename_i hcond
      simp only [Bool.and_eq_true, decide_eq_true_eq] at hcond
      obtain ⟨hm, hstart⟩ := hcond
      simp only [Option.some.injEq] at hok
      simp only [leafEvs, Option.map_eq_some_iff] at hev
      obtain ⟨⟨evs', d⟩, hne, rfl⟩ := hev
      obtain ⟨de, r, hrun, hp, hf⟩ := single_spec divs tup ks m hm evs' d hne st hc
      refine ⟨_, hrun, de, [r], ?_, ?_, ?_⟩
      · have : st.cursor + qOf divs m = (cur' : Rat) / (divs : Rat) := by
          rw [hcur, ← hok]
          by_cases k1 : m.n.kind = 1
          · simp [qOf, k1]
          · simp only [qOf, k1, if_false]; push_cast; ring
        rw [this]; rfl
      · intro x hx; simp at hx; subst hx; exact hp
      · intro x hx hk
        simp only [leafNotes, List.mem_singleton] at hx
        subst hx
        refine ⟨r, by simp, ?_⟩
        rw [hf hk, hcur, ← hstart]
        simp [factOf, qOf]
    · simp at hok
  | chord ms =>
    simp only [leafOk] at hok
    cases hlast : ms.getLast? with
    | none => simp [hlast] at hok
    | some last =>
      simp only [hlast] at hok
      split at hok
      · rename_i hall
        simp only [Option.some.injEq] at hok
        have hall' : ∀ m ∈ ms, noteOkM divs tup m = true ∧ m.start = cur ∧ m.n.kind = 0 ∧ m.n.dur = last.n.dur := by
          intro m hm
          have := List.all_eq_true.mp hall m hm
          simp only [Bool.and_eq_true, decide_eq_true_eq] at this
          exact ⟨this.1.1.1, this.1.1.2, this.1.2, this.2⟩
        have hlastmem : last ∈ ms := List.mem_of_getLast? hlast
        obtain ⟨hokL, _, k0L, _⟩ := hall' last hlastmem
        obtain ⟨_, sdL, q0, hsymL, hq0, hqv, hpitchL⟩ := noteOkM_unpack divs tup last hokL
        have hq0' : q0 = (last.n.dur : Rat) / (divs : Rat) := hqv (by omega)
        simp only [leafEvs, hlast] at hev
        cases hel : mapMOpt (noteEl ks) ms with
        | none => simp [hel] at hev
        | some els =>
          simp only [hel, hsymL, Option.some.injEq] at hev
          subst hev
          obtain ⟨x, hx, hfx⟩ := mapMOpt_getLast _ ms els hel last hlast
          cases hdL : meiDurOf sdL.type with
          | none => simp [noteEl, hsymL, hdL] at hfx
          | some dL =>
            have hxd : x.2 = dL := by
              obtain ⟨_, halt⟩ := (hpitchL (by omega)).2
              obtain ⟨_, _, _, hd', _⟩ := noteEl_shape ks last sdL dL x.1 x.2 hsymL hdL (by omega) halt (by simpa using hfx) st
              exact hd'
            simp only [hx, Option.map_some, Option.getD_some, hxd]
            obtain ⟨c1, c2, c3, c4, c5⟩ := chordAttrs_read dL sdL
            obtain ⟨A, hA⟩ : ∃ A, A = [("dur", dL)] ++ dotsAttr sdL := ⟨_, rfl⟩
            rw [← hA] at c1 c2 c3 c4 c5 ⊢
            obtain ⟨hdo, v, hv⟩ := durOfAttrs_spec st _ dL sdL tup q0 c1 c2 hc.tups hc.num hdL hq0
            obtain ⟨de, hpre⟩ := pre_dur st "chord" _ dL v tup c1 hv hc.tups c4 (by decide)
            have hdo' : durOfAttrs { st with durEls := de } A = some q0 := hdo
            let stC : Mei.St := { st with durEls := de, chord := some (q0, none),
                                           stack := { tag := "chord", attrs := A } :: st.stack }
            have hopen : openEv st "chord" A = some stC := by
              rw [openEv_chord st _ _ hpre hc.inl, hdo']
              simp only [Option.map_some, c3]
              rfl
            obtain ⟨de2, new, hrun, hp, hf⟩ := chordNotes_spec divs tup ks q0 ms
              (fun m hm => ⟨(hall' m hm).1, (hall' m hm).2.2.1⟩) els hel stC (inLayer_push _ _ hc.inl)
              (by simp [parentTag, stC])
              (by rw [show stC.stack = _ :: st.stack from rfl, tupletsOf_push_other _ _ (by simp)]; exact hc.tups) rfl
            refine ⟨_, ?_, de2, new, rfl, hp, ?_⟩
            · simp only [el, List.cons_append, runEvs, stepEv, hopen]
              rw [runEvs_append, hrun]
              simp only [Option.bind_some, runEvs, stepEv]
              rw [closeEv_chord _ { tag := "chord", attrs := A } st.stack q0 none rfl rfl rfl]
              simp only [stC, Option.some.injEq]
              have : st.cursor + q0 = (cur' : Rat) / (divs : Rat) := by
                rw [hcur, hq0', ← hok]; push_cast; ring
              rw [this, hc.ch]
            · intro m hm _
              obtain ⟨r, hr, hfr⟩ := hf m hm
              refine ⟨r, hr, ?_⟩
              obtain ⟨_, hstart, k0, hdur⟩ := hall' m hm
              rw [hfr]
              simp [factOf, stC, hcur, hstart, k0, hq0', hdur]
      · simp at hok

theorem Ctx_of_eq (st st' : Mei.St) (tup : Option (Nat × Nat)) (hc : Ctx st tup) (h1 : st'.stack = st.stack)
    (h2 : st'.chord = st.chord) : Ctx st' tup :=
  ⟨by rw [h1]; exact hc.inl, by simp only [parentTag, h1]; exact hc.par, by rw [h1]; exact hc.tups,
   by rw [h2]; exact hc.ch, hc.num⟩

theorem LeafPost_refl (divs : Nat) (st : Mei.St) (cur : Nat) (hcur : st.cursor = (cur : Rat) / (divs : Rat)) :
    LeafPost divs st [] cur st :=
  ⟨st.durEls, [], by simp [← hcur], by simp, by simp⟩

theorem LeafPost_trans (divs : Nat) (st st1 st2 : Mei.St) (n1 n2 : List MNote) (c1 c2 : Nat)
    (h1 : LeafPost divs st n1 c1 st1) (h2 : LeafPost divs st1 n2 c2 st2) : LeafPost divs st (n1 ++ n2) c2 st2 := by
  obtain ⟨de1, new1, rfl, p1, f1⟩ := h1
  obtain ⟨de2, new2, rfl, p2, f2⟩ := h2
  refine ⟨de2, new2 ++ new1, by simp, ?_, ?_⟩
  · intro r hr
    rcases List.mem_append.mp hr with h | h
    · exact p2 r h
    · exact p1 r h
  · intro m hm hk
    rcases List.mem_append.mp hm with h | h
    · obtain ⟨r, hr, hf⟩ := f1 m h hk
      exact ⟨r, by simp [hr], hf⟩
    · obtain ⟨r, hr, hf⟩ := f2 m h hk
      exact ⟨r, by simp [hr], hf⟩

theorem LeafPost_stack (divs : Nat) (st st' : Mei.St) (n : List MNote) (c : Nat) (h : LeafPost divs st n c st') :
    st'.stack = st.stack ∧ st'.chord = st.chord ∧ st'.cursor = (c : Rat) / (divs : Rat) := by
  obtain ⟨de, new, rfl, _, _⟩ := h
  exact ⟨rfl, rfl, rfl⟩

theorem leaves_spec (divs : Nat) (tup : Option (Nat × Nat)) (ks : List String) (ls : List Leaf) (cur cur' : Nat)
    (hok : leavesOk divs tup cur ls = some cur') (es : List (List Ev)) (hev : mapMOpt (leafEvs ks) ls = some es)
    (st : Mei.St) (hc : Ctx st tup) (hcur : st.cursor = (cur : Rat) / (divs : Rat)) :
    ∃ st', runEvs st es.flatten = some st' ∧ LeafPost divs st (ls.flatMap leafNotes) cur' st' := by
  induction ls generalizing cur es st with
  | nil =>
    simp [mapMOpt] at hev
    subst hev
    simp only [leavesOk, Option.some.injEq] at hok
    subst hok
    exact ⟨st, by simp [runEvs], LeafPost_refl divs st cur hcur⟩
  | cons l rest ih =>
    obtain ⟨e, es', rfl, he, hes⟩ := mapMOpt_cons _ l rest es hev
    simp only [leavesOk] at hok
    cases h1 : leafOk divs tup cur l with
    | none => simp [h1] at hok
    | some c1 =>
      simp only [h1] at hok
      obtain ⟨st1, r1, p1⟩ := leaf_spec divs tup ks l cur c1 h1 e he st hc hcur
      obtain ⟨s1, s2, s3⟩ := LeafPost_stack divs st st1 _ c1 p1
      obtain ⟨st2, r2, p2⟩ := ih c1 hok es' hes st1 (Ctx_of_eq st st1 tup hc s1 s2) s3
      refine ⟨st2, ?_, ?_⟩
      · simp only [List.flatten_cons]
        rw [runEvs_append, r1]
        exact r2
      · simp only [List.flatMap_cons]
        exact LeafPost_trans divs st st1 st2 _ _ c1 cur' p1 p2

theorem tupletsOf_push_tuplet (num numbase : Nat) (stack : List Frame) :
    tupletsOf ({ tag := "tuplet", attrs := [("num", natStr num), ("numbase", natStr numbase)] } :: stack) =
      (num, numbase) :: tupletsOf stack := by
  simp [tupletsOf, List.filterMap_cons, natAttr, attr, lookup, natStr, natOfString_showNat]

def itemNotes : Item → List MNote
  | .leaf l => leafNotes l
  | .tuplet _ _ inner => inner.flatMap leafNotes

theorem items_spec (divs : Nat) (ks : List String) (items : List Item) (cur cur' : Nat)
    (hok : itemsOk divs cur items = some cur') (es : List (List Ev)) (hev : mapMOpt (itemEvs ks) items = some es)
    (st : Mei.St) (hc : Ctx st none) (hcur : st.cursor = (cur : Rat) / (divs : Rat)) :
    ∃ st', runEvs st es.flatten = some st' ∧ LeafPost divs st (items.flatMap itemNotes) cur' st' := by
  induction items generalizing cur es st with
  | nil =>
    simp [mapMOpt] at hev
    subst hev
    simp only [itemsOk, Option.some.injEq] at hok
    subst hok
    exact ⟨st, by simp [runEvs], LeafPost_refl divs st cur hcur⟩
  | cons it rest ih =>
    obtain ⟨e, es', rfl, he, hes⟩ := mapMOpt_cons _ it rest es hev
    cases it with
    | leaf l =>
      simp only [itemsOk] at hok
      cases h1 : leafOk divs none cur l with
      | none => simp [h1] at hok
      | some c1 =>
        simp only [h1] at hok
        simp only [itemEvs] at he
        obtain ⟨st1, r1, p1⟩ := leaf_spec divs none ks l cur c1 h1 e he st hc hcur
        obtain ⟨s1, s2, s3⟩ := LeafPost_stack divs st st1 _ c1 p1
        obtain ⟨st2, r2, p2⟩ := ih c1 hok es' hes st1 (Ctx_of_eq st st1 none hc s1 s2) s3
        refine ⟨st2, ?_, ?_⟩
        · simp only [List.flatten_cons]
          rw [runEvs_append, r1]
          exact r2
        · simp only [List.flatMap_cons, itemNotes]
          exact LeafPost_trans divs st st1 st2 _ _ c1 cur' p1 p2
    | tuplet num numbase inner =>
      simp only [itemsOk] at hok
      split at hok
      · simp at hok
      · rename_i hnum
        cases h1 : leavesOk divs (some (num, numbase)) cur inner with
        | none => simp [h1] at hok
        | some c1 =>
          simp only [h1] at hok
          simp only [itemEvs, Option.map_eq_some_iff] at he
          obtain ⟨ies, hies, rfl⟩ := he
          -- open the tuplet
          let A : List (String × String) := [("num", natStr num), ("numbase", natStr numbase)]
          have hp : pre st "tuplet" A = some st :=
            pre_noDur st "tuplet" A (by simp [A, attr, lookup]) (by simp [A, natAttr, attr, lookup]) (by decide)
          have hopen := openEv_tuplet st A hp hc.inl (by simpa [tupList] using hc.tups)
          let stT : Mei.St := { st with stack := { tag := "tuplet", attrs := A } :: st.stack }
          have hcT : Ctx stT (some (num, numbase)) := by
            refine ⟨inLayer_push _ _ hc.inl, by simp [parentTag, stT], ?_, hc.ch, ?_⟩
            · have := hc.tups
              simp only [tupList] at this
              show tupletsOf ({ tag := "tuplet", attrs := A } :: st.stack) = _
              rw [tupletsOf_push_tuplet, this]
              rfl
            · intro a b hab
              simp only [Option.some.injEq, Prod.mk.injEq] at hab
              rw [← hab.1]; exact hnum
          obtain ⟨st1, r1, p1⟩ := leaves_spec divs (some (num, numbase)) ks inner cur c1 h1 ies hies stT hcT hcur
          obtain ⟨de, new, rfl, pp, ff⟩ := p1
          -- close it
          let st1' : Mei.St := { st with notes := new ++ st.notes, cursor := (c1 : Rat) / (divs : Rat), durEls := de }
          have p1' : LeafPost divs st (inner.flatMap leafNotes) c1 st1' := ⟨de, new, rfl, pp, ff⟩
          obtain ⟨st2, r2, p2⟩ := ih c1 hok es' hes st1' (Ctx_of_eq st st1' none hc rfl rfl) rfl
          refine ⟨st2, ?_, ?_⟩
          · simp only [List.flatten_cons, el, List.cons_append, runEvs, stepEv]
            rw [show openEv st "tuplet" [("num", natStr num), ("numbase", natStr numbase)] = _ from hopen]
            simp only []
            rw [List.append_assoc, runEvs_append, r1]
            simp only [Option.bind_some, List.cons_append, List.nil_append, runEvs, stepEv]
            rw [closeEv_plain _ { tag := "tuplet", attrs := A } st.stack rfl (by simp) (by simp) (by simp) (by simp) (by simp) (by simp)]
            exact r2
          · simp only [List.flatMap_cons, itemNotes]
            exact LeafPost_trans divs st st1' st2 _ _ c1 cur' p1' p2

/-! ## layers, staves, measures -/

theorem openEv_layer (st : Mei.St) (as : List (String × String))
    (hpre : pre st "layer" as = some st) (hpar : parentTag st = "staff") :
    openEv st "layer" as =
      some { st with voice := (natAttr as "n").getD (st.layerIdx + 1), cursor := st.pos,
                     stack := { tag := "layer", attrs := as } :: st.stack } := by
  simp only [pre] at hpre
  simp only [parentTag] at hpar
  simp [openEv, hpre, hpar]

theorem closeEv_layer (st : Mei.St) (f g : Frame) (rest : List Frame) (hs : st.stack = f :: g :: rest)
    (hf : f.tag = "layer") (hg : g.tag = "staff") :
    closeEv st = some { st with stack := g :: rest, layerEnds := st.cursor :: st.layerEnds, layerIdx := st.layerIdx + 1 } := by
  simp [closeEv, hs, hf, hg]

/-- inside a `staff` of a `measure`, between two layers: nothing open but structure -/
structure StaffCtx (st : Mei.St) : Prop where
  par : parentTag st = "staff"
  noLayer : inLayer st.stack = false
  noTup : tupletsOf st.stack = []
  ch : st.chord = none

theorem layer_spec (divs : Nat) (ks : List String) (l : Nat × Nat × List Item) (start e : Nat)
    (hok : itemsOk divs start l.2.2 = some e) (evs : List Ev) (hev : layerEvs ks l = some evs)
    (st : Mei.St) (hc : StaffCtx st) (hpos : st.pos = (start : Rat) / (divs : Rat)) :
    ∃ de new, runEvs st evs = some { st with notes := new ++ st.notes, cursor := (e : Rat) / (divs : Rat), voice := (l.2).1,
                                                  layerEnds := ((e : Rat) / (divs : Rat)) :: st.layerEnds, layerIdx := st.layerIdx + 1, durEls := de } ∧
      (∀ r ∈ new, r.part = st.staffIdx) ∧
      ∀ m ∈ l.2.2.flatMap itemNotes, m.n.kind ≠ 2 → ∃ r ∈ new, rfact r = factOf divs m := by
  simp only [layerEvs, Option.map_eq_some_iff] at hev
  obtain ⟨es, hes, rfl⟩ := hev
  let A : List (String × String) := [("n", natStr l.2.1)]
  have hp : pre st "layer" A = some st :=
    pre_noDur st "layer" A (by simp [A, attr, lookup]) (by simp [A, natAttr, attr, lookup]) (by decide)
  have hopen := openEv_layer st A hp hc.par
  have hn : (natAttr A "n").getD (st.layerIdx + 1) = l.2.1 := by
    simp [A, natAttr, attr, lookup, natStr, natOfString_showNat]
  rw [hn] at hopen
  let stL : Mei.St := { st with voice := (l.2).1, cursor := st.pos, stack := { tag := "layer", attrs := A } :: st.stack }
  have hcL : Ctx stL none := by
    refine ⟨by simp [stL, inLayer], by simp [parentTag, stL], ?_, hc.ch, by intro a b h; simp at h⟩
    show tupletsOf ({ tag := "layer", attrs := A } :: st.stack) = _
    rw [tupletsOf_push_other _ _ (by simp), hc.noTup]
    rfl
  obtain ⟨st1, r1, p1⟩ := items_spec divs ks l.2.2 start e hok es hes stL hcL hpos
  obtain ⟨de, new, rfl, pp, ff⟩ := p1
  obtain ⟨g, rest, hstack⟩ : ∃ g rest, st.stack = g :: rest ∧ g.tag = "staff" := by
    have := hc.par
    simp only [parentTag] at this
    cases hs : st.stack with
    | nil => simp [hs] at this
    | cons g rest => simp [hs] at this; exact ⟨g, rest, rfl, this⟩
  refine ⟨de, new, ?_, pp, ff⟩
  simp only [el, List.cons_append, runEvs, stepEv]
  rw [show openEv st "layer" [("n", natStr l.2.1)] = _ from hopen]
  simp only []
  rw [runEvs_append, r1]
  simp only [Option.bind_some, runEvs, stepEv]
  rw [closeEv_layer _ { tag := "layer", attrs := A } g rest (by simp [stL, hstack.1]) rfl hstack.2]
  simp [stL, hstack.1]

def q (divs : Nat) (t : Nat) : Rat := (t : Rat) / (divs : Rat)

theorem layers_spec (divs : Nat) (ks : List String) (ls : List (Nat × Nat × List Item)) (start : Nat) (ends : List Nat)
    (hok : mapMOpt (fun l => itemsOk divs start l.2.2) ls = some ends) (es : List (List Ev))
    (hev : mapMOpt (layerEvs ks) ls = some es)
    (st : Mei.St) (hc : StaffCtx st) (hpos : st.pos = (start : Rat) / (divs : Rat)) :
    ∃ de new c v, runEvs st es.flatten = some { st with notes := new ++ st.notes, cursor := c, voice := v,
                                                         layerEnds := (ends.map (q divs)).reverse ++ st.layerEnds,
                                                         layerIdx := st.layerIdx + ends.length, durEls := de } ∧
      (∀ r ∈ new, r.part = st.staffIdx) ∧
      ∀ l ∈ ls, ∀ m ∈ l.2.2.flatMap itemNotes, m.n.kind ≠ 2 → ∃ r ∈ new, rfact r = factOf divs m := by
  induction ls generalizing ends es st with
  | nil =>
    simp [mapMOpt] at hok hev
    subst hok; subst hev
    exact ⟨st.durEls, [], st.cursor, st.voice, by simp [runEvs], by simp, by simp⟩
  | cons l rest ih =>
    obtain ⟨e, ends', rfl, he, hends⟩ := mapMOpt_cons _ l rest ends hok
    obtain ⟨ev, es', rfl, hev1, hes⟩ := mapMOpt_cons _ l rest es hev
    obtain ⟨de1, new1, r1, p1, f1⟩ := layer_spec divs ks l start e he ev hev1 st hc hpos
    let st1 : Mei.St := { st with notes := new1 ++ st.notes, cursor := (e : Rat) / (divs : Rat), voice := (l.2).1,
                                   layerEnds := ((e : Rat) / (divs : Rat)) :: st.layerEnds, layerIdx := st.layerIdx + 1, durEls := de1 }
    have hc1 : StaffCtx st1 := ⟨hc.par, hc.noLayer, hc.noTup, hc.ch⟩
    obtain ⟨de2, new2, c, v, r2, p2, f2⟩ := ih ends' hends es' hes st1 hc1 hpos
    refine ⟨de2, new2 ++ new1, c, v, ?_, ?_, ?_⟩
    · simp only [List.flatten_cons]
      rw [runEvs_append, r1]
      simp only [Option.bind_some]
      rw [r2]
      simp [st1, q, Nat.add_assoc, Nat.add_comm 1]
    · intro r hr
      rcases List.mem_append.mp hr with h | h
      · exact p2 r h
      · exact p1 r h
    · intro x hx m hm hk
      rcases List.mem_cons.mp hx with rfl | hx
      · obtain ⟨r, hr, hf⟩ := f1 m hm hk
        exact ⟨r, by simp [hr], hf⟩
      · obtain ⟨r, hr, hf⟩ := f2 x hx m hm hk
        exact ⟨r, by simp [hr], hf⟩

theorem openEv_staff (st : Mei.St) (as : List (String × String))
    (hpre : pre st "staff" as = some st) (hpar : parentTag st = "measure") :
    openEv st "staff" as =
      some { st with staffN := (natAttr as "n").getD (st.staffIdx + 1), layerIdx := 0, layerEnds := [],
                     stack := { tag := "staff", attrs := as } :: st.stack } := by
  simp only [pre] at hpre
  simp only [parentTag] at hpar
  simp [openEv, hpre, hpar]

theorem closeEv_staff (st : Mei.St) (f g : Frame) (rest : List Frame) (hs : st.stack = f :: g :: rest)
    (hf : f.tag = "staff") (hg : g.tag = "measure") :
    closeEv st = some { st with stack := g :: rest,
                                measures := (st.staffIdx, st.measNo, st.measName, st.pos, ratMaxFrom st.pos st.layerEnds) :: st.measures,
                                staffEnds := ratMaxFrom st.pos st.layerEnds :: st.staffEnds, staffIdx := st.staffIdx + 1 } := by
  simp [closeEv, hs, hf, hg]

/-- inside a `measure`, between two staves -/
structure MeasCtx (st : Mei.St) : Prop where
  par : parentTag st = "measure"
  noLayer : inLayer st.stack = false
  noTup : tupletsOf st.stack = []
  ch : st.chord = none

theorem staff_spec (divs : Nat) (ks : List String) (layers : List (Nat × Nat × List Item)) (s : Nat) (start : Nat) (ends : List Nat)
    (hok : mapMOpt (fun l => itemsOk divs start l.2.2) (layers.filter fun l => l.1 = s) = some ends)
    (evs : List Ev) (hev : staffEvs ks layers s = some evs)
    (st : Mei.St) (hc : MeasCtx st) (hpos : st.pos = (start : Rat) / (divs : Rat)) :
    ∃ de new c v sn li le ms, runEvs st evs = some { st with notes := new ++ st.notes, cursor := c, voice := v, staffN := sn,
                                                                  layerIdx := li, layerEnds := le, measures := ms,
                                                                  staffEnds := ratMaxFrom st.pos ((ends.map (q divs)).reverse) :: st.staffEnds,
                                                                  staffIdx := st.staffIdx + 1, durEls := de } ∧
      (∀ r ∈ new, r.part = st.staffIdx) ∧
      ∀ l ∈ layers, l.1 = s → ∀ m ∈ l.2.2.flatMap itemNotes, m.n.kind ≠ 2 → ∃ r ∈ new, rfact r = factOf divs m := by
  simp only [staffEvs, Option.map_eq_some_iff] at hev
  obtain ⟨es, hes, rfl⟩ := hev
  let A : List (String × String) := [("n", natStr s)]
  have hp : pre st "staff" A = some st :=
    pre_noDur st "staff" A (by simp [A, attr, lookup]) (by simp [A, natAttr, attr, lookup]) (by decide)
  have hopen := openEv_staff st A hp hc.par
  let stS : Mei.St := { st with staffN := (natAttr A "n").getD (st.staffIdx + 1), layerIdx := 0, layerEnds := [],
                                 stack := { tag := "staff", attrs := A } :: st.stack }
  have hcS : StaffCtx stS := by
    refine ⟨by simp [parentTag, stS], ?_, ?_, hc.ch⟩
    · have := hc.noLayer
      simp only [inLayer, stS, List.any_cons] at this ⊢
      simp [this]
    · show tupletsOf ({ tag := "staff", attrs := A } :: st.stack) = _
      rw [tupletsOf_push_other _ _ (by simp), hc.noTup]
  obtain ⟨de, new, c, v, r1, p1, f1⟩ := layers_spec divs ks _ start ends hok es hes stS hcS hpos
  obtain ⟨g, rest, hstack, hg⟩ : ∃ g rest, st.stack = g :: rest ∧ g.tag = "measure" := by
    have := hc.par
    simp only [parentTag] at this
    cases hs : st.stack with
    | nil => simp [hs] at this
    | cons g rest => simp [hs] at this; exact ⟨g, rest, rfl, this⟩
  refine ⟨de, new, c, v, (natAttr A "n").getD (st.staffIdx + 1), 0 + ends.length, (ends.map (q divs)).reverse ++ [],
    (st.staffIdx, st.measNo, st.measName, st.pos, ratMaxFrom st.pos ((ends.map (q divs)).reverse ++ [])) :: st.measures, ?_, p1, ?_⟩
  · simp only [el, List.cons_append, runEvs, stepEv]
    rw [show openEv st "staff" [("n", natStr s)] = _ from hopen]
    simp only []
    rw [runEvs_append, r1]
    simp only [Option.bind_some, runEvs, stepEv]
    rw [closeEv_staff _ { tag := "staff", attrs := A } g rest (by simp [stS, hstack]) rfl hg]
    simp [stS, hstack]
  · intro l hl hs m hm hk
    exact f1 l (List.mem_filter.mpr ⟨hl, by simpa using hs⟩) m hm hk

/-! ### maxima -/

theorem foldl_max_ge_init (l : List Rat) (a : Rat) : a ≤ l.foldl (fun x y => if x < y then y else x) a := by
  induction l generalizing a with
  | nil => exact le_refl _
  | cons b rest ih =>
    simp only [List.foldl_cons]
    split
    · rename_i h; exact le_trans (le_of_lt h) (ih b)
    · exact ih a

theorem foldl_max_ge_mem (l : List Rat) (a x : Rat) (hx : x ∈ l) : x ≤ l.foldl (fun x y => if x < y then y else x) a := by
  induction l generalizing a with
  | nil => cases hx
  | cons b rest ih =>
    simp only [List.foldl_cons]
    rcases List.mem_cons.mp hx with rfl | hx
    · split
      · exact foldl_max_ge_init rest x
      · rename_i h; exact le_trans (not_lt.mp h) (foldl_max_ge_init rest a)
    · exact ih _ hx

theorem foldl_max_le (l : List Rat) (a B : Rat) (ha : a ≤ B) (hl : ∀ x ∈ l, x ≤ B) :
    l.foldl (fun x y => if x < y then y else x) a ≤ B := by
  induction l generalizing a with
  | nil => exact ha
  | cons b rest ih =>
    simp only [List.foldl_cons]
    split
    · exact ih b (hl b (by simp)) (fun x hx => hl x (by simp [hx]))
    · exact ih a ha (fun x hx => hl x (by simp [hx]))

theorem ratMaxFrom_le (d : Rat) (l : List Rat) (B : Rat) (hd : d ≤ B) (hl : ∀ x ∈ l, x ≤ B) : ratMaxFrom d l ≤ B := by
  cases l with
  | nil => exact hd
  | cons a rest => exact foldl_max_le rest a B (hl a (by simp)) (fun x hx => hl x (by simp [hx]))

theorem ratMaxFrom_ge_mem (d : Rat) (l : List Rat) (x : Rat) (hx : x ∈ l) : x ≤ ratMaxFrom d l := by
  cases l with
  | nil => cases hx
  | cons a rest =>
    rcases List.mem_cons.mp hx with rfl | hx
    · exact foldl_max_ge_init rest x
    · exact foldl_max_ge_mem rest a x hx

/-! ### the staves of a measure -/

theorem mapMOpt_mem {α β : Type} (f : α → Option β) (l : List α) (r : List β) (h : mapMOpt f l = some r) :
    (∀ a ∈ l, ∃ b ∈ r, f a = some b) ∧ (∀ b ∈ r, ∃ a ∈ l, f a = some b) := by
  induction l generalizing r with
  | nil => simp [mapMOpt] at h; subst h; simp
  | cons a rest ih =>
    obtain ⟨b, bs, rfl, hb, hbs⟩ := mapMOpt_cons f a rest r h
    obtain ⟨i1, i2⟩ := ih bs hbs
    constructor
    · intro x hx
      rcases List.mem_cons.mp hx with rfl | hx
      · exact ⟨b, by simp, hb⟩
      · obtain ⟨y, hy, hf⟩ := i1 x hx
        exact ⟨y, by simp [hy], hf⟩
    · intro y hy
      rcases List.mem_cons.mp hy with rfl | hy
      · exact ⟨a, by simp, hb⟩
      · obtain ⟨x, hx, hf⟩ := i2 y hy
        exact ⟨x, by simp [hx], hf⟩

theorem mapMOpt_filter {α β : Type} (f : α → Option β) (p : α → Bool) (l : List α) (r : List β) (h : mapMOpt f l = some r) :
    ∃ r', mapMOpt f (l.filter p) = some r' := by
  induction l generalizing r with
  | nil => exact ⟨[], rfl⟩
  | cons a rest ih =>
    obtain ⟨b, bs, rfl, hb, hbs⟩ := mapMOpt_cons f a rest r h
    obtain ⟨r', hr'⟩ := ih bs hbs
    simp only [List.filter_cons]
    split
    · exact ⟨b :: r', by simp [mapMOpt, hb, hr']⟩
    · exact ⟨r', hr'⟩

/-- the staff elements of a measure, one after the other -/
theorem staves_spec (divs : Nat) (ks : List String) (layers : List (Nat × Nat × List Item)) (start : Nat) (E : Rat)
    (allEnds : List Nat) (hok : mapMOpt (fun l => itemsOk divs start l.2.2) layers = some allEnds)
    (hle : ∀ e ∈ allEnds, q divs e ≤ E)
    (ss : List Nat) (es : List (List Ev)) (hev : mapMOpt (staffEvs ks layers) ss = some es)
    (st : Mei.St) (hc : MeasCtx st) (hpos : st.pos = (start : Rat) / (divs : Rat)) (hposE : st.pos ≤ E) :
    ∃ de new c v sn li le ms se, runEvs st es.flatten = some { st with notes := new ++ st.notes, cursor := c, voice := v,
                                                                        staffN := sn, layerIdx := li, layerEnds := le, measures := ms,
                                                                        staffEnds := se ++ st.staffEnds,
                                                                        staffIdx := st.staffIdx + ss.length, durEls := de } ∧
      (∀ r ∈ new, st.staffIdx ≤ r.part ∧ r.part < st.staffIdx + ss.length) ∧
      (∀ l ∈ layers, l.1 ∈ ss → ∀ m ∈ l.2.2.flatMap itemNotes, m.n.kind ≠ 2 → ∃ r ∈ new, rfact r = factOf divs m) ∧
      (∀ x ∈ se, x ≤ E) ∧ se.length = ss.length ∧
      (∀ l ∈ layers, l.1 ∈ ss → ∀ e, itemsOk divs start l.2.2 = some e → ∃ x ∈ se, q divs e ≤ x) := by
  induction ss generalizing es st with
  | nil =>
    simp [mapMOpt] at hev
    subst hev
    exact ⟨st.durEls, [], st.cursor, st.voice, st.staffN, st.layerIdx, st.layerEnds, st.measures, [],
      by simp [runEvs], by simp, by simp, by simp, rfl, by simp⟩
  | cons s rest ih =>
    obtain ⟨ev, es', rfl, hev1, hes⟩ := mapMOpt_cons _ s rest es hev
    obtain ⟨ends, hends⟩ := mapMOpt_filter _ (fun l => decide (l.1 = s)) layers allEnds hok
    obtain ⟨de1, new1, c1, v1, sn1, li1, le1, ms1, r1, p1, f1⟩ :=
      staff_spec divs ks layers s start ends hends ev hev1 st hc hpos
    -- the ends of this staff are ends of the measure
    have hsub : ∀ e ∈ ends, e ∈ allEnds := by
      intro e he
      obtain ⟨a, ha, hfa⟩ := (mapMOpt_mem _ _ _ hends).2 e he
      obtain ⟨b, hb, hfb⟩ := (mapMOpt_mem _ _ _ hok).1 a (List.mem_filter.mp ha).1
      rw [hfa] at hfb
      simp at hfb
      rw [hfb]; exact hb
    let e1 : Rat := ratMaxFrom st.pos ((ends.map (q divs)).reverse)
    have he1 : e1 ≤ E := ratMaxFrom_le _ _ _ hposE (by
      intro x hx
      simp only [List.mem_reverse, List.mem_map] at hx
      obtain ⟨e, he, rfl⟩ := hx
      exact hle e (hsub e he))
    let st1 : Mei.St := { st with notes := new1 ++ st.notes, cursor := c1, voice := v1, staffN := sn1,
                                   layerIdx := li1, layerEnds := le1, measures := ms1,
                                   staffEnds := e1 :: st.staffEnds, staffIdx := st.staffIdx + 1, durEls := de1 }
    have hc1 : MeasCtx st1 := ⟨hc.par, hc.noLayer, hc.noTup, hc.ch⟩
    obtain ⟨de2, new2, c2, v2, sn2, li2, le2, ms2, se2, r2, p2, f2, b2, len2, g2⟩ := ih es' hes st1 hc1 hpos hposE
    refine ⟨de2, new2 ++ new1, c2, v2, sn2, li2, le2, ms2, se2 ++ [e1], ?_, ?_, ?_, ?_, ?_, ?_⟩
    · simp only [List.flatten_cons]
      rw [runEvs_append, r1]
      simp only [Option.bind_some]
      rw [r2]
      simp [st1, Nat.add_assoc, Nat.add_comm 1]
    · intro r hr
      rcases List.mem_append.mp hr with h | h
      · have := p2 r h
        simp only [st1, List.length_cons] at this ⊢
        omega
      · have := p1 r h
        simp only [List.length_cons]
        omega
    · intro l hl hs m hm hk
      rcases List.mem_cons.mp hs with h | h
      · obtain ⟨r, hr, hf⟩ := f1 l hl h m hm hk
        exact ⟨r, by simp [hr], hf⟩
      · obtain ⟨r, hr, hf⟩ := f2 l hl h m hm hk
        exact ⟨r, by simp [hr], hf⟩
    · intro x hx
      rcases List.mem_append.mp hx with h | h
      · exact b2 x h
      · simp at h; rw [h]; exact he1
    · simp [len2]
    · intro l hl hs e he
      rcases List.mem_cons.mp hs with h | h
      · refine ⟨e1, by simp, ?_⟩
        have hmem : l ∈ layers.filter (fun l => decide (l.1 = s)) := List.mem_filter.mpr ⟨hl, by simpa using h⟩
        obtain ⟨b, hb, hfb⟩ := (mapMOpt_mem _ _ _ hends).1 l hmem
        rw [he] at hfb
        simp at hfb
        subst hfb
        exact ratMaxFrom_ge_mem _ _ _ (by simp only [List.mem_reverse, List.mem_map]; exact ⟨e, hb, rfl⟩)
      · obtain ⟨x, hx, hxe⟩ := g2 l hl h e he
        exact ⟨x, by simp [hx], hxe⟩

/-- every part has a meter of its own (written as a `meterSig` child of its `staffDef`) -/
def AllMeters (st : Mei.St) : Prop := ∀ d ∈ st.defs, ∃ m, d.meter = some m

theorem mapM_resolve (st : Mei.St) (ds : List PartDef) (h : ∀ d ∈ ds, ∃ m, d.meter = some m) :
    ∃ ms, ds.mapM (resolveMeter st) = some ms := by
  induction ds with
  | nil => exact ⟨[], rfl⟩
  | cons d rest ih =>
    obtain ⟨m, hm⟩ := h d (by simp)
    obtain ⟨ms, hms⟩ := ih (fun x hx => h x (by simp [hx]))
    exact ⟨m :: ms, by simp [List.mapM_cons, resolveMeter, hm, hms]⟩

theorem ensureStarted_ok (st : Mei.St) (h : AllMeters st) :
    ∃ M, ensureStarted st = some { st with meters := M, started := true } := by
  by_cases hs : st.started = true
  · refine ⟨st.meters, ?_⟩
    simp only [ensureStarted, hs, if_true]
    congr 1
    cases st
    simp_all
  · obtain ⟨ms, hms⟩ := mapM_resolve st (partsInOrder st) (by
      intro d hd
      exact h d (by simpa [partsInOrder] using hd))
    exact ⟨ms, by simp [ensureStarted, hs, hms]⟩

theorem openEv_measure (st : Mei.St) (as : List (String × String)) (M : List (Nat × Nat))
    (hpre : pre st "measure" as = some st) (hes : ensureStarted st = some { st with meters := M, started := true }) :
    openEv st "measure" as =
      some { st with meters := M, started := true, measName := attr as "n", staffIdx := 0, staffEnds := [],
                     stack := { tag := "measure", attrs := as } :: st.stack } := by
  simp only [pre] at hpre
  simp [openEv, hpre, hes]

theorem closeEv_measure (st : Mei.St) (f : Frame) (rest : List Frame) (hs : st.stack = f :: rest)
    (hf : f.tag = "measure") (hn : st.staffIdx = st.defs.length) :
    closeEv st = some { st with stack := rest, pos := ratMaxFrom st.pos st.staffEnds, measNo := st.measNo + 1 } := by
  simp [closeEv, hs, hf, hn]

/-- inside the `section`, between two measures -/
structure SecCtx (st : Mei.St) (nstaves : Nat) : Prop where
  noLayer : inLayer st.stack = false
  noTup : tupletsOf st.stack = []
  ch : st.chord = none
  defs : st.defs.length = nstaves
  meters : AllMeters st
  inSec : st.inSection = true

theorem itemsOk_ge (divs : Nat) (items : List Item) (cur e : Nat) (h : itemsOk divs cur items = some e) : cur ≤ e := by
  have leaf : ∀ tup c l c', leafOk divs tup c l = some c' → c ≤ c' := by
    intro tup c l c' hl
    cases l with
    | single m =>
      simp only [leafOk] at hl
      split at hl
      · simp only [Option.some.injEq] at hl
        split at hl <;> omega
      · simp at hl
    | chord ms =>
      simp only [leafOk] at hl
      split at hl
      · simp at hl
      · split at hl
        · simp only [Option.some.injEq] at hl; omega
        · simp at hl
  have leaves : ∀ tup ls c c', leavesOk divs tup c ls = some c' → c ≤ c' := by
    intro tup ls
    induction ls with
    | nil => intro c c' hl; simp [leavesOk] at hl; omega
    | cons l rest ih =>
      intro c c' hl
      simp only [leavesOk] at hl
      cases h1 : leafOk divs tup c l with
      | none => simp [h1] at hl
      | some c1 =>
        simp only [h1] at hl
        have := leaf tup c l c1 h1
        have := ih c1 c' hl
        omega
  induction items generalizing cur with
  | nil => simp [itemsOk] at h; omega
  | cons it rest ih =>
    cases it with
    | leaf l =>
      simp only [itemsOk] at h
      cases h1 : leafOk divs none cur l with
      | none => simp [h1] at h
      | some c1 =>
        simp only [h1] at h
        have := leaf none cur l c1 h1
        have := ih c1 h
        omega
    | tuplet num numbase inner =>
      simp only [itemsOk] at h
      split at h
      · simp at h
      · cases h1 : leavesOk divs (some (num, numbase)) cur inner with
        | none => simp [h1] at h
        | some c1 =>
          simp only [h1] at h
          have := leaves _ inner cur c1 h1
          have := ih c1 h
          omega

end C19M
