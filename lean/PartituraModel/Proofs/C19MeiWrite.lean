/-
Helper lemmas for the C19 MEI writer theorems: the elements written by `MeiWrite.writeMei` drive the `Mei`
state machine event by event.
-/
import PartituraModel.Model.MeiWrite
import PartituraModel.Proofs.C19Write

set_option linter.unusedSimpArgs false

namespace C19M
open Model Model.Mei Model.MeiWrite

/-! ## strings -/

theorem natOfString_showNat (n : Nat) : natOfString (showNat n) = some n := by
  have h := C19W.natDigits_mem n
  have hall := C19W.digits_all_isDigit _ h
  simp [natOfString, showNat, Digits.natDigits_ne_nil, hall, Digits.digitsToNat_natDigits]

theorem natOfString_intStr (i : Int) (h : 0 ≤ i) : natOfString (intStr i) = some i.toNat := by
  have : ¬ (i < 0) := by omega
  simp [intStr, showInt, this, natOfString_showNat]

/-! ## opening and closing elements that carry no meaning here -/

/-- what `openEv` does first: the beat units and the written durations are collected for the inferred ppq -/
def pre (st : Mei.St) (tag : String) (as : List (String × String)) : Option Mei.St := recordDurEl (recordUnits st tag as) as

theorem pre_noDur (st : Mei.St) (tag : String) (as : List (String × String)) (h1 : attr as "dur" = none)
    (h2 : natAttr as "meter.unit" = none) (h3 : tag ≠ "meterSig") : pre st tag as = some st := by
  simp [pre, recordDurEl, recordUnits, h1, h2, h3]

/-- closing an element whose end means nothing to the state machine -/
theorem closeEv_plain (st : Mei.St) (f : Frame) (rest : List Frame) (hs : st.stack = f :: rest)
    (h1 : f.tag ≠ "scoreDef") (h2 : f.tag ≠ "staffDef") (h3 : f.tag ≠ "layer") (h4 : f.tag ≠ "staff")
    (h5 : f.tag ≠ "measure") (h6 : f.tag ≠ "chord") : closeEv st = some { st with stack := rest } := by
  simp [closeEv, hs, h1, h2, h3, h4, h5, h6]

/-! ## attributes -/

theorem lookup_append (k : String) (a b : List (String × String)) :
    lookup k (a ++ b) = match lookup k a with | some v => some v | none => lookup k b := by
  induction a with
  | nil => rfl
  | cons e rest ih =>
    obtain ⟨e1, e2⟩ := e
    simp only [List.cons_append, lookup]
    split
    · rfl
    · exact ih

theorem lookup_dotsAttr (sd : KernWrite.SymDur) (k : String) (hk : k ≠ "dots") : lookup k (dotsAttr sd) = none := by
  unfold dotsAttr
  split
  · rfl
  · simp [lookup, Ne.symm hk]

theorem lookup_dotsAttr_self (sd : KernWrite.SymDur) :
    (lookup "dots" (dotsAttr sd)).bind natOfString = if sd.dots = 0 then none else some sd.dots := by
  unfold dotsAttr
  split
  · rfl
  · simp [lookup, natStr, natOfString_showNat]

theorem lookup_tieAttr (n : KernWrite.XNote) (k : String) (hk : k ≠ "tie") : lookup k (tieAttr n) = none := by
  unfold tieAttr
  split
  · simp [lookup, Ne.symm hk]
  · split
    · simp [lookup, Ne.symm hk]
    · split
      · simp [lookup, Ne.symm hk]
      · rfl

theorem lookup_gesAttr (ges : Option String) (k : String) (hk : k ≠ "accid.ges") : lookup k (gesAttr ges) = none := by
  cases ges with
  | none => rfl
  | some a => simp [gesAttr, lookup, Ne.symm hk]

theorem lookup_gesAttr_self (ges : Option String) : lookup "accid.ges" (gesAttr ges) = ges := by
  cases ges with
  | none => rfl
  | some a => simp [gesAttr, lookup]

theorem lookup_graceAttr (n : KernWrite.XNote) (k : String) (hk : k ≠ "grace") : lookup k (graceAttr n) = none := by
  unfold graceAttr
  split
  · simp [lookup, Ne.symm hk]
  · rfl

theorem lookup_graceAttr_self (n : KernWrite.XNote) : (lookup "grace" (graceAttr n)).isSome = decide (n.kind = 1) := by
  unfold graceAttr
  split
  · rename_i h; simp [lookup, h]
  · rename_i h; simp [lookup, h]

/-- what the state machine reads off a written `note` element -/
theorem noteAttrs_read (m : MNote) (d : String) (sd : KernWrite.SymDur) (ges : Option String) :
    attr (noteAttrs m d sd ges) "dur" = some d ∧
    natAttr (noteAttrs m d sd ges) "dots" = (if sd.dots = 0 then none else some sd.dots) ∧
    attr (noteAttrs m d sd ges) "pname" = some (lowerStep m.n.step) ∧
    attr (noteAttrs m d sd ges) "oct" = some (intStr m.n.octave) ∧
    natAttr (noteAttrs m d sd ges) "staff" = some m.n.staff ∧
    (attr (noteAttrs m d sd ges) "grace").isSome = decide (m.n.kind = 1) ∧
    attr (noteAttrs m d sd ges) "accid" = none ∧
    attr (noteAttrs m d sd ges) "accid.ges" = ges ∧
    natAttr (noteAttrs m d sd ges) "meter.unit" = none ∧
    natAttr (noteAttrs m d sd ges) "dur.ppq" = none ∧
    attr (noteAttrs m d sd ges) "xml:id" = some m.id := by
  have S : ∀ k, attr (noteAttrs m d sd ges) k =
      match lookup k [("dur", d), ("xml:id", m.id)] with
      | some v => some v
      | none => match lookup k (dotsAttr sd) with
        | some v => some v
        | none => match lookup k [("oct", intStr m.n.octave), ("pname", lowerStep m.n.step), ("staff", natStr m.n.staff)] with
          | some v => some v
          | none => match lookup k (tieAttr m.n) with
            | some v => some v
            | none => match lookup k (gesAttr ges) with
              | some v => some v
              | none => lookup k (graceAttr m.n) := by
    intro k
    simp only [attr, noteAttrs, lookup_append]
    cases lookup k [("dur", d), ("xml:id", m.id)] <;> cases lookup k (dotsAttr sd) <;>
      cases lookup k [("oct", intStr m.n.octave), ("pname", lowerStep m.n.step), ("staff", natStr m.n.staff)] <;>
      cases lookup k (tieAttr m.n) <;> cases lookup k (gesAttr ges) <;> rfl
  refine ⟨?_, ?_, ?_, ?_, ?_, ?_, ?_, ?_, ?_, ?_, ?_⟩
  · simp [S, lookup]
  · have := lookup_dotsAttr_self sd
    simp only [natAttr, S]
    simp only [lookup, show ¬ ("dur" = "dots") by decide, show ¬ ("xml:id" = "dots") by decide, if_false]
    cases h : lookup "dots" (dotsAttr sd) with
    | none => simp [h] at this; simp [lookup, lookup_tieAttr, lookup_gesAttr, lookup_graceAttr, ← this]
    | some v => simpa [h] using this
  · simp [S, lookup, lookup_dotsAttr]
  · simp [S, lookup, lookup_dotsAttr]
  · simp [natAttr, S, lookup, lookup_dotsAttr, natStr, natOfString_showNat]
  · simp only [S]
    simp [lookup, lookup_dotsAttr, lookup_tieAttr, lookup_gesAttr, lookup_graceAttr_self]
  · simp [S, lookup, lookup_dotsAttr, lookup_tieAttr, lookup_gesAttr, lookup_graceAttr]
  · simp [S, lookup, lookup_dotsAttr, lookup_tieAttr, lookup_gesAttr_self]
    cases ges with
    | none => simp [lookup_graceAttr]
    | some a => rfl
  · simp [natAttr, S, lookup, lookup_dotsAttr, lookup_tieAttr, lookup_gesAttr, lookup_graceAttr]
  · simp [natAttr, S, lookup, lookup_dotsAttr, lookup_tieAttr, lookup_gesAttr, lookup_graceAttr]
  · simp [S, lookup]

theorem restAttrs_read (m : MNote) (d : String) (sd : KernWrite.SymDur) :
    attr (restAttrs m d sd) "dur" = some d ∧
    natAttr (restAttrs m d sd) "dots" = (if sd.dots = 0 then none else some sd.dots) ∧
    natAttr (restAttrs m d sd) "staff" = none ∧
    natAttr (restAttrs m d sd) "meter.unit" = none ∧
    natAttr (restAttrs m d sd) "dur.ppq" = none ∧
    attr (restAttrs m d sd) "xml:id" = some m.id := by
  have S : ∀ k, attr (restAttrs m d sd) k =
      match lookup k [("dur", d)] with
      | some v => some v
      | none => match lookup k (dotsAttr sd) with
        | some v => some v
        | none => lookup k [("xml:id", m.id)] := by
    intro k
    simp only [attr, restAttrs, lookup_append]
    cases lookup k [("dur", d)] <;> cases lookup k (dotsAttr sd) <;> rfl
  refine ⟨?_, ?_, ?_, ?_, ?_, ?_⟩
  · simp [S, lookup]
  · have := lookup_dotsAttr_self sd
    simp only [natAttr, S]
    simp only [lookup, show ¬ ("dur" = "dots") by decide, if_false]
    cases h : lookup "dots" (dotsAttr sd) with
    | none => simp [h] at this; simp [lookup, ← this]
    | some v => simpa [h] using this
  · simp [natAttr, S, lookup, lookup_dotsAttr]
  · simp [natAttr, S, lookup, lookup_dotsAttr]
  · simp [natAttr, S, lookup, lookup_dotsAttr]
  · simp [S, lookup, lookup_dotsAttr]

theorem chordAttrs_read (d : String) (sd : KernWrite.SymDur) :
    attr ([("dur", d)] ++ dotsAttr sd) "dur" = some d ∧
    natAttr ([("dur", d)] ++ dotsAttr sd) "dots" = (if sd.dots = 0 then none else some sd.dots) ∧
    natAttr ([("dur", d)] ++ dotsAttr sd) "staff" = none ∧
    natAttr ([("dur", d)] ++ dotsAttr sd) "meter.unit" = none ∧
    natAttr ([("dur", d)] ++ dotsAttr sd) "dur.ppq" = none := by
  refine ⟨?_, ?_, ?_, ?_, ?_⟩
  · simp [attr, lookup]
  · have := lookup_dotsAttr_self sd
    simp only [natAttr, attr, lookup_append, lookup, show ¬ ("dur" = "dots") by decide, if_false]
    exact this
  · simp [natAttr, attr, lookup_append, lookup, lookup_dotsAttr]
  · simp [natAttr, attr, lookup_append, lookup, lookup_dotsAttr]
  · simp [natAttr, attr, lookup_append, lookup, lookup_dotsAttr]

/-- the tuplet frames of the stack, as the leaves see them -/
def tupList (tup : Option (Nat × Nat)) : List (Nat × Nat) :=
  match tup with
  | none => []
  | some t => [t]

/-- the written duration is read back as the quarters it stands for -/
theorem durOfAttrs_spec (st : Mei.St) (as : List (String × String)) (d : String) (sd : KernWrite.SymDur)
    (tup : Option (Nat × Nat)) (q : Rat)
    (hdur : attr as "dur" = some d) (hdots : natAttr as "dots" = if sd.dots = 0 then none else some sd.dots)
    (htup : tupletsOf st.stack = tupList tup) (hnum : ∀ a b, tup = some (a, b) → a ≠ 0)
    (hd : meiDurOf sd.type = some d) (hq : symQuarters sd tup = some q) :
    durOfAttrs st as = some q ∧ ∃ v, durNumber d = some v := by
  simp only [symQuarters, hd, Option.bind_some] at hq
  cases hv : durNumber d with
  | none => simp [hv] at hq
  | some v =>
    simp only [hv, Option.map_some, Option.some.injEq] at hq
    refine ⟨?_, v, rfl⟩
    have hdd : (natAttr as "dots").getD 0 = sd.dots := by
      rw [hdots]; split <;> simp_all
    simp only [durOfAttrs, hdur, Option.bind_some, hv, htup, hdd]
    cases tup with
    | none => simp [tupList, hq]
    | some ab =>
      obtain ⟨a, b⟩ := ab
      have := hnum a b rfl
      simp [tupList, this, hq]

theorem pre_dur (st : Mei.St) (tag : String) (as : List (String × String)) (d : String) (v : Rat) (tup : Option (Nat × Nat))
    (hdur : attr as "dur" = some d) (hv : durNumber d = some v) (htup : tupletsOf st.stack = tupList tup)
    (h2 : natAttr as "meter.unit" = none) (h3 : tag ≠ "meterSig") :
    ∃ de, pre st tag as = some { st with durEls := de } := by
  cases tup with
  | none =>
    exact ⟨⟨v, (natAttr as "dots").getD 0, none, natAttr as "dur.ppq"⟩ :: st.durEls,
      by simp [pre, recordDurEl, recordUnits, hdur, hv, h2, h3, htup, tupList]⟩
  | some t =>
    exact ⟨⟨v, (natAttr as "dots").getD 0, some t, natAttr as "dur.ppq"⟩ :: st.durEls,
      by simp [pre, recordDurEl, recordUnits, hdur, hv, h2, h3, htup, tupList]⟩

/-! ## the events of a layer -/

def parentTag (st : Mei.St) : String := (st.stack.head?.map (·.tag)).getD ""

theorem openEv_note (st : Mei.St) (as : List (String × String)) (st1 : Mei.St)
    (hpre : pre st "note" as = some st1) (hin : inLayer st1.stack = true) (hpar : parentTag st1 ≠ "chord") :
    openEv st "note" as =
      (if (attr as "grace").isSome then some 0 else durOfAttrs st1 as).bind fun d =>
      (attr as "pname").bind fun step =>
      ((attr as "oct").bind natOfString).map fun oct =>
        { st1 with notes := ⟨st1.staffIdx, (attr as "xml:id").getD "", st1.cursor, d, if (attr as "grace").isSome then 1 else 0,
                              upperStep step, (noteAlter as).getD 0, oct, st1.voice, (natAttr as "staff").getD st1.staffN⟩ :: st1.notes,
                   cursor := st1.cursor + d, stack := { tag := "note", attrs := as } :: st1.stack } := by
  simp only [pre] at hpre
  simp only [parentTag] at hpar
  cases hg : (attr as "grace").isSome <;> cases hd : durOfAttrs st1 as <;> cases hp : attr as "pname" <;>
    cases ho : (attr as "oct").bind natOfString <;>
    simp [openEv, hpre, hin, hpar, hg, hd, hp, ho]

theorem openEv_note_in_chord (st : Mei.St) (as : List (String × String)) (st1 : Mei.St) (d : Rat) (cstaff : Option Nat)
    (hpre : pre st "note" as = some st1) (hin : inLayer st1.stack = true) (hpar : parentTag st1 = "chord")
    (hch : st1.chord = some (d, cstaff)) :
    openEv st "note" as =
      (attr as "pname").bind fun step =>
      ((attr as "oct").bind natOfString).map fun oct =>
        { st1 with notes := ⟨st1.staffIdx, (attr as "xml:id").getD "", st1.cursor, d, 0,
                              upperStep step, (noteAlter as).getD 0, oct, st1.voice,
                              (natAttr as "staff").getD (cstaff.getD st1.staffN)⟩ :: st1.notes,
                   stack := { tag := "note", attrs := as } :: st1.stack } := by
  simp only [pre] at hpre
  simp only [parentTag] at hpar
  cases hp : attr as "pname" <;> cases ho : (attr as "oct").bind natOfString <;>
    simp [openEv, hpre, hin, hpar, hch, hp, ho]

theorem openEv_rest (st : Mei.St) (as : List (String × String)) (st1 : Mei.St)
    (hpre : pre st "rest" as = some st1) (hin : inLayer st1.stack = true) :
    openEv st "rest" as =
      (durOfAttrs st1 as).map fun d =>
        { st1 with notes := ⟨st1.staffIdx, (attr as "xml:id").getD "", st1.cursor, d, 2, "", 0, 0, st1.voice,
                              (natAttr as "staff").getD st1.staffN⟩ :: st1.notes,
                   cursor := st1.cursor + d, stack := { tag := "rest", attrs := as } :: st1.stack } := by
  simp only [pre] at hpre
  cases hd : durOfAttrs st1 as <;> simp [openEv, hpre, hin, hd]

theorem openEv_chord (st : Mei.St) (as : List (String × String)) (st1 : Mei.St)
    (hpre : pre st "chord" as = some st1) (hin : inLayer st1.stack = true) :
    openEv st "chord" as =
      (durOfAttrs st1 as).map fun d =>
        { st1 with chord := some (d, natAttr as "staff"), stack := { tag := "chord", attrs := as } :: st1.stack } := by
  simp only [pre] at hpre
  cases hd : durOfAttrs st1 as <;> simp [openEv, hpre, hin, hd]

theorem openEv_tuplet (st : Mei.St) (as : List (String × String))
    (hpre : pre st "tuplet" as = some st) (hin : inLayer st.stack = true) (ht : tupletsOf st.stack = []) :
    openEv st "tuplet" as = some { st with stack := { tag := "tuplet", attrs := as } :: st.stack } := by
  simp only [pre] at hpre
  simp [openEv, hpre, hin, ht]

theorem openEv_accid (st : Mei.St) (as pattrs : List (String × String)) (rest : List Frame) (n : RNote) (ns : List RNote) (a : Int)
    (hpre : pre st "accid" as = some st) (hin : inLayer st.stack = true)
    (hstack : st.stack = { tag := "note", attrs := pattrs } :: rest)
    (h1 : attr pattrs "accid" = none) (h2 : attr pattrs "accid.ges" = none)
    (hn : st.notes = n :: ns) (ha : noteAlter as = some a) :
    openEv st "accid" as =
      some { st with notes := { n with alter := a } :: ns, stack := { tag := "accid", attrs := as } :: st.stack } := by
  simp only [pre] at hpre
  have hin' : inLayer ({ tag := "note", attrs := pattrs } :: rest) = true := hstack ▸ hin
  simp [openEv, hpre, hin', hstack, h1, h2, hn, ha]

theorem closeEv_chord (st : Mei.St) (f : Frame) (rest : List Frame) (d : Rat) (cs : Option Nat)
    (hs : st.stack = f :: rest) (hf : f.tag = "chord") (hc : st.chord = some (d, cs)) :
    closeEv st = some { st with stack := rest, cursor := st.cursor + d, chord := none } := by
  simp [closeEv, hs, hf, hc]

theorem alterToMei_read : ∀ e ∈ alterToMei, accidValue e.2 = some e.1 := by decide

theorem step_read : ∀ e ∈ KernWrite.stepLetters, upperStep (lowerStep e.1) = e.1 := by decide +kernel

/-- the state machine stands inside a layer (possibly inside one tuplet), outside any chord -/
structure Ctx (st : Mei.St) (tup : Option (Nat × Nat)) : Prop where
  inl : inLayer st.stack = true
  par : parentTag st ≠ "chord"
  tups : tupletsOf st.stack = tupList tup
  ch : st.chord = none
  num : ∀ a b, tup = some (a, b) → a ≠ 0

def rfact (r : RNote) : KernWrite.Fact := ⟨r.onset, r.dur, r.kind, r.step, r.alter, r.octave, r.staff⟩

/-- quarters a written event lasts: nothing for a grace note -/
def qOf (divs : Nat) (m : MNote) : Rat := if m.n.kind = 1 then 0 else (m.n.dur : Rat) / (divs : Rat)

theorem noteOkM_unpack (divs : Nat) (tup : Option (Nat × Nat)) (m : MNote) (h : noteOkM divs tup m = true) :
    m.n.kind ≤ 2 ∧ ∃ sd q0, m.n.sym = some sd ∧ symQuarters sd tup = some q0 ∧
      (m.n.kind ≠ 1 → q0 = (m.n.dur : Rat) / (divs : Rat)) ∧
      (m.n.kind ≠ 2 → (∃ ul, lookup m.n.step KernWrite.stepLetters = some ul) ∧ 0 ≤ m.n.octave ∧
        ∀ a, m.n.alter = some a → ∃ acc, lookup a alterToMei = some acc) := by
  simp only [noteOkM, Bool.and_eq_true, Bool.or_eq_true, decide_eq_true_eq] at h
  obtain ⟨⟨hk, hs⟩, hp⟩ := h
  refine ⟨hk, ?_⟩
  cases hsym : m.n.sym with
  | none => simp [hsym] at hs
  | some sd =>
    simp only [hsym, Bool.and_eq_true, Bool.or_eq_true, decide_eq_true_eq] at hs
    obtain ⟨hq, hv⟩ := hs
    obtain ⟨q0, hq0⟩ := Option.isSome_iff_exists.mp hq
    refine ⟨sd, q0, rfl, hq0, ?_, ?_⟩
    · intro hk1
      rcases hv with hv | hv
      · exact absurd hv hk1
      · rw [hq0] at hv; simpa using hv
    · intro hk2
      rcases hp with hp | hp
      · exact absurd hp hk2
      · obtain ⟨⟨h1, h2⟩, h3⟩ := hp
        refine ⟨Option.isSome_iff_exists.mp h1, h2, ?_⟩
        intro a ha
        rw [ha] at h3
        exact Option.isSome_iff_exists.mp h3

theorem runEvs_append (st : Mei.St) (a b : List Ev) :
    runEvs st (a ++ b) = (runEvs st a).bind fun st' => runEvs st' b := by
  induction a generalizing st with
  | nil => simp [runEvs]
  | cons e rest ih =>
    simp only [List.cons_append, runEvs]
    cases stepEv st e with
    | none => simp
    | some st1 => simp [ih]

theorem inLayer_push (f : Frame) (stack : List Frame) (h : inLayer stack = true) : inLayer (f :: stack) = true := by
  simp only [inLayer, List.any_cons, Bool.or_eq_true] at h ⊢
  exact Or.inr h

/-- what the children of a written `note` do: nothing, or an `accid` child sets the alteration -/
def ChildrenOk (st : Mei.St) (A : List (String × String)) (children : List Ev) (alt : Int) : Prop :=
  ∀ (st2 : Mei.St) (n : RNote) (ns : List RNote),
    st2.stack = { tag := "note", attrs := A } :: st.stack → inLayer st2.stack = true → st2.notes = n :: ns →
    n.alter = (noteAlter A).getD 0 → runEvs st2 children = some { st2 with notes := { n with alter := alt } :: ns }

/-- the three ways a pitched note is written: no alteration, `@accid.ges` (the key signature says it), `accid` child -/
theorem noteEl_shape (ks : List String) (m : MNote) (sd : KernWrite.SymDur) (d' : String) (evs : List Ev) (d : String)
    (hsym : m.n.sym = some sd) (hd : meiDurOf sd.type = some d') (k2 : m.n.kind ≠ 2)
    (halt : ∀ a, m.n.alter = some a → ∃ acc, lookup a alterToMei = some acc)
    (hev : noteEl ks m = some (evs, d)) (st : Mei.St) :
    ∃ ges children, evs = el "note" (noteAttrs m d' sd ges) children ∧ d = d' ∧
      ChildrenOk st (noteAttrs m d' sd ges) children (m.n.alter.getD 0) := by
  simp only [noteEl, hsym, hd, k2, if_false] at hev
  cases hal : m.n.alter with
  | none =>
    simp only [hal, Option.some.injEq, Prod.mk.injEq] at hev
    obtain ⟨rfl, rfl⟩ := hev
    refine ⟨none, [], rfl, rfl, ?_⟩
    intro st2 n ns _ _ hn ha
    obtain ⟨_, _, _, _, _, _, a7, a8, _⟩ := noteAttrs_read m d' sd none
    simp only [noteAlter, a7, a8, Option.bind_none, Option.getD_none] at ha
    simp only [runEvs, Option.getD_none]
    rw [← ha]
    show some st2 = some { st2 with notes := n :: ns }
    rw [← hn]
  | some a =>
    obtain ⟨acc, hacc⟩ := halt a hal
    have hread : accidValue acc = some a := alterToMei_read (a, acc) (C19W.lookup_mem _ _ _ hacc)
    simp only [hal, hacc] at hev
    split at hev
    · simp only [Option.some.injEq, Prod.mk.injEq] at hev
      obtain ⟨rfl, rfl⟩ := hev
      refine ⟨some acc, [], rfl, rfl, ?_⟩
      intro st2 n ns _ _ hn ha
      obtain ⟨_, _, _, _, _, _, a7, a8, _⟩ := noteAttrs_read m d' sd (some acc)
      simp only [noteAlter, a7, a8, Option.bind_some, hread, Option.getD_some] at ha
      simp only [runEvs, Option.getD_some]
      rw [← ha]
      show some st2 = some { st2 with notes := n :: ns }
      rw [← hn]
    · simp only [Option.some.injEq, Prod.mk.injEq] at hev
      obtain ⟨rfl, rfl⟩ := hev
      refine ⟨none, el "accid" [("accid", acc)] [], rfl, rfl, ?_⟩
      intro st2 n ns hst2 hin2 hn _
      obtain ⟨_, _, _, _, _, _, a7, a8, _⟩ := noteAttrs_read m d' sd none
      have hp : pre st2 "accid" [("accid", acc)] = some st2 :=
        pre_noDur st2 "accid" _ (by simp [attr, lookup]) (by simp [natAttr, attr, lookup]) (by decide)
      have hna : noteAlter [("accid", acc)] = some a := by simp [noteAlter, attr, lookup, hread]
      simp only [el, List.nil_append, List.cons_append, runEvs, stepEv, Option.getD_some,
        openEv_accid st2 _ _ _ n ns a hp hin2 hst2 a7 a8 hn hna]
      rw [closeEv_plain _ { tag := "accid", attrs := [("accid", acc)] } st2.stack rfl (by simp) (by simp) (by simp) (by simp) (by simp) (by simp)]

/-- a rest, a note or a grace note written on its own (not in a chord): one event of the layer, read where the
    layer stands, lasting what it lasts (a grace note nothing), moving the layer on by that -/
theorem single_spec (divs : Nat) (tup : Option (Nat × Nat)) (ks : List String) (m : MNote)
    (hok : noteOkM divs tup m = true) (evs : List Ev) (d : String) (hev : noteEl ks m = some (evs, d))
    (st : Mei.St) (hc : Ctx st tup) :
    ∃ de r, runEvs st evs = some { st with notes := r :: st.notes, cursor := st.cursor + qOf divs m, durEls := de } ∧
      r.part = st.staffIdx ∧
      (m.n.kind ≠ 2 → rfact r = ⟨st.cursor, qOf divs m, m.n.kind, m.n.step, m.n.alter.getD 0, m.n.octave, m.n.staff⟩) := by
  obtain ⟨hk, sd, q0, hsym, hq0, hqv, hpitch⟩ := noteOkM_unpack divs tup m hok
  cases hd : meiDurOf sd.type with
  | none => simp [noteEl, hsym, hd] at hev
  | some d' =>
    by_cases k2 : m.n.kind = 2
    · -- a rest
      simp only [noteEl, hsym, hd, k2, if_true, Option.some.injEq, Prod.mk.injEq] at hev
      obtain ⟨rfl, rfl⟩ := hev
      obtain ⟨r1, r2, r3, r4, r5, r6⟩ := restAttrs_read m d' sd
      obtain ⟨hdo, v, hv⟩ := durOfAttrs_spec st (restAttrs m d' sd) d' sd tup q0 r1 r2 hc.tups hc.num hd hq0
      obtain ⟨de, hpre⟩ := pre_dur st "rest" (restAttrs m d' sd) d' v tup r1 hv hc.tups r4 (by decide)
      have k1 : m.n.kind ≠ 1 := by omega
      have hq : q0 = qOf divs m := by rw [hqv k1]; simp [qOf, k1]
      have hdo' : durOfAttrs { st with durEls := de } (restAttrs m d' sd) = some q0 := hdo
      refine ⟨de, ⟨st.staffIdx, m.id, st.cursor, q0, 2, "", 0, 0, st.voice, st.staffN⟩, ?_, rfl, fun h => absurd k2 h⟩
      simp only [el, List.nil_append, List.cons_append, runEvs, stepEv, openEv_rest st _ _ hpre hc.inl, hdo', Option.map_some]
      rw [closeEv_plain _ { tag := "rest", attrs := restAttrs m d' sd } st.stack rfl (by simp) (by simp) (by simp) (by simp) (by simp) (by simp)]
      simp [hq, r3, r6]
    · obtain ⟨⟨ul, hstep⟩, hoct, halt⟩ := hpitch k2
      obtain ⟨ges, children, rfl, _, hch⟩ := noteEl_shape ks m sd d' evs d hsym hd k2 halt hev st
      have hstepr : upperStep (lowerStep m.n.step) = m.n.step :=
        step_read (m.n.step, ul) (C19W.lookup_mem _ _ _ hstep)
      have hkind : (if decide (m.n.kind = 1) = true then (1 : Nat) else 0) = m.n.kind := by
        by_cases k1 : m.n.kind = 1
        · simp [k1]
        · have : m.n.kind = 0 := by omega
          simp [this]
      obtain ⟨a1, a2, a3, a4, a5, a6, a7, a8, a9, a10, a11⟩ := noteAttrs_read m d' sd ges
      obtain ⟨hdo, v, hv⟩ := durOfAttrs_spec st (noteAttrs m d' sd ges) d' sd tup q0 a1 a2 hc.tups hc.num hd hq0
      obtain ⟨de, hpre⟩ := pre_dur st "note" (noteAttrs m d' sd ges) d' v tup a1 hv hc.tups a9 (by decide)
      have hdo' : durOfAttrs { st with durEls := de } (noteAttrs m d' sd ges) = some q0 := hdo
      have hoctr : (attr (noteAttrs m d' sd ges) "oct").bind natOfString = some m.n.octave.toNat := by
        rw [a4]; exact natOfString_intStr _ hoct
      have hq : (if (attr (noteAttrs m d' sd ges) "grace").isSome then some (0 : Rat)
          else durOfAttrs { st with durEls := de } (noteAttrs m d' sd ges)) = some (qOf divs m) := by
        rw [a6, hdo']
        by_cases k1 : m.n.kind = 1
        · simp [k1, qOf]
        · simp [k1, qOf, hqv k1]
      let n0 : RNote := ⟨st.staffIdx, m.id, st.cursor, qOf divs m, m.n.kind, m.n.step,
        (noteAlter (noteAttrs m d' sd ges)).getD 0, m.n.octave.toNat, st.voice, m.n.staff⟩
      let stO : Mei.St := { st with durEls := de, notes := n0 :: st.notes, cursor := st.cursor + qOf divs m,
                                     stack := { tag := "note", attrs := noteAttrs m d' sd ges } :: st.stack }
      have hopen : openEv st "note" (noteAttrs m d' sd ges) = some stO := by
        rw [openEv_note st (noteAttrs m d' sd ges) _ hpre hc.inl hc.par, hq, a3, hoctr]
        simp only [Option.bind_some, Option.map_some, a5, a6, a11, hstepr, hkind, Option.getD_some]
        rfl
      have hrun := hch stO n0 st.notes rfl (inLayer_push _ _ hc.inl) rfl rfl
      refine ⟨de, { n0 with alter := m.n.alter.getD 0 }, ?_, rfl, fun _ => ?_⟩
      · simp only [el, List.cons_append, runEvs, stepEv, hopen]
        rw [runEvs_append, hrun]
        simp only [Option.bind_some, runEvs, stepEv]
        rw [closeEv_plain _ { tag := "note", attrs := noteAttrs m d' sd ges } st.stack rfl (by simp) (by simp) (by simp) (by simp) (by simp) (by simp)]
      · simp [rfact, n0, Int.toNat_of_nonneg hoct]

/-- a note inside a written chord: read at the chord's position with the chord's duration; the layer does not move -/
theorem chordNote_spec (divs : Nat) (tup : Option (Nat × Nat)) (ks : List String) (m : MNote)
    (hok : noteOkM divs tup m = true) (k0 : m.n.kind = 0) (evs : List Ev) (d : String) (hev : noteEl ks m = some (evs, d))
    (st : Mei.St) (q : Rat) (hin : inLayer st.stack = true) (hpar : parentTag st = "chord")
    (htups : tupletsOf st.stack = tupList tup) (hchord : st.chord = some (q, none)) :
    ∃ de r, runEvs st evs = some { st with notes := r :: st.notes, durEls := de } ∧
      r.part = st.staffIdx ∧
      rfact r = ⟨st.cursor, q, 0, m.n.step, m.n.alter.getD 0, m.n.octave, m.n.staff⟩ := by
  obtain ⟨hk, sd, q0, hsym, hq0, hqv, hpitch⟩ := noteOkM_unpack divs tup m hok
  have k2 : m.n.kind ≠ 2 := by omega
  cases hd : meiDurOf sd.type with
  | none => simp [noteEl, hsym, hd] at hev
  | some d' =>
    obtain ⟨⟨ul, hstep⟩, hoct, halt⟩ := hpitch k2
    obtain ⟨ges, children, rfl, _, hch⟩ := noteEl_shape ks m sd d' evs d hsym hd k2 halt hev st
    have hstepr : upperStep (lowerStep m.n.step) = m.n.step :=
      step_read (m.n.step, ul) (C19W.lookup_mem _ _ _ hstep)
    obtain ⟨a1, a2, a3, a4, a5, a6, a7, a8, a9, a10, a11⟩ := noteAttrs_read m d' sd ges
    obtain ⟨v, hv⟩ : ∃ v, durNumber d' = some v := by
      simp only [symQuarters, hd, Option.bind_some] at hq0
      cases hv : durNumber d' with
      | none => simp [hv] at hq0
      | some v => exact ⟨v, rfl⟩
    obtain ⟨de, hpre⟩ := pre_dur st "note" (noteAttrs m d' sd ges) d' v tup a1 hv htups a9 (by decide)
    have hoctr : (attr (noteAttrs m d' sd ges) "oct").bind natOfString = some m.n.octave.toNat := by
      rw [a4]; exact natOfString_intStr _ hoct
    let n0 : RNote := ⟨st.staffIdx, m.id, st.cursor, q, 0, m.n.step,
      (noteAlter (noteAttrs m d' sd ges)).getD 0, m.n.octave.toNat, st.voice, m.n.staff⟩
    let stO : Mei.St := { st with durEls := de, notes := n0 :: st.notes,
                                   stack := { tag := "note", attrs := noteAttrs m d' sd ges } :: st.stack }
    have hopen : openEv st "note" (noteAttrs m d' sd ges) = some stO := by
      rw [openEv_note_in_chord st (noteAttrs m d' sd ges) _ q none hpre hin hpar hchord, a3, hoctr]
      simp only [Option.bind_some, Option.map_some, a5, a11, hstepr, Option.getD_some]
      rfl
    have hrun := hch stO n0 st.notes rfl (inLayer_push _ _ hin) rfl rfl
    refine ⟨de, { n0 with alter := m.n.alter.getD 0 }, ?_, rfl, ?_⟩
    · simp only [el, List.cons_append, runEvs, stepEv, hopen]
      rw [runEvs_append, hrun]
      simp only [Option.bind_some, runEvs, stepEv]
      rw [closeEv_plain _ { tag := "note", attrs := noteAttrs m d' sd ges } st.stack rfl (by simp) (by simp) (by simp) (by simp) (by simp) (by simp)]
    · simp [rfact, n0, Int.toNat_of_nonneg hoct]

def leafNotes : Leaf → List MNote
  | .single m => [m]
  | .chord ms => ms

theorem mapMOpt_some {α β : Type} (f : α → Option β) (l : List α) (r : List β) (h : mapMOpt f l = some r) :
    r.length = l.length ∧ ∀ i (hi : i < l.length) (hi' : i < r.length), f l[i] = some r[i] := by
  induction l generalizing r with
  | nil => simp [mapMOpt] at h; subst h; simp
  | cons a rest ih =>
    simp only [mapMOpt] at h
    split at h
    · rename_i b bs hb hbs
      simp at h
      subst h
      obtain ⟨hl, hi⟩ := ih bs hbs
      refine ⟨by simp [hl], ?_⟩
      intro i h1 h2
      cases i with
      | zero => simpa using hb
      | succ i => simpa using hi i (by simpa using h1) (by simpa using h2)
    · simp at h

theorem mapMOpt_cons {α β : Type} (f : α → Option β) (a : α) (rest : List α) (r : List β)
    (h : mapMOpt f (a :: rest) = some r) : ∃ b bs, r = b :: bs ∧ f a = some b ∧ mapMOpt f rest = some bs := by
  simp only [mapMOpt] at h
  split at h
  · rename_i b bs hb hbs
    simp at h
    exact ⟨b, bs, h.symm, hb, hbs⟩
  · simp at h

theorem mapMOpt_getLast {α β : Type} (f : α → Option β) (l : List α) (r : List β) (h : mapMOpt f l = some r)
    (last : α) (hl : l.getLast? = some last) : ∃ x, r.getLast? = some x ∧ f last = some x := by
  induction l generalizing r with
  | nil => simp at hl
  | cons a rest ih =>
    obtain ⟨b, bs, rfl, hb, hbs⟩ := mapMOpt_cons f a rest r h
    cases rest with
    | nil =>
      simp [mapMOpt] at hbs
      subst hbs
      simp at hl
      subst hl
      exact ⟨b, by simp, hb⟩
    | cons a' rest' =>
      have hl' : (a' :: rest').getLast? = some last := by simpa [List.getLast?_cons_cons] using hl
      obtain ⟨x, hx, hfx⟩ := ih bs hbs hl'
      obtain ⟨b', bs', rfl, _, _⟩ := mapMOpt_cons f a' rest' bs hbs
      exact ⟨x, by simpa [List.getLast?_cons_cons] using hx, hfx⟩

/-- the notes inside a written chord, one after the other -/
theorem chordNotes_spec (divs : Nat) (tup : Option (Nat × Nat)) (ks : List String) (q : Rat) (ms : List MNote)
    (hok : ∀ m ∈ ms, noteOkM divs tup m = true ∧ m.n.kind = 0) (els : List (List Ev × String))
    (hel : mapMOpt (noteEl ks) ms = some els)
    (st : Mei.St) (hin : inLayer st.stack = true) (hpar : parentTag st = "chord")
    (htups : tupletsOf st.stack = tupList tup) (hchord : st.chord = some (q, none)) :
    ∃ de new, runEvs st (els.map (·.1)).flatten = some { st with notes := new ++ st.notes, durEls := de } ∧
      (∀ r ∈ new, r.part = st.staffIdx) ∧
      ∀ m ∈ ms, ∃ r ∈ new, rfact r = ⟨st.cursor, q, 0, m.n.step, m.n.alter.getD 0, m.n.octave, m.n.staff⟩ := by
  induction ms generalizing els st with
  | nil =>
    simp [mapMOpt] at hel
    subst hel
    exact ⟨st.durEls, [], by simp [runEvs], by simp, by simp⟩
  | cons m rest ih =>
    obtain ⟨b, bs, rfl, hb, hbs⟩ := mapMOpt_cons _ m rest els hel
    obtain ⟨evs, d⟩ := b
    obtain ⟨de1, r1, h1, p1, f1⟩ := chordNote_spec divs tup ks m (hok m (by simp)).1 (hok m (by simp)).2 evs d hb st q hin hpar htups hchord
    obtain ⟨de2, new2, h2, p2, f2⟩ := ih (fun x hx => hok x (by simp [hx])) bs hbs
      { st with notes := r1 :: st.notes, durEls := de1 } hin hpar htups hchord
    refine ⟨de2, new2 ++ [r1], ?_, ?_, ?_⟩
    · simp only [List.map_cons, List.flatten_cons]
      rw [runEvs_append, h1]
      simp only [Option.bind_some]
      rw [h2]
      simp
    · intro r hr
      rcases List.mem_append.mp hr with h | h
      · exact p2 r h
      · simp at h; subst h; exact p1
    · intro x hx
      rcases List.mem_cons.mp hx with rfl | hx
      · exact ⟨r1, by simp, f1⟩
      · obtain ⟨r, hr, hf⟩ := f2 x hx
        exact ⟨r, by simp [hr], hf⟩

theorem tupletsOf_push_other (f : Frame) (stack : List Frame) (h : f.tag ≠ "tuplet") :
    tupletsOf (f :: stack) = tupletsOf stack := by
  simp [tupletsOf, List.filterMap_cons, h]

/-- what a leaf leaves behind: the layer at the leaf's end, the leaf's notes read at its start -/
def LeafPost (divs : Nat) (st : Mei.St) (notes : List MNote) (cur' : Nat) (st' : Mei.St) : Prop :=
  ∃ de new, st' = { st with notes := new ++ st.notes, cursor := (cur' : Rat) / (divs : Rat), durEls := de } ∧
    (∀ r ∈ new, r.part = st.staffIdx) ∧
    ∀ m ∈ notes, m.n.kind ≠ 2 → ∃ r ∈ new, rfact r = factOf divs m

theorem leaf_spec (divs : Nat) (tup : Option (Nat × Nat)) (ks : List String) (l : Leaf) (cur cur' : Nat)
    (hok : leafOk divs tup cur l = some cur') (evs : List Ev) (hev : leafEvs ks l = some evs)
    (st : Mei.St) (hc : Ctx st tup) (hcur : st.cursor = (cur : Rat) / (divs : Rat)) :
    ∃ st', runEvs st evs = some st' ∧ LeafPost divs st (leafNotes l) cur' st' := by
  cases l with
  | single m =>
    simp only [leafOk] at hok
    split at hok
    · rename_i hcond
      simp only [Bool.and_eq_true, decide_eq_true_eq] at hcond
      obtain ⟨hm, hstart⟩ := hcond
      simp only [Option.some.injEq] at hok
      simp only [leafEvs, Option.map_eq_some_iff] at hev
      obtain ⟨⟨evs', d⟩, hne, rfl⟩ := hev
      obtain ⟨de, r, hrun, hp, hf⟩ := single_spec divs tup ks m hm evs' d hne st hc
      refine ⟨_, hrun, de, [r], ?_, ?_, ?_⟩
      · have : st.cursor + qOf divs m = (cur' : Rat) / (divs : Rat) := by
          rw [hcur, ← hok]
          by_cases k1 : m.n.kind = 1
          · simp [qOf, k1]
          · simp only [qOf, k1, if_false]; push_cast; ring
        rw [this]; rfl
      · intro x hx; simp at hx; subst hx; exact hp
      · intro x hx hk
        simp only [leafNotes, List.mem_singleton] at hx
        subst hx
        refine ⟨r, by simp, ?_⟩
        rw [hf hk, hcur, ← hstart]
        simp [factOf, qOf]
    · simp at hok
  | chord ms =>
    simp only [leafOk] at hok
    cases hlast : ms.getLast? with
    | none => simp [hlast] at hok
    | some last =>
      simp only [hlast] at hok
      split at hok
      · rename_i hall
        simp only [Option.some.injEq] at hok
        have hall' : ∀ m ∈ ms, noteOkM divs tup m = true ∧ m.start = cur ∧ m.n.kind = 0 ∧ m.n.dur = last.n.dur := by
          intro m hm
          have := List.all_eq_true.mp hall m hm
          simp only [Bool.and_eq_true, decide_eq_true_eq] at this
          exact ⟨this.1.1.1, this.1.1.2, this.1.2, this.2⟩
        have hlastmem : last ∈ ms := List.mem_of_getLast? hlast
        obtain ⟨hokL, _, k0L, _⟩ := hall' last hlastmem
        obtain ⟨_, sdL, q0, hsymL, hq0, hqv, hpitchL⟩ := noteOkM_unpack divs tup last hokL
        have hq0' : q0 = (last.n.dur : Rat) / (divs : Rat) := hqv (by omega)
        simp only [leafEvs, hlast] at hev
        cases hel : mapMOpt (noteEl ks) ms with
        | none => simp [hel] at hev
        | some els =>
          simp only [hel, hsymL, Option.some.injEq] at hev
          subst hev
          obtain ⟨x, hx, hfx⟩ := mapMOpt_getLast _ ms els hel last hlast
          cases hdL : meiDurOf sdL.type with
          | none => simp [noteEl, hsymL, hdL] at hfx
          | some dL =>
            have hxd : x.2 = dL := by
              obtain ⟨_, halt⟩ := (hpitchL (by omega)).2
              obtain ⟨_, _, _, hd', _⟩ := noteEl_shape ks last sdL dL x.1 x.2 hsymL hdL (by omega) halt (by simpa using hfx) st
              exact hd'
            simp only [hx, Option.map_some, Option.getD_some, hxd]
            obtain ⟨c1, c2, c3, c4, c5⟩ := chordAttrs_read dL sdL
            obtain ⟨A, hA⟩ : ∃ A, A = [("dur", dL)] ++ dotsAttr sdL := ⟨_, rfl⟩
            rw [← hA] at c1 c2 c3 c4 c5 ⊢
            obtain ⟨hdo, v, hv⟩ := durOfAttrs_spec st _ dL sdL tup q0 c1 c2 hc.tups hc.num hdL hq0
            obtain ⟨de, hpre⟩ := pre_dur st "chord" _ dL v tup c1 hv hc.tups c4 (by decide)
            have hdo' : durOfAttrs { st with durEls := de } A = some q0 := hdo
            let stC : Mei.St := { st with durEls := de, chord := some (q0, none),
                                           stack := { tag := "chord", attrs := A } :: st.stack }
            have hopen : openEv st "chord" A = some stC := by
              rw [openEv_chord st _ _ hpre hc.inl, hdo']
              simp only [Option.map_some, c3]
              rfl
            obtain ⟨de2, new, hrun, hp, hf⟩ := chordNotes_spec divs tup ks q0 ms
              (fun m hm => ⟨(hall' m hm).1, (hall' m hm).2.2.1⟩) els hel stC (inLayer_push _ _ hc.inl)
              (by simp [parentTag, stC])
              (by rw [show stC.stack = _ :: st.stack from rfl, tupletsOf_push_other _ _ (by simp)]; exact hc.tups) rfl
            refine ⟨_, ?_, de2, new, rfl, hp, ?_⟩
            · simp only [el, List.cons_append, runEvs, stepEv, hopen]
              rw [runEvs_append, hrun]
              simp only [Option.bind_some, runEvs, stepEv]
              rw [closeEv_chord _ { tag := "chord", attrs := A } st.stack q0 none rfl rfl rfl]
              simp only [stC, Option.some.injEq]
              have : st.cursor + q0 = (cur' : Rat) / (divs : Rat) := by
                rw [hcur, hq0', ← hok]; push_cast; ring
              rw [this, hc.ch]
            · intro m hm _
              obtain ⟨r, hr, hfr⟩ := hf m hm
              refine ⟨r, hr, ?_⟩
              obtain ⟨_, hstart, k0, hdur⟩ := hall' m hm
              rw [hfr]
              simp [factOf, stC, hcur, hstart, k0, hq0', hdur]
      · simp at hok

theorem Ctx_of_eq (st st' : Mei.St) (tup : Option (Nat × Nat)) (hc : Ctx st tup) (h1 : st'.stack = st.stack)
    (h2 : st'.chord = st.chord) : Ctx st' tup :=
  ⟨by rw [h1]; exact hc.inl, by simp only [parentTag, h1]; exact hc.par, by rw [h1]; exact hc.tups,
   by rw [h2]; exact hc.ch, hc.num⟩

theorem LeafPost_refl (divs : Nat) (st : Mei.St) (cur : Nat) (hcur : st.cursor = (cur : Rat) / (divs : Rat)) :
    LeafPost divs st [] cur st :=
  ⟨st.durEls, [], by simp [← hcur], by simp, by simp⟩

theorem LeafPost_trans (divs : Nat) (st st1 st2 : Mei.St) (n1 n2 : List MNote) (c1 c2 : Nat)
    (h1 : LeafPost divs st n1 c1 st1) (h2 : LeafPost divs st1 n2 c2 st2) : LeafPost divs st (n1 ++ n2) c2 st2 := by
  obtain ⟨de1, new1, rfl, p1, f1⟩ := h1
  obtain ⟨de2, new2, rfl, p2, f2⟩ := h2
  refine ⟨de2, new2 ++ new1, by simp, ?_, ?_⟩
  · intro r hr
    rcases List.mem_append.mp hr with h | h
    · exact p2 r h
    · exact p1 r h
  · intro m hm hk
    rcases List.mem_append.mp hm with h | h
    · obtain ⟨r, hr, hf⟩ := f1 m h hk
      exact ⟨r, by simp [hr], hf⟩
    · obtain ⟨r, hr, hf⟩ := f2 m h hk
      exact ⟨r, by simp [hr], hf⟩

theorem LeafPost_stack (divs : Nat) (st st' : Mei.St) (n : List MNote) (c : Nat) (h : LeafPost divs st n c st') :
    st'.stack = st.stack ∧ st'.chord = st.chord ∧ st'.cursor = (c : Rat) / (divs : Rat) := by
  obtain ⟨de, new, rfl, _, _⟩ := h
  exact ⟨rfl, rfl, rfl⟩

theorem leaves_spec (divs : Nat) (tup : Option (Nat × Nat)) (ks : List String) (ls : List Leaf) (cur cur' : Nat)
    (hok : leavesOk divs tup cur ls = some cur') (es : List (List Ev)) (hev : mapMOpt (leafEvs ks) ls = some es)
    (st : Mei.St) (hc : Ctx st tup) (hcur : st.cursor = (cur : Rat) / (divs : Rat)) :
    ∃ st', runEvs st es.flatten = some st' ∧ LeafPost divs st (ls.flatMap leafNotes) cur' st' := by
  induction ls generalizing cur es st with
  | nil =>
    simp [mapMOpt] at hev
    subst hev
    simp only [leavesOk, Option.some.injEq] at hok
    subst hok
    exact ⟨st, by simp [runEvs], LeafPost_refl divs st cur hcur⟩
  | cons l rest ih =>
    obtain ⟨e, es', rfl, he, hes⟩ := mapMOpt_cons _ l rest es hev
    simp only [leavesOk] at hok
    cases h1 : leafOk divs tup cur l with
    | none => simp [h1] at hok
    | some c1 =>
      simp only [h1] at hok
      obtain ⟨st1, r1, p1⟩ := leaf_spec divs tup ks l cur c1 h1 e he st hc hcur
      obtain ⟨s1, s2, s3⟩ := LeafPost_stack divs st st1 _ c1 p1
      obtain ⟨st2, r2, p2⟩ := ih c1 hok es' hes st1 (Ctx_of_eq st st1 tup hc s1 s2) s3
      refine ⟨st2, ?_, ?_⟩
      · simp only [List.flatten_cons]
        rw [runEvs_append, r1]
        exact r2
      · simp only [List.flatMap_cons]
        exact LeafPost_trans divs st st1 st2 _ _ c1 cur' p1 p2

theorem tupletsOf_push_tuplet (num numbase : Nat) (stack : List Frame) :
    tupletsOf ({ tag := "tuplet", attrs := [("num", natStr num), ("numbase", natStr numbase)] } :: stack) =
      (num, numbase) :: tupletsOf stack := by
  simp [tupletsOf, List.filterMap_cons, natAttr, attr, lookup, natStr, natOfString_showNat]

def itemNotes : Item → List MNote
  | .leaf l => leafNotes l
  | .tuplet _ _ inner => inner.flatMap leafNotes

theorem items_spec (divs : Nat) (ks : List String) (items : List Item) (cur cur' : Nat)
    (hok : itemsOk divs cur items = some cur') (es : List (List Ev)) (hev : mapMOpt (itemEvs ks) items = some es)
    (st : Mei.St) (hc : Ctx st none) (hcur : st.cursor = (cur : Rat) / (divs : Rat)) :
    ∃ st', runEvs st es.flatten = some st' ∧ LeafPost divs st (items.flatMap itemNotes) cur' st' := by
  induction items generalizing cur es st with
  | nil =>
    simp [mapMOpt] at hev
    subst hev
    simp only [itemsOk, Option.some.injEq] at hok
    subst hok
    exact ⟨st, by simp [runEvs], LeafPost_refl divs st cur hcur⟩
  | cons it rest ih =>
    obtain ⟨e, es', rfl, he, hes⟩ := mapMOpt_cons _ it rest es hev
    cases it with
    | leaf l =>
      simp only [itemsOk] at hok
      cases h1 : leafOk divs none cur l with
      | none => simp [h1] at hok
      | some c1 =>
        simp only [h1] at hok
        simp only [itemEvs] at he
        obtain ⟨st1, r1, p1⟩ := leaf_spec divs none ks l cur c1 h1 e he st hc hcur
        obtain ⟨s1, s2, s3⟩ := LeafPost_stack divs st st1 _ c1 p1
        obtain ⟨st2, r2, p2⟩ := ih c1 hok es' hes st1 (Ctx_of_eq st st1 none hc s1 s2) s3
        refine ⟨st2, ?_, ?_⟩
        · simp only [List.flatten_cons]
          rw [runEvs_append, r1]
          exact r2
        · simp only [List.flatMap_cons, itemNotes]
          exact LeafPost_trans divs st st1 st2 _ _ c1 cur' p1 p2
    | tuplet num numbase inner =>
      simp only [itemsOk] at hok
      split at hok
      · simp at hok
      · rename_i hnum
        cases h1 : leavesOk divs (some (num, numbase)) cur inner with
        | none => simp [h1] at hok
        | some c1 =>
          simp only [h1] at hok
          simp only [itemEvs, Option.map_eq_some_iff] at he
          obtain ⟨ies, hies, rfl⟩ := he
          -- open the tuplet
          let A : List (String × String) := [("num", natStr num), ("numbase", natStr numbase)]
          have hp : pre st "tuplet" A = some st :=
            pre_noDur st "tuplet" A (by simp [A, attr, lookup]) (by simp [A, natAttr, attr, lookup]) (by decide)
          have hopen := openEv_tuplet st A hp hc.inl (by simpa [tupList] using hc.tups)
          let stT : Mei.St := { st with stack := { tag := "tuplet", attrs := A } :: st.stack }
          have hcT : Ctx stT (some (num, numbase)) := by
            refine ⟨inLayer_push _ _ hc.inl, by simp [parentTag, stT], ?_, hc.ch, ?_⟩
            · have := hc.tups
              simp only [tupList] at this
              show tupletsOf ({ tag := "tuplet", attrs := A } :: st.stack) = _
              rw [tupletsOf_push_tuplet, this]
              rfl
            · intro a b hab
              simp only [Option.some.injEq, Prod.mk.injEq] at hab
              rw [← hab.1]; exact hnum
          obtain ⟨st1, r1, p1⟩ := leaves_spec divs (some (num, numbase)) ks inner cur c1 h1 ies hies stT hcT hcur
          obtain ⟨de, new, rfl, pp, ff⟩ := p1
          -- close it
          let st1' : Mei.St := { st with notes := new ++ st.notes, cursor := (c1 : Rat) / (divs : Rat), durEls := de }
          have p1' : LeafPost divs st (inner.flatMap leafNotes) c1 st1' := ⟨de, new, rfl, pp, ff⟩
          obtain ⟨st2, r2, p2⟩ := ih c1 hok es' hes st1' (Ctx_of_eq st st1' none hc rfl rfl) rfl
          refine ⟨st2, ?_, ?_⟩
          · simp only [List.flatten_cons, el, List.cons_append, runEvs, stepEv]
            rw [show openEv st "tuplet" [("num", natStr num), ("numbase", natStr numbase)] = _ from hopen]
            simp only []
            rw [List.append_assoc, runEvs_append, r1]
            simp only [Option.bind_some, List.cons_append, List.nil_append, runEvs, stepEv]
            rw [closeEv_plain _ { tag := "tuplet", attrs := A } st.stack rfl (by simp) (by simp) (by simp) (by simp) (by simp) (by simp)]
            exact r2
          · simp only [List.flatMap_cons, itemNotes]
            exact LeafPost_trans divs st st1' st2 _ _ c1 cur' p1' p2

/-! ## layers, staves, measures -/

theorem openEv_layer (st : Mei.St) (as : List (String × String))
    (hpre : pre st "layer" as = some st) (hpar : parentTag st = "staff") :
    openEv st "layer" as =
      some { st with voice := (natAttr as "n").getD (st.layerIdx + 1), cursor := st.pos,
                     stack := { tag := "layer", attrs := as } :: st.stack } := by
  simp only [pre] at hpre
  simp only [parentTag] at hpar
  simp [openEv, hpre, hpar]

theorem closeEv_layer (st : Mei.St) (f g : Frame) (rest : List Frame) (hs : st.stack = f :: g :: rest)
    (hf : f.tag = "layer") (hg : g.tag = "staff") :
    closeEv st = some { st with stack := g :: rest, layerEnds := st.cursor :: st.layerEnds, layerIdx := st.layerIdx + 1 } := by
  simp [closeEv, hs, hf, hg]

/-- inside a `staff` of a `measure`, between two layers: nothing open but structure -/
structure StaffCtx (st : Mei.St) : Prop where
  par : parentTag st = "staff"
  noLayer : inLayer st.stack = false
  noTup : tupletsOf st.stack = []
  ch : st.chord = none

theorem layer_spec (divs : Nat) (ks : List String) (l : Nat × Nat × List Item) (start e : Nat)
    (hok : itemsOk divs start l.2.2 = some e) (evs : List Ev) (hev : layerEvs ks l = some evs)
    (st : Mei.St) (hc : StaffCtx st) (hpos : st.pos = (start : Rat) / (divs : Rat)) :
    ∃ de new, runEvs st evs = some { st with notes := new ++ st.notes, cursor := (e : Rat) / (divs : Rat), voice := (l.2).1,
                                                  layerEnds := ((e : Rat) / (divs : Rat)) :: st.layerEnds, layerIdx := st.layerIdx + 1, durEls := de } ∧
      (∀ r ∈ new, r.part = st.staffIdx) ∧
      ∀ m ∈ l.2.2.flatMap itemNotes, m.n.kind ≠ 2 → ∃ r ∈ new, rfact r = factOf divs m := by
  simp only [layerEvs, Option.map_eq_some_iff] at hev
  obtain ⟨es, hes, rfl⟩ := hev
  let A : List (String × String) := [("n", natStr l.2.1)]
  have hp : pre st "layer" A = some st :=
    pre_noDur st "layer" A (by simp [A, attr, lookup]) (by simp [A, natAttr, attr, lookup]) (by decide)
  have hopen := openEv_layer st A hp hc.par
  have hn : (natAttr A "n").getD (st.layerIdx + 1) = l.2.1 := by
    simp [A, natAttr, attr, lookup, natStr, natOfString_showNat]
  rw [hn] at hopen
  let stL : Mei.St := { st with voice := (l.2).1, cursor := st.pos, stack := { tag := "layer", attrs := A } :: st.stack }
  have hcL : Ctx stL none := by
    refine ⟨by simp [stL, inLayer], by simp [parentTag, stL], ?_, hc.ch, by intro a b h; simp at h⟩
    show tupletsOf ({ tag := "layer", attrs := A } :: st.stack) = _
    rw [tupletsOf_push_other _ _ (by simp), hc.noTup]
    rfl
  obtain ⟨st1, r1, p1⟩ := items_spec divs ks l.2.2 start e hok es hes stL hcL hpos
  obtain ⟨de, new, rfl, pp, ff⟩ := p1
  obtain ⟨g, rest, hstack⟩ : ∃ g rest, st.stack = g :: rest ∧ g.tag = "staff" := by
    have := hc.par
    simp only [parentTag] at this
    cases hs : st.stack with
    | nil => simp [hs] at this
    | cons g rest => simp [hs] at this; exact ⟨g, rest, rfl, this⟩
  refine ⟨de, new, ?_, pp, ff⟩
  simp only [el, List.cons_append, runEvs, stepEv]
  rw [show openEv st "layer" [("n", natStr l.2.1)] = _ from hopen]
  simp only []
  rw [runEvs_append, r1]
  simp only [Option.bind_some, runEvs, stepEv]
  rw [closeEv_layer _ { tag := "layer", attrs := A } g rest (by simp [stL, hstack.1]) rfl hstack.2]
  simp [stL, hstack.1]

def q (divs : Nat) (t : Nat) : Rat := (t : Rat) / (divs : Rat)

theorem layers_spec (divs : Nat) (ks : List String) (ls : List (Nat × Nat × List Item)) (start : Nat) (ends : List Nat)
    (hok : mapMOpt (fun l => itemsOk divs start l.2.2) ls = some ends) (es : List (List Ev))
    (hev : mapMOpt (layerEvs ks) ls = some es)
    (st : Mei.St) (hc : StaffCtx st) (hpos : st.pos = (start : Rat) / (divs : Rat)) :
    ∃ de new c v, runEvs st es.flatten = some { st with notes := new ++ st.notes, cursor := c, voice := v,
                                                         layerEnds := (ends.map (q divs)).reverse ++ st.layerEnds,
                                                         layerIdx := st.layerIdx + ends.length, durEls := de } ∧
      (∀ r ∈ new, r.part = st.staffIdx) ∧
      ∀ l ∈ ls, ∀ m ∈ l.2.2.flatMap itemNotes, m.n.kind ≠ 2 → ∃ r ∈ new, rfact r = factOf divs m := by
  induction ls generalizing ends es st with
  | nil =>
    simp [mapMOpt] at hok hev
    subst hok; subst hev
    exact ⟨st.durEls, [], st.cursor, st.voice, by simp [runEvs], by simp, by simp⟩
  | cons l rest ih =>
    obtain ⟨e, ends', rfl, he, hends⟩ := mapMOpt_cons _ l rest ends hok
    obtain ⟨ev, es', rfl, hev1, hes⟩ := mapMOpt_cons _ l rest es hev
    obtain ⟨de1, new1, r1, p1, f1⟩ := layer_spec divs ks l start e he ev hev1 st hc hpos
    let st1 : Mei.St := { st with notes := new1 ++ st.notes, cursor := (e : Rat) / (divs : Rat), voice := (l.2).1,
                                   layerEnds := ((e : Rat) / (divs : Rat)) :: st.layerEnds, layerIdx := st.layerIdx + 1, durEls := de1 }
    have hc1 : StaffCtx st1 := ⟨hc.par, hc.noLayer, hc.noTup, hc.ch⟩
    obtain ⟨de2, new2, c, v, r2, p2, f2⟩ := ih ends' hends es' hes st1 hc1 hpos
    refine ⟨de2, new2 ++ new1, c, v, ?_, ?_, ?_⟩
    · simp only [List.flatten_cons]
      rw [runEvs_append, r1]
      simp only [Option.bind_some]
      rw [r2]
      simp [st1, q, Nat.add_assoc, Nat.add_comm 1]
    · intro r hr
      rcases List.mem_append.mp hr with h | h
      · exact p2 r h
      · exact p1 r h
    · intro x hx m hm hk
      rcases List.mem_cons.mp hx with rfl | hx
      · obtain ⟨r, hr, hf⟩ := f1 m hm hk
        exact ⟨r, by simp [hr], hf⟩
      · obtain ⟨r, hr, hf⟩ := f2 x hx m hm hk
        exact ⟨r, by simp [hr], hf⟩

theorem openEv_staff (st : Mei.St) (as : List (String × String))
    (hpre : pre st "staff" as = some st) (hpar : parentTag st = "measure") :
    openEv st "staff" as =
      some { st with staffN := (natAttr as "n").getD (st.staffIdx + 1), layerIdx := 0, layerEnds := [],
                     stack := { tag := "staff", attrs := as } :: st.stack } := by
  simp only [pre] at hpre
  simp only [parentTag] at hpar
  simp [openEv, hpre, hpar]

theorem closeEv_staff (st : Mei.St) (f g : Frame) (rest : List Frame) (hs : st.stack = f :: g :: rest)
    (hf : f.tag = "staff") (hg : g.tag = "measure") :
    closeEv st = some { st with stack := g :: rest,
                                measures := (st.staffIdx, st.measNo, st.measName, st.pos, ratMaxFrom st.pos st.layerEnds) :: st.measures,
                                staffEnds := ratMaxFrom st.pos st.layerEnds :: st.staffEnds, staffIdx := st.staffIdx + 1 } := by
  simp [closeEv, hs, hf, hg]

/-- inside a `measure`, between two staves -/
structure MeasCtx (st : Mei.St) : Prop where
  par : parentTag st = "measure"
  noLayer : inLayer st.stack = false
  noTup : tupletsOf st.stack = []
  ch : st.chord = none

theorem staff_spec (divs : Nat) (ks : List String) (layers : List (Nat × Nat × List Item)) (s : Nat) (start : Nat) (ends : List Nat)
    (hok : mapMOpt (fun l => itemsOk divs start l.2.2) (layers.filter fun l => l.1 = s) = some ends)
    (evs : List Ev) (hev : staffEvs ks layers s = some evs)
    (st : Mei.St) (hc : MeasCtx st) (hpos : st.pos = (start : Rat) / (divs : Rat)) :
    ∃ de new c v sn li le ms, runEvs st evs = some { st with notes := new ++ st.notes, cursor := c, voice := v, staffN := sn,
                                                                  layerIdx := li, layerEnds := le, measures := ms,
                                                                  staffEnds := ratMaxFrom st.pos ((ends.map (q divs)).reverse) :: st.staffEnds,
                                                                  staffIdx := st.staffIdx + 1, durEls := de } ∧
      (∀ r ∈ new, r.part = st.staffIdx) ∧
      ∀ l ∈ layers, l.1 = s → ∀ m ∈ l.2.2.flatMap itemNotes, m.n.kind ≠ 2 → ∃ r ∈ new, rfact r = factOf divs m := by
  simp only [staffEvs, Option.map_eq_some_iff] at hev
  obtain ⟨es, hes, rfl⟩ := hev
  let A : List (String × String) := [("n", natStr s)]
  have hp : pre st "staff" A = some st :=
    pre_noDur st "staff" A (by simp [A, attr, lookup]) (by simp [A, natAttr, attr, lookup]) (by decide)
  have hopen := openEv_staff st A hp hc.par
  let stS : Mei.St := { st with staffN := (natAttr A "n").getD (st.staffIdx + 1), layerIdx := 0, layerEnds := [],
                                 stack := { tag := "staff", attrs := A } :: st.stack }
  have hcS : StaffCtx stS := by
    refine ⟨by simp [parentTag, stS], ?_, ?_, hc.ch⟩
    · have := hc.noLayer
      simp only [inLayer, stS, List.any_cons] at this ⊢
      simp [this]
    · show tupletsOf ({ tag := "staff", attrs := A } :: st.stack) = _
      rw [tupletsOf_push_other _ _ (by simp), hc.noTup]
  obtain ⟨de, new, c, v, r1, p1, f1⟩ := layers_spec divs ks _ start ends hok es hes stS hcS hpos
  obtain ⟨g, rest, hstack, hg⟩ : ∃ g rest, st.stack = g :: rest ∧ g.tag = "measure" := by
    have := hc.par
    simp only [parentTag] at this
    cases hs : st.stack with
    | nil => simp [hs] at this
    | cons g rest => simp [hs] at this; exact ⟨g, rest, rfl, this⟩
  refine ⟨de, new, c, v, (natAttr A "n").getD (st.staffIdx + 1), 0 + ends.length, (ends.map (q divs)).reverse ++ [],
    (st.staffIdx, st.measNo, st.measName, st.pos, ratMaxFrom st.pos ((ends.map (q divs)).reverse ++ [])) :: st.measures, ?_, p1, ?_⟩
  · simp only [el, List.cons_append, runEvs, stepEv]
    rw [show openEv st "staff" [("n", natStr s)] = _ from hopen]
    simp only []
    rw [runEvs_append, r1]
    simp only [Option.bind_some, runEvs, stepEv]
    rw [closeEv_staff _ { tag := "staff", attrs := A } g rest (by simp [stS, hstack]) rfl hg]
    simp [stS, hstack]
  · intro l hl hs m hm hk
    exact f1 l (List.mem_filter.mpr ⟨hl, by simpa using hs⟩) m hm hk

/-! ### maxima -/

theorem foldl_max_ge_init (l : List Rat) (a : Rat) : a ≤ l.foldl (fun x y => if x < y then y else x) a := by
  induction l generalizing a with
  | nil => exact le_refl _
  | cons b rest ih =>
    simp only [List.foldl_cons]
    split
    · rename_i h; exact le_trans (le_of_lt h) (ih b)
    · exact ih a

theorem foldl_max_ge_mem (l : List Rat) (a x : Rat) (hx : x ∈ l) : x ≤ l.foldl (fun x y => if x < y then y else x) a := by
  induction l generalizing a with
  | nil => cases hx
  | cons b rest ih =>
    simp only [List.foldl_cons]
    rcases List.mem_cons.mp hx with rfl | hx
    · split
      · exact foldl_max_ge_init rest x
      · rename_i h; exact le_trans (not_lt.mp h) (foldl_max_ge_init rest a)
    · exact ih _ hx

theorem foldl_max_le (l : List Rat) (a B : Rat) (ha : a ≤ B) (hl : ∀ x ∈ l, x ≤ B) :
    l.foldl (fun x y => if x < y then y else x) a ≤ B := by
  induction l generalizing a with
  | nil => exact ha
  | cons b rest ih =>
    simp only [List.foldl_cons]
    split
    · exact ih b (hl b (by simp)) (fun x hx => hl x (by simp [hx]))
    · exact ih a ha (fun x hx => hl x (by simp [hx]))

theorem ratMaxFrom_le (d : Rat) (l : List Rat) (B : Rat) (hd : d ≤ B) (hl : ∀ x ∈ l, x ≤ B) : ratMaxFrom d l ≤ B := by
  cases l with
  | nil => exact hd
  | cons a rest => exact foldl_max_le rest a B (hl a (by simp)) (fun x hx => hl x (by simp [hx]))

theorem ratMaxFrom_ge_mem (d : Rat) (l : List Rat) (x : Rat) (hx : x ∈ l) : x ≤ ratMaxFrom d l := by
  cases l with
  | nil => cases hx
  | cons a rest =>
    rcases List.mem_cons.mp hx with rfl | hx
    · exact foldl_max_ge_init rest x
    · exact foldl_max_ge_mem rest a x hx

/-! ### the staves of a measure -/

theorem mapMOpt_mem {α β : Type} (f : α → Option β) (l : List α) (r : List β) (h : mapMOpt f l = some r) :
    (∀ a ∈ l, ∃ b ∈ r, f a = some b) ∧ (∀ b ∈ r, ∃ a ∈ l, f a = some b) := by
  induction l generalizing r with
  | nil => simp [mapMOpt] at h; subst h; simp
  | cons a rest ih =>
    obtain ⟨b, bs, rfl, hb, hbs⟩ := mapMOpt_cons f a rest r h
    obtain ⟨i1, i2⟩ := ih bs hbs
    constructor
    · intro x hx
      rcases List.mem_cons.mp hx with rfl | hx
      · exact ⟨b, by simp, hb⟩
      · obtain ⟨y, hy, hf⟩ := i1 x hx
        exact ⟨y, by simp [hy], hf⟩
    · intro y hy
      rcases List.mem_cons.mp hy with rfl | hy
      · exact ⟨a, by simp, hb⟩
      · obtain ⟨x, hx, hf⟩ := i2 y hy
        exact ⟨x, by simp [hx], hf⟩

theorem mapMOpt_filter {α β : Type} (f : α → Option β) (p : α → Bool) (l : List α) (r : List β) (h : mapMOpt f l = some r) :
    ∃ r', mapMOpt f (l.filter p) = some r' := by
  induction l generalizing r with
  | nil => exact ⟨[], rfl⟩
  | cons a rest ih =>
    obtain ⟨b, bs, rfl, hb, hbs⟩ := mapMOpt_cons f a rest r h
    obtain ⟨r', hr'⟩ := ih bs hbs
    simp only [List.filter_cons]
    split
    · exact ⟨b :: r', by simp [mapMOpt, hb, hr']⟩
    · exact ⟨r', hr'⟩

/-- the staff elements of a measure, one after the other -/
theorem staves_spec (divs : Nat) (ks : List String) (layers : List (Nat × Nat × List Item)) (start : Nat) (E : Rat)
    (allEnds : List Nat) (hok : mapMOpt (fun l => itemsOk divs start l.2.2) layers = some allEnds)
    (hle : ∀ e ∈ allEnds, q divs e ≤ E)
    (ss : List Nat) (es : List (List Ev)) (hev : mapMOpt (staffEvs ks layers) ss = some es)
    (st : Mei.St) (hc : MeasCtx st) (hpos : st.pos = (start : Rat) / (divs : Rat)) (hposE : st.pos ≤ E) :
    ∃ de new c v sn li le ms se, runEvs st es.flatten = some { st with notes := new ++ st.notes, cursor := c, voice := v,
                                                                        staffN := sn, layerIdx := li, layerEnds := le, measures := ms,
                                                                        staffEnds := se ++ st.staffEnds,
                                                                        staffIdx := st.staffIdx + ss.length, durEls := de } ∧
      (∀ r ∈ new, st.staffIdx ≤ r.part ∧ r.part < st.staffIdx + ss.length) ∧
      (∀ l ∈ layers, l.1 ∈ ss → ∀ m ∈ l.2.2.flatMap itemNotes, m.n.kind ≠ 2 → ∃ r ∈ new, rfact r = factOf divs m) ∧
      (∀ x ∈ se, x ≤ E) ∧ se.length = ss.length ∧
      (∀ l ∈ layers, l.1 ∈ ss → ∀ e, itemsOk divs start l.2.2 = some e → ∃ x ∈ se, q divs e ≤ x) := by
  induction ss generalizing es st with
  | nil =>
    simp [mapMOpt] at hev
    subst hev
    exact ⟨st.durEls, [], st.cursor, st.voice, st.staffN, st.layerIdx, st.layerEnds, st.measures, [],
      by simp [runEvs], by simp, by simp, by simp, rfl, by simp⟩
  | cons s rest ih =>
    obtain ⟨ev, es', rfl, hev1, hes⟩ := mapMOpt_cons _ s rest es hev
    obtain ⟨ends, hends⟩ := mapMOpt_filter _ (fun l => decide (l.1 = s)) layers allEnds hok
    obtain ⟨de1, new1, c1, v1, sn1, li1, le1, ms1, r1, p1, f1⟩ :=
      staff_spec divs ks layers s start ends hends ev hev1 st hc hpos
    -- the ends of this staff are ends of the measure
    have hsub : ∀ e ∈ ends, e ∈ allEnds := by
      intro e he
      obtain ⟨a, ha, hfa⟩ := (mapMOpt_mem _ _ _ hends).2 e he
      obtain ⟨b, hb, hfb⟩ := (mapMOpt_mem _ _ _ hok).1 a (List.mem_filter.mp ha).1
      rw [hfa] at hfb
      simp at hfb
      rw [hfb]; exact hb
    let e1 : Rat := ratMaxFrom st.pos ((ends.map (q divs)).reverse)
    have he1 : e1 ≤ E := ratMaxFrom_le _ _ _ hposE (by
      intro x hx
      simp only [List.mem_reverse, List.mem_map] at hx
      obtain ⟨e, he, rfl⟩ := hx
      exact hle e (hsub e he))
    let st1 : Mei.St := { st with notes := new1 ++ st.notes, cursor := c1, voice := v1, staffN := sn1,
                                   layerIdx := li1, layerEnds := le1, measures := ms1,
                                   staffEnds := e1 :: st.staffEnds, staffIdx := st.staffIdx + 1, durEls := de1 }
    have hc1 : MeasCtx st1 := ⟨hc.par, hc.noLayer, hc.noTup, hc.ch⟩
    obtain ⟨de2, new2, c2, v2, sn2, li2, le2, ms2, se2, r2, p2, f2, b2, len2, g2⟩ := ih es' hes st1 hc1 hpos hposE
    refine ⟨de2, new2 ++ new1, c2, v2, sn2, li2, le2, ms2, se2 ++ [e1], ?_, ?_, ?_, ?_, ?_, ?_⟩
    · simp only [List.flatten_cons]
      rw [runEvs_append, r1]
      simp only [Option.bind_some]
      rw [r2]
      simp [st1, Nat.add_assoc, Nat.add_comm 1]
    · intro r hr
      rcases List.mem_append.mp hr with h | h
      · have := p2 r h
        simp only [st1, List.length_cons] at this ⊢
        omega
      · have := p1 r h
        simp only [List.length_cons]
        omega
    · intro l hl hs m hm hk
      rcases List.mem_cons.mp hs with h | h
      · obtain ⟨r, hr, hf⟩ := f1 l hl h m hm hk
        exact ⟨r, by simp [hr], hf⟩
      · obtain ⟨r, hr, hf⟩ := f2 l hl h m hm hk
        exact ⟨r, by simp [hr], hf⟩
    · intro x hx
      rcases List.mem_append.mp hx with h | h
      · exact b2 x h
      · simp at h; rw [h]; exact he1
    · simp [len2]
    · intro l hl hs e he
      rcases List.mem_cons.mp hs with h | h
      · refine ⟨e1, by simp, ?_⟩
        have hmem : l ∈ layers.filter (fun l => decide (l.1 = s)) := List.mem_filter.mpr ⟨hl, by simpa using h⟩
        obtain ⟨b, hb, hfb⟩ := (mapMOpt_mem _ _ _ hends).1 l hmem
        rw [he] at hfb
        simp at hfb
        subst hfb
        exact ratMaxFrom_ge_mem _ _ _ (by simp only [List.mem_reverse, List.mem_map]; exact ⟨e, hb, rfl⟩)
      · obtain ⟨x, hx, hxe⟩ := g2 l hl h e he
        exact ⟨x, by simp [hx], hxe⟩

/-- every part has a meter of its own (written as a `meterSig` child of its `staffDef`) -/
def AllMeters (st : Mei.St) : Prop := ∀ d ∈ st.defs, ∃ m, d.meter = some m

theorem mapM_resolve (st : Mei.St) (ds : List PartDef) (h : ∀ d ∈ ds, ∃ m, d.meter = some m) :
    ∃ ms, ds.mapM (resolveMeter st) = some ms := by
  induction ds with
  | nil => exact ⟨[], rfl⟩
  | cons d rest ih =>
    obtain ⟨m, hm⟩ := h d (by simp)
    obtain ⟨ms, hms⟩ := ih (fun x hx => h x (by simp [hx]))
    exact ⟨m :: ms, by simp [List.mapM_cons, resolveMeter, hm, hms]⟩

theorem ensureStarted_ok (st : Mei.St) (h : AllMeters st) :
    ∃ M, ensureStarted st = some { st with meters := M, started := true } := by
  by_cases hs : st.started = true
  · refine ⟨st.meters, ?_⟩
    simp only [ensureStarted, hs, if_true]
    congr 1
    cases st
    simp_all
  · obtain ⟨ms, hms⟩ := mapM_resolve st (partsInOrder st) (by
      intro d hd
      exact h d (by simpa [partsInOrder] using hd))
    exact ⟨ms, by simp [ensureStarted, hs, hms]⟩

theorem openEv_measure (st : Mei.St) (as : List (String × String)) (M : List (Nat × Nat))
    (hpre : pre st "measure" as = some st) (hes : ensureStarted st = some { st with meters := M, started := true }) :
    openEv st "measure" as =
      some { st with meters := M, started := true, measName := attr as "n", staffIdx := 0, staffEnds := [],
                     stack := { tag := "measure", attrs := as } :: st.stack } := by
  simp only [pre] at hpre
  simp [openEv, hpre, hes]

theorem closeEv_measure (st : Mei.St) (f : Frame) (rest : List Frame) (hs : st.stack = f :: rest)
    (hf : f.tag = "measure") (hn : st.staffIdx = st.defs.length) :
    closeEv st = some { st with stack := rest, pos := ratMaxFrom st.pos st.staffEnds, measNo := st.measNo + 1 } := by
  simp [closeEv, hs, hf, hn]

/-- inside the `section`, between two measures -/
structure SecCtx (st : Mei.St) (nstaves : Nat) : Prop where
  noLayer : inLayer st.stack = false
  noTup : tupletsOf st.stack = []
  ch : st.chord = none
  defs : st.defs.length = nstaves
  meters : AllMeters st
  inSec : st.inSection = true

theorem itemsOk_ge (divs : Nat) (items : List Item) (cur e : Nat) (h : itemsOk divs cur items = some e) : cur ≤ e := by
  have leaf : ∀ tup c l c', leafOk divs tup c l = some c' → c ≤ c' := by
    intro tup c l c' hl
    cases l with
    | single m =>
      simp only [leafOk] at hl
      split at hl
      · simp only [Option.some.injEq] at hl
        split at hl <;> omega
      · simp at hl
    | chord ms =>
      simp only [leafOk] at hl
      split at hl
      · simp at hl
      · split at hl
        · simp only [Option.some.injEq] at hl; omega
        · simp at hl
  have leaves : ∀ tup ls c c', leavesOk divs tup c ls = some c' → c ≤ c' := by
    intro tup ls
    induction ls with
    | nil => intro c c' hl; simp [leavesOk] at hl; omega
    | cons l rest ih =>
      intro c c' hl
      simp only [leavesOk] at hl
      cases h1 : leafOk divs tup c l with
      | none => simp [h1] at hl
      | some c1 =>
        simp only [h1] at hl
        have := leaf tup c l c1 h1
        have := ih c1 c' hl
        omega
  induction items generalizing cur with
  | nil => simp [itemsOk] at h; omega
  | cons it rest ih =>
    cases it with
    | leaf l =>
      simp only [itemsOk] at h
      cases h1 : leafOk divs none cur l with
      | none => simp [h1] at h
      | some c1 =>
        simp only [h1] at h
        have := leaf none cur l c1 h1
        have := ih c1 h
        omega
    | tuplet num numbase inner =>
      simp only [itemsOk] at h
      split at h
      · simp at h
      · cases h1 : leavesOk divs (some (num, numbase)) cur inner with
        | none => simp [h1] at h
        | some c1 =>
          simp only [h1] at h
          have := leaves _ inner cur c1 h1
          have := ih c1 h
          omega

def stavesOf (nstaves : Nat) : List Nat := (List.range nstaves).map (· + 1)

theorem mem_stavesOf (nstaves s : Nat) : s ∈ stavesOf nstaves ↔ 1 ≤ s ∧ s ≤ nstaves := by
  simp only [stavesOf, List.mem_map, List.mem_range]
  constructor
  · rintro ⟨a, ha, rfl⟩; omega
  · rintro ⟨h1, h2⟩; exact ⟨s - 1, by omega, by omega⟩

/-- one measure: the state machine goes from the start of the measure to its end, and every written note of the
    measure is read at its place -/
theorem measure_spec (divs nstaves : Nat) (ks : List String) (m : MMeasure) (layers : List (Nat × Nat × List Item))
    (hfin : finalLayers nstaves m = some layers) (ends : List Nat)
    (hends : mapMOpt (fun l => itemsOk divs m.start l.2.2) layers = some ends)
    (hle : ∀ e ∈ ends, e ≤ m.end_) (hfill : m.end_ ∈ ends) (hlst : ∀ l ∈ layers, 1 ≤ l.1 ∧ l.1 ≤ nstaves) (hns : 0 < nstaves)
    (evs : List Ev) (hev : measureEvs ks nstaves m = some evs)
    (st : Mei.St) (hc : SecCtx st nstaves) (hpos : st.pos = (m.start : Rat) / (divs : Rat)) :
    ∃ st' new, runEvs st evs = some st' ∧ st'.notes = new ++ st.notes ∧ st'.stack = st.stack ∧
      st'.pos = (m.end_ : Rat) / (divs : Rat) ∧ SecCtx st' nstaves ∧
      st'.sdMeter = st.sdMeter ∧ st'.sdMeterChild = st.sdMeterChild ∧ st'.defs = st.defs ∧
      (∀ r ∈ new, r.part < nstaves) ∧
      ∀ l ∈ layers, ∀ x ∈ l.2.2.flatMap itemNotes, x.n.kind ≠ 2 → ∃ r ∈ new, rfact r = factOf divs x := by
  simp only [measureEvs, hfin, Option.map_eq_some_iff] at hev
  obtain ⟨es, hes, rfl⟩ := hev
  let A : List (String × String) := [("n", intStr m.number)]
  have hp : pre st "measure" A = some st :=
    pre_noDur st "measure" A (by simp [A, attr, lookup]) (by simp [A, natAttr, attr, lookup]) (by decide)
  obtain ⟨M, hM⟩ := ensureStarted_ok st hc.meters
  have hopen := openEv_measure st A M hp hM
  let stM : Mei.St := { st with meters := M, started := true, measName := attr A "n", staffIdx := 0, staffEnds := [],
                                 stack := { tag := "measure", attrs := A } :: st.stack }
  have hcM : MeasCtx stM := by
    refine ⟨by simp [parentTag, stM], ?_, ?_, hc.ch⟩
    · have := hc.noLayer
      simp only [inLayer, stM, List.any_cons] at this ⊢
      simp [this]
    · show tupletsOf ({ tag := "measure", attrs := A } :: st.stack) = _
      rw [tupletsOf_push_other _ _ (by simp), hc.noTup]
  let E : Rat := (m.end_ : Rat) / (divs : Rat)
  have hEle : ∀ e ∈ ends, q divs e ≤ E := by
    intro e he
    have := hle e he
    simp only [q, E]
    exact div_le_div_of_nonneg_right (by exact_mod_cast this) (by positivity)
  -- the measure is not empty in time: the layer that fills it starts at its start
  have hse : m.start ≤ m.end_ := by
    obtain ⟨l, _, hl⟩ := (mapMOpt_mem _ _ _ hends).2 m.end_ hfill
    exact itemsOk_ge divs l.2.2 m.start m.end_ hl
  have hposE : stM.pos ≤ E := by
    show st.pos ≤ E
    rw [hpos]
    exact div_le_div_of_nonneg_right (by exact_mod_cast hse) (by positivity)
  obtain ⟨de, new, c, v, sn, li, le, ms, se, r1, p1, f1, b1, len1, g1⟩ :=
    staves_spec divs ks layers m.start E ends hends hEle (stavesOf nstaves) es hes stM hcM hpos hposE
  -- the end of the measure
  have hlenS : (stavesOf nstaves).length = nstaves := by simp [stavesOf]
  have hpos' : ratMaxFrom st.pos (se ++ []) = E := by
    rw [List.append_nil]
    apply le_antisymm
    · exact ratMaxFrom_le _ _ _ hposE b1
    · obtain ⟨l, hl, hfl⟩ := (mapMOpt_mem _ _ _ hends).2 m.end_ hfill
      obtain ⟨x, hx, hxe⟩ := g1 l hl ((mem_stavesOf nstaves l.1).mpr (hlst l hl)) m.end_ hfl
      exact le_trans hxe (ratMaxFrom_ge_mem _ _ _ hx)
  let stF : Mei.St := { st with notes := new ++ st.notes, cursor := c, voice := v, staffN := sn, layerIdx := li, layerEnds := le,
                                 measures := ms, staffEnds := se ++ [], staffIdx := 0 + (stavesOf nstaves).length, durEls := de,
                                 meters := M, started := true, measName := attr A "n", pos := E, measNo := st.measNo + 1 }
  refine ⟨stF, new, ?_, rfl, rfl, rfl, ⟨hc.noLayer, hc.noTup, hc.ch, hc.defs, hc.meters, hc.inSec⟩, rfl, rfl, rfl, ?_, ?_⟩
  · simp only [el, List.cons_append, runEvs, stepEv]
    rw [show openEv st "measure" [("n", intStr m.number)] = _ from hopen]
    simp only []
    rw [runEvs_append, r1]
    simp only [Option.bind_some, runEvs, stepEv]
    rw [closeEv_measure _ { tag := "measure", attrs := A } st.stack rfl rfl (by simp [stM, hlenS, hc.defs])]
    simp only [stM, stF, Option.some.injEq]
    rw [← hpos']
  · intro r hr
    have := (p1 r hr).2
    simpa [stM, hlenS] using this
  · intro l hl x hx hk
    exact f1 l hl ((mem_stavesOf nstaves l.1).mpr (hlst l hl)) x hx hk

/-! ## every note of a measure is written -/

theorem mem_insertNat (a x : Nat) (l : List Nat) : x ∈ insertNat a l ↔ x = a ∨ x ∈ l := by
  induction l with
  | nil => simp [insertNat]
  | cons b rest ih =>
    simp only [insertNat]
    split
    · rename_i hab; subst hab; simp only [List.mem_cons]; tauto
    · split
      · simp only [List.mem_cons]
      · simp only [List.mem_cons, ih]; tauto

theorem mem_sortedUnique_aux (l acc : List Nat) (x : Nat) :
    x ∈ l.foldl (fun acc a => insertNat a acc) acc ↔ x ∈ acc ∨ x ∈ l := by
  induction l generalizing acc with
  | nil => simp
  | cons a rest ih =>
    simp only [List.foldl_cons, ih, mem_insertNat, List.mem_cons]
    tauto

theorem mem_sortedUnique (l : List Nat) (x : Nat) : x ∈ sortedUnique l ↔ x ∈ l := by
  simp [sortedUnique, mem_sortedUnique_aux]

theorem foldl_best_mem (cands : List Nat) (f : Nat → Nat → Nat) (hf : ∀ b s, f b s = b ∨ f b s = s) (init : Nat) :
    cands.foldl f init = init ∨ cands.foldl f init ∈ cands := by
  induction cands generalizing init with
  | nil => exact Or.inl rfl
  | cons c rest ih =>
    simp only [List.foldl_cons]
    rcases ih (f init c) with h | h
    · rcases hf init c with h' | h'
      · left; rw [h, h']
      · right; rw [h, h']; simp
    · right; exact List.mem_cons_of_mem _ h

/-- the staff in which a voice is written is a staff on which the voice has a note -/
theorem majorityStaff_mem (notes : List MNote) (x : MNote) (hx : x ∈ notes) :
    ∃ y ∈ notes, y.n.voice = x.n.voice ∧ y.n.staff = majorityStaff notes x.n.voice := by
  have hne : x.n.staff ∈ ((notes.filter fun m => m.n.voice = x.n.voice).map (·.n.staff)) :=
    List.mem_map.mpr ⟨x, List.mem_filter.mpr ⟨hx, by simp⟩, rfl⟩
  have hmem : majorityStaff notes x.n.voice ∈ ((notes.filter fun m => m.n.voice = x.n.voice).map (·.n.staff)) := by
    simp only [majorityStaff]
    cases hc : sortedUnique ((notes.filter fun m => m.n.voice = x.n.voice).map (·.n.staff)) with
    | nil =>
      have := (mem_sortedUnique _ _).mpr hne
      rw [hc] at this
      cases this
    | cons c0 rest =>
      have hsub : ∀ z ∈ c0 :: rest, z ∈ ((notes.filter fun m => m.n.voice = x.n.voice).map (·.n.staff)) := by
        intro z hz
        rw [← hc] at hz
        exact (mem_sortedUnique _ _).mp hz
      simp only [List.headD_cons]
      rcases foldl_best_mem (c0 :: rest)
        (fun best s =>
          if ((((notes.filter fun m => m.n.voice = x.n.voice).map (·.n.staff)).filter (· = s)).length >
              (((notes.filter fun m => m.n.voice = x.n.voice).map (·.n.staff)).filter (· = best)).length) then s else best)
        (by intro b s; split <;> simp) c0 with h | h
      · rw [h]; exact hsub c0 (by simp)
      · exact hsub _ h
  obtain ⟨y, hy, hys⟩ := List.mem_map.mp hmem
  have := List.mem_filter.mp hy
  exact ⟨y, this.1, by simpa using this.2, hys⟩

theorem mem_onsetLeaves (group : List MNote) (x : MNote) (hx : x ∈ group) :
    x ∈ (onsetLeaves group).flatMap leafNotes := by
  simp only [onsetLeaves, List.flatMap_append, List.mem_append]
  by_cases hk : x.n.kind = 1
  · left
    simp only [List.mem_flatMap, List.mem_map]
    exact ⟨Leaf.single x, ⟨x, List.mem_filter.mpr ⟨hx, by simp [hk]⟩, rfl⟩, by simp [leafNotes]⟩
  · right
    have hp : x ∈ group.filter fun m => m.n.kind ≠ 1 := List.mem_filter.mpr ⟨hx, by simp [hk]⟩
    cases hpl : group.filter fun m => m.n.kind ≠ 1 with
    | nil => rw [hpl] at hp; cases hp
    | cons a rest =>
      rw [hpl] at hp
      cases rest with
      | nil => simp at hp; subst hp; simp [leafNotes]
      | cons b rest' => simp [leafNotes]; simpa using hp

theorem mem_layerItems (notes : List MNote) (x : MNote) (hx : x ∈ notes) :
    x ∈ (layerItems notes x.n.voice).flatMap itemNotes := by
  simp only [layerItems, List.flatMap_map]
  have hvn : x ∈ notes.filter fun m => m.n.voice = x.n.voice := List.mem_filter.mpr ⟨hx, by simp⟩
  have ht : x.start ∈ sortedUnique ((notes.filter fun m => m.n.voice = x.n.voice).map (·.start)) :=
    (mem_sortedUnique _ _).mpr (List.mem_map.mpr ⟨x, hvn, rfl⟩)
  have hg := mem_onsetLeaves ((notes.filter fun m => m.n.voice = x.n.voice).filter fun m => m.start = x.start) x
    (List.mem_filter.mpr ⟨hvn, by simp⟩)
  simp only [List.mem_flatMap] at hg ⊢
  obtain ⟨l, hl, hxl⟩ := hg
  exact ⟨l, ⟨x.start, ht, hl⟩, by simpa [itemNotes] using hxl⟩

/-- the layers before the tuplets are wrapped: every note of the measure is in the layer of its voice, which is
    written on one of the staves -/
theorem measureLayers_cover (nstaves : Nat) (m : MMeasure) (hst : ∀ x ∈ m.notes, 1 ≤ x.n.staff ∧ x.n.staff ≤ nstaves)
    (x : MNote) (hx : x ∈ m.notes) :
    ∃ l ∈ measureLayers nstaves m, x ∈ l.2.2.flatMap itemNotes := by
  obtain ⟨y, hy, hyv, hys⟩ := majorityStaff_mem m.notes x hx
  refine ⟨(majorityStaff m.notes x.n.voice, x.n.voice, layerItems m.notes x.n.voice), ?_, mem_layerItems m.notes x hx⟩
  simp only [measureLayers, List.mem_map]
  refine ⟨(majorityStaff m.notes x.n.voice, x.n.voice), ?_, by simp⟩
  simp only [List.mem_flatMap]
  refine ⟨majorityStaff m.notes x.n.voice, ?_, ?_⟩
  · rw [← hys]
    have := hst y hy
    simp only [List.mem_map, List.mem_range]
    exact ⟨y.n.staff - 1, by omega, by omega⟩
  · have hin : (sortedUnique (m.notes.map (·.n.staff))).contains (majorityStaff m.notes x.n.voice) = true := by
      rw [List.contains_eq_mem]
      simp only [decide_eq_true_eq]
      rw [mem_sortedUnique, ← hys]
      exact List.mem_map.mpr ⟨y, hy, rfl⟩
    simp only [hin, if_true, List.mem_map]
    refine ⟨x.n.voice, ?_, rfl⟩
    rw [mem_sortedUnique]
    exact List.mem_map.mpr ⟨y, List.mem_filter.mpr ⟨hy, by simp [hys]⟩, hyv⟩

theorem measureLayers_staff (nstaves : Nat) (m : MMeasure) :
    ∀ l ∈ measureLayers nstaves m, 1 ≤ l.1 ∧ l.1 ≤ nstaves := by
  intro l hl
  simp only [measureLayers, List.mem_map, List.mem_flatMap, List.mem_range] at hl
  obtain ⟨sv, ⟨s, ⟨a, ha, rfl⟩, hsv⟩, rfl⟩ := hl
  split at hsv
  · simp only [List.mem_map] at hsv
    obtain ⟨v, _, rfl⟩ := hsv
    split <;> (simp only; omega)
  · cases hsv

theorem leavesOf_notes (items : List Item) (inner : List Leaf) (h : leavesOf items = some inner) :
    items.flatMap itemNotes = inner.flatMap leafNotes := by
  induction items generalizing inner with
  | nil => simp [leavesOf] at h; subst h; rfl
  | cons it rest ih =>
    cases it with
    | leaf l =>
      simp only [leavesOf, Option.map_eq_some_iff] at h
      obtain ⟨r, hr, rfl⟩ := h
      simp [itemNotes, ih r hr]
    | tuplet _ _ _ => simp [leavesOf] at h

theorem wrapItems_notes (items : List Item) (i j num nb : Nat) (hij : i ≤ j) (w : List Item)
    (h : wrapItems items i j num nb = some w) : w.flatMap itemNotes = items.flatMap itemNotes := by
  simp only [wrapItems, Option.map_eq_some_iff] at h
  obtain ⟨inner, hin, rfl⟩ := h
  have hsl := leavesOf_notes _ inner hin
  have hsplit : items = items.take i ++ ((items.drop i).take (j + 1 - i) ++ items.drop (j + 1)) := by
    have h1 : items.drop (j + 1) = (items.drop i).drop (j + 1 - i) := by
      rw [List.drop_drop]; congr 1; omega
    rw [h1, List.take_append_drop, List.take_append_drop]
  conv_rhs => rw [hsplit]
  simp only [List.flatMap_append, List.flatMap_cons, List.flatMap_nil, List.append_nil, itemNotes, hsl, List.append_assoc]

/-- wrapping the tuplets moves no note to another layer and loses none -/
theorem applyTuplet_cover (start end_ : Nat) (layers layers' : List (Nat × Nat × List Item)) (t : MTuplet)
    (h : applyTuplet start end_ layers t = some layers') :
    (∀ l' ∈ layers', ∃ l ∈ layers, l'.1 = l.1) ∧
    (∀ l ∈ layers, ∃ l' ∈ layers', l'.2.2.flatMap itemNotes = l.2.2.flatMap itemNotes) := by
  have hid : (∀ l' ∈ layers, ∃ l ∈ layers, l'.1 = l.1) ∧
      (∀ l ∈ layers, ∃ l' ∈ layers, l'.2.2.flatMap itemNotes = l.2.2.flatMap itemNotes) :=
    ⟨fun l hl => ⟨l, hl, rfl⟩, fun l hl => ⟨l, hl, rfl⟩⟩
  simp only [applyTuplet] at h
  split at h
  · simp at h; subst h; exact hid
  · split at h
    · simp at h; subst h; exact hid
    · split at h
      · simp at h; subst h; exact hid
      · split at h
        · simp at h
        · rename_i num numbase _
          split at h
          · simp at h
          · rename_i l0 hfind
            split at h
            · rename_i i j hi hj
              split at h
              · rename_i hij
                simp only [Option.map_eq_some_iff] at h
                obtain ⟨w, hw, rfl⟩ := h
                have hl0 : l0 ∈ layers := List.mem_of_find?_eq_some hfind
                have hnotes := wrapItems_notes l0.2.2 i j num numbase hij w hw
                constructor
                · intro l' hl'
                  simp only [List.mem_map] at hl'
                  obtain ⟨a, ha, rfl⟩ := hl'
                  split
                  · exact ⟨l0, hl0, rfl⟩
                  · exact ⟨a, ha, rfl⟩
                · intro l hl
                  by_cases he : l = l0
                  · exact ⟨(l0.1, l0.2.1, w), List.mem_map.mpr ⟨l, hl, by simp [he]⟩, by simp [he, hnotes]⟩
                  · exact ⟨l, List.mem_map.mpr ⟨l, hl, by simp [he]⟩, rfl⟩
              · simp at h
            · simp at h

theorem applyTuplets_cover (start end_ : Nat) (layers layers' : List (Nat × Nat × List Item)) (ts : List MTuplet)
    (h : applyTuplets start end_ layers ts = some layers') :
    (∀ l' ∈ layers', ∃ l ∈ layers, l'.1 = l.1) ∧
    (∀ l ∈ layers, ∃ l' ∈ layers', l'.2.2.flatMap itemNotes = l.2.2.flatMap itemNotes) := by
  induction ts generalizing layers with
  | nil => simp [applyTuplets] at h; subst h; exact ⟨fun l hl => ⟨l, hl, rfl⟩, fun l hl => ⟨l, hl, rfl⟩⟩
  | cons t rest ih =>
    simp only [applyTuplets] at h
    cases h1 : applyTuplet start end_ layers t with
    | none => simp [h1] at h
    | some l1 =>
      simp only [h1] at h
      obtain ⟨a1, a2⟩ := applyTuplet_cover start end_ layers l1 t h1
      obtain ⟨b1, b2⟩ := ih l1 h
      constructor
      · intro l' hl'
        obtain ⟨l, hl, e⟩ := b1 l' hl'
        obtain ⟨l0, hl0, e0⟩ := a1 l hl
        exact ⟨l0, hl0, e.trans e0⟩
      · intro l hl
        obtain ⟨l1', hl1', e1⟩ := a2 l hl
        obtain ⟨l2', hl2', e2⟩ := b2 l1' hl1'
        exact ⟨l2', hl2', e2.trans e1⟩

/-- every note of the measure is in one of the written layers, all of which are on the written staves -/
theorem finalLayers_cover (nstaves : Nat) (m : MMeasure) (layers : List (Nat × Nat × List Item))
    (h : finalLayers nstaves m = some layers) (hst : ∀ x ∈ m.notes, 1 ≤ x.n.staff ∧ x.n.staff ≤ nstaves) :
    (∀ l ∈ layers, 1 ≤ l.1 ∧ l.1 ≤ nstaves) ∧ ∀ x ∈ m.notes, ∃ l ∈ layers, x ∈ l.2.2.flatMap itemNotes := by
  simp only [finalLayers] at h
  split at h
  · simp at h
  · obtain ⟨a1, a2⟩ := applyTuplets_cover m.start m.end_ _ layers m.tuplets h
    constructor
    · intro l hl
      obtain ⟨l0, hl0, e⟩ := a1 l hl
      rw [e]; exact measureLayers_staff nstaves m l0 hl0
    · intro x hx
      obtain ⟨l0, hl0, hx0⟩ := measureLayers_cover nstaves m hst x hx
      obtain ⟨l', hl', e⟩ := a2 l0 hl0
      exact ⟨l', hl', by rw [e]; exact hx0⟩

/-! ## the measures of the section -/

theorem openEv_scoreDef_sec (st : Mei.St) (as : List (String × String))
    (hpre : pre st "scoreDef" as = some st) (hin : st.inSection = true) :
    openEv st "scoreDef" as = some { st with stack := { tag := "scoreDef", attrs := as } :: st.stack } := by
  simp only [pre] at hpre
  simp [openEv, hpre, hin]

theorem closeEv_scoreDef_sec (st : Mei.St) (as : List (String × String)) (rest : List Frame)
    (hs : st.stack = { tag := "scoreDef", attrs := as } :: rest) (hin : st.inSection = true) (stE : Mei.St)
    (hes : ensureStarted { st with stack := rest, inSection := true } = some stE)
    (h1 : meterOfAttrs as "meter.count" "meter.unit" = none) (h2 : keyOfAttrs as "key.sig" "key.mode" = none) :
    closeEv st = some stE := by
  simp [closeEv, hs, hin, hes, applySdChange, h1, h2]

theorem inSection_eta (st : Mei.St) (h : st.inSection = true) : ({ st with inSection := true } : Mei.St) = st := by
  cases st
  simp_all

/-- a `scoreDef` written for a key or meter change (with partitura's own attribute names): no effect on what is read -/
theorem sdChange_spec (nstaves : Nat) (as : List (String × String))
    (h0 : attr as "dur" = none) (h0' : natAttr as "meter.unit" = none)
    (h1 : meterOfAttrs as "meter.count" "meter.unit" = none) (h2 : keyOfAttrs as "key.sig" "key.mode" = none)
    (st : Mei.St) (hc : SecCtx st nstaves) :
    ∃ M, runEvs st (el "scoreDef" as []) = some { st with meters := M, started := true } := by
  have hp : pre st "scoreDef" as = some st := pre_noDur st "scoreDef" as h0 h0' (by decide)
  obtain ⟨M, hM⟩ := ensureStarted_ok st hc.meters
  refine ⟨M, ?_⟩
  simp only [el, List.nil_append, List.cons_append, runEvs, stepEv, openEv_scoreDef_sec st as hp hc.inSec]
  rw [closeEv_scoreDef_sec { st with stack := { tag := "scoreDef", attrs := as } :: st.stack } as st.stack rfl hc.inSec
    { st with meters := M, started := true } ?_ h1 h2]
  show ensureStarted ({ ({ st with inSection := true } : Mei.St) with stack := st.stack }) = _
  rw [inSection_eta st hc.inSec]
  exact hM

theorem SecCtx_started (st : Mei.St) (nstaves : Nat) (M : List (Nat × Nat)) (hc : SecCtx st nstaves) :
    SecCtx { st with meters := M, started := true } nstaves :=
  ⟨hc.noLayer, hc.noTup, hc.ch, hc.defs, hc.meters, hc.inSec⟩

/-- what stays the same between two measures, whatever else happens -/
structure Stable (st st' : Mei.St) : Prop where
  stack : st'.stack = st.stack
  sdMeter : st'.sdMeter = st.sdMeter
  sdMeterChild : st'.sdMeterChild = st.sdMeterChild
  defs : st'.defs = st.defs

theorem sdChanges_spec (nstaves : Nat) (ass : List (List (String × String)))
    (h : ∀ as ∈ ass, attr as "dur" = none ∧ natAttr as "meter.unit" = none ∧
      meterOfAttrs as "meter.count" "meter.unit" = none ∧ keyOfAttrs as "key.sig" "key.mode" = none)
    (st : Mei.St) (hc : SecCtx st nstaves) :
    ∃ st', runEvs st (ass.map fun as => el "scoreDef" as []).flatten = some st' ∧ SecCtx st' nstaves ∧ Stable st st' ∧
      st'.pos = st.pos ∧ st'.notes = st.notes := by
  induction ass generalizing st with
  | nil => exact ⟨st, by simp [runEvs], hc, ⟨rfl, rfl, rfl, rfl⟩, rfl, rfl⟩
  | cons as rest ih =>
    obtain ⟨h0, h0', h1, h2⟩ := h as (by simp)
    obtain ⟨M, hM⟩ := sdChange_spec nstaves as h0 h0' h1 h2 st hc
    obtain ⟨st', r, c, s, p, n⟩ := ih (fun x hx => h x (by simp [hx])) _ (SecCtx_started st nstaves M hc)
    refine ⟨st', ?_, c, ⟨s.stack, s.sdMeter, s.sdMeterChild, s.defs⟩, p, n⟩
    simp only [List.map_cons, List.flatten_cons]
    rw [runEvs_append, hM]
    exact r

theorem keyChange_attrs (k : KeySig) :
    attr [("mode", k.mode.getD "major"), ("sig", sigStr k.fifths), ("pname", k.pname)] "dur" = none ∧
    natAttr [("mode", k.mode.getD "major"), ("sig", sigStr k.fifths), ("pname", k.pname)] "meter.unit" = none ∧
    meterOfAttrs [("mode", k.mode.getD "major"), ("sig", sigStr k.fifths), ("pname", k.pname)] "meter.count" "meter.unit" = none ∧
    keyOfAttrs [("mode", k.mode.getD "major"), ("sig", sigStr k.fifths), ("pname", k.pname)] "key.sig" "key.mode" = none := by
  simp [attr, natAttr, meterOfAttrs, keyOfAttrs, lookup]

theorem meterChange_attrs (b u : Nat) :
    attr [("count", natStr b), ("unit", natStr u)] "dur" = none ∧
    natAttr [("count", natStr b), ("unit", natStr u)] "meter.unit" = none ∧
    meterOfAttrs [("count", natStr b), ("unit", natStr u)] "meter.count" "meter.unit" = none ∧
    keyOfAttrs [("count", natStr b), ("unit", natStr u)] "key.sig" "key.mode" = none := by
  simp [attr, natAttr, meterOfAttrs, keyOfAttrs, lookup]

theorem measures_spec (divs nstaves : Nat) (hns : 0 < nstaves) (ms : List MMeasure) (ks : List String) (t : Nat)
    (hchain : measuresChain t ms = true) (hok : ∀ m ∈ ms, measureOk divs nstaves m = true)
    (evs : List Ev) (hev : measuresEvs nstaves ks ms = some evs)
    (st : Mei.St) (hc : SecCtx st nstaves) (hpos : st.pos = (t : Rat) / (divs : Rat)) :
    ∃ st' new, runEvs st evs = some st' ∧ st'.notes = new ++ st.notes ∧ Stable st st' ∧ SecCtx st' nstaves ∧
      (∀ r ∈ new, r.part < nstaves) ∧
      ∀ m ∈ ms, ∀ x ∈ m.notes, x.n.kind ≠ 2 → ∃ r ∈ new, rfact r = factOf divs x := by
  induction ms generalizing ks t evs st with
  | nil =>
    simp [measuresEvs] at hev
    subst hev
    exact ⟨st, [], by simp [runEvs], by simp, ⟨rfl, rfl, rfl, rfl⟩, hc, by simp, by simp⟩
  | cons m rest ih =>
    simp only [measuresChain, Bool.and_eq_true, decide_eq_true_eq] at hchain
    obtain ⟨hstart, hchain'⟩ := hchain
    simp only [measuresEvs] at hev
    split at hev
    case h_2 => simp at hev
    case h_1 me more hme hmore =>
        simp only [Option.some.injEq] at hev
        subst hev
        -- the changes of key and meter written before the measure
        obtain ⟨st1, r1, c1, s1, p1, n1⟩ := sdChanges_spec nstaves
          ((m.keys.filter fun k => k.t ≠ 0).map fun k => [("mode", k.mode.getD "major"), ("sig", sigStr k.fifths), ("pname", k.pname)])
          (by intro as has; obtain ⟨k, _, rfl⟩ := List.mem_map.mp has; exact keyChange_attrs k) st hc
        obtain ⟨st2, r2, c2, s2, p2, n2⟩ := sdChanges_spec nstaves
          ((m.meters.filter fun x => x.1 ≠ 0).map fun x => [("count", natStr x.2.1), ("unit", natStr x.2.2)])
          (by intro as has; obtain ⟨x, _, rfl⟩ := List.mem_map.mp has; exact meterChange_attrs x.2.1 x.2.2) st1 c1
        -- the measure
        have hmok := hok m (by simp)
        simp only [measureOk] at hmok
        cases hfin : finalLayers nstaves m with
        | none => simp [hfin] at hmok
        | some layers =>
          simp only [hfin] at hmok
          cases hends : mapMOpt (fun l => itemsOk divs m.start l.2.2) layers with
          | none => simp [hends] at hmok
          | some ends =>
            simp only [hends, Bool.and_eq_true, List.all_eq_true, decide_eq_true_eq, List.contains_eq_mem] at hmok
            obtain ⟨⟨hle, hfill⟩, hnotes⟩ := hmok
            have hst : ∀ x ∈ m.notes, 1 ≤ x.n.staff ∧ x.n.staff ≤ nstaves := by
              intro x hx
              have := hnotes x hx
              exact ⟨this.1.1.1, this.1.1.2⟩
            obtain ⟨hlst, hcover⟩ := finalLayers_cover nstaves m layers hfin hst
            have hpos2 : st2.pos = (m.start : Rat) / (divs : Rat) := by rw [p2, p1, hpos, hstart]
            obtain ⟨st3, new3, r3, n3, k3, p3, c3, e1, e2, e3, b3, f3⟩ := measure_spec divs nstaves ks m layers hfin ends hends
              hle hfill hlst hns me hme st2 c2 hpos2
            obtain ⟨st4, new4, r4, n4, s4, c4, b4, f4⟩ := ih _ m.end_ hchain' (fun x hx => hok x (by simp [hx])) more hmore st3 c3 p3
            refine ⟨st4, new4 ++ new3, ?_, by rw [n4, n3, n2, n1]; simp, ?_, c4, ?_, ?_⟩
            · rw [runEvs_append, runEvs_append, runEvs_append]
              have e1' : ((m.keys.filter fun k => k.t ≠ 0).map keyChangeEvs) =
                  (((m.keys.filter fun k => k.t ≠ 0).map fun k =>
                    [("mode", k.mode.getD "major"), ("sig", sigStr k.fifths), ("pname", k.pname)]).map fun as => el "scoreDef" as []) := by
                rw [List.map_map]; rfl
              have e2' : ((m.meters.filter fun x => x.1 ≠ 0).map fun x => meterChangeEvs x.2.1 x.2.2) =
                  (((m.meters.filter fun x => x.1 ≠ 0).map fun x => [("count", natStr x.2.1), ("unit", natStr x.2.2)]).map
                    fun as => el "scoreDef" as []) := by
                rw [List.map_map]; rfl
              rw [e1', e2', r1]
              simp only [Option.bind_some]
              rw [r2]
              simp only [Option.bind_some]
              rw [r3]
              simp only [Option.bind_some]
              exact r4
            · exact ⟨by rw [s4.stack, k3, s2.stack, s1.stack], by rw [s4.sdMeter, e1, s2.sdMeter, s1.sdMeter],
                by rw [s4.sdMeterChild, e2, s2.sdMeterChild, s1.sdMeterChild], by rw [s4.defs, e3, s2.defs, s1.defs]⟩
            · intro r hr
              rcases List.mem_append.mp hr with h | h
              · exact b4 r h
              · exact b3 r h
            · intro x hx y hy hk
              rcases List.mem_cons.mp hx with rfl | hx
              · obtain ⟨l, hl, hyl⟩ := hcover y hy
                obtain ⟨r, hr, hf⟩ := f3 l hl y hyl hk
                exact ⟨r, by simp [hr], hf⟩
              · obtain ⟨r, hr, hf⟩ := f4 x hx y hy hk
                exact ⟨r, by simp [hr], hf⟩

/-! ## the header -/

def push (st : Mei.St) (tag : String) (as : List (String × String)) : Mei.St :=
  { st with stack := { tag := tag, attrs := as } :: st.stack }

theorem openEv_plain (st : Mei.St) (tag : String) (as : List (String × String))
    (hpre : pre st tag as = some st) (hnl : inLayer st.stack = false)
    (htag : tag ∈ ["mei", "meiHead", "fileDesc", "titleStmt", "title", "music", "body", "mdiv", "score", "staffGrp", "staffDef"]) :
    openEv st tag as = some (push st tag as) := by
  simp only [pre] at hpre
  simp only [List.mem_cons, List.not_mem_nil, or_false] at htag
  rcases htag with rfl | rfl | rfl | rfl | rfl | rfl | rfl | rfl | rfl | rfl | rfl <;>
    simp [openEv, hpre, hnl, push]

theorem openEv_scoreDef_head (st : Mei.St) (as : List (String × String))
    (hpre : pre st "scoreDef" as = some st) (hin : st.inSection = false) :
    openEv st "scoreDef" as =
      some (push { st with sdMeter := meterOfAttrs as "meter.count" "meter.unit", sdKey := keyOfAttrs as "key.sig" "key.mode" }
        "scoreDef" as) := by
  simp only [pre] at hpre
  simp [openEv, hpre, hin, push]

theorem openEv_section (st : Mei.St) (as : List (String × String)) (hpre : pre st "section" as = some st) :
    openEv st "section" as = some (push { st with inSection := true } "section" as) := by
  simp only [pre] at hpre
  simp [openEv, hpre, push]

theorem openEv_clef_def (st : Mei.St) (as : List (String × String)) (f : Frame) (rest : List Frame) (sh : String) (ln : Nat)
    (hpre : pre st "clef" as = some st) (hs : st.stack = f :: rest) (hf : f.tag = "staffDef")
    (h1 : attr as "sameas" = none) (h2 : attr as "shape" = some sh) (h3 : natAttr as "line" = some ln) :
    ∃ c, openEv st "clef" as = some (push { st with stack := { f with cClef := c } :: rest } "clef" as) := by
  simp only [pre] at hpre
  exact ⟨some ((natAttr f.attrs "n").getD 1, sh, ln, clefOctave as), by simp [openEv, hpre, hs, hf, h1, h2, h3, push, setTop]⟩

theorem openEv_keySig_def (st : Mei.St) (as : List (String × String)) (f : Frame) (rest : List Frame)
    (hpre : pre st "keySig" as = some st) (hs : st.stack = f :: rest) (hf : f.tag = "staffDef") :
    ∃ c, openEv st "keySig" as = some (push { st with stack := { f with cKey := c } :: rest } "keySig" as) := by
  simp only [pre] at hpre
  exact ⟨keyOfAttrs as "sig" "mode", by simp [openEv, hpre, hs, hf, push, setTop]⟩

theorem openEv_meterSig_def (st st1 : Mei.St) (as : List (String × String)) (f : Frame) (rest : List Frame)
    (hpre : pre st "meterSig" as = some st1) (hs : st1.stack = f :: rest) (hf : f.tag = "staffDef") :
    openEv st "meterSig" as =
      some (push { st1 with stack := { f with cMeter := meterOfAttrs as "count" "unit" } :: rest } "meterSig" as) := by
  simp only [pre] at hpre
  simp [openEv, hpre, hs, hf, push, setTop]

theorem closeEv_staffDef (st : Mei.St) (f : Frame) (rest : List Frame) (hs : st.stack = f :: rest) (hf : f.tag = "staffDef")
    (hin : st.inSection = false) (m : Nat × Nat) (hm : f.cMeter = some m) :
    ∃ d, closeEv st = some { st with stack := rest, defs := d :: st.defs } ∧ d.meter = some m := by
  simp only [closeEv, hs]
  have e1 : ¬ (f.tag = "scoreDef") := by rw [hf]; decide
  simp only [e1, if_false, hf, hin, Bool.not_false, Bool.and_self, if_true, decide_true]
  exact ⟨_, rfl, by simp [hm]⟩

theorem closeEv_scoreDef_head (st : Mei.St) (f : Frame) (rest : List Frame) (hs : st.stack = f :: rest) (hf : f.tag = "scoreDef")
    (hin : st.inSection = false) :
    closeEv st = some { st with stack := rest, sdMeterChild := f.cMeter, sdKeyChild := f.cKey } := by
  simp [closeEv, hs, hf, hin]

/-- a child element of a `staffDef` that sets one of its clef / key / meter fields -/
theorem defChild_spec (st : Mei.St) (rest : List Frame) (tag : String) (as : List (String × String))
    (f' : Frame) (st1 : Mei.St)
    (ho : openEv st tag as = some (push { st1 with stack := f' :: rest } tag as))
    (ht : tag ≠ "scoreDef" ∧ tag ≠ "staffDef" ∧ tag ≠ "layer" ∧ tag ≠ "staff" ∧ tag ≠ "measure" ∧ tag ≠ "chord") :
    runEvs st (el tag as []) = some { st1 with stack := f' :: rest } := by
  simp only [el, List.nil_append, List.cons_append, runEvs, stepEv, ho]
  rw [closeEv_plain (push { st1 with stack := f' :: rest } tag as) { tag := tag, attrs := as } (f' :: rest) rfl
    ht.1 ht.2.1 ht.2.2.1 ht.2.2.2.1 ht.2.2.2.2.1 ht.2.2.2.2.2]
  rfl

/-- what survives the header elements: the part definitions grow, nothing else that matters changes -/
structure HeadKeep (st st' : Mei.St) : Prop where
  stack : st'.stack = st.stack
  inSection : st'.inSection = st.inSection
  notes : st'.notes = st.notes
  pos : st'.pos = st.pos
  chord : st'.chord = st.chord
  sdMeter : st'.sdMeter = st.sdMeter

theorem HeadKeep.refl (st : Mei.St) : HeadKeep st st := ⟨rfl, rfl, rfl, rfl, rfl, rfl⟩

theorem HeadKeep.trans {a b c : Mei.St} (h1 : HeadKeep a b) (h2 : HeadKeep b c) : HeadKeep a c :=
  ⟨h2.stack.trans h1.stack, h2.inSection.trans h1.inSection, h2.notes.trans h1.notes, h2.pos.trans h1.pos,
   h2.chord.trans h1.chord, h2.sdMeter.trans h1.sdMeter⟩

theorem staffDef_spec (p : MPart) (s b u : Nat) (hm : p.meter0 = some (b, u))
    (st : Mei.St) (hin : st.inSection = false) (hnl : inLayer st.stack = false) :
    ∃ d st', runEvs st (staffDefEvs p s) = some st' ∧ st'.defs = d :: st.defs ∧ d.meter = some (b, u) ∧ HeadKeep st st' := by
  let A : List (String × String) := [("n", natStr s), ("lines", "5")]
  have hpA : pre st "staffDef" A = some st :=
    pre_noDur st "staffDef" A (by simp [A, attr, lookup]) (by simp [A, natAttr, attr, lookup]) (by decide)
  have hoA := openEv_plain st "staffDef" A hpA hnl (by simp)
  let f0 : Frame := { tag := "staffDef", attrs := A }
  let st1 : Mei.St := push st "staffDef" A
  have ht : ∀ t : String, t ∈ ["clef", "keySig", "meterSig"] →
      t ≠ "scoreDef" ∧ t ≠ "staffDef" ∧ t ≠ "layer" ∧ t ≠ "staff" ∧ t ≠ "measure" ∧ t ≠ "chord" := by decide
  have hclef : ∃ (shp lnS : String) (ln : Nat), natOfString lnS = some ln ∧
      staffDefEvs p s = el "staffDef" A (el "clef" [("shape", shp), ("line", lnS)] [] ++
        ((match p.key0 with
          | some k => el "keySig" [("mode", k.mode.getD "major"), ("sig", sigStr k.fifths), ("pname", k.pname)] []
          | none => []) ++
        el "meterSig" [("count", natStr b), ("unit", natStr u)] [])) := by
    cases hcl : (p.clefs0.filter fun c => c.1 = s).getLast? with
    | none =>
      refine ⟨"G", "2", 2, by decide, ?_⟩
      simp only [staffDefEvs, hcl, A, Option.map_none, Option.getD_none, hm]
      cases p.key0 <;> simp
    | some c =>
      refine ⟨c.2.1, natStr c.2.2, c.2.2, natOfString_showNat _, ?_⟩
      simp only [staffDefEvs, hcl, A, Option.map_some, Option.getD_some, hm]
      cases p.key0 <;> simp
  obtain ⟨shp, lnS, ln, hlnS, hevs⟩ := hclef
  -- the clef
  obtain ⟨c1, hc1⟩ := openEv_clef_def st1 [("shape", shp), ("line", lnS)] f0 st.stack shp ln
    (pre_noDur st1 "clef" _ (by simp [attr, lookup]) (by simp [natAttr, attr, lookup]) (by decide)) rfl rfl
    (by simp [attr, lookup]) (by simp [attr, lookup]) (by simp [natAttr, attr, lookup, hlnS])
  have r2 := defChild_spec st1 st.stack "clef" _ { f0 with cClef := c1 } st1 hc1 (ht "clef" (by simp))
  let st2 : Mei.St := { st1 with stack := { f0 with cClef := c1 } :: st.stack }
  -- the key signature
  obtain ⟨f2, hf2, r3⟩ : ∃ f2 : Frame, f2.tag = "staffDef" ∧ runEvs st2 (match p.key0 with
        | some k => el "keySig" [("mode", k.mode.getD "major"), ("sig", sigStr k.fifths), ("pname", k.pname)] []
        | none => []) = some { st1 with stack := f2 :: st.stack } := by
    cases p.key0 with
    | none => exact ⟨{ f0 with cClef := c1 }, rfl, by simp [runEvs, st2]⟩
    | some k =>
      obtain ⟨c, hc⟩ := openEv_keySig_def st2 [("mode", k.mode.getD "major"), ("sig", sigStr k.fifths), ("pname", k.pname)]
        { f0 with cClef := c1 } st.stack
        (pre_noDur st2 "keySig" _ (by simp [attr, lookup]) (by simp [natAttr, attr, lookup]) (by decide)) rfl rfl
      exact ⟨{ ({ f0 with cClef := c1 } : Frame) with cKey := c }, rfl,
        defChild_spec st2 st.stack "keySig" _ _ st2 hc (ht "keySig" (by simp))⟩
  let st3 : Mei.St := { st1 with stack := f2 :: st.stack }
  -- the meter
  have hpM : pre st3 "meterSig" [("count", natStr b), ("unit", natStr u)] = some { st3 with units := u :: st3.units } := by
    simp [pre, recordDurEl, recordUnits, natAttr, attr, lookup, natStr, natOfString_showNat]
  have hmo : meterOfAttrs [("count", natStr b), ("unit", natStr u)] "count" "unit" = some (b, u) := by
    simp [meterOfAttrs, natAttr, attr, lookup, natStr, natOfString_showNat]
  have r4 := defChild_spec st3 st.stack "meterSig" [("count", natStr b), ("unit", natStr u)]
    { f2 with cMeter := meterOfAttrs [("count", natStr b), ("unit", natStr u)] "count" "unit" }
    { st3 with units := u :: st3.units }
    (openEv_meterSig_def st3 _ _ f2 st.stack hpM rfl hf2) (ht "meterSig" (by simp))
  rw [hmo] at r4
  -- the end of the staffDef
  let st4 : Mei.St := { st1 with units := u :: st.units, stack := { f2 with cMeter := some (b, u) } :: st.stack }
  obtain ⟨d, hd, hdm⟩ := closeEv_staffDef st4 { f2 with cMeter := some (b, u) } st.stack rfl hf2 hin (b, u) rfl
  refine ⟨d, { st4 with stack := st.stack, defs := d :: st4.defs }, ?_, rfl, hdm, ⟨rfl, rfl, rfl, rfl, rfl, rfl⟩⟩
  have hchain : runEvs st1 (el "clef" [("shape", shp), ("line", lnS)] [] ++
      ((match p.key0 with
        | some k => el "keySig" [("mode", k.mode.getD "major"), ("sig", sigStr k.fifths), ("pname", k.pname)] []
        | none => []) ++ el "meterSig" [("count", natStr b), ("unit", natStr u)] [])) = some st4 := by
    rw [runEvs_append, r2]
    simp only [Option.bind_some]
    rw [runEvs_append, r3]
    simp only [Option.bind_some]
    rw [r4]
    rfl
  have houter : ∀ ch, el "staffDef" A ch = Ev.op "staffDef" A :: (ch ++ [Ev.cl]) := fun ch => rfl
  rw [hevs, houter]
  simp only [runEvs, stepEv]
  rw [hoA]
  simp only []
  rw [runEvs_append, hchain]
  simp only [Option.bind_some, runEvs, stepEv]
  rw [hd]

theorem staffDefs_spec (p : MPart) (b u : Nat) (hm : p.meter0 = some (b, u)) (ss : List Nat)
    (st : Mei.St) (hin : st.inSection = false) (hnl : inLayer st.stack = false) :
    ∃ ds st', runEvs st (ss.flatMap (staffDefEvs p)) = some st' ∧ st'.defs = ds ++ st.defs ∧ ds.length = ss.length ∧
      (∀ d ∈ ds, ∃ m, d.meter = some m) ∧ HeadKeep st st' := by
  induction ss generalizing st with
  | nil => exact ⟨[], st, by simp [runEvs], by simp, rfl, by simp, HeadKeep.refl st⟩
  | cons s rest ih =>
    obtain ⟨d, st1, r1, d1, m1, k1⟩ := staffDef_spec p s b u hm st hin hnl
    obtain ⟨ds, st2, r2, d2, l2, m2, k2⟩ := ih st1 (by rw [k1.inSection]; exact hin) (by rw [k1.stack]; exact hnl)
    refine ⟨ds ++ [d], st2, ?_, by rw [d2, d1]; simp, by simp [l2], ?_, k1.trans k2⟩
    · simp only [List.flatMap_cons]
      rw [runEvs_append, r1]
      exact r2
    · intro x hx
      rcases List.mem_append.mp hx with h | h
      · exact m2 x h
      · simp at h; subst h; exact ⟨_, m1⟩

/-- an element that only structures the header: after its children it is closed and forgotten -/
theorem plain_el (st : Mei.St) (tag : String) (as : List (String × String)) (children : List Ev) (st2 : Mei.St)
    (htag : tag ∈ ["mei", "meiHead", "fileDesc", "titleStmt", "title", "music", "body", "mdiv", "score", "staffGrp"])
    (h1 : attr as "dur" = none) (h2 : natAttr as "meter.unit" = none) (hnl : inLayer st.stack = false)
    (hrun : runEvs (push st tag as) children = some st2) (hstack : st2.stack = { tag := tag, attrs := as } :: st.stack) :
    runEvs st (el tag as children) = some { st2 with stack := st.stack } := by
  have hne : tag ≠ "meterSig" ∧ tag ≠ "scoreDef" ∧ tag ≠ "staffDef" ∧ tag ≠ "layer" ∧ tag ≠ "staff" ∧ tag ≠ "measure" ∧ tag ≠ "chord" := by
    simp only [List.mem_cons, List.not_mem_nil, or_false] at htag
    rcases htag with rfl | rfl | rfl | rfl | rfl | rfl | rfl | rfl | rfl | rfl <;> decide
  have hp : pre st tag as = some st := pre_noDur st tag as h1 h2 hne.1
  have ho := openEv_plain st tag as hp hnl (by
    simp only [List.mem_cons, List.not_mem_nil, or_false] at htag ⊢
    rcases htag with h | h | h | h | h | h | h | h | h | h <;> simp [h])
  simp only [el, List.cons_append, runEvs, stepEv, ho]
  rw [runEvs_append, hrun]
  simp only [Option.bind_some, runEvs, stepEv]
  rw [closeEv_plain st2 { tag := tag, attrs := as } st.stack hstack hne.2.1 hne.2.2.1 hne.2.2.2.1 hne.2.2.2.2.1
    hne.2.2.2.2.2.1 hne.2.2.2.2.2.2]

theorem inLayer_push_false (st : Mei.St) (tag : String) (as : List (String × String)) (h : inLayer st.stack = false)
    (ht : tag ≠ "layer") : inLayer (push st tag as).stack = false := by
  simp only [inLayer, push, List.any_cons] at h ⊢
  simp [h, ht]

/-! ## the whole document -/

/-- the `score` element: part definitions, then the section with the measures -/
theorem score_spec (p : MPart) (b u : Nat) (hm : p.meter0 = some (b, u)) (hns : 0 < p.nstaves)
    (hchain : measuresChain 0 p.measures = true) (hok : ∀ m ∈ p.measures, measureOk p.divs p.nstaves m = true)
    (ks : List String) (body : List Ev) (hbody : measuresEvs p.nstaves ks p.measures = some body)
    (st : Mei.St) (hin : st.inSection = false) (hnl : inLayer st.stack = false) (hnt : tupletsOf st.stack = [])
    (hch : st.chord = none) (hdefs : st.defs = []) (hpos : st.pos = 0) (hnotes : st.notes = []) :
    ∃ st' new, runEvs st (el "scoreDef" [] (el "staffGrp" [("bar.thru", "true")] ((stavesOf p.nstaves).flatMap (staffDefEvs p))) ++
        el "section" [] body) = some st' ∧ st'.stack = st.stack ∧ st'.notes = new ∧ st'.defs.length = p.nstaves ∧
      AllMeters st' ∧ (∀ r ∈ new, r.part < p.nstaves) ∧
      ∀ m ∈ p.measures, ∀ x ∈ m.notes, x.n.kind ≠ 2 → ∃ r ∈ new, rfact r = factOf p.divs x := by
  -- the scoreDef
  have hp5 : pre st "scoreDef" [] = some st := pre_noDur st "scoreDef" [] rfl rfl (by decide)
  have ho5 := openEv_scoreDef_head st [] hp5 hin
  let s5 : Mei.St := push { st with sdMeter := meterOfAttrs [] "meter.count" "meter.unit", sdKey := keyOfAttrs [] "key.sig" "key.mode" } "scoreDef" []
  have hnl5 : inLayer s5.stack = false := inLayer_push_false _ _ _ hnl (by decide)
  let sG : Mei.St := push s5 "staffGrp" [("bar.thru", "true")]
  have hnlG : inLayer sG.stack = false := inLayer_push_false _ _ _ hnl5 (by decide)
  obtain ⟨ds, sD, rD, dD, lD, mD, kD⟩ := staffDefs_spec p b u hm (stavesOf p.nstaves) sG hin hnlG
  have rG := plain_el s5 "staffGrp" [("bar.thru", "true")] _ sD (by simp) (by simp [attr, lookup]) (by simp [natAttr, attr, lookup])
    hnl5 rD kD.stack
  let sG' : Mei.St := { sD with stack := s5.stack }
  have hc5 := closeEv_scoreDef_head sG' { tag := "scoreDef", attrs := [] } st.stack rfl rfl (by show sD.inSection = false; rw [kD.inSection]; exact hin)
  let s6 : Mei.St := { sG' with stack := st.stack, sdMeterChild := none, sdKeyChild := none }
  -- the section
  have hp7 : pre s6 "section" [] = some s6 := pre_noDur s6 "section" [] rfl rfl (by decide)
  have ho7 := openEv_section s6 [] hp7
  let s7 : Mei.St := push { s6 with inSection := true } "section" []
  have hdefs6 : s6.defs = ds := by show sD.defs = ds; rw [dD]; show ds ++ st.defs = ds; rw [hdefs]; simp
  have hc7 : SecCtx s7 p.nstaves := by
    refine ⟨inLayer_push_false _ _ _ hnl (by decide), ?_, ?_, ?_, ?_, rfl⟩
    · show tupletsOf ({ tag := "section", attrs := [] } :: st.stack) = []
      rw [tupletsOf_push_other _ _ (by decide)]; exact hnt
    · show sD.chord = none; rw [kD.chord]; exact hch
    · show s6.defs.length = p.nstaves; rw [hdefs6, lD]; simp [stavesOf]
    · intro d hd
      have : d ∈ ds := by rw [← hdefs6]; exact hd
      exact mD d this
  have hpos7 : s7.pos = ((0 : Nat) : Rat) / (p.divs : Rat) := by
    show sD.pos = _; rw [kD.pos]; show st.pos = _; rw [hpos]; simp
  obtain ⟨s8, new, r8, n8, k8, c8, b8, f8⟩ := measures_spec p.divs p.nstaves hns p.measures ks 0 hchain hok body hbody s7 hc7 hpos7
  have hcl := closeEv_plain s8 { tag := "section", attrs := [] } st.stack (by rw [k8.stack]; rfl) (by decide) (by decide) (by decide)
    (by decide) (by decide) (by decide)
  refine ⟨{ s8 with stack := st.stack }, new, ?_, rfl, ?_, ?_, ?_, b8, f8⟩
  · rw [runEvs_append]
    have h1 : runEvs st (el "scoreDef" [] (el "staffGrp" [("bar.thru", "true")] ((stavesOf p.nstaves).flatMap (staffDefEvs p)))) = some s6 := by
      have houter : ∀ ch, el "scoreDef" [] ch = Ev.op "scoreDef" [] :: (ch ++ [Ev.cl]) := fun ch => rfl
      rw [houter]
      simp only [runEvs, stepEv]
      rw [ho5]
      simp only []
      rw [runEvs_append, rG]
      simp only [Option.bind_some, runEvs, stepEv]
      rw [hc5]
    rw [h1]
    simp only [Option.bind_some]
    have houter : ∀ ch, el "section" [] ch = Ev.op "section" [] :: (ch ++ [Ev.cl]) := fun ch => rfl
    rw [houter]
    simp only [runEvs, stepEv]
    rw [ho7]
    simp only []
    rw [runEvs_append, r8]
    simp only [Option.bind_some, runEvs, stepEv]
    rw [hcl]
  · show s8.notes = new
    rw [n8]
    show new ++ sD.notes = new
    rw [kD.notes]
    show new ++ st.notes = new
    rw [hnotes]; simp
  · show s8.defs.length = p.nstaves
    rw [k8.defs]
    exact hc7.defs
  · intro d hd
    have : d ∈ s7.defs := by rw [← k8.defs]; exact hd
    exact hc7.meters d this

/-! ## an exportable part is written -/

theorem mapMOpt_of_forall {α β : Type} (f : α → Option β) (l : List α) (h : ∀ a ∈ l, ∃ b, f a = some b) :
    ∃ r, mapMOpt f l = some r := by
  induction l with
  | nil => exact ⟨[], rfl⟩
  | cons a rest ih =>
    obtain ⟨b, hb⟩ := h a (by simp)
    obtain ⟨bs, hbs⟩ := ih (fun x hx => h x (by simp [hx]))
    exact ⟨b :: bs, by simp [mapMOpt, hb, hbs]⟩

theorem noteEl_some (divs : Nat) (tup : Option (Nat × Nat)) (ks : List String) (m : MNote) (h : noteOkM divs tup m = true) :
    ∃ r, noteEl ks m = some r := by
  obtain ⟨_, sd, q0, hsym, hq0, _, hpitch⟩ := noteOkM_unpack divs tup m h
  cases hd : meiDurOf sd.type with
  | none => simp [symQuarters, hd] at hq0
  | some d =>
    simp only [noteEl, hsym, hd]
    by_cases k2 : m.n.kind = 2
    · simp [k2]
    · simp only [k2, if_false]
      obtain ⟨_, _, halt⟩ := hpitch k2
      cases hal : m.n.alter with
      | none => simp
      | some a =>
        obtain ⟨acc, hacc⟩ := halt a hal
        simp only [hacc]
        split <;> simp

theorem leafEvs_some (divs : Nat) (tup : Option (Nat × Nat)) (ks : List String) (l : Leaf) (cur cur' : Nat)
    (h : leafOk divs tup cur l = some cur') : ∃ e, leafEvs ks l = some e := by
  cases l with
  | single m =>
    simp only [leafOk] at h
    split at h
    · rename_i hc
      simp only [Bool.and_eq_true] at hc
      obtain ⟨r, hr⟩ := noteEl_some divs tup ks m hc.1
      exact ⟨r.1, by simp [leafEvs, hr]⟩
    · simp at h
  | chord ms =>
    simp only [leafOk] at h
    cases hl : ms.getLast? with
    | none => simp [hl] at h
    | some last =>
      simp only [hl] at h
      split at h
      · rename_i hall
        obtain ⟨els, hels⟩ := mapMOpt_of_forall (noteEl ks) ms (by
          intro m hm
          have := List.all_eq_true.mp hall m hm
          simp only [Bool.and_eq_true] at this
          exact noteEl_some divs tup ks m this.1.1.1)
        exact Option.isSome_iff_exists.mp (by simp [leafEvs, hels, hl])
      · simp at h

theorem leaves_some (divs : Nat) (tup : Option (Nat × Nat)) (ks : List String) (ls : List Leaf) (cur cur' : Nat)
    (h : leavesOk divs tup cur ls = some cur') : ∃ es, mapMOpt (leafEvs ks) ls = some es := by
  induction ls generalizing cur with
  | nil => exact ⟨[], rfl⟩
  | cons l rest ih =>
    simp only [leavesOk] at h
    cases h1 : leafOk divs tup cur l with
    | none => simp [h1] at h
    | some c1 =>
      simp only [h1] at h
      obtain ⟨e, he⟩ := leafEvs_some divs tup ks l cur c1 h1
      obtain ⟨es, hes⟩ := ih c1 h
      exact ⟨e :: es, by simp [mapMOpt, he, hes]⟩

theorem items_some (divs : Nat) (ks : List String) (items : List Item) (cur cur' : Nat)
    (h : itemsOk divs cur items = some cur') : ∃ es, mapMOpt (itemEvs ks) items = some es := by
  induction items generalizing cur with
  | nil => exact ⟨[], rfl⟩
  | cons it rest ih =>
    cases it with
    | leaf l =>
      simp only [itemsOk] at h
      cases h1 : leafOk divs none cur l with
      | none => simp [h1] at h
      | some c1 =>
        simp only [h1] at h
        obtain ⟨e, he⟩ := leafEvs_some divs none ks l cur c1 h1
        obtain ⟨es, hes⟩ := ih c1 h
        exact ⟨e :: es, by simp [mapMOpt, itemEvs, he, hes]⟩
    | tuplet num numbase inner =>
      simp only [itemsOk] at h
      split at h
      · simp at h
      · cases h1 : leavesOk divs (some (num, numbase)) cur inner with
        | none => simp [h1] at h
        | some c1 =>
          simp only [h1] at h
          obtain ⟨ies, hies⟩ := leaves_some divs _ ks inner cur c1 h1
          obtain ⟨es, hes⟩ := ih c1 h
          exact Option.isSome_iff_exists.mp (by simp [mapMOpt, itemEvs, hies, hes])

theorem measureEvs_some (divs nstaves : Nat) (ks : List String) (m : MMeasure) (h : measureOk divs nstaves m = true) :
    ∃ e, measureEvs ks nstaves m = some e := by
  simp only [measureOk] at h
  cases hfin : finalLayers nstaves m with
  | none => simp [hfin] at h
  | some layers =>
    simp only [hfin] at h
    cases hends : mapMOpt (fun l => itemsOk divs m.start l.2.2) layers with
    | none => simp [hends] at h
    | some ends =>
      have hlayer : ∀ l ∈ layers, ∃ e, layerEvs ks l = some e := by
        intro l hl
        obtain ⟨e, _, he⟩ := (mapMOpt_mem _ _ _ hends).1 l hl
        obtain ⟨es, hes⟩ := items_some divs ks l.2.2 m.start e he
        exact Option.isSome_iff_exists.mp (by simp [layerEvs, hes])
      have hstaff : ∀ s ∈ (List.range nstaves).map (· + 1), ∃ e, staffEvs ks layers s = some e := by
        intro s _
        obtain ⟨es, hes⟩ := mapMOpt_of_forall (layerEvs ks) (layers.filter fun l => l.1 = s)
          (fun l hl => hlayer l (List.mem_filter.mp hl).1)
        exact Option.isSome_iff_exists.mp (by simp [staffEvs, hes])
      obtain ⟨es, hes⟩ := mapMOpt_of_forall _ _ hstaff
      exact Option.isSome_iff_exists.mp (by simp [measureEvs, hfin, hes])

theorem measuresEvs_some (divs nstaves : Nat) (ms : List MMeasure) (ks : List String)
    (h : ∀ m ∈ ms, measureOk divs nstaves m = true) : ∃ e, measuresEvs nstaves ks ms = some e := by
  induction ms generalizing ks with
  | nil => exact ⟨[], rfl⟩
  | cons m rest ih =>
    obtain ⟨me, hme⟩ := measureEvs_some divs nstaves ks m (h m (by simp))
    obtain ⟨more, hmore⟩ := ih ((m.keys.filter fun k => k.t ≠ 0).foldl (fun cur k => keyList cur k.fifths) ks)
      (fun x hx => h x (by simp [hx]))
    apply Option.isSome_iff_exists.mp
    simp only [measuresEvs, hme]
    simp only [ne_eq, decide_not] at hmore
    simp [hmore]

theorem mapM_some_of_forall {α β : Type} (f : α → Option β) (l : List α) (h : ∀ a ∈ l, ∃ b, f a = some b) :
    ∃ bs, l.mapM f = some bs ∧ ∀ a ∈ l, ∃ b ∈ bs, f a = some b := by
  induction l with
  | nil => exact ⟨[], rfl, by simp⟩
  | cons a rest ih =>
    obtain ⟨b, hb⟩ := h a (by simp)
    obtain ⟨bs, hbs, hm⟩ := ih (fun x hx => h x (by simp [hx]))
    refine ⟨b :: bs, by simp [List.mapM_cons, hb, hbs], ?_⟩
    intro x hx
    rcases List.mem_cons.mp hx with rfl | hx
    · exact ⟨b, by simp, hb⟩
    · obtain ⟨y, hy, hf⟩ := hm x hx
      exact ⟨y, by simp [hy], hf⟩

/-- the part of a definition holds every note that was read into it -/
theorem mkPart_mem (st : Mei.St) (i : Nat) (d : PartDef) (m : Nat × Nat) (hm : d.meter = some m) :
    ∃ P, mkPart st i d = some P ∧ ∀ r ∈ st.notes, r.part = i → ∃ x ∈ P.notes, factOfMeiNote x = rfact r := by
  have hres : resolveMeter st d = some m := by simp [resolveMeter, hm]
  obtain ⟨mb, mu⟩ := m
  simp only [mkPart, hres]
  refine ⟨_, rfl, ?_⟩
  intro r hr hp
  simp only [List.mem_mergeSort, List.mem_map, List.mem_filter, List.mem_reverse]
  exact ⟨_, ⟨r, ⟨hr, by simp [hp]⟩, rfl⟩, by simp [factOfMeiNote, rfact]⟩

theorem tupletsOf_nil : tupletsOf [] = [] := rfl

theorem plain_el_same (st : Mei.St) (tag : String) (as : List (String × String)) (children : List Ev)
    (htag : tag ∈ ["mei", "meiHead", "fileDesc", "titleStmt", "title", "music", "body", "mdiv", "score", "staffGrp"])
    (h1 : attr as "dur" = none) (h2 : natAttr as "meter.unit" = none) (hnl : inLayer st.stack = false)
    (hrun : runEvs (push st tag as) children = some (push st tag as)) :
    runEvs st (el tag as children) = some st := by
  rw [plain_el st tag as children (push st tag as) htag h1 h2 hnl hrun rfl]
  cases st
  rfl

/-- `export_import` (MEI), the state machine part: the written document runs through, and every note of the part is read -/
theorem doc_spec (p : MPart) (hexp : Exportable p = true) :
    ∃ evs stF, writeMei p = some evs ∧ runEvs {} evs = some stF ∧ stF.defs.length = p.nstaves ∧ AllMeters stF ∧
      (∀ r ∈ stF.notes, r.part < p.nstaves) ∧
      ∀ m ∈ p.measures, ∀ x ∈ m.notes, x.n.kind ≠ 2 → ∃ r ∈ stF.notes, rfact r = factOf p.divs x := by
  simp only [Exportable, Bool.and_eq_true, decide_eq_true_eq, List.all_eq_true] at hexp
  obtain ⟨⟨⟨⟨hdivs, hns⟩, hm0⟩, hchain⟩, hok⟩ := hexp
  obtain ⟨⟨b, u⟩, hm⟩ := Option.isSome_iff_exists.mp hm0
  -- the body exists: every measure is written
  obtain ⟨body, hbody⟩ := measuresEvs_some p.divs p.nstaves p.measures (initKeys p) (fun m hm => hok m hm)
  let H : List Ev := el "meiHead" [] (el "fileDesc" [] (el "titleStmt" [] (el "title" [] [])))
  let SC : List Ev := el "scoreDef" [] (el "staffGrp" [("bar.thru", "true")] ((stavesOf p.nstaves).flatMap (staffDefEvs p))) ++
    el "section" [] body
  have hw : writeMei p = some (el "mei" [("meiversion", "4.0.1")]
      (H ++ el "music" [] (el "body" [] (el "mdiv" [] (el "score" [] SC))))) := by
    simp only [writeMei, hbody, Option.map_some]
    rfl
  have hA : ∀ k, attr ([] : List (String × String)) k = none := fun _ => rfl
  have hN : ∀ k, natAttr ([] : List (String × String)) k = none := fun _ => rfl
  -- the states on the way in
  let s1 : Mei.St := push {} "mei" [("meiversion", "4.0.1")]
  have n1 : inLayer s1.stack = false := by decide
  -- the header of the file
  have rH : runEvs s1 H = some s1 := by
    have n2 : inLayer (push s1 "meiHead" []).stack = false := by decide
    have n3 : inLayer (push (push s1 "meiHead" []) "fileDesc" []).stack = false := by decide
    have n4 : inLayer (push (push (push s1 "meiHead" []) "fileDesc" []) "titleStmt" []).stack = false := by decide
    have r4 := plain_el_same (push (push (push s1 "meiHead" []) "fileDesc" []) "titleStmt" []) "title" [] [] (by simp) (hA _) (hN _) n4 rfl
    have r3 := plain_el_same (push (push s1 "meiHead" []) "fileDesc" []) "titleStmt" [] _ (by simp) (hA _) (hN _) n3 r4
    have r2 := plain_el_same (push s1 "meiHead" []) "fileDesc" [] _ (by simp) (hA _) (hN _) n2 r3
    exact plain_el_same s1 "meiHead" [] _ (by simp) (hA _) (hN _) n1 r2
  let s2 : Mei.St := push s1 "music" []
  let s3 : Mei.St := push s2 "body" []
  let s4 : Mei.St := push s3 "mdiv" []
  let s5 : Mei.St := push s4 "score" []
  have n2 : inLayer s2.stack = false := by decide
  have n3 : inLayer s3.stack = false := by decide
  have n4 : inLayer s4.stack = false := by decide
  have n5 : inLayer s5.stack = false := by decide
  obtain ⟨s6, new, r6, k6, e6, d6, m6, b6, f6⟩ := score_spec p b u hm hns hchain hok _ body hbody s5 rfl n5 (by decide) rfl rfl rfl rfl
  have r5 := plain_el s4 "score" [] SC s6 (by simp) (hA _) (hN _) n4 r6 k6
  have r4 := plain_el s3 "mdiv" [] (el "score" [] SC) { s6 with stack := s4.stack } (by simp) (hA _) (hN _) n3 r5 rfl
  have r3 := plain_el s2 "body" [] (el "mdiv" [] (el "score" [] SC)) { ({ s6 with stack := s4.stack } : Mei.St) with stack := s3.stack }
    (by simp) (hA _) (hN _) n2 r4 rfl
  have r2 := plain_el s1 "music" [] (el "body" [] (el "mdiv" [] (el "score" [] SC)))
    { ({ ({ s6 with stack := s4.stack } : Mei.St) with stack := s3.stack } : Mei.St) with stack := s2.stack }
    (by simp) (hA _) (hN _) n1 r3 rfl
  have rall : runEvs s1 (H ++ el "music" [] (el "body" [] (el "mdiv" [] (el "score" [] SC)))) = some
      { ({ ({ ({ s6 with stack := s4.stack } : Mei.St) with stack := s3.stack } : Mei.St) with stack := s2.stack } : Mei.St) with stack := s1.stack } := by
    rw [runEvs_append, rH]
    exact r2
  have r1 := plain_el {} "mei" [("meiversion", "4.0.1")] _ _ (by simp) (by simp [attr, lookup]) (by simp [natAttr, attr, lookup])
    (by decide) rall rfl
  refine ⟨_, _, hw, r1, d6, m6, ?_, ?_⟩
  · intro r hr
    exact b6 r (by rw [← e6]; exact hr)
  · intro m hm' x hx hk
    obtain ⟨r, hr, hf⟩ := f6 m hm' x hx hk
    exact ⟨r, by show r ∈ s6.notes; rw [e6]; exact hr, hf⟩

/-- **export_import (MEI).**  The document written for an exportable part denotes, among the notes of its
    parts, every note and grace note of the part with its onset and duration in quarters, spelling and staff. -/
theorem export_import_mei_aux (p : MPart) (h : Exportable p = true) :
    ∃ evs parts, writeMei p = some evs ∧ Mei.denote evs = some parts ∧
      ∀ f ∈ facts p, ∃ part ∈ parts, ∃ x ∈ part.notes, factOfMeiNote x = f := by
  obtain ⟨evs, stF, hw, hrun, hlen, hall, hpart, hfacts⟩ := doc_spec p h
  -- every definition yields a part
  obtain ⟨parts, hparts, hmem⟩ := mapM_some_of_forall (fun (di : PartDef × Nat) => mkPart stF di.2 di.1) (partsInOrder stF).zipIdx (by
    intro di hdi
    have hd : di.1 ∈ stF.defs := by
      have := List.mem_zipIdx_iff_getElem?.mp hdi
      have := List.mem_of_getElem? this
      simpa [partsInOrder] using this
    obtain ⟨m, hm⟩ := hall di.1 hd
    obtain ⟨P, hP, _⟩ := mkPart_mem stF di.2 di.1 m hm
    exact ⟨P, hP⟩)
  refine ⟨evs, parts, hw, ?_, ?_⟩
  · simp only [Mei.denote, hrun]
    exact hparts
  · intro f hf
    simp only [facts, List.mem_flatten, List.mem_map] at hf
    obtain ⟨l, ⟨m, hm, rfl⟩, hfl⟩ := hf
    simp only [List.mem_map, List.mem_filter] at hfl
    obtain ⟨x, ⟨hx, hk⟩, rfl⟩ := hfl
    obtain ⟨r, hr, hrf⟩ := hfacts m hm x hx (by simpa using hk)
    have hi : r.part < (partsInOrder stF).length := by simpa [partsInOrder, hlen] using hpart r hr
    have hdi : ((partsInOrder stF)[r.part], r.part) ∈ (partsInOrder stF).zipIdx :=
      List.mem_zipIdx_iff_getElem?.mpr (by simp [List.getElem?_eq_getElem hi])
    obtain ⟨P, hP, hfP⟩ := hmem _ hdi
    have hd : (partsInOrder stF)[r.part] ∈ stF.defs := by
      have := List.getElem_mem hi
      simpa [partsInOrder] using this
    obtain ⟨mm, hmm⟩ := hall _ hd
    obtain ⟨P', hP', hnotes⟩ := mkPart_mem stF r.part (partsInOrder stF)[r.part] mm hmm
    simp only at hfP
    rw [hP'] at hfP
    simp only [Option.some.injEq] at hfP
    subst hfP
    obtain ⟨y, hy, hyf⟩ := hnotes r hr rfl
    exact ⟨P', hP, y, hy, by rw [hyf, hrf]⟩

end C19M
