/-
C01 helper lemmas, part 6: the read-only queries on a good state.
-/
import PartituraModel.Proofs.C01Ops
import PartituraModel.Proofs.C01Classes

namespace TL

-- ------------------------------------------------------------------ following the links

theorem walk_none (pts : List Point) (link : Point → Option Int) (fuel : Nat) :
    walk pts link fuel none = .ok [] := by
  cases fuel <;> rfl

theorem sorted_pre_lt {l r : List Point} {p : Point} (hs : ((l ++ p :: r).map (·.t)).Pairwise (· < ·)) :
    ∀ a ∈ l, a.t < p.t := by
  intro a ha
  simp only [List.map_append, List.map_cons, List.pairwise_append] at hs
  exact hs.2.2 a.t (List.mem_map_of_mem ha) p.t (by simp)

theorem prev_of_links {l r : List Point} {p : Point} (hl : LinksFrom none (l ++ p :: r)) :
    p.prev = lastT l none := by
  rw [linksFrom_iff_seg, linksSeg_append] at hl
  exact hl.2.1

theorem next_of_links {l r : List Point} {p : Point} (hl : LinksFrom none (l ++ p :: r)) :
    p.next = headT r none := by
  rw [linksFrom_iff_seg, linksSeg_append] at hl
  have := hl.2.2.1
  cases r <;> simpa [headT] using this

theorem walk_prev (pts : List Point) (hs : (pts.map (·.t)).Pairwise (· < ·)) (hl : LinksFrom none pts)
    (fuel : Nat) : ∀ (l r : List Point) (p : Point), pts = l ++ p :: r → l.length < fuel →
      walk pts (·.prev) fuel (some p.t) = .ok (p :: l.reverse) := by
  induction fuel with
  | zero => intro l r p _ h; omega
  | succ fuel ih =>
    intro l r p hsplit hlen
    have hfind : findPoint pts p.t = some p := by
      rw [hsplit]
      exact findPoint_split l r p p.t (sorted_pre_lt (hsplit ▸ hs)) rfl
    have hprev : p.prev = lastT l none := prev_of_links (hsplit ▸ hl)
    simp only [walk, hfind, hprev]
    rcases List.eq_nil_or_concat l with rfl | ⟨l', a, rfl⟩
    · simp [lastT, walk_none, bind, Except.bind, pure, Except.pure]
    · simp only [List.concat_eq_append] at *
      rw [lastT_concat]
      have := ih l' (p :: r) a (by simp [hsplit]) (by simp at hlen; omega)
      simp [this, bind, Except.bind, pure, Except.pure]

theorem walk_next (pts : List Point) (hs : (pts.map (·.t)).Pairwise (· < ·)) (hl : LinksFrom none pts)
    (fuel : Nat) : ∀ (l r : List Point) (p : Point), pts = l ++ p :: r → r.length < fuel →
      walk pts (·.next) fuel (some p.t) = .ok (p :: r) := by
  induction fuel with
  | zero => intro l r p _ h; omega
  | succ fuel ih =>
    intro l r p hsplit hlen
    have hfind : findPoint pts p.t = some p := by
      rw [hsplit]
      exact findPoint_split l r p p.t (sorted_pre_lt (hsplit ▸ hs)) rfl
    have hnext : p.next = headT r none := next_of_links (hsplit ▸ hl)
    simp only [walk, hfind, hnext]
    cases r with
    | nil => simp [headT, walk_none, bind, Except.bind, pure, Except.pure]
    | cons b r' =>
      have := ih (l ++ [p]) r' b (by simp [hsplit]) (by simp at hlen; omega)
      simp [headT, this, bind, Except.bind, pure, Except.pure]

/-- `get_point` on a sorted timeline finds exactly the point with that time -/
theorem getPoint_of_split {l r : List Point} {p : Point}
    (hs : ((l ++ p :: r).map (·.t)).Pairwise (· < ·)) : getPoint (l ++ p :: r) p.t = some p := by
  rw [getPoint_split l (p :: r) p.t (sorted_pre_lt hs) (by simp)]
  simp

theorem getPoint_none_of_not_mem {pts : List Point} {t : Int} (h : t ∉ pts.map (·.t)) :
    getPoint pts t = none := by
  obtain ⟨pre, post, hsplit, h1, h2, -⟩ := searchsorted_split pts t
  rw [hsplit, getPoint_split pre post t h1 h2]
  cases post with
  | nil => rfl
  | cons b r =>
    have : b.t ≠ t := by
      intro hb
      apply h
      rw [hsplit]
      simp [← hb]
    simp [this]

theorem getPoint_some {pts : List Point} (hs : (pts.map (·.t)).Pairwise (· < ·)) {t : Int} {p : Point}
    (h : getPoint pts t = some p) : p ∈ pts ∧ p.t = t := by
  obtain ⟨pre, post, hsplit, h1, h2, -⟩ := searchsorted_split pts t
  rw [hsplit, getPoint_split pre post t h1 h2] at h
  cases post with
  | nil => simp at h
  | cons b r =>
    simp only [List.head?_cons, Option.bind_some] at h
    split at h
    · rename_i hb
      simp only [Option.some.injEq] at h
      subst h
      exact ⟨by rw [hsplit]; simp, hb⟩
    · cases h

/-- the points `iter_prev` visits: those before `t` (and the one at `t` if `eq`), latest first -/
def prevPoints (pts : List Point) (t : Int) (eq : Bool) : List Point :=
  (pts.filter (fun x => decide (x.t < t) || (eq && decide (x.t = t)))).reverse

/-- the points `iter_next` visits -/
def nextPoints (pts : List Point) (t : Int) (eq : Bool) : List Point :=
  pts.filter (fun x => decide (t < x.t) || (eq && decide (x.t = t)))

theorem filter_split_prev {l r : List Point} {p : Point}
    (hs : ((l ++ p :: r).map (·.t)).Pairwise (· < ·)) (eq : Bool) :
    (l ++ p :: r).filter (fun x => decide (x.t < p.t) || (eq && decide (x.t = p.t)))
      = l ++ (if eq then [p] else []) := by
  have h1 := sorted_pre_lt hs
  have h2 : ∀ x ∈ r, p.t < x.t := by
    intro x hx
    simp only [List.map_append, List.map_cons, List.pairwise_append, List.pairwise_cons] at hs
    exact hs.2.1.1 x.t (List.mem_map_of_mem hx)
  rw [List.filter_append, List.filter_cons]
  have e1 : l.filter (fun x => decide (x.t < p.t) || (eq && decide (x.t = p.t))) = l := by
    rw [List.filter_eq_self]
    intro a ha
    simp [h1 a ha]
  have e2 : r.filter (fun x => decide (x.t < p.t) || (eq && decide (x.t = p.t))) = [] := by
    rw [List.filter_eq_nil_iff]
    intro a ha
    have := h2 a ha
    have h3 : ¬ a.t < p.t := by omega
    have h4 : ¬ a.t = p.t := by omega
    simp [h3, h4]
  rw [e1, e2]
  cases eq <;> simp

theorem filter_split_next {l r : List Point} {p : Point}
    (hs : ((l ++ p :: r).map (·.t)).Pairwise (· < ·)) (eq : Bool) :
    (l ++ p :: r).filter (fun x => decide (p.t < x.t) || (eq && decide (x.t = p.t)))
      = (if eq then [p] else []) ++ r := by
  have h1 := sorted_pre_lt hs
  have h2 : ∀ x ∈ r, p.t < x.t := by
    intro x hx
    simp only [List.map_append, List.map_cons, List.pairwise_append, List.pairwise_cons] at hs
    exact hs.2.1.1 x.t (List.mem_map_of_mem hx)
  rw [List.filter_append, List.filter_cons]
  have e1 : l.filter (fun x => decide (p.t < x.t) || (eq && decide (x.t = p.t))) = [] := by
    rw [List.filter_eq_nil_iff]
    intro a ha
    have := h1 a ha
    have h3 : ¬ p.t < a.t := by omega
    have h4 : ¬ a.t = p.t := by omega
    simp [h3, h4]
  have e2 : r.filter (fun x => decide (p.t < x.t) || (eq && decide (x.t = p.t))) = r := by
    rw [List.filter_eq_self]
    intro a ha
    simp [h2 a ha]
  rw [e1, e2]
  cases eq <;> simp

theorem iterPrev_spec' {s : Part} (hs0 : s.times.Pairwise (· < ·)) (hl0 : LinksFrom none s.points) {t : Int} (ht : 0 ≤ t) (cls : Option Nat) (eq incl : Bool) :
    iterLinks s (·.prev) t cls eq incl
      = .ok (if t ∈ s.times then
          .objs ((prevPoints s.points t eq).flatMap fun p => iterReg p.starting cls incl)
        else .noPoint) := by
  have hneg : ¬ t < 0 := by omega
  unfold iterLinks
  simp only [hneg, if_false]
  by_cases hmem : t ∈ s.times
  · obtain ⟨l, p, r, hsplit, hpt, -, -⟩ := split_at_time hs0 hmem
    subst hpt
    have hs := hs0
    rw [Part.times, hsplit] at hs
    have hgp : getPoint s.points p.t = some p := by rw [hsplit]; exact getPoint_of_split hs
    simp only [hgp, hmem, if_true]
    have hw : walk s.points (·.prev) (s.points.length + 1) (if eq then some p.t else p.prev)
        = .ok ((if eq then [p] else []) ++ l.reverse) := by
      cases eq with
      | true =>
        simp only [if_true]
        exact walk_prev s.points hs0 hl0 _ l r p hsplit (by rw [hsplit]; simp; omega)
      | false =>
        simp only [Bool.false_eq_true, if_false, List.nil_append]
        rw [prev_of_links (hsplit ▸ hl0)]
        rcases List.eq_nil_or_concat l with rfl | ⟨l', a, rfl⟩
        · simp [lastT, walk_none]
        · simp only [List.concat_eq_append] at *
          rw [lastT_concat]
          have := walk_prev s.points hs0 hl0 (s.points.length + 1) l' (p :: r) a (by simp [hsplit])
            (by rw [hsplit]; simp; omega)
          simpa using this
    rw [hw]
    simp only [bind, Except.bind, pure, Except.pure, prevPoints]
    rw [hsplit, filter_split_prev hs eq]
    cases eq <;> simp
  · have : getPoint s.points t = none := getPoint_none_of_not_mem hmem
    simp [this, hmem, pure, Except.pure]

theorem iterNext_spec' {s : Part} (hs0 : s.times.Pairwise (· < ·)) (hl0 : LinksFrom none s.points) {t : Int} (ht : 0 ≤ t) (cls : Option Nat) (eq incl : Bool) :
    iterLinks s (·.next) t cls eq incl
      = .ok (if t ∈ s.times then
          .objs ((nextPoints s.points t eq).flatMap fun p => iterReg p.starting cls incl)
        else .noPoint) := by
  have hneg : ¬ t < 0 := by omega
  unfold iterLinks
  simp only [hneg, if_false]
  by_cases hmem : t ∈ s.times
  · obtain ⟨l, p, r, hsplit, hpt, -, -⟩ := split_at_time hs0 hmem
    subst hpt
    have hs := hs0
    rw [Part.times, hsplit] at hs
    have hgp : getPoint s.points p.t = some p := by rw [hsplit]; exact getPoint_of_split hs
    simp only [hgp, hmem, if_true]
    have hw : walk s.points (·.next) (s.points.length + 1) (if eq then some p.t else p.next)
        = .ok ((if eq then [p] else []) ++ r) := by
      cases eq with
      | true =>
        simp only [if_true]
        exact walk_next s.points hs0 hl0 _ l r p hsplit (by rw [hsplit]; simp; omega)
      | false =>
        simp only [Bool.false_eq_true, if_false, List.nil_append]
        rw [next_of_links (hsplit ▸ hl0)]
        cases r with
        | nil => simp [headT, walk_none]
        | cons b r' =>
          have := walk_next s.points hs0 hl0 (s.points.length + 1) (l ++ [p]) r' b (by simp [hsplit])
            (by rw [hsplit]; simp; omega)
          simpa [headT] using this
    rw [hw]
    simp only [bind, Except.bind, pure, Except.pure, nextPoints]
    rw [hsplit, filter_split_next hs eq]
  · have : getPoint s.points t = none := getPoint_none_of_not_mem hmem
    simp [this, hmem, pure, Except.pure]

theorem iterPrev_spec {s : Part} (h : Good s) {t : Int} (ht : 0 ≤ t) (cls : Option Nat) (eq incl : Bool) :
    iterLinks s (·.prev) t cls eq incl
      = .ok (if t ∈ s.times then
          .objs ((prevPoints s.points t eq).flatMap fun p => iterReg p.starting cls incl)
        else .noPoint) := iterPrev_spec' h.1.sorted h.2 ht cls eq incl

theorem iterNext_spec {s : Part} (h : Good s) {t : Int} (ht : 0 ≤ t) (cls : Option Nat) (eq incl : Bool) :
    iterLinks s (·.next) t cls eq incl
      = .ok (if t ∈ s.times then
          .objs ((nextPoints s.points t eq).flatMap fun p => iterReg p.starting cls incl)
        else .noPoint) := iterNext_spec' h.1.sorted h.2 ht cls eq incl

-- ------------------------------------------------------------------ iter_all: the index slice is a time range

/-- number of leading elements satisfying `A` -/
def prefixLen (A : Int → Bool) : List Int → Nat
  | [] => 0
  | x :: xs => if A x then prefixLen A xs + 1 else 0

theorem searchsorted_eq_prefixLen (ts : List Int) (a : Int) :
    searchsorted ts a = prefixLen (fun x => decide (x < a)) ts := by
  induction ts with
  | nil => rfl
  | cons x xs ih => simp [searchsorted, prefixLen, ih]

theorem prefixLen_true (ts : List Int) : prefixLen (fun _ => true) ts = ts.length := by
  induction ts with
  | nil => rfl
  | cons x xs ih => simp [prefixLen, ih]

theorem prefixLen_false (ts : List Int) : prefixLen (fun _ => false) ts = 0 := by
  cases ts <;> simp [prefixLen]

theorem prefixLen_zero_of_head {A : Int → Bool} {ts : List Int} (h : ∀ x ∈ ts.head?, A x = false) :
    prefixLen A ts = 0 := by
  cases ts with
  | nil => rfl
  | cons x xs => simp [prefixLen, h x (by simp)]

/-- `pts[si:ei]` for downward-closed cut predicates on a sorted list -/
theorem slice_eq_filter (A B : Int → Bool) (hA : ∀ x y, x < y → A y = true → A x = true)
    (hB : ∀ x y, x < y → B y = true → B x = true) (pts : List Point)
    (hs : (pts.map (·.t)).Pairwise (· < ·)) :
    (pts.drop (prefixLen A (pts.map (·.t)))).take
        (prefixLen B (pts.map (·.t)) - prefixLen A (pts.map (·.t)))
      = pts.filter (fun p => !A p.t && B p.t) := by
  induction pts with
  | nil => simp [prefixLen]
  | cons p ps ih =>
    simp only [List.map_cons, List.pairwise_cons] at hs
    have ih' := ih hs.2
    have hrestA : A p.t = false → prefixLen A (ps.map (·.t)) = 0 := by
      intro hAp
      apply prefixLen_zero_of_head
      intro x hx
      have hlt := hs.1 x (List.mem_of_mem_head? hx)
      cases hAx : A x with
      | false => rfl
      | true => have := hA p.t x hlt hAx; simp [this] at hAp
    have hrestB : B p.t = false → prefixLen B (ps.map (·.t)) = 0 := by
      intro hBp
      apply prefixLen_zero_of_head
      intro x hx
      have hlt := hs.1 x (List.mem_of_mem_head? hx)
      cases hBx : B x with
      | false => rfl
      | true => have := hB p.t x hlt hBx; simp [this] at hBp
    cases hAp : A p.t with
    | true =>
      cases hBp : B p.t with
      | true =>
        simp only [List.map_cons, prefixLen, hAp, hBp, if_true, List.drop_succ_cons, Nat.add_sub_add_right,
          List.filter_cons, Bool.not_true, Bool.false_and, Bool.false_eq_true, if_false]
        exact ih'
      | false =>
        have h0 := hrestB hBp
        rw [h0] at ih'
        simp only [List.map_cons, prefixLen, hAp, hBp, if_true, Bool.false_eq_true, if_false,
          List.drop_succ_cons, Nat.zero_sub, List.take_zero, List.filter_cons, Bool.not_true, Bool.false_and]
        simpa using ih'
    | false =>
      have h0 := hrestA hAp
      rw [h0] at ih'
      cases hBp : B p.t with
      | true =>
        simp only [List.map_cons, prefixLen, hAp, hBp, if_true, Bool.false_eq_true, if_false, List.drop_zero,
          Nat.sub_zero, List.take_succ_cons, List.filter_cons, Bool.not_false, Bool.true_and]
        simpa using ih'
      | false =>
        have h1 := hrestB hBp
        rw [h1] at ih'
        simp only [List.map_cons, prefixLen, hAp, hBp, Bool.false_eq_true, if_false, List.drop_zero,
          Nat.sub_zero, List.take_zero, List.filter_cons, Bool.not_false, Bool.true_and]
        simpa using ih'

def geOpt (a : Option Int) (x : Int) : Bool :=
  match a with
  | none => true
  | some v => decide (v ≤ x)

def ltOptB (x : Int) (b : Option Int) : Bool :=
  match b with
  | none => true
  | some v => decide (x < v)

/-- the points `iter_all(start=a, end=b)` visits on a good timeline -/
def rangePoints (pts : List Point) (a b : Option Int) : List Point :=
  pts.filter (fun p => geOpt a p.t && ltOptB p.t b)

theorem slice_opt (pts : List Point) (hs : (pts.map (·.t)).Pairwise (· < ·)) (a b : Option Int) :
    (pts.drop (startIdx pts a)).take (endIdx pts b - startIdx pts a) = rangePoints pts a b := by
  have key := slice_eq_filter (fun x => !geOpt a x) (fun x => ltOptB x b) ?_ ?_ pts hs
  · have e1 : startIdx pts a = prefixLen (fun x => !geOpt a x) (pts.map (·.t)) := by
      cases a with
      | none => simp [startIdx, geOpt, prefixLen_false]
      | some v =>
        simp only [startIdx, geOpt, searchsorted_eq_prefixLen]
        congr 1
        funext x
        by_cases h : x < v
        · have : ¬ v ≤ x := by omega
          simp [h, this]
        · have : v ≤ x := by omega
          simp [h, this]
    have e2 : endIdx pts b = prefixLen (fun x => ltOptB x b) (pts.map (·.t)) := by
      cases b with
      | none => simp [endIdx, ltOptB, prefixLen_true]
      | some v => simp only [endIdx, ltOptB, searchsorted_eq_prefixLen]
    rw [e1, e2, key]
    simp [rangePoints]
  · intro x y hxy hy
    cases a with
    | none => simp [geOpt] at hy
    | some v => simp [geOpt] at hy ⊢; omega
  · intro x y hxy hy
    cases b with
    | none => rfl
    | some v => simp [ltOptB] at hy ⊢; omega

theorem iterAll_eq {s : Part} (hs : s.times.Pairwise (· < ·)) (cls : Option Nat) (a b : Option Int)
    (incl : Bool) (mode : Mode) :
    iterAll s cls a b incl mode
      = (rangePoints s.points a b).flatMap fun p => iterReg (p.reg mode.side) cls (inclEff cls incl) := by
  unfold iterAll
  simp only [slice_opt s.points hs a b]

-- ------------------------------------------------------------------ one registry

/-- class `k` is yielded for the query class: the class itself, or (with `include_subclasses`) one of
the classes `iter_subclasses` enumerates -/
def clsMatch (cls : Option Nat) (incl : Bool) (k : Nat) : Prop :=
  cls = some k ∨ (incl = true ∧ k ∈ subSeq cls)

theorem mem_iterReg {reg : List ObjRef} {cls : Option Nat} {incl : Bool} {o : ObjRef} :
    o ∈ iterReg reg cls incl ↔ o ∈ reg ∧ clsMatch cls incl o.cls := by
  unfold iterReg clsMatch
  simp only [List.mem_append, List.mem_flatMap, List.mem_filter, beq_iff_eq]
  constructor
  · rintro (h | h)
    · cases cls with
      | none => simp at h
      | some c =>
        simp only [List.mem_filter, beq_iff_eq] at h
        exact ⟨h.1, Or.inl (by rw [h.2])⟩
    · cases incl with
      | false => simp at h
      | true =>
        simp only [if_true, List.mem_flatMap, List.mem_filter, beq_iff_eq] at h
        obtain ⟨c, hc, ho, rfl⟩ := h
        exact ⟨ho, Or.inr ⟨rfl, hc⟩⟩
  · rintro ⟨ho, h | ⟨hi, hk⟩⟩
    · left
      subst h
      simp [ho]
    · right
      subst hi
      simp only [if_true, List.mem_flatMap, List.mem_filter, beq_iff_eq]
      exact ⟨o.cls, hk, ho, rfl⟩

theorem nodup_iterReg {reg : List ObjRef} (hreg : reg.Nodup) (cls : Option Nat) (incl : Bool) :
    (iterReg reg cls incl).Nodup := by
  obtain ⟨hnd, hself⟩ := subSeq_ok cls
  unfold iterReg
  rw [List.nodup_append]
  refine ⟨?_, ?_, ?_⟩
  · cases cls with
    | none => simp
    | some c => exact hreg.sublist List.filter_sublist
  · cases incl with
    | false => simp
    | true =>
      simp only [if_true]
      unfold List.Nodup
      rw [List.pairwise_flatMap]
      refine ⟨fun c _ => hreg.sublist List.filter_sublist, ?_⟩
      apply hnd.imp
      intro c c' hne x hx y hy
      simp only [List.mem_filter, beq_iff_eq] at hx hy
      intro hxy
      subst hxy
      exact hne (hx.2.symm.trans hy.2)
  · intro x hx y hy hxy
    subst hxy
    cases cls with
    | none => simp at hx
    | some c =>
      simp only [List.mem_filter, beq_iff_eq] at hx
      cases incl with
      | false => simp at hy
      | true =>
        simp only [if_true, List.mem_flatMap, List.mem_filter, beq_iff_eq] at hy
        obtain ⟨c', hc', -, hcls⟩ := hy
        apply hself c rfl
        have hcc : c = c' := hx.2.symm.trans hcls
        subst hcc
        exact hc'

-- ------------------------------------------------------------------ a flatMap over points of a good timeline

/-- results of per-point registry queries over any sub-list of the timeline: duplicate-free, exactly the
registered objects whose time is one of the visited points, and ordered like the visited points -/
theorem flatMap_points_spec {s : Part} (h : Good s) (sd : Side) (cls : Option Nat) (incl : Bool)
    (L : List Point) (hsub : ∀ p ∈ L, p ∈ s.points) (R : Int → Int → Prop)
    (hL : (L.map (·.t)).Pairwise R) (hirr : ∀ p ∈ L, ∀ p' ∈ L, R p.t p'.t → p.t ≠ p'.t) :
    let out := L.flatMap fun p => iterReg (p.reg sd) cls incl
    out.Nodup
    ∧ (∀ o, o ∈ out ↔ ∃ τ, (getObj s.objs o).at sd = some τ ∧ τ ∈ L.map (·.t) ∧ clsMatch cls incl o.cls)
    ∧ out.Pairwise (fun o1 o2 => ∀ t1 t2, (getObj s.objs o1).at sd = some t1 →
        (getObj s.objs o2).at sd = some t2 → t1 = t2 ∨ R t1 t2) := by
  intro out
  have hat : ∀ p ∈ L, ∀ o ∈ iterReg (p.reg sd) cls incl, (getObj s.objs o).at sd = some p.t := by
    intro p hp o ho
    exact (h.1.getObj_listed sd o (hsub p hp)).mp (mem_iterReg.mp ho).1
  refine ⟨?_, ?_, ?_⟩
  · unfold List.Nodup
    rw [List.pairwise_flatMap]
    refine ⟨fun p hp => nodup_iterReg (h.1.regNodup sd p (hsub p hp)) cls incl, ?_⟩
    rw [List.pairwise_map] at hL
    have hL' : L.Pairwise (fun p p' => R p.t p'.t ∧ p ∈ L ∧ p' ∈ L) := by
      have := List.Pairwise.and_mem.mp hL
      exact this.imp (fun ⟨a, b, c⟩ => ⟨c, a, b⟩)
    apply hL'.imp
    rintro p p' ⟨hr, hp, hp'⟩ x hx y hy hxy
    subst hxy
    have e1 := hat p hp x hx
    have e2 := hat p' hp' x hy
    rw [e1] at e2
    simp only [Option.some.injEq] at e2
    exact hirr p hp p' hp' hr e2
  · intro o
    simp only [out, List.mem_flatMap]
    constructor
    · rintro ⟨p, hp, ho⟩
      exact ⟨p.t, hat p hp o ho, List.mem_map_of_mem hp, (mem_iterReg.mp ho).2⟩
    · rintro ⟨τ, hτ, hmem, hc⟩
      obtain ⟨p, hp, rfl⟩ := List.mem_map.mp hmem
      refine ⟨p, hp, mem_iterReg.mpr ⟨?_, hc⟩⟩
      exact (h.1.getObj_listed sd o (hsub p hp)).mpr hτ
  · rw [List.pairwise_flatMap]
    refine ⟨?_, ?_⟩
    · intro p hp
      apply List.pairwise_of_forall_mem_list
      intro x hx y hy t1 t2 h1 h2
      left
      rw [hat p hp x hx] at h1
      rw [hat p hp y hy] at h2
      simp only [Option.some.injEq] at h1 h2
      omega
    · rw [List.pairwise_map] at hL
      have hL' := List.Pairwise.and_mem.mp hL
      apply hL'.imp
      rintro p p' ⟨hp, hp', hr⟩ x hx y hy t1 t2 h1 h2
      right
      rw [hat p hp x hx] at h1
      rw [hat p' hp' y hy] at h2
      simp only [Option.some.injEq] at h1 h2
      subst h1 h2
      exact hr

end TL
