/-
Round trip for C13: the roll of grid-aligned, non-touching notes decodes back to those notes.
-/
import PartituraModel.Proofs.C13Decode
import PartituraModel.Proofs.C13Cells
import Mathlib.Tactic.Ring
import Mathlib.Tactic.FieldSimp

namespace C13
open Model Model.PianoRoll
open List

/-- two maximal runs of one row that share a time step are the same run -/
theorem maxRun_unique {f : Nat → Int} {T : Nat} {x y : Run} (hx : MaxRun f T x) (hy : MaxRun f T y)
    (hp : x.pitch = y.pitch) (s : Nat) (hs1 : x.on ≤ s) (hs2 : s < x.off) (hs3 : y.on ≤ s) (hs4 : s < y.off) :
    x = y := by
  obtain ⟨x1, x2, x3, x4, x5, x6⟩ := hx
  obtain ⟨y1, y2, y3, y4, y5, y6⟩ := hy
  have hv : x.vel = y.vel := by rw [← x4 s hs1 hs2, ← y4 s hs3 hs4]
  have hon : x.on = y.on := by
    rcases Nat.lt_trichotomy x.on y.on with h | h | h
    · exfalso
      rcases y5 with h0 | h0
      · omega
      · exact h0 (by rw [x4 (y.on - 1) (by omega) (by omega), hv])
    · exact h
    · exfalso
      rcases x5 with h0 | h0
      · omega
      · exact h0 (by rw [y4 (x.on - 1) (by omega) (by omega), hv])
  have hoff : x.off = y.off := by
    rcases Nat.lt_trichotomy x.off y.off with h | h | h
    · exfalso
      rcases x6 with h0 | h0
      · omega
      · exact h0 (by rw [y4 x.off (by omega) h, hv])
    · exact h
    · exfalso
      rcases y6 with h0 | h0
      · omega
      · exact h0 (by rw [x4 y.off (by omega) h, hv])
  cases x; cases y
  simp_all

/-- any two members of a pairwise-related list are equal or related one way or the other -/
theorem pairwise_mem {α : Type} {R : α → α → Prop} {l : List α} (h : l.Pairwise R) {a b : α}
    (ha : a ∈ l) (hb : b ∈ l) : a = b ∨ R a b ∨ R b a := by
  induction l with
  | nil => simp at ha
  | cons c l ih =>
    rw [pairwise_cons] at h
    simp only [mem_cons] at ha hb
    rcases ha with rfl | ha <;> rcases hb with rfl | hb
    · exact Or.inl rfl
    · exact Or.inr (Or.inl (h.1 b hb))
    · exact Or.inr (Or.inr (h.1 a ha))
    · exact ih h.2 ha hb

/-- the matrix handed to the decoder is the roll, cell by cell (0 outside) -/
theorem cellAt_toCols (r : Roll) (p t : Nat) : cellAt r.toCols p t = r.cell p t := by
  unfold cellAt Roll.toCols
  by_cases ht : t < r.cols.toNat
  · rw [getElem?_map, getElem?_range ht]
    simp only [Option.map_some, valAt]
    by_cases hp : p < r.rows.toNat
    · rw [getElem?_map, getElem?_range hp]
      rfl
    · rw [getElem?_eq_none (by simpa using hp)]
      unfold Roll.cell
      rw [if_neg]
      · rfl
      · intro hc; exact hp (by have := hc.2.1; omega)
  · rw [getElem?_eq_none (by simpa using ht)]
    unfold Roll.cell
    rw [if_neg]
    intro hc; exact ht (by have := hc.2.2.2; omega)

theorem length_toCols (r : Roll) : r.toCols.length = r.cols.toNat := by
  simp [Roll.toCols]

/-! ### grid-aligned notes -/

/-- the options under which onsets and durations can be read back: positive resolution, full notes,
    fixed pitch axis, no margins, frame 0 at time 0, velocities kept -/
structure RoundTripOpts (o : Opts) : Prop where
  td_pos : 0 < o.timeDiv
  oo : o.onsetOnly = false
  ns : o.noteSep = false
  pm : o.pitchMargin = -1
  tm : o.timeMargin = 0
  rs : o.removeSilence = false
  et : o.endTime = none
  bi : o.binary = false

/-- onset and duration are whole numbers of frames, the duration at least one -/
def GridAligned (o : Opts) (n : Note) : Prop :=
  ∃ k d : Nat, 1 ≤ d ∧ (o.timeDiv : Rat) * n.onset = k ∧ (o.timeDiv : Rat) * n.dur = d

/-- notes of one pitch neither overlap nor touch -/
def NonTouching (notes : List Note) : Prop :=
  notes.Pairwise fun a b => a.pitch = b.pitch → a.onset + a.dur < b.onset ∨ b.onset + b.dur < a.onset

theorem truncRat_zero : truncRat 0 = 0 := by decide +kernel

theorem grid_frames {o : Opts} (ho : RoundTripOpts o) {n : Note} (hg : GridAligned o n) :
    0 ≤ onFrame o 0 n ∧ onFrame o 0 n < offFull o 0 n ∧ offCell o 0 n = offFull o 0 n ∧
    ((onFrame o 0 n : Int) : Rat) = (o.timeDiv : Rat) * n.onset ∧
    ((offFull o 0 n : Int) : Rat) = (o.timeDiv : Rat) * (n.onset + n.dur) ∧
    (∀ low, rowOf o low n = n.pitch) ∧ 0 ≤ n.onset := by
  obtain ⟨k, d, hd, hk, hdur⟩ := hg
  have hon : onFrame o 0 n = (k : Int) := by
    unfold onFrame marginFrames
    rw [sub_zero, hk, ho.tm, ← Int.cast_natCast k, Round.roundHalfEven_int, zero_mul, truncRat_zero]
    simp
  have hdf : durFrames o n = (d : Int) := by
    unfold durFrames
    simp only
    rw [hdur, ← Int.cast_natCast d, Round.roundHalfEven_int]
    split <;> omega
  have hoff : offFull o 0 n = (k : Int) + d := by
    unfold offFull; rw [hon, hdf]
  have htd : (0 : Rat) < (o.timeDiv : Rat) := by exact_mod_cast ho.td_pos
  refine ⟨by omega, by omega, ?_, ?_, ?_, ?_, ?_⟩
  · unfold offCell offIdx
    simp only [ho.oo, ho.ns, Bool.false_eq_true, if_false]
    split <;> omega
  · rw [hon, hk]; simp
  · rw [hoff, mul_add, hk, hdur]; push_cast; ring
  · intro low; unfold rowOf; simp [ho.pm]
  · by_contra hc
    have hneg : n.onset < 0 := not_le.mp hc
    have : (o.timeDiv : Rat) * n.onset < 0 := mul_neg_of_pos_of_neg htd hneg
    rw [hk] at this
    have : (0 : Rat) ≤ (k : Rat) := Nat.cast_nonneg k
    linarith

theorem t0_zero {o : Opts} (ho : RoundTripOpts o) {notes : List Note} (hne : notes ≠ [])
    (hg : ∀ n ∈ notes, GridAligned o n) : t0Of o notes = 0 := by
  obtain ⟨m, ⟨n, hn, hm⟩, _, ht⟩ := t0_spec_aux o notes hne
  rw [ht, ho.rs]
  have : 0 ≤ m := by rw [← hm]; exact (grid_frames ho (hg n hn)).2.2.2.2.2.2
  simp [this]

/-- the run a note should decode to -/
def runOf (o : Opts) (n : Note) : Run :=
  { pitch := (n.pitch - rowStartOf o).toNat, vel := n.vel,
    on := (onFrame o 0 n).toNat, off := (offFull o 0 n).toNat }

/-- **round trip, run level**: the maximal runs of the roll of grid-aligned, non-touching notes are exactly
    the notes' frame spans -/
theorem runs_of_roll (o : Opts) (notes : List Note) (r : Roll) (ho : RoundTripOpts o)
    (h : makePianoroll o notes = some r) (hg : ∀ n ∈ notes, GridAligned o n) (hv : ∀ n ∈ notes, 0 < n.vel)
    (hnt : NonTouching notes)
    (hpr : o.pianoRange = true → ∀ n ∈ notes, 21 ≤ n.pitch ∧ n.pitch ≤ 108) :
    (∀ n ∈ notes, 0 ≤ n.pitch - rowStartOf o) ∧
    ∀ x : Run, MaxRun (cellAt r.toCols x.pitch) r.toCols.length x ↔ ∃ n ∈ notes, x = runOf o n := by
  obtain ⟨hne, _, N, _, _, hr⟩ := (makePianoroll_eq_some o notes r).mp h
  have ht0 := t0_zero ho hne hg
  have hrs : r.rowStart = rowStartOf o := by rw [hr]; rfl
  -- frames of the notes
  have hcov : ∀ n ∈ notes, ∀ q j, Covers o notes n q j ↔ (n.pitch = q ∧ onFrame o 0 n ≤ j ∧ j < offFull o 0 n) := by
    intro n hn q j
    unfold Covers
    rw [ht0, (grid_frames ho (hg n hn)).2.2.1, (grid_frames ho (hg n hn)).2.2.2.2.2.1]
  -- rows
  have hrow : ∀ n ∈ notes, 0 ≤ n.pitch - rowStartOf o ∧ n.pitch - rowStartOf o < r.rows := by
    intro n hn
    have hc : Covers o notes n n.pitch (onFrame o 0 n) :=
      (hcov n hn _ _).mpr ⟨rfl, le_refl _, (grid_frames ho (hg n hn)).2.1⟩
    have hb := cells_in_range_aux o notes r h n hn _ _ hc
    have hR : rowsFull o notes = 128 := by simp [rowsFull, lowestOf, highestOf, ho.pm, tbl_lowest, tbl_highest]
    rw [hR] at hb
    by_cases hp : o.pianoRange = true
    · have := hpr hp n hn
      have h88 := (shape_rows_aux o notes r h).2.1 ho.pm hp
      simp only [rowStartOf, hp, if_true, tbl_piano_lo]
      omega
    · have hp' : o.pianoRange = false := by simpa using hp
      have h128 := (shape_rows_aux o notes r h).1 ho.pm hp'
      simp only [rowStartOf, hp', Bool.false_eq_true, if_false]
      omega
  -- non-touching, in frames
  have hgap : ∀ a ∈ notes, ∀ b ∈ notes, a.pitch = b.pitch →
      (a.onset + a.dur < b.onset ∨ b.onset + b.dur < a.onset) →
      (offFull o 0 a < onFrame o 0 b ∨ offFull o 0 b < onFrame o 0 a) := by
    intro a ha b hb _ hd
    have htd : (0 : Rat) < (o.timeDiv : Rat) := by exact_mod_cast ho.td_pos
    obtain ⟨_, _, _, a4, a5, _, _⟩ := grid_frames ho (hg a ha)
    obtain ⟨_, _, _, b4, b5, _, _⟩ := grid_frames ho (hg b hb)
    rcases hd with hd | hd
    · left
      have : ((offFull o 0 a : Int) : Rat) < ((onFrame o 0 b : Int) : Rat) := by
        rw [a5, b4]; exact mul_lt_mul_of_pos_left hd htd
      exact_mod_cast this
    · right
      have : ((offFull o 0 b : Int) : Rat) < ((onFrame o 0 a : Int) : Rat) := by
        rw [b5, a4]; exact mul_lt_mul_of_pos_left hd htd
      exact_mod_cast this
  -- a note covering a frame next to or inside the span of `n` on the same pitch is `n`
  have hsame : ∀ n ∈ notes, ∀ n' ∈ notes, n'.pitch = n.pitch → ∀ j : Int,
      onFrame o 0 n' ≤ j → j < offFull o 0 n' → onFrame o 0 n - 1 ≤ j → j ≤ offFull o 0 n → n' = n := by
    intro n hn n' hn' hp j h1 h2 h3 h4
    rcases pairwise_mem hnt hn' hn with he | hR | hR
    · exact he
    · exfalso
      rcases hgap n' hn' n hn hp (hR hp) with hh | hh <;> omega
    · exfalso
      rcases hgap n hn n' hn' hp.symm (hR hp.symm) with hh | hh <;> omega
  -- cells of a note's row
  have hbin : o.binary = false := ho.bi
  have hcell_in : ∀ n ∈ notes, ∀ j : Int, onFrame o 0 n ≤ j → j < offFull o 0 n →
      r.cell (n.pitch - rowStartOf o) j = n.vel := by
    intro n hn j h1 h2
    obtain ⟨hp0, hp1⟩ := hrow n hn
    have hex : ∃ n' ∈ notes, Covers o notes n' (n.pitch - rowStartOf o + r.rowStart) j :=
      ⟨n, hn, (hcov n hn _ _).mpr ⟨by rw [hrs]; omega, h1, h2⟩⟩
    obtain ⟨n0, hn0, hc0, _, he⟩ := (cell_value_aux o notes r h _ j hp0 hp1).2 hex
    obtain ⟨c1, c2, c3⟩ := (hcov n0 hn0 _ _).mp hc0
    have : n0 = n := hsame n hn n0 hn0 (by rw [hrs] at c1; omega) j c2 c3 (by omega) (by omega)
    rw [he, this]
    simp [hbin]
  have hcell_out : ∀ n ∈ notes, ∀ j : Int, (j = onFrame o 0 n - 1 ∨ j = offFull o 0 n) →
      r.cell (n.pitch - rowStartOf o) j = 0 := by
    intro n hn j hj
    obtain ⟨hp0, hp1⟩ := hrow n hn
    apply (cell_value_aux o notes r h _ j hp0 hp1).1
    rintro ⟨n', hn', hc'⟩
    obtain ⟨c1, c2, c3⟩ := (hcov n' hn' _ _).mp hc'
    have hlt := (grid_frames ho (hg n hn)).2.1
    have : n' = n := hsame n hn n' hn' (by rw [hrs] at c1; omega) j c2 c3 (by omega) (by omega)
    subst this
    omega
  -- each note's span is a maximal run of its row
  have hmax : ∀ n ∈ notes, MaxRun (cellAt r.toCols (runOf o n).pitch) r.toCols.length (runOf o n) := by
    intro n hn
    obtain ⟨hp0, hp1⟩ := hrow n hn
    obtain ⟨g1, g2, _, _, _, _, _⟩ := grid_frames ho (hg n hn)
    have hpc : (((n.pitch - rowStartOf o).toNat : Nat) : Int) = n.pitch - rowStartOf o := Int.toNat_of_nonneg hp0
    have hf : ∀ s : Nat, cellAt r.toCols (runOf o n).pitch s = r.cell (n.pitch - rowStartOf o) s := by
      intro s
      rw [cellAt_toCols]
      simp only [runOf, hpc]
    have hlast : offFull o 0 n ≤ r.cols := by
      have hc : Covers o notes n n.pitch (offFull o 0 n - 1) := (hcov n hn _ _).mpr ⟨rfl, by omega, by omega⟩
      have := (cells_in_range_aux o notes r h n hn _ _ hc).2.2.2
      omega
    refine ⟨?_, ?_, ?_, ?_, ?_, ?_⟩
    · have := hv n hn; simp only [runOf]; omega
    · simp only [runOf]; omega
    · rw [length_toCols]; simp only [runOf]; omega
    · intro s hs1 hs2
      simp only [runOf] at hs1 hs2
      rw [hf]
      simp only [runOf]
      exact hcell_in n hn s (by omega) (by omega)
    · by_cases h0 : (runOf o n).on = 0
      · exact Or.inl h0
      · right
        rw [hf]
        simp only [runOf] at h0 ⊢
        have hz := hcell_out n hn (onFrame o 0 n - 1) (Or.inl rfl)
        have hcast : (((onFrame o 0 n).toNat - 1 : Nat) : Int) = onFrame o 0 n - 1 := by omega
        rw [hcast, hz]
        have := hv n hn
        omega
    · right
      rw [hf]
      simp only [runOf]
      have hz := hcell_out n hn (offFull o 0 n) (Or.inr rfl)
      have hcast : (((offFull o 0 n).toNat : Nat) : Int) = offFull o 0 n := by omega
      rw [hcast, hz]
      have := hv n hn
      omega
  refine ⟨fun n hn => (hrow n hn).1, ?_⟩
  intro x
  constructor
  · intro hx
    -- the first cell of the run is non-zero, so some note covers it; the run of that note overlaps `x`
    obtain ⟨x1, x2, x3, x4, x5, x6⟩ := hx
    have hc0 : r.cell (x.pitch : Int) (x.on : Int) = x.vel := by
      rw [← cellAt_toCols]; exact x4 x.on (le_refl _) x2
    have hprow : (0 : Int) ≤ (x.pitch : Int) ∧ (x.pitch : Int) < r.rows := by
      by_contra hc
      have : r.cell (x.pitch : Int) (x.on : Int) = 0 := by
        unfold Roll.cell
        rw [if_neg (fun hh => hc ⟨hh.1, hh.2.1⟩)]
      rw [this] at hc0
      exact x1 hc0.symm
    have hex : ∃ n ∈ notes, Covers o notes n ((x.pitch : Int) + r.rowStart) (x.on : Int) := by
      by_contra hc
      have := (cell_value_aux o notes r h _ (x.on : Int) hprow.1 hprow.2).1 hc
      rw [this] at hc0
      exact x1 hc0.symm
    obtain ⟨n, hn, hc⟩ := hex
    obtain ⟨c1, c2, c3⟩ := (hcov n hn _ _).mp hc
    obtain ⟨g1, g2, _, _, _, _, _⟩ := grid_frames ho (hg n hn)
    have hpitch : (runOf o n).pitch = x.pitch := by
      simp only [runOf]; rw [hrs] at c1; omega
    refine ⟨n, hn, ?_⟩
    have hm := hmax n hn
    rw [hpitch] at hm
    exact (maxRun_unique hm ⟨x1, x2, x3, x4, x5, x6⟩ hpitch x.on
      (by simp only [runOf]; omega) (by simp only [runOf]; omega) (le_refl _) x2).symm
  · rintro ⟨n, hn, rfl⟩
    exact hmax n hn

/-- non-touching notes of one pitch have at least one empty frame between them -/
theorem grid_gap {o : Opts} (ho : RoundTripOpts o) {a b : Note} (ha : GridAligned o a) (hb : GridAligned o b)
    (hd : a.onset + a.dur < b.onset ∨ b.onset + b.dur < a.onset) :
    offFull o 0 a < onFrame o 0 b ∨ offFull o 0 b < onFrame o 0 a := by
  have htd : (0 : Rat) < (o.timeDiv : Rat) := by exact_mod_cast ho.td_pos
  obtain ⟨_, _, _, a4, a5, _, _⟩ := grid_frames ho ha
  obtain ⟨_, _, _, b4, b5, _, _⟩ := grid_frames ho hb
  rcases hd with hd | hd
  · left
    have : ((offFull o 0 a : Int) : Rat) < ((onFrame o 0 b : Int) : Rat) := by
      rw [a5, b4]; exact mul_lt_mul_of_pos_left hd htd
    exact_mod_cast this
  · right
    have : ((offFull o 0 b : Int) : Rat) < ((onFrame o 0 a : Int) : Rat) := by
      rw [b5, a4]; exact mul_lt_mul_of_pos_left hd htd
    exact_mod_cast this

/-- what `pianoroll_to_notearray` makes of a run -/
def outOf (init : Int) (td : Rat) (x : Run) : OutNote :=
  ((x.pitch : Int) + init, (x.on : Rat) / td, ((x.off - x.on : Nat) : Rat) / td, x.vel)

theorem decode_eq (rows : Nat) (cols : List (List Int)) (td : Rat) (init : Int)
    (h : (rows = 128 ∧ init = 0) ∨ (rows = 88 ∧ init = 21)) (htd : td ≠ 0 ∨ decodeRuns cols = []) :
    decode rows cols td = some ((decodeRuns cols).map (outOf init td)) := by
  have hz : ¬ (td = 0 ∧ decodeRuns cols ≠ []) := by
    rintro ⟨h1, h2⟩
    rcases htd with h | h
    · exact h h1
    · exact h2 h
  unfold decode
  rcases h with ⟨h1, h2⟩ | ⟨h1, h2⟩ <;> subst h1 h2
  · have : Model.lookup 128 Gen.C13_DEC_SHAPES = some 0 := by decide
    simp only [this, if_neg hz]; rfl
  · have : Model.lookup 88 Gen.C13_DEC_SHAPES = some 21 := by decide
    simp only [this, if_neg hz]; rfl

/-- `time_div = 0` with at least one note: ZeroDivisionError -/
theorem decode_div_zero (rows : Nat) (cols : List (List Int)) (h : decodeRuns cols ≠ []) :
    decode rows cols 0 = none := by
  unfold decode
  split
  · rfl
  · simp [h]

/-- **round trip**: decoding the roll of grid-aligned, non-touching notes gives back every pitch, onset,
    duration and velocity -/
theorem decode_encode_aux (o : Opts) (notes : List Note) (r : Roll) (ho : RoundTripOpts o)
    (h : makePianoroll o notes = some r) (hg : ∀ n ∈ notes, GridAligned o n) (hv : ∀ n ∈ notes, 0 < n.vel)
    (hnt : NonTouching notes)
    (hpr : o.pianoRange = true → ∀ n ∈ notes, 21 ≤ n.pitch ∧ n.pitch ≤ 108) :
    ∃ out, decode r.rows.toNat r.toCols (o.timeDiv : Rat) = some out ∧
      out ~ notes.map (fun n => (n.pitch, n.onset, n.dur, n.vel)) := by
  obtain ⟨hrow0, hruns⟩ := runs_of_roll o notes r ho h hg hv hnt hpr
  obtain ⟨hnd, _, hmem⟩ := decodeRuns_spec r.toCols
  -- the decoded runs are the notes' runs
  have hnd2 : (notes.map (runOf o)).Nodup := by
    unfold Nodup
    rw [pairwise_map]
    refine hnt.imp_of_mem ?_
    intro a b ha hb hR heq
    obtain ⟨a1, a2, _⟩ := grid_frames ho (hg a ha)
    obtain ⟨b1, b2, _⟩ := grid_frames ho (hg b hb)
    have h0a := hrow0 a ha
    have h0b := hrow0 b hb
    simp only [runOf, Run.mk.injEq] at heq
    obtain ⟨e1, _, e3, e4⟩ := heq
    have hp : a.pitch = b.pitch := by omega
    rcases grid_gap ho (hg a ha) (hg b hb) (hR hp) with hh | hh <;> omega
  have hperm : decodeRuns r.toCols ~ notes.map (runOf o) := by
    rw [perm_ext_iff_of_nodup hnd hnd2]
    intro x
    rw [hmem x, hruns x, mem_map]
    constructor
    · rintro ⟨n, hn, rfl⟩; exact ⟨n, hn, rfl⟩
    · rintro ⟨n, hn, rfl⟩; exact ⟨n, hn, rfl⟩
  have hshape : (r.rows.toNat = 128 ∧ rowStartOf o = 0) ∨ (r.rows.toNat = 88 ∧ rowStartOf o = 21) := by
    by_cases hp : o.pianoRange = true
    · right
      have := (shape_rows_aux o notes r h).2.1 ho.pm hp
      simp [this, rowStartOf, hp, tbl_piano_lo]
    · left
      have hp' : o.pianoRange = false := by simpa using hp
      have := (shape_rows_aux o notes r h).1 ho.pm hp'
      simp [this, rowStartOf, hp']
  have htd0 : ((o.timeDiv : Int) : Rat) ≠ 0 := by
    have := ho.td_pos
    exact_mod_cast (ne_of_gt this)
  refine ⟨_, decode_eq _ _ _ (rowStartOf o) hshape (Or.inl htd0), ?_⟩
  refine (hperm.map _).trans ?_
  rw [map_map]
  apply Perm.of_eq
  apply map_congr_left
  intro n hn
  obtain ⟨g1, g2, _, g4, g5, _, _⟩ := grid_frames ho (hg n hn)
  have h0 := hrow0 n hn
  have htd : ((o.timeDiv : Int) : Rat) ≠ 0 := by
    have := ho.td_pos
    exact_mod_cast (ne_of_gt this)
  simp only [Function.comp, outOf, runOf, Prod.mk.injEq]
  refine ⟨by omega, ?_, ?_, trivial⟩
  · have hc : (((onFrame o 0 n).toNat : Nat) : Rat) = ((onFrame o 0 n : Int) : Rat) := by
      rw [← Int.cast_natCast, Int.toNat_of_nonneg g1]
    rw [hc, g4]
    field_simp
  · have hc : ((((offFull o 0 n).toNat - (onFrame o 0 n).toNat : Nat)) : Rat) =
        ((offFull o 0 n : Int) : Rat) - ((onFrame o 0 n : Int) : Rat) := by
      rw [← Int.cast_sub, ← Int.cast_natCast]
      congr 1
      omega
    rw [hc, g4, g5]
    field_simp
    ring

end C13
