/-
C11 (round 5) — "afterwards every pitched note lies within one measure", for the whole LIST after stage 1 of
`tie_notes`: no measure start lies strictly inside any note of the list (with the measure starts in time order).
The loop visits every key of the list once; a visited note is cut at every measure start inside it, the pieces are not
touched again, the notes not yet visited are dealt with later.
-/
import PartituraModel.Proofs.C11Contig

namespace C11Within
open Model Model.Dur Model.Meas C11Tie C11Walk C11Rows

/-- no measure start lies strictly inside the note -/
def Within (ms : List Nat) (n : Note) : Prop := ∀ m ∈ ms, ¬ (n.start < m ∧ m < n.stop)

/-- the note found under a key after a chain was installed: (up to the relinked back link) a member of the chain, or the
    note that was there before, which is not the replaced one -/
theorem install_cases (ns : List Note) (orig : Note) (base : Nat) (ps : List (Nat × Nat × Option Est))
    (hbase : freshKey ns ≤ base) (hne : ps ≠ []) (ht : PTiles orig.start orig.stop ps) :
    ∀ x n', lk (installChain ns orig (mkChain orig base ps)) x = some n' →
      ∃ m, UpTo m n' ∧ (m ∈ mkChain orig base ps ∨ (lk ns x = some m ∧ m.key ≠ orig.key)) := by
  have sp := chainFrom_spec orig base ps 0 orig.tiePrev orig.key orig.id orig.start orig.stop hne ht
  have hkeys := chainFrom_keys orig base ps 0 orig.tiePrev orig.key orig.id hne
  obtain ⟨first, more, hc, _, hfk, _, _⟩ := sp.head
  have hc' : mkChain orig base ps = first :: more := hc
  rw [hc']
  rw [hc, List.map_cons] at hkeys
  have hmk : more.map (·.key) = (List.range (ps.length - 1)).map (fun j => base + 0 + j) := (List.cons.inj hkeys).2
  have hnd : (more.map (·.key)).Nodup := by
    rw [hmk]
    exact List.Nodup.map (f := fun j => base + 0 + j) (by intro a b h; simp only at h; omega) List.nodup_range
  have hge : ∀ m ∈ more, base ≤ m.key := by
    intro m hm
    have : m.key ∈ more.map (·.key) := List.mem_map.mpr ⟨m, hm, rfl⟩
    rw [hmk] at this
    obtain ⟨j, _, hj⟩ := List.mem_map.mp this
    omega
  obtain ⟨r, hr, hlk⟩ := lk_install ns orig first more hfk (fun m hm => Nat.le_trans hbase (hge m hm)) hnd
  intro x n' hx
  rw [hlk] at hx
  cases hf : more.find? (fun (m : Note) => decide (m.key = x)) with
  | some m =>
    rw [hf] at hx
    simp only [Option.map_some, Option.some.injEq] at hx
    subst hx
    exact ⟨m, hr m, Or.inl (List.mem_cons_of_mem _ (List.mem_of_find?_eq_some hf))⟩
  | none =>
    rw [hf] at hx
    cases hn : lk ns x with
    | none => rw [hn] at hx; simp at hx
    | some n0 =>
      rw [hn] at hx
      simp only [Option.map_some, Option.some.injEq] at hx
      subst hx
      by_cases hk0 : n0.key = orig.key
      · simp only [hk0, if_true]
        exact ⟨first, hr first, Or.inl List.mem_cons_self⟩
      · simp only [hk0, if_false]
        exact ⟨n0, hr n0, Or.inr ⟨rfl, hk0⟩⟩

theorem within_upTo {ms : List Nat} {m n' : Note} (hu : UpTo m n') (h : Within ms m) : Within ms n' := by
  obtain ⟨_, h2, h3, _⟩ := hu
  intro x hx
  rw [h2, h3]; exact h x hx

/-- one turn of the loop: the visited key is dealt with, nothing already dealt with is undone -/
theorem tieOne_within (qd : List (Int × Nat)) (ms : List Nat) (hs : ms.Pairwise (· ≤ ·)) (ns : List Note) (k : Nat)
    (todo : List Nat) (h : ∀ x n, lk ns x = some n → x ∉ k :: todo → Within ms n) :
    ∀ x n, lk (tieOne qd ms ns k) x = some n → x ∉ todo → Within ms n := by
  have hrest : ∀ x n, lk ns x = some n → x ∉ todo → x ≠ k → Within ms n := by
    intro x n hx ht hk
    exact h x n hx (by simp only [List.mem_cons, not_or]; exact ⟨hk, ht⟩)
  unfold tieOne
  cases hn : ns.find? (·.key = k) with
  | none =>
    intro x n hx ht
    by_cases hk : x = k
    · subst hk; unfold lk at hx; rw [hn] at hx; cases hx
    · exact hrest x n hx ht hk
  | some note =>
    simp only
    cases hcut : cutPoints note.start note.stop ms with
    | nil =>
      intro x n hx ht
      by_cases hk : x = k
      · subst hk
        have : n = note := by unfold lk at hx; rw [hn] at hx; exact (Option.some.inj hx).symm
        subst this
        intro m hm
        have := cutPoints_no_inner ms n.start n.stop hs (n.start, n.stop)
          (by rw [hcut]; simp [pieceBounds, pairs]) m hm
        exact this
      · exact hrest x n hx ht hk
    | cons c cs =>
      simp only
      have hlt := cutPoints_cons_lt ms note.start note.stop c cs hcut
      have hkk : note.key = k := (lk_some ns k note hn).1
      have htile := cutPoints_tiles (fun b => some (estimateI (b.2 - b.1) (quarterAt qd b.1))) ms note.start note.stop hlt
      rw [hcut] at htile
      have hne : (pieceBounds note.start note.stop (c :: cs)).map
          (fun b => (b.1, b.2, some (estimateI (b.2 - b.1) (quarterAt qd b.1)))) ≠ [] := by
        intro h0; rw [h0] at htile
        have : note.start = note.stop := htile
        omega
      intro x n' hx ht
      obtain ⟨m, hu, hm⟩ := install_cases ns note (freshKey ns) _ (Nat.le_refl _) hne htile x n' hx
      refine within_upTo hu ?_
      rcases hm with hm | ⟨hm, hmk⟩
      · -- a piece: its bounds are bounds of the cut
        have sp := (mkChain_sound note (freshKey ns) _ hne htile).2
        have hb := sp.bounds
        have hmem : (m.start, m.stop, m.sym) ∈ (pieceBounds note.start note.stop (c :: cs)).map
            (fun b => (b.1, b.2, some (estimateI (b.2 - b.1) (quarterAt qd b.1)))) := by
          rw [← hb]; exact List.mem_map.mpr ⟨m, hm, rfl⟩
        obtain ⟨b, hbm, hbe⟩ := List.mem_map.mp hmem
        have h1 : b.1 = m.start := by have := congrArg (·.1) hbe; simpa using this
        have h2 : b.2 = m.stop := by have := congrArg (·.2.1) hbe; simpa using this
        intro y hy
        have := cutPoints_no_inner ms note.start note.stop hs b (by rw [hcut]; exact hbm) y hy
        rw [h1, h2] at this
        exact this
      · have hxk : x ≠ k := by
          have := (lk_some ns x m hm).1
          rw [← this, ← hkk]; exact hmk
        exact hrest x m hm ht hxk

/-- **after stage 1 of `tie_notes` no measure start lies strictly inside any note of the list** -/
theorem tieStage1_within (qd : List (Int × Nat)) (ms : List Nat) (hs : ms.Pairwise (· ≤ ·)) (ns : List Note) :
    ∀ x n, lk (tieStage1 qd ms ns) x = some n → Within ms n := by
  unfold tieStage1
  have h0 : ∀ x n, lk ns x = some n → x ∉ ns.map (·.key) → Within ms n := by
    intro x n hx hnot
    exfalso; apply hnot
    obtain ⟨h1, h2⟩ := lk_some ns x n hx
    exact List.mem_map.mpr ⟨n, h2, h1⟩
  generalize ns.map (·.key) = ks at h0
  induction ks generalizing ns with
  | nil => intro x n hx; exact h0 x n hx (by simp)
  | cons k ks ih =>
    rw [List.foldl_cons]
    exact ih (tieOne qd ms ns k) (tieOne_within qd ms hs ns k ks h0)

-- ------------------------------------------------------------------ the symbolic durations of the list

/-- what `tie_notes` leaves under a key: the note entered there with its extent and stored value untouched, or a piece
    whose stored value is the estimate for its own length under the divisions in force at its start -/
def SymSpec (qd : List (Int × Nat)) (ns : List Note) (x : Nat) (n' : Note) : Prop :=
  (∃ n, lk ns x = some n ∧ n'.sym = n.sym ∧ n'.start = n.start ∧ n'.stop = n.stop) ∨
  n'.sym = some (estimateI (n'.stop - n'.start) (quarterAt qd n'.start))

theorem symSpec_upTo {qd : List (Int × Nat)} {ns : List Note} {x : Nat} {m n' : Note} (hu : UpTo m n')
    (h : SymSpec qd ns x m) : SymSpec qd ns x n' := by
  obtain ⟨_, h2, h3, _, _, _, _, _, _, h10, _⟩ := hu
  rcases h with ⟨n, a, b, c, d⟩ | h
  · exact Or.inl ⟨n, a, by rw [h10, b], by rw [h2, c], by rw [h3, d]⟩
  · right; rw [h10, h2, h3]; exact h

theorem tieOne_sym (qd : List (Int × Nat)) (ms : List Nat) (ns0 ns : List Note) (k : Nat)
    (h : ∀ x n, lk ns x = some n → SymSpec qd ns0 x n) :
    ∀ x n, lk (tieOne qd ms ns k) x = some n → SymSpec qd ns0 x n := by
  unfold tieOne
  cases hn : ns.find? (·.key = k) with
  | none => exact h
  | some note =>
    simp only
    cases hcut : cutPoints note.start note.stop ms with
    | nil => exact h
    | cons c cs =>
      simp only
      have hlt := cutPoints_cons_lt ms note.start note.stop c cs hcut
      have htile := cutPoints_tiles (fun b => some (estimateI (b.2 - b.1) (quarterAt qd b.1))) ms note.start note.stop hlt
      rw [hcut] at htile
      have hne : (pieceBounds note.start note.stop (c :: cs)).map
          (fun b => (b.1, b.2, some (estimateI (b.2 - b.1) (quarterAt qd b.1)))) ≠ [] := by
        intro h0; rw [h0] at htile
        have : note.start = note.stop := htile
        omega
      intro x n' hx
      obtain ⟨m, hu, hm⟩ := install_cases ns note (freshKey ns) _ (Nat.le_refl _) hne htile x n' hx
      refine symSpec_upTo hu ?_
      rcases hm with hm | ⟨hm, _⟩
      · right
        have sp := (mkChain_sound note (freshKey ns) _ hne htile).2
        have hb := sp.bounds
        have hmem : (m.start, m.stop, m.sym) ∈ (pieceBounds note.start note.stop (c :: cs)).map
            (fun b => (b.1, b.2, some (estimateI (b.2 - b.1) (quarterAt qd b.1)))) := by
          rw [← hb]; exact List.mem_map.mpr ⟨m, hm, rfl⟩
        obtain ⟨b, _, hbe⟩ := List.mem_map.mp hmem
        have h1 : b.1 = m.start := by have := congrArg (·.1) hbe; simpa using this
        have h2 : b.2 = m.stop := by have := congrArg (·.2.1) hbe; simpa using this
        have h3 : some (estimateI (b.2 - b.1) (quarterAt qd b.1)) = m.sym := by
          have := congrArg (·.2.2) hbe; simpa using this
        rw [← h3, h1, h2]
      · exact h x m hm

/-- **the stored symbolic durations after stage 1 of `tie_notes`**: under every key the entered note untouched, or a
    piece carrying the estimate for its own length under the divisions in force at its start -/
theorem tieStage1_sym (qd : List (Int × Nat)) (ms : List Nat) (ns : List Note) :
    ∀ x n, lk (tieStage1 qd ms ns) x = some n → SymSpec qd ns x n := by
  unfold tieStage1
  have h0 : ∀ x n, lk ns x = some n → SymSpec qd ns x n := fun x n hx => Or.inl ⟨n, hx, rfl, rfl, rfl⟩
  generalize ns.map (·.key) = ks
  suffices hgen : ∀ (cur : List Note), (∀ x n, lk cur x = some n → SymSpec qd ns x n) →
      ∀ x n, lk (ks.foldl (tieOne qd ms) cur) x = some n → SymSpec qd ns x n from hgen ns h0
  induction ks with
  | nil => intro cur h; exact h
  | cons k ks ih =>
    intro cur h
    rw [List.foldl_cons]
    exact ih (tieOne qd ms cur k) (tieOne_sym qd ms ns cur k h)

end C11Within
