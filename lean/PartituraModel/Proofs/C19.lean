/-
Helper lemmas for the C19 property theorems (kern / MEI semantics).
-/
import PartituraModel.Model.Kern
import PartituraModel.Model.Mei
import Mathlib.Tactic.Ring
import Mathlib.Tactic.FieldSimp
import Mathlib.Tactic.Linarith
import Mathlib.Tactic.Push
import Mathlib.Data.Rat.Defs

namespace C19P
open Model.Kern

/-- closed form of the augmentation dots -/
theorem dotted_closed (b : Rat) (d : Nat) : dotted b d = b * (2 - 1 / (2 : Rat) ^ d) := by
  induction d with
  | zero => simp [dotted]; ring
  | succ d ih =>
    simp only [dotted, ih]
    have h : ((2 : Rat) ^ d) ≠ 0 := pow_ne_zero _ (by norm_num)
    rw [pow_succ]
    field_simp
    ring

/-! ### divisions -/

theorem foldl_lcm_acc_dvd (l : List Rat) (acc : Nat) :
    acc ∣ l.foldl (fun acc v => Nat.lcm acc v.den) acc := by
  induction l generalizing acc with
  | nil => simp
  | cons a rest ih =>
    simp only [List.foldl_cons]
    exact Nat.dvd_trans (Nat.dvd_lcm_left acc a.den) (ih _)

theorem foldl_lcm_mem_dvd (l : List Rat) (acc : Nat) (v : Rat) (hv : v ∈ l) :
    v.den ∣ l.foldl (fun acc v => Nat.lcm acc v.den) acc := by
  induction l generalizing acc with
  | nil => cases hv
  | cons a rest ih =>
    simp only [List.foldl_cons]
    rcases List.mem_cons.mp hv with h | h
    · subst h
      exact Nat.dvd_trans (Nat.dvd_lcm_right acc v.den) (foldl_lcm_acc_dvd rest _)
    · exact ih _ h

theorem foldl_lcm_pos (l : List Rat) (acc : Nat) (h : 0 < acc) :
    0 < l.foldl (fun acc v => Nat.lcm acc v.den) acc := by
  induction l generalizing acc with
  | nil => simpa
  | cons a rest ih =>
    simp only [List.foldl_cons]
    exact ih _ (Nat.lcm_pos h a.den_pos)

/-- a rational times a multiple of its denominator is an integer -/
theorem mul_den_multiple (v : Rat) (L : Nat) (h : v.den ∣ L) : ∃ n : Int, v * (L : Rat) = (n : Rat) := by
  obtain ⟨k, hk⟩ := h
  refine ⟨v.num * k, ?_⟩
  rw [hk]
  push_cast
  rw [← mul_assoc, Rat.mul_den_eq_num]

/-! ### pitch letters -/

theorem all_eq_replicate (c : Char) (n : Nat) : (List.replicate n c).all (fun x => decide (x = c)) = true := by
  induction n with
  | zero => rfl
  | succ n ih => simp [List.replicate_succ]

/-- every row of the letter table, every repetition count -/
theorem pitchOf_replicate (e : Char × String × Int) (he : e ∈ kernNotes) (n : Nat) :
    pitchOf (List.replicate (n + 1) e.1)
      = some (e.2.1, if e.2.2 = 4 then 4 + (n : Int) else 3 - (n : Int)) := by
  have hall := all_eq_replicate e.1 n
  simp only [kernNotes, List.mem_cons, List.not_mem_nil, or_false] at he
  rcases he with rfl | rfl | rfl | rfl | rfl | rfl | rfl | rfl | rfl | rfl | rfl | rfl | rfl | rfl <;>
    simp [pitchOf, List.replicate_succ, lookupNote, kernNotes, List.length_replicate] at hall ⊢

theorem count_append (c : Char) (a b : List Char) : count c (a ++ b) = count c a + count c b := by
  simp [count, List.filter_append]

theorem count_replicate_self (c : Char) (n : Nat) : count c (List.replicate n c) = n := by
  induction n with
  | zero => rfl
  | succ n ih => simp [count, List.replicate_succ] at ih ⊢

theorem count_replicate_ne (c d : Char) (h : d ≠ c) (n : Nat) : count c (List.replicate n d) = 0 := by
  induction n with
  | zero => rfl
  | succ n ih => simp [count, List.replicate_succ, h] at ih ⊢

/-- each `#` raises, each `-` lowers the alteration by one -/
theorem alterOf_sharps (cs : List Char) (k : Nat) :
    alterOf (cs ++ List.replicate k '#') = alterOf cs + (k : Int) := by
  simp only [alterOf, count_append, count_replicate_self, count_replicate_ne '-' '#' (by decide)]
  push_cast
  ring

theorem alterOf_flats (cs : List Char) (k : Nat) :
    alterOf (cs ++ List.replicate k '-') = alterOf cs - (k : Int) := by
  simp only [alterOf, count_append, count_replicate_self, count_replicate_ne '#' '-' (by decide)]
  push_cast
  ring

theorem parseRecip_four : parseRecip ['4'] = some (Recip.num 4) := by decide

/-- the token parser of the driver on `4` + repeated letter + sharps -/
theorem parseSub_quarter_sharps (e : Char × String × Int) (he : e ∈ kernNotes) (n k : Nat) :
    (parseSub ('4' :: (List.replicate (n + 1) e.1 ++ List.replicate k '#'))).map
        (fun t => (t.recip, t.dots, t.pitch, t.alter, t.grace, t.tOpen || t.tCont || t.tClose))
      = some (some (Recip.num 4), 0, some (e.2.1, if e.2.2 = 4 then 4 + (n : Int) else 3 - (n : Int)), (k : Int), false, false) := by
  have hp := pitchOf_replicate e he n
  have h4 := parseRecip_four
  simp only [kernNotes, List.mem_cons, List.not_mem_nil, or_false] at he
  rcases he with rfl | rfl | rfl | rfl | rfl | rfl | rfl | rfl | rfl | rfl | rfl | rfl | rfl | rfl <;>
    simp [parseSub, List.filter_append, isPitchLetter, count, List.contains_eq_mem, alterOf, h4] at hp ⊢ <;>
    simp [hp]

theorem parseSub_quarter_flats (e : Char × String × Int) (he : e ∈ kernNotes) (n k : Nat) :
    (parseSub ('4' :: (List.replicate (n + 1) e.1 ++ List.replicate k '-'))).map
        (fun t => (t.recip, t.dots, t.pitch, t.alter, t.grace, t.tOpen || t.tCont || t.tClose))
      = some (some (Recip.num 4), 0, some (e.2.1, if e.2.2 = 4 then 4 + (n : Int) else 3 - (n : Int)), -(k : Int), false, false) := by
  have hp := pitchOf_replicate e he n
  have h4 := parseRecip_four
  simp only [kernNotes, List.mem_cons, List.not_mem_nil, or_false] at he
  rcases he with rfl | rfl | rfl | rfl | rfl | rfl | rfl | rfl | rfl | rfl | rfl | rfl | rfl | rfl <;>
    simp [parseSub, List.filter_append, isPitchLetter, count, List.contains_eq_mem, alterOf, h4] at hp ⊢ <;>
    simp [hp]

/-! ### a spine is additive -/

theorem subNotes_onset (c : Col) (p : Nat) (ts : List SubTok) (ns : List RawNote)
    (h : subNotes c p ts = some ns) : ∀ n ∈ ns, n.onset = c.cursor ∧ n.staff = c.staff ∧ n.pos = p ∧ n.main = c.main := by
  induction ts generalizing ns with
  | nil => simp [subNotes] at h; subst h; simp
  | cons t ts ih =>
    simp only [subNotes] at h
    split at h
    · rename_i d rest hd hr
      simp at h
      subst h
      intro n hn
      rcases List.mem_cons.mp hn with rfl | hn
      · simp [noteOf]
      · exact ih rest hr n hn
    · simp at h

theorem tokenNotes_adv (c : Col) (p : Nat) (t : List SubTok) (ns : List RawNote) (a : Rat)
    (h : tokenNotes c p t = some (ns, a)) : tokAdv t = some a ∧ subNotes c p t = some ns := by
  simp only [tokenNotes] at h
  split at h
  · rename_i ns' adv hs ha
    simp at h
    obtain ⟨rfl, rfl⟩ := h
    simp [tokAdv, ha, hs]
  · simp at h

/-- after reading the tokens, the spine stands at its start plus the sum of their values -/
theorem spineRun_cursor (c : Col) (p : Nat) (ts : List (List SubTok)) (r : List (List RawNote)) (c' : Col)
    (h : spineRun c p ts = some (r, c')) :
    ∃ s, advTotal ts = some s ∧ c'.cursor = c.cursor + s ∧ r.length = ts.length := by
  induction ts generalizing c r with
  | nil => simp [spineRun] at h; obtain ⟨rfl, rfl⟩ := h; exact ⟨0, rfl, by simp, rfl⟩
  | cons t ts ih =>
    simp only [spineRun] at h
    split at h
    · simp at h
    · rename_i ns adv ht
      split at h
      · simp at h
      · rename_i r' c'' hr
        simp at h
        obtain ⟨rfl, rfl⟩ := h
        obtain ⟨s, hs, hc, hl⟩ := ih _ _ hr
        obtain ⟨ha, _⟩ := tokenNotes_adv c p t ns adv ht
        refine ⟨adv + s, ?_, ?_, ?_⟩
        · simp [advTotal, ha, hs]
        · simp at hc; rw [hc]; ring
        · simp [hl]

/-- the notes of the k-th token start at the spine's start plus the values of the k tokens before it -/
theorem spineRun_onsets (c : Col) (p : Nat) (ts : List (List SubTok)) (r : List (List RawNote)) (c' : Col)
    (h : spineRun c p ts = some (r, c')) (k : Nat) (ns : List RawNote) (hk : r[k]? = some ns) :
    ∃ s, advTotal (ts.take k) = some s ∧ ∀ n ∈ ns, n.onset = c.cursor + s := by
  induction ts generalizing c r k with
  | nil => simp [spineRun] at h; obtain ⟨rfl, rfl⟩ := h; simp at hk
  | cons t ts ih =>
    simp only [spineRun] at h
    split at h
    · simp at h
    · rename_i ns0 adv ht
      split at h
      · simp at h
      · rename_i r' c'' hr
        simp at h
        obtain ⟨rfl, rfl⟩ := h
        obtain ⟨ha, hsub⟩ := tokenNotes_adv c p t ns0 adv ht
        cases k with
        | zero =>
          simp at hk
          subst hk
          refine ⟨0, by simp [advTotal], ?_⟩
          intro n hn
          have := subNotes_onset c p t ns0 hsub n hn
          simp [this.1]
        | succ k =>
          simp at hk
          obtain ⟨s, hs, hon⟩ := ih _ _ hr k hk
          refine ⟨adv + s, by simp [advTotal, ha, hs], ?_⟩
          intro n hn
          have := hon n hn
          simp at this
          rw [this]; ring

/-! ### grace notes -/

theorem subValue_grace (t : SubTok) (h : t.grace = true) : subValue t = some 0 := by
  simp [subValue, h]

theorem tokAdv_grace (toks : List SubTok) (a : Rat) (h : toks.any (·.grace) = true) (ha : tokAdv toks = some a) :
    a = 0 := by
  simp only [tokAdv] at ha
  cases hta : tokenAdvance toks with
  | none => simp [hta] at ha
  | some x => simp [hta, h] at ha; exact ha.symm

/-! ### ties -/

theorem samePitch_dur (s : Sounding) (d : Rat) (n : TNote) : samePitch { s with dur := d } n = samePitch s n := rfl

theorem takeOpen_single (s : Sounding) (n : TNote) (h : samePitch s n = true) : takeOpen n [s] = some (s, []) := by
  simp [takeOpen, h]

theorem joinFold_chain_aux (mids : List TNote) (last : TNote) (s : Sounding)
    (hm : ∀ m ∈ mids, samePitch s m = true ∧ m.tCont = true)
    (hl : samePitch s last = true ∧ last.tClose = true ∧ last.tCont = false ∧ last.tOpen = false) :
    joinFold (mids ++ [last]) [s] = [{ s with dur := s.dur + (mids.map (·.dur)).sum + last.dur }] := by
  induction mids generalizing s with
  | nil =>
    obtain ⟨hp, hc, hco, ho⟩ := hl
    simp [joinFold, hc, hco, ho, takeOpen, hp]
  | cons m rest ih =>
    have hm0 := hm m (by simp)
    have hrest : ∀ x ∈ rest, samePitch { s with dur := s.dur + m.dur } x = true ∧ x.tCont = true := by
      intro x hx
      have := hm x (by simp [hx])
      simpa [samePitch_dur] using this
    have hl' : samePitch { s with dur := s.dur + m.dur } last = true ∧ last.tClose = true ∧ last.tCont = false ∧ last.tOpen = false := by
      simpa [samePitch_dur] using hl
    have := ih { s with dur := s.dur + m.dur } hrest hl'
    simp only [List.cons_append, joinFold, hm0.2, Bool.true_or, takeOpen, hm0.1, if_true]
    simp only [this, List.map_cons, List.sum_cons]
    congr 1
    simp only [Sounding.mk.injEq, and_true, true_and]
    ring

end C19P

namespace C19P
open Model.Mei

/-! ### MEI values and inferred divisions -/

theorem meiValue_closed (v : Rat) (d : Nat) (a b : Nat) :
    meiValue v d (some (a, b)) = 4 / v * (2 - 1 / (2 : Rat) ^ d) * (b : Rat) / (a : Rat) := by
  simp [meiValue, dotted_closed]

theorem meiValue_closed_plain (v : Rat) (d : Nat) :
    meiValue v d none = 4 / v * (2 - 1 / (2 : Rat) ^ d) := by
  simp [meiValue, dotted_closed]

abbrev F (acc : Nat) (k : Rat) : Nat := if k < 1 then acc else Nat.lcm acc k.floor.toNat

theorem lcmKeys_eq (ks : List Rat) : lcmKeys ks = ks.foldl F 4 := rfl

theorem fold_acc_dvd (ks : List Rat) (acc : Nat) : acc ∣ ks.foldl F acc := by
  induction ks generalizing acc with
  | nil => simp
  | cons k rest ih =>
    simp only [List.foldl_cons]
    by_cases h : k < 1
    · simp only [F, h, if_true]; exact ih _
    · simp only [F, h, if_false]; exact Nat.dvd_trans (Nat.dvd_lcm_left _ _) (ih _)

theorem floor_toNat_natCast (m : Nat) : ((m : Rat)).floor.toNat = m := by
  have : ((m : Rat)) = (((m : Int)) : Rat) := by simp
  rw [this, Rat.floor_intCast]
  simp

theorem fold_mem_dvd (ks : List Rat) (acc m : Nat) (hm : 1 ≤ m) (h : (m : Rat) ∈ ks) :
    m ∣ ks.foldl F acc := by
  induction ks generalizing acc with
  | nil => cases h
  | cons k rest ih =>
    simp only [List.foldl_cons]
    rcases List.mem_cons.mp h with h | h
    · subst h
      have hlt : ¬ ((m : Rat) < 1) := by
        have : (1 : Rat) ≤ (m : Rat) := by exact_mod_cast hm
        exact not_lt.mpr this
      simp only [F, hlt, if_false, floor_toNat_natCast]
      exact Nat.dvd_trans (Nat.dvd_lcm_right _ _) (fold_acc_dvd rest _)
    · exact ih _ h

theorem fold_pos (ks : List Rat) (acc : Nat) (h : 0 < acc) : 0 < ks.foldl F acc := by
  induction ks generalizing acc with
  | nil => simpa
  | cons k rest ih =>
    simp only [List.foldl_cons]
    by_cases hk : k < 1
    · simp only [F, hk, if_true]; exact ih _ h
    · simp only [F, hk, if_false]
      apply ih
      apply Nat.lcm_pos h
      have h1 : (1 : Rat) ≤ k := not_lt.mp hk
      have : (1 : Int) ≤ k.floor := Rat.le_floor_iff.mpr (by simpa using h1)
      omega

/-- the arithmetic core: if a natural key `m` divides `L` and `m * val = 4 * c`, then `L/4 * val` is whole -/
theorem exact_of_key (L m : Nat) (hm : m ∣ L) (hm0 : 0 < m) (val : Rat) (c : Int)
    (hval : (m : Rat) * val = 4 * (c : Rat)) : ∃ n : Int, (L : Rat) / 4 * val = (n : Rat) := by
  obtain ⟨t, rfl⟩ := hm
  refine ⟨t * c, ?_⟩
  have hm' : (m : Rat) ≠ 0 := by exact_mod_cast (Nat.pos_iff_ne_zero.mp hm0)
  have : val = 4 * (c : Rat) / (m : Rat) := by
    field_simp
    linarith [hval]
  rw [this]
  push_cast
  field_simp

theorem allKeys_mem (els : List DurEl) (ks : List Rat) (h : allKeys els = some ks) :
    ∀ e ∈ els, ∃ k ∈ ks, durKey e = some k := by
  induction els generalizing ks with
  | nil => intro e he; cases he
  | cons a rest ih =>
    simp only [allKeys] at h
    split at h
    · rename_i k ks' hk hks
      simp at h
      subst h
      intro e he
      rcases List.mem_cons.mp he with rfl | he
      · exact ⟨k, by simp, hk⟩
      · obtain ⟨k', hk', hd⟩ := ih ks' hks e he
        exact ⟨k', by simp [hk'], hd⟩
    · simp at h

end C19P

namespace C19P
open Model.Mei

/-- the values the MEI duration table can produce (whole reciprocals, breve = 1/2, long = 1/4, …),
    and tuplets with positive terms on any positive value -/
def WellFormed (e : DurEl) : Prop :=
  match e.tup with
  | none => (∃ n : Nat, 0 < n ∧ e.v = (n : Rat)) ∨ (∃ j : Nat, e.v = 1 / (2 : Rat) ^ j)
  | some (a, b) => 0 < e.v ∧ 0 < a ∧ 0 < b

theorem two_pow_ne (d : Nat) : ((2 : Rat) ^ d) ≠ 0 := pow_ne_zero _ (by norm_num)

theorem elem_exact (ks : List Rat) (e : DurEl) (k : Rat) (hk : durKey e = some k) (hmem : k ∈ ks)
    (hw : WellFormed e) : ∃ n : Int, ((ks.foldl F 4 : Nat) : Rat) / 4 * meiValue e.v e.dots e.tup = (n : Rat) := by
  obtain ⟨v, d, tup, dp⟩ := e
  cases tup with
  | none =>
    simp only [WellFormed] at hw
    simp only [durKey, Option.some.injEq] at hk
    rw [meiValue_closed_plain]
    rcases hw with ⟨n, hn, hv⟩ | ⟨j, hv⟩
    · -- whole reciprocal n
      subst hv
      have hkm : k = ((n * 2 ^ d : Nat) : Rat) := by rw [← hk]; push_cast; ring
      have hdvd : (n * 2 ^ d) ∣ ks.foldl F 4 :=
        fold_mem_dvd ks 4 (n * 2 ^ d) (Nat.one_le_iff_ne_zero.mpr (Nat.mul_ne_zero (by omega) (by positivity)))
          (hkm ▸ hmem)
      refine exact_of_key _ (n * 2 ^ d) hdvd (Nat.mul_pos hn (by positivity)) _ ((2 : Int) ^ (d + 1) - 1) ?_
      have hn' : (n : Rat) ≠ 0 := by exact_mod_cast (Nat.pos_iff_ne_zero.mp hn)
      have h2 := two_pow_ne d
      push_cast
      field_simp
      ring
    · subst hv
      by_cases hjd : j ≤ d
      · obtain ⟨i, rfl⟩ := Nat.exists_eq_add_of_le hjd
        have h2j := two_pow_ne j
        have h2i := two_pow_ne i
        have hkm : k = ((2 ^ i : Nat) : Rat) := by
          rw [← hk]; push_cast; rw [pow_add]; field_simp
        have hdvd : (2 ^ i) ∣ ks.foldl F 4 :=
          fold_mem_dvd ks 4 (2 ^ i) (Nat.one_le_two_pow) (hkm ▸ hmem)
        refine exact_of_key _ (2 ^ i) hdvd (by positivity) _ ((2 : Int) ^ (j + i + 1) - 1) ?_
        push_cast
        rw [pow_add]
        field_simp
        ring
      · obtain ⟨i, rfl⟩ := Nat.exists_eq_add_of_le (Nat.le_of_lt (Nat.lt_of_not_le hjd))
        have h2d := two_pow_ne d
        have h2i := two_pow_ne i
        refine ⟨(ks.foldl F 4 : Nat) * 2 ^ i * ((2 : Int) ^ (d + 1) - 1), ?_⟩
        push_cast
        rw [pow_add]
        field_simp
        ring
  | some ab =>
    obtain ⟨a, b⟩ := ab
    simp only [WellFormed] at hw
    obtain ⟨hv, ha, hb⟩ := hw
    simp only [durKey] at hk
    have hb0 : ¬ (b = 0) := by omega
    simp only [hb0, if_false, Option.some.injEq] at hk
    rw [meiValue_closed]
    set x : Rat := v * (a : Rat) / (b : Rat) with hx
    have ha' : (0 : Rat) < (a : Rat) := by exact_mod_cast ha
    have hb' : (0 : Rat) < (b : Rat) := by exact_mod_cast hb
    have hxpos : 0 < x := div_pos (mul_pos hv ha') hb'
    have hnum : 0 < x.num := Rat.num_pos.mpr hxpos
    obtain ⟨p, hp⟩ : ∃ p : Nat, x.num = (p : Int) := ⟨x.num.toNat, by omega⟩
    have hp0 : 0 < p := by omega
    have hkm : k = ((p * 2 ^ d : Nat) : Rat) := by
      rw [← hk, hp]; push_cast; ring
    have hdvd : (p * 2 ^ d) ∣ ks.foldl F 4 :=
      fold_mem_dvd ks 4 (p * 2 ^ d) (Nat.one_le_iff_ne_zero.mpr (Nat.mul_ne_zero (by omega) (by positivity)))
        (hkm ▸ hmem)
    refine exact_of_key _ (p * 2 ^ d) hdvd (Nat.mul_pos hp0 (by positivity)) _
      ((x.den : Int) * ((2 : Int) ^ (d + 1) - 1)) ?_
    have hxq : x = (p : Rat) / (x.den : Rat) := by
      calc x = (x.num : Rat) / (x.den : Rat) := (Rat.num_div_den x).symm
        _ = (p : Rat) / (x.den : Rat) := by rw [hp]; simp
    have hden : (x.den : Rat) ≠ 0 := by exact_mod_cast x.den_nz
    have hp' : (p : Rat) ≠ 0 := by exact_mod_cast (Nat.pos_iff_ne_zero.mp hp0)
    have hvne : v ≠ 0 := ne_of_gt hv
    have hane : (a : Rat) ≠ 0 := ne_of_gt ha'
    have hbne : (b : Rat) ≠ 0 := ne_of_gt hb'
    have h2 := two_pow_ne d
    -- p / den = v a / b  hence  b / (v a) = den / p
    have hrel : (p : Rat) * (b : Rat) = v * (a : Rat) * (x.den : Rat) := by
      have h1 : v * (a : Rat) / (b : Rat) = (p : Rat) / (x.den : Rat) := hx ▸ hxq
      field_simp at h1
      linarith [h1]
    have e1 : 4 / v * (2 - 1 / (2 : Rat) ^ d) * (b : Rat) / (a : Rat)
        = 4 * (2 - 1 / (2 : Rat) ^ d) * ((b : Rat) / (v * (a : Rat))) := by
      field_simp
    have e2 : (b : Rat) / (v * (a : Rat)) = (x.den : Rat) / (p : Rat) := by
      field_simp
      linarith [hrel]
    rw [e1, e2]
    push_cast
    field_simp
    ring

end C19P
