/-
C04 — the track assembly: `sortEv` is a stable sort by tick; delta times and absolute times are
inverse to each other.
-/
import PartituraModel.Model.MidiPair
import Mathlib.Tactic.Linarith
import Mathlib.Data.List.Perm.Basic

namespace C04S
open Model Model.MidiPair

variable {α : Type}

theorem insertEv_perm (e : Int × α) (l : List (Int × α)) : (insertEv e l).Perm (e :: l) := by
  induction l with
  | nil => simp [insertEv]
  | cons a as ih =>
    simp only [insertEv]
    split
    · exact List.Perm.refl _
    · exact (List.Perm.cons a ih).trans (List.Perm.swap e a as)

theorem sortEv_cons (e : Int × α) (l : List (Int × α)) : sortEv (e :: l) = insertEv e (sortEv l) := rfl

theorem sortEv_perm (l : List (Int × α)) : (sortEv l).Perm l := by
  induction l with
  | nil => exact List.Perm.refl _
  | cons a as ih =>
    rw [sortEv_cons]
    exact (insertEv_perm a _).trans (List.Perm.cons a ih)

theorem mem_sortEv (l : List (Int × α)) (x : Int × α) : x ∈ sortEv l ↔ x ∈ l := (sortEv_perm l).mem_iff

/-- the order a stable sort by tick produces from a list whose elements are pairwise in relation `Q`:
    earlier tick first, equal ticks in the original (`Q`) order -/
def Lex (Q : Int × α → Int × α → Prop) (a b : Int × α) : Prop := a.1 < b.1 ∨ (a.1 = b.1 ∧ Q a b)

theorem insertEv_pairwise (Q : Int × α → Int × α → Prop) (e : Int × α) (l : List (Int × α))
    (hl : l.Pairwise (Lex Q)) (he : ∀ b ∈ l, Q e b) : (insertEv e l).Pairwise (Lex Q) := by
  induction l with
  | nil => simp [insertEv]
  | cons a as ih =>
    obtain ⟨ha, has⟩ := List.pairwise_cons.mp hl
    simp only [insertEv]
    split
    · rename_i hle
      refine List.pairwise_cons.mpr ⟨?_, hl⟩
      intro x hx
      have hax : a.1 ≤ x.1 := by
        rcases List.mem_cons.mp hx with rfl | hx'
        · exact le_refl _
        · rcases ha x hx' with h | h
          · exact le_of_lt h
          · exact le_of_eq h.1
      rcases lt_or_eq_of_le (le_trans hle hax) with h | h
      · exact Or.inl h
      · exact Or.inr ⟨h, he x hx⟩
    · rename_i hnle
      refine List.pairwise_cons.mpr ⟨?_, ih has (fun b hb => he b (List.mem_cons_of_mem _ hb))⟩
      intro x hx
      rcases List.mem_cons.mp ((insertEv_perm e as).mem_iff.mp hx) with rfl | hx'
      · exact Or.inl (not_le.mp hnle)
      · exact ha x hx'

theorem sortEv_pairwise (Q : Int × α → Int × α → Prop) (l : List (Int × α)) (hl : l.Pairwise Q) :
    (sortEv l).Pairwise (Lex Q) := by
  induction l with
  | nil => simp [sortEv]
  | cons a as ih =>
    obtain ⟨ha, has⟩ := List.pairwise_cons.mp hl
    rw [sortEv_cons]
    exact insertEv_pairwise Q a _ (ih has) (fun b hb => ha b ((mem_sortEv as b).mp hb))

/-- ascending ticks -/
theorem sortEv_sorted (l : List (Int × α)) : (sortEv l).Pairwise (fun a b => a.1 ≤ b.1) := by
  have h := sortEv_pairwise (fun _ _ => True) l (List.pairwise_of_forall (fun _ _ => trivial))
  refine h.imp ?_
  intro a b hab
  rcases hab with h | h
  · exact le_of_lt h
  · exact le_of_eq h.1

theorem insertEv_filter (e : Int × α) (l : List (Int × α)) (t : Int) :
    (insertEv e l).filter (fun x => x.1 = t) = (e :: l).filter (fun x => x.1 = t) := by
  induction l with
  | nil => simp [insertEv]
  | cons a as ih =>
    simp only [insertEv]
    split
    · rfl
    · rename_i hnle
      have hlt : a.1 < e.1 := not_le.mp hnle
      rw [List.filter_cons, ih]
      by_cases het : e.1 = t
      · have hat : ¬ a.1 = t := by omega
        simp [het, hat]
      · simp [List.filter_cons, het]

/-- stability: the events of one tick keep their insertion order -/
theorem sortEv_stable (l : List (Int × α)) (t : Int) :
    (sortEv l).filter (fun x => x.1 = t) = l.filter (fun x => x.1 = t) := by
  induction l with
  | nil => rfl
  | cons a as ih =>
    rw [sortEv_cons, insertEv_filter, List.filter_cons, List.filter_cons, ih]

theorem insertEv_map {β : Type} (f : α → β) (e : Int × α) (l : List (Int × α)) :
    (insertEv e l).map (fun x => (x.1, f x.2)) = insertEv (e.1, f e.2) (l.map fun x => (x.1, f x.2)) := by
  induction l with
  | nil => simp [insertEv]
  | cons a as ih =>
    simp only [insertEv, List.map_cons]
    split
    · simp
    · simp [ih]

/-- sorting looks at the ticks only -/
theorem sortEv_map {β : Type} (f : α → β) (l : List (Int × α)) :
    (sortEv l).map (fun x => (x.1, f x.2)) = sortEv (l.map fun x => (x.1, f x.2)) := by
  induction l with
  | nil => rfl
  | cons a as ih =>
    rw [sortEv_cons, insertEv_map, ih]
    rfl

theorem insertEv_filter_sorted (p : Int × α → Bool) (e : Int × α) (l : List (Int × α))
    (hl : l.Pairwise (fun a b => a.1 ≤ b.1)) :
    (insertEv e l).filter p = if p e then insertEv e (l.filter p) else l.filter p := by
  induction l with
  | nil => by_cases h : p e <;> simp [insertEv, h]
  | cons a as ih =>
    obtain ⟨ha, has⟩ := List.pairwise_cons.mp hl
    simp only [insertEv]
    split
    · rename_i hle
      -- `e` goes to the front; every kept element is not earlier than `a`
      have hfront : ∀ m : List (Int × α), (∀ x ∈ m, e.1 ≤ x.1) → insertEv e m = e :: m := by
        intro m hm
        cases m with
        | nil => rfl
        | cons x xs => simp [insertEv, hm x List.mem_cons_self]
      have hall : ∀ x ∈ (a :: as).filter p, e.1 ≤ x.1 := by
        intro x hx
        rcases List.mem_cons.mp (List.mem_filter.mp hx).1 with rfl | hx'
        · exact hle
        · exact le_trans hle (ha x hx')
      by_cases hp : p e
      · simp only [hp, if_true, List.filter_cons_of_pos]
        rw [hfront _ hall]
      · simp [hp]
    · rename_i hnle
      by_cases hpa : p a
      · rw [List.filter_cons_of_pos (by simpa using hpa), ih has, List.filter_cons_of_pos (by simpa using hpa)]
        by_cases hp : p e
        · simp only [hp, if_true, insertEv, hnle, if_false]
        · simp [hp]
      · rw [List.filter_cons_of_neg (by simpa using hpa), ih has, List.filter_cons_of_neg (by simpa using hpa)]

/-- selecting events commutes with sorting -/
theorem sortEv_filter (p : Int × α → Bool) (l : List (Int × α)) : (sortEv l).filter p = sortEv (l.filter p) := by
  induction l with
  | nil => rfl
  | cons a as ih =>
    rw [sortEv_cons, insertEv_filter_sorted p a _ (sortEv_sorted as), ih]
    by_cases hp : p a
    · simp [hp, List.filter_cons_of_pos, sortEv_cons]
    · simp [hp, List.filter_cons_of_neg]

-- ------------------------------------------------------------------ delta times

theorem absolute_deltas (prev : Int) (l : List (Int × α)) : absoluteFrom prev (deltasFrom prev l) = l := by
  induction l generalizing prev with
  | nil => rfl
  | cons a as ih =>
    obtain ⟨t, m⟩ := a
    simp only [deltasFrom, absoluteFrom]
    have : prev + (t - prev) = t := by omega
    rw [this, ih]

theorem deltas_absolute (prev : Int) (l : List (Int × α)) : deltasFrom prev (absoluteFrom prev l) = l := by
  induction l generalizing prev with
  | nil => rfl
  | cons a as ih =>
    obtain ⟨d, m⟩ := a
    simp only [absoluteFrom, deltasFrom]
    have : prev + d - prev = d := by omega
    rw [this, ih]

/-- ascending ticks starting at or after `prev` give non-negative delta times (the track can be written) -/
theorem deltas_nonneg (prev : Int) (l : List (Int × α)) (hs : l.Pairwise (fun a b => a.1 ≤ b.1))
    (h0 : ∀ x ∈ l, prev ≤ x.1) : ∀ x ∈ deltasFrom prev l, 0 ≤ x.1 := by
  induction l generalizing prev with
  | nil => intro x hx; cases hx
  | cons a as ih =>
    obtain ⟨t, m⟩ := a
    obtain ⟨ha, has⟩ := List.pairwise_cons.mp hs
    intro x hx
    simp only [deltasFrom, List.mem_cons] at hx
    rcases hx with rfl | hx
    · have := h0 (t, m) List.mem_cons_self
      simp only at this ⊢
      omega
    · exact ih t has (fun y hy => ha y hy) x hx

end C04S
