/-
Helper lemmas for C05: least common multiple of the parts' divisions, exact rescaling,
injectivity of the part prefix of ids.
-/
import PartituraModel.Proofs.C05Sort
import PartituraModel.Proofs.Digits
import Mathlib.Tactic.FieldSimp
import Mathlib.Tactic.IntervalCases

namespace NoteArray

open List Model

-- ------------------------------------------------------------------ lcm

theorem foldl_lcm_dvd : ∀ (l : List Nat) (acc : Nat),
    acc ∣ l.foldl Nat.lcm acc ∧ ∀ d ∈ l, d ∣ l.foldl Nat.lcm acc := by
  intro l
  induction l with
  | nil => intro acc; simp
  | cons a l ih =>
    intro acc
    simp only [foldl_cons]
    obtain ⟨h1, h2⟩ := ih (Nat.lcm acc a)
    refine ⟨Nat.dvd_trans (Nat.dvd_lcm_left acc a) h1, ?_⟩
    intro d hd
    rcases mem_cons.mp hd with rfl | hd
    · exact Nat.dvd_trans (Nat.dvd_lcm_right acc d) h1
    · exact h2 d hd

theorem foldl_lcm_least : ∀ (l : List Nat) (acc k : Nat), acc ∣ k → (∀ d ∈ l, d ∣ k) →
    l.foldl Nat.lcm acc ∣ k := by
  intro l
  induction l with
  | nil => intro acc k h _; simpa using h
  | cons a l ih =>
    intro acc k hacc hl
    simp only [foldl_cons]
    apply ih
    · exact Nat.lcm_dvd hacc (hl a mem_cons_self)
    · intro d hd; exact hl d (mem_cons_of_mem _ hd)

theorem foldl_lcm_pos : ∀ (l : List Nat) (acc : Nat), 0 < acc → (∀ d ∈ l, 0 < d) →
    0 < l.foldl Nat.lcm acc := by
  intro l
  induction l with
  | nil => intro acc h _; simpa using h
  | cons a l ih =>
    intro acc hacc hl
    simp only [foldl_cons]
    apply ih
    · exact Nat.lcm_pos hacc (hl a mem_cons_self)
    · intro d hd; exact hl d (mem_cons_of_mem _ hd)

/-- every element divides `natLcm` -/
theorem dvd_natLcm (l : List Nat) (d : Nat) (h : d ∈ l) : d ∣ natLcm l :=
  (foldl_lcm_dvd l 1).2 d h

/-- `natLcm` divides every common multiple -/
theorem natLcm_dvd (l : List Nat) (k : Nat) (h : ∀ d ∈ l, d ∣ k) : natLcm l ∣ k :=
  foldl_lcm_least l 1 k (Nat.one_dvd k) h

theorem natLcm_pos (l : List Nat) (h : ∀ d ∈ l, 0 < d) : 0 < natLcm l :=
  foldl_lcm_pos l 1 Nat.one_pos h

/-- multiplying by the integer `L / d` and reading the result on the grid `L` gives the same
    rational time as the original value on the grid `d` -/
theorem rescale_exact (x : Int) (d L : Nat) (hd : 0 < d) (hL : 0 < L) (hdvd : d ∣ L) :
    (((x * ((L / d : Nat) : Int) : Int) : Rat) / (L : Rat)) = (x : Rat) / (d : Rat) := by
  obtain ⟨k, rfl⟩ := hdvd
  have hk : 0 < k := by
    rcases Nat.eq_zero_or_pos k with h | h
    · subst h; simp at hL
    · exact h
  rw [Nat.mul_div_cancel_left k hd]
  have hd' : (d : Rat) ≠ 0 := by exact_mod_cast (Nat.pos_iff_ne_zero.mp hd)
  have hk' : (k : Rat) ≠ 0 := by exact_mod_cast (Nat.pos_iff_ne_zero.mp hk)
  push_cast
  field_simp

-- ------------------------------------------------------------------ digits and the id prefix

def digitFold (n : Nat) (c : Char) : Nat := 10 * n + (c.toNat - '0'.toNat)

theorem digitsToNat_eq (cs : List Char) : digitsToNat cs = cs.foldl digitFold 0 := rfl

theorem digitChar_val (d : Nat) (h : d < 10) : (digitChar d).toNat - '0'.toNat = d := by
  interval_cases d <;> decide

theorem digitChar_ne_underscore (d : Nat) (h : d < 10) : digitChar d ≠ '_' := by
  interval_cases d <;> decide

theorem pad2_value (i : Nat) : digitsToNat (pad2 i) = i := by
  unfold pad2
  split
  · rename_i h
    rw [digitsToNat_eq]
    simp only [foldl_cons, foldl_nil, digitFold]
    rw [digitChar_val i h]
    decide +revert
  · exact Digits.digitsToNat_natDigits i

theorem pad2_no_underscore (i : Nat) : '_' ∉ pad2 i := by
  unfold pad2
  split
  · rename_i h
    intro hm
    rcases mem_cons.mp hm with h0 | hm
    · exact absurd h0 (by decide)
    · rcases mem_cons.mp hm with h1 | hm
      · exact digitChar_ne_underscore i h h1.symm
      · simp at hm
  · intro hm
    have := (Digits.natDigits_all i '_' hm).1
    exact absurd this (by decide)

theorem pad2_injective (i j : Nat) (h : pad2 i = pad2 j) : i = j := by
  have := congrArg digitsToNat h
  rwa [pad2_value, pad2_value] at this

/-- splitting at the first occurrence of a separator is unique -/
theorem append_sep_inj {α : Type} (s : α) : ∀ (l1 l2 r1 r2 : List α), s ∉ l1 → s ∉ l2 →
    l1 ++ s :: r1 = l2 ++ s :: r2 → l1 = l2 ∧ r1 = r2 := by
  intro l1
  induction l1 with
  | nil =>
    intro l2 r1 r2 _ h2 h
    cases l2 with
    | nil => simp at h; exact ⟨rfl, h⟩
    | cons c l2 =>
      simp at h
      exact absurd (by rw [h.1]; exact mem_cons_self) h2
  | cons a l1 ih =>
    intro l2 r1 r2 h1 h2 h
    cases l2 with
    | nil =>
      simp at h
      exact absurd (by rw [← h.1]; exact mem_cons_self) h1
    | cons c l2 =>
      simp at h
      obtain ⟨hac, ht⟩ := h
      have := ih l2 r1 r2 (fun hm => h1 (mem_cons_of_mem _ hm)) (fun hm => h2 (mem_cons_of_mem _ hm)) ht
      exact ⟨by rw [hac, this.1], this.2⟩

theorem prefixId_injective (i j : Nat) (a b : String) (h : prefixId i a = prefixId j b) :
    i = j ∧ a = b := by
  unfold prefixId at h
  have h' := congrArg String.toList h
  simp only [String.toList_ofList, cons.injEq, true_and] at h'
  obtain ⟨hp, hr⟩ := append_sep_inj '_' _ _ _ _ (pad2_no_underscore i) (pad2_no_underscore j) h'
  exact ⟨pad2_injective i j hp, String.toList_inj.mp hr⟩

-- ------------------------------------------------------------------ prefixFrom

theorem prefixFrom_length : ∀ (ts : List (List Row)) (i : Nat), (prefixFrom i ts).length = ts.length := by
  intro ts
  induction ts with
  | nil => intro i; rfl
  | cons t ts ih => intro i; simp [prefixFrom, ih]

theorem prefixFrom_getElem? : ∀ (ts : List (List Row)) (i k : Nat),
    (prefixFrom i ts)[k]? = (ts[k]?).map (prefixTable (i + k)) := by
  intro ts
  induction ts with
  | nil => intro i k; simp [prefixFrom]
  | cons t ts ih =>
    intro i k
    cases k with
    | zero => simp [prefixFrom]
    | succ k =>
      simp only [prefixFrom, getElem?_cons_succ]
      rw [ih (i + 1) k]
      congr 2
      omega

end NoteArray
