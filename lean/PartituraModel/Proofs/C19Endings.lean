/-
Helper lemmas for `Props/C19Endings.lean`:

1. an `<ending>` is as transparent as a `<section>`: a state machine run does not see whether a grouping frame on the
   stack is a `section` or an `ending` (simulation `SimG`);
2. a whole `<scoreDef>` element is read the same way with and without a grouping frame right below it on the stack
   (`sd_frame_indep`) — so a signature change may stand at the end of the previous container, between the containers
   or at the start of the next one.

The state machine of `Model/Mei.lean` is not changed; `openCore` / `closeCore` are those of `Proofs/C19Sections.lean`.
-/
import PartituraModel.Proofs.C19Sections

set_option linter.unusedSimpArgs false
set_option linter.unusedVariables false

namespace C19E
open Model Model.Mei C19S

/-- the two elements that only group measures -/
def isGrp (t : String) : Prop := t = "section" ∨ t = "ending"

def FrG (f g : Frame) : Prop := f = g ∨ (isGrp f.tag ∧ isGrp g.tag)

inductive StkG : List Frame → List Frame → Prop
  | nil : StkG [] []
  | cons {f g : Frame} {a b : List Frame} : FrG f g → StkG a b → StkG (f :: a) (g :: b)

theorem StkG.refl (s : List Frame) : StkG s s := by
  induction s with
  | nil => exact .nil
  | cons f r ih => exact .cons (Or.inl rfl) ih

theorem tupletsOf_cons_grp (f : Frame) (s : List Frame) (h : isGrp f.tag) : tupletsOf (f :: s) = tupletsOf s := by
  rcases h with h | h <;> simp [tupletsOf, h]

theorem inLayer_cons_grp (f : Frame) (s : List Frame) (h : isGrp f.tag) : inLayer (f :: s) = inLayer s := by
  rcases h with h | h <;> simp [inLayer, h]

theorem tupletsOf_stkG {a b : List Frame} (h : StkG a b) : tupletsOf a = tupletsOf b := by
  induction h with
  | nil => rfl
  | cons hf _ ih =>
    rcases hf with rfl | ⟨h1, h2⟩
    · exact tupletsOf_cons _ _ _ ih
    · rw [tupletsOf_cons_grp _ _ h1, tupletsOf_cons_grp _ _ h2, ih]

theorem inLayer_stkG {a b : List Frame} (h : StkG a b) : inLayer a = inLayer b := by
  induction h with
  | nil => rfl
  | cons hf _ ih =>
    rcases hf with rfl | ⟨h1, h2⟩
    · exact inLayer_cons _ _ _ ih
    · rw [inLayer_cons_grp _ _ h1, inLayer_cons_grp _ _ h2, ih]

theorem ctxOf_grp_top (s : List Frame) (h : isGrp (ptagOf s)) :
    ctxOf s = ⟨ptagOf s, [], tupletsOf s, inLayer s⟩ := by
  rcases h with h | h <;> simp [ctxOf, h]

/-- `coreBody` does not tell a `section` parent from an `ending` parent -/
theorem coreBody_grp (p p' : String) (hp : isGrp p) (hp' : isGrp p') (tups : List (Nat × Nat)) (lay : Bool)
    (st : St) (tag : String) (as : List (String × String)) :
    coreBody ⟨p, [], tups, lay⟩ st tag as = coreBody ⟨p', [], tups, lay⟩ st tag as := by
  rcases hp with rfl | rfl <;> rcases hp' with rfl | rfl
  · rfl
  · simp [coreBody]
  · simp [coreBody]
  · rfl

theorem openCore_grp (p p' : String) (hp : isGrp p) (hp' : isGrp p') (tups : List (Nat × Nat)) (lay : Bool)
    (st : St) (tag : String) (as : List (String × String)) :
    openCore ⟨p, [], tups, lay⟩ st tag as = openCore ⟨p', [], tups, lay⟩ st tag as := by
  unfold openCore
  exact bind_ext _ _ _ fun s => coreBody_grp p p' hp hp' tups lay s tag as

/-- what the step functions see of two `StkG`-related stacks is the same -/
theorem openCore_stkG {a b : List Frame} (h : StkG a b) (st : St) (tag : String) (as : List (String × String)) :
    openCore (ctxOf a) st tag as = openCore (ctxOf b) st tag as := by
  have h2 := tupletsOf_stkG h
  have h3 := inLayer_stkG h
  cases h with
  | nil => rfl
  | @cons f g ra rb hf _ =>
    rcases hf with rfl | ⟨g1, g2⟩
    · have : ctxOf (f :: ra) = ctxOf (f :: rb) := by
        simp only [ctxOf, h2, h3]
        rfl
      rw [this]
    · have e1 : isGrp (ptagOf (f :: ra)) := by simpa [ptagOf] using g1
      have e2 : isGrp (ptagOf (g :: rb)) := by simpa [ptagOf] using g2
      rw [ctxOf_grp_top _ e1, ctxOf_grp_top _ e2, h2, h3]
      exact openCore_grp _ _ e1 e2 _ _ st tag as

theorem applyTop_stkG {a b : List Frame} (tm : TopMod) (h : StkG a b) : StkG (applyTop tm a) (applyTop tm b) := by
  cases h with
  | nil => cases tm <;> exact .nil
  | cons hf ht =>
    cases tm with
    | keep => exact .cons hf ht
    | meter m =>
      refine .cons ?_ ht
      rcases hf with rfl | ⟨g1, g2⟩
      · exact Or.inl rfl
      · exact Or.inr ⟨g1, g2⟩
    | key k =>
      refine .cons ?_ ht
      rcases hf with rfl | ⟨g1, g2⟩
      · exact Or.inl rfl
      · exact Or.inr ⟨g1, g2⟩
    | clef c =>
      refine .cons ?_ ht
      rcases hf with rfl | ⟨g1, g2⟩
      · exact Or.inl rfl
      · exact Or.inr ⟨g1, g2⟩

theorem closeCore_grp (f : Frame) (b : String) (st : St) (h : isGrp f.tag) : closeCore f b st = some st := by
  rcases h with h | h <;> simp [closeCore, h]

/-- `closeCore` looks at the element below only to see whether it is a `staff` / a `measure` -/
theorem closeCore_below (f : Frame) (b b' : String) (st : St)
    (h : b = b' ∨ (isGrp b ∧ isGrp b')) : closeCore f b st = closeCore f b' st := by
  rcases h with rfl | ⟨h1, h2⟩
  · rfl
  · rcases h1 with rfl | rfl <;> rcases h2 with rfl | rfl <;> simp [closeCore]

theorem ptagOf_stkG {a b : List Frame} (h : StkG a b) : ptagOf a = ptagOf b ∨ (isGrp (ptagOf a) ∧ isGrp (ptagOf b)) := by
  cases h with
  | nil => exact Or.inl rfl
  | cons hf _ =>
    rcases hf with rfl | ⟨g1, g2⟩
    · exact Or.inl rfl
    · exact Or.inr ⟨by simpa [ptagOf] using g1, by simpa [ptagOf] using g2⟩

/-- same core, stacks that differ only in which grouping element (and with which attributes) a frame is -/
def SimG (a b : St) : Prop := core a = core b ∧ StkG a.stack b.stack

theorem step_simG (a b : St) (e : Ev) (h : SimG a b) : RelOpt SimG (stepEv a e) (stepEv b e) := by
  obtain ⟨hc, hs⟩ := h
  cases e with
  | op tag as =>
    rw [stepEv_op, stepEv_op, hc, openCore_stkG hs]
    cases openCore (ctxOf b.stack) (core b) tag as with
    | none => exact trivial
    | some r => exact ⟨rfl, .cons (Or.inl rfl) (applyTop_stkG r.2 hs)⟩
  | cl =>
    rw [stepEv_cl, stepEv_cl]
    generalize hsa : a.stack = sa at hs
    generalize hsb : b.stack = sb at hs
    cases hs with
    | nil => exact trivial
    | @cons f g ra rb hf ht =>
      simp only []
      rw [hc]
      rcases hf with rfl | ⟨g1, g2⟩
      · rw [closeCore_below f (ptagOf ra) (ptagOf rb) (core b) (ptagOf_stkG ht)]
        cases closeCore f (ptagOf rb) (core b) with
        | none => exact trivial
        | some x => exact ⟨rfl, ht⟩
      · rw [closeCore_grp _ _ _ g1, closeCore_grp _ _ _ g2]
        exact ⟨rfl, ht⟩

theorem run_simG (evs : List Ev) (a b : St) (h : SimG a b) : RelOpt SimG (runEvs a evs) (runEvs b evs) := by
  induction evs generalizing a b with
  | nil => exact h
  | cons e es ih =>
    simp only [runEvs]
    have hstep := step_simG a b e h
    cases ha : stepEv a e with
    | none =>
      cases hb : stepEv b e with
      | none => exact trivial
      | some y => simp [ha, hb, RelOpt] at hstep
    | some x =>
      cases hb : stepEv b e with
      | none => simp [ha, hb, RelOpt] at hstep
      | some y =>
        simp only [ha, hb, RelOpt] at hstep
        exact ih x y hstep

/-- opening an `<ending>` (attributes without duration / beat unit): only the frame is pushed -/
theorem openCore_ending (c : Ctx) (st : St) (as : List (String × String)) (hp : PlainAttrs as) :
    openCore c st "ending" as = some (st, .keep) := by
  obtain ⟨h1, h2⟩ := hp
  simp [openCore, coreBody, recordDurElT, recordUnits, h1, h2]

theorem stepEv_ending (st : St) (as : List (String × String)) (hp : PlainAttrs as) :
    stepEv st (.op "ending" as) = some (withStack st (newFrame "ending" as :: st.stack)) := by
  rw [stepEv_op, openCore_ending _ _ _ hp]
  simp only [Option.map_some, applyTop_keep]
  rfl

/-! ## a whole `<scoreDef>` element does not see a grouping frame right below it -/

theorem ctxOf_ins_ne (s low : List Frame) (x : Frame) (hx : isGrp x.tag) (hne : s ≠ []) :
    ctxOf (s ++ x :: low) = ctxOf (s ++ low) := by
  have ht : tupletsOf (s ++ x :: low) = tupletsOf (s ++ low) := by
    rw [tupletsOf_append, tupletsOf_append, tupletsOf_cons_grp _ _ hx]
  have hl : inLayer (s ++ x :: low) = inLayer (s ++ low) := by
    rw [inLayer_append, inLayer_append, inLayer_cons_grp _ _ hx]
  cases s with
  | nil => exact absurd rfl hne
  | cons t ts =>
    simp only [List.cons_append] at ht hl ⊢
    simp only [ctxOf, ht, hl]
    rfl

theorem applyTop_snoc (tm : TopMod) (top : List Frame) (t0 : Frame) :
    ∃ (top' : List Frame) (t0' : Frame), top'.length = top.length ∧ t0'.tag = t0.tag ∧
      ∀ rest : List Frame, applyTop tm (top ++ t0 :: rest) = top' ++ t0' :: rest := by
  cases top with
  | nil =>
    cases tm with
    | keep => exact ⟨[], t0, rfl, rfl, fun _ => rfl⟩
    | meter m => exact ⟨[], { t0 with cMeter := m }, rfl, rfl, fun _ => rfl⟩
    | key k => exact ⟨[], { t0 with cKey := k }, rfl, rfl, fun _ => rfl⟩
    | clef c => exact ⟨[], { t0 with cClef := c }, rfl, rfl, fun _ => rfl⟩
  | cons t ts =>
    cases tm with
    | keep => exact ⟨t :: ts, t0, rfl, rfl, fun _ => rfl⟩
    | meter m => exact ⟨{ t with cMeter := m } :: ts, t0, rfl, rfl, fun _ => rfl⟩
    | key k => exact ⟨{ t with cKey := k } :: ts, t0, rfl, rfl, fun _ => rfl⟩
    | clef c => exact ⟨{ t with cClef := c } :: ts, t0, rfl, rfl, fun _ => rfl⟩

/-- same core; both stacks hold the open `scoreDef` frame `t0` under `d` further frames, the left one has the extra
    grouping frame `x` right below `t0` -/
def SimJ (x : Frame) (low : List Frame) (d : Nat) (a b : St) : Prop :=
  core a = core b ∧ ∃ (top : List Frame) (t0 : Frame), top.length = d ∧ t0.tag = "scoreDef" ∧
    a.stack = top ++ t0 :: x :: low ∧ b.stack = top ++ t0 :: low

theorem closeCore_scoreDef_below (f : Frame) (b b' : String) (st : St) (h : f.tag = "scoreDef") :
    closeCore f b st = closeCore f b' st := by
  simp [closeCore, h]

theorem run_simJ (x : Frame) (low : List Frame) (hx : isGrp x.tag) (evs : List Ev) :
    ∀ (d d' : Nat) (a b : St), SimJ x low d a b → balAux d evs = some d' →
      RelOpt (SimJ x low d') (runEvs a evs) (runEvs b evs) := by
  induction evs with
  | nil =>
    intro d d' a b h hb
    simp only [balAux, Option.some.injEq] at hb
    subst hb
    exact h
  | cons e es ih =>
    intro d d' a b h hb
    obtain ⟨hc, top, t0, hlen, ht0, hsa, hsb⟩ := h
    simp only [runEvs]
    cases e with
    | op tag as =>
      simp only [balAux] at hb
      have hctx : ctxOf (top ++ t0 :: x :: low) = ctxOf (top ++ t0 :: low) := by
        have := ctxOf_ins_ne (top ++ [t0]) low x hx (by simp)
        simpa [List.append_assoc] using this
      rw [stepEv_op, stepEv_op, hc, hsa, hsb, hctx]
      cases hr : openCore (ctxOf (top ++ t0 :: low)) (core b) tag as with
      | none => exact trivial
      | some r =>
        simp only [Option.map_some]
        refine ih (d + 1) d' _ _ ?_ hb
        obtain ⟨top', t0', hl', htag', happ⟩ := applyTop_snoc r.2 top t0
        refine ⟨rfl, newFrame tag as :: top', t0', by simp [hl', hlen], by rw [htag', ht0], ?_, ?_⟩
        · show newFrame tag as :: applyTop r.2 (top ++ t0 :: x :: low) = _
          rw [happ]; rfl
        · show newFrame tag as :: applyTop r.2 (top ++ t0 :: low) = _
          rw [happ]; rfl
    | cl =>
      cases top with
      | nil =>
        simp only [List.length_nil] at hlen
        subst hlen
        simp [balAux] at hb
      | cons t ts =>
        simp only [List.length_cons] at hlen
        subst hlen
        simp only [balAux] at hb
        rw [stepEv_cl, stepEv_cl, hsa, hsb]
        simp only [List.cons_append]
        have hp : ptagOf (ts ++ t0 :: x :: low) = ptagOf (ts ++ t0 :: low) := by
          cases ts <;> rfl
        rw [hc, hp]
        cases closeCore t (ptagOf (ts ++ t0 :: low)) (core b) with
        | none => exact trivial
        | some y =>
          simp only [Option.map_some]
          exact ih ts.length d' _ _ ⟨rfl, ts, t0, rfl, ht0, rfl, rfl⟩ hb

/-- `openCore` for a `scoreDef` looks at the enclosing tuplets only (to record a `@dur`) and writes nothing into its parent -/
theorem openCore_scoreDef_ctx (c c' : Ctx) (st : St) (as : List (String × String)) (h : c.tups = c'.tups) :
    openCore c st "scoreDef" as = openCore c' st "scoreDef" as ∧
    ∀ r, openCore c st "scoreDef" as = some r → r.2 = .keep := by
  unfold openCore
  rw [h]
  constructor
  · refine bind_ext _ _ _ fun s => ?_
    simp [coreBody]
  · intro r hr
    cases h2 : recordDurElT c'.tups (recordUnits st "scoreDef" as) as with
    | none => simp [h2] at hr
    | some s =>
      simp only [h2, Option.bind_some] at hr
      simp [coreBody] at hr
      split at hr <;> (simp at hr; rw [← hr])

/-- a whole `<scoreDef>` element (its children included) changes the state in the same way with and without a grouping
    frame `x` on top of the stack below it, and leaves the stack as it found it -/
theorem sd_frame_indep (st : St) (x : Frame) (low : List Frame) (hs : st.stack = x :: low) (hx : isGrp x.tag)
    (as : List (String × String)) (inner : List Ev) (hb : Balanced inner) :
    RelOpt (fun a b => core a = core b ∧ a.stack = x :: low ∧ b.stack = low)
      (runEvs st (.op "scoreDef" as :: (inner ++ [.cl]))) (runEvs (withStack st low) (.op "scoreDef" as :: (inner ++ [.cl]))) := by
  simp only [runEvs]
  rw [stepEv_op, stepEv_op, hs]
  have htu : (ctxOf (x :: low)).tups = (ctxOf (withStack st low).stack).tups := by
    show tupletsOf (x :: low) = tupletsOf low
    exact tupletsOf_cons_grp x low hx
  obtain ⟨heq, hkeep⟩ := openCore_scoreDef_ctx (ctxOf (x :: low)) (ctxOf (withStack st low).stack) (core st) as htu
  rw [heq]
  have hcore : core (withStack st low) = core st := rfl
  rw [hcore]
  cases hr : openCore (ctxOf (withStack st low).stack) (core st) "scoreDef" as with
  | none => exact trivial
  | some r =>
    have hk : r.2 = .keep := hkeep r (by rw [heq, hr])
    simp only [Option.map_some, hk, applyTop_keep]
    rw [runEvs_append, runEvs_append]
    have hsim := run_simJ x low hx inner 0 0
      (withStack r.1 (newFrame "scoreDef" as :: x :: low)) (withStack r.1 (newFrame "scoreDef" as :: (withStack st low).stack))
      ⟨rfl, [], newFrame "scoreDef" as, rfl, rfl, rfl, rfl⟩ hb
    cases ha : runEvs (withStack r.1 (newFrame "scoreDef" as :: x :: low)) inner with
    | none =>
      cases hb' : runEvs (withStack r.1 (newFrame "scoreDef" as :: (withStack st low).stack)) inner with
      | none => exact trivial
      | some y => simp [ha, hb', RelOpt] at hsim
    | some a =>
      cases hb' : runEvs (withStack r.1 (newFrame "scoreDef" as :: (withStack st low).stack)) inner with
      | none => simp [ha, hb', RelOpt] at hsim
      | some b =>
        simp only [ha, hb', RelOpt] at hsim
        obtain ⟨hc, top, t0, hlen, ht0, hsa, hsb⟩ := hsim
        have htop : top = [] := List.eq_nil_of_length_eq_zero hlen
        subst htop
        simp only [List.nil_append] at hsa hsb
        simp only [Option.bind_some, runEvs]
        rw [stepEv_cl, stepEv_cl, hsa, hsb]
        simp only []
        rw [hc, closeCore_scoreDef_below t0 (ptagOf (x :: low)) (ptagOf low) (core b) ht0]
        cases closeCore t0 (ptagOf low) (core b) with
        | none => exact trivial
        | some y => exact ⟨rfl, rfl, rfl⟩

/-! ## a grouping element anywhere: inside a section, an ending, or directly in `<score>` -/

/-- parents the step functions do not single out: what a child does is the same under any of them -/
def Neutral (p : String) : Prop :=
  p ≠ "staffDef" ∧ p ≠ "scoreDef" ∧ p ≠ "measure" ∧ p ≠ "staff" ∧ p ≠ "chord" ∧ p ≠ "note"

theorem neutral_of_grp (p : String) (h : isGrp p) : Neutral p := by
  rcases h with rfl | rfl <;> simp [Neutral]

theorem coreBody_neutral (p p' : String) (hp : Neutral p) (hp' : Neutral p') (tups : List (Nat × Nat)) (lay : Bool)
    (st : St) (tag : String) (as : List (String × String)) :
    coreBody ⟨p, [], tups, lay⟩ st tag as = coreBody ⟨p', [], tups, lay⟩ st tag as := by
  obtain ⟨a1, a2, a3, a4, a5, a6⟩ := hp
  obtain ⟨b1, b2, b3, b4, b5, b6⟩ := hp'
  simp [coreBody, a1, a2, a3, a4, a5, a6, b1, b2, b3, b4, b5, b6]

theorem openCore_neutral (p p' : String) (hp : Neutral p) (hp' : Neutral p') (tups : List (Nat × Nat)) (lay : Bool)
    (st : St) (tag : String) (as : List (String × String)) :
    openCore ⟨p, [], tups, lay⟩ st tag as = openCore ⟨p', [], tups, lay⟩ st tag as := by
  unfold openCore
  exact bind_ext _ _ _ fun s => coreBody_neutral p p' hp hp' tups lay s tag as

theorem ctxOf_neutral_top (s : List Frame) (h : Neutral (ptagOf s)) :
    ctxOf s = ⟨ptagOf s, [], tupletsOf s, inLayer s⟩ := by
  obtain ⟨a1, _, _, _, _, a6⟩ := h
  simp [ctxOf, a1, a6]

theorem closeCore_below_neutral (f : Frame) (b b' : String) (st : St)
    (h1 : b ≠ "staff") (h2 : b ≠ "measure") (h3 : b' ≠ "staff") (h4 : b' ≠ "measure") :
    closeCore f b st = closeCore f b' st := by
  simp [closeCore, h1, h2, h3, h4]

/-- like `C19S.run_simI`, for a `section` or `ending` frame `x` above any neutral element (`section`, `ending`, `score`, …) -/
theorem run_simK (x : Frame) (low : List Frame) (hx : isGrp x.tag) (hlow : Neutral (ptagOf low))
    (evs : List Ev) : ∀ (d d' : Nat) (a b : St), SimI x low d a b → balAux d evs = some d' →
      RelOpt (SimI x low d') (runEvs a evs) (runEvs b evs) := by
  have hxn : Neutral (ptagOf (x :: low)) := neutral_of_grp _ (by simpa [ptagOf] using hx)
  induction evs with
  | nil =>
    intro d d' a b h hb
    simp only [balAux, Option.some.injEq] at hb
    subst hb
    exact h
  | cons e es ih =>
    intro d d' a b h hb
    obtain ⟨hc, top, hlen, hsa, hsb⟩ := h
    simp only [runEvs]
    cases e with
    | op tag as =>
      simp only [balAux] at hb
      rw [stepEv_op, stepEv_op, hc, hsa, hsb]
      cases top with
      | nil =>
        simp only [List.nil_append]
        have hopen : openCore (ctxOf (x :: low)) (core b) tag as = openCore (ctxOf low) (core b) tag as := by
          rw [ctxOf_neutral_top _ hxn, ctxOf_neutral_top _ hlow, tupletsOf_cons_grp _ _ hx, inLayer_cons_grp _ _ hx]
          exact openCore_neutral _ _ hxn hlow _ _ _ _ _
        rw [hopen]
        have htm := openCore_tm (ctxOf low) (core b) tag as
        cases hr : openCore (ctxOf low) (core b) tag as with
        | none => exact trivial
        | some r =>
          simp only [Option.map_some]
          refine ih (d + 1) d' _ _ ?_ hb
          refine ⟨rfl, ?_⟩
          rw [hr] at htm
          have hk : r.2 = .keep := by
            rcases htm with h1 | h1 | h1
            · exact h1
            · exact absurd h1 hlow.1
            · exact absurd h1 hlow.2.1
          refine ⟨[newFrame tag as], by simp [← hlen], ?_, ?_⟩
          · show newFrame tag as :: applyTop r.2 (x :: low) = _
            rw [hk]; rfl
          · show newFrame tag as :: applyTop r.2 low = _
            rw [hk]; rfl
      | cons t ts =>
        rw [ctxOf_ins_ne (t :: ts) low x hx (by simp)]
        cases hr : openCore (ctxOf (t :: ts ++ low)) (core b) tag as with
        | none => exact trivial
        | some r =>
          simp only [Option.map_some]
          refine ih (d + 1) d' _ _ ?_ hb
          refine ⟨rfl, ?_⟩
          obtain ⟨t', ht'⟩ := applyTop_cons_app r.2 t ts low
          refine ⟨newFrame tag as :: t' :: ts, by simp [← hlen], ?_, ?_⟩
          · show newFrame tag as :: applyTop r.2 (t :: ts ++ x :: low) = _
            rw [ht' (x :: low)]; rfl
          · show newFrame tag as :: applyTop r.2 (t :: ts ++ low) = _
            rw [ht' low]; rfl
    | cl =>
      cases top with
      | nil =>
        simp only [List.length_nil] at hlen
        subst hlen
        simp [balAux] at hb
      | cons t ts =>
        simp only [List.length_cons] at hlen
        subst hlen
        simp only [balAux] at hb
        rw [stepEv_cl, stepEv_cl, hsa, hsb]
        simp only [List.cons_append]
        have hcl : closeCore t (ptagOf (ts ++ x :: low)) (core b) = closeCore t (ptagOf (ts ++ low)) (core b) := by
          cases ts with
          | nil =>
            simp only [List.nil_append]
            exact closeCore_below_neutral t _ _ _ hxn.2.2.2.1 hxn.2.2.1 hlow.2.2.2.1 hlow.2.2.1
          | cons t2 ts2 => rfl
        rw [hc, hcl]
        cases closeCore t (ptagOf (ts ++ low)) (core b) with
        | none => exact trivial
        | some y =>
          simp only [Option.map_some]
          exact ih ts.length d' _ _ ⟨rfl, ts, rfl, rfl, rfl⟩ hb

theorem stepEv_cl_grp (st : St) (f : Frame) (rest : List Frame) (hs : st.stack = f :: rest) (hf : isGrp f.tag) :
    stepEv st .cl = some (withStack st rest) := by
  rw [stepEv_cl, hs]
  simp only [closeCore_grp _ _ _ hf, Option.map_some]
  rfl

/-- a whole `<ending>` element standing under any neutral parent reads as its content -/
theorem unnest_ending_state (st : St) (as : List (String × String)) (mid evs : List Ev)
    (hs : Neutral (ptagOf st.stack)) (hp : PlainAttrs as) (hb : Balanced mid) :
    runEvs st (.op "ending" as :: (mid ++ .cl :: evs)) = runEvs st (mid ++ evs) := by
  simp only [runEvs, stepEv_ending st as hp]
  rw [runEvs_append, runEvs_append]
  have hsim := run_simK (newFrame "ending" as) st.stack (Or.inr rfl) hs mid 0 0
    (withStack st (newFrame "ending" as :: st.stack)) st ⟨rfl, [], rfl, rfl, rfl⟩ hb
  cases ha : runEvs (withStack st (newFrame "ending" as :: st.stack)) mid with
  | none =>
    cases hb' : runEvs st mid with
    | none => rfl
    | some y => simp [ha, hb', RelOpt] at hsim
  | some a =>
    cases hb' : runEvs st mid with
    | none => simp [ha, hb', RelOpt] at hsim
    | some b =>
      simp only [ha, hb', RelOpt] at hsim
      obtain ⟨hc, top, hlen, hsa, hsb⟩ := hsim
      have htop : top = [] := List.eq_nil_of_length_eq_zero hlen
      subst htop
      simp only [List.nil_append] at hsa hsb
      simp only [Option.bind_some, runEvs]
      rw [stepEv_cl_grp a _ _ hsa (Or.inr rfl)]
      have : withStack a st.stack = b := eq_of_core _ _ hc (by show st.stack = b.stack; exact hsb.symm)
      rw [this]

/-- the same for a `<section>` once the music has started (`inSection`) -/
theorem unnest_section_state (st : St) (as : List (String × String)) (mid evs : List Ev)
    (hs : Neutral (ptagOf st.stack)) (hin : st.inSection = true) (hp : PlainAttrs as) (hb : Balanced mid) :
    runEvs st (.op "section" as :: (mid ++ .cl :: evs)) = runEvs st (mid ++ evs) := by
  simp only [runEvs, stepEv_section st as hp hin]
  rw [runEvs_append, runEvs_append]
  have hsim := run_simK (newFrame "section" as) st.stack (Or.inl rfl) hs mid 0 0
    (withStack st (newFrame "section" as :: st.stack)) st ⟨rfl, [], rfl, rfl, rfl⟩ hb
  cases ha : runEvs (withStack st (newFrame "section" as :: st.stack)) mid with
  | none =>
    cases hb' : runEvs st mid with
    | none => rfl
    | some y => simp [ha, hb', RelOpt] at hsim
  | some a =>
    cases hb' : runEvs st mid with
    | none => simp [ha, hb', RelOpt] at hsim
    | some b =>
      simp only [ha, hb', RelOpt] at hsim
      obtain ⟨hc, top, hlen, hsa, hsb⟩ := hsim
      have htop : top = [] := List.eq_nil_of_length_eq_zero hlen
      subst htop
      simp only [List.nil_append] at hsa hsb
      simp only [Option.bind_some, runEvs]
      rw [stepEv_cl_grp a _ _ hsa (Or.inl rfl)]
      have : withStack a st.stack = b := eq_of_core _ _ hc (by show st.stack = b.stack; exact hsb.symm)
      rw [this]

end C19E
