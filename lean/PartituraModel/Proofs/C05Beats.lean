/-
Helper lemmas for C05, inverse direction with beat columns only: the divisions chosen by
`divsFromBeats` put every (denominator-limited) onset and duration exactly on the grid.
-/
import PartituraModel.Proofs.C05Merge
import PartituraModel.Proofs.C05Inverse
import Mathlib.Tactic.Ring

namespace NoteArray

open List Model

theorem truncRat_intCast (z : Int) : truncRat (z : Rat) = z := by
  unfold truncRat
  split
  · have : (-(z : Rat)) = ((-z : Int) : Rat) := by push_cast; rfl
    rw [this, Rat.floor_intCast]; omega
  · exact Rat.floor_intCast z

/-- a multiple of the denominator times the fraction is an integer -/
theorem mul_den_int (k : Nat) (r : Rat) (h : r.den ∣ k) :
    ((k : Rat) * r) = (((((k / r.den : Nat) : Int) * r.num : Int)) : Rat) := by
  obtain ⟨c, rfl⟩ := h
  rw [Nat.mul_div_cancel_left c r.den_pos]
  have hr : r * (r.den : Rat) = (r.num : Rat) := Rat.mul_den_eq_num r
  push_cast
  calc (r.den : Rat) * (c : Rat) * r = (c : Rat) * (r * (r.den : Rat)) := by ring
    _ = (c : Rat) * (r.num : Rat) := by rw [hr]

theorem truncRat_mul_den (k : Nat) (r : Rat) (h : r.den ∣ k) :
    ((truncRat ((k : Rat) * r) : Int) : Rat) = (k : Rat) * r := by
  rw [mul_den_int k r h, truncRat_intCast]

theorem beatShift_nonneg (rows : List (Rat × Rat)) : 0 ≤ beatShift rows := by
  unfold beatShift
  split
  · split <;> omega
  · omega

/-- `divsFromBeats`: there is one non-negative shift such that every onset is at
    divisions × (limited onset) + shift and every duration is divisions × (limited duration) -/
theorem divsFromBeats_exact (rows : List (Rat × Rat)) :
    Forall₂ (fun (x : Rat × Rat) (y : Int × Int) =>
        (y.1 : Rat) = ((divsFromBeats rows).1 : Rat) * limitDen x.1 256 + (beatShift rows : Rat) ∧
        (y.2 : Rat) = ((divsFromBeats rows).1 : Rat) * limitDen x.2 256) rows (divsFromBeats rows).2 := by
  unfold divsFromBeats
  simp only
  unfold limited
  rw [map_map, forall₂_map_right_iff, forall₂_same]
  intro x hx
  have hmem : (limitDen x.1 256, limitDen x.2 256) ∈ limited rows :=
    mem_map_of_mem (f := fun x => (limitDen x.1 256, limitDen x.2 256)) hx
  have h1 : (limitDen x.1 256).den ∣ beatDivs rows := by
    apply dvd_natLcm
    exact mem_append_right _ (mem_map_of_mem (f := fun f : Rat × Rat => f.1.den) hmem)
  have h2 : (limitDen x.2 256).den ∣ beatDivs rows := by
    apply dvd_natLcm
    exact mem_append_left _ (mem_map_of_mem (f := fun f : Rat × Rat => f.2.den) hmem)
  simp only [Function.comp]
  constructor
  · push_cast
    rw [truncRat_mul_den _ _ h1]
  · exact truncRat_mul_den _ _ h2

/-- beat-only arrays: on the grid of the new part every note sits at its (limited) beat plus one
    common non-negative shift, lasts its (limited) beat duration, and keeps its pitch -/
theorem fromArray_beat (ht : Bool) (a : List ARow) (d : Nat) (l : List (Int × Int × Int))
    (h : fromArray true false ht a none = .ok (d, l)) :
    ∃ sh : Int, 0 ≤ sh ∧
      Forall₂ (fun (r : ARow) (x : Int × Int × Int) =>
        (x.1 : Rat) = (d : Rat) * limitDen r.onsetBeat 256 + (sh : Rat) ∧
        (x.2.1 : Rat) = (d : Rat) * limitDen r.durBeat 256 ∧ x.2.2 = r.pitch) (sortArr false a) l := by
  unfold fromArray at h
  split at h
  · cases h
  · split at h
    · cases h
    · simp only [Bool.not_false, ↓reduceIte] at h
      obtain ⟨hd, hl, _⟩ := finish_ok _ _ _ _ h
      have hf := divsFromBeats_exact ((sortArr false a).map fun r => (r.onsetBeat, r.durBeat))
      refine ⟨beatShift ((sortArr false a).map fun r => (r.onsetBeat, r.durBeat)), beatShift_nonneg _, ?_⟩
      rw [hd, hl]
      rw [forall₂_map_left_iff] at hf
      generalize beatShift (map (fun r => (r.onsetBeat, r.durBeat)) (sortArr false a)) = sh at hf ⊢
      generalize (divsFromBeats (map (fun r => (r.onsetBeat, r.durBeat)) (sortArr false a))).2 = od at hf ⊢
      generalize (divsFromBeats (map (fun r => (r.onsetBeat, r.durBeat)) (sortArr false a))).1 = dd at hf ⊢
      generalize sortArr false a = a' at hf ⊢
      induction hf with
      | nil => exact Forall₂.nil
      | cons hab _ ih => exact Forall₂.cons ⟨hab.1, hab.2, rfl⟩ ih

end NoteArray
