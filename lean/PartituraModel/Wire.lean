/-
Wire protocol shared by all model drivers.

One request per input line, whitespace-separated tokens; one response line per
request.  Tokens are: integers (`-12`), rationals (`-3/4`), bare identifiers,
and count-prefixed lists (`3 a b c`).  Responses are built with the `fmt*`
helpers so that the Python harness can produce byte-identical canonical text
from the implementation's outputs.

This file imports nothing outside Lean core so that drivers link as plain
executables.
-/

namespace Wire

def tokens (s : String) : List String :=
  ((s.replace "\n" " ").replace "\r" " " |>.splitOn " ").filter (· ≠ "")

/-- A tiny parser over a token list. -/
abbrev P (α : Type) := List String → Option (α × List String)

instance : Monad P where
  pure a := fun ts => some (a, ts)
  bind p f := fun ts => match p ts with
    | none => none
    | some (a, ts') => f a ts'

def P.fail {α : Type} : P α := fun _ => none

def tok : P String := fun ts => match ts with
  | [] => none
  | t :: ts => some (t, ts)

def int : P Int := do
  let t ← tok
  match t.toInt? with
  | some i => pure i
  | none => P.fail

def nat : P Nat := do
  let t ← tok
  match t.toNat? with
  | some i => pure i
  | none => P.fail

def parseRat (t : String) : Option Rat :=
  match t.splitOn "/" with
  | [n] => n.toInt?.map (fun i => (i : Rat))
  | [n, d] => match n.toInt?, d.toNat? with
    | some n, some d => if d = 0 then none else some (mkRat n d)
    | _, _ => none
  | _ => none

def rat : P Rat := do
  let t ← tok
  match parseRat t with
  | some r => pure r
  | none => P.fail

def hexVal (c : Char) : Option Nat :=
  if '0' ≤ c && c ≤ '9' then some (c.toNat - '0'.toNat)
  else if 'a' ≤ c && c ≤ 'f' then some (c.toNat - 'a'.toNat + 10)
  else if 'A' ≤ c && c ≤ 'F' then some (c.toNat - 'A'.toNat + 10)
  else none

/-- percent-decoding of a string token (`%` alone is the empty string) -/
def decodeChars : List Char → List Char
  | '%' :: a :: b :: rest =>
    match hexVal a, hexVal b with
    | some x, some y => Char.ofNat (16 * x + y) :: decodeChars rest
    | _, _ => '%' :: decodeChars (a :: b :: rest)
  | c :: rest => c :: decodeChars rest
  | [] => []

def decodeStr (t : String) : String :=
  if t = "%" then "" else String.ofList (decodeChars t.toList)

/-- percent-encoded string token -/
def str : P String := do
  let t ← tok
  pure (decodeStr t)

def bool : P Bool := do
  let t ← tok
  match t with
  | "1" => pure true
  | "0" => pure false
  | "T" => pure true
  | "F" => pure false
  | _ => P.fail

def rep {α : Type} (p : P α) : Nat → P (List α)
  | 0 => pure []
  | n + 1 => do
    let a ← p
    let as ← rep p n
    pure (a :: as)

/-- count-prefixed list -/
def list {α : Type} (p : P α) : P (List α) := do
  let n ← nat
  rep p n

/-- optional value: `-` is none (only for parsers whose tokens are never `-`) -/
def opt {α : Type} (p : P α) : P (Option α) := fun ts => match ts with
  | "-" :: ts => some (none, ts)
  | _ => match p ts with
    | some (a, ts') => some (some a, ts')
    | none => none

def eoi : P Unit := fun ts => match ts with
  | [] => some ((), [])
  | _ => none

def run {α : Type} (p : P α) (ts : List String) : Option α :=
  match p ts with
  | some (a, []) => some a
  | _ => none

-- ---------------------------------------------------------------- printers

def fmtInt (i : Int) : String := toString i
def fmtNat (n : Nat) : String := toString n

def fmtRat (r : Rat) : String :=
  if r.den = 1 then toString r.num else toString r.num ++ "/" ++ toString r.den

def fmtBool (b : Bool) : String := if b then "1" else "0"

def fmtList {α : Type} (f : α → String) (l : List α) : String :=
  "[" ++ ",".intercalate (l.map f) ++ "]"

def fmtOpt {α : Type} (f : α → String) : Option α → String
  | none => "-"
  | some a => f a

def fmtTuple (l : List String) : String := "(" ++ ",".intercalate l ++ ")"

-- ---------------------------------------------------------------- main loop

/-- Stateless request/response loop. -/
partial def loop (h : IO.FS.Stream) (out : IO.FS.Stream) (handle : List String → String) : IO Unit := do
  let line ← h.getLine
  if line.isEmpty then
    out.flush
    return ()
  out.putStrLn (handle (tokens line))
  loop h out handle

/-- Stateful request/response loop. -/
partial def loopS {σ : Type} (h : IO.FS.Stream) (out : IO.FS.Stream)
    (handle : σ → List String → σ × String) (s : σ) : IO Unit := do
  let line ← h.getLine
  if line.isEmpty then
    out.flush
    return ()
  let (s', r) := handle s (tokens line)
  out.putStrLn r
  loopS h out handle s'

def mainLoop (handle : List String → String) : IO Unit := do
  loop (← IO.getStdin) (← IO.getStdout) handle

def mainLoopS {σ : Type} (handle : σ → List String → σ × String) (s : σ) : IO Unit := do
  loopS (← IO.getStdin) (← IO.getStdout) handle s

end Wire
