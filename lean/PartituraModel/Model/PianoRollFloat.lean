/-
C13, round 5 — the rasteriser of `_make_pianoroll` in the arithmetic the code uses: binary64.

`Model/PianoRoll.lean` rounds the exact rationals `time_div * (onset - min_time)`, `time_div * duration`, … .
The code rounds binary64 numbers: every column is converted with `astype(float)`, `onset -= min_time` is a
binary64 subtraction, `time_div * onset` a binary64 product, and only then comes `np.round`.  On grids of
dyadic numbers the two agree; at a frame boundary (`x.5`) a relative error of 2^-53 decides the frame.

This file writes the rasteriser once more, as the code is written, with a rounding function `fl` applied to the
result of every floating-point operation (`makeWith fl`).  `fl = f64` (round to nearest even binary64,
`roundBin 53 (-1074)` of Model/PianoRollArgs.lean) is the code; `fl = id` is the exact model
(`C13.makeWith_id`), so every theorem of Props/C13.lean is a theorem about the code wherever the two agree
(`C13.float_agrees`, `C13.frames_stable`, `C13.float_exact`).  The driver answers `pr` / `pc` requests with
the binary64 version: no case is skipped any more because its products are inexact.

The literals of the frame arithmetic (`a_min=1`, `pr_onset + 1`, `1 if note_separation else 0`) come from
`Gen/C13Lits.lean` (harness/translate_c13lits.py, read from the live source by ast).

Not modelled: overflow to `inf` (numbers beyond 2^1024), `nan`; integers beyond 2^53 (`time_div`, frames).

Lean core only (no Mathlib).
-/
import PartituraModel.Model.PianoRollArgs
import PartituraModel.Gen.C13Lits

namespace Model.PianoRoll
open Model

/-- the result of a binary64 operation whose exact result is `q` (round to nearest, ties to even) -/
def f64 (q : Rat) : Rat := roundBin 53 (-1074) q

/-- `int(time_margin * time_div)` -/
def marginFramesG (fl : Rat → Rat) (o : Opts) : Int := truncRat (fl (o.timeMargin * (o.timeDiv : Rat)))

/-- `time_div * time_margin` -/
def trailMarginG (fl : Rat → Rat) (o : Opts) : Rat := fl ((o.timeDiv : Rat) * o.timeMargin)

/-- `onset -= min_time`; `pr_onset = np.round(time_div * onset).astype(int)`; `pr_onset += int(time_margin * time_div)` -/
def onFrameG (fl : Rat → Rat) (o : Opts) (t0 : Rat) (n : Note) : Int :=
  roundHalfEven (fl ((o.timeDiv : Rat) * fl (n.onset - t0))) + marginFramesG fl o

/-- `pr_duration = np.clip(np.round(time_div * duration).astype(int), a_max=None, a_min=1)` -/
def durFramesG (fl : Rat → Rat) (o : Opts) (n : Note) : Int :=
  let d := roundHalfEven (fl ((o.timeDiv : Rat) * n.dur))
  if d < Gen.C13L_MIN_FRAMES then Gen.C13L_MIN_FRAMES else d

def offFullG (fl : Rat → Rat) (o : Opts) (t0 : Rat) (n : Note) : Int := onFrameG fl o t0 n + durFramesG fl o n

/-- `np.maximum(pr_onset + 1, pr_offset - (1 if note_separation else 0))` unless `onset_only` -/
def offIdxG (fl : Rat → Rat) (o : Opts) (t0 : Rat) (n : Note) : Int :=
  if o.onsetOnly then offFullG fl o t0 n
  else
    let a := onFrameG fl o t0 n + Gen.C13L_MIN_SHOWN
    let b := offFullG fl o t0 n - (if o.noteSep then Gen.C13L_SEP_ON else Gen.C13L_SEP_OFF)
    if a ≤ b then b else a

/-- `pr_offset.max()` -/
def maxOffOfG (fl : Rat → Rat) (o : Opts) (notes : List Note) : Int :=
  (maxInt? ((sortedNotes notes).map (offFullG fl o (t0Of o notes)))).getD 0

/-- `N`: `int(np.ceil(time_div * time_margin + pr_offset.max()))`, or, with
    `end_time = np.asarray(end_time, dtype=float).item() - min_time`:
    `end_time * time_div < pr_offset.max()` → ValueError, else
    `int(np.ceil(time_div * time_margin + time_div * end_time))` -/
def colsOfG (fl : Rat → Rat) (o : Opts) (notes : List Note) : Option Int :=
  match o.endTime with
  | none => some (Rat.ceil (fl (trailMarginG fl o + (maxOffOfG fl o notes : Rat))))
  | some e =>
    let e' := fl (fl e - t0Of o notes)
    if fl (e' * (o.timeDiv : Rat)) < (maxOffOfG fl o notes : Rat) then none
    else some (Rat.ceil (fl (trailMarginG fl o + fl ((o.timeDiv : Rat) * e'))))

def noteCellsG (fl : Rat → Rat) (o : Opts) (lowest : Int) (t0 : Rat) (n : Note) : List Entry :=
  let on := onFrameG fl o t0 n
  if o.onsetOnly then [(rowOf o lowest n, on, n.vel)]
  else (List.range (offIdxG fl o t0 n - on).toNat).map fun (k : Nat) => (rowOf o lowest n, on + (k : Int), n.vel)

def fillOfG (fl : Rat → Rat) (o : Opts) (notes : List Note) : List Entry :=
  (sortedNotes notes).flatMap (noteCellsG fl o (lowestOf o notes) (t0Of o notes))

def idxRowG (fl : Rat → Rat) (o : Opts) (lowest : Int) (t0 : Rat) (start : Int) (n : Note) : Int × Int × Int × Int :=
  (rowOf o lowest n - start, onFrameG fl o t0 n, offIdxG fl o t0 n, n.pitch)

def idxOfG (fl : Rat → Rat) (o : Opts) (notes : List Note) : List (Int × Int × Int × Int) :=
  unsort ((sorted notes).map fun x =>
    (x.1, idxRowG fl o (lowestOf o notes) (t0Of o notes) (idxStartOf o) x.2))

/-- `_make_pianoroll` with `fl` after every floating-point operation (same checks, same order as
    `makePianoroll`) -/
def makeWith (fl : Rat → Rat) (o : Opts) (notes : List Note) : Option Roll :=
  if notes.isEmpty then none
  else if notes.any (fun n => decide (n.dur < 0)) then none
  else
    match colsOfG fl o notes with
    | none => none
    | some N =>
      let M := rowsFull o notes
      let fill := fillOfG fl o notes
      if fill.all (inBounds M N) then
        some {
          rows := if o.pianoRange then slicedRows M else M
          cols := N
          rowStart := rowStartOf o
          binary := o.binary
          fill := fill
          idx := idxOfG fl o notes }
      else none

/-- `_make_pianoroll` as the code computes it -/
def makePianorollF (o : Opts) (notes : List Note) : Option Roll := makeWith f64 o notes

/-- `compute_pianoroll(note_info, **kw)` in binary64 -/
def computePianorollKwF (kind : String) (a : NoteArray) (kw : KwArgs) : Option (Roll × Bool) :=
  match ensureNotearray kind a, resolveArgs kw with
  | some arr, some (g, ri) =>
    match prepare arr g with
    | none => none
    | some (o, notes) =>
      match makePianorollF o notes with
      | none => none
      | some r => some (r, ri)
  | _, _ => none

/-- what `compute_pitch_class_pianoroll` makes of the inner roll -/
def pcOfRoll (kw : PcKw) (r : Roll) (ri : Bool) : PcRoll :=
  let b := kw.binary.getD Gen.C13_PC_DEFAULT_binary
  let nz := kw.normalize.getD Gen.C13_PC_DEFAULT_normalize
  { cols := r.cols
    columns := (List.range r.cols.toNat).map fun (j : Nat) => pcColumn r b nz (j : Int)
    idx := if ri then some (r.idx.map fun (p, on, off, mp) => (p % Gen.C13_PC_MOD, on, off, mp)) else none }

/-- `compute_pitch_class_pianoroll(note_info, **kw)` in binary64 -/
def computePcKwF (kind : String) (a : NoteArray) (kw : PcKw) : Option PcRoll :=
  match computePianorollKwF kind a (pcInnerKw kw) with
  | none => none
  | some (r, ri) => some (pcOfRoll kw r ri)

end Model.PianoRoll
