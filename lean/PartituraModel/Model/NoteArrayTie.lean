/-
C05 — tie chains whose members are not adjacent on the timeline.

  partitura/score.py : GenericNote.end_tied       (`self.end if tie_next is None else tie_next.end_tied`)
                       GenericNote.duration_tied  (Model/NoteArray.lean `durationTied`)

`note_array_from_note_list` / `rest_array_from_rest_list` take the offset of a row as
`start.t + duration_tied` (the SUM of the durations along the chain).  `end_tied.t - start.t` (the SPAN from
the first start to the last end) is the same number only for a chain without gaps; the MusicXML importer links
a note before a first ending to a note in the second ending, and tie_next / tie_prev are plain attributes.
This file models `end_tied` next to `duration_tied` so that the two can be compared with the code
(request `tied`) and told apart by theorems (Props/C05Tie.lean).
Lean core + Model/NoteArray only.
-/
import PartituraModel.Model.NoteArray

namespace NoteArray

/-- end time of the last note of a chain (`e`: the value for the empty chain) -/
def chainEnd : List Note → Int → Int
  | [], e => e
  | n :: l, _ => chainEnd l (n.onset + n.dur)

/-- `GenericNote.end_tied.t`: follow `tie_next` to the last note, take its end.
    `none` as for `durationTied` (dangling link or cycle: Python raises). -/
def endTied (notes : List Note) (n : Note) : Option Int :=
  (chainFrom notes notes.length n).map fun c => chainEnd c (n.onset + n.dur)

/-- the span of the chain: `end_tied.t - start.t` -/
def spanTied (notes : List Note) (n : Note) : Option Int :=
  (endTied notes n).map (· - n.onset)

/-- the silence inside a chain: the sum over consecutive members of (next start - previous end) -/
def gapSum : List Note → Int
  | [] => 0
  | [_] => 0
  | a :: b :: l => (b.onset - (a.onset + a.dur)) + gapSum (b :: l)

/-- for every timed object of the part, in the order given: id, `duration_tied`, `end_tied.t` -/
def tiedTable (notes : List Note) : List (String × Option Int × Option Int) :=
  notes.map fun n => (n.id, durationTied notes n, endTied notes n)

end NoteArray
