/-
C04 — the vocabulary of the theorems about key / time signatures after the round trip (Props/C04ImportMeta.lean) as
executable functions of the SCORE: which parts the importer builds, from which tracks, and which key / time
signatures each of them must get.  NOT used by the model of the importer (`loadScoreMidi`); the theorems relate the
two, and the driver prints them (`impspec` request) so that harness/props/c04.py compares them with what the real
`load_score_midi` returns for the real file.

Nothing outside Lean core.
-/
import PartituraModel.Model.ScoreMidiSpec

namespace Model.ScoreMidi
open Model.Ticks Model.MidiPair Model.MidiModes

/-- the part numbers import mode `imode` hands out when the exporter used the (track, channel) pairs `tcs`, in the
    order the parts are created -/
def importedPartIds (imode : Nat) (tcs : List (Nat × Nat)) : List (Option Nat) :=
  firstSeen ((cellTable imode tcs).map (·.2.2.1))

/-- the tracks that give part `pid` a (track, channel) cell -/
def tracksOfImported (imode : Nat) (tcs : List (Nat × Nat)) (pid : Nat) : List Nat :=
  firstSeen (((cellTable imode tcs).filter fun c => c.2.2.1 = some pid).map (·.1.1))

/-- the key signatures imported part `pid` must get: those the tracks of the part must hold (`trackKS`), as a
    strictly ascending list -/
def specImportedKS (imode p : Nat) (o : Rat) (ktc : List (Key × (Nat × Nat))) (parts : List PartIn) (pid : Nat) :
    List (Int × String) :=
  sortedSet ltKS ((tracksOfImported imode (ktc.map (·.2)) pid).flatMap fun tr => keySigsOf (trackKS p o ktc parts tr))

/-- the tracks with notes of the written file: the tracks of the (track, channel) pairs of the note keys -/
def specTracks (ktc : List (Key × (Nat × Nat))) : List Nat := firstSeen ((ktc.map (·.2)).map (·.1))

/-- the time signatures track `tr` must hold for `shift` / `pad_bar`, as the reader collects them -/
def specTrackTS (a : Anacrusis) (p : Nat) (o : Rat) (ktc : List (Key × (Nat × Nat))) (parts : List PartIn) (tr : Nat) :
    List (Int × Int × Int) := timeSigsOf (trackTS a p o ktc parts tr)

/-- the time signatures imported part `pid` must get for `shift` / `pad_bar`: the assumed 4/4 when no track must hold
    one; those of ALL tracks when some track must hold one and some none (the sanitize step); else those of the tracks
    that give the part a (track, channel) cell -/
def specImportedTS (a : Anacrusis) (imode p : Nat) (o : Rat) (ktc : List (Key × (Nat × Nat))) (parts : List PartIn)
    (pid : Nat) : List (Int × Int × Int) :=
  if (specTracks ktc).all (fun tr => (specTrackTS a p o ktc parts tr).isEmpty) then [(0, 4, 4)]
  else if (specTracks ktc).any (fun tr => (specTrackTS a p o ktc parts tr).isEmpty) then
    sortedSet ltTS ((specTracks ktc).flatMap (specTrackTS a p o ktc parts))
  else sortedSet ltTS ((tracksOfImported imode (ktc.map (·.2)) pid).flatMap (specTrackTS a p o ktc parts))

end Model.ScoreMidi
