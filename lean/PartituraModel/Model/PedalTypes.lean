/-
C14 (round 4) — the NUMBER TYPES of performed notes and controls, and the dtype of the sounding-end array.

The dictionaries handed to `PerformedPart` carry numbers of any Python / numpy type: whole seconds as `int` or
`np.int64`, data bytes as `np.uint8`, `np.float32` scalars from `from_note_array`, plain floats from the MIDI loader.
`adjust_offsets_w_sustain` turns three columns into arrays (releases, onsets, pedal times) and *stores* values of one
column into an array made from another (`offs[pedal_down_at_off] = next_pedal_time[...]`, `offs[...] = np.minimum(...,
sorted_note_ons[...])`).  numpy infers the dtype of `np.array([...])` from the elements (integer only when every
element is an integer), never narrows when it combines arrays (`np.vstack`, `np.minimum`: the result holds every
value exactly) and *truncates toward zero* when a float is stored into an integer array.  So the one place where the
types of the numbers can change a result is the dtype of the array that is stored into: the sounding ends `offs`.

  * `Kind`                      integer-typed / float-typed number
  * `inferDtype`                `np.array([...]).dtype` of a non-empty list
  * `store dt x`                the value an array of dtype `dt` holds after `a[i] = x`
  * `soundOffsD dt`             `adjust_offsets_w_sustain` with the sounding-end array of dtype `dt`
                                (literally `Pedal.soundOffs` with every store into `offs` passed through `store dt`)
  * `offsDtypeCode`             the code: `np.fromiter(..., dtype=float)` — float whatever the kinds
  * `offsDtypeInferred`         the variant `np.array([n["note_off"] ...])` — what numpy infers
  * `soundOffsTyped`, `buildTyped`   the code on typed notes / controls

Imports only Lean core and Model/Pedal.lean.
-/
import PartituraModel.Model.Pedal

namespace Model.PedalTypes
open Model Model.Pedal

/-- the two kinds of number type: integer (Python `int`, numpy `(u)intN`) and floating (`float`, `np.floatN`).
    (A list of nothing but `bool`s gives a bool array and `uint64` mixed with signed integers promotes to float64:
    neither is modelled; the harness samples `inferDtype` / `store` against numpy on the other kinds, case kind `npst`.) -/
inductive Kind where
  | int
  | flt
deriving Repr, DecidableEq

/-- dtype numpy infers for `np.array([x0, x1, ...])` of a non-empty list of numbers: integer only when all are -/
def inferDtype (ks : List Kind) : Kind := if ks.all (fun k => k = .int) then .int else .flt

/-- truncation toward zero (C cast of a double to an integer) -/
def truncZ (x : Rat) : Int := if 0 ≤ x then x.floor else -((-x).floor)

/-- the value an array of dtype `dt` holds after `a[i] = x` -/
def store (dt : Kind) (x : Rat) : Rat :=
  match dt with
  | .int => (truncZ x : Rat)
  | .flt => x

/-- a performed note with the kinds of its two times -/
structure TNote where
  note : Note
  onK : Kind
  offK : Kind
deriving Repr, DecidableEq

/-- a control with the kind of its time -/
structure TControl where
  ctl : Control
  timeK : Kind
deriving Repr, DecidableEq

/-- `adjust_offsets_w_sustain` where the sounding-end array `offs` has dtype `dt`: the pedal-release time stored where
    the pedal is down (`offs[pedal_down_at_off] = next_pedal_time[pedal_down_at_off]`) and the clipped end stored per
    pitch (`offs[sorted_indices[has_reonset]] = np.minimum(...)`) pass through `store dt`.  The pedal table
    (`np.array` of the pedal events, `np.vstack` with the sentinels) and `np.minimum` promote and hold every value
    exactly whatever the kinds.  For `dt = .int` the releases themselves are integers (that is when numpy infers it). -/
def soundOffsD (dt : Kind) (ns : List Note) (cs : List Control) (thr : Int) : Option (List Rat) :=
  match ns with
  | [] => some []
  | n0 :: rest =>
    let offs := rest.map (·.off)
    let ped := pedalEvents cs thr
    match ped with
    | [] => mapM' (fun n => checkSoundOff n n.off) ns       -- `note["sound_off"] = note["note_off"]`: no array
    | _ :: _ =>
      match pedalTable (sortBy (·.1) ped) (minOf n0.off offs) (maxOf n0.off offs) with
      | none => none
      | some table =>
        mapM' (fun (m : Note × Nat) =>
          match pedalEnd table m.1.off with
          | none => none
          | some e => checkSoundOff m.1 (store dt (restrikeClip ns m.2 m.1 (store dt e)))) ns.zipIdx

/-- the code: `offs = np.fromiter((n["note_off"] for n in notes), dtype=float)` — float whatever the notes carry -/
def offsDtypeCode (_ks : List Kind) : Kind := .flt

/-- the variant `offs = np.array([n["note_off"] for n in notes]).copy()` — the dtype numpy infers from the releases -/
def offsDtypeInferred (ks : List Kind) : Kind := inferDtype ks

/-- `adjust_offsets_w_sustain` on typed notes and controls, as the code computes it -/
def soundOffsTyped (tns : List TNote) (tcs : List TControl) (thr : Int) : Option (List Rat) :=
  soundOffsD (offsDtypeCode (tns.map (·.offK))) (tns.map (·.note)) (tcs.map (·.ctl)) thr

/-- the same with the inferred dtype (not the code: kept to state what the explicit `dtype=float` buys) -/
def soundOffsInferred (tns : List TNote) (tcs : List TControl) (thr : Int) : Option (List Rat) :=
  soundOffsD (offsDtypeInferred (tns.map (·.offK))) (tns.map (·.note)) (tcs.map (·.ctl)) thr

/-- `PerformedPart(notes, controls=controls, sustain_pedal_threshold=thr)` on typed dictionaries: the sounding ends -/
def buildTyped (tns : List TNote) (tcs : List TControl) (thr : Int) : Option (List Rat) :=
  if (tns.map (·.note)).all validNote then soundOffsTyped tns tcs thr else none

end Model.PedalTypes
