/-
C18 (round 5) — more of partitura/musicanalysis/performance_codec.py and utils/generic.py in the model: the
glue around the functions of Model/Codec.lean.

* `zeroHold`: partitura `interp1d(x, y, kind="zero", bounds_error=False, fill_value=(lo, hi))` — the tempo function
  `tempo_fun` of `tempo_by_average`.  scipy sorts the knots by `x` (stable); below the first knot the value is `lo`,
  above the last `hi`, in between the value of the last knot at or before the query; partitura's wrapper returns
  the only value when there is one knot.
* `tempoAverageAt` / `tempoDerivativeAt`: `tempo_by_average` / `tempo_by_derivative` with their optional arguments
  `unique_onset_idxs` (any grouping of the notes, `pickGroups`) and `input_onsets` (any sampling points; default: the
  unique score onsets).
* `monotonizeDefault`: `monotonize_times(s)` with `x=None` (`x = arange(len(s))`).
* `groupsByEps`, `uniqueOnsets`: `get_unique_onset_idxs(onsets, eps, return_unique_onsets=True)`.
* `encodeTempoArrays`: `encode_tempo` on four arrays (the shape check; `np.column_stack` refuses the other mismatches).
* `decodeFull`: `decode_performance` with everything it returns — id, `midi_pitch` (`np.clip(pitch, 1, 127)` of the
  re-sorted rows), onset, duration, velocity of every note, `snote_ids=None` (all rows of the score, no look-up by id),
  more parameter rows than ids (the surplus is never read), and the alignment of `return_alignment=True`.
* `matchedFieldNames`, `rowWidth`, `matchedWidthOk`: the column dispatch of `to_matched_score(…, include_score_markings)`
  for a score object and for a note array (repairs C18-12, C18-13), `matchedVoices` the `voice` column.
* `toOnsetwise`, `toNotewise`: `notewise_to_onsetwise`, `onsetwise_to_notewise` on one-dimensional inputs.

`none` stands for an exception.  Lean core only.
-/
import PartituraModel.Model.Codec

namespace Model.Codec

-- ------------------------------------------------------------------ zero-order interpolation

/-- value of the last knot at or before `q` among sorted knots, `y` so far -/
def holdAt : List (Rat × Rat) → Rat → Rat → Rat
  | [], y, _ => y
  | (x, v) :: rest, y, q => if x ≤ q then holdAt rest v q else y

/-- abscissa of the last knot -/
def lastX : Rat → List (Rat × Rat) → Rat
  | x, [] => x
  | _, (x, _) :: rest => lastX x rest

/-- partitura `interp1d(x, y, kind="zero", bounds_error=False, fill_value=(lo, hi))` -/
def zeroHold (ks : List (Rat × Rat)) (lo hi q : Rat) : Option Rat :=
  match sortKnots ks with
  | [] => none
  | (x0, y0) :: rest =>
    match rest with
    | [] => some y0
    | _ :: _ => if q < x0 then some lo else if lastX x0 rest < q then some hi else some (holdAt rest y0 q)

-- ------------------------------------------------------------------ tempo curves with their optional arguments

/-- the notes of user-given `unique_onset_idxs` (an index outside the table is an `IndexError`) -/
def pickGroups {α : Type} (ns : List α) (idx : List (List Nat)) : Option (List (Grp α)) :=
  allSome (idx.map fun g => allSome (g.map fun i => (ns[i]?).map fun x => (i, x)))

/-- `tempo_by_average(…, unique_onset_idxs, input_onsets)`: the beat periods `diff(mono) / diff(xs)` held from each
    unique score onset to the next (`tempo_fun`), sampled at `input_onsets` (default `unique_s_onsets[:-1]`) -/
def tempoAverageAt (ns : List MNote) (gs : List (Grp MNote)) (inputs : Option (List Rat)) : Option (List Rat) :=
  match tempoSeqs ns gs with
  | some (xs, _, mono) =>
    let bp := List.zipWith (· / ·) (diffs mono) (diffs xs)
    match bp.head?, bp.getLast? with
    | some b0, some bl => allSome ((inputs.getD xs.dropLast).map (zeroHold (xs.dropLast.zip bp) b0 bl))
    | _, _ => none
  | none => none

/-- `tempo_by_derivative(…, unique_onset_idxs, input_onsets)` -/
def tempoDerivativeAt (ns : List MNote) (gs : List (Grp MNote)) (inputs : Option (List Rat)) : Option (List Rat) :=
  match tempoSeqs ns gs with
  | some (xs, _, mono) =>
    allSome ((inputs.getD xs.dropLast).map (firstOrderDerivative (interpExt (sortKnots (xs.zip mono)))))
  | none => none

-- ------------------------------------------------------------------ monotonize_times(s) with x = None

/-- `np.arange(n)` -/
def arange (n : Nat) : List Rat := (List.range n).map fun (i : Nat) => ((i : Int) : Rat)

/-- `monotonize_times(s)`: `(s_mono, x_mono)` with `x_mono = arange(len(s))`; an empty `s` has no minimum -/
def monotonizeDefault (ss : List Rat) : Option (List Rat × List Rat) :=
  match ss with
  | [] => none
  | _ :: _ => (monotonize (arange ss.length) ss).map fun m => (m, arange ss.length)

-- ------------------------------------------------------------------ get_unique_onset_idxs with its arguments

/-- `get_unique_onset_idxs(key(notes), eps)` -/
def groupsByEps {α : Type} (e : Rat) (key : α → Rat) (l : List α) : List (Grp α) :=
  runs (fun a b => decide (key b.2 - key a.2 > e))
    (isort (fun a b => decide (key a.2 ≤ key b.2)) (enumFrom 0 l))

/-- `get_unique_onset_idxs(onsets, eps, return_unique_onsets=True)`: groups and their mean onsets -/
def uniqueOnsets (e : Rat) (ons : List Rat) : List (Grp Rat) × List Rat :=
  let gs := groupsByEps e (fun x => x) ons
  (gs, groupMeans (fun x => x) gs)

-- ------------------------------------------------------------------ encode_tempo on arrays

def zip4 : List Rat → List Rat → List Rat → List Rat → List MNote
  | a :: as, b :: bs, c :: cs, d :: ds => ⟨a, b, c, d⟩ :: zip4 as bs cs ds
  | _, _, _, _ => []

/-- `encode_tempo(score_onsets, performed_onsets, score_durations, performed_durations, …)`: arrays of different
    lengths are refused (`ValueError`: the shape check for the onsets, `np.column_stack` for the durations) -/
def encodeTempoArrays (m : Method) (n : Norm) (sdv : Rat) (so po sd pd : List Rat) : Option (List TParam) :=
  if so.length ≠ po.length ∨ so.length ≠ sd.length ∨ po.length ≠ pd.length then none
  else encode m n sdv (zip4 so sd po pd)

-- ------------------------------------------------------------------ decode_performance, everything it returns

/-- `np.clip(pitches, 1, 127)` -/
def clipPitch (p : Int) : Int := clipInt 1 127 p

def zipWith4 {α β γ δ ε : Type} (f : α → β → γ → δ → ε) : List α → List β → List γ → List δ → List ε
  | a :: as, b :: bs, c :: cs, d :: ds => f a b c d :: zipWith4 f as bs cs ds
  | _, _, _, _ => []

/-- a decoded note: id, midi_pitch, onset, duration, velocity -/
abbrev DNote := String × Int × Rat × Rat × Int

instance : DecidableEq DNote := inferInstanceAs (DecidableEq (String × Int × Rat × Rat × Int))

/-- `decode_performance(score, parameters, snote_ids, return_alignment=True)`.
    `ids? = none`: every row of the score in table order (no look-up by id).  The rows and the parameters
    `parameters[sort_idx]` are re-sorted stably by (onset_div, pitch); parameter rows beyond the number of ids are
    never read, too few are an `IndexError`.  The notes are `zip(snote_ids, onsets_durations, velocities, pitches)`;
    the alignment pairs the id of the k-th selected row with the id of the k-th decoded note. -/
def decodeFull (n : Norm) (ss : List SRow) (ids? : Option (List String)) (ps : List ParamRow) :
    Option (List DNote × List (String × String)) :=
  let ids := ids?.getD (ss.map (·.id))
  let info? := match ids? with
    | none => some ss
    | some l => selectRows ss l
  match info? with
  | none => none
  | some info =>
    let order := (isort (fun a b => lexLe (a.2.odiv, a.2.pitch) (b.2.odiv, b.2.pitch)) (enumFrom 0 info))
    let idx := order.map (·.1)
    match getAll ps idx with
    | none => none
    | some ps' =>
      let rows := List.zipWith (fun (s : Nat × SRow) (p : ParamRow) => mkDRow s.2 p) order ps'
      match decodeTime n rows with
      | none => none
      | some od =>
        let notes := zipWith4 (fun id (x : Rat × Rat) (p : ParamRow) (s : Nat × SRow) =>
          ((id, clipPitch s.2.pitch, x.1, x.2, decodeVel p.vel) : DNote)) ids od ps' order
        some (notes, List.zipWith (fun (s : SRow) (d : DNote) => (s.id, d.1)) info notes)

-- ------------------------------------------------------------------ to_matched_score: the columns

/-- the six columns every matched score has -/
def baseFields : List String := ["onset", "duration", "pitch", "p_onset", "p_duration", "velocity"]

/-- `fields` of `to_matched_score`: with `include_score_markings` and a score OBJECT the `voice` and the feature
    columns of the score-side note table (`features`: its field names containing "feature", taken from the table —
    repair C18-12, they were taken from the last row of the loop and an empty table raised) are appended;
    a note array has no markings -/
def matchedFieldNames (markings isArray : Bool) (features : List String) : List String :=
  baseFields ++ (if markings && !isArray then "voice" :: features else [])

/-- number of values of one row `pair_info` (repair C18-13: the row loop asks `not isinstance(score, np.ndarray)`
    as well; it appended the markings to the rows of a note array, whose table has no such columns) -/
def rowWidth (markings isArray : Bool) (features : List String) : Nat :=
  6 + (if markings && !isArray then 1 + features.length else 0)

/-- `np.array(ms, dtype=fields)` accepts the rows -/
def matchedWidthOk (markings isArray : Bool) (features : List String) : Bool :=
  rowWidth markings isArray features == (matchedFieldNames markings isArray features).length

/-- the `voice` column of the matched score -/
def matchedVoices (voices : List Int) (rows : List MRow) : Option (List Int) :=
  allSome (rows.map fun r => voices[r.sidx]?)

/-- `to_matched_score(score, performance, alignment, include_score_markings)`: column names, rows, `snote_ids` and
    (when the markings are included) the `voice` column -/
def toMatchedScoreX (markings isArray : Bool) (features : List String) (voices : List Int)
    (ss : List SRow) (ps : List PRow) (al : List ARow) :
    Option (List String × List MRow × List String × Option (List Int)) :=
  match toMatchedScore ss ps al with
  | none => none
  | some rows =>
    match snoteIds ss rows with
    | none => none
    | some ids =>
      if !(matchedWidthOk markings isArray features) then none
      else if markings && !isArray then
        (matchedVoices voices rows).map fun vs => (matchedFieldNames markings isArray features, rows, ids, some vs)
      else some (matchedFieldNames markings isArray features, rows, ids, none)

-- ------------------------------------------------------------------ onset-wise / note-wise

/-- `notewise_to_onsetwise(v, unique_onset_idxs)` (one-dimensional `v`): the mean of every group; an index outside
    `v` is an `IndexError`; an empty group has no mean (NaN) -/
def toOnsetwise (v : List Rat) (gs : List (List Nat)) : Option (List Rat) :=
  allSome (gs.map fun g => (getAll v g).bind fun xs => match xs with | [] => none | _ :: _ => some (mean xs))

/-- the assignments `notewise[uix] = onsetwise[[i]]` in order, as (index, value) pairs -/
def assignments : List Rat → List (List Nat) → Option (List (Nat × Rat))
  | _, [] => some []
  | [], _ :: _ => none
  | w :: ws, g :: gs => (assignments ws gs).map fun rest => g.map (fun i => (i, w)) ++ rest

/-- `onsetwise_to_notewise(w, unique_onset_idxs)` (one-dimensional `w`): an array of `Σ len(group)` zeros, every
    group's cells set to the group's value (a later assignment overwrites an earlier one); an index outside the
    array, or fewer values than groups, is an `IndexError` -/
def toNotewise (w : List Rat) (gs : List (List Nat)) : Option (List Rat) :=
  let n := (gs.map List.length).sum
  match assignments w gs with
  | none => none
  | some asg =>
    if asg.all (fun p => decide (p.1 < n)) then
      some ((List.range n).map fun i => (lookup i asg.reverse).getD 0)
    else none

end Model.Codec
