/-
C19 — the sub-spine bookkeeping of the kern importer, as the code is written
(`importkern.parse_by_voice` and the loop of `_handle_kern_with_spine_splitting` around it), next to what the
denotational semantics of Model/Kern.lean says about the same rows (`colsTrace`).

    voices = 1
    for i, line in enumerate(file):
        for v in range(voices): indices_to_remove.append([i, v])
        splits = sum([line[v] == "*^" for v in range(voices)])
        joins = sum([line[v] == "*v" and line[v - 1] == "*v" for v in range(1, voices)])
        voices = voices + splits - joins

and, once per spine of the header, `parse_by_voice(file)` followed by popping the cells it has taken
(`file[line].pop(voice)` for the voices 0 … k-1 of every line, highest first).
-/
import PartituraModel.Model.Kern

namespace Model.Kern

/-- cells `*v` whose left neighbour is a `*v` (`prevV`: the cell to the left of the list was one) -/
def pbvJoins : List (List Char) → Bool → Nat
  | [], _ => 0
  | cell :: cells, prevV =>
    (if cell = "*v".toList ∧ prevV = true then 1 else 0) + pbvJoins cells (decide (cell = "*v".toList))

def pbvSplits (seg : List (List Char)) : Nat := (seg.filter (· = "*^".toList)).length

/-- one pass of the loop body: the first `voices` cells of the line are looked at (`line[v]` raises IndexError when the
    line is shorter) -/
def pbvStep (voices : Nat) (line : List (List Char)) : Option Nat :=
  if line.length < voices then none
  else some (voices + pbvSplits (line.take voices) - pbvJoins (line.take voices) false)

/-- the value of `voices` at every line = how many cells of the line `parse_by_voice` takes -/
def pbvTrace : Nat → List (List (List Char)) → Option (List Nat)
  | _, [] => some []
  | v, l :: ls =>
    match pbvStep v l with
    | some v' => (pbvTrace v' ls).map (v :: ·)
    | none => none

/-- `file[line].pop(voice)` for every taken cell -/
def pbvPop (tr : List Nat) (file : List (List (List Char))) : List (List (List Char)) :=
  List.zipWith (fun k l => l.drop k) tr file

/-- the loop of `_handle_kern_with_spine_splitting`: one `parse_by_voice` per spine of the header on what the
    previous ones left -/
def pbvSpines : Nat → List (List (List Char)) → Option (List (List Nat))
  | 0, _ => some []
  | n + 1, file =>
    match pbvTrace 1 file with
    | none => none
    | some tr => (pbvSpines n (pbvPop tr file)).map (tr :: ·)

/-- `[line.split("\t") for line in file if not line.startswith("!")]` -/
def pbvFile (rows : List (List (List Char))) : List (List (List Char)) := rows.filter (fun r => !isSkippable r)

def pbvDoc (rows : List (List (List Char))) : Option (List (List Nat)) :=
  match pbvFile rows with
  | [] => none
  | hdr :: rest => pbvSpines hdr.length (hdr :: rest)

/-! ### the semantics' view of the same thing -/

def countMain (cols : List Col) (m : Nat) : Nat := (cols.filter (·.main = m)).length

/-- the columns standing in front of every row that is not a comment -/
def colsTrace : St → List (List (List Char)) → Option (List (List Col))
  | _, [] => some []
  | st, r :: rs =>
    if isSkippable r then colsTrace st rs
    else match step st r with
      | some st' => (colsTrace st' rs).map (st.cols :: ·)
      | none => none

/-- per spine of the header, per row (header included): how many columns the spine has when the row is read -/
def colsDoc (rows : List (List (List Char))) : Option (List (List Nat)) :=
  match rows.dropWhile isSkippable with
  | [] => none
  | hdr :: rest =>
    let cols0 := initCols hdr 0
    (colsTrace { cols := cols0, same := samePartOf rows } rest).map fun tr =>
      (List.range hdr.length).map fun m => (cols0 :: tr).map fun cols => countMain cols m

end Model.Kern
