/-
C19 — denotational semantics of the supported subset of Humdrum **kern.

Written from the format definition (Humdrum `**kern` representation: reciprocal
durations, augmentation dots, pitch letters with octave by repetition, accidentals,
rests, grace notes, tie marks, chords, barlines, tandem interpretations and spine
paths), NOT from partitura's importer.  The only partitura-specific conventions are
how spines are *numbered* (voice = position of the sub-spine inside its part, staff =
`*staffN`, parts in reverse spine order), stated in `assemble`.

Everything is total and structural (folds over the row / cell lists), `Rat` is exact.
Imports Lean core + Model/Basic only.
-/
import PartituraModel.Model.Basic

namespace Model.Kern

/-! ## Tables (hand-written; compared with the live Python tables on every run) -/

/-- `importkern.KERN_NOTES`: letter ↦ (step, octave of the single letter) -/
def kernNotes : List (Char × String × Int) := [
  ('C', "C", 3), ('D', "D", 3), ('E', "E", 3), ('F', "F", 3), ('G', "G", 3), ('A', "A", 3), ('B', "B", 3),
  ('c', "C", 4), ('d', "D", 4), ('e', "E", 4), ('f', "F", 4), ('g', "G", 4), ('a', "A", 4), ('b', "B", 4)]

/-- `importkern.KERN_DURS`: reciprocal ↦ symbolic type -/
def kernDurs : List (String × String) := [
  ("000", "maxima"), ("00", "long"), ("0", "breve"), ("1", "whole"), ("2", "half"), ("4", "quarter"),
  ("8", "eighth"), ("16", "16th"), ("32", "32nd"), ("64", "64th"), ("128", "128th"), ("256", "256th")]

/-! ## Durations -/

/-- a reciprocal duration as written: `0`, `00`, `000` (k zeros), a number, or `a%b` -/
inductive Recip where
  | zeros (k : Nat)
  | num (n : Nat)
  | frac (a b : Nat)
  deriving Repr, DecidableEq

/-- quarters denoted by the undotted reciprocal; `none` = malformed (a division by zero).
    `0` is a breve (two whole notes), each further zero doubles. -/
def baseValue : Recip → Option Rat
  | .zeros k => some (4 * (2 : Rat) ^ k)
  | .num n => if n = 0 then none else some (4 / (n : Rat))
  | .frac a b => if a = 0 ∨ b = 0 then none else some (4 * (b : Rat) / (a : Rat))

/-- augmentation dots: the first dot adds half of the value, each further dot half of the previous addition -/
def dotted (base : Rat) : Nat → Rat
  | 0 => base
  | d + 1 => dotted base d + base / (2 : Rat) ^ (d + 1)

def value (r : Recip) (dots : Nat) : Option Rat := (baseValue r).map fun b => dotted b dots

/-- reciprocal from the digits (and `%`) of a token -/
def parseRecip (cs : List Char) : Option Recip :=
  match cs.splitOn '%' with
  | [n] =>
    if n = [] then none
    else if !(n.all Char.isDigit) then none
    else if n.all (· = '0') then some (.zeros n.length)
    else some (.num (digitsToNat n))
  | [a, b] =>
    if a = [] ∨ b = [] then none
    else if !(a.all Char.isDigit) || !(b.all Char.isDigit) then none
    else some (.frac (digitsToNat a) (digitsToNat b))
  | _ => none

/-! ## Pitch -/

def isPitchLetter (c : Char) : Bool := ('a' ≤ c && c ≤ 'g') || ('A' ≤ c && c ≤ 'G')

def lookupNote (c : Char) : List (Char × String × Int) → Option (String × Int)
  | [] => none
  | (k, s, o) :: rest => if k = c then some (s, o) else lookupNote c rest

/-- pitch letters ↦ (step, octave): a lower-case letter is in octave 4 and every repetition
    raises by one; an upper-case letter is in octave 3 and every repetition lowers by one -/
def pitchOf (letters : List Char) : Option (String × Int) :=
  match letters with
  | [] => none
  | c :: rest =>
    if rest.all (· = c) then
      (lookupNote c kernNotes).map fun (st, base) =>
        if base = 4 then (st, 4 + (rest.length : Int)) else (st, 3 - (rest.length : Int))
    else none

def count (c : Char) (cs : List Char) : Nat := (cs.filter (· = c)).length

/-- alteration: each `#` raises, each `-` lowers by a semitone (`n` = natural = 0) -/
def alterOf (cs : List Char) : Int := (count '#' cs : Int) - (count '-' cs : Int)

/-! ## Tokens -/

structure SubTok where
  recip : Option Recip      -- none: no duration written (allowed for grace notes only)
  dots : Nat
  pitch : Option (String × Int)   -- none = rest
  alter : Int
  grace : Bool
  tOpen : Bool
  tCont : Bool
  tClose : Bool
  deriving Repr

def parseSub (cs : List Char) : Option SubTok :=
  let numChars := cs.filter fun c => c.isDigit || c = '%'
  let grace := cs.contains 'q'
  let isRest := cs.contains 'r'
  let letters := cs.filter isPitchLetter
  let recip? : Option (Option Recip) :=
    if numChars = [] then (if grace then some none else none)
    else (parseRecip numChars).map some
  match recip? with
  | none => none
  | some recip =>
    let mk (p : Option (String × Int)) : SubTok :=
      { recip := recip, dots := count '.' cs, pitch := p, alter := alterOf cs, grace := grace,
        tOpen := cs.contains '[', tCont := cs.contains '_', tClose := cs.contains ']' }
    if isRest then some (mk none)
    else (pitchOf letters).map fun p => mk (some p)

/-- duration in quarters of a subtoken: 0 for grace notes -/
def subValue (t : SubTok) : Option Rat :=
  if t.grace then some 0
  else match t.recip with
    | none => none
    | some r => value r t.dots

/-- what the spine advances by after the token (the first subtoken governs; grace tokens do not advance) -/
def tokenAdvance (ts : List SubTok) : Option Rat :=
  match ts with
  | [] => none
  | t :: _ => subValue t

/-! ## Document state machine -/

structure Col where
  main : Nat
  kern : Bool
  cursor : Rat
  staff : Nat
  deriving Repr

structure RawNote where
  main : Nat
  pos : Nat
  onset : Rat
  dur : Rat
  kind : Nat        -- 0 note, 1 grace, 2 rest
  step : String
  alter : Int
  octave : Int
  staff : Nat
  tOpen : Bool
  tCont : Bool
  tClose : Bool
  deriving Repr

structure Mark (α : Type) where
  main : Nat
  pos : Nat
  t : Rat
  val : α

structure St where
  cols : List Col
  notes : List RawNote := []                       -- reverse document order
  bars : List (Mark (Option Nat)) := []
  tsigs : List (Mark (Nat × Nat)) := []
  ksigs : List (Mark Int) := []
  clefs : List (Mark (Nat × String × Nat × Int)) := []   -- staff, sign, line, octave change
  partTags : List String := []
  instrTags : List String := []
  widths : List (Nat × Nat) := []                  -- main ↦ largest number of simultaneous sub-spines
  same : Bool := false                             -- all spines form one part (pre-scanned from the tags)

def startsWith (s : List Char) (p : String) : Bool := p.toList.isPrefixOf s

/-- position of every column inside the group of columns of its main spine -/
def withPosAux : List Col → Option Nat → Nat → List (Col × Nat)
  | [], _, _ => []
  | c :: rest, prev, k =>
    let p := if prev = some c.main then k + 1 else 0
    (c, p) :: withPosAux rest (some c.main) p

def withPos (cols : List Col) : List (Col × Nat) := withPosAux cols none 0

def bumpWidth (ws : List (Nat × Nat)) (m w : Nat) : List (Nat × Nat) :=
  match ws with
  | [] => [(m, w)]
  | (k, v) :: rest => if k = m then (k, max v w) :: rest else (k, v) :: bumpWidth rest m w

def updWidths (ws : List (Nat × Nat)) (cols : List (Col × Nat)) : List (Nat × Nat) :=
  cols.foldl (fun ws (c, p) => bumpWidth ws c.main (p + 1)) ws

def leadingNat (cs : List Char) : Option Nat :=
  let ds := cs.takeWhile Char.isDigit
  if ds = [] then none else some (digitsToNat ds)

def firstNat (cs : List Char) : Option Nat := leadingNat (cs.dropWhile (fun c => !c.isDigit))

/-- `*clef…`: shape, optional octave mark, line -/
def parseClef (rest : List Char) (staff : Nat) : Option (Nat × String × Nat × Int) :=
  match rest.find? (fun c => c = 'G' || c = 'F' || c = 'C') with
  | none => none
  | some sh =>
    let line := match rest.find? Char.isDigit with
      | some d => d.toNat - '0'.toNat
      | none => if sh = 'G' then 2 else if sh = 'F' then 4 else 3
    let oc : Int := if rest.contains 'v' && sh = 'G' && line = 2 then -1 else 0
    some (staff, String.ofList [sh], line, oc)

/-- `*Mn/d` -/
def parseMeter (rest : List Char) : Option (Nat × Nat) :=
  match (rest.takeWhile (· ≠ ' ')).splitOn '/' with
  | [a, b] => match firstNat a, firstNat b with
    | some x, some y => some (x, y)
    | _, _ => none
  | _ => none

/-- one cell of an interpretation row that is not a path operator -/
def tandem (st : St) (c : Col) (p : Nat) (cell : List Char) : Option (St × Col) :=
  if !c.kern then some (st, c)
  else if startsWith cell "*staff" then
    match leadingNat (cell.drop 6) with
    | some n => some (st, { c with staff := n })
    | none => none
  else if startsWith cell "*clef" then
    match parseClef (cell.drop 5) c.staff with
    | some cl => some ({ st with clefs := ⟨c.main, p, c.cursor, cl⟩ :: st.clefs }, c)
    | none => none
  else if startsWith cell "*MM" then some (st, c)
  else if startsWith cell "*M" then
    match parseMeter (cell.drop 2) with
    | some m => some ({ st with tsigs := ⟨c.main, p, c.cursor, m⟩ :: st.tsigs }, c)
    | none => none
  else if startsWith cell "*k[" then
    some ({ st with ksigs := ⟨c.main, p, c.cursor, alterOf cell⟩ :: st.ksigs }, c)
  else if startsWith cell "*part" then some ({ st with partTags := String.ofList cell :: st.partTags }, c)
  else if startsWith cell "*I" then some ({ st with instrTags := String.ofList cell :: st.instrTags }, c)
  else some (st, c)

/-- interpretation row: spine paths (`*^` split, adjacent `*v` join, `*-` end) and tandem cells -/
def interpRow : St → List (Col × Nat) → List (List Char) → List Col → Bool → Option (St × List Col)
  | st, [], [], acc, _ => some (st, acc.reverse)
  | st, (c, p) :: cs, cell :: cells, acc, joining =>
    if cell = "*^".toList then interpRow st cs cells (c :: c :: acc) false
    else if cell = "*v".toList then
      -- the first `*v` of a run keeps its column, the following ones are merged into it
      match acc, joining with
      | a :: _, true => if a.main = c.main then interpRow st cs cells acc true
                        else interpRow st cs cells (c :: acc) true
      | _, _ => interpRow st cs cells (c :: acc) true
    else if cell = "*-".toList then interpRow st cs cells acc false
    else match tandem st c p cell with
      | some (st', c') => interpRow st' cs cells (c' :: acc) false
      | none => none
  | _, _, _, _, _ => none

def barRow : St → List (Col × Nat) → List (List Char) → Option St
  | st, [], [] => some st
  | st, (c, p) :: cs, cell :: cells =>
    if c.kern && startsWith cell "=" then
      barRow { st with bars := ⟨c.main, p, c.cursor, firstNat cell⟩ :: st.bars } cs cells
    else barRow st cs cells
  | _, _, _ => none

def parseToken (cell : List Char) : Option (List SubTok) :=
  (cell.splitOn ' ').filter (· ≠ []) |>.mapM parseSub

def noteOf (c : Col) (p : Nat) (t : SubTok) (d : Rat) : RawNote :=
  { main := c.main, pos := p, onset := c.cursor, dur := d,
    kind := if t.pitch.isNone then 2 else if t.grace then 1 else 0,
    step := (t.pitch.map (·.1)).getD "", alter := if t.pitch.isNone then 0 else t.alter,
    octave := (t.pitch.map (·.2)).getD 0, staff := c.staff,
    tOpen := t.tOpen, tCont := t.tCont, tClose := t.tClose }

def subNotes (c : Col) (p : Nat) : List SubTok → Option (List RawNote)
  | [] => some []
  | t :: ts => match subValue t, subNotes c p ts with
    | some d, some rest => some (noteOf c p t d :: rest)
    | _, _ => none

/-- the notes of one token at the column's cursor, and what the spine advances by
    (a token with a grace note does not advance) -/
def tokenNotes (c : Col) (p : Nat) (toks : List SubTok) : Option (List RawNote × Rat) :=
  match subNotes c p toks, tokenAdvance toks with
  | some ns, some adv => some (ns, if toks.any (·.grace) then 0 else adv)
  | _, _ => none

/-- what a token advances its spine by (independent of where the spine stands) -/
def tokAdv (toks : List SubTok) : Option Rat :=
  (tokenAdvance toks).map fun a => if toks.any (·.grace) then 0 else a

/-- total advance of a sequence of tokens -/
def advTotal : List (List SubTok) → Option Rat
  | [] => some 0
  | t :: ts =>
    match tokAdv t, advTotal ts with
    | some a, some s => some (a + s)
    | _, _ => none

/-- a spine read on its own: every token starts where the previous one ended -/
def spineRun (c : Col) (p : Nat) : List (List SubTok) → Option (List (List RawNote) × Col)
  | [] => some ([], c)
  | t :: ts =>
    match tokenNotes c p t with
    | none => none
    | some (ns, adv) =>
      match spineRun { c with cursor := c.cursor + adv } p ts with
      | none => none
      | some (r, c') => some (ns :: r, c')

/-- tokens of one part on one row are simultaneous: a token starts where the leftmost token of its part on
    that row starts (in a rhythmically consistent document this is the spine's own cursor) -/
def groupKey (same : Bool) (c : Col) : Nat := if same then 0 else c.main + 1

def dataRow : St → List (Col × Nat) → List (List Char) → List Col → List (Nat × Rat) → Option (St × List Col)
  | st, [], [], acc, _ => some (st, acc.reverse)
  | st, (c, p) :: cs, cell :: cells, acc, anchors =>
    if !c.kern || cell = ['.'] || startsWith cell "!" then dataRow st cs cells (c :: acc) anchors
    else if startsWith cell "*" then
      -- an interpretation cell on a row of data tokens and null tokens (partitura's own exporter writes the
      -- clef of one staff like this): read cell by cell, at the spine's own position; no spine paths here
      if cell = "*^".toList || cell = "*v".toList || cell = "*-".toList then none
      else match tandem st c p cell with
        | some (st', c') => dataRow st' cs cells (c' :: acc) anchors
        | none => none
    else match parseToken cell with
      | none => none
      | some toks =>
        let g := groupKey st.same c
        let c := match lookup g anchors with
          | some t => { c with cursor := t }
          | none => c
        let anchors := match lookup g anchors with
          | some _ => anchors
          | none => (g, c.cursor) :: anchors
        match tokenNotes c p toks with
        | some (ns, adv) =>
          dataRow { st with notes := ns.reverse ++ st.notes } cs cells ({ c with cursor := c.cursor + adv } :: acc) anchors
        | none => none
  | _, _, _, _, _ => none

def step (st : St) (row : List (List Char)) : Option St :=
  match row with
  | [] => some st
  | first :: _ =>
    if startsWith first "!" then some st
    else if row.length ≠ st.cols.length then none
    else
      let cp := withPos st.cols
      let st := { st with widths := updWidths st.widths cp }
      if startsWith first "*" then
        (interpRow st cp row [] false).map fun (st', cols) => { st' with cols := cols }
      else if startsWith first "=" then barRow st cp row
      else (dataRow st cp row [] []).map fun (st', cols) => { st' with cols := cols }

def runRows : St → List (List (List Char)) → Option St
  | st, [] => some st
  | st, r :: rs => match step st r with
    | some st' => runRows st' rs
    | none => none

def initCols : List (List Char) → Nat → List Col
  | [], _ => []
  | h :: rest, i =>
    { main := i, kern := startsWith h "**kern" || startsWith h "**notes", cursor := 0, staff := 1 } :: initCols rest (i + 1)

def isSkippable (row : List (List Char)) : Bool :=
  match row with
  | [] => true
  | f :: _ => startsWith f "!"

def scanTags (rows : List (List (List Char))) (pfx : String) : List String :=
  (rows.flatten.filter fun cell => startsWith cell pfx).map String.ofList

def allSame : List String → Bool
  | [] => true
  | a :: rest => rest.all (· = a)

/-- all `**kern` spines belong to one part when all `*part…` tags of the document are equal
    (when there is none: all `*I…` tags) -/
def samePartOf (rows : List (List (List Char))) : Bool :=
  let ps := scanTags rows "*part"
  if ps ≠ [] then allSame ps
  else
    let is := scanTags rows "*I"
    if is ≠ [] then allSame is else false

/-- run the whole document (list of rows of cells); the first non-comment row holds the exclusive interpretations -/
def run (rows : List (List (List Char))) : Option St :=
  match rows.dropWhile isSkippable with
  | [] => none
  | hdr :: rest => runRows { cols := initCols hdr 0, same := samePartOf rows } rest

/-! ## Ties -/

/-- a note as it sounds / as the tie folding sees it -/
structure TNote where
  onset : Rat
  dur : Rat
  step : String
  alter : Int
  octave : Int
  tOpen : Bool
  tCont : Bool
  tClose : Bool
  deriving Repr

structure Sounding where
  onset : Rat
  dur : Rat
  step : String
  alter : Int
  octave : Int
  deriving Repr, DecidableEq

def samePitch (s : Sounding) (n : TNote) : Bool := s.step = n.step && s.alter = n.alter && s.octave = n.octave

/-- take the first open chain of the note's pitch out of the list of open chains -/
def takeOpen (n : TNote) : List Sounding → Option (Sounding × List Sounding)
  | [] => none
  | s :: rest =>
    if samePitch s n then some (s, rest)
    else (takeOpen n rest).map fun (f, r) => (f, s :: r)

def soundOf (n : TNote) : Sounding := ⟨n.onset, n.dur, n.step, n.alter, n.octave⟩

/-- fold a spine's notes (document order) into sounding notes: `[` opens a chain, `_` extends and keeps it
    open, `]` extends and closes it.  Returns the finished notes in order of completion;
    chains left open at the end are flushed as they are. -/
def joinFold : List TNote → List Sounding → List Sounding
  | [], opened => opened
  | n :: rest, opened =>
    if n.tCont || n.tClose then
      match takeOpen n opened with
      | some (s, others) =>
        let s' := { s with dur := s.dur + n.dur }
        if n.tCont || n.tOpen then joinFold rest (s' :: others)   -- still open (`_`, or `]`+`[` on one note)
        else s' :: joinFold rest others
      | none =>
        -- nothing to continue: the note stands alone (and may itself open a chain)
        if n.tCont || n.tOpen then joinFold rest (soundOf n :: opened) else soundOf n :: joinFold rest opened
    else if n.tOpen then joinFold rest (soundOf n :: opened)
    else soundOf n :: joinFold rest opened

/-- the tie links (index of the tied-from note, index of the tied-to note) of a spine's notes -/
def tieLinks : List TNote → Nat → List (Sounding × Nat) → List (Nat × Nat)
  | [], _, _ => []
  | n :: rest, i, opened =>
    let opens := n.tOpen || n.tCont
    let found : Option ((Sounding × Nat) × List (Sounding × Nat)) :=
      if n.tCont || n.tClose then
        match opened.find? (fun o => samePitch o.1 n) with
        | some o => some (o, opened.filter fun x => x.2 ≠ o.2)
        | none => none
      else none
    match found with
    | some (o, others) =>
      (o.2, i) :: tieLinks rest (i + 1) (if opens then (soundOf n, i) :: others else others)
    | none => tieLinks rest (i + 1) (if opens then (soundOf n, i) :: opened else opened)

/-- tie flags (tied from a previous note, tied to a following note) of each note of a spine, in order -/
def tieFlags (ns : List TNote) : List (Bool × Bool) :=
  let links := tieLinks ns 0 []
  (List.range ns.length).map fun i => (links.any (·.2 = i), links.any (·.1 = i))

/-! ## Assembly into parts -/

structure Note where
  onset : Rat
  dur : Rat
  kind : Nat
  step : String
  alter : Int
  octave : Int
  voice : Nat
  staff : Nat
  tp : Bool
  tn : Bool
  deriving Repr

structure Part where
  notes : List Note
  joined : List (Sounding × Nat × Nat)            -- sounding note, voice, staff
  measures : List (Nat × Option Nat × Rat × Rat)  -- number, name, start, end
  tsigs : List (Rat × Nat × Nat)
  ksigs : List (Rat × Int)
  clefs : List (Rat × Nat × String × Nat × Int)

def widthOf (ws : List (Nat × Nat)) (m : Nat) : Nat := (lookup m ws).getD 1

/-- voice offset of every main spine of a part: the widths of the earlier spines of the part -/
def voiceOffsets (ws : List (Nat × Nat)) : List Nat → Nat → List (Nat × Nat)
  | [], _ => []
  | m :: rest, off => (m, off) :: voiceOffsets ws rest (off + widthOf ws m)

def tnoteOf (n : RawNote) : TNote := ⟨n.onset, n.dur, n.step, n.alter, n.octave, n.tOpen, n.tCont, n.tClose⟩

def ratMax (l : List Rat) : Rat := l.foldl (fun a b => if a < b then b else a) 0

def insertUniq {α : Type} [BEq α] (a : α) (l : List α) : List α := if l.contains a then l else l ++ [a]

def dedup {α : Type} [BEq α] (l : List α) : List α := l.foldl (fun acc a => insertUniq a acc) []

def lexLe : List Rat → List Rat → Bool
  | [], _ => true
  | _ :: _, [] => false
  | a :: as, b :: bs => if a < b then true else if b < a then false else lexLe as bs

def stepIdx (s : String) : Rat :=
  match indexOf s ["", "C", "D", "E", "F", "G", "A", "B"] with
  | some i => (i : Rat)
  | none => 99

def noteKey (n : Note) : List Rat :=
  [n.onset, (n.voice : Rat), (n.staff : Rat), (n.kind : Rat), (n.octave : Rat), stepIdx n.step, (n.alter : Rat), n.dur]

def joinedKey (j : Sounding × Nat × Nat) : List Rat :=
  [j.1.onset, (j.2.1 : Rat), (j.2.2 : Rat), (j.1.octave : Rat), stepIdx j.1.step, (j.1.alter : Rat), j.1.dur]

def measuresGo (endT : Rat) : List (Rat × Option Nat) → Nat → List (Nat × Option Nat × Rat × Rat)
  | [], _ => []
  | [(t, nm)], k => [(k, nm, t, endT)]
  | (t, nm) :: (t', nm') :: rest, k => (k, nm, t, t') :: measuresGo endT ((t', nm') :: rest) (k + 1)

def inPart {α : Type} (mains : List Nat) (m : Mark α) : Bool := mains.contains m.main

def clefKey (c : Rat × Nat × String × Nat × Int) : List Rat :=
  [c.1, (c.2.1 : Rat), (((c.2.2.1.toList.head?).map Char.toNat).getD 0 : Nat), (c.2.2.2.1 : Rat), (c.2.2.2.2 : Rat)]

def restNote (voice : Nat) (n : RawNote) : Note :=
  { onset := n.onset, dur := n.dur, kind := 2, step := "", alter := 0, octave := 0,
    voice := voice, staff := n.staff, tp := false, tn := false }

def pitchedNote (voice : Nat) (nf : RawNote × (Bool × Bool)) : Note :=
  { onset := nf.1.onset, dur := nf.1.dur, kind := nf.1.kind, step := nf.1.step, alter := nf.1.alter,
    octave := nf.1.octave, voice := voice, staff := nf.1.staff, tp := nf.2.1, tn := nf.2.2 }

/-- the notes and the sounding (tie-joined) notes of one voice column (main spine, position) -/
def colPart (raw : List RawNote) (offs : List (Nat × Nat)) (mp : Nat × Nat) :
    List Note × List (Sounding × Nat × Nat) :=
  let ns : List RawNote := raw.filter fun (n : RawNote) => n.main = mp.1 && n.pos = mp.2
  let pitched : List RawNote := ns.filter fun (n : RawNote) => n.kind ≠ 2
  let voice : Nat := 1 + (lookup mp.1 offs).getD 0 + mp.2
  let flags := tieFlags (pitched.map tnoteOf)
  let pitchedNotes : List Note := (pitched.zip flags).map (pitchedNote voice)
  let rests : List Note := (ns.filter fun (n : RawNote) => n.kind = 2).map (restNote voice)
  let staffOf : Nat := (ns.head?.map (fun (n : RawNote) => n.staff)).getD 1
  let sounding : List RawNote := pitched.filter fun (n : RawNote) => n.kind = 0
  let joined := (joinFold (sounding.map tnoteOf) []).map fun s => (s, voice, staffOf)
  (pitchedNotes ++ rests, joined)

/-- one part from the main spines `mains` (document order) -/
def mkPart (st : St) (mains : List Nat) : Part :=
  let offs := voiceOffsets st.widths mains 0
  let raw : List RawNote := st.notes.reverse.filter fun (n : RawNote) => mains.contains n.main
  -- voice columns (main, pos) in order of first use
  let colsUsed : List (Nat × Nat) := dedup (raw.map fun (n : RawNote) => (n.main, n.pos))
  let perCol := colsUsed.map (colPart raw offs)
  let notes := (perCol.map (·.1)).flatten
  let joined := (perCol.map (·.2)).flatten
  let first := mains.head?.getD 0
  let bars := (st.bars.reverse.filter fun b => b.main = first && b.pos = 0).map fun b => (b.t, b.val)
  let ts := dedup ((st.tsigs.reverse.filter (inPart mains)).map fun m => (m.t, m.val.1, m.val.2))
  let ks := dedup ((st.ksigs.reverse.filter (inPart mains)).map fun m => (m.t, m.val))
  let cl := dedup ((st.clefs.reverse.filter (inPart mains)).map fun m => (m.t, m.val.1, m.val.2.1, m.val.2.2.1, m.val.2.2.2))
  let endT := ratMax (notes.map (fun n => n.onset + n.dur) ++ bars.map (·.1) ++ ts.map (·.1) ++ ks.map (·.1) ++ cl.map (·.1))
  let ms := measuresGo endT bars 1
  let ms := match bars with
    | (t, _) :: _ => if t ≠ 0 then (0, none, 0, t) :: ms else ms
    | [] => ms
  { notes := notes.mergeSort (fun a b => lexLe (noteKey a) (noteKey b)),
    joined := joined.mergeSort (fun a b => lexLe (joinedKey a) (joinedKey b)),
    measures := ms, tsigs := ts, ksigs := ks,
    clefs := cl.mergeSort (fun a b => lexLe (clefKey a) (clefKey b)) }

def kernMains (rows : List (List (List Char))) : List Nat :=
  match rows.dropWhile isSkippable with
  | [] => []
  | hdr :: _ => ((initCols hdr 0).filter (·.kern)).map (·.main)

/-- the parts a document denotes, in partitura's order (last spine first) -/
def assemble (st : St) (mains : List Nat) : List Part :=
  if st.same then [mkPart st mains]
  else (mains.map fun m => mkPart st [m]).reverse

def denote (rows : List (List (List Char))) : Option (List Part) :=
  (run rows).map fun st => assemble st (kernMains rows)

/-! ## Divisions -/

/-- the least number of divisions per quarter that represents every value exactly -/
def lcmDen (l : List Rat) : Nat := l.foldl (fun acc v => Nat.lcm acc v.den) 1

def partDivs (p : Part) : Nat := lcmDen (p.notes.map (·.dur) ++ p.notes.map (·.onset))

end Model.Kern
