/-
Segment ids as the Python strings they are in partitura/score.py (C09, round 3).

`Model/Unfold.lean` numbers the segments 0, 1, 2, … and orders destinations by these numbers.  The
code gives segment `i` the string `chr(65 + i)` and orders *strings* in three places
(`destinations_no_volta.sort()`, `d > own_id` / `d <= own_id`, `idx <= seg.id`), sorts the strings
`"<n>_Volta_<ID>"` and classifies raw destinations by the substrings `"Volta_"` / `"Navigation"`.
This file states that string layer executably: a Python `str` is the list of its code points,
`pyLt` is Python's `<` on strings, `segId i` is `chr(65 + i)`.  `Proofs/C09IdStr.lean` proves that
the numeric order of the model is the string order of these ids for every number of segments
(ids run on through `'['`, `'a'`, … after `'Z'`), and that it would not be for ids counted like
spreadsheet columns (`'Z'`, `'AA'`, …: `alphaId`).

Only Lean core and Model/Unfold are imported.
-/
import PartituraModel.Model.Unfold

namespace Model.Unfold

/-- a Python `str`: the list of its code points -/
abbrev PyStr := List Nat

/-- `a < b` on Python strings: lexicographic by code point, a proper prefix is smaller -/
def pyLt : PyStr → PyStr → Bool
  | [], [] => false
  | [], _ :: _ => true
  | _ :: _, [] => false
  | a :: as, b :: bs => a < b || (a == b && pyLt as bs)

/-- `a <= b` on Python strings -/
def pyLe (a b : PyStr) : Bool := !pyLt b a

/-- `sub in s` -/
def pyContains (sub : PyStr) : PyStr → Bool
  | [] => sub.isEmpty
  | c :: cs => sub.isPrefixOf (c :: cs) || pyContains sub cs

/-- `chr(65 + i)`, the id of segment number `i` (`'A'` … `'Z'`, `'['`, `'\\'`, …) -/
def segId (i : Nat) : PyStr := [65 + i]

/-- `"END"` -/
def endId : PyStr := [69, 78, 68]

/-- the id string of a destination -/
def Dest.str : Dest → PyStr
  | .seg i => segId i
  | .fin => endId

/-- `"_Volta_"` -/
def voltaMark : PyStr := [95, 86, 111, 108, 116, 97, 95]

/-- `"Volta_"` -/
def voltaSub : PyStr := [86, 111, 108, 116, 97, 95]

/-- `"Navigation"` -/
def navSub : PyStr := [78, 97, 118, 105, 103, 97, 116, 105, 111, 110]

/-- `"Navigation1_"` / `"Navigation2_"` -/
def navMark (n : Nat) : PyStr := navSub ++ [48 + n, 95]

/-- the character in front of `"_Volta_"`: the decimal digit of an ending number, `'Z'` for label 10
(`"Z_Volta_"`, the jump back to the start of the repeat) -/
def labelChar (lb : Nat) : Nat := if lb < 10 then 48 + lb else 90

/-- the raw destination string of a tagged destination, as `_make_segments` appends it to `to` -/
def rawStr : Tag → Dest → PyStr
  | .plain, d => d.str
  | .volta lb, d => labelChar lb :: voltaMark ++ d.str
  | .nav1, d => navMark 1 ++ d.str
  | .nav2, d => navMark 2 ++ d.str

/-- the raw string of a tagged destination -/
def rawOf (p : Tag × Dest) : PyStr := rawStr p.1 p.2

/-- the ids of a table of `n` segments followed by `"END"`, as code points (driver request `ids`) -/
def idTable (n : Nat) : List PyStr := (List.range n).map segId ++ [endId]

/-- insert into a strictly increasing list of strings unless present: `list(set(..))` followed by `.sort()` -/
def insStr (x : PyStr) : List PyStr → List PyStr
  | [] => [x]
  | y :: ys => if pyLt x y then x :: y :: ys else if x = y then y :: ys else y :: insStr x ys

/-- stable insertion after the elements that are `<=`: `list.sort()` (stable) on the `"<n>_Volta_<ID>"` strings -/
def insStrStable (x : PyStr) : List PyStr → List PyStr
  | [] => [x]
  | y :: ys => if pyLe y x then y :: insStrStable x ys else x :: y :: ys

/-- the ordering half of the "clean up and ORDER" block of `_make_segments` on the four lists of strings
(`destinations_no_volta`, `destinations_volta`, `destinations_navigation1`, `destinations_navigation2`): the END
shuffle, the two sorts, `d[8:]`, the split at `own_id` for a segment that ends with a da capo / dal segno -/
def orderStr (own : PyStr) (noVolta volta nav1 nav2 : List PyStr) : List PyStr × List PyStr :=
  let jumpsBack := !nav1.isEmpty
  let hasEnd := (volta ++ noVolta ++ nav1).contains endId
  let noVolta := if hasEnd then noVolta.filter fun d => d != endId else noVolta
  let nav1 := if hasEnd then nav1 ++ [endId] else nav1
  let noVolta := noVolta.foldl (fun acc d => insStr d acc) []
  let volta := (volta.foldl (fun acc d => insStrStable d acc) []).map fun d => d.drop 8
  let noVolta := noVolta.filter fun d => !volta.contains d
  if jumpsBack then
    let onward := noVolta.filter fun d => pyLt own d
    let noVolta := noVolta.filter fun d => pyLe d own
    (volta ++ noVolta ++ ((nav1.filter fun d => d != endId) ++ onward ++ nav1.filter fun d => d == endId), nav2)
  else (volta ++ noVolta ++ nav1, nav2)

/-- the whole block on the raw strings as the code has them, for the segment with id `own`: `(to, await_to)` -/
def cleanToStr (own : PyStr) (raw : List PyStr) : List PyStr × List PyStr :=
  orderStr own
    (raw.filter fun d => !pyContains voltaSub d && !pyContains navSub d)
    (raw.filter fun d => pyContains voltaSub d)
    ((raw.filter fun d => pyContains (navMark 1) d).map fun d => d.drop 12)
    ((raw.filter fun d => pyContains (navMark 2) d).map fun d => d.drop 12)

/-- `buildSegs` on strings: `(to, await_to)` of every segment, by the string algorithm, from the raw destinations
the boundary pass collected -/
def buildStr : Nat → List Int → List SegInfo → List (List PyStr × List PyStr)
  | i, _ :: e :: rest, inf :: infs => cleanToStr (segId i) (inf.to.map rawOf) :: buildStr (i + 1) (e :: rest) infs
  | _, _, _ => []

/-- `add_segments` with the cleanup done on strings: the `to` / `await_to` lists of id strings (driver request
`segstr`, compared with the real `Segment.to` / `Segment.await_to`) -/
def mkSegmentsStr (L : Layout) : Option (List (List PyStr × List PyStr)) :=
  if !L.supported then none else
  let tb := mkTable L
  let times := tb.map (·.1)
  let n := times.length - 1
  match procAll L tb times 0 times { info := List.replicate n {} } with
  | none => none
  | some st => some (buildStr 0 times st.info)

/-- ids counted like spreadsheet columns: A … Z, AA, AB, … (NOT what the code does; see
`C09.spreadsheet_ids_break_order`) -/
def alphaId : Nat → Nat → PyStr
  | 0, _ => []
  | fuel + 1, i => if i < 26 then [65 + i] else alphaId fuel (i / 26 - 1) ++ [65 + i % 26]

end Model.Unfold
