/-
Segment ids as the Python strings they are in partitura/score.py (C09, round 3).

`Model/Unfold.lean` numbers the segments 0, 1, 2, … and orders destinations by these numbers.  The
code gives segment `i` the string `chr(65 + i)` and orders *strings* in three places
(`destinations_no_volta.sort()`, `d > own_id` / `d <= own_id`, `idx <= seg.id`), sorts the strings
`"<n>_Volta_<ID>"` and classifies raw destinations by the substrings `"Volta_"` / `"Navigation"`.
This file states that string layer executably: a Python `str` is the list of its code points,
`pyLt` is Python's `<` on strings, `segId i` is `chr(65 + i)`.  `Proofs/C09IdStr.lean` proves that
the numeric order of the model is the string order of these ids for every number of segments
(ids run on through `'['`, `'a'`, … after `'Z'`), and that it would not be for ids counted like
spreadsheet columns (`'Z'`, `'AA'`, …: `alphaId`).

Only Lean core and Model/Unfold are imported.
-/
import PartituraModel.Model.Unfold

namespace Model.Unfold

/-- a Python `str`: the list of its code points -/
abbrev PyStr := List Nat

/-- `a < b` on Python strings: lexicographic by code point, a proper prefix is smaller -/
def pyLt : PyStr → PyStr → Bool
  | [], [] => false
  | [], _ :: _ => true
  | _ :: _, [] => false
  | a :: as, b :: bs => a < b || (a == b && pyLt as bs)

/-- `a <= b` on Python strings -/
def pyLe (a b : PyStr) : Bool := !pyLt b a

/-- `sub in s` -/
def pyContains (sub : PyStr) : PyStr → Bool
  | [] => sub.isEmpty
  | c :: cs => sub.isPrefixOf (c :: cs) || pyContains sub cs

/-- `chr(65 + i)`, the id of segment number `i` (`'A'` … `'Z'`, `'['`, `'\\'`, …) -/
def segId (i : Nat) : PyStr := [65 + i]

/-- `"END"` -/
def endId : PyStr := [69, 78, 68]

/-- the id string of a destination -/
def Dest.str : Dest → PyStr
  | .seg i => segId i
  | .fin => endId

/-- `"_Volta_"` -/
def voltaMark : PyStr := [95, 86, 111, 108, 116, 97, 95]

/-- `"Volta_"` -/
def voltaSub : PyStr := [86, 111, 108, 116, 97, 95]

/-- `"Navigation"` -/
def navSub : PyStr := [78, 97, 118, 105, 103, 97, 116, 105, 111, 110]

/-- `"Navigation1_"` / `"Navigation2_"` -/
def navMark (n : Nat) : PyStr := navSub ++ [48 + n, 95]

/-- the character in front of `"_Volta_"`: the decimal digit of an ending number, `'Z'` for label 10
(`"Z_Volta_"`, the jump back to the start of the repeat) -/
def labelChar (lb : Nat) : Nat := if lb < 10 then 48 + lb else 90

/-- the raw destination string of a tagged destination, as `_make_segments` appends it to `to` -/
def rawStr : Tag → Dest → PyStr
  | .plain, d => d.str
  | .volta lb, d => labelChar lb :: voltaMark ++ d.str
  | .nav1, d => navMark 1 ++ d.str
  | .nav2, d => navMark 2 ++ d.str

/-- the ids of a table of `n` segments followed by `"END"`, as code points (driver request `ids`) -/
def idTable (n : Nat) : List PyStr := (List.range n).map segId ++ [endId]

/-- ids counted like spreadsheet columns: A … Z, AA, AB, … (NOT what the code does; see
`alphaId_not_monotone`) -/
def alphaId : Nat → Nat → PyStr
  | 0, _ => []
  | fuel + 1, i => if i < 26 then [65 + i] else alphaId fuel (i / 26 - 1) ++ [65 + i % 26]

end Model.Unfold
