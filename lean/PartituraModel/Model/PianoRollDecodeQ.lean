/-
C13, round 5 — `pianoroll_to_notearray` on rolls whose cells are any real numbers (float rolls, as produced by
probabilistic models; the docstring mentions them), and the storage of its result.

    active = pianoroll[:, ts].nonzero()[0]          every cell that is not 0 (0.5 is active)
    vel = int(pianoroll[note, ts])                   truncation toward zero (0.5 -> 0, -1.5 -> -1)

so a note is a maximal run of NON-ZERO cells with the same INTEGER PART, and its velocity is that integer part —
possibly 0.  `decodeRunsQ` is the loop as written (it shares `stepNote`, the body of `for note in active`, with the
integer decoder of Model/PianoRoll.lean); Props/C13DecodeQ.lean proves that it extends the integer decoder and
characterises its runs.  The result is stored in columns of the generated widths (`Gen/C13Lits.lean`): a velocity
outside the integer column raises OverflowError, a time beyond the float column becomes `inf`.

Lean core only (no Mathlib).
-/
import PartituraModel.Model.PianoRollArgs
import PartituraModel.Gen.C13Lits

namespace Model.PianoRoll
open Model

def enumColQ (i : Nat) : List Rat → List (Nat × Rat)
  | [] => []
  | v :: vs => (i, v) :: enumColQ (i + 1) vs

/-- `pianoroll[:, ts].nonzero()[0]`, each row with `int(pianoroll[note, ts])` -/
def activeOfQ (col : List Rat) : List (Nat × Int) :=
  ((enumColQ 0 col).filter (fun pv => pv.2 != 0)).map (fun pv => (pv.1, truncRat pv.2))

/-- one time step of the decoder given the active rows and their velocities (the body of `for ts in range(...)`) -/
def stepActive (st : List Run × List Run) (ta : Nat × List (Nat × Int)) : List Run × List Run :=
  let (act, done) := st
  let active := ta.2
  let isActive := fun (r : Run) => active.any (fun pv => pv.1 == r.pitch)
  let del := act.filter (fun r => !isActive r)
  let act1 := act.filter isActive
  active.foldl (stepNote ta.1) (act1, done ++ del)

def enumColsQ (i : Nat) : List (List Rat) → List (Nat × List Rat)
  | [] => []
  | c :: cs => (i, c) :: enumColsQ (i + 1) cs

/-- the runs found in a real-valued roll, in the sorted order of `note_list` -/
def decodeRunsQ (cols : List (List Rat)) : List Run :=
  let (act, done) := (enumColsQ 0 cols).foldl (fun st tc => stepActive st (tc.1, activeOfQ tc.2)) ([], [])
  sortRuns (done ++ act)

/-- `pianoroll_to_notearray` with exact rational times -/
def decodeQ (rows : Nat) (cols : List (List Rat)) (timeDiv : Rat) : Option (List OutNote) :=
  match lookup rows Gen.C13_DEC_SHAPES with
  | none => none
  | some init =>
    if timeDiv = 0 ∧ decodeRunsQ cols ≠ [] then none
    else
      some ((decodeRunsQ cols).map fun r =>
        ((r.pitch : Int) + init, (r.on : Rat) / timeDiv, ((r.off - r.on : Nat) : Rat) / timeDiv, r.vel))

/-- a Python int stored in the integer column: OverflowError outside its range -/
def fitsIntCol (v : Int) : Bool :=
  decide (-(2 ^ (Gen.C13L_DEC_INT_BITS - 1) : Int) ≤ v) && decide (v < (2 ^ (Gen.C13L_DEC_INT_BITS - 1) : Int))

/-- a binary64 quotient stored in the float column of the generated format; `none` = `inf` -/
def storeCol (q : Rat) : Option Rat :=
  (f64? q).bind fun r =>
    let x := roundBin Gen.C13L_DEC_PREC Gen.C13L_DEC_EMIN r
    if pow2 Gen.C13L_DEC_EMAX ≤ (if x < 0 then -x else x) then none else some x

/-- the returned array as stored; outer `none` = an exception -/
def decodeStoredQ (rows : Nat) (cols : List (List Rat)) (timeDiv : Option Rat) :
    Option (List (Int × Option Rat × Option Rat × Int)) :=
  match decodeQ rows cols (timeDiv.getD Gen.C13_DEC_DEFAULT_time_div) with
  | none => none
  | some l =>
    if l.all (fun x => fitsIntCol x.2.2.2 && fitsIntCol x.1) then
      some (l.map fun (p, on, du, v) => (p, storeCol on, storeCol du, v))
    else none

end Model.PianoRoll
