/-
C03 — `do_attributes` as a whole (the loop structure around the `<attributes>` codec of Model/XmlDir.lean), the reading of
`<staff-details>` and the re-export of what was read from an `<attributes>` element.

WRITER  partitura/io/exportmusicxml.py `do_attributes(part, start, end)`:
          by_start (a dict of lists keyed by time) receives, in this order, the quarter durations, the key signatures, the
          time signatures and the `score.Staff` objects of the segment; the clefs are first collected per time in a second
          dict `clefs_by_start`, each of its lists is sorted (stable) by `getattr(clef, "number", 0)` and appended to
          by_start; then one `<attributes>` per time in `sorted(by_start.keys())`, and a flag `staves_included` puts
          `<staves>len(clefs)</staves>` in front of the first clef ever met — `clefs` being the variable that leaks out
          of the loop over `clefs_by_start.items()`, i.e. the list of the LAST key inserted into that dict.
        Only the five `iter_all` / `quarter_durations` calls are inputs (`AttrSrc`); everything after them is modelled.
READER  partitura/io/importmusicxml.py `_handle_attributes` (with fixes/C03-20): every `<staff-details>` child becomes a
          `score.Staff(number or 1, staff-lines)` (`readStaffs`); the rest of the handler is `readAttributes` (XmlDir).
RE-EXPORT  what `do_attributes` sees of a part that `_handle_attributes` filled from one element (`reexportItems`).

Only Lean core and other Model files are imported.
-/
import PartituraModel.Model.XmlDir
import PartituraModel.Model.XmlBar

namespace Model.XmlAttrs
open Model.XmlNote Model.XmlDir

/-- a `score.Clef` as `do_attributes` sees it: its time, `getattr(clef, "number", 0)` (the sort key; `score.Clef` has no
    such attribute, so it is 0 unless somebody set one) and the fields that are written -/
structure ClefSrc where
  t : Nat
  number : Int
  staff : Option Int
  sign : Str
  line : Option Int
  octaveChange : Option Int
deriving DecidableEq, Repr, Inhabited

def ClefSrc.item (c : ClefSrc) : AttrItem := .clef c.staff c.sign c.line c.octaveChange

/-- the results of the five calls at the top of `do_attributes`, each in iteration order -/
structure AttrSrc where
  /-- `part.quarter_durations(start.t, end.t)`: `(t, int(quarter))` -/
  quarters : List (Nat × Int)
  /-- `iter_all(score.KeySignature, start, end)`: time, fifths, mode -/
  keys : List (Nat × Int × Option Str)
  /-- `iter_all(score.TimeSignature, start, end)`: time, beats, beat_type -/
  times : List (Nat × Int × Int)
  /-- `iter_all(score.Staff, start, end)`: time, lines -/
  staffs : List (Nat × Option Int)
  /-- `iter_all(score.Clef, start, end)` -/
  clefs : List ClefSrc
deriving Repr, Inhabited

/-- the keys of an insertion-ordered dict: every key once, in the order of its first occurrence -/
def firstSeen : List Nat → List Nat
  | [] => []
  | t :: r => t :: (firstSeen r).filter (· != t)

def numLt (a b : ClefSrc) : Bool := decide (a.number < b.number)

/-- `clefs_by_start[t]` after `clefs.sort(key=lambda clef: getattr(clef, "number", 0))` -/
def clefsAt (cs : List ClefSrc) (t : Nat) : List ClefSrc := Model.Xml.isortBy numLt (cs.filter fun c => c.t == t)

/-- the appends `by_start[t].extend(clefs)` of the loop over `clefs_by_start.items()` -/
def clefEntries (cs : List ClefSrc) : List (Nat × AttrItem) :=
  (firstSeen (cs.map (·.t))).flatMap fun t => (clefsAt cs t).map fun c => (t, c.item)

/-- all appends to `by_start`, in the order they are made -/
def entries (s : AttrSrc) : List (Nat × AttrItem) :=
  s.quarters.map (fun q => (q.1, AttrItem.divisions q.2)) ++ s.keys.map (fun k => (k.1, AttrItem.key k.2.1 k.2.2)) ++
  s.times.map (fun x => (x.1, AttrItem.time x.2.1 x.2.2)) ++ s.staffs.map (fun x => (x.1, AttrItem.staffDetails x.2)) ++
  clefEntries s.clefs

/-- `by_start[t]` -/
def itemsAt (es : List (Nat × AttrItem)) (t : Nat) : List AttrItem := (es.filter fun e => e.1 == t).map (·.2)

/-- the loop `for t in sorted(by_start.keys())` before any element is built: time and entries -/
def attrGroups (s : AttrSrc) : List (Nat × List AttrItem) :=
  (Model.XmlBar.sortedKeys ((entries s).map (·.1))).map fun t => (t, itemsAt (entries s) t)

/-- `len(clefs)` with the variable that leaks out of `for t, clefs in clefs_by_start.items()`: the clefs of the last key
    inserted (0 stands for "unbound": without clefs the name is never evaluated) -/
def leakedLen (cs : List ClefSrc) : Nat :=
  match (firstSeen (cs.map (·.t))).getLast? with
  | some t => (clefsAt cs t).length
  | none => 0

/-- the element loop with its flag `staves_included` -/
def attrLoop (k : Nat) : Bool → List (Nat × List AttrItem) → List (Nat × Xml)
  | _, [] => []
  | included, (t, items) :: rest =>
    (t, writeAttributes items (if included then none else some k)) ::
      attrLoop k (included || items.any (·.isClef)) rest

/-- `do_attributes`: `(t, element)` in the order of the result list -/
def doAttributes (s : AttrSrc) : List (Nat × Xml) := attrLoop (leakedLen s.clefs) false (attrGroups s)

/-! ### `<staff-details>` read (fixes/C03-20) -/

structure StaffRead where
  number : Int
  lines : Option Int
deriving DecidableEq, Repr, Inhabited

/-- `score.Staff(get_value_from_attribute(e, "number", int) or 1, get_value_from_tag(e, "staff-lines", int))`;
    `none`: `int(None)` raises on an empty `<staff-lines/>` -/
def readStaffDetails (c : Xml) : Option StaffRead := do
  let lines ← tagInt (find .staffLines c.kids)
  pure { number := intOr (attrInt c .number) 1, lines := lines }

/-- the loop `for staff_e in e.findall("staff-details")` of `_handle_attributes` -/
def readStaffs (x : Xml) : Option (List StaffRead) := (findall .staffDetails x.kids).mapM readStaffDetails

/-- what the `<staff-details>` of a written `<attributes>` denote: the exporter writes no number (staff 1) and the lines
    only when they are not 0 -/
def canonStaffs : List AttrItem → List StaffRead
  | [] => []
  | .staffDetails lines :: r => { number := 1, lines := truthy lines } :: canonStaffs r
  | _ :: r => canonStaffs r

/-! ### re-export -/

/-- `"{}".format(o.sign)` of a clef that was read (`None` prints as "None") -/
def signText : Option Str → Str
  | some s => s
  | none => sNone

def divItems : Option Int → List AttrItem
  | some q => [AttrItem.divisions q]
  | none => []

def keyItems : Option (Int × Option Str) → List AttrItem
  | some (f, m) => [AttrItem.key f m]
  | none => []

def timeItems : Option (Int × Int) → List AttrItem
  | some (a, b) => [AttrItem.time a b]
  | none => []

def clefItem (x : Option Int × Str × Option Int × Option Int) : AttrItem := .clef x.1 x.2.1 x.2.2.1 x.2.2.2

/-- a key signature read without fifths cannot be formatted by the exporter and is not re-exported -/
def keyRead : Option (Option Int × Option Str) → Option (Int × Option Str)
  | some (some f, m) => some (f, m)
  | _ => none

/-- the entries of `by_start[t]` that `do_attributes` finds in a part to which `_handle_attributes` added what it read from
    one element at `t` (and nothing else is at `t`): divisions, key signature, time signature, staffs, clefs — the order
    of the five loops -/
def reexportItems (r : AttrRead) (staffs : List StaffRead) : List AttrItem :=
  divItems r.divisions ++ keyItems (keyRead r.key) ++ timeItems r.time ++
  staffs.map (fun s => AttrItem.staffDetails s.lines) ++
  r.clefs.map fun c => AttrItem.clef (some c.staff) (signText c.sign) c.line c.octaveChange

/-- the shape of `by_start[t]` in a score in the property's domain (at most one divisions value, key signature and time
    signature at one time), with values that survive the reader's truth tests: divisions and both numbers of the time
    signature are not 0 -/
structure CanonItems where
  divisions : Option Int
  key : Option (Int × Option Str)
  time : Option (Int × Int)
  staffs : List (Option Int)
  clefs : List (Option Int × Str × Option Int × Option Int)
deriving Repr, Inhabited

def CanonItems.items (c : CanonItems) : List AttrItem :=
  divItems c.divisions ++ keyItems c.key ++ timeItems c.time ++ c.staffs.map AttrItem.staffDetails ++ c.clefs.map clefItem

def CanonItems.ok (c : CanonItems) : Prop :=
  (∀ q, c.divisions = some q → q ≠ 0) ∧ (∀ a b, c.time = some (a, b) → a ≠ 0 ∧ b ≠ 0)

end Model.XmlAttrs
