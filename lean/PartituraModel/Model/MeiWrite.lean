/-
C19 — model of partitura's MEI writer (`exportmei.MEIExporter`, `save_mei`) restricted to what decides a note's
onset, duration, pitch and staff: header, `staffDef`s with clef / key / meter, measures with `staff`, `layer`,
`chord`, `note` (with `accid` child or `@accid.ges`, `@tie`, `@grace`), `rest`, `tuplet`, and the `scoreDef`s
written for key and meter changes.

Input: the part as `MEIExporter` sees it — per measure (in `part.measures` order) the notes and rests starting in
it in `Part.iter_all(GenericNote, start, end, include_subclasses=True)` order, the Tuplet objects starting in it,
the key / time signatures starting in it; the clefs, key and meter at time 0; `number_of_staves`.
Output: the element open / close events of the document in document order (`Mei.Ev`), `xml:id` only on notes and
rests (the other ids are a running counter and are not compared).

Mirrors the repaired behaviour of fix C19-28 (a staff without notes in a measure).
Not modelled (the harness builds none): beams, clef changes, harmonies, fermatas, barline / repeat attributes,
fingerings, stem directions, notes without id, rests without a symbolic type.
`pname` of a key signature is `fifths_mode_to_key_name`, passed through as given (trusted).
Imports Lean core + Model/Basic + Model/Mei + Model/KernWrite + Gen/Tables only.
-/
import PartituraModel.Model.Basic
import PartituraModel.Model.Mei
import PartituraModel.Model.KernWrite
import PartituraModel.Gen.Tables

namespace Model.MeiWrite
open Model.Mei (Ev)
open Model.KernWrite (SymDur XNote)

/-- a GenericNote with its id and start time (divisions) -/
structure MNote where
  id : String
  start : Nat
  n : XNote
  deriving Repr, DecidableEq

/-- a Tuplet object: what the writer reads of its start and end note -/
structure MTuplet where
  startId : String
  endId : String
  startT : Nat          -- start_note.start.t
  endStartT : Nat       -- end_note.start.t
  endEndT : Nat         -- end_note.end.t
  sameVoiceStaff : Bool -- start and end note in the same voice and staff
  ratio : Option (Nat × Nat)   -- (actual_notes, normal_notes) of the start note's symbolic duration (none: KeyError)
  deriving Repr, DecidableEq

structure KeySig where
  t : Nat
  fifths : Int
  mode : Option String
  pname : String        -- fifths_mode_to_key_name(fifths, mode).lower()
  deriving Repr, DecidableEq

structure MMeasure where
  number : Int
  start : Nat
  end_ : Nat
  notes : List MNote
  tuplets : List MTuplet
  keys : List KeySig                 -- KeySignatures starting in [start, end)
  meters : List (Nat × Nat × Nat)    -- (t, beats, beat_type) of the TimeSignatures starting in [start, end)
  deriving Repr

structure MPart where
  title : String
  divs : Nat
  nstaves : Nat
  clefs0 : List (Nat × String × Nat)     -- (staff, sign, line) of the clefs at time 0, iteration order
  key0 : Option KeySig
  meter0 : Option (Nat × Nat)
  measures : List MMeasure
  deriving Repr

/-! ## Tables -/

/-- `exportmei.ALTER_TO_MEI` -/
def alterToMei : List (Int × String) := [(-2, "ff"), (-1, "f"), (0, "n"), (1, "s"), (2, "ss")]

def lastKeyOf (v : String) : List (String × String) → Option String
  | [] => none
  | (k, w) :: rest => match lastKeyOf v rest with
    | some k' => some k'
    | none => if w = v then some k else none

/-- `exportmei.SYMBOLIC_TYPES_TO_MEI_DURS`: the inverse of `MEI_DURS_TO_SYMBOLIC` (a later key wins) plus h, e, q -/
def meiDurOf (type : String) : Option String :=
  if type = "h" then some "2" else if type = "e" then some "8" else if type = "q" then some "4"
  else lastKeyOf type Gen.MEI_DURS_TO_SYMBOLIC

def flatsKS : List String := ["bf", "ef", "af", "df", "gf", "cf", "ff"]
def sharpsKS : List String := ["fs", "cs", "gs", "ds", "as", "es", "bs"]

/-- `current_key_signature` after a key signature of `fifths` (unchanged for 0) -/
def keyList (cur : List String) (fifths : Int) : List String :=
  if fifths = 0 then cur else if fifths > 0 then sharpsKS.take fifths.toNat else flatsKS.take (-fifths).toNat

/-! ## Elements -/

def el (tag : String) (attrs : List (String × String)) (children : List Ev) : List Ev :=
  Ev.op tag attrs :: children ++ [Ev.cl]

def natStr (n : Nat) : String := showNat n
def intStr (i : Int) : String := showInt i

def sigStr (fifths : Int) : String :=
  if fifths = 0 then "0" else if fifths > 0 then natStr fifths.toNat ++ "s" else natStr (-fifths).toNat ++ "f"

def lowerStep (s : String) : String := lower s

def dotsAttr (sd : SymDur) : List (String × String) := if sd.dots = 0 then [] else [("dots", natStr sd.dots)]

def tieAttr (n : XNote) : List (String × String) :=
  if n.tieNext && n.tiePrev then [("tie", "m")] else if n.tieNext then [("tie", "i")]
  else if n.tiePrev then [("tie", "t")] else []

def gesAttr (ges : Option String) : List (String × String) :=
  match ges with
  | some a => [("accid.ges", a)]
  | none => []

def graceAttr (n : XNote) : List (String × String) := if n.kind = 1 then [("grace", "acc")] else []

/-- the attributes of a `note` element, in the order `_handle_note` sets them (`"dots" in symbolic_duration`:
    the harness passes dots = 0 only when the key is absent) -/
def noteAttrs (m : MNote) (d : String) (sd : SymDur) (ges : Option String) : List (String × String) :=
  [("dur", d), ("xml:id", m.id)] ++ dotsAttr sd ++
    [("oct", intStr m.n.octave), ("pname", lowerStep m.n.step), ("staff", natStr m.n.staff)] ++ tieAttr m.n ++
    gesAttr ges ++ graceAttr m.n

def restAttrs (m : MNote) (d : String) (sd : SymDur) : List (String × String) :=
  [("dur", d)] ++ dotsAttr sd ++ [("xml:id", m.id)]

/-- `_handle_note` / `_handle_rest`: the element and the `@dur` string it returns -/
def noteEl (ks : List String) (m : MNote) : Option (List Ev × String) :=
  match m.n.sym with
  | none => none
  | some sd =>
    match meiDurOf sd.type with
    | none => none
    | some d =>
      if m.n.kind = 2 then some (el "rest" (restAttrs m d sd) [], d)
      else
        match m.n.alter with
        | none => some (el "note" (noteAttrs m d sd none) [], d)
        | some a =>
          match lookup a alterToMei with
          | none => none
          | some acc =>
            if ks.contains (lowerStep m.n.step ++ acc) then some (el "note" (noteAttrs m d sd (some acc)) [], d)
            else some (el "note" (noteAttrs m d sd none) (el "accid" [("accid", acc)] []), d)

def mapMOpt {α β : Type} (f : α → Option β) : List α → Option (List β)
  | [] => some []
  | a :: rest => match f a, mapMOpt f rest with
    | some b, some bs => some (b :: bs)
    | _, _ => none

/-- a single event or a chord -/
inductive Leaf where
  | single (m : MNote)
  | chord (ms : List MNote)
  deriving Repr, DecidableEq

/-- one item of a layer: a leaf, or a `tuplet` element around leaves (tuplets inside tuplets are not modelled) -/
inductive Item where
  | leaf (l : Leaf)
  | tuplet (num numbase : Nat) (inner : List Leaf)
  deriving Repr, DecidableEq

def Leaf.ids : Leaf → List String
  | .single m => [m.id]
  | .chord ms => ms.map (·.id)

def Item.ids : Item → List String
  | .leaf l => l.ids
  | .tuplet _ _ inner => (inner.map Leaf.ids).flatten

/-- `_handle_chord`: `@dur` (and `dots`) of the chord are those of its last note -/
def leafEvs (ks : List String) : Leaf → Option (List Ev)
  | .single m => (noteEl ks m).map (·.1)
  | .chord ms =>
    match mapMOpt (noteEl ks) ms, ms.getLast? with
    | some els, some last =>
      let d := (els.getLast?.map (·.2)).getD ""
      let dots : List (String × String) := match last.n.sym with
        | some sd => dotsAttr sd
        | none => []
      some (el "chord" ([("dur", d)] ++ dots) (els.map (·.1)).flatten)
    | _, _ => none

def itemEvs (ks : List String) : Item → Option (List Ev)
  | .leaf l => leafEvs ks l
  | .tuplet num numbase inner =>
    (mapMOpt (leafEvs ks) inner).map fun es => el "tuplet" [("num", natStr num), ("numbase", natStr numbase)] es.flatten

def insertNat (a : Nat) : List Nat → List Nat
  | [] => [a]
  | b :: rest => if a = b then b :: rest else if a < b then a :: b :: rest else b :: insertNat a rest

def sortedUnique (l : List Nat) : List Nat := l.foldl (fun acc a => insertNat a acc) []

/-- the leaves of one onset of a voice: the grace notes first, then the note, rest or chord -/
def onsetLeaves (group : List MNote) : List Leaf :=
  let graces := group.filter fun m => m.n.kind = 1
  let plain := group.filter fun m => m.n.kind ≠ 1
  graces.map Leaf.single ++
    (match plain with
     | [] => []
     | [m] => [Leaf.single m]
     | _ => [Leaf.chord plain])

/-- the items of a voice in a measure: all its notes (on whatever staff), onset by onset -/
def layerItems (notes : List MNote) (voice : Nat) : List Item :=
  let vn := notes.filter fun m => m.n.voice = voice
  ((sortedUnique (vn.map (·.start))).flatMap fun t => onsetLeaves (vn.filter fun m => m.start = t)).map Item.leaf

/-- `np.bincount(staffs).argmax()`: the staff with most notes of the voice, the lowest such -/
def majorityStaff (notes : List MNote) (voice : Nat) : Nat :=
  let ss := (notes.filter fun m => m.n.voice = voice).map (·.n.staff)
  let cands := sortedUnique ss
  cands.foldl (fun best s =>
    if (ss.filter (· = s)).length > (ss.filter (· = best)).length then s else best) (cands.headD 0)

/-! ## Tuplets -/

def findItem (id : String) : List Item → Nat → Option Nat
  | [], _ => none
  | i :: rest, k => if i.ids.contains id then some k else findItem id rest (k + 1)

def leavesOf : List Item → Option (List Leaf)
  | [] => some []
  | .leaf l :: rest => (leavesOf rest).map (l :: ·)
  | .tuplet _ _ _ :: _ => none

/-- wrap the items `i..j` of a layer into a `tuplet` element (`none`: one of them is a tuplet already) -/
def wrapItems (items : List Item) (i j : Nat) (num numbase : Nat) : Option (List Item) :=
  (leavesOf ((items.drop i).take (j + 1 - i))).map fun inner =>
    items.take i ++ [Item.tuplet num numbase inner] ++ items.drop (j + 1)

/-- `_handle_tuplets` for one Tuplet on the layers of the measure (`none`: the writer raises, or the shape is one
    the model does not cover: start and end not both top-level items of one layer, in order) -/
def applyTuplet (start end_ : Nat) (layers : List (Nat × Nat × List Item)) (t : MTuplet) :
    Option (List (Nat × Nat × List Item)) :=
  if t.startT < start || t.endEndT > end_ then some layers            -- skipped with a warning
  else if t.startT > t.endStartT then some layers
  else if !t.sameVoiceStaff then some layers
  else match t.ratio with
    | none => none
    | some (num, numbase) =>
      -- the layer that holds the start note
      match layers.find? fun l => (findItem t.startId l.2.2 0).isSome with
      | none => none
      | some l =>
        match findItem t.startId l.2.2 0, findItem t.endId l.2.2 0 with
        | some i, some j =>
          if i ≤ j then
            (wrapItems l.2.2 i j num numbase).map fun wrapped =>
              layers.map fun l' => if l' = l then (l.1, l.2.1, wrapped) else l'
          else none
        | _, _ => none

def applyTuplets (start end_ : Nat) : List (Nat × Nat × List Item) → List MTuplet → Option (List (Nat × Nat × List Item))
  | layers, [] => some layers
  | layers, t :: rest => match applyTuplet start end_ layers t with
    | some l' => applyTuplets start end_ l' rest
    | none => none

/-! ## Measures -/

/-- the (staff, voice, items) layers of a measure, in document order; a voice is written in the layer of the staff
    that holds most of its notes, its layers on other staves stay empty -/
def measureLayers (nstaves : Nat) (m : MMeasure) : List (Nat × Nat × List Item) :=
  let staffs := sortedUnique (m.notes.map (·.n.staff))
  let cells : List (Nat × Nat) :=
    ((List.range nstaves).map (· + 1)).flatMap fun s =>
      if staffs.contains s then
        (sortedUnique ((m.notes.filter fun x => x.n.staff = s).map (·.n.voice))).map fun v => (s, v)
      else []
  cells.map fun (sv : Nat × Nat) =>
    if majorityStaff m.notes sv.2 = sv.1 then (sv.1, sv.2, layerItems m.notes sv.2) else (sv.1, sv.2, [])

/-- the layers of the measure after the tuplets have been wrapped (`none`: the writer raises / shape not covered) -/
def finalLayers (nstaves : Nat) (m : MMeasure) : Option (List (Nat × Nat × List Item)) :=
  if m.notes = [] then none          -- np.vectorize on an empty array raises
  else applyTuplets m.start m.end_ (measureLayers nstaves m) m.tuplets

def layerEvs (ks : List String) (l : Nat × Nat × List Item) : Option (List Ev) :=
  (mapMOpt (itemEvs ks) l.2.2).map fun es => el "layer" [("n", natStr l.2.1)] es.flatten

def staffEvs (ks : List String) (layers : List (Nat × Nat × List Item)) (s : Nat) : Option (List Ev) :=
  (mapMOpt (layerEvs ks) (layers.filter fun l => l.1 = s)).map fun es => el "staff" [("n", natStr s)] es.flatten

def measureEvs (ks : List String) (nstaves : Nat) (m : MMeasure) : Option (List Ev) :=
  match finalLayers nstaves m with
  | none => none
  | some layers =>
    (mapMOpt (staffEvs ks layers) ((List.range nstaves).map (· + 1))).map fun es =>
      el "measure" [("n", intStr m.number)] es.flatten

def keyChangeEvs (k : KeySig) : List Ev :=
  el "scoreDef" [("mode", k.mode.getD "major"), ("sig", sigStr k.fifths), ("pname", k.pname)] []

def meterChangeEvs (b u : Nat) : List Ev := el "scoreDef" [("count", natStr b), ("unit", natStr u)] []

/-- the measures in order; the key list in force changes after the measure in which a key signature starts -/
def measuresEvs (nstaves : Nat) : List String → List MMeasure → Option (List Ev)
  | _, [] => some []
  | ks, m :: rest =>
    let keys := m.keys.filter fun k => k.t ≠ 0
    let meters := m.meters.filter fun x => x.1 ≠ 0
    let ks' := keys.foldl (fun cur k => keyList cur k.fifths) ks
    match measureEvs ks nstaves m, measuresEvs nstaves ks' rest with
    | some me, some more =>
      some ((keys.map keyChangeEvs).flatten ++ (meters.map fun x => meterChangeEvs x.2.1 x.2.2).flatten ++ me ++ more)
    | _, _ => none

def staffDefEvs (p : MPart) (s : Nat) : List Ev :=
  let clef := (p.clefs0.filter fun c => c.1 = s).getLast?
  let clefEl := el "clef" [("shape", (clef.map (·.2.1)).getD "G"), ("line", (clef.map fun c => natStr c.2.2).getD "2")] []
  let keyEl := match p.key0 with
    | some k => el "keySig" [("mode", k.mode.getD "major"), ("sig", sigStr k.fifths), ("pname", k.pname)] []
    | none => []
  let meterEl := match p.meter0 with
    | some (b, u) => el "meterSig" [("count", natStr b), ("unit", natStr u)] []
    | none => []
  el "staffDef" [("n", natStr s), ("lines", "5")] (clefEl ++ keyEl ++ meterEl)

/-- `save_mei(part)`: the events of the whole document -/
def initKeys (p : MPart) : List String :=
  match p.key0 with
  | some k => keyList [] k.fifths
  | none => []

def writeMei (p : MPart) : Option (List Ev) :=
  (measuresEvs p.nstaves (initKeys p) p.measures).map fun body =>
    el "mei" [("meiversion", "4.0.1")]
      (el "meiHead" [] (el "fileDesc" [] (el "titleStmt" [] (el "title" [] []))) ++
       el "music" [] (el "body" [] (el "mdiv" [] (el "score" []
         (el "scoreDef" [] (el "staffGrp" [("bar.thru", "true")]
            (((List.range p.nstaves).map (· + 1)).flatMap (staffDefEvs p))) ++
          el "section" [] body)))))

/-! ## Exportable parts -/

open Model.KernWrite (Fact stepLetters)

/-- quarters the written duration stands for inside the tuplet context `tup` (num, numbase) -/
def symQuarters (sd : SymDur) (tup : Option (Nat × Nat)) : Option Rat :=
  (meiDurOf sd.type).bind fun d => (Mei.durNumber d).map fun v => Mei.meiValue v sd.dots tup

/-- the element written for the event is well defined and means what the event is -/
def noteOkM (divs : Nat) (tup : Option (Nat × Nat)) (m : MNote) : Bool :=
  m.n.kind ≤ 2 &&
  (match m.n.sym with
   | none => false
   | some sd => (symQuarters sd tup).isSome &&
       (m.n.kind = 1 || decide (symQuarters sd tup = some ((m.n.dur : Rat) / (divs : Rat))))) &&
  (m.n.kind = 2 || ((lookup m.n.step stepLetters).isSome && decide (0 ≤ m.n.octave) &&
    (match m.n.alter with | none => true | some a => (lookup a alterToMei).isSome)))

/-- a leaf standing at `cur` (divisions): where the layer stands after it -/
def leafOk (divs : Nat) (tup : Option (Nat × Nat)) (cur : Nat) : Leaf → Option Nat
  | .single m =>
    if noteOkM divs tup m && m.start = cur then some (if m.n.kind = 1 then cur else cur + m.n.dur) else none
  | .chord ms =>
    match ms.getLast? with
    | none => none
    | some last =>
      if ms.all (fun m => noteOkM divs tup m && m.start = cur && m.n.kind = 0 && m.n.dur = last.n.dur) then some (cur + last.n.dur)
      else none

def leavesOk (divs : Nat) (tup : Option (Nat × Nat)) : Nat → List Leaf → Option Nat
  | cur, [] => some cur
  | cur, l :: rest => match leafOk divs tup cur l with
    | some cur' => leavesOk divs tup cur' rest
    | none => none

def itemsOk (divs : Nat) : Nat → List Item → Option Nat
  | cur, [] => some cur
  | cur, .leaf l :: rest => match leafOk divs none cur l with
    | some cur' => itemsOk divs cur' rest
    | none => none
  | cur, .tuplet num numbase inner :: rest =>
    if num = 0 then none
    else match leavesOk divs (some (num, numbase)) cur inner with
      | some cur' => itemsOk divs cur' rest
      | none => none

/-- every layer of the measure is gapless from the start of the measure, none overshoots and one fills it;
    every note is on one of the written staves -/
def measureOk (divs nstaves : Nat) (m : MMeasure) : Bool :=
  match finalLayers nstaves m with
  | none => false
  | some layers =>
    match mapMOpt (fun l => itemsOk divs m.start l.2.2) layers with
    | none => false
    | some ends => ends.all (· ≤ m.end_) && ends.contains m.end_ &&
        m.notes.all (fun x => 1 ≤ x.n.staff && x.n.staff ≤ nstaves && m.start ≤ x.start && x.start < m.end_)

def measuresChain : Nat → List MMeasure → Bool
  | _, [] => true
  | t, m :: rest => m.start = t && measuresChain m.end_ rest

/-- the parts the MEI writer reproduces: explicit and decidable -/
def Exportable (p : MPart) : Bool :=
  decide (0 < p.divs) && decide (0 < p.nstaves) && p.meter0.isSome &&
  measuresChain 0 p.measures && p.measures.all (measureOk p.divs p.nstaves)

def factOf (divs : Nat) (m : MNote) : Fact :=
  { onset := (m.start : Rat) / (divs : Rat), dur := if m.n.kind = 1 then 0 else (m.n.dur : Rat) / (divs : Rat),
    kind := m.n.kind, step := m.n.step, alter := m.n.alter.getD 0, octave := m.n.octave, staff := m.n.staff }

def facts (p : MPart) : List Fact :=
  (p.measures.map fun m => ((m.notes.filter fun x => x.n.kind ≠ 2).map (factOf p.divs))).flatten

def factOfMeiNote (n : Mei.Note) : Fact :=
  { onset := n.onset, dur := n.dur, kind := n.kind, step := n.step, alter := n.alter, octave := n.octave, staff := n.staff }

end Model.MeiWrite
