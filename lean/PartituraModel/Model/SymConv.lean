/-
C11 (round 6) — the two small conversions of a note's symbolic duration that were not modelled so far:

* `formatSymbolic`       `partitura.utils.music.format_symbolic_duration`: `"unknown"` for `None`, else the type, one `.`
                         per dot, and `_actual/normal` when the value is a tuplet (both keys present); a tuple of tied
                         values has no `.get` — the call raises (`none`)
* `durationFromSymbolic` `GenericNote.duration_from_symbolic`: `None` when `symbolic_duration` is falsy (`None`, `{}`, `()`),
                         else `symbolic_to_numeric_duration(symbolic_duration, start.quarter)` — which raises on an unknown
                         type, on more dots than `DOT_MULTIPLIERS` has entries, and on a tuple of tied values (`none`)

Strings are built as `List Char` (`formatChars`) so that the kernel can evaluate them.
-/
import PartituraModel.Model.Measures

namespace Model.Conv
open Model Model.Dur Model.Meas

/-- `_{}/{}".format(actual_notes, normal_notes)` when both keys are present -/
def tupletSuffix : Option Nat → Option Nat → List Char
  | some a, some n => '_' :: natDigits a ++ '/' :: natDigits n
  | _, _ => []

/-- `format_symbolic_duration`; the argument `none` is Python's `None`; result `none` = the call raises -/
def formatChars : Option Est → Option (List Char)
  | none => some "unknown".toList
  | some .empty => some []
  | some (.single (ty, dots, actual, normal)) => some (ty.toList ++ List.replicate dots '.' ++ tupletSuffix actual normal)
  | some (.composite _) => none

def formatSymbolic (e : Option Est) : Option String := (formatChars e).map String.ofList

/-- `GenericNote.duration_from_symbolic` of a note whose `symbolic_duration` is `sym`, with `q = start.quarter`;
    outer `none` = the call raises, `some none` = `None` -/
def durationFromSymbolic (sym : Option Est) (q : Nat) : Option (Option Rat) :=
  match sym with
  | none => some none
  | some .empty => some none
  | some (.single sd) => (symbolicToNumeric sd (q : Rat)).map some
  | some (.composite l) => if l.isEmpty then some none else none

end Model.Conv
