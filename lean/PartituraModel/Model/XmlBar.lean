/-
C03 — the `<barline>`, `<harmony>` and `<print>` elements: writers, readers and the importer's bookkeeping of repeats,
endings, barline fermatas, pages and systems.

WRITER  partitura/io/exportmusicxml.py
          `do_barlines`  which fermatas count (`ref in (None, "left", "middle", "right")` inside the segment,
                         `ref in (None, "right")` at its end), the five loops that fill `by_onset`, one `<barline>` per
                         onset in sorted order with `location` left / right / middle         `doBarlines`, `writeBarline`
          `do_harmony`   RomanNumeral, ChordSymbol (kind, root, bass), Cadence ("|" + text)     `writeHarmony`
          `do_prints`    one `<print>` per onset, `new-page` / `new-system`                   `doPrints`, `writePrint`
READER  partitura/io/importmusicxml.py
          `_handle_measure`, branch `barline`: location → position of the barline, first `<repeat>`, first `<ending>`,
                         `<bar-style>`, `<fermata>` (at the current position; without location: at the end of the
                         measure); `backup` / `forward` as far as they move that position      `readBarline`, `stepBar`
          `_handle_repeat`, `_handle_ending`  (`ongoing["repeat"]`, `ongoing[("ending", "0")]`: the key of an ending is
                         `getattr(e, "number", "0")` of an lxml element, which is always "0")  `handleRepeat`, `handleEnding`
          `_handle_harmony` (with fixes/C03-18: the bass is read, fixes/C03-19: no empty roman numeral beside a cadence),
                         `score.Cadence._filter_cadence_type`                                  `readHarmony`, `cadenceType`
          `_handle_print`, `_handle_new_page`, `_handle_new_system`                            `readPrint`, `handlePrint`
The completion of half-open repeats and endings at the end of `_parse_parts` is not modelled (the exporter writes none).

Only Lean core and other Model files are imported.
-/
import PartituraModel.Model.XmlNote

namespace Model.XmlBar
open Model.XmlNote

/-! ### names (compared with the live source: Gen/C03Tables.lean, Props/C03Gen.lean) -/

def nBarline : Str := ['b', 'a', 'r', 'l', 'i', 'n', 'e']
def nRepeat : Str := ['r', 'e', 'p', 'e', 'a', 't']
def nEnding : Str := ['e', 'n', 'd', 'i', 'n', 'g']
def nBarStyle : Str := ['b', 'a', 'r', '-', 's', 't', 'y', 'l', 'e']
def nPrint : Str := ['p', 'r', 'i', 'n', 't']
def nHarmony : Str := ['h', 'a', 'r', 'm', 'o', 'n', 'y']
def nFunction : Str := ['f', 'u', 'n', 'c', 't', 'i', 'o', 'n']
def nKind : Str := ['k', 'i', 'n', 'd']
def nRoot : Str := ['r', 'o', 'o', 't']
def nRootStep : Str := ['r', 'o', 'o', 't', '-', 's', 't', 'e', 'p']
def nBass : Str := ['b', 'a', 's', 's']
def nBassStep : Str := ['b', 'a', 's', 's', '-', 's', 't', 'e', 'p']
def nLocation : Str := ['l', 'o', 'c', 'a', 't', 'i', 'o', 'n']
def nDirection : Str := ['d', 'i', 'r', 'e', 'c', 't', 'i', 'o', 'n']
def nPrintFrame : Str := ['p', 'r', 'i', 'n', 't', '_', 'f', 'r', 'a', 'm', 'e']
def nText : Str := ['t', 'e', 'x', 't']
def nNewPage : Str := ['n', 'e', 'w', '-', 'p', 'a', 'g', 'e']
def nNewSystem : Str := ['n', 'e', 'w', '-', 's', 'y', 's', 't', 'e', 'm']
def sLeft : Str := ['l', 'e', 'f', 't']
def sRight : Str := ['r', 'i', 'g', 'h', 't']
def sMiddle : Str := ['m', 'i', 'd', 'd', 'l', 'e']
def sForward : Str := ['f', 'o', 'r', 'w', 'a', 'r', 'd']
def sBackward : Str := ['b', 'a', 'c', 'k', 'w', 'a', 'r', 'd']
def sStart : Str := ['s', 't', 'a', 'r', 't']
def sStop : Str := ['s', 't', 'o', 'p']
def sDiscontinue : Str := ['d', 'i', 's', 'c', 'o', 'n', 't', 'i', 'n', 'u', 'e']
def sYes : Str := ['y', 'e', 's']
def sNo : Str := ['n', 'o']
def sNoneKind : Str := ['n', 'o', 'n', 'e']

def tBarline : Tag := .other nBarline
def tRepeat : Tag := .other nRepeat
def tEnding : Tag := .other nEnding
def tBarStyle : Tag := .other nBarStyle
def tPrint : Tag := .other nPrint
def tHarmony : Tag := .other nHarmony
def tFunction : Tag := .other nFunction
def tKind : Tag := .other nKind
def tRoot : Tag := .other nRoot
def tRootStep : Tag := .other nRootStep
def tBass : Tag := .other nBass
def tBassStep : Tag := .other nBassStep
def aLocation : Attr := .other nLocation
def aDirection : Attr := .other nDirection
def aPrintFrame : Attr := .other nPrintFrame
def aText : Attr := .other nText
def aNewPage : Attr := .other nNewPage
def aNewSystem : Attr := .other nNewSystem

/-! ### `<barline>`: writer -/

/-- a child of `<barline>` as `do_barlines` creates it -/
inductive BarItem
  | fermata
  | repeatFwd
  /-- `str(obj.number)` -/
  | endingStart (number : Str)
  | repeatBwd
  | endingStop (number : Str)
deriving DecidableEq, Repr, Inhabited

def itemEl : BarItem → Xml
  | .fermata => empty .fermata
  | .repeatFwd => .el tRepeat [(aDirection, sForward)] [] []
  | .endingStart n => .el tEnding [(.type, sStart), (.number, n)] [] []
  | .repeatBwd => .el tRepeat [(aDirection, sBackward)] [] []
  | .endingStop n => .el tEnding [(.type, sStop), (.number, n)] [] []

inductive Loc | left | right | middle
deriving DecidableEq, Repr, Inhabited

def Loc.name : Loc → Str
  | .left => sLeft
  | .right => sRight
  | .middle => sMiddle

def writeBarline (loc : Loc) (items : List BarItem) : Xml :=
  .el tBarline [(aLocation, loc.name)] [] (items.map itemEl)

/-- `fermata.ref`: a location, nothing, or an object (a note fermata) -/
inductive FermRef | none | left | middle | right | object
deriving DecidableEq, Repr, Inhabited

/-- what `do_barlines(part, start, end)` iterates over, each list in iteration order -/
structure BarSrc where
  /-- `part.iter_all(score.Fermata, start, end)`: `(start.t, ref)` -/
  fermIn : List (Nat × FermRef)
  /-- `part.iter_all(score.Fermata, end, end.next)` -/
  fermAfter : List (Nat × FermRef)
  /-- `part.iter_all(score.Repeat, start, end)`: `start.t` -/
  repeatStart : List Nat
  /-- `part.iter_all(score.Ending, start, end)`: `(start.t, str(number))` -/
  endingStart : List (Nat × Str)
  /-- `part.iter_all(score.Repeat, start.next, end.next, mode="ending")`: `end.t` -/
  repeatEnd : List Nat
  endingEnd : List (Nat × Str)
deriving Repr, Inhabited

/-- the onsets of the fermatas that are written -/
def selFermatas (s : BarSrc) : List Nat :=
  (s.fermIn.filter fun f => f.2 != .object).map (·.1) ++
  (s.fermAfter.filter fun f => f.2 == .none || f.2 == .right).map (·.1)

/-- the appends to `by_onset`, in the order of the five loops -/
def entries (s : BarSrc) : List (Nat × BarItem) :=
  (selFermatas s).map (fun t => (t, BarItem.fermata)) ++ s.repeatStart.map (fun t => (t, BarItem.repeatFwd)) ++
  s.endingStart.map (fun e => (e.1, BarItem.endingStart e.2)) ++ s.repeatEnd.map (fun t => (t, BarItem.repeatBwd)) ++
  s.endingEnd.map (fun e => (e.1, BarItem.endingStop e.2))

/-- insert into a strictly increasing list -/
def insertKey (x : Nat) : List Nat → List Nat
  | [] => [x]
  | y :: ys => if x < y then x :: y :: ys else if x = y then y :: ys else y :: insertKey x ys

/-- `sorted(by_onset.keys())` -/
def sortedKeys (l : List Nat) : List Nat := l.foldr insertKey []

def locOf (start stop t : Nat) : Loc := if t = start then .left else if t = stop then .right else .middle

/-- `by_onset[t]` -/
def itemsAt (es : List (Nat × BarItem)) (t : Nat) : List BarItem := (es.filter fun e => e.1 == t).map (·.2)

/-- the loop `for onset in sorted(by_onset.keys())`: onset, location, children -/
def barGroups (start stop : Nat) (s : BarSrc) : List (Nat × Loc × List BarItem) :=
  (sortedKeys ((entries s).map (·.1))).map fun t => (t, locOf start stop t, itemsAt (entries s) t)

/-- `do_barlines`: `(onset, element)` in the order of the result list -/
def doBarlines (start stop : Nat) (s : BarSrc) : List (Nat × Xml) :=
  (barGroups start stop s).map fun g => (g.1, writeBarline g.2.1 g.2.2)

/-! ### `<barline>`: reader -/

inductive RepDir | forward | backward | other
deriving DecidableEq, Repr, Inhabited

/-- `stop` stands for "stop" and "discontinue" -/
inductive EndType | start | stop | other
deriving DecidableEq, Repr, Inhabited

/-- what `_handle_measure` looks at in a `<barline>` -/
structure BarRead where
  /-- `e.get("location")` -/
  location : Option Str
  /-- direction of `e.find("repeat")` -/
  rep : Option RepDir
  /-- type and `number` attribute of `e.find("ending")` -/
  ending : Option (EndType × Option Str)
  /-- text of `e.find("bar-style")` (`[]` = `None`) -/
  barStyle : Option Str
  /-- `e.find("fermata") is not None` -/
  fermata : Bool
deriving DecidableEq, Repr, Inhabited

def readRepDir (x : Xml) : RepDir :=
  match x.get aDirection with
  | some s => if s = sForward then .forward else if s = sBackward then .backward else .other
  | none => .other

def readEndType (x : Xml) : EndType :=
  match x.get .type with
  | some s => if s = sStart then .start else if s = sStop ∨ s = sDiscontinue then .stop else .other
  | none => .other

def readBarline (x : Xml) : BarRead where
  location := x.get aLocation
  rep := (find tRepeat x.kids).map readRepDir
  ending := (find tEnding x.kids).map fun e => (readEndType e, e.get .number)
  barStyle := (find tBarStyle x.kids).map (·.text)
  fermata := (find .fermata x.kids).isSome

/-! ### the importer's bookkeeping over a part -/

structure RepObj where
  start : Option Nat
  stop : Option Nat
deriving DecidableEq, Repr, Inhabited

structure EndObj where
  number : Option Str
  start : Option Nat
  stop : Option Nat
deriving DecidableEq, Repr, Inhabited

/-- the objects made so far (creation order) and the two `ongoing` slots (indices into the lists) -/
structure BarState where
  repeats : List RepObj
  endings : List EndObj
  /-- `(time, ref)` of barline fermatas -/
  fermatas : List (Nat × Option Str)
  /-- `score.Barline(style)` objects -/
  styles : List (Nat × Str)
  openRepeat : Option Nat
  openEnding : Option Nat
deriving DecidableEq, Repr, Inhabited

def BarState.init : BarState :=
  { repeats := [], endings := [], fermatas := [], styles := [], openRepeat := none, openEnding := none }

def setRepStop (l : List RepObj) (i t : Nat) : List RepObj :=
  l.mapIdx fun j o => if j = i then { o with stop := some t } else o

def setEndStop (l : List EndObj) (i t : Nat) : List EndObj :=
  l.mapIdx fun j o => if j = i then { o with stop := some t } else o

/-- `_handle_repeat` -/
def handleRepeat (st : BarState) (d : RepDir) (pos : Nat) : BarState :=
  match d with
  | .forward =>
    { st with repeats := st.repeats ++ [{ start := some pos, stop := none }], openRepeat := some st.repeats.length }
  | .backward =>
    match st.openRepeat with
    | some i => { st with repeats := setRepStop st.repeats i pos, openRepeat := none }
    | none => { st with repeats := st.repeats ++ [{ start := none, stop := some pos }] }
  | .other => st

/-- `_handle_ending` -/
def handleEnding (st : BarState) (ty : EndType) (number : Option Str) (pos : Nat) : BarState :=
  match ty with
  | .start =>
    { st with endings := st.endings ++ [{ number := number, start := some pos, stop := none }],
              openEnding := some st.endings.length }
  | .stop =>
    match st.openEnding with
    | some i => { st with endings := setEndStop st.endings i pos, openEnding := none }
    | none => { st with endings := st.endings ++ [{ number := number, start := none, stop := some pos }] }
  | .other => st

/-- a call of `_handle_repeat` / `_handle_ending` -/
inductive BarOp
  | rep (d : RepDir) (pos : Nat)
  | ending (ty : EndType) (number : Option Str) (pos : Nat)
deriving DecidableEq, Repr, Inhabited

def applyOp (st : BarState) : BarOp → BarState
  | .rep d pos => handleRepeat st d pos
  | .ending ty number pos => handleEnding st ty number pos

/-- the calls one `<barline>` causes, at `position_barline` -/
def opsOf (pb : Nat) (b : BarRead) : List BarOp :=
  (match b.rep with | some d => [BarOp.rep d pb] | none => []) ++
  (match b.ending with | some (ty, number) => [BarOp.ending ty number pb] | none => [])

/-- the children of a `<measure>` that matter here -/
inductive BarEv
  | backup (d : Nat)
  | forward (d : Nat)
  | barline (b : BarRead)
deriving DecidableEq, Repr, Inhabited

structure MState where
  pos : Nat
  maxt : Nat
  /-- fermatas of barlines without location: added at the end of the measure -/
  trailing : Nat
  st : BarState
deriving DecidableEq, Repr, Inhabited

/-- `position_barline` -/
def barPos (mstart : Nat) (m : MState) (location : Option Str) : Nat :=
  match location with
  | none => m.maxt
  | some l => if l = sRight then m.maxt else if l = sLeft then mstart else m.pos

def stepBar (mstart : Nat) (m : MState) : BarEv → MState
  | .backup d =>
    let p := if m.pos < mstart + d then mstart else m.pos - d
    { m with pos := p, maxt := max m.maxt p }
  | .forward d =>
    let p := m.pos + d
    { m with pos := p, maxt := max m.maxt p }
  | .barline b =>
    let st2 := (opsOf (barPos mstart m b.location) b).foldl applyOp m.st
    let st3 := match b.barStyle with
      | some t => { st2 with styles := st2.styles ++ [(m.pos, t)] }
      | none => st2
    if b.fermata then
      match b.location with
      | none => { m with trailing := m.trailing + 1, st := st3 }
      | some l => { m with st := { st3 with fermatas := st3.fermatas ++ [(m.pos, some l)] } }
    else { m with st := st3 }

/-- one `<measure>` starting at `start`: the state after it and its end (`measure_maxtime`) -/
def readBarMeasure (st : BarState) (start : Nat) (evs : List BarEv) : BarState × Nat :=
  let m := evs.foldl (stepBar start) { pos := start, maxt := start, trailing := 0, st := st }
  ({ m.st with fermatas := m.st.fermatas ++ List.replicate m.trailing (m.maxt, none) }, m.maxt)

/-- the measures of a part, each starting where the previous one ended -/
def readBarMeasures (ms : List (List BarEv)) : BarState :=
  (ms.foldl (fun (acc : BarState × Nat) evs => readBarMeasure acc.1 acc.2 evs) (BarState.init, 0)).1

/-! ### what a written barline denotes -/

def BarItem.repDir : BarItem → Option RepDir
  | .repeatFwd => some .forward
  | .repeatBwd => some .backward
  | _ => none

def BarItem.ending : BarItem → Option (EndType × Option Str)
  | .endingStart n => some (.start, some n)
  | .endingStop n => some (.stop, some n)
  | _ => none

def BarItem.isFermata : BarItem → Bool
  | .fermata => true
  | _ => false

/-- the first repeat, the first ending, whether there is a fermata -/
def canonBar (loc : Loc) (items : List BarItem) : BarRead where
  location := some loc.name
  rep := (items.filterMap BarItem.repDir).head?
  ending := (items.filterMap BarItem.ending).head?
  barStyle := none
  fermata := items.any BarItem.isFermata

/-- the children a reading accounts for, in the writer's order of kinds -/
def itemsOfRead (b : BarRead) : List BarItem :=
  (if b.fermata then [.fermata] else []) ++
  (match b.rep with | some .forward => [.repeatFwd] | _ => []) ++
  (match b.ending with | some (.start, some n) => [.endingStart n] | _ => []) ++
  (match b.rep with | some .backward => [.repeatBwd] | _ => []) ++
  (match b.ending with | some (.stop, some n) => [.endingStop n] | _ => [])

/-- what the DTD allows in one `<barline>`: at most one fermata (the importer reads one), one ending, one repeat -/
def BarSimple (items : List BarItem) : Prop :=
  (items.filter BarItem.isFermata).length ≤ 1 ∧ (items.filterMap BarItem.repDir).length ≤ 1 ∧
  (items.filterMap BarItem.ending).length ≤ 1

instance (items : List BarItem) : Decidable (BarSimple items) := by unfold BarSimple; infer_instance

/-! ### `<harmony>` -/

/-- an object `do_harmony` writes -/
inductive HarmW
  /-- `score.RomanNumeral`: `h.text` -/
  | roman (text : Str)
  /-- `score.ChordSymbol`: `h.root`, `h.kind`, `h.bass` -/
  | chord (root : Str) (kind : Option Str) (bass : Option Str)
  /-- `score.Cadence`: `h.text` -/
  | cadence (text : Str)
deriving DecidableEq, Repr, Inhabited

def kindEl (text : Str) : Xml := .el tKind [(aText, text)] sNoneKind []

def writeHarmony : HarmW → Xml
  | .roman t => .el tHarmony [(aPrintFrame, sNo)] [] [leaf tFunction t, kindEl []]
  | .chord root kind bass =>
    .el tHarmony [(aPrintFrame, sNo)] []
      ([kindEl (match kind with | some k => k | none => []), .el tRoot [] [] [leaf tRootStep root]] ++
        (match bass with
          | some b => [.el tBass [] [] [leaf tBassStep b]]
          | none => []))
  | .cadence t => .el tHarmony [(aPrintFrame, sNo)] [] [leaf tFunction ('|' :: t), kindEl []]

/-- Python `str.split(c)` -/
def splitOn (c : Char) : Str → List Str
  | [] => [[]]
  | x :: xs =>
    match splitOn c xs with
    | [] => [[]]
    | p :: ps => if x = c then [] :: p :: ps else (x :: p) :: ps

def hasIAC : Str → Bool
  | 'I' :: 'A' :: 'C' :: _ => true
  | _ :: r => hasIAC r
  | [] => false

def cadenceNames : List Str := [['P', 'A', 'C'], ['I', 'A', 'C'], ['H', 'C'], ['D', 'C'], ['E', 'C'], ['P', 'C']]

/-- `score.Cadence(text).text` (`_filter_cadence_type`): upper case, the first run of letters A–Z, "IAC" when that run
    contains it, `None` when the result is not one of the six names; outer `none` = IndexError (no letter) -/
def cadenceType (s : Str) : Option (Option Str) :=
  let u := s.map Char.toUpper
  let run := (u.dropWhile fun c => !c.isUpper).takeWhile Char.isUpper
  if run = [] then none
  else
    let t := if hasIAC run then ['I', 'A', 'C'] else run
    some (if t ∈ cadenceNames then some t else none)

/-- an object `_handle_harmony` adds -/
inductive HarmObj
  /-- `Cadence(...)`: its text after filtering -/
  | cadence (text : Option Str)
  | roman (text : Str)
  | chord (root : Str) (kind : Option Str) (bass : Option Str)
deriving DecidableEq, Repr, Inhabited

/-- `_handle_harmony` (repaired); `none` = the importer raises -/
def readHarmony (x : Xml) : Option (List HarmObj) :=
  match find tFunction x.kids with
  | some f =>
    if f.text = [] then some []
    else if f.text.contains '|' then
      match splitOn '|' f.text with
      | t0 :: t1 :: _ => (cadenceType t1).map fun c => [HarmObj.cadence c] ++ (if t0 = [] then [] else [HarmObj.roman t0])
      | _ => none
    else some [.roman f.text]
  | none =>
    match find tKind x.kids, find tRoot x.kids with
    | some k, some r =>
      match find tRootStep r.kids with
      | none => none
      | some rs =>
        if rs.text = [] then none
        else some [.chord rs.text (k.get aText)
          ((findPath tBass tBassStep x.kids).bind fun b => if b.text = [] then none else some b.text)]
    | _, _ => some []

/-- what a written `<harmony>` denotes: kind missing = empty kind; an empty bass = no bass -/
def canonHarmony : HarmW → Option (List HarmObj)
  | .roman t => some [.roman t]
  | .chord root kind bass =>
    some [.chord root (some (match kind with | some k => k | none => []))
      (match bass with | some b => if b = [] then none else some b | none => none)]
  | .cadence t => (cadenceType t).map fun c => [.cadence c]

/-- the texts are not empty and contain no bar -/
def WellFormedHarm : HarmW → Prop
  | .roman t => t ≠ [] ∧ t.contains '|' = false
  | .chord root _ _ => root ≠ []
  | .cadence t => t.contains '|' = false

instance : (h : HarmW) → Decidable (WellFormedHarm h)
  | .roman _ => by unfold WellFormedHarm; infer_instance
  | .chord _ _ _ => by unfold WellFormedHarm; infer_instance
  | .cadence _ => by unfold WellFormedHarm; infer_instance

/-! ### `<print>`, pages and systems -/

def writePrint (newPage newSystem : Bool) : Xml :=
  .el tPrint ((if newPage then [(aNewPage, sYes)] else []) ++ (if newSystem then [(aNewSystem, sYes)] else [])) [] []

/-- first occurrences, in order (the keys of an insertion-ordered dict) -/
def dedup : List Nat → List Nat
  | [] => []
  | x :: xs => x :: (dedup xs).filter (· != x)

/-- `do_prints`: the onsets of the pages, then of the systems -/
def doPrints (pages systems : List Nat) : List (Nat × Xml) :=
  (dedup (pages ++ systems)).map fun t => (t, writePrint (pages.contains t) (systems.contains t))

/-- `"new-page" in e.attrib`, `"new-system" in e.attrib` -/
def readPrint (x : Xml) : Bool × Bool := ((x.get aNewPage).isSome, (x.get aNewSystem).isSome)

structure PageObj where
  number : Nat
  start : Nat
  stop : Option Nat
deriving DecidableEq, Repr, Inhabited

/-- pages and systems made so far, latest first (`ongoing["page"]` / `ongoing["system"]` is the head) -/
structure PrintState where
  pages : List PageObj
  systems : List PageObj
deriving DecidableEq, Repr, Inhabited

/-- `_handle_new_page` / `_handle_new_system` on one of the two lists -/
def newObj (l : List PageObj) (pos : Nat) : List PageObj :=
  match l with
  | [] => [{ number := 1, start := pos, stop := none }]
  | o :: rest =>
    if pos = 0 then l
    else { number := o.number + 1, start := pos, stop := none } :: { o with stop := some pos } :: rest

/-- `_handle_print` at the start `pos` of the measure -/
def handlePrint (st : PrintState) (pos : Nat) (p : Bool × Bool) : PrintState :=
  let st1 := if p.1 then { pages := newObj st.pages pos, systems := newObj st.systems pos } else st
  if p.2 then { st1 with systems := newObj st1.systems pos } else st1

/-- the `<print>` elements of a part with the start of their measure; `_parse_parts` begins with a page and a system at 0 -/
def readPrints (ps : List (Nat × (Bool × Bool))) : PrintState :=
  ps.foldl (fun st p => handlePrint st p.1 p.2) { pages := newObj [] 0, systems := newObj [] 0 }

end Model.XmlBar
