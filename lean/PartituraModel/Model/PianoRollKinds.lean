/-
C13, round 5 — arguments of `compute_pianoroll` that are not of the documented type.

The function never validates its arguments; what an argument of another kind does follows from the operations
applied to it:

* flags (`onset_only`, `note_separation`, `piano_range`, `remove_drums`, `remove_silence`, `binary`, `return_idxs`) are
  only ever tested (`if flag:` / `1 if flag else 0`): Python truthiness;
* `time_unit` is compared with the list of units: anything that is not one of those strings is rejected;
* `time_div`: `== "auto"`, else `int(time_div)`: a bool is 0 / 1, a float is truncated, a string is parsed as a decimal
  integer literal (blanks around it, an optional sign; ValueError otherwise), `None` / a list / a tuple: TypeError;
* `time_margin`: `int(time_margin * time_div)` and `time_div * time_margin + <numpy integer>`: a bool is 0 / 1; `None`
  fails in the product; a string or a list is repeated by the product and fails in `int()` or in the sum;
* `pitch_margin`: `pitch_margin > -1`, `pr_pitch += pitch_margin`: a bool is 0 / 1, a float with an integer value is
  that integer; `None`, a string, a list fail in the comparison;
* `end_time`: `np.asarray(end_time, dtype=float).item()`: `None` = no end time, a bool is 0.0 / 1.0, a string is parsed
  as a float literal, a list / tuple must have exactly one element.

Not modelled (`bad`): a float `pitch_margin` that is no integer; strings for `end_time` other than decimal integer
literals and texts without a digit; underscores and non-ASCII digits in numeric strings; bytes; nan / inf.

Lean core only (no Mathlib).
-/
import PartituraModel.Model.PianoRollFloat

namespace Model.PianoRoll
open Model

/-- a Python object passed for a keyword -/
inductive PyVal where
  | none
  | bool (b : Bool)           -- also numpy.bool_
  | int (i : Int)             -- also numpy integers
  | float (q : Rat)           -- a finite float (also numpy floats, 0-d arrays)
  | str (s : String)
  | seq (xs : List Rat)       -- a list / tuple of numbers
deriving Repr, DecidableEq

/-- `bool(x)`: what `if x:` tests -/
def PyVal.truthy : PyVal → Bool
  | .none => false
  | .bool b => b
  | .int i => i != 0
  | .float q => q != 0
  | .str s => s != ""
  | .seq xs => !xs.isEmpty

def isBlankChar (c : Char) : Bool := c = ' ' || c = '\t' || c = '\n' || c = '\r' || c = '\x0b' || c = '\x0c'

def allDigitChars (cs : List Char) : Bool := !cs.isEmpty && cs.all Char.isDigit

/-- `int(s)` for the plain decimal forms: blanks around, an optional sign, ASCII digits; `none` = ValueError -/
def pyIntOfStr (s : String) : Option Int :=
  match stripChars' s.toList with
  | '-' :: r => if allDigitChars r then some (-(digitsToNat r : Int)) else none
  | '+' :: r => if allDigitChars r then some (digitsToNat r : Int) else none
  | r => if allDigitChars r then some (digitsToNat r : Int) else none
where
  stripChars' (cs : List Char) : List Char := ((cs.dropWhile isBlankChar).reverse.dropWhile isBlankChar).reverse

/-- does the text contain a digit at all?  (a text without one is no number for `float()` either, except `inf` /
    `nan` / `infinity`, which are not modelled) -/
def hasDigit (s : String) : Bool := s.toList.any Char.isDigit

/-- the outcome of reading one argument: a value, an exception, or a kind the model does not cover -/
inductive Read (α : Type) where
  | ok (a : α)
  | raise
  | bad
deriving Repr

/-- `time_div` as passed -/
def readTimeDiv : PyVal → Read TimeDivArg
  | .str s => if s = "auto" then .ok .auto else
      match pyIntOfStr s with
      | some i => .ok (.num i)
      | none => .raise
  | .bool b => .ok (.num (if b then 1 else 0))
  | .int i => .ok (.num i)
  | .float q => .ok (.num q)
  | .none => .raise
  | .seq _ => .raise

/-- `time_margin` as passed -/
def readTimeMargin : PyVal → Read Rat
  | .bool b => .ok (if b then 1 else 0)
  | .int i => .ok i
  | .float q => .ok q
  | .none => .raise
  | .str _ => .raise
  | .seq _ => .raise

/-- `pitch_margin` as passed -/
def readPitchMargin : PyVal → Read Int
  | .bool b => .ok (if b then 1 else 0)
  | .int i => .ok i
  | .float q => if q.den = 1 then .ok q.num else .bad
  | .none => .raise
  | .str _ => .raise
  | .seq _ => .raise

/-- `end_time` as passed: `ok none` = no end time -/
def readEndTime : PyVal → Read (Option EndTimeArg)
  | .none => .ok none
  | .bool b => .ok (some (.scalar (if b then 1 else 0)))
  | .int i => .ok (some (.scalar i))
  | .float q => .ok (some (.scalar q))
  | .seq xs => .ok (some (.array xs))
  | .str s =>
    match pyIntOfStr s with
    | some i => .ok (some (.scalar i))
    | none => if hasDigit s then .bad else .raise

/-- `time_unit` as passed: only a string can be one of the units -/
def readTimeUnit : PyVal → Read String
  | .str s => .ok s
  | _ => .raise

/-- the keyword arguments as Python objects; `none` = keyword not given -/
structure PyArgs where
  timeUnit : Option PyVal
  timeDiv : Option PyVal
  onsetOnly : Option PyVal
  noteSep : Option PyVal
  pitchMargin : Option PyVal
  timeMargin : Option PyVal
  returnIdxs : Option PyVal
  pianoRange : Option PyVal
  removeDrums : Option PyVal
  removeSilence : Option PyVal
  endTime : Option PyVal
  binary : Option PyVal
deriving Repr

def readOpt {α : Type} (f : PyVal → Read α) : Option PyVal → Read (Option α)
  | none => .ok none
  | some v =>
    match f v with
    | .ok a => .ok (some a)
    | .raise => .raise
    | .bad => .bad

/-- the keyword values the body of `compute_pianoroll` works with.  The order of the exceptions does not matter
    (any exception is "rejected"); an unmodelled kind anywhere makes the whole request `bad`. -/
def readArgs (p : PyArgs) : Read KwArgs :=
  match readOpt readTimeUnit p.timeUnit, readOpt readTimeDiv p.timeDiv, readOpt readPitchMargin p.pitchMargin,
        readOpt readTimeMargin p.timeMargin, readOpt readEndTime p.endTime with
  | .ok tu, .ok td, .ok pm, .ok tm, .ok et =>
    .ok { timeUnit := tu, timeDiv := td, onsetOnly := p.onsetOnly.map PyVal.truthy, noteSep := p.noteSep.map PyVal.truthy,
          pitchMargin := pm, timeMargin := tm, returnIdxs := p.returnIdxs.map PyVal.truthy,
          pianoRange := p.pianoRange.map PyVal.truthy, removeDrums := p.removeDrums.map PyVal.truthy,
          removeSilence := p.removeSilence.map PyVal.truthy,
          endTime := match et with
            | none => none
            | some none => none            -- `end_time=None` is the default
            | some (some e) => some e
          binary := p.binary.map PyVal.truthy }
  | a, b, c, d, e =>
    if isBad a || isBad b || isBad c || isBad d || isBad e then .bad else .raise
where
  isBad {α : Type} : Read α → Bool
    | .bad => true
    | _ => false

/-- `compute_pianoroll(note_info, **kw)` with arguments of any kind, in binary64 -/
def computePianorollPy (kind : String) (a : NoteArray) (p : PyArgs) : Read (Option (Roll × Bool)) :=
  match readArgs p with
  | .ok kw => .ok (computePianorollKwF kind a kw)
  | .raise => .ok none
  | .bad => .bad

end Model.PianoRoll
