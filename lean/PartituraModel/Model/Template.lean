/-
C07 — match-line templates: the data types the translator fills
(`Gen/MatchTemplates.lean`) and the generic engine that formats a template and
searches a string with a template's regular expression.

The regular expressions of `partitura/io/matchfile_base.py`, `matchlines_v0.py`,
`matchlines_v1.py` use a tiny sub-language: literal characters (possibly a bare
`.` wildcard) and named groups `(?P<name>CLASS+)` / `(?P<name>CLASS*)` over five
character classes.  `matchSegs` is Python `re`'s matching for that sub-language:
a greedy group first takes the longest run of class characters and gives
characters back one at a time until the rest of the pattern matches
(backtracking, depth first); `search` tries the start offsets from left to right
(`Pattern.search`), trailing text is ignored.

Lean core only.
-/
namespace Model.Template

/-- the character classes that occur in the match-line patterns -/
inductive CharClass
  | notComma    -- [^,]
  | any         -- .      (no newline)
  | digitComma  -- [0-9,]
  | lowerComma  -- [a-z,]
  | notRParen   -- [^\)]
  deriving DecidableEq, Repr

def CharClass.mem : CharClass → Char → Bool
  | .notComma, c => c != ','
  | .any, c => c != '\n'
  | .digitComma, c => c.isDigit || c == ','
  | .lowerComma, c => c.isLower || c == ','
  | .notRParen, c => c != ')'

/-- a pattern character: an exact character or the `.` wildcard -/
inductive PChar
  | ch (c : Char)
  | dot
  deriving DecidableEq, Repr

def PChar.matches : PChar → Char → Bool
  | .ch c, d => c == d
  | .dot, d => d != '\n'

/-- regular-expression side: literal run or named greedy group `CLASS{min,}` -/
inductive Seg
  | lit (p : List PChar)
  | fld (name : String) (cls : CharClass) (min : Nat)
  deriving DecidableEq, Repr

/-- `out_pattern` side: literal text or `{field}` -/
inductive OSeg
  | lit (s : String)
  | fld (name : String)
  deriving DecidableEq, Repr

/-- a plain literal of the pattern -/
def pl (s : String) : Seg := .lit (s.toList.map PChar.ch)

/-- spelling used when a key signature is written -/
inductive KeyFmt | v100 | v030 | v030list | v010
  deriving DecidableEq, Repr

/-- named formatters (`format_*` of matchfile_utils.py, and the lambdas of the field tables) -/
inductive Enc
  | int            -- format_int  (`-` for None)
  | strip          -- format_string
  | raw            -- str.format without a formatter
  | quoted         -- format_string_old
  | fix (k : Nat)  -- f"{x:.kf}"
  | repr           -- format_float_unconstrained
  | frac           -- format_fractional
  | fracRational   -- format_fractional_rational
  | list           -- format_list  "[a,b]"
  | listBody       -- format_list whose brackets the translator moved into the literals
  | upper | lower  -- str(x).upper() / .lower()
  | accTable (t : List (Option Int × String))   -- accidental formatter tabulated over its domain
  | version
  | key (f : KeyFmt)
  | tsig | tsigList
  | tempo
  | byAttr         -- looked up in `valueBy` with the line's Attribute
  | unmodelled
  deriving DecidableEq, Repr

/-- named interpreters (`interpret_*`) -/
inductive Dec
  | int | float | str | strOld | frac | list | listInt | version | key | tsig | tempo | byAttr | unmodelled
  deriving DecidableEq, Repr

/-- post-processing done by the class after the fields are interpreted -/
inductive Post
  | none
  | pitchSpelling       -- BaseSnoteLine: ensure_pitch_spelling_format on the three raw strings
  | pitchSpellingNote   -- matchlines_v0.MatchNote.__init__: the same on (str, str, int) + MIDI pitch
  deriving DecidableEq, Repr

structure Template where
  name : String
  kind : String
  version : Nat × Nat × Nat
  out : List OSeg
  pat : List Seg
  fields : List (String × Enc × Dec)
  valueBy : List (String × Enc × Dec)
  post : Post
  unmodelled : Option String := none
  deriving Repr

inductive CPart
  | tpl (name : String)
  | lit (s : String)
  deriving DecidableEq, Repr

/-- a line made of component lines: written by concatenation, read by searching every
    component (and every identifier literal) in the whole line -/
structure Composite where
  name : String
  kind : String
  version : Nat × Nat × Nat
  parts : List CPart
  idents : List String
  deriving Repr

-- ---------------------------------------------------------------- matching

/-- match a literal at the start of `s`; the remainder on success -/
def litMatch : List PChar → List Char → Option (List Char)
  | [], s => some s
  | _ :: _, [] => none
  | p :: ps, c :: s => if p.matches c then litMatch ps s else none

/-- try the prefix lengths `n, n-1, …, lo` of `s` for a greedy group; `k` matches the rest of the
    pattern on the remainder.  First success wins (longest first = greedy with backtracking). -/
def tryLens {R : Type} (k : List Char → Option R) (s : List Char) (lo : Nat) : Nat → Option (List Char × R)
  | 0 => if lo = 0 then (k s).map (fun r => ([], r)) else none
  | n + 1 =>
    if n + 1 < lo then none
    else match k (s.drop (n + 1)) with
      | some r => some (s.take (n + 1), r)
      | none => tryLens k s lo n

/-- anchored match of a segment list; the captured groups in order -/
def matchSegs : List Seg → List Char → Option (List (String × List Char))
  | [], _ => some []
  | .lit p :: rest, s =>
    match litMatch p s with
    | some s' => matchSegs rest s'
    | none => none
  | .fld name cls lo :: rest, s =>
    (tryLens (matchSegs rest) s lo (s.takeWhile cls.mem).length).map fun (x, r) => (name, x) :: r

/-- `Pattern.search`: the first start offset at which the anchored match succeeds -/
def search (segs : List Seg) : List Char → Option (List (String × List Char))
  | [] => matchSegs segs []
  | c :: s =>
    match matchSegs segs (c :: s) with
    | some r => some r
    | none => search segs s

/-- `Pattern.search` together with the start offset of the match (`m.start()`), counting from `k` -/
def searchFrom (segs : List Seg) : List Char → Nat → Option (Nat × List (String × List Char))
  | [], k => (matchSegs segs []).map fun r => (k, r)
  | c :: s, k =>
    match matchSegs segs (c :: s) with
    | some r => some (k, r)
    | none => searchFrom segs s (k + 1)

/-- substring test (`re.search` of a pure literal) -/
def findLit (p : List Char) : List Char → Bool
  | [] => p.isEmpty
  | c :: s => p.isPrefixOf (c :: s) || findLit p s

-- ---------------------------------------------------------------- formatting

/-- `out_pattern.format(**fields)` for already encoded field texts -/
def render (out : List OSeg) (v : String → List Char) : List Char :=
  match out with
  | [] => []
  | .lit s :: rest => s.toList ++ render rest v
  | .fld n :: rest => v n ++ render rest v

/-- the groups a successful match of `pat` on `render out v` must return -/
def groupsOf (pat : List Seg) (v : String → List Char) : List (String × List Char) :=
  match pat with
  | [] => []
  | .lit _ :: rest => groupsOf rest v
  | .fld n _ _ :: rest => (n, v n) :: groupsOf rest v

-- ---------------------------------------------------------------- well-formedness (decidable)

/-- the literal of the out_pattern is matched by the literal of the regular expression -/
def litAgree : List PChar → List Char → Bool
  | [], [] => true
  | p :: ps, c :: cs => p.matches c && litAgree ps cs
  | _, _ => false

/-- the literal of the regular expression matches a prefix of the out_pattern's literal
    (the last literal only: `note(...)` is written with a final `.` the pattern does not ask for) -/
def litPrefix : List PChar → List Char → Bool
  | [], _ => true
  | p :: ps, c :: cs => p.matches c && litPrefix ps cs
  | _ :: _, [] => false

/-- `out` and `pat` have the same shape: same literals (the final one up to trailing text), same
    fields in the same order, and every group is followed by a non-empty literal -/
def agree : List OSeg → List Seg → Bool
  | [], [] => true
  | .lit s :: o, .lit p :: q =>
    (if o.isEmpty && q.isEmpty then litPrefix p s.toList else litAgree p s.toList) && agree o q
  | .fld n :: o, .fld n' _ _ :: q =>
    n == n' && (match q with | .lit (_ :: _) :: _ => true | _ => false) && agree o q
  | _, _ => false

def fieldNames : List Seg → List String
  | [] => []
  | .lit _ :: q => fieldNames q
  | .fld n _ _ :: q => n :: fieldNames q

/-- `TemplateOK`: shapes agree, the template starts with a literal, field names are distinct and are
    exactly the names of the field table, and everything is modelled -/
def templateOK (t : Template) : Bool :=
  agree t.out t.pat
    && (match t.pat with | .lit (_ :: _) :: _ => true | _ => false)
    && (fieldNames t.pat).Nodup
    && fieldNames t.pat == t.fields.map (·.1)
    && t.unmodelled.isNone
    && t.fields.all (fun f => f.2.1 != Enc.unmodelled && f.2.2 != Dec.unmodelled)
    && t.valueBy.all (fun f => f.2.1 != Enc.unmodelled && f.2.2 != Dec.unmodelled)

/-- the first literal of a segment list (what terminates the group in front of it) -/
def headLit : List Seg → List PChar
  | .lit p :: _ => p
  | _ => []

/-- all offsets `j` with `lo < j ≤ hi` satisfy `f` -/
def allBetween (lo hi : Nat) (f : Nat → Bool) : Bool :=
  (List.range (hi - lo)).all fun i => f (lo + 1 + i)

/-- `FieldsOK` (structural form): every field text lies in its class and has the minimal length, and
    the literal that terminates it does not occur again inside the run of characters the group's
    class can swallow (so backtracking stops exactly at the end of the field). -/
def fieldsOK : List OSeg → List Seg → (String → List Char) → List Char → Bool
  | [], [], _, _ => true
  | .lit _ :: o, .lit _ :: q, v, tail => fieldsOK o q v tail
  | .fld n :: o, .fld _ cls lo :: q, v, tail =>
    let x := v n
    let s := x ++ (render o v ++ tail)
    x.all cls.mem && lo ≤ x.length
      && allBetween x.length (s.takeWhile cls.mem).length (fun j => (litMatch (headLit q) (s.drop j)).isNone)
      && fieldsOK o q v tail
  | _, _, _, _ => false

/-- `FieldsOK` (general form): the rest of the pattern matches at no later offset inside the run.
    Needed for `scoreprop`, whose free-text Value is followed by commas. -/
def fieldsOKGen : List OSeg → List Seg → (String → List Char) → List Char → Bool
  | [], [], _, _ => true
  | .lit _ :: o, .lit _ :: q, v, tail => fieldsOKGen o q v tail
  | .fld n :: o, .fld _ cls lo :: q, v, tail =>
    let x := v n
    let s := x ++ (render o v ++ tail)
    x.all cls.mem && lo ≤ x.length
      && allBetween x.length (s.takeWhile cls.mem).length (fun j => (matchSegs q (s.drop j)).isNone)
      && fieldsOKGen o q v tail
  | _, _, _, _ => false

/-- number of commas a match of the segment list consumes at least (its literals' commas) -/
def litCommas : List Seg → Nat
  | [] => 0
  | .lit p :: q => (p.filter (· == PChar.ch ',')).length + litCommas q
  | .fld _ _ _ :: q => litCommas q

/-- every group up to the end of the list excludes the comma -/
def commaFree : List Seg → Bool
  | [] => true
  | .lit p :: q => p.all (· != PChar.dot) && commaFree q
  | .fld _ cls _ :: q => (cls == .notComma) && commaFree q

end Model.Template
