/-
The deterministic wrapper of partitura/musicanalysis/voice_separation.py around the
contig-mapping search: `prepare_notearray` (ids = row numbers), the chord grouping
`idx_equivs` of `estimate_voices(monophonic_voices=False)`, the scatter of VoSA's voices
back to the rows, `rename_voices`, and the reversal `max - v + 1`.
The search itself (`VoSA(input_array).note_array()`) is a PARAMETER `vosa`.
Lean core only.
-/
import PartituraModel.Model.Basic

namespace Model.Voices

/-- a row of `prepare_notearray`: (pitch, onset, duration); the id is the row number -/
abbrev VNote := Int × Rat × Rat
/-- a row of the array handed to VoSA: (id, note) -/
abbrev VRow := Nat × VNote
/-- the search: rows ↦ the (id, voice) columns of `VoSA(rows).note_array()` -/
abbrev Vosa := List VRow → List (Nat × Int)

-- ------------------------------------------------------------------ rename_voices, reversal

/-- the generator of `rename_voices`: `vmap.setdefault(v, len(vmap) + 1)` over `voices`;
    `seen` is the dict's key list in insertion order (value of key number i is i + 1) -/
def renameAux : List Int → List Int → List Int
  | [], _ => []
  | v :: rest, seen =>
    match indexOf v seen with
    | some i => ((i : Int) + 1) :: renameAux rest seen
    | none => ((seen.length : Int) + 1) :: renameAux rest (seen ++ [v])

/-- `rename_voices(voices)` -/
def rename (voices : List Int) : List Int := renameAux voices []

/-- Python `max(list)`; `none` = ValueError on the empty list -/
def listMax : List Int → Option Int
  | [] => none
  | x :: xs => some (xs.foldl max x)

/-- `max(rvoices) - rvoices + 1` -/
def reverseVoices (r : List Int) : Option (List Int) :=
  (listMax r).map fun m => r.map fun v => m - v + 1

/-- renaming followed by reversal -/
def finalize (voices : List Int) : Option (List Int) := reverseVoices (rename voices)

-- ------------------------------------------------------------------ chord grouping

/-- a chord under construction: its (onset, duration) key, first member, later members;
    members are (row number, pitch) -/
structure Group where
  key : Rat × Rat
  first : Nat × Int
  rest : List (Nat × Int)

def Group.members (g : Group) : List Nat := g.first.1 :: g.rest.map (·.1)

/-- `note_by_key[(onset, dur)].append(i)` on a defaultdict (insertion-ordered) -/
def addToGroups (gs : List Group) (key : Rat × Rat) (m : Nat × Int) : List Group :=
  match gs with
  | [] => [{ key := key, first := m, rest := [] }]
  | g :: rest =>
    if g.key = key then { g with rest := g.rest ++ [m] } :: rest
    else g :: addToGroups rest key m

def groupsAux : List VNote → Nat → List Group → List Group
  | [], _, gs => gs
  | (p, on, du) :: rest, i, gs => groupsAux rest (i + 1) (addToGroups gs (on, du) (i, p))

/-- `note_by_key.values()` -/
def groups (notes : List VNote) : List Group := groupsAux notes 0 []

/-- `argmax_pitch(idx, pitches)` = `idx[np.argmax(pitches[idx])]`: the FIRST member of maximal pitch -/
def leaderAux : List (Nat × Int) → Nat × Int → Nat
  | [], b => b.1
  | m :: ms, b => if m.2 > b.2 then leaderAux ms m else leaderAux ms b

def Group.leader (g : Group) : Nat := leaderAux g.rest g.first

/-- `idx_equivs`: dict from the id given to VoSA to the row numbers that receive its voice -/
def idxEquivs (mono : Bool) (notes : List VNote) : List (Nat × List Nat) :=
  if mono then (List.range notes.length).map fun i => (i, [i])
  else (groups notes).map fun g => (g.leader, g.members)

/-- insertion of a key into an ascending list (Python `sorted`) -/
def insertAsc (k : Nat) : List Nat → List Nat
  | [] => [k]
  | x :: xs => if k ≤ x then k :: x :: xs else x :: insertAsc k xs

def sortAsc (l : List Nat) : List Nat := l.foldr insertAsc []

/-- `input_array`: all rows, or `notearray[sorted(idx_equivs.keys())]` -/
def vosaInput (mono : Bool) (notes : List VNote) : List VRow :=
  if mono then notes.zipIdx.map fun (x, i) => (i, x)
  else (sortAsc ((idxEquivs false notes).map (·.1))).filterMap fun i => notes[i]?.map fun x => (i, x)

-- ------------------------------------------------------------------ scatter

/-- `voices[idx_equivs[idx]] = voice` -/
def setAll (cells : List (Option Int)) (members : List Nat) (v : Int) : List (Option Int) :=
  members.foldl (fun c i => c.set i (some v)) cells

/-- the loop `for idx, voice in zip(v_notearray["id"], v_notearray["voice"])` over
    `voices = np.empty(n)` (cells start undefined = `none`); outer `none` = KeyError -/
def scatter (equivs : List (Nat × List Nat)) : List (Nat × Int) → List (Option Int) → Option (List (Option Int))
  | [], cells => some cells
  | (id, v) :: rest, cells =>
    match lookup id equivs with
    | none => none
    | some members => scatter equivs rest (setAll cells members v)

/-- all cells defined (`none`: a cell of `np.empty` was never written: the code would return garbage) -/
def allSome : List (Option Int) → Option (List Int)
  | [] => some []
  | none :: _ => none
  | some v :: rest => (allSome rest).map (v :: ·)

/-- `estimate_voices(note_info, monophonic_voices)` given the search `vosa` -/
def estimateVoices (vosa : Vosa) (mono : Bool) (notes : List VNote) : Option (List Int) :=
  if notes = [] then none
  else
    match scatter (idxEquivs mono notes) (vosa (vosaInput mono notes)) (List.replicate notes.length none) with
    | none => none
    | some cells =>
      match allSome cells with
      | none => none
      | some voices => finalize voices

end Model.Voices
