/-
C12, round 5: the conversion functions of partitura/utils/music.py and partitura/score.py written over the
literals that stand INSIDE their bodies (Gen/C12Tables.lean, regenerated from the live source on every run) and
with the glue the first model (Model/Pitch.lean) left out:

  * `mode in ("minor", -1)` / `mode in ("major", None, "none", 1)`: Python membership (`==`: numbers by value)
    over the regenerated tuples, as an `if / elif / else raise` chain, once per function;
  * `fifths_mode_to_key_name`: the range check with the regenerated bounds in front of Python list indexing
    (negative indices wrap) with the regenerated offset;
  * `ensure_pitch_spelling_format` (step check incl. the rest letter, sign strings, `int(...)` of non-int numbers,
    the `"-"` octave) and the two functions that return through it;
  * the note-name scanner over the character classes read off NOTE_NAME_PATT;
  * `alter or 0`, `unit or "q"`, keyword defaults;
  * `Note.alter_sign`, `format_symbolic_duration`, `Tuplet.duration_multiplier` with absent types.

Model/Pitch.lean is shared with other properties and stays as it is; Props/C12Ext.lean proves that the
functions here coincide with it (so every theorem of Props/C12.lean is a theorem about these functions).
-/
import PartituraModel.Gen.Tables
import PartituraModel.Gen.C12Tables
import PartituraModel.Model.Basic
import PartituraModel.Model.Pitch

namespace Model
open Gen Gen.C12

-- ------------------------------------------------------------------ `x in (…)` chains

/-- `if x in t0: b0 elif x in t1: b1 … else: raise` -/
def chainFind {β : Type} (x : PyLit) : List (List PyLit × β) → Option β
  | [] => none
  | (t, b) :: rest => if t.contains x then some b else chainFind x rest

/-- `fifths_mode_to_key_name(fifths, mode)`: mode chain, then the range check, then `keylist[fifths + offset]`
    (Python indexing: a negative index counts from the end) -/
def fifthsModeToKeyNameG (fifths : Int) (mode : PyLit) : Option String :=
  match chainFind mode f2kModes with
  | none => none
  | some (isMinor, suffix) =>
    let keylist := if isMinor then MINOR_KEYS else MAJOR_KEYS
    if fifthsLo ≤ fifths ∧ fifths ≤ fifthsHi then
      (pyIndex keylist (fifths + fifthsOffset)).map (· ++ suffix)
    else none

/-- the same without the range check (what the indexing alone would do) -/
def keyListIndex (fifths : Int) (isMinor : Bool) : Option String :=
  pyIndex (if isMinor then MINOR_KEYS else MAJOR_KEYS) (fifths + fifthsOffset)

def keyModeToIntG (mode : PyLit) : Option Int := chainFind mode kmiModes
def keyIntToModeG (mode : PyLit) : Option String := chainFind mode kimModes

/-- `key_name_to_fifths_mode` over a given `fifths_list` (same text as `Model.keyNameToFifthsMode`) -/
def keyNameToFifthsModeL (fl : List String) (name : String) : Option (Int × Mode) :=
  let cs := name.toList
  match cs with
  | [] => none
  | c0 :: _ =>
    let k0 := String.ofList [c0]
    let nb : Int := countChar 'b' name
    let ns : Int := countChar '#' name
    if cs.contains 'm' then
      let sList := fl.drop 4 ++ fl.take 4
      match indexOf k0 sList with
      | none => none
      | some i =>
        if cs.contains 'b' || (cs.length == 2 && i > 2) then
          (indexOf k0 sList.reverse).map fun j =>
            let idx : Int := j + 1
            let corr : Int := if idx > 4 then 1 else 0
            (-idx - 7 * (nb - corr), Mode.minor)
        else
          let idx : Int := i
          let corr : Int := if idx > 2 then 1 else 0
          some (idx + 7 * (ns - corr), Mode.minor)
    else
      let sList := fl.drop 1 ++ fl.take 1
      if cs.contains 'b' || name == "F" then
        (indexOf k0 sList.reverse).map fun j =>
          let idx : Int := j + 1
          let corr : Int := if idx > 1 then 1 else 0
          (-idx - 7 * (nb - corr), Mode.major)
      else
        (indexOf k0 sList).map fun i =>
          let idx : Int := i
          let corr : Int := if idx > 5 then 1 else 0
          (idx + 7 * (ns - corr), Mode.major)

def keyNameToFifthsModeG (name : String) : Option (Int × Mode) := keyNameToFifthsModeL k2fFifthsList name

def modeName : Mode → String
  | .major => "major"
  | .minor => "minor"

-- ------------------------------------------------------------------ ensure_pitch_spelling_format

/-- the `alter` argument: a sign string, an `int`, another finite number (a float), or `None` -/
inductive AlterArg where
  | sign (s : String)
  | int (i : Int)
  | num (r : Rat)
  | none
  deriving DecidableEq, Repr

/-- the `octave` argument: a string (`"-"` of Batik match files, or the text of an integer), an `int`, another
    finite number, or `None` -/
inductive OctArg where
  | str (s : String)
  | int (i : Int)
  | num (r : Rat)
  | none
  deriving DecidableEq, Repr

/-- `int(x)` of a finite number: truncation towards zero -/
def truncRat (r : Rat) : Int := Int.tdiv r.num (r.den : Int)

/-- `int(s)` on `[+-]?[0-9]+` (what the generator produces); `none` = ValueError -/
def intOfString (s : String) : Option Int :=
  let go (ds : List Char) : Option Nat := if ds.isEmpty || !(ds.all Char.isDigit) then none else some (digitsToNat ds)
  match s.toList with
  | '-' :: ds => (go ds).map fun n => -(n : Int)
  | '+' :: ds => (go ds).map fun n => (n : Int)
  | ds => (go ds).map fun n => (n : Int)

/-- `ensure_pitch_spelling_format(step, alter, octave)`; `none` = ValueError.
    The rest letter is whatever `"r"` the source compares with (`step.lower() != "r"`). -/
def ensureFormat (step : String) (alter : AlterArg) (octave : OctArg) : Option (String × Option Int × Option Int) :=
  let l := lower step
  if (lookup l MIDI_BASE_CLASS).isNone && l ≠ "r" then none
  else
    -- `if isinstance(alter, str): alter = SIGN_TO_ALTER[alter]` (KeyError -> ValueError)
    let a1 : Option (Option Int) := match alter with
      | .sign s => lookup s SIGN_TO_ALTER
      | .int i => some (some i)
      | .num r => some (some (truncRat r))      -- `int(alter)`
      | .none => some Option.none               -- `int(None)`: TypeError, swallowed because alter is None
    match a1 with
    | Option.none => Option.none
    | some a =>
      let o1 : Option (Option Int) := match octave with
        | .str s => if s = "-" then some Option.none else (intOfString s).map some
        | .int i => some (some i)
        | .num r => some (some (truncRat r))
        | .none => some Option.none
      match o1 with
      | Option.none => Option.none
      | some o => some (upper step, a, o)

-- ------------------------------------------------------------------ pitch <-> spelling <-> name

/-- `alter or c`: `None` and `0` are falsy -/
def alterOr (alter : Option Int) (c : Int) : Int :=
  match alter with
  | none => c
  | some a => if a = 0 then c else a

/-- `pitch_spelling_to_midi_pitch(step, alter, octave)` over the constants of the source line -/
def spellingToMidiG (step : String) (alter : Option Int) (octave : Int) : Option Int :=
  (lookup (lower step) MIDI_BASE_CLASS).map fun b => (octave + s2mShift) * s2mOctave + b + alterOr alter s2mNoAlter

/-- `midi_pitch_to_pitch_spelling(p)`: floor division, `np.mod`, the dummy table, `ensure_pitch_spelling_format` -/
def midiToSpellingG (p : Int) : Option (String × Option Int × Option Int) :=
  let octave := p / m2sOctave - m2sShift
  match DUMMY_PS_BASE_CLASS.find? (fun e => (e.1 : Int) = p % m2sModulus) with
  | some (_, step, alter) => ensureFormat step (.int alter) (.int octave)
  | none => none

def isStepCharG (c : Char) : Bool := noteStepLo ≤ c && c ≤ noteStepHi
def isAccCharG (c : Char) : Bool := noteAccChars.contains c

/-- anchored match of NOTE_NAME_PATT at the head of `cs` (greedy classes, no backtracking needed: the accidental
    class and the digit class are disjoint) -/
def matchNoteNameAtG (cs : List Char) : Option (Char × List Char × List Char) :=
  match cs with
  | [] => none
  | c :: rest =>
    if isStepCharG c then
      let acc := rest.takeWhile isAccCharG
      let rest2 := rest.dropWhile isAccCharG
      let digs := rest2.takeWhile Char.isDigit
      if digs.isEmpty then none else some (c, acc, digs)
    else none

/-- `NOTE_NAME_PATT.search`: leftmost match -/
def searchNoteNameG : List Char → Option (Char × List Char × List Char)
  | [] => none
  | c :: rest =>
    match matchNoteNameAtG (c :: rest) with
    | some r => some r
    | none => searchNoteNameG rest

/-- `note_name_to_pitch_spelling`: search, then `ensure_pitch_spelling_format(step, alter or "n", int(octave))` -/
def noteNameToSpellingG (name : String) : Option (String × Option Int × Option Int) :=
  match searchNoteNameG name.toList with
  | none => none
  | some (s, acc, digs) =>
    ensureFormat (String.ofList [s]) (.sign (if acc.isEmpty then "n" else String.ofList acc))
      (.int (digitsToNat digs : Int))

/-- `note_name_to_midi_pitch` -/
def noteNameToMidiG (name : String) : Option Int :=
  match noteNameToSpellingG name with
  | some (s, a, some o) => spellingToMidiG s a o
  | _ => none

/-- `Note.alter_sign`: `ALTER_SIGNS[self.alter]` -/
def alterSign (alter : Option Int) : Option String := lookup alter ALTER_SIGNS

-- ------------------------------------------------------------------ durations

/-- `format_symbolic_duration`: `none` = the argument `None`; the tuplet suffix needs both keys -/
def formatSymbolic : Option (Option String × Option Nat × Option Nat × Option Nat) → String
  | none => "unknown"
  | some (ty, dots, actual, normal) =>
    let base := ty.getD "" ++ String.ofList (List.replicate (dots.getD 0) '.')
    match actual, normal with
    | some a, some n => base ++ "_" ++ showNat a ++ "/" ++ showNat n
    | _, _ => base

/-- `Tuplet.duration_multiplier` with the types as the object holds them (`None` when never set);
    `none` = KeyError / ZeroDivisionError -/
def tupletMultiplierO (actual normal : Nat) (actualType normalType : Option String) : Option Rat :=
  if actual = 0 then none
  else if actualType = normalType then some ((normal : Rat) / (actual : Rat))
  else match actualType.bind (lookup · LABEL_DURS), normalType.bind (lookup · LABEL_DURS) with
    | some a, some n => some ((normal : Rat) / (actual : Rat) * n / a)
    | _, _ => none

-- ------------------------------------------------------------------ intervals

def qualityLadderG (number : Nat) : List String :=
  if cqPerfectNumbers.contains number then cqPerfectLadder else cqOtherLadder

/-- `Interval.change_quality(num)` over the ladders written in the method -/
def changeQualityG (number : Nat) (quality : String) (num : Int) : Option String :=
  if num = 0 then some quality else changeQualityOn (qualityLadderG number) quality num

/-- `Interval(number, quality[, direction])`: the assertion of `validate` with the default direction -/
def intervalValidD (quality : String) (number : Nat) (direction : Option String) : Bool :=
  intervalValid quality number (direction.getD ivDefaultDirection)

-- ------------------------------------------------------------------ frequency (whole octaves: exact)

def ratPowInt (b : Rat) (k : Int) : Rat := if 0 ≤ k then b ^ k.toNat else 1 / b ^ (-k).toNat

/-- `midi_pitch_to_frequency(p[, a4])` where the exponent `(p - ref) / octave` is an integer (the value is then
    rational); `none` elsewhere (the general value is transcendental: Props/C12Real.lean) -/
def midiToFreqQ (p : Rat) (a4 : Option Rat) : Option Rat :=
  let e := (p - m2fRef) / m2fOctave
  if e.den = 1 then some ((a4.getD m2fDefaultA4) / m2fDiv * ratPowInt m2fBase e.num) else none

-- ------------------------------------------------------------------ seconds / ticks / tempo

/-- `seconds_to_midi_ticks(t[, mpq[, ppq]])`; `none` = division by zero -/
def secToTickG (t : Rat) (mpq ppq : Option Nat) : Option Int :=
  let m := mpq.getD s2tDefaultMpq
  let p := ppq.getD s2tDefaultPpq
  if m = 0 then none else some (roundHalfEven (s2tMicro * (p : Rat) * t / (m : Rat)))

/-- `midi_ticks_to_seconds(k[, mpq[, ppq]])` -/
def tickToSecG (k : Rat) (mpq ppq : Option Nat) : Option Rat :=
  let m := mpq.getD t2sDefaultMpq
  let p := ppq.getD t2sDefaultPpq
  if p = 0 then none else some (((m : Rat) * k) / (t2sMicro * (p : Rat)))

/-- `Tempo.microseconds_per_quarter`: `round(60 * (10**6 / to_quarter_tempo(self.unit or "q", self.bpm)))` -/
def microsecondsPerQuarterG (unit : Option String) (bpm : Rat) : Option Int :=
  let u := match unit with
    | none => mpqDefaultUnit
    | some s => if s = "" then mpqDefaultUnit else s
  match toQuarterTempo u bpm with
  | some q => if q = 0 then none else some (roundHalfEven (mpqMinute * (mpqMicro / q)))
  | none => none

end Model
