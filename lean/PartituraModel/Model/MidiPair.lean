/-
C04 — MIDI track assembly and the readers' note pairing.

Writer side (partitura/io/exportmidi.py, `save_score_midi`, last loop): the events of a track
are kept per absolute tick in insertion order; the track is written tick by tick in ascending
order, every message with the delta to the previous tick.  That is a *stable* sort by tick
(`sortEv`, insertion sort) followed by differences (`deltasFrom`).  With fix C04-5 the events of a
tick are: tempo (first track only), time/key signatures, note offs, zero-duration notes (on
directly followed by off), note ons — obtained here by sorting the concatenation of the five
lists (`trackOrder`).

Reader side (partitura/io/importmidi.py, `load_score_midi` and `load_performance_midi`):
delta times are accumulated (`absoluteFrom`), then the pairing automaton runs: a dictionary
`sounding_notes` keyed by `channel * 128 + pitch` (here the pair `(channel, pitch)`), a note-on
with positive velocity (over)writes the entry, a note-off or a note-on with velocity 0 emits the
note and deletes the entry, or is ignored when there is none (`pstep`).

Nothing outside Lean core.
-/
import PartituraModel.Model.Basic

namespace Model.MidiPair

/-- the MIDI messages the two directions write or read; `other` is anything the readers skip -/
inductive Msg where
  | tempo (mpq : Nat)
  | timeSig (num den : Int)
  | keySig (name : String)
  | noteOn (ch pitch vel : Nat)
  | noteOff (ch pitch vel : Nat)
  | other
  deriving DecidableEq, Repr

/-- a note as both readers recover it (ticks) -/
structure NoteRec where
  on : Int
  off : Int
  ch : Nat
  pitch : Nat
  vel : Nat
  deriving DecidableEq, Repr

-- ------------------------------------------------------------------ stable sort by tick, deltas

/-- insert before the first element that is not earlier (keeps `e` in front of equal ticks:
    used with `foldr`, so `e` was inserted into the dict before them) -/
def insertEv {α : Type} (e : Int × α) : List (Int × α) → List (Int × α)
  | [] => [e]
  | a :: as => if e.1 ≤ a.1 then e :: a :: as else a :: insertEv e as

/-- `for t in sorted(events_by_time.keys()): for ev in events_by_time[t]` -/
def sortEv {α : Type} (l : List (Int × α)) : List (Int × α) := l.foldr insertEv []

/-- `delta = t - t_prev` for the first message of a tick, 0 for the others -/
def deltasFrom {α : Type} (prev : Int) : List (Int × α) → List (Int × α)
  | [] => []
  | (t, m) :: rest => (t - prev, m) :: deltasFrom t rest

/-- `t_raw = t_raw + msg.time` -/
def absoluteFrom {α : Type} (prev : Int) : List (Int × α) → List (Int × α)
  | [] => []
  | (d, m) :: rest => (prev + d, m) :: absoluteFrom (prev + d) rest

/-- the five kinds of events of one track, each in insertion order, as absolute ticks -/
structure TrackEvents where
  tempos : List (Int × Msg)
  metas : List (Int × Msg)
  offs : List (Int × Msg)
  zeros : List (Int × Msg)
  ons : List (Int × Msg)
  deriving Repr

/-- the absolute-tick content of a written track -/
def trackOrder (e : TrackEvents) : List (Int × Msg) :=
  sortEv (e.tempos ++ e.metas ++ e.offs ++ e.zeros ++ e.ons)

/-- the delta-time message list of a written track -/
def writeTrack (e : TrackEvents) : List (Int × Msg) := deltasFrom 0 (trackOrder e)

-- ------------------------------------------------------------------ encoding notes as events

def onMsg (n : NoteRec) : Int × Msg := (n.on, .noteOn n.ch n.pitch n.vel)
/-- `Message("note_off", note=...)`: mido's default release velocity 64 -/
def offMsg (n : NoteRec) : Int × Msg := (n.off, .noteOff n.ch n.pitch 64)

def isZero (n : NoteRec) : Bool := n.on == n.off

/-- the note events of a list of notes, by kind (fix C04-5) -/
def noteEvents (notes : List NoteRec) : TrackEvents :=
  { tempos := [], metas := [],
    offs := (notes.filter (fun n => !isZero n)).map offMsg,
    zeros := (notes.filter isZero).flatMap (fun n => [onMsg n, offMsg n]),
    ons := (notes.filter (fun n => !isZero n)).map onMsg }

/-- absolute-tick note stream of one track -/
def encode (notes : List NoteRec) : List (Int × Msg) := trackOrder (noteEvents notes)

-- ------------------------------------------------------------------ the pairing automaton

abbrev Sounding := List ((Nat × Nat) × (Int × Nat))

structure PState where
  sounding : Sounding
  out : List NoteRec
  deriving Repr

/-- `del sounding_notes[note]` -/
def eraseKey (k : Nat × Nat) (s : Sounding) : Sounding := s.filter (fun e => e.1 ≠ k)

/-- `sounding_notes[note] = (t, velocity)` -/
def setKey (k : Nat × Nat) (v : Int × Nat) (s : Sounding) : Sounding := (k, v) :: eraseKey k s

/-- the end-of-note branch -/
def pOff (s : PState) (t : Int) (ch pitch : Nat) : PState :=
  match lookup (ch, pitch) s.sounding with
  | none => s   -- "ignoring MIDI message"
  | some (t0, v) =>
    { sounding := eraseKey (ch, pitch) s.sounding,
      out := s.out ++ [⟨t0, t, ch, pitch, v⟩] }

/-- one message at absolute tick `e.1` -/
def pstep (s : PState) (e : Int × Msg) : PState :=
  match e.2 with
  | .noteOn ch pitch vel =>
    if 0 < vel then { s with sounding := setKey (ch, pitch) (e.1, vel) s.sounding }
    else pOff s e.1 ch pitch
  | .noteOff ch pitch _ => pOff s e.1 ch pitch
  | _ => s

/-- the notes a reader recovers from the absolute-tick stream of one track, in the order they end -/
def pairAbs (evs : List (Int × Msg)) : List NoteRec := (evs.foldl pstep ⟨[], []⟩).out

/-- the same from the delta-time messages of a track -/
def pairTrack (msgs : List (Int × Msg)) : List NoteRec := pairAbs (absoluteFrom 0 msgs)

/-- `notes[msg.channel]`: channels in order of their first completed note, each with its notes -/
def channelsOf (ns : List NoteRec) : List Nat :=
  ns.foldl (fun acc n => if acc.contains n.ch then acc else acc ++ [n.ch]) []

-- ------------------------------------------------------------------ meta events of a track

/-- `(t, numerator, denominator)` of the time signatures of a track (absolute ticks) -/
def timeSigsOf (evs : List (Int × Msg)) : List (Int × Int × Int) :=
  evs.filterMap fun e => match e.2 with | .timeSig n d => some (e.1, n, d) | _ => none

def keySigsOf (evs : List (Int × Msg)) : List (Int × String) :=
  evs.filterMap fun e => match e.2 with | .keySig k => some (e.1, k) | _ => none

def temposOf (evs : List (Int × Msg)) : List (Int × Nat) :=
  evs.filterMap fun e => match e.2 with | .tempo m => some (e.1, m) | _ => none

-- ------------------------------------------------------------------ tie chains

/-- a note object of the score: onset, duration (divisions), pitch, and the index (in the list)
    of the note it is tied to, if any -/
structure ScoreNote where
  start : Nat
  dur : Nat
  pitch : Nat
  tiePrev : Bool
  tieNext : Option Nat
  deriving Repr

/-- `GenericNote.duration_tied` with the chain followed at most `fuel` steps -/
def durationTied (notes : List ScoreNote) : Nat → Nat → Nat
  | 0, _ => 0
  | fuel + 1, i =>
    match notes[i]? with
    | none => 0
    | some n =>
      match n.tieNext with
      | none => n.dur
      | some j => n.dur + durationTied notes fuel j

/-- `Part.notes_tied` with `duration_tied`: one row (start, summed duration, pitch) per chain head -/
def notesTied (notes : List ScoreNote) : List (Nat × Nat × Nat) :=
  (List.range notes.length).filterMap fun i =>
    match notes[i]? with
    | none => none
    | some n => if n.tiePrev then none else some (n.start, durationTied notes notes.length i, n.pitch)

end Model.MidiPair
