/-
C01, round 2 — extensions of Model/Timeline.lean:

* the numpy primitives the timeline code relies on, modelled as the algorithms numpy runs
  (`bsearch`: the binary search of `np.searchsorted(a, key, side="left")`; `npInsert` / `npDelete`: the
  slice-copying `np.insert(a, i, x)` / `np.delete(a, i)` for one in-range index).  Proofs/C01Np.lean proves
  that the list operations used by Model/Timeline.lean (`searchsorted` = number of leading elements `< key`,
  `List.insertIdx`, `List.eraseIdx`) compute the same results on sorted arrays / in-range indices;
* `quarter_duration_map` as a function of ARBITRARY (rational, non-point) times and of arrays of times
  (`qdAtQ`, `quarterMap`);
* the invariant that holds after EVERY history, also outside `Valid` (double registration of one side,
  `remove` of an object that is not registered): `WInv` is `Inv` with the clause "an object's start/end
  refers to the very point that lists it, and only that point lists it" weakened to its first half.  After
  `add(o, start=5); add(o, start=7)` the code leaves `o` listed by BOTH points while `o.start` is the point
  at 7 (`Strict` is the missing half; `Inv s ↔ WInv s ∧ Strict s`).
-/
import PartituraModel.Model.Timeline

namespace TL

-- ------------------------------------------------------------------ numpy primitives as algorithms

/-- the loop of numpy's `binsearch<side::left>`:
`while (min_idx < max_idx) { mid = min_idx + ((max_idx - min_idx) >> 1);
   if (arr[mid] < key) min_idx = mid + 1; else max_idx = mid; }  return min_idx;`
Every iteration shrinks `hi - lo`, so `hi - lo` units of fuel suffice. -/
def bsearchLoop (a : List Int) (key : Int) : Nat → Nat → Nat → Nat
  | 0, lo, _ => lo
  | fuel + 1, lo, hi =>
    if lo < hi then
      let mid := lo + (hi - lo) / 2
      match a[mid]? with
      | some x => if x < key then bsearchLoop a key fuel (mid + 1) hi else bsearchLoop a key fuel lo mid
      | none => lo      -- unreachable: mid < hi ≤ len(a)
    else lo

/-- `np.searchsorted(a, key)` (side="left") -/
def bsearch (a : List Int) (key : Int) : Nat := bsearchLoop a key a.length 0 a.length

/-- `np.insert(a, i, x)` for a scalar index `0 ≤ i ≤ len(a)`: a new array `a[:i] ++ [x] ++ a[i:]`;
`none` = IndexError (index out of bounds) -/
def npInsert {α : Type} (a : List α) (i : Nat) (x : α) : Option (List α) :=
  if i ≤ a.length then some (a.take i ++ x :: a.drop i) else none

/-- `np.delete(a, i)` for a scalar index `0 ≤ i < len(a)`: a new array `a[:i] ++ a[i+1:]`;
`none` = IndexError -/
def npDelete {α : Type} (a : List α) (i : Nat) : Option (List α) :=
  if i < a.length then some (a.take i ++ a.drop (i + 1)) else none

-- ------------------------------------------------------------------ quarter_duration_map on arbitrary times

def qdAtAuxQ (cur : Nat) : List (Int × Nat) → Rat → Nat
  | [], _ => cur
  | (x, y) :: rest, t => if (x : Rat) ≤ t then qdAtAuxQ y rest t else cur

/-- `Part.quarter_duration_map(t)` for an arbitrary real (here: rational) time `t`:
`interp1d(times, durs, kind="previous", bounds_error=False, fill_value=(durs[0], durs[-1]))(t)` -/
def qdAtQ : List (Int × Nat) → Rat → Option Nat
  | [], _ => none
  | (_, y) :: rest, t => some (qdAtAuxQ y rest t)

/-- `Part.quarter_duration_map(xs)` for a list / array argument: element-wise -/
def quarterMap (s : Part) (xs : List Rat) : List (Option Nat) := xs.map (qdAtQ s.qtab)

-- ------------------------------------------------------------------ the invariant of ALL histories

/-- point `x` lists object `o` on side `sd` -/
def Listed (s : Part) (sd : Side) (x : Int) (o : ObjRef) : Prop :=
  ∃ p ∈ s.points, p.t = x ∧ o ∈ p.reg sd

structure WInv (s : Part) : Prop where
  sorted : s.times.Pairwise (· < ·)
  nonneg : ∀ p ∈ s.points, 0 ≤ p.t
  links : LinksFrom none s.points
  regNodup : ∀ sd, ∀ p ∈ s.points, (p.reg sd).Nodup
  objsNodup : (s.objs.map (·.ref)).Nodup
  /-- an object's `start` (`end`) refers to a point that lists it -/
  backListed : ∀ sd, ∀ e ∈ s.objs, ∀ p ∈ s.points, e.at sd = some p.t → e.ref ∈ p.reg sd
  refOn : ∀ sd, ∀ e ∈ s.objs, ∀ t, e.at sd = some t → t ∈ s.times
  listedKnown : ∀ sd, ∀ p ∈ s.points, ∀ o ∈ p.reg sd, o ∈ s.objs.map (·.ref)
  nonempty : ∀ p ∈ s.points, p.starting ≠ [] ∨ p.ending ≠ [] ∨ p.t ∈ s.requested
  requestedOn : ∀ t ∈ s.requested, t ∈ s.times
  quarter : ∀ p ∈ s.points, qdAt s.qtab p.t = some p.quarter
  qsorted : (s.qtab.map (·.1)).Pairwise (· < ·)
  qhead : s.qtab.head?.map (·.1) = some 0

/-- the half of `Inv.listed` that double registration breaks: only the point an object refers to lists it -/
def Strict (s : Part) : Prop :=
  ∀ sd, ∀ e ∈ s.objs, ∀ p ∈ s.points, e.ref ∈ p.reg sd → e.at sd = some p.t

/-- executable form of `WInv` (`winvB_iff` in Props/C01Any) -/
def winvB (s : Part) : Bool :=
  decide (s.times.Pairwise (· < ·)) && decide (∀ p ∈ s.points, 0 ≤ p.t) && decide (LinksFrom none s.points)
  && decide (∀ sd, ∀ p ∈ s.points, (p.reg sd).Nodup)
  && decide ((s.objs.map (·.ref)).Nodup)
  && decide (∀ sd, ∀ e ∈ s.objs, ∀ p ∈ s.points, e.at sd = some p.t → e.ref ∈ p.reg sd)
  && decide (∀ sd, ∀ e ∈ s.objs, ∀ t ∈ e.at sd, t ∈ s.times)
  && decide (∀ sd, ∀ p ∈ s.points, ∀ o ∈ p.reg sd, o ∈ s.objs.map (·.ref))
  && decide (∀ p ∈ s.points, p.starting ≠ [] ∨ p.ending ≠ [] ∨ p.t ∈ s.requested)
  && decide (∀ t ∈ s.requested, t ∈ s.times)
  && decide (∀ p ∈ s.points, qdAt s.qtab p.t = some p.quarter)
  && decide ((s.qtab.map (·.1)).Pairwise (· < ·))
  && decide (s.qtab.head?.map (·.1) = some 0)

/-- the only argument condition of the all-histories theorems: quarter durations are set at times `≥ 0`
(the code does not reject a negative time there; see PARTIAL) -/
def QDNonneg : Op → Prop
  | .setQD t _ => 0 ≤ t
  | _ => True

instance (op : Op) : Decidable (QDNonneg op) := by
  cases op <;> simp only [QDNonneg] <;> infer_instance

end TL
