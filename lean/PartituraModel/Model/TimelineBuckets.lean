/-
C01, round 5 — the registries as the code stores them: `defaultdict(_OrderedSet)` keyed by the exact class.

Model/Timeline.lean keeps ONE insertion-ordered list per side and obtains a class bucket by filtering.  Here is
the dictionary itself (keys in first-touch order; READING a missing key creates an empty bucket, as
`defaultdict` does) with the operations the code performs on it, and `runB` / `runF`: the same operation
sequence on the dictionary and on the flat list.  Proofs/C01Buckets.lean proves that every observable result
(the objects a query yields, in order; the emptiness test of `_cleanup_point`) is the same — the flat list is a
sound abstraction, whatever keys reading has created.
Keys are timed classes only (`iter_all(cls=None)` also touches `object` and every other class of the
interpreter: those buckets stay empty and are never read for a timed class).
-/
import PartituraModel.Model.Timeline

namespace TL

/-- `defaultdict(_OrderedSet)`: (class id, its insertion-ordered set), keys in dict order -/
abbrev Buckets := List (Nat × List ObjRef)

/-- `d[c]` read as a value -/
def Buckets.get (b : Buckets) (c : Nat) : List ObjRef := ((b.find? (fun e => e.1 == c)).map (·.2)).getD []

/-- the side effect of `d[c]` on a defaultdict: a missing key appears with an empty set -/
def Buckets.touch (b : Buckets) (c : Nat) : Buckets := if b.any (fun e => e.1 == c) then b else b ++ [(c, [])]

/-- `d[c].<mutator>` -/
def Buckets.update (b : Buckets) (c : Nat) (f : List ObjRef → List ObjRef) : Buckets :=
  (b.touch c).map fun e => if e.1 = c then (e.1, f e.2) else e

/-- `self.starting_objects[type(obj)].add(obj)` (TimePoint.add_starting_object) -/
def Buckets.add (b : Buckets) (o : ObjRef) : Buckets := b.update o.cls (fun l => regAdd l o)

/-- `o.start.starting_objects[o.__class__].remove(o)` (Part.remove): the lookup creates the key -/
def Buckets.removeTouch (b : Buckets) (o : ObjRef) : Buckets := b.update o.cls (fun l => regRemove l o)

/-- `if type(obj) in self.starting_objects: self.starting_objects[type(obj)].remove(obj)`
(TimePoint.remove_starting_object): no key is created -/
def Buckets.removeIfKey (b : Buckets) (o : ObjRef) : Buckets :=
  if b.any (fun e => e.1 == o.cls) then b.update o.cls (fun l => regRemove l o) else b

/-- `sum(len(oo) for oo in d.values())` (`_cleanup_point`) -/
def Buckets.total (b : Buckets) : Nat := (b.map (fun e => e.2.length)).sum

/-- the classes `iter_starting(cls, include_subclasses)` looks up, in order -/
def classWalk (cls : Option Nat) (incl : Bool) : List Nat :=
  (match cls with | none => [] | some c => [c]) ++ (if incl then subSeq cls else [])

/-- `TimePoint.iter_starting(cls, include_subclasses)`: `yield from d[cls]`, then `yield from d[sub]` for every
subclass; each lookup touches its key.  Returns the yielded objects and the dictionary afterwards. -/
def Buckets.iter (b : Buckets) (cls : Option Nat) (incl : Bool) : List ObjRef × Buckets :=
  (classWalk cls incl).foldl (fun acc c => (acc.1 ++ acc.2.get c, acc.2.touch c)) ([], b)

/-- operations on one registry -/
inductive BOp
  | add (o : ObjRef)             -- tp.add_starting_object(o)
  | removeTouch (o : ObjRef)     -- Part.remove's deregistration
  | removeIfKey (o : ObjRef)     -- tp.remove_starting_object(o)
  | iter (cls : Option Nat) (incl : Bool)
  | total                        -- the emptiness test of _cleanup_point
deriving DecidableEq, Repr

inductive BOut
  | unit
  | objs (l : List ObjRef)
  | count (n : Nat)
deriving DecidableEq, Repr

/-- one operation on the dictionary -/
def stepB (b : Buckets) : BOp → Buckets × BOut
  | .add o => (b.add o, .unit)
  | .removeTouch o => (b.removeTouch o, .unit)
  | .removeIfKey o => (b.removeIfKey o, .unit)
  | .iter cls incl => let r := b.iter cls incl; (r.2, .objs r.1)
  | .total => (b, .count b.total)

/-- the same operation on the flat list of Model/Timeline.lean -/
def stepF (l : List ObjRef) : BOp → List ObjRef × BOut
  | .add o => (regAdd l o, .unit)
  | .removeTouch o => (regRemove l o, .unit)
  | .removeIfKey o => (regRemove l o, .unit)
  | .iter cls incl => (l, .objs (iterReg l cls incl))
  | .total => (l, .count l.length)

def runB (b : Buckets) : List BOp → Buckets × List BOut
  | [] => (b, [])
  | op :: ops => let r := stepB b op; let rest := runB r.1 ops; (rest.1, r.2 :: rest.2)

def runF (l : List ObjRef) : List BOp → List ObjRef × List BOut
  | [] => (l, [])
  | op :: ops => let r := stepF l op; let rest := runF r.1 ops; (rest.1, r.2 :: rest.2)

end TL
