/-
C15 - model of `partitura.score.merge_parts` (with `iter_parts` / `Score.__init__` flattening and
the part of `Part.note_array` / `note_array_from_part_list` that the property observes).

Abstract parts: one divisions value and the list of elements `list(part.iter_all())` yields, each with
its class (id in `Gen.classNames`), start, end, voice, staff and - for the note array - pitch and tie
information.  An element's `oid` stands for the identity of the Python object: `merge_parts` re-registers
the very same objects on the new part, it never copies them.

The model mirrors the code after the repairs fixes/C15-1..4 (quarter map of the new part; a missing
staff counts as staff 1; voices and staves in use are those of the elements themselves), C15-7 (integer-valued
float divisions), C15-9 (objects that are on the timeline by their end only are transferred too) and C15-11 (a part
that is reachable twice is merged once; parts are told apart by identity).

Only Lean core + Gen/ is imported.
-/
import PartituraModel.Gen.Classes
import PartituraModel.Gen.C15Tables

namespace Model.Merge

-- ---------------------------------------------------------------- classes

/-- id of a class name in `Gen.classNames` (= `numClasses` when absent, which is a subclass of nothing) -/
def classId (name : String) : Nat := Gen.classNames.idxOf name

/-- `issubclass(c, d)` through the generated MRO table -/
def isSub (c d : Nat) : Bool := (Gen.mroTab.getD c []).contains d

def isGeneric (c : Nat) : Bool := isSub c (classId "GenericNote")
/-- `Note` and its subclasses: what `Part.notes_tied` / the note array iterate over -/
def isNote (c : Nat) : Bool := isSub c (classId "Note")
/-- `isinstance(e, (GenericNote, Words, Direction, Clef))` -/
def withStaff (c : Nat) : Bool :=
  isSub c (classId "GenericNote") || isSub c (classId "Words") || isSub c (classId "Direction")
    || isSub c (classId "Clef")

inductive Mode | voice | staff | auto
  deriving DecidableEq, Repr

/-- `el_to_discard` of `merge_parts`: the class tuples of the live source, per mode
(Gen/C15Tables.lean, regenerated from the source by harness/translate_c15.py on every run) -/
def discardNames : Mode → List String
  | .voice => Gen.C15.discardVoice
  | .staff => Gen.C15.discardStaff
  | .auto => Gen.C15.discardAuto

/-- `isinstance(e, el_to_discard)` -/
def discard (m : Mode) (c : Nat) : Bool := (discardNames m).any fun n => isSub c (classId n)

/-- position of a class in the walk `iter_all()` does over the classes registered at one time point -/
def classRank (c : Nat) : Nat := Gen.objectSubclasses.idxOf c

-- ---------------------------------------------------------------- data

structure Elem where
  oid : Nat                 -- identity of the Python object
  cls : Nat
  start : Nat               -- `e.start.t`
  stop : Option Nat         -- `e.end.t` / `None`
  voice : Option Nat        -- `e.voice` (GenericNote only)
  staff : Option Nat        -- `e.staff` (GenericNote, Words, Direction, Clef)
  pitch : Option Int        -- `e.midi_pitch` (Note only)
  tiePrev : Bool            -- `e.tie_prev is not None`
  chain : List Nat          -- oids of `e.tie_next_notes`
  refs : List Nat := []     -- oids of the timed objects the attributes of `e` refer to (ties, slurs, tuplets,
                            -- beam, grace chain, fermata; start / end notes of a slur or tuplet; notes of a beam)
  extra : Nat := 0          -- every other instance attribute of the object (id, step, alter, octave, symbolic
                            -- duration, articulations, text ...) as one opaque value: `merge_parts` assigns
                            -- `e.voice`, `e.staff` and - through `Part.add` - `e.start`, `e.end`, nothing else
  deriving DecidableEq, Repr

structure APart where
  pid : Nat                 -- identity of the Part object
  divs : Nat                -- the single entry of `_quarter_durations`
  elems : List Elem         -- `list(part.iter_all())`
  tails : List Elem := []   -- objects that are on the timeline by their end only (`e.start is None`, e.g. a slur
                            -- whose start is not in the score), as `part.iter_all(mode="ending")` yields them;
                            -- their `start` field is not used
  name : Option String := none   -- the `id` attribute of the Part (`None` or a string such as "P1"): parts of
                            -- different files often carry the same one; it plays no role in merging
  deriving DecidableEq, Repr

/-- every object registered on the part: by its start (and perhaps its end), or by its end only -/
def allElems (p : APart) : List Elem := p.elems ++ p.tails

/-- a `Part` or a `PartGroup` with its children -/
inductive Tree where
  | part (p : APart)
  | group (cs : List Tree)

/-- the argument of `merge_parts` (or of `Score(...)`): one object, or a list of them -/
inductive Shape where
  | one (t : Tree)
  | many (ts : List Tree)

mutual
  /-- `iter_parts` on one element: a Part is yielded, anything else is traversed through `.children` -/
  def flattenTree : Tree → List APart
    | .part p => [p]
    | .group cs => flattenList cs
  def flattenList : List Tree → List APart
    | [] => []
    | t :: ts => flattenTree t ++ flattenList ts
end

/-- `list(iter_parts(x))`; `Score(x).parts` is the same list, and `merge_parts` takes `.parts` of a Score -/
def iterParts : Shape → List APart
  | .one t => flattenTree t
  | .many ts => flattenList ts

/-- `list({id(p): p for p in parts}.values())` (fixes/C15-11): a part that is reachable more than once - listed twice,
or on its own and inside its group - is one input.  Parts are told apart by the identity of the Part object (`pid`),
never by their `id` attribute or their contents; the first occurrence fixes the position. -/
def distinctParts : List APart → List APart
  | [] => []
  | p :: ps => p :: (distinctParts ps).filter fun q => q.pid != p.pid

-- ---------------------------------------------------------------- small numeric helpers

/-- `np.lcm.reduce` -/
def lcmList (l : List Nat) : Nat := l.foldr Nat.lcm 1

/-- sorted insertion without duplicates -/
def insertU (x : Nat) : List Nat → List Nat
  | [] => [x]
  | y :: ys => if x < y then x :: y :: ys else if x = y then y :: ys else y :: insertU x ys

/-- `np.unique`: the distinct values in increasing order -/
def uniq (l : List Nat) : List Nat := l.foldr insertU []

/-- `max(values, default=1)` -/
def maxOr1 : List Nat → Nat
  | [] => 1
  | x :: xs => (x :: xs).foldr max 0

-- ---------------------------------------------------------------- per-part quantities

/-- voices in use: those of every GenericNote (notes, grace notes, unpitched notes, rests) -/
def voicesOf (p : APart) : List Nat :=
  (allElems p).filterMap fun e => if isGeneric e.cls then e.voice else none

/-- staves in use: those of every element that carries a staff; a missing staff is staff 1 -/
def stavesOf (p : APart) : List Nat :=
  ((allElems p).filter fun e => withStaff e.cls).map fun e => e.staff.getD 1

def uVoices (p : APart) : List Nat := uniq (voicesOf p)
def uStaves (p : APart) : List Nat := uniq (stavesOf p)
def maxVoice (p : APart) : Nat := maxOr1 (uVoices p)
def maxStaff (p : APart) : Nat := maxOr1 (uStaves p)
/-- `len(unique_staves[p_ind])` -/
def nStaves (p : APart) : Nat := (uStaves p).length

/-- what the loop over the parts knows when it reaches a part -/
structure Ctx where
  first : Bool      -- `p_ind == 0`
  mult : Nat        -- `time_multiplier_per_part[p_ind]`
  vOff : Nat        -- `sum(maximum_voices[:p_ind])`
  sOff : Nat        -- `sum(maximum_staves[:p_ind])`
  nPrev : Nat       -- `n_previous_staves`
  uV : List Nat     -- `unique_voices[p_ind]`
  uS : List Nat     -- `unique_staves[p_ind]`

/-- the element filter: everything of the first part, the non-discarded classes of the others -/
def keep (m : Mode) (first : Bool) (e : Elem) : Bool := first || !discard m e.cls

/-- `voice_mapping[v]` / `staff_mapping[s]` minus the part's offset: 1-based position in the unique values -/
def rank (u : List Nat) (x : Nat) : Nat := u.idxOf x + 1

/-- the dictionary lookups of auto mode succeed (otherwise `KeyError`) -/
def keysOk (c : Ctx) (e : Elem) : Bool :=
  (!isGeneric e.cls || (match e.voice with | some v => c.uV.contains v | none => true))
    && (!withStaff e.cls || c.uS.contains (e.staff.getD 1))

/-- voice / staff renumbering of one element -/
def renumber (m : Mode) (c : Ctx) (e : Elem) : Elem :=
  match m with
  | .voice => if isGeneric e.cls then { e with voice := e.voice.map (· + c.vOff) } else e
  | .staff => if withStaff e.cls then { e with staff := some (e.staff.getD 1 + c.sOff) } else e
  | .auto =>
    let e1 := if isGeneric e.cls then
                { e with voice := e.voice.map fun v => c.nPrev * 4 + rank c.uV v } else e
    if withStaff e.cls then { e1 with staff := some (c.nPrev + rank c.uS (e.staff.getD 1)) } else e1

/-- `new_start = e.start.t * mult`, `new_end = e.end.t * mult if e.end is not None else None` -/
def rescale (k : Nat) (e : Elem) : Elem :=
  { e with start := e.start * k, stop := e.stop.map (· * k) }

def xform (m : Mode) (c : Ctx) (e : Elem) : Elem := rescale c.mult (renumber m c e)

def ctxOf (L : Nat) (first : Bool) (vo so np : Nat) (p : APart) : Ctx :=
  { first := first, mult := L / p.divs, vOff := vo, sOff := so, nPrev := np,
    uV := uVoices p, uS := uStaves p }

/-- the kept, rescaled and renumbered elements of one part -/
def partOut (m : Mode) (c : Ctx) (p : APart) : List Elem :=
  (p.elems.filter (keep m c.first)).map (xform m c)

/-- the loop over the parts with its running offsets; the result is in order of insertion into the new part -/
def mergeFrom (m : Mode) (L : Nat) : Bool → Nat → Nat → Nat → List APart → List Elem
  | _, _, _, _, [] => []
  | first, vo, so, np, p :: ps =>
    partOut m (ctxOf L first vo so np p) p
      ++ mergeFrom m L false (vo + maxVoice p) (so + maxStaff p) (np + nStaves p) ps

/-- the kept, rescaled (end only) and renumbered end-only objects of one part -/
def tailOut (m : Mode) (c : Ctx) (p : APart) : List Elem :=
  (p.tails.filter (keep m c.first)).map (xform m c)

/-- the same loop, for the objects that only have an end (they go through the same loop body, after the elements
of their part) -/
def tailsFrom (m : Mode) (L : Nat) : Bool → Nat → Nat → Nat → List APart → List Elem
  | _, _, _, _, [] => []
  | first, vo, so, np, p :: ps =>
    tailOut m (ctxOf L first vo so np p) p
      ++ tailsFrom m L false (vo + maxVoice p) (so + maxStaff p) (np + nStaves p) ps

/-- all dictionary lookups of the loop succeed -/
def keysFrom (m : Mode) (L : Nat) : Bool → Nat → Nat → Nat → List APart → Bool
  | _, _, _, _, [] => true
  | first, vo, so, np, p :: ps =>
    (((allElems p).filter (keep m first)).all (keysOk (ctxOf L first vo so np p)))
      && keysFrom m L false (vo + maxVoice p) (so + maxStaff p) (np + nStaves p) ps

/-- order in which `iter_all()` of the new part yields: by time point, then by class walk, then by insertion -/
def iterLe (a b : Elem) : Bool :=
  a.start < b.start || (a.start == b.start && classRank a.cls ≤ classRank b.cls)

/-- stable insertion: before the first element that does not come strictly earlier -/
def insertBy (le : Elem → Elem → Bool) (x : Elem) : List Elem → List Elem
  | [] => [x]
  | y :: ys => if le x y then x :: y :: ys else y :: insertBy le x ys

/-- stable sort (structural recursion, so that it also evaluates inside the kernel) -/
def isort (le : Elem → Elem → Bool) (l : List Elem) : List Elem := l.foldr (insertBy le) []

/-- every GenericNote carries a voice (precondition of the property; the code raises otherwise) -/
def voicesGiven (ps : List APart) : Bool :=
  ps.all fun p => (allElems p).all fun e => !isGeneric e.cls || e.voice.isSome

inductive Result where
  | same (p : APart)                       -- the single input part itself
  | merged (L : Nat) (elems : List Elem)   -- a new part with divisions `L`; `elems` as `iter_all()` yields them
  deriving DecidableEq, Repr

/-- `merge_parts(parts, reassign)` on parts with one divisions value each; `none` = an exception -/
def mergeParts (m : Mode) (parts : List APart) : Option Result :=
  match parts with
  | [] => none                -- `parts[0]` raises
  | [p] => some (.same p)
  | _ =>
    let L := lcmList (parts.map (·.divs))
    if parts.all (fun p => 0 < p.divs) && voicesGiven parts
        && (m != .auto || keysFrom m L true 0 0 0 parts) then
      some (.merged L (isort iterLe (mergeFrom m L true 0 0 0 parts)))
    else none

def merge (m : Mode) (s : Shape) : Option Result := mergeParts m (distinctParts (iterParts s))

/-- the end-only objects of the merged part (when `mergeParts m parts` is a merged part): `end` rescaled, voice and
staff renumbered like those of the elements; in order of insertion -/
def mergedTails (m : Mode) (parts : List APart) : List Elem :=
  tailsFrom m (lcmList (parts.map (·.divs))) true 0 0 0 parts

/-- `load_score_as_part(filename)`: `merge_parts(load_score(filename).parts)` with the default `reassign="voice"`;
`s` is the part structure of the loaded score (`Score.parts` is `list(iter_parts(structure))`) -/
def loadScoreAsPart (s : Shape) : Option Result := mergeParts .voice (distinctParts (iterParts s))

-- ---------------------------------------------------------------- Score objects and their history

/-- a `Score` object: `part_structure` (the parts and groups it was built from; nothing updates it afterwards) and
`parts`, the flat list of parts the caller sees (`score.parts`, `score[i]`, `len(score)`, iteration, `note_array()`)
and may replace -/
structure AScore where
  partStructure : List Tree
  parts : List APart

/-- `Score(x)`: `parts = list(iter_parts(x))`; `part_structure = [x]` for one part or group, `list(x)` otherwise -/
def mkScore : Shape → AScore
  | .one t => { partStructure := [t], parts := flattenTree t }
  | .many ts => { partStructure := ts, parts := flattenList ts }

/-- what a caller may do to the parts of a score after its construction -/
inductive ScoreOp where
  | setItem (i : Nat) (p : APart)    -- `score[i] = p`
  | assign (ps : List APart)         -- `score.parts = ps`; also what `unfold_part_maximal` / `unfold_part_minimal`
                                     -- do to the copy of the score they return
  | append (p : APart)               -- `score.parts.append(p)`
  | pop (i : Nat)                    -- `score.parts.pop(i)`
  | reverse                          -- `score.parts.reverse()`

/-- one step of the history (`none`: IndexError) -/
def ScoreOp.run (sc : AScore) : ScoreOp → Option AScore
  | .setItem i p => if i < sc.parts.length then some { sc with parts := sc.parts.set i p } else none
  | .assign ps => some { sc with parts := ps }
  | .append p => some { sc with parts := sc.parts ++ [p] }
  | .pop i => if i < sc.parts.length then some { sc with parts := sc.parts.eraseIdx i } else none
  | .reverse => some { sc with parts := sc.parts.reverse }

def runOps (sc : AScore) : List ScoreOp → Option AScore
  | [] => some sc
  | o :: os => (o.run sc).bind fun sc' => runOps sc' os

/-- the argument of `merge_parts` -/
inductive Arg where
  | plain (s : Shape)                        -- a part, a group, a list or tuple of parts and groups
  | score (s : Shape) (ops : List ScoreOp)   -- the object `Score(s)` after the history `ops`

/-- the parts `merge_parts` merges: `list(iter_parts(x))`, and for a Score its `.parts` as they are at the time of
the call (`none`: the history itself raised) -/
def argParts : Arg → Option (List APart)
  | .plain s => some (iterParts s)
  | .score s ops => (runOps (mkScore s) ops).map (·.parts)

/-- `merge_parts(arg, reassign)` -/
def mergeArg (m : Mode) (a : Arg) : Option Result :=
  (argParts a).bind fun ps => mergeParts m (distinctParts ps)

/-- the divisions value the model sees for a part with `_quarter_durations == qds`: the single entry, and 0 (which
`mergeParts` rejects, as the code raises "Merging parts with multiple divisions is not supported") otherwise -/
def divsOf : List Nat → Nat
  | [d] => d
  | _ => 0

-- ---------------------------------------------------------------- references between elements

/-- an object with identity `k` is registered on the part -/
def hasOid (es : List Elem) (k : Nat) : Bool := es.any fun e => e.oid == k

/-- the references that leave the part: (oid of the referring element, oid of the missing object) -/
def dangling (es : List Elem) : List (Nat × Nat) :=
  es.flatMap fun e => (e.refs.filter fun r => !hasOid es r).map fun r => (e.oid, r)

-- ---------------------------------------------------------------- closed form of the loop state (used in statements)

/-- `sum(f(p) for p in parts[:i])` -/
def sumBefore (f : APart → Nat) (ps : List APart) (i : Nat) : Nat := ((ps.take i).map f).sum

/-- the loop state when `mergeFrom m L first vo so np ps` reaches `p = ps[i]` -/
def ctxG (L : Nat) (first : Bool) (vo so np : Nat) (ps : List APart) (i : Nat) (p : APart) : Ctx :=
  ctxOf L (first && i == 0) (vo + sumBefore maxVoice ps i) (so + sumBefore maxStaff ps i)
    (np + sumBefore nStaves ps i) p

/-- the loop state of `merge_parts` at its `i`-th part `p`: multiplier `L / p.divs`, offsets = sums over the
earlier parts of their maximal voice, maximal staff and number of distinct staves -/
def ctxAt (L : Nat) (ps : List APart) (i : Nat) (p : APart) : Ctx := ctxG L true 0 0 0 ps i p

/-- where element `e` of the `i`-th part `p` ends up -/
def image (m : Mode) (L : Nat) (ps : List APart) (i : Nat) (p : APart) (e : Elem) : Elem :=
  xform m (ctxAt L ps i p) e

-- ---------------------------------------------------------------- observables

/-- the time points of a part: every start and end, once, increasing -/
def points (es : List Elem) : List Nat := uniq (es.map (·.start) ++ es.filterMap (·.stop))

/-- ... of a part that also holds objects by their end only (`tails`): their ends are time points too -/
def pointsWith (es tails : List Elem) : List Nat :=
  uniq (es.map (·.start) ++ es.filterMap (·.stop) ++ tails.filterMap (·.stop))

/-- `e.duration` -/
def durOf (e : Elem) : Option Int := e.stop.map fun (s : Nat) => (s : Int) - (e.start : Int)

def findOid (es : List Elem) (k : Nat) : Option Elem := es.find? fun e => e.oid == k

/-- `e.duration_tied`: own duration plus those of `tie_next_notes`, looked up among the part's elements -/
def durTied (es : List Elem) (e : Elem) : Option Int :=
  e.chain.foldr (fun k acc => match acc, (findOid es k).bind durOf with
                              | some a, some d => some (d + a)
                              | _, _ => none) (durOf e)

structure Row where
  onset : Nat
  dur : Option Int
  pitch : Option Int
  voice : Option Nat
  staff : Nat        -- `note.staff if note.staff else 0`
  oid : Nat
  deriving DecidableEq, Repr

def rowOf (es : List Elem) (e : Elem) : Row :=
  { onset := e.start, dur := durTied es e, pitch := e.pitch, voice := e.voice,
    staff := e.staff.getD 0, oid := e.oid }

/-- rows of `part.note_array(include_staff=True)`: the notes of `notes_tied`, in iteration order -/
def rows (es : List Elem) : List Row :=
  (es.filter fun e => isNote e.cls && !e.tiePrev).map (rowOf es)

/-- the columns the property compares with the score-level array -/
def Row.sound (r : Row) : Nat × Option Int × Option Int := (r.onset, r.dur, r.pitch)

/-- a row of an input part rescaled by `k` as `note_array_from_part_list` does -/
def scaleSound (k : Nat) (r : Nat × Option Int × Option Int) : Nat × Option Int × Option Int :=
  (r.1 * k, r.2.1.map (· * (k : Int)), r.2.2)

/-- sounding rows of the score-level note array of the parts (before sorting) -/
def refSound (parts : List APart) : List (Nat × Option Int × Option Int) :=
  let L := lcmList (parts.map (·.divs))
  parts.flatMap fun p => (rows p.elems).map fun r => scaleSound (L / p.divs) r.sound

end Model.Merge
